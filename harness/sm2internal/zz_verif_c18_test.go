//go:build verif

package internal

import (
	"fmt"
	"math/big"
	"testing"

	"github.com/bilibili/smgo/zzverif/hk"
	"github.com/bilibili/smgo/zzverif/ref"
)

// C18 (SM2 part) — exhaustive walk of the live comb tables: entry (j,i) of the
// first table must be the Montgomery form of the affine coordinates of
//   sum over set bits b of (i+1):  2^(rem + j*iter + b*sub*iter) * G
// and entry i of the remainder table must be (i+1)*G, all computed by the
// independent reference model.

type c18tbl struct {
	name           string
	first          [][][]*[4]uint64
	second         [][]*[4]uint64
	w, sub, it, rm int
}

// c18tables reads the package-level table variables NOW.
func c18tables() []c18tbl {
	return []c18tbl{
		{"4-2-32", sm2Precomputed_4_2_32, nil, 4, 2, 32, 0},
		{"6-3-14", sm2Precomputed_6_3_14, sm2Precomputed_6_3_14_Remainder, 6, 3, 14, 4},
		{"5-3-17", sm2Precomputed_5_3_17, sm2Precomputed_5_3_17_Remainder, 5, 3, 17, 1},
		{"7-3-12", sm2Precomputed_7_3_12, sm2Precomputed_7_3_12_Remainder, 7, 3, 12, 4},
	}
}

func TestVerifC18SM2(t *testing.T) {
	r := hk.NewReporter("C18", "sm2-tables")
	defer r.Close()
	if err := ref.SelfTestSM2(); err != nil {
		r.Inconclusive("oracle self-test: " + err.Error())
		return
	}
	tbls := c18tables()
	// an entry is re-resolved from the LIVE table variables on every walk: the slices hold pointers, and
	// an entry that has been swapped for another object must be judged by what the library reads now
	type entry struct {
		t     int
		where string
		get   func() (x, y *[4]uint64)
		k     *big.Int
	}
	var es []entry
	for ti, tb := range tbls {
		width := 1<<uint(tb.w) - 1
		if len(tb.first) != tb.sub {
			r.Violation("table-shape:"+tb.name, hk.D{"subtables": len(tb.first), "want": tb.sub})
			continue
		}
		for j := 0; j < tb.sub; j++ {
			if len(tb.first[j]) != 2 || len(tb.first[j][0]) != width || len(tb.first[j][1]) != width {
				r.Violation("table-shape:"+tb.name, hk.D{"subtable": j})
				continue
			}
			for i := 0; i < width; i++ {
				k := new(big.Int)
				for b := 0; b < tb.w; b++ {
					if (i+1)>>uint(b)&1 == 1 {
						k.SetBit(k, tb.rm+j*tb.it+b*tb.sub*tb.it, 1)
					}
				}
				ti, j, i := ti, j, i
				es = append(es, entry{ti, fmt.Sprintf("%s[sub=%d][%d]", tb.name, j, i), func() (*[4]uint64, *[4]uint64) { f := c18tables()[ti].first; return f[j][0][i], f[j][1][i] }, k})
			}
		}
		if tb.rm >= 1 {
			cnt := 1<<uint(tb.rm) - 1
			if len(tb.second) != 2 || len(tb.second[0]) != cnt || len(tb.second[1]) != cnt {
				r.Violation("table-shape:"+tb.name+"-remainder", hk.D{})
				continue
			}
			for i := 0; i < cnt; i++ {
				ti, i := ti, i
				es = append(es, entry{ti, fmt.Sprintf("%s-remainder[%d]", tb.name, i), func() (*[4]uint64, *[4]uint64) { f := c18tables()[ti].second; return f[0][i], f[1][i] }, big.NewInt(int64(i + 1))})
			}
		}
	}
	r.Note("table_points", len(es))
	walk := func(phase string) {
		hk.Parallel(len(es), func(i int) {
			e := es[i]
			want := ref.BaseMulFast(e.k)
			ex, ey := e.get()
			gx, gy := zvMontBig(ex), zvMontBig(ey)
			canonical := zvLimbsBelowP(ex) && zvLimbsBelowP(ey)
			if want.Inf || gx.Cmp(want.X) != 0 || gy.Cmp(want.Y) != 0 || !canonical {
				r.Violation("table-entry-wrong:"+tbls[e.t].name+":"+phase, hk.D{"entry": e.where, "phase": phase, "scalar": e.k.Text(16), "got_x": gx.Text(16), "got_y": gy.Text(16), "want": zvPtHex(want), "canonical_limbs": canonical})
			}
			r.Eval("table:" + tbls[e.t].name + fmt.Sprintf(":%d:%s", i%64, phase))
		})
	}
	r.Sample(hk.D{"entry": es[100].where, "scalar": es[100].k.Text(16), "x_limbs": fmt.Sprint(func() [4]uint64 { x, _ := es[100].get(); return *x }())})
	walk("at-start")
	// the tables are LIVE package state: use every routine that reads them with hostile but legal
	// arguments (double-scalar multiplication with tiny / zero / one-hot scalars, all comb schemes,
	// variable-point multiplication), then walk them again
	{
		rng := hk.NewRNG(hk.Seed(), "c18hostile")
		P := zvFromRef(ref.BaseMulFast(zvRandScalarI(rng)), zvBi(3))
		small := []*big.Int{zvBi(0), zvBi(1), zvBi(2), zvBi(15), zvBi(16), zvBi(8191), new(big.Int).Lsh(zvBi(1), 13), new(big.Int).Lsh(zvBi(1), 14)}
		for _, sv := range small {
			for q := 0; q < 12; q++ {
				g := rng.Bytes(32)
				switch q % 4 {
				case 1:
					g = ref.B32(new(big.Int).Lsh(zvBi(int64(1+rng.Intn(63))), uint(4+rng.Intn(240))))
				case 2:
					g = make([]byte, 32)
				}
				hk.Try(func() { ScalarMixedMult_Unsafe(g, P, ref.B32(sv)) })
			}
		}
		for q := 0; q < 40; q++ {
			k := rng.Bytes(32)
			hk.Try(func() {
				ScalarBaseMult(k)
				scalarBaseMult_SkipBitExtraction_5_3_17(k)
				scalarBaseMult_SkipBitExtraction_4_2_32(k)
				scalarBaseMult_SkipBitExtraction_7_3_12(k)
				ScalarMult(P, k)
				ScalarMixedMult_Unsafe(k, P, rng.Bytes(32))
			})
		}
	}
	walk("after-hostile-use")
	// curve constants used by the arithmetic
	if g, _ := zvToRef(sm2G); !g.Eq(ref.G()) {
		r.Violation("constant-wrong:sm2G", hk.D{})
	}
	if zvRawBig(sm2B).Cmp(ref.SM2B) != 0 {
		r.Violation("constant-wrong:sm2B", hk.D{})
	}
	if zvRawBig(sm2ElementOne).Cmp(big.NewInt(1)) != 0 {
		r.Violation("constant-wrong:sm2ElementOne", hk.D{})
	}
	pr := getCurve().Params()
	if pr.P.Cmp(ref.SM2P) != 0 || pr.N.Cmp(ref.SM2N) != 0 || pr.B.Cmp(ref.SM2B) != 0 || pr.Gx.Cmp(ref.SM2Gx) != 0 || pr.Gy.Cmp(ref.SM2Gy) != 0 {
		r.Violation("constant-wrong:curve-params", hk.D{})
	}
	if GetN().Cmp(ref.SM2N) != 0 {
		r.Violation("constant-wrong:GetN", hk.D{})
	}
	zb := append(append(append(ref.B32(ref.SM2A), ref.B32(ref.SM2B)...), ref.B32(ref.SM2Gx)...), ref.B32(ref.SM2Gy)...)
	if hk.Hex(GetZBytes()) != hk.Hex(zb) {
		r.Violation("constant-wrong:GetZBytes", hk.D{})
	}
	r.EvalN("constants:curve", 6)
}

// limbsBelowP reports whether the raw limbs (as an integer) are < p, i.e. a
// canonical Montgomery residue.
func zvLimbsBelowP(l *[4]uint64) bool {
	v := new(big.Int)
	for i := 3; i >= 0; i-- {
		v.Lsh(v, 64)
		v.Or(v, new(big.Int).SetUint64(l[i]))
	}
	return v.Cmp(ref.SM2P) < 0
}
