//go:build verif

package internal

import (
	"fmt"
	"math/big"
	"testing"

	"github.com/bilibili/smgo/zzverif/hk"
	"github.com/bilibili/smgo/zzverif/ref"
)

// C14 — scalar multiplication against the integer multiple computed by the
// reference model (affine double-and-add on math/big).

type zvCombScheme struct {
	name           string
	w, sub, it, rm int
	f              func([]byte) (*SM2Point, error)
}

func zvSchemes() []zvCombScheme {
	return []zvCombScheme{
		{"6-3-14(ScalarBaseMult)", 6, 3, 14, 4, ScalarBaseMult},
		{"6-3-14", 6, 3, 14, 4, scalarBaseMult_SkipBitExtraction_6_3_14},
		{"5-3-17", 5, 3, 17, 1, scalarBaseMult_SkipBitExtraction_5_3_17},
		{"4-2-32", 4, 2, 32, 0, scalarBaseMult_SkipBitExtraction_4_2_32},
		{"7-3-12", 7, 3, 12, 4, scalarBaseMult_SkipBitExtraction_7_3_12},
	}
}

// windowScalar places value v into comb window (j,i) of the scheme.
func (s zvCombScheme) windowScalar(j, i, v int) *big.Int {
	k := new(big.Int)
	for b := 0; b < s.w; b++ {
		if v>>uint(b)&1 == 1 {
			k.SetBit(k, s.rm+j*s.it+i+b*s.sub*s.it, 1)
		}
	}
	return k
}

func TestVerifC14(t *testing.T) {
	r := hk.NewReporter("C14", "sm2-scalarmult")
	defer r.Close()
	if err := ref.SelfTestSM2(); err != nil {
		r.Inconclusive("oracle self-test: " + err.Error())
		return
	}
	rng := hk.NewRNG(hk.Seed(), "c14")
	n := ref.SM2N
	specials := []*big.Int{zvBi(0), zvBi(1), zvBi(2), zvBi(3), zvBi(15), zvBi(16), new(big.Int).Sub(n, zvBi(1)), new(big.Int).Set(n), new(big.Int).Add(n, zvBi(1)),
		new(big.Int).Sub(n, zvBi(2)), new(big.Int).Lsh(zvBi(1), 255), new(big.Int).Sub(zvB256, zvBi(1)), new(big.Int).Sub(zvB256, zvBi(2)),
		new(big.Int).Rsh(n, 1), new(big.Int).Add(new(big.Int).Rsh(n, 1), zvBi(1))}

	// ------------------------------------------------------------ base point
	type bcase struct {
		s   int
		k   *big.Int
		cls string
	}
	var bcs []bcase
	ss := zvSchemes()
	for si, s := range ss {
		if si == 1 {
			continue // same function as the public entry point
		}
		// every value of every window at every position (one-hot window)
		for j := 0; j < s.sub; j++ {
			for i := 0; i < s.it; i++ {
				for v := 1; v < 1<<uint(s.w); v++ {
					if !hk.Thorough() && si != 0 && (v+i+j)%4 != 0 {
						continue // quick: all values for the live scheme, a quarter for the others
					}
					bcs = append(bcs, bcase{si, s.windowScalar(j, i, v), fmt.Sprintf("%s:window(j=%d,i=%d)", s.name, j, i)})
				}
			}
		}
		for v := 0; v < 1<<uint(s.rm); v++ {
			bcs = append(bcs, bcase{si, zvBi(int64(v)), s.name + ":remainder"})
		}
		// two windows at once (random pairs) + remainder
		for q := 0; q < hk.N(150, 3000); q++ {
			k := s.windowScalar(rng.Intn(s.sub), rng.Intn(s.it), 1+rng.Intn(1<<uint(s.w)-1))
			k.Or(k, s.windowScalar(rng.Intn(s.sub), rng.Intn(s.it), 1+rng.Intn(1<<uint(s.w)-1)))
			if s.rm > 0 {
				k.Or(k, zvBi(int64(rng.Intn(1<<uint(s.rm)))))
			}
			bcs = append(bcs, bcase{si, k, s.name + ":two-windows"})
		}
		for _, k := range specials {
			bcs = append(bcs, bcase{si, k, s.name + ":special"})
		}
		// scalars from the LIMB GRID around n (at and above the order: [k]G = [k mod n]G whatever reduction is used)
		for gi, k := range ref.LimbGrid(n) {
			if si == 0 && (hk.Thorough() || gi%4 == int(hk.Seed()%4)) {
				bcs = append(bcs, bcase{si, k, s.name + ":limb-grid-around-n"})
			}
		}
		for q := 0; q < hk.N(300, 6000); q++ {
			bcs = append(bcs, bcase{si, new(big.Int).SetBytes(rng.Bytes(32)), s.name + ":random"})
		}
	}
	r.Sample(hk.D{"op": "ScalarBaseMult", "scheme": ss[bcs[77].s].name, "k": hk.Hex(ref.B32(bcs[77].k)), "class": bcs[77].cls})
	hk.Parallel(len(bcs), func(i int) {
		if !hk.InShard(i) {
			return
		}
		c := bcs[i]
		s := ss[c.s]
		kb := ref.B32(c.k)
		var got *SM2Point
		var err error
		p, msg, _, _ := hk.Try(func() { got, err = s.f(kb) })
		d := hk.D{"scheme": s.name, "k": hk.Hex(kb)}
		if p || err != nil {
			d["panic"], d["err"] = msg, fmt.Sprint(err)
			r.Violation("basemult-fails:"+s.name, d)
			return
		}
		want := ref.BaseMulFast(c.k)
		g, _ := zvToRef(got)
		if !g.Eq(want) {
			d["got"], d["want"] = zvPtHex(g), zvPtHex(want)
			r.Violation("basemult-wrong:"+c.cls, d)
		}
		r.Eval("base:" + c.cls)
	})
	// wrong scalar lengths must be refused, not mis-computed
	for l := 0; l <= 40; l++ {
		if l == 32 {
			continue
		}
		var got *SM2Point
		var err error
		kb := rng.Bytes(l)
		p, msg, _, _ := hk.Try(func() { got, err = ScalarBaseMult(kb) })
		if p {
			r.Violation("basemult-panics:wrong-length", hk.D{"k": hk.Hex(kb), "panic": msg})
		} else if err == nil {
			g, _ := zvToRef(got)
			if !g.Eq(ref.BaseMul(new(big.Int).SetBytes(kb))) {
				r.Violation("basemult-wrong:wrong-length", hk.D{"k": hk.Hex(kb)})
			}
		}
		r.Eval("base:length")
	}

	// ------------------------------------------------------------ variable point
	var pts []ref.Pt
	for m := int64(1); m <= 16; m++ {
		pts = append(pts, ref.BaseMul(zvBi(m)))
	}
	pts = append(pts, ref.G().Neg(), ref.BaseMul(new(big.Int).Sub(n, zvBi(2))))
	for q := 0; q < hk.N(3, 12); q++ {
		pts = append(pts, ref.BaseMulFast(zvRandScalarI(rng)))
	}
	pts = append(pts, zvPatternedPoints(rng, hk.N(8, 40))...) // affine x with carry-critical internal limbs
	type vcase struct {
		P   ref.Pt
		lam *big.Int
		k   []byte
		cls string
	}
	var vcs []vcase
	for pi, P := range pts {
		// every nibble value at every position (one-hot nibble), 32-byte scalars
		for pos := 0; pos < 64; pos++ {
			for v := 1; v < 16; v++ {
				if (pi+pos+v)%hk.N(12, 2) != 0 {
					continue
				}
				k := new(big.Int).Lsh(zvBi(int64(v)), uint(4*pos))
				vcs = append(vcs, vcase{P, nil, ref.B32(k), fmt.Sprintf("nibble(pos=%d)", pos)})
			}
		}
		for _, k := range specials {
			vcs = append(vcs, vcase{P, new(big.Int).SetBytes(rng.Bytes(16)), ref.B32(k), "special"})
		}
		// scalar lengths 0..40
		for l := 0; l <= 40; l++ {
			if (pi+l)%hk.N(4, 1) != 0 {
				continue
			}
			vcs = append(vcs, vcase{P, nil, rng.Bytes(l), fmt.Sprintf("len=%d", l)})
		}
		for q := 0; q < hk.N(10, 200); q++ {
			vcs = append(vcs, vcase{P, new(big.Int).SetBytes(rng.Bytes(31)), rng.Bytes(32), "random"})
		}
	}
	// scalars (longer than 32 bytes: above n) whose 4-bit window schedule runs into its own table entry: after
	// the prefix c the accumulator [16c]P equals +-[w]P, the addend of the next window, when 16c = +-w (mod n):
	// k = (16c + w) * 16^t + low digits with c = (m*n +- w) / 16
	for m := int64(1); m <= 16; m++ {
		for w := int64(1); w < 16; w++ {
			for _, sign := range []int64{1, -1} {
				num := new(big.Int).Add(new(big.Int).Mul(zvBi(m), n), zvBi(sign*w))
				if new(big.Int).Mod(num, zvBi(16)).Sign() != 0 {
					continue
				}
				c16 := num // = 16c
				k := new(big.Int).Add(c16, zvBi(w))
				t := uint(rng.Intn(3))
				k.Lsh(k, 4*t)
				if t > 0 {
					k.Add(k, new(big.Int).SetBytes(rng.Bytes(1)))
					k.Mod(k, new(big.Int).Lsh(zvBi(1), 4*t+270)) // keep it; the low digits are junk
				}
				cls := "window-collision:acc=addend"
				if sign < 0 {
					cls = "window-collision:acc=-addend"
				}
				vcs = append(vcs, vcase{pts[int(m+w)%len(pts)], new(big.Int).SetBytes(rng.Bytes(9)), k.Bytes(), cls})
			}
		}
	}
	// infinity as the point
	vcs = append(vcs, vcase{ref.Inf(), zvBi(5), rng.Bytes(32), "P=inf"}, vcase{ref.Inf(), nil, ref.B32(zvBi(0)), "P=inf"})
	r.Sample(hk.D{"op": "ScalarMult", "P": zvPtHex(vcs[3].P), "k": hk.Hex(vcs[3].k), "class": vcs[3].cls})
	hk.Parallel(len(vcs), func(i int) {
		if !hk.InShard(i) {
			return
		}
		c := vcs[i]
		in := zvFromRef(c.P, c.lam)
		snapshot, _ := zvToRef(in)
		var got *SM2Point
		var err error
		p, msg, _, _ := hk.Try(func() { got, err = ScalarMult(in, c.k) })
		d := hk.D{"P": zvPtHex(c.P), "k": hk.Hex(c.k)}
		if p || err != nil {
			d["panic"], d["err"] = msg, fmt.Sprint(err)
			r.Violation("scalarmult-fails:"+c.cls, d)
			return
		}
		want := c.P.Mul(new(big.Int).SetBytes(c.k))
		g, _ := zvToRef(got)
		if !g.Eq(want) {
			d["got"], d["want"] = zvPtHex(g), zvPtHex(want)
			r.Violation("scalarmult-wrong:"+c.cls, d)
		}
		if after, _ := zvToRef(in); !after.Eq(snapshot) {
			r.Violation("scalarmult-modifies-input-point", d)
		}
		r.Eval("var:" + c.cls)
	})

	// ------------------------------------------------------------ double scalar
	type mcase struct {
		g, s *big.Int
		P    ref.Pt
		cls  string
	}
	var mcs []mcase
	nafPatterns := func() []*big.Int {
		var out []*big.Int
		one := zvBi(1)
		for start := 0; start < 256; start += 7 {
			for ln := 1; ln <= 12; ln += 2 {
				v := new(big.Int).Sub(new(big.Int).Lsh(one, uint(ln)), one)
				v.Lsh(v, uint(start))
				v.Mod(v, zvB256)
				out = append(out, v)
			}
		}
		alt := new(big.Int)
		for i := 0; i < 256; i += 2 {
			alt.SetBit(alt, i, 1)
		}
		out = append(out, alt, new(big.Int).Lsh(alt, 1).Mod(new(big.Int).Lsh(alt, 1), zvB256))
		// carries out of bit 255
		out = append(out, new(big.Int).Sub(zvB256, zvBi(1)), new(big.Int).Sub(zvB256, zvBi(8)), new(big.Int).Sub(zvB256, new(big.Int).Lsh(one, 200)))
		return out
	}()
	for _, s := range nafPatterns {
		mcs = append(mcs, mcase{new(big.Int).SetBytes(rng.Bytes(32)), s, pts[rng.Intn(len(pts))], "naf-pattern"})
	}
	for _, a := range specials {
		for _, b := range specials {
			mcs = append(mcs, mcase{a, b, pts[rng.Intn(len(pts))], "special-pair"})
		}
	}
	for gi, k := range ref.LimbGrid(n) {
		if hk.Thorough() || gi%3 == int(hk.Seed()%3) {
			mcs = append(mcs, mcase{k, new(big.Int).SetBytes(rng.Bytes(32)), pts[rng.Intn(len(pts))], "g-from-limb-grid-around-n"})
			mcs = append(mcs, mcase{new(big.Int).SetBytes(rng.Bytes(32)), k, pts[rng.Intn(len(pts))], "s-from-limb-grid-around-n"})
		}
	}
	// P = [j]G chosen so that intermediate sums collide: [g]G + [s][j]G with g = ± s j, g = s j ± 1 …
	for q := 0; q < hk.N(60, 1500); q++ {
		j := int64(1 + rng.Intn(16))
		P := pts[j-1]
		s := new(big.Int).SetBytes(rng.Bytes(32))
		s.Mod(s, n)
		sj := new(big.Int).Mul(s, zvBi(j))
		sj.Mod(sj, n)
		switch q % 4 {
		case 0:
			mcs = append(mcs, mcase{new(big.Int).Sub(n, sj), s, P, "collide:sum=inf"}) // [g]G = -[s]P
		case 1:
			mcs = append(mcs, mcase{sj, s, P, "collide:equal-halves"}) // [g]G = [s]P (doubling)
		case 2:
			mcs = append(mcs, mcase{ref.ModN(new(big.Int).Sub(zvBi(1), sj)), s, P, "collide:sum=G"})
		default:
			mcs = append(mcs, mcase{zvBi(j), zvBi(int64(1 + rng.Intn(15))), P, "collide:small"})
		}
	}
	// PARTIAL-sum collisions inside the schedule: P = +-T where T = [t]G is an entry of the comb table, g has
	// the window that selects T at row i, s = 2^i: in row i the accumulator (from one half) equals, or is
	// the inverse of, the point the other half adds - the doubling / infinity case of the addition in the
	// MIDDLE of the loop, optionally with further non-zero rows below it.
	for _, row := range []uint{0, 1, 2, 6, 12, 13} {
		for j := uint(0); j < 3; j++ {
			for _, w := range []uint{1, 2, 3, 21, 32, 63} {
				t := new(big.Int)
				for b := uint(0); b < 6; b++ {
					if w>>b&1 == 1 {
						t.SetBit(t, int(4+j*14+b*42), 1)
					}
				}
				T := ref.BaseMulFast(t)
				for variant := 0; variant < 4; variant++ {
					g := new(big.Int).Lsh(t, row)
					sc := new(big.Int).Lsh(zvBi(1), row)
					P := T
					cls := "partial-collision:acc=addend"
					if variant%2 == 1 {
						P = T.Neg()
						cls = "partial-collision:acc=-addend"
					}
					if variant >= 2 && row > 0 {
						// junk in the rows below: bits at positions 4 + j'*14 + b*42 + i' with i' < row
						for q := 0; q < 6; q++ {
							g.SetBit(g, int(4+uint(rng.Intn(3))*14+uint(rng.Intn(6))*42+uint(rng.Intn(int(row)))), 1)
						}
						sc.Add(sc, new(big.Int).SetInt64(int64(rng.Intn(1<<row))))
						cls += "+lower-rows"
					}
					mcs = append(mcs, mcase{ref.ModN(g), sc, P, cls})
				}
			}
		}
	}
	// the same with the accumulator built k rows EARLIER by the other scalar: P = [+-t * 2^-k]G, s = 2^(row+k):
	// after k doublings the accumulator is +-T exactly when the table addition of row `row` adds T
	for _, row := range []uint{0, 1, 7, 13} {
		for j := uint(0); j < 3; j++ {
			for _, w := range []uint{1, 5, 63} {
				for _, k := range []uint{1, 2, 40, 243} {
					if row+k > 255 {
						continue
					}
					t := new(big.Int)
					for b := uint(0); b < 6; b++ {
						if w>>b&1 == 1 {
							t.SetBit(t, int(4+j*14+b*42), 1)
						}
					}
					inv := ref.InvN(new(big.Int).Lsh(zvBi(1), k))
					for _, neg := range []bool{false, true} {
						a := ref.ModN(new(big.Int).Mul(t, inv))
						cls := "partial-collision:earlier-digit,acc=addend"
						if neg {
							a = ref.ModN(new(big.Int).Neg(a))
							cls = "partial-collision:earlier-digit,acc=-addend"
						}
						g := new(big.Int).Lsh(t, row)
						if (row+k+j)%2 == 1 && row > 0 {
							g.SetBit(g, int(4+uint(rng.Intn(3))*14+uint(rng.Intn(6))*42+uint(rng.Intn(int(row)))), 1)
						}
						mcs = append(mcs, mcase{ref.ModN(g), new(big.Int).Lsh(zvBi(1), row+k), ref.BaseMulFast(a), cls})
					}
				}
			}
		}
	}
	for q := 0; q < hk.N(300, 8000); q++ {
		mcs = append(mcs, mcase{new(big.Int).SetBytes(rng.Bytes(32)), new(big.Int).SetBytes(rng.Bytes(32)), pts[rng.Intn(len(pts))], "random"})
	}
	// the point at infinity as the variable point (every projective representation (0 : y : 0), through the random
	// rescaling below), with INDEPENDENT g and s: the result is [g]G whatever s is; and special g, s against each other
	for q := 0; q < hk.N(40, 400); q++ {
		g, sc := new(big.Int).SetBytes(rng.Bytes(32)), new(big.Int).SetBytes(rng.Bytes(32))
		switch q % 8 {
		case 1:
			g = zvBi(0)
		case 2:
			sc = zvBi(0)
		case 3:
			g = zvBi(1)
		case 4:
			sc = zvBi(1)
		case 5:
			g = new(big.Int).Set(ref.SM2N)
		case 6:
			sc = new(big.Int).Sub(ref.SM2N, zvBi(1))
		}
		mcs = append(mcs, mcase{g, sc, ref.Inf(), "P=infinity,g-and-s-independent"})
	}
	r.Sample(hk.D{"op": "ScalarMixedMult_Unsafe", "g": hk.Hex(ref.B32(mcs[5].g)), "s": hk.Hex(ref.B32(mcs[5].s)), "P": zvPtHex(mcs[5].P)})
	hk.Parallel(len(mcs), func(i int) {
		if !hk.InShard(i) {
			return
		}
		c := mcs[i]
		lr := hk.NewRNG(hk.Seed(), fmt.Sprintf("c14m/%d", i))
		in := zvFromRef(c.P, new(big.Int).SetBytes(lr.Bytes(20)))
		var got *SM2Point
		var err error
		gb, sb := ref.B32(c.g), ref.B32(c.s)
		p, msg, _, _ := hk.Try(func() { got, err = ScalarMixedMult_Unsafe(gb, in, sb) })
		d := hk.D{"g": hk.Hex(gb), "s": hk.Hex(sb), "P": zvPtHex(c.P)}
		if p || err != nil {
			d["panic"], d["err"] = msg, fmt.Sprint(err)
			r.Violation("mixedmult-fails:"+c.cls, d)
			return
		}
		want := ref.BaseMulFast(c.g).Add(c.P.Mul(c.s))
		g, _ := zvToRef(got)
		if !g.Eq(want) {
			d["got"], d["want"] = zvPtHex(g), zvPtHex(want)
			r.Violation("mixedmult-wrong:"+c.cls, d)
		}
		r.Eval("mixed:" + c.cls)
	})
	// ------------------------------------------------------------ a generator object belongs to the caller
	// NewSM2Generator hands out the base point as an object of the caller's: it is driven through every mutator in place,
	// and afterwards a fresh generator must still be G, earlier generators that were kept must still be G, and the
	// multiplications that start from the generator must still be right
	for h := 0; h < hk.N(30, 300); h++ {
		lr := hk.NewRNG(hk.Seed(), fmt.Sprintf("c14gen/%d", h))
		kept := NewSM2Generator()
		g := NewSM2Generator()
		B := ref.BaseMulFast(zvRandScalarI(lr))
		qb := zvFromRef(B, new(big.Int).SetBytes(lr.Bytes(9)))
		shadow := ref.G()
		var hist []string
		for step := 0; step < 3; step++ {
			switch lr.Intn(5) {
			case 0:
				g.Double(g)
				shadow = shadow.Dbl()
				hist = append(hist, "g.Double(g)")
			case 1:
				g.Add(g, qb)
				shadow = shadow.Add(B)
				hist = append(hist, "g.Add(g,Q)")
			case 2:
				g.Negate(g)
				shadow = shadow.Neg()
				hist = append(hist, "g.Negate(g)")
			case 3:
				g.Set(qb)
				shadow = B
				hist = append(hist, "g.Set(Q)")
			default:
				g.Add(qb, g)
				shadow = B.Add(shadow)
				hist = append(hist, "g.Add(Q,g)")
			}
		}
		k := lr.Bytes(32)
		fresh := NewSM2Generator()
		km, _ := ScalarMult(NewSM2Generator(), k)
		kb, _ := ScalarBaseMult(k)
		g0, _ := zvToRef(g)
		g1, _ := zvToRef(fresh)
		g2, _ := zvToRef(kept)
		g3, _ := zvToRef(km)
		g4, _ := zvToRef(kb)
		wantK := ref.BaseMulFast(ref.ModN(new(big.Int).SetBytes(k)))
		if !g0.Eq(shadow) || !g1.Eq(ref.G()) || !g2.Eq(ref.G()) || km == nil || kb == nil || !g3.Eq(wantK) || !g4.Eq(wantK) {
			r.Violation("generator-objects-share-state", hk.D{"history": hist, "updated_object_ok": g0.Eq(shadow), "fresh_generator": zvPtHex(g1), "generator_kept_from_before": zvPtHex(g2), "scalar_mult_of_generator_ok": km != nil && g3.Eq(wantK), "base_mult_ok": kb != nil && g4.Eq(wantK)})
			break
		}
		r.Eval("generator-objects-belong-to-the-caller")
	}
	// ------------------------------------------------------------ points built by NewFromXY belong to the caller too
	// (the routines build their table operands with it): each is driven through every mutator in place; afterwards the
	// package must still multiply correctly and a fresh NewFromXY point must still be the affine point it was given
	for h := 0; h < hk.N(40, 400); h++ {
		lr := hk.NewRNG(hk.Seed(), fmt.Sprintf("c14xy/%d", h))
		A, B := ref.BaseMulFast(zvRandScalarI(lr)), ref.BaseMulFast(zvRandScalarI(lr))
		qa, qb := zvFromRef(A, zvBi(1)), zvFromRef(B, new(big.Int).SetBytes(lr.Bytes(9)))
		xr, yr := *qa.x.GetRaw(), *qa.y.GetRaw()
		n := NewFromXY(&xr, &yr)
		if g, _ := zvToRef(n); !g.Eq(A) {
			r.Violation("newfromxy-is-not-the-given-point", hk.D{"point": zvPtHex(A), "got": zvPtHex(g)})
			break
		}
		shadow := A
		var hist []string
		for step := 0; step < 4; step++ {
			switch lr.Intn(5) {
			case 0:
				n.Double(n)
				shadow = shadow.Dbl()
				hist = append(hist, "n.Double(n)")
			case 1:
				n.Add(n, qb)
				shadow = shadow.Add(B)
				hist = append(hist, "n.Add(n,Q)")
			case 2:
				n.Negate(n)
				shadow = shadow.Neg()
				hist = append(hist, "n.Negate(n)")
			case 3:
				n.Set(qb)
				shadow = B
				hist = append(hist, "n.Set(Q)")
			default:
				n.Select(qb, n, 1)
				shadow = B
				hist = append(hist, "n.Select(Q,n,1)")
			}
		}
		if g, _ := zvToRef(n); !g.Eq(shadow) {
			r.Violation("newfromxy-point-wrong-after-in-place-updates", hk.D{"history": hist, "got": zvPtHex(g), "want": zvPtHex(shadow)})
			break
		}
		// the two arrays the point was built FROM are the caller's (the routines pass entries of the precomputed tables):
		// updating the point in place must not write through to them
		if xr != *qa.x.GetRaw() || yr != *qa.y.GetRaw() {
			r.Violation("updating-a-newfromxy-point-rewrites-the-arrays-it-was-built-from", hk.D{"history": hist, "point": zvPtHex(A)})
			break
		}
		k := lr.Bytes(32)
		kb, _ := ScalarBaseMult(k)
		gb, sb := lr.Bytes(32), lr.Bytes(32)
		mm, _ := ScalarMixedMult_Unsafe(gb, zvFromRef(B, zvBi(1)), sb)
		xr2, yr2 := *qa.x.GetRaw(), *qa.y.GetRaw()
		fresh := NewFromXY(&xr2, &yr2)
		g1, _ := zvToRef(kb)
		g2, _ := zvToRef(mm)
		g3, _ := zvToRef(fresh)
		if kb == nil || mm == nil || !g1.Eq(ref.BaseMulFast(ref.ModN(new(big.Int).SetBytes(k)))) ||
			!g2.Eq(ref.BaseMulFast(ref.ModN(new(big.Int).SetBytes(gb))).Add(B.Mul(new(big.Int).SetBytes(sb)))) || !g3.Eq(A) {
			r.Violation("package-wrong-after-a-newfromxy-point-was-updated-in-place", hk.D{"history": hist, "base_mult_ok": kb != nil && g1.Eq(ref.BaseMulFast(ref.ModN(new(big.Int).SetBytes(k)))), "fresh_newfromxy": zvPtHex(g3), "expected": zvPtHex(A)})
			break
		}
		r.Eval("newfromxy-points-belong-to-the-caller")
	}
	// ------------------------------------------------------------ long-lived point objects
	// [k]P must be right for the CURRENT value of a point object that has been multiplied before and
	// then updated in place by any mutator (Set, SetBytes, Negate, Add, Double, Select, MultiSelectXYZ)
	for h := 0; h < hk.N(120, 1200); h++ {
		lr := hk.NewRNG(hk.Seed(), fmt.Sprintf("c14obj/%d", h))
		A := pts[lr.Intn(len(pts))]
		B := pts[lr.Intn(len(pts))]
		P := zvFromRef(A, new(big.Int).SetBytes(lr.Bytes(12)))
		Q := zvFromRef(B, new(big.Int).SetBytes(lr.Bytes(12)))
		shadow := A
		var hist []string
		for step := 0; step < 5; step++ {
			k := lr.Bytes(32)
			if lr.Intn(3) == 0 {
				k = lr.Bytes(1 + lr.Intn(40))
			}
			got, err := ScalarMult(P, k)
			hist = append(hist, fmt.Sprintf("ScalarMult(P,%x)", k))
			if err != nil {
				r.Violation("object-history:scalarmult-error", hk.D{"history": hist})
				break
			}
			want := shadow.Mul(new(big.Int).SetBytes(k))
			if g, _ := zvToRef(got); !g.Eq(want) {
				r.Violation("object-history:scalarmult-wrong-after-in-place-update", hk.D{"history": hist, "P": zvPtHex(shadow), "k": hk.Hex(k), "got": zvPtHex(g), "want": zvPtHex(want)})
				break
			}
			// ... and as the variable point of the double-scalar multiplication
			{
				gb, sb := lr.Bytes(32), lr.Bytes(32)
				got2, err2 := ScalarMixedMult_Unsafe(gb, P, sb)
				hist = append(hist, fmt.Sprintf("ScalarMixedMult_Unsafe(%x,P,%x)", gb[:4], sb[:4]))
				want2 := ref.BaseMulFast(ref.ModN(new(big.Int).SetBytes(gb))).Add(shadow.Mul(new(big.Int).SetBytes(sb)))
				if err2 != nil {
					r.Violation("object-history:mixedmult-error", hk.D{"history": hist, "err": err2.Error()})
					break
				}
				if g2, _ := zvToRef(got2); !g2.Eq(want2) {
					r.Violation("object-history:mixedmult-wrong-after-in-place-update", hk.D{"history": hist, "P": zvPtHex(shadow), "g": hk.Hex(gb), "s": hk.Hex(sb), "got": zvPtHex(g2), "want": zvPtHex(want2)})
					break
				}
			}
			switch m := lr.Intn(8); m {
			case 0:
				P.Select(Q, P, 1)
				shadow = B
				hist = append(hist, "P.Select(Q,P,1)")
			case 1:
				P.Select(P, Q, 0)
				shadow = B
				hist = append(hist, "P.Select(P,Q,0)")
			case 2:
				P.Set(Q)
				shadow = B
				hist = append(hist, "P.Set(Q)")
			case 3:
				P.Negate(P)
				shadow = shadow.Neg()
				hist = append(hist, "P.Negate(P)")
			case 4:
				P.Add(P, Q)
				shadow = shadow.Add(B)
				hist = append(hist, "P.Add(P,Q)")
			case 5:
				P.Double(P)
				shadow = shadow.Dbl()
				hist = append(hist, "P.Double(P)")
			case 6:
				if !B.Inf {
					P.SetBytes(append([]byte{4}, append(ref.B32(B.X), ref.B32(B.Y)...)...))
					shadow = B
					hist = append(hist, "P.SetBytes(enc(Q))")
				}
			default:
				// masked selection from a transformed table writes P's coordinates too
				pre := []*SM2Point{Q, NewSM2Point().Double(Q), NewSM2Point().Add(NewSM2Point().Double(Q), Q)}
				tbl := TransformPrecomputed(&pre, 3)
				bits := byte(1 + lr.Intn(3))
				P.MultiSelectXYZ(&tbl, 3, bits)
				shadow = B.Mul(zvBi(int64(bits)))
				hist = append(hist, fmt.Sprintf("P.MultiSelectXYZ(Q-table,%d)", bits))
			}
		}
		r.Eval("var:object-history")
	}
	// RESULTS BELONG TO THE CALLER: every point a routine returns (for tiny, zero and ordinary scalars - the
	// early-exit shapes of the schedules) is overwritten in place by the caller, through every mutator. If a
	// returned object shares a coordinate element with package state (a constant, a table entry, a cached
	// point) or with another result, later multiplications go wrong: judged by canaries after each scribble.
	{
		lr := hk.NewRNG(hk.Seed(), "c14results")
		Pm := ref.BaseMulFast(zvRandScalarI(lr))
		garbage := func() *SM2Point { return zvFromRef(ref.BaseMulFast(zvRandScalarI(lr)), zvRandScalarI(lr)) }
		canary := func(what string, hist []string) bool {
			k := ref.B32(zvRandScalarI(lr))
			g1, e1 := ScalarBaseMult(k)
			g2, e2 := ScalarMixedMult_Unsafe(k, zvFromRef(Pm, zvBi(1)), k)
			g3, e3 := ScalarMult(NewSM2Generator(), k)
			kI := ref.Int(k)
			w1 := ref.BaseMulFast(kI)
			w2 := w1.Add(Pm.Mul(kI))
			bad := e1 != nil || e2 != nil || e3 != nil
			if !bad {
				a, _ := zvToRef(g1)
				b, _ := zvToRef(g2)
				c, _ := zvToRef(g3)
				bad = !a.Eq(w1) || !b.Eq(w2) || !c.Eq(w1)
			}
			if g, _ := zvToRef(sm2G); !g.Eq(ref.G()) || zvRawBig(sm2ElementOne).Cmp(zvBi(1)) != 0 || zvRawBig(sm2B).Cmp(ref.SM2B) != 0 {
				bad = true
			}
			if bad {
				r.Violation("multiplication-wrong-after-caller-overwrote-a-returned-point:"+what, hk.D{"history": hist, "k": hk.Hex(k)})
			}
			return !bad
		}
		small := [][]byte{make([]byte, 32), ref.B32(zvBi(1)), ref.B32(zvBi(2)), ref.B32(zvBi(7)), ref.B32(zvBi(15)), ref.B32(zvBi(16)), ref.B32(zvBi(63)), ref.B32(new(big.Int).Lsh(zvBi(1), 14)), ref.B32(new(big.Int).Lsh(zvBi(5), 42)), ref.B32(zvRandScalarI(lr)), ref.B32(n)}
		type producer struct {
			name string
			f    func(a, b []byte) (*SM2Point, error)
			want func(a, b *big.Int) ref.Pt
		}
		wBase := func(a, b *big.Int) ref.Pt { return ref.BaseMulFast(a) }
		wVarP := func(a, b *big.Int) ref.Pt { return Pm.Mul(a) }
		wMixP := func(a, b *big.Int) ref.Pt { return ref.BaseMulFast(a).Add(Pm.Mul(b)) }
		wMixG := func(a, b *big.Int) ref.Pt { return ref.BaseMulFast(new(big.Int).Add(a, b)) }
		prods := []producer{
			{"ScalarBaseMult", func(a, b []byte) (*SM2Point, error) { return ScalarBaseMult(a) }, wBase},
			{"scheme-5-3-17", func(a, b []byte) (*SM2Point, error) { return scalarBaseMult_SkipBitExtraction_5_3_17(a) }, wBase},
			{"scheme-4-2-32", func(a, b []byte) (*SM2Point, error) { return scalarBaseMult_SkipBitExtraction_4_2_32(a) }, wBase},
			{"scheme-7-3-12", func(a, b []byte) (*SM2Point, error) { return scalarBaseMult_SkipBitExtraction_7_3_12(a) }, wBase},
			{"ScalarMult(P)", func(a, b []byte) (*SM2Point, error) { return ScalarMult(zvFromRef(Pm, zvBi(1)), a) }, wVarP},
			{"ScalarMult(G)", func(a, b []byte) (*SM2Point, error) { return ScalarMult(NewSM2Generator(), a) }, wBase},
			{"ScalarMixedMult(g,P,s)", func(a, b []byte) (*SM2Point, error) { return ScalarMixedMult_Unsafe(a, zvFromRef(Pm, zvBi(1)), b) }, wMixP},
			{"ScalarMixedMult(g,G,s)", func(a, b []byte) (*SM2Point, error) { return ScalarMixedMult_Unsafe(a, NewSM2Generator(), b) }, wMixG},
			{"NewSM2Generator", func(a, b []byte) (*SM2Point, error) { return NewSM2Generator(), nil }, func(a, b *big.Int) ref.Pt { return ref.G() }},
			{"NewSM2Point", func(a, b []byte) (*SM2Point, error) { return NewSM2Point(), nil }, func(a, b *big.Int) ref.Pt { return ref.Inf() }},
		}
		nOK := 0
	outer:
		for _, pr := range prods {
			for ai, a := range small {
				for bi2, b := range small {
					if pr.name[:6] != "Scalar" || pr.name[:11] != "ScalarMixed" {
						if bi2 > 0 {
							continue
						}
					} else if (ai+bi2)%2 == 1 && ai > 2 && bi2 > 2 {
						continue
					}
					ret, err := pr.f(a, b)
					if err != nil || ret == nil {
						continue
					}
					hist := []string{fmt.Sprintf("%s(%x.., %x..)", pr.name, a[28:], b[28:])}
					// RESULTS ARE INPUTS: whatever comes back (the point at infinity in particular) is fed into the other
					// operations and must behave as the group element it stands for
					{
						wv := pr.want(ref.Int(a), ref.Int(b))
						Qm := ref.BaseMulFast(zvRandScalarI(lr))
						kk := ref.B32(zvRandScalarI(lr))
						s1, _ := zvToRef(NewSM2Point().Add(zvFromRef(Qm, zvRandScalarI(lr)), ret))
						s2, _ := zvToRef(NewSM2Point().Add(ret, zvFromRef(Qm, zvBi(1))))
						g3, e3 := ScalarMixedMult_Unsafe(kk, ret, kk)
						g4, e4 := ScalarMult(ret, kk)
						okv := e3 == nil && e4 == nil
						if okv {
							v0, _ := zvToRef(ret)
							v3, _ := zvToRef(g3)
							v4, _ := zvToRef(g4)
							okv = v0.Eq(wv) && s1.Eq(Qm.Add(wv)) && s2.Eq(Qm.Add(wv)) && v3.Eq(ref.BaseMulFast(ref.Int(kk)).Add(wv.Mul(ref.Int(kk)))) && v4.Eq(wv.Mul(ref.Int(kk)))
						}
						if !okv {
							r.Violation("returned-point-misbehaves-as-an-operand:"+pr.name, hk.D{"history": hist, "value_by_model": zvPtHex(wv), "infinity": wv.Inf})
							break outer
						}
					}
					switch (ai + bi2) % 5 {
					case 0:
						ret.Double(ret)
						hist = append(hist, "ret.Double(ret)")
					case 1:
						ret.Set(garbage())
						hist = append(hist, "ret.Set(Q)")
					case 2:
						ret.Add(ret, garbage())
						hist = append(hist, "ret.Add(ret,Q)")
					case 3:
						ret.SetBytes([]byte{0})
						hist = append(hist, "ret.SetBytes(infinity)")
					default:
						ret.Negate(ret)
						ret.Select(garbage(), ret, 1)
						hist = append(hist, "ret.Negate(ret); ret.Select(Q,ret,1)")
					}
					if !canary(pr.name, hist) {
						break outer
					}
					nOK++
				}
			}
		}
		r.EvalN("results-belong-to-the-caller", nOK)
	}
	// package-level state must be what it was
	if g, _ := zvToRef(sm2G); !g.Eq(ref.G()) || zvRawBig(sm2ElementOne).Cmp(zvBi(1)) != 0 || zvRawBig(sm2B).Cmp(ref.SM2B) != 0 {
		r.Violation("package-state-corrupted-after-scalar-multiplications", hk.D{})
	}
	r.Eval("package-state-after-workload")
}
