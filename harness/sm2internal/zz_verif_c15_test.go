//go:build verif

package internal

import (
	"bytes"
	crand "crypto/rand"
	"fmt"
	"io"
	"math/big"
	"testing"

	"github.com/bilibili/smgo/sm2/internal/fiat"
	"github.com/bilibili/smgo/zzverif/hk"
	"github.com/bilibili/smgo/zzverif/ref"
)

// C15 — complete point arithmetic in all projective representations and
// aliasing patterns; strict, round-tripping encodings.

func zvClonePt(p *SM2Point) *SM2Point {
	return &SM2Point{x: new(fiat.SM2Element).Set(p.x), y: new(fiat.SM2Element).Set(p.y), z: new(fiat.SM2Element).Set(p.z)}
}

func zvRawEq(a, b *SM2Point) bool {
	return *a.x.GetRaw() == *b.x.GetRaw() && *a.y.GetRaw() == *b.y.GetRaw() && *a.z.GetRaw() == *b.z.GetRaw()
}

func TestVerifC15(t *testing.T) {
	r := hk.NewReporter("C15", "sm2-point")
	defer r.Close()
	if err := ref.SelfTestSM2(); err != nil {
		r.Inconclusive("oracle self-test: " + err.Error())
		return
	}
	rng := hk.NewRNG(hk.Seed(), "c15")
	n := ref.SM2N

	type named struct {
		P    ref.Pt
		name string
	}
	var pool []named
	pool = append(pool, named{ref.Inf(), "inf"}, named{ref.G(), "G"}, named{ref.G().Neg(), "-G"})
	for m := int64(2); m <= 5; m++ {
		pool = append(pool, named{ref.BaseMul(zvBi(m)), fmt.Sprintf("%dG", m)}, named{ref.BaseMul(zvBi(m)).Neg(), fmt.Sprintf("-%dG", m)})
	}
	pool = append(pool, named{ref.BaseMul(new(big.Int).Rsh(n, 1)), "(n-1)/2 G"}, named{ref.BaseMul(new(big.Int).Add(new(big.Int).Rsh(n, 1), zvBi(1))), "(n+1)/2 G"})
	// a point with x = 0 if one exists on the curve (y^2 = b)
	if P, ok := ref.LiftX(zvBi(0)); ok {
		pool = append(pool, named{P, "x=0"})
	}
	for q := 0; q < hk.N(8, 40); q++ {
		pool = append(pool, named{ref.BaseMulFast(zvRandScalarI(rng)), "random"})
	}
	for _, P := range zvPatternedPoints(rng, hk.N(6, 24)) {
		pool = append(pool, named{P, "internal-limb-pattern-x"})
	}
	if sps, scls, serr := ref.SpecialPoints(); serr != nil {
		r.Inconclusive("special-point fixture: " + serr.Error())
		return
	} else {
		for i, P := range sps {
			if i%2 == 0 || hk.Thorough() {
				pool = append(pool, named{P, "coordinate-class:" + scls[i]})
			}
		}
		// every one of them must decode, re-encode identically and be accepted by the curve test
		for i, P := range sps {
			enc := append([]byte{4}, append(ref.B32(P.X), ref.B32(P.Y)...)...)
			q, err := NewSM2Point().SetBytes(enc)
			if err != nil {
				r.Violation("setbytes-rejects-valid-point:coordinate-class:"+scls[i], hk.D{"encoding": hk.Hex(enc), "err": err.Error()})
			} else if !bytes.Equal(q.Bytes(), enc) || !bytes.Equal(q.Bytes_Unsafe(), enc) {
				r.Violation("encode-decode-not-identity:coordinate-class:"+scls[i], hk.D{"encoding": hk.Hex(enc), "re-encoded": hk.Hex(q.Bytes())})
			}
			r.Eval("decode:coordinate-class:" + scls[i])
		}
	}

	lambdas := func(lr *hk.RNG) *big.Int {
		if lr.Intn(3) == 0 {
			// limb patterns: each 64-bit limb of Z drawn from {0, 1, 2^64-1, random}
			v := new(big.Int)
			for limb := 3; limb >= 0; limb-- {
				v.Lsh(v, 64)
				switch lr.Intn(4) {
				case 1:
					v.Or(v, zvBi(1))
				case 2:
					v.Or(v, new(big.Int).SetUint64(^uint64(0)))
				case 3:
					v.Or(v, new(big.Int).SetUint64(lr.Uint64()))
				}
			}
			v.Mod(v, ref.SM2P)
			if v.Sign() == 0 {
				v = zvBi(1)
			}
			return v
		}
		switch lr.Intn(5) {
		case 0:
			return zvBi(1)
		case 1:
			return new(big.Int).Sub(ref.SM2P, zvBi(1))
		case 2:
			return zvBi(2)
		default:
			return new(big.Int).SetBytes(lr.Bytes(32))
		}
	}

	// ---- Add / Double / Negate / Select over all ordered pairs x rescaling x aliasing
	reps := hk.N(2, 6)
	type pair struct{ a, b, rep int }
	var pairs []pair
	for a := range pool {
		for b := range pool {
			for k := 0; k < reps; k++ {
				pairs = append(pairs, pair{a, b, k})
			}
		}
	}
	r.Sample(hk.D{"op": "Add", "p1": pool[1].name, "p2": pool[2].name, "aliasing": "q=p1|q=p2|p1=p2|fresh", "rescaling": "random lambda"})
	hk.Parallel(len(pairs), func(i int) {
		if !hk.InShard(i) {
			return
		}
		pr := pairs[i]
		lr := hk.NewRNG(hk.Seed(), fmt.Sprintf("c15/%d", i))
		A, B := pool[pr.a], pool[pr.b]
		want := A.P.Add(B.P)
		relation := "distinct"
		switch {
		case A.P.Inf && B.P.Inf:
			relation = "inf+inf"
		case A.P.Inf || B.P.Inf:
			relation = "inf+P"
		case A.P.Eq(B.P):
			relation = "P+P"
		case A.P.Eq(B.P.Neg()):
			relation = "P+(-P)"
		}
		check := func(op, alias string, got *SM2Point, want ref.Pt) {
			g, _ := zvToRef(got)
			d := hk.D{"op": op, "alias": alias, "p1": zvPtHex(A.P), "p2": zvPtHex(B.P), "got": zvPtHex(g), "want": zvPtHex(want)}
			if !g.Eq(want) {
				r.Violation(fmt.Sprintf("%s-wrong:%s,%s", op, relation, alias), d)
			}
			if !zvOnCurveProjective(got) {
				r.Violation(fmt.Sprintf("%s-result-off-curve:%s,%s", op, relation, alias), d)
			}
			r.Eval(fmt.Sprintf("%s:%s,%s", op, relation, alias))
		}
		// fresh receiver
		p1, p2 := zvFromRef(A.P, lambdas(lr)), zvFromRef(B.P, lambdas(lr))
		s1, s2 := zvClonePt(p1), zvClonePt(p2)
		q := NewSM2Point()
		ret := q.Add(p1, p2)
		check("add", "fresh", q, want)
		if ret != q {
			r.Violation("add-does-not-return-receiver", hk.D{})
		}
		if !zvRawEq(p1, s1) || !zvRawEq(p2, s2) {
			r.Violation("add-modifies-operand", hk.D{"p1": zvPtHex(A.P), "p2": zvPtHex(B.P)})
		}
		// q = p1
		p1, p2 = zvFromRef(A.P, lambdas(lr)), zvFromRef(B.P, lambdas(lr))
		p1.Add(p1, p2)
		check("add", "q=p1", p1, want)
		// q = p2
		p1, p2 = zvFromRef(A.P, lambdas(lr)), zvFromRef(B.P, lambdas(lr))
		p2.Add(p1, p2)
		check("add", "q=p2", p2, want)
		if pr.a == pr.b {
			// p1 = p2 (same object) and all three the same
			p1 = zvFromRef(A.P, lambdas(lr))
			q = NewSM2Point().Add(p1, p1)
			check("add", "p1=p2", q, A.P.Dbl())
			p1.Add(p1, p1)
			check("add", "q=p1=p2", p1, A.P.Dbl())
			p1 = zvFromRef(A.P, lambdas(lr))
			q = NewSM2Point().Double(p1)
			check("double", "fresh", q, A.P.Dbl())
			p1.Double(p1)
			check("double", "q=p", p1, A.P.Dbl())
			p1 = zvFromRef(A.P, lambdas(lr))
			q = NewSM2Point().Negate(p1)
			check("negate", "fresh", q, A.P.Neg())
			p1.Negate(p1)
			check("negate", "q=p", p1, A.P.Neg())
			// P + (-P) with different representatives
			p1, p2 = zvFromRef(A.P, lambdas(lr)), zvFromRef(A.P.Neg(), lambdas(lr))
			check("add", "P+(-P)rescaled", NewSM2Point().Add(p1, p2), ref.Inf())
		}
		// receiver is a VALUE COPY of an operand (c := *p): a different struct that shares the operand's
		// coordinate elements - what a point stored by value in a slice, map or struct field is. An
		// implementation that detects overlap by comparing point addresses misses it.
		{
			p1, p2 = zvFromRef(A.P, lambdas(lr)), zvFromRef(B.P, lambdas(lr))
			c := *p1
			c.Add(p1, p2)
			check("add", "q=copy-of-p1", &c, want)
			p1, p2 = zvFromRef(A.P, lambdas(lr)), zvFromRef(B.P, lambdas(lr))
			c = *p2
			c.Add(p1, p2)
			check("add", "q=copy-of-p2", &c, want)
			p1, p2 = zvFromRef(A.P, lambdas(lr)), zvFromRef(B.P, lambdas(lr))
			c2 := *p2
			c2.Add(p1, &c2) // operand is itself the copy
			check("add", "q=p2=copy", &c2, want)
			p1, p2 = zvFromRef(A.P, lambdas(lr)), zvFromRef(B.P, lambdas(lr))
			c = *p1
			check("select", "q=copy-of-p1,cond=0", c.Select(p1, p2, 0), B.P)
			if pr.a == pr.b {
				p1 = zvFromRef(A.P, lambdas(lr))
				c = *p1
				c.Double(p1)
				check("double", "q=copy-of-p", &c, A.P.Dbl())
				p1 = zvFromRef(A.P, lambdas(lr))
				arr := []SM2Point{*p1}
				arr[0].Double(p1)
				check("double", "q=slice-element-copy-of-p", &arr[0], A.P.Dbl())
				p1 = zvFromRef(A.P, lambdas(lr))
				c = *p1
				c.Add(p1, p1)
				check("add", "q=copy-of-p1=p2", &c, A.P.Dbl())
				p1 = zvFromRef(A.P, lambdas(lr))
				c = *p1
				c.Negate(p1)
				check("negate", "q=copy-of-p", &c, A.P.Neg())
			}
		}
		// Select
		p1, p2 = zvFromRef(A.P, lambdas(lr)), zvFromRef(B.P, lambdas(lr))
		check("select", "cond=1", NewSM2Point().Select(p1, p2, 1), A.P)
		check("select", "cond=0", NewSM2Point().Select(p1, p2, 0), B.P)
		p1.Select(p1, p2, 0)
		check("select", "q=p1,cond=0", p1, B.P)
	})

	// ---- encodings
	for i := 0; i < hk.N(300, 5000); i++ {
		P := pool[rng.Intn(len(pool))].P
		if i%3 == 0 {
			P = ref.BaseMulFast(zvRandScalarI(rng))
		}
		lam := lambdas(rng)
		p := zvFromRef(P, lam)
		safe, fast := p.Bytes(), p.Bytes_Unsafe()
		var want []byte
		if P.Inf {
			want = []byte{0}
		} else {
			want = append([]byte{4}, append(ref.B32(P.X), ref.B32(P.Y)...)...)
		}
		d := hk.D{"P": zvPtHex(P), "lambda": lam.Text(16), "bytes": hk.Hex(safe), "bytes_unsafe": hk.Hex(fast)}
		if !bytes.Equal(safe, want) {
			r.Violation("bytes-wrong", d)
		}
		if !bytes.Equal(fast, want) {
			r.Violation("bytes_unsafe-wrong", d)
		}
		ax, axu := p.GetAffineX(), p.GetAffineX_Unsafe()
		wx := zvBi(0)
		if !P.Inf {
			wx = P.X
		}
		if ax.Cmp(wx) != 0 || axu.Cmp(wx) != 0 {
			d["affinex"], d["affinex_unsafe"] = ax.Text(16), axu.Text(16)
			r.Violation("getaffinex-wrong", d)
		}
		// decode(encode) = identity, into a receiver holding something else
		recv := zvFromRef(ref.G(), zvBi(3))
		q, err := recv.SetBytes(want)
		if err != nil || q != recv {
			r.Violation("setbytes-rejects-own-encoding", d)
		} else if g, _ := zvToRef(recv); !g.Eq(P) {
			r.Violation("setbytes-roundtrip-wrong", d)
		}
		// the results belong to the caller: it overwrites them (a buffer reused for the next message, a big.Int used as an
		// accumulator); encodings handed out LATER - of this point and of every other one - must not show it
		for j := range safe {
			safe[j] ^= 0xff
		}
		for j := range fast {
			fast[j] ^= 0x5a
		}
		ax.SetInt64(-7)
		axu.Lsh(axu, 3).Add(axu, zvBi(1))
		if !bytes.Equal(p.Bytes(), want) || !bytes.Equal(p.Bytes_Unsafe(), want) || p.GetAffineX().Cmp(wx) != 0 || p.GetAffineX_Unsafe().Cmp(wx) != 0 {
			r.Violation("conversion-wrong-after-the-caller-overwrote-an-earlier-result", d)
		}
		cls := "finite"
		if P.Inf {
			cls = "inf"
		} else if zvLeading(ref.B32(P.X)) > 0 || zvLeading(ref.B32(P.Y)) > 0 {
			cls = "finite-leading-zero-coordinate"
		}
		r.Eval("encode:" + cls)
	}
	// coordinates with leading zero bytes (padding path of Bytes_Unsafe): search small x
	cnt := 0
	for x := int64(1); x < 400 && cnt < 20; x++ {
		P, ok := ref.LiftX(zvBi(x))
		if !ok {
			continue
		}
		cnt++
		p := zvFromRef(P, new(big.Int).SetBytes(rng.Bytes(32)))
		want := append([]byte{4}, append(ref.B32(P.X), ref.B32(P.Y)...)...)
		if !bytes.Equal(p.Bytes(), want) || !bytes.Equal(p.Bytes_Unsafe(), want) {
			r.Violation("bytes-wrong:small-x", hk.D{"P": zvPtHex(P)})
		}
		r.Eval("encode:small-x")
	}

	// ---- decoded points used as operands AND receivers: decoding must hand out independent points
	//      (no storage shared with other points or with package-level constants)
	for i := 0; i < hk.N(60, 600); i++ {
		A, B, C := pool[1+rng.Intn(len(pool)-1)].P, pool[1+rng.Intn(len(pool)-1)].P, pool[1+rng.Intn(len(pool)-1)].P
		encOf := func(P ref.Pt) []byte {
			if P.Inf {
				return []byte{0}
			}
			return append([]byte{4}, append(ref.B32(P.X), ref.B32(P.Y)...)...)
		}
		a, _ := NewSM2Point().SetBytes(encOf(A))
		b, _ := NewSM2Point().SetBytes(encOf(B))
		c, _ := NewSM2Point().SetBytes(encOf(C))
		if a == nil || b == nil || c == nil {
			r.Violation("setbytes-rejects-own-encoding", hk.D{})
			continue
		}
		var wantA ref.Pt
		op := ""
		switch i % 4 {
		case 0:
			a.Add(a, b)
			wantA, op = A.Add(B), "a.Add(a,b)"
		case 1:
			a.Double(a)
			wantA, op = A.Dbl(), "a.Double(a)"
		case 2:
			a.Add(b, a)
			wantA, op = A.Add(B), "a.Add(b,a)"
		default:
			a.Negate(a)
			a.Add(a, a)
			wantA, op = A.Neg().Dbl(), "a.Negate(a);a.Add(a,a)"
		}
		ga, _ := zvToRef(a)
		gb, _ := zvToRef(b)
		gc, _ := zvToRef(c)
		d := hk.D{"op": op, "A": zvPtHex(A), "B": zvPtHex(B), "C": zvPtHex(C)}
		if !ga.Eq(wantA) {
			r.Violation("decoded-point-as-receiver-wrong", d)
		}
		if !gb.Eq(B) || !gc.Eq(C) {
			r.Violation("operation-on-decoded-point-changes-other-decoded-points", d)
		}
		// a point decoded afterwards must still round-trip
		again, err := NewSM2Point().SetBytes(encOf(C))
		if err != nil || !bytes.Equal(again.Bytes(), encOf(C)) || !bytes.Equal(again.Bytes_Unsafe(), encOf(C)) {
			r.Violation("decode-after-arithmetic-no-longer-roundtrips", d)
		}
		r.Eval("decoded-as-receiver:" + op)
	}
	// ---- the process-wide randomness source is HOSTILE while conversions and arithmetic run (all zero, all ones, ending,
	//      failing): nothing in the statement lets a result depend on it (a blinding that trusts its mask does)
	{
		type src struct {
			name string
			rd   io.Reader
		}
		P := ref.BaseMulFast(zvRandScalarI(rng))
		want := append([]byte{4}, append(ref.B32(P.X), ref.B32(P.Y)...)...)
		for _, sc := range []src{{"all-zero", c15constReader(0)}, {"all-ff", c15constReader(0xff)}, {"empty", bytes.NewReader(nil)}, {"failing", c15failReader{}}, {"p-then-zero", io.MultiReader(bytes.NewReader(ref.B32(ref.SM2P)), c15constReader(0))}} {
			saved := crand.Reader
			crand.Reader = sc.rd
			var gotB, gotU []byte
			var gx *big.Int
			var dbl ref.Pt
			p, msg, _, _ := hk.Try(func() {
				rep := zvFromRef(P, lambdas(rng))
				gotB, gotU, gx = rep.Bytes(), rep.Bytes_Unsafe(), rep.GetAffineX()
				dbl, _ = zvToRef(NewSM2Point().Double(rep))
			})
			crand.Reader = saved
			if p || !bytes.Equal(gotB, want) || !bytes.Equal(gotU, want) || gx == nil || gx.Cmp(P.X) != 0 || !dbl.Eq(P.Dbl()) {
				r.Violation("result-depends-on-the-process-wide-randomness-source:"+sc.name, hk.D{"point": zvPtHex(P), "bytes": hk.Hex(gotB), "want": hk.Hex(want), "panic": msg})
			}
			r.Eval("hostile-global-randomness:" + sc.name)
		}
	}

	// ---- representatives whose intermediates have chosen internal values (zz_verif_c15reps_test.go)
	c15chosenRepresentatives(r, rng)
	c15unitRepresentatives(r, rng)

	// ---- stateful walk: a small pool of long-lived point OBJECTS is driven through random sequences of
	//      every mutator and of the scalar multiplications, each object shadowed by the model's value.
	//      After every step ALL objects are compared with their shadows (state must not leak between
	//      objects or survive an update), and the fast/safe conversions must agree.
	for walk := 0; walk < hk.N(40, 400); walk++ {
		lr := hk.NewRNG(hk.Seed(), fmt.Sprintf("c15walk/%d", walk))
		const nObj = 4
		objs := make([]*SM2Point, nObj)
		shadow := make([]ref.Pt, nObj)
		for i := range objs {
			shadow[i] = pool[lr.Intn(len(pool))].P
			objs[i] = zvFromRef(shadow[i], lambdas(lr))
		}
		var hist []string
		for step := 0; step < 30; step++ {
			a, b, c := lr.Intn(nObj), lr.Intn(nObj), lr.Intn(nObj)
			op := lr.Intn(12)
			switch op {
			case 0:
				objs[a].Add(objs[b], objs[c])
				shadow[a] = shadow[b].Add(shadow[c])
				hist = append(hist, fmt.Sprintf("o%d.Add(o%d,o%d)", a, b, c))
			case 1:
				objs[a].Double(objs[b])
				shadow[a] = shadow[b].Dbl()
				hist = append(hist, fmt.Sprintf("o%d.Double(o%d)", a, b))
			case 2:
				objs[a].Negate(objs[b])
				shadow[a] = shadow[b].Neg()
				hist = append(hist, fmt.Sprintf("o%d.Negate(o%d)", a, b))
			case 3:
				cond := lr.Intn(2)
				objs[a].Select(objs[b], objs[c], cond)
				if cond == 1 {
					shadow[a] = shadow[b]
				} else {
					shadow[a] = shadow[c]
				}
				hist = append(hist, fmt.Sprintf("o%d.Select(o%d,o%d,%d)", a, b, c, cond))
			case 4:
				objs[a].Set(objs[b])
				shadow[a] = shadow[b]
				hist = append(hist, fmt.Sprintf("o%d.Set(o%d)", a, b))
			case 5:
				var enc []byte
				if shadow[b].Inf {
					enc = []byte{0}
				} else {
					enc = append([]byte{4}, append(ref.B32(shadow[b].X), ref.B32(shadow[b].Y)...)...)
				}
				if _, err := objs[a].SetBytes(enc); err != nil {
					r.Violation("walk:setbytes-rejects-valid-encoding", hk.D{"history": hist})
				}
				shadow[a] = shadow[b]
				hist = append(hist, fmt.Sprintf("o%d.SetBytes(enc(o%d))", a, b))
			case 6, 7:
				// variable-point multiplication of a long-lived object (result into another object)
				k := lr.Bytes([]int{32, 32, 1, 16, 33}[lr.Intn(5)])
				if lr.Intn(4) == 0 {
					k = ref.B32(zvBi(int64(lr.Intn(40))))
				}
				res, err := ScalarMult(objs[b], k)
				if err != nil {
					r.Violation("walk:scalarmult-error", hk.D{"history": hist})
					continue
				}
				want := shadow[b].Mul(new(big.Int).SetBytes(k))
				if g, _ := zvToRef(res); !g.Eq(want) {
					r.Violation("walk:scalarmult-wrong-on-long-lived-point", hk.D{"history": append(hist, fmt.Sprintf("ScalarMult(o%d,%x)", b, k)), "P": zvPtHex(shadow[b]), "k": hk.Hex(k), "got": zvPtHex(g), "want": zvPtHex(want)})
				}
				objs[a].Set(res)
				shadow[a] = want
				hist = append(hist, fmt.Sprintf("o%d.Set(ScalarMult(o%d,%x))", a, b, k))
			case 8:
				g, sc := lr.Bytes(32), lr.Bytes(32)
				if lr.Intn(3) == 0 {
					sc = ref.B32(zvBi(int64(lr.Intn(9000))))
				}
				res, err := ScalarMixedMult_Unsafe(g, objs[b], sc)
				if err != nil {
					continue
				}
				want := ref.BaseMulFast(new(big.Int).SetBytes(g)).Add(shadow[b].Mul(new(big.Int).SetBytes(sc)))
				if gg, _ := zvToRef(res); !gg.Eq(want) {
					r.Violation("walk:mixedmult-wrong-on-long-lived-point", hk.D{"history": append(hist, fmt.Sprintf("MixedMult(%x,o%d,%x)", g, b, sc))})
				}
				objs[a].Set(res)
				shadow[a] = want
				hist = append(hist, fmt.Sprintf("o%d.Set(MixedMult(g,o%d,s))", a, b))
			case 9:
				k := lr.Bytes(32)
				res, _ := ScalarBaseMult(k)
				want := ref.BaseMulFast(new(big.Int).SetBytes(k))
				objs[a].Set(res)
				shadow[a] = want
				hist = append(hist, fmt.Sprintf("o%d.Set(ScalarBaseMult)", a))
			case 10:
				// rescale the representation in place: same point, different (X:Y:Z)
				objs[a] = zvFromRef(shadow[a], lambdas(lr))
				hist = append(hist, fmt.Sprintf("o%d:=rescaled", a))
			default:
				// conversions on a long-lived object
				var want []byte
				if shadow[a].Inf {
					want = []byte{0}
				} else {
					want = append([]byte{4}, append(ref.B32(shadow[a].X), ref.B32(shadow[a].Y)...)...)
				}
				if !bytes.Equal(objs[a].Bytes(), want) || !bytes.Equal(objs[a].Bytes_Unsafe(), want) {
					r.Violation("walk:bytes-wrong-on-long-lived-point", hk.D{"history": hist})
				}
				hist = append(hist, fmt.Sprintf("o%d.Bytes()", a))
			}
			for i := range objs {
				if g, _ := zvToRef(objs[i]); !g.Eq(shadow[i]) {
					r.Violation("walk:object-differs-from-shadow", hk.D{"history": hist, "object": i, "got": zvPtHex(g), "want": zvPtHex(shadow[i])})
					shadow[i] = g // resynchronise so that one defect is reported once per walk
					continue
				}
				// ... and through the public conversions (which may keep derived state of their own in the object)
				var want []byte
				if shadow[i].Inf {
					want = []byte{0}
				} else {
					want = append([]byte{4}, append(ref.B32(shadow[i].X), ref.B32(shadow[i].Y)...)...)
				}
				var gotB, gotU []byte
				var gx *big.Int
				wantInf := 0
				if shadow[i].Inf {
					wantInf = 1
				}
				if objs[i].IsInfinity() != wantInf {
					r.Violation("walk:IsInfinity-wrong-on-long-lived-point", hk.D{"history": hist, "object": i, "got": objs[i].IsInfinity(), "want": wantInf, "z_is_zero": zvRawBig(objs[i].z).Sign() == 0})
				}
				p, msg, _, _ := hk.Try(func() {
					gotB, gotU = objs[i].Bytes(), objs[i].Bytes_Unsafe()
					if !shadow[i].Inf {
						gx = objs[i].GetAffineX()
					}
				})
				if p || !bytes.Equal(gotB, want) || !bytes.Equal(gotU, want) || (gx != nil && gx.Cmp(shadow[i].X) != 0) {
					r.Violation("walk:conversion-wrong-on-long-lived-point", hk.D{"history": hist, "object": i, "bytes": hk.Hex(gotB), "bytes_unsafe": hk.Hex(gotU), "want": hk.Hex(want), "panic": msg})
					objs[i] = zvFromRef(shadow[i], lambdas(lr))
				}
			}
		}
		r.Eval(fmt.Sprintf("walk:ops=%d", len(hist)))
	}
	// package-level state must be what it was: the generator, b, 1 and [1]G
	{
		if g, _ := zvToRef(sm2G); !g.Eq(ref.G()) {
			r.Violation("package-state-corrupted:sm2G", hk.D{})
		}
		if zvRawBig(sm2B).Cmp(ref.SM2B) != 0 {
			r.Violation("package-state-corrupted:sm2B", hk.D{})
		}
		if zvRawBig(sm2ElementOne).Cmp(zvBi(1)) != 0 {
			r.Violation("package-state-corrupted:sm2ElementOne", hk.D{"value": zvRawBig(sm2ElementOne).Text(16)})
		}
		one := make([]byte, 32)
		one[31] = 1
		if p1, err := ScalarBaseMult(one); err != nil {
			r.Violation("package-state-corrupted:[1]G", hk.D{})
		} else if g, _ := zvToRef(p1); !g.Eq(ref.G()) {
			r.Violation("package-state-corrupted:[1]G", hk.D{"got": zvPtHex(g)})
		}
		r.Eval("package-state-after-workload")
	}

	// ---- hostile decodings must fail and leave the receiver unchanged
	G := ref.G()
	valid := append([]byte{4}, append(ref.B32(G.X), ref.B32(G.Y)...)...)
	type enc struct {
		b     []byte
		label string
	}
	var encs []enc
	for l := 0; l <= 70; l++ {
		if l == 65 || l == 1 {
			continue
		}
		b := make([]byte, l)
		copy(b, valid)
		encs = append(encs, enc{b, fmt.Sprintf("length=%d", l)})
		b2 := rng.Bytes(l)
		if l > 0 {
			b2[0] = 4
		}
		encs = append(encs, enc{b2, fmt.Sprintf("length=%d", l)})
	}
	for pb := 0; pb < 256; pb++ {
		if pb != 4 {
			b := append([]byte{}, valid...)
			b[0] = byte(pb)
			encs = append(encs, enc{b, "prefix-byte"})
		}
		if pb != 0 {
			encs = append(encs, enc{[]byte{byte(pb)}, "one-byte-nonzero"})
		}
	}
	// compressed forms
	encs = append(encs, enc{append([]byte{2}, ref.B32(G.X)...), "compressed"}, enc{append([]byte{3}, ref.B32(G.X)...), "compressed"}, enc{append([]byte{0}, ref.B32(G.X)...), "compressed-0-prefix"})
	// bit flips of a valid encoding (off curve)
	for bit := 8; bit < 65*8; bit += hk.N(5, 1) {
		b := append([]byte{}, valid...)
		b[bit/8] ^= 1 << uint(bit%8)
		encs = append(encs, enc{b, "bitflip"})
	}
	// non-canonical coordinates
	lim := new(big.Int).Sub(zvB256, ref.SM2P)
	for x := int64(0); x < 60; x++ {
		P, ok := ref.LiftX(zvBi(x))
		if !ok {
			continue
		}
		encs = append(encs, enc{append([]byte{4}, append(ref.B32(new(big.Int).Add(P.X, ref.SM2P)), ref.B32(P.Y)...)...), "x+p"})
		if P.Y.Cmp(lim) < 0 {
			encs = append(encs, enc{append([]byte{4}, append(ref.B32(P.X), ref.B32(new(big.Int).Add(P.Y, ref.SM2P))...)...), "y+p"})
		}
	}
	{
		span := new(big.Int).Sub(zvB256, ref.SM2P)
		found := 0
		for tries := 0; found < hk.N(30, 300) && tries < 20000; tries++ {
			x0 := new(big.Int).SetBytes(rng.Bytes(29))
			switch tries % 5 {
			case 1:
				x0.Rsh(x0, uint(8*rng.Intn(24)))
			case 2:
				x0 = new(big.Int).Sub(span, new(big.Int).SetBytes(rng.Bytes(3)))
			case 3:
				x0 = new(big.Int).Add(new(big.Int).Lsh(zvBi(1), uint(64+rng.Intn(160))), new(big.Int).SetBytes(rng.Bytes(4)))
			}
			if x0.Sign() < 0 || x0.Cmp(span) >= 0 {
				continue
			}
			P, ok := ref.LiftX(x0)
			if !ok {
				continue
			}
			found++
			encs = append(encs, enc{append([]byte{4}, append(ref.B32(new(big.Int).Add(P.X, ref.SM2P)), ref.B32(P.Y)...)...), "x+p-anywhere"})
		}
	}
	// the coordinates of VALID points in containers other than the two the statement allows: bare X||Y (64 bytes),
	// 04||X, X alone, 04||X||Y||00, 00||04||X||Y, a doubled prefix
	for q := 0; q < hk.N(6, 40); q++ {
		P := ref.BaseMulFast(zvRandScalarI(rng))
		x, y := ref.B32(P.X), ref.B32(P.Y)
		cat := func(parts ...[]byte) []byte {
			var o []byte
			for _, p := range parts {
				o = append(o, p...)
			}
			return o
		}
		encs = append(encs, enc{cat(x, y), "valid-coordinates-without-prefix(64)"}, enc{cat([]byte{4}, x), "prefix+x-only(33)"}, enc{x, "x-only(32)"},
			enc{cat([]byte{4}, x, y, []byte{0}), "valid-encoding+trailing-byte(66)"}, enc{cat([]byte{0, 4}, x, y), "leading-zero+valid-encoding(66)"},
			enc{cat([]byte{4, 4}, x, y), "doubled-prefix(66)"}, enc{cat([]byte{6}, x, y), "hybrid-prefix-06"}, enc{cat([]byte{7}, x, y), "hybrid-prefix-07"})
	}
	// non-canonical coordinates with a sparse distance from the bound; y + p for the tiny-y points
	if als, aerr := ref.SparseAliases(); aerr == nil {
		for _, al := range als {
			encs = append(encs, enc{append([]byte{4}, append(append([]byte{}, al.X...), al.Y...)...), "non-canonical:" + al.Class})
		}
	} else {
		r.Inconclusive("alias construction: " + aerr.Error())
	}
	// off-curve points whose curve-equation defect sits in one limb / one byte of the plain or internal representation
	for _, np := range ref.NearCurvePoints(rng.Bytes, hk.N(2, 10)) {
		encs = append(encs, enc{append([]byte{4}, append(ref.B32(np.X), ref.B32(np.Y)...)...), "off-curve:" + np.Class})
	}
	encs = append(encs, enc{append([]byte{4}, append(ref.B32(ref.SM2P), ref.B32(G.Y)...)...), "x=p"},
		enc{append([]byte{4}, make([]byte, 64)...), "(0,0)"}, enc{append([]byte{4}, bytes.Repeat([]byte{0xff}, 64)...), "all-ff"}, enc{nil, "nil"})
	for i := 0; i < hk.N(300, 5000); i++ {
		encs = append(encs, enc{append([]byte{4}, rng.Bytes(64)...), "random-64"})
	}
	for _, e := range encs {
		// is it in fact a valid encoding? (bit flips can land on the curve only with negligible probability; decide by the model)
		isValid := false
		if len(e.b) == 1 && e.b[0] == 0 {
			isValid = true
		}
		if len(e.b) == 65 && e.b[0] == 4 && ref.OnCurve(ref.Int(e.b[1:33]), ref.Int(e.b[33:])) {
			isValid = true
		}
		recv := zvFromRef(ref.BaseMul(zvBi(7)), zvBi(11))
		before := zvClonePt(recv)
		var q *SM2Point
		var err error
		p, msg, _, _ := hk.Try(func() { q, err = recv.SetBytes(e.b) })
		d := hk.D{"encoding": hk.Hex(e.b), "label": e.label}
		switch {
		case p:
			d["panic"] = msg
			r.Violation("setbytes-panics:"+e.label, d)
		case isValid && err != nil:
			r.Violation("setbytes-rejects-valid:"+e.label, d)
		case !isValid && (err == nil || q != nil):
			r.Violation("setbytes-accepts-invalid:"+e.label, d)
		case !isValid && !zvRawEq(recv, before):
			r.Violation("setbytes-failure-clobbers-receiver:"+e.label, d)
		}
		r.Eval(fmt.Sprintf("decode:%s,valid=%v", e.label, isValid))
	}
}

func zvLeading(b []byte) int {
	n := 0
	for _, c := range b {
		if c != 0 {
			break
		}
		n++
	}
	return n
}

type c15constReader byte

func (c c15constReader) Read(p []byte) (int, error) {
	for i := range p {
		p[i] = byte(c)
	}
	return len(p), nil
}

type c15failReader struct{}

func (c15failReader) Read(p []byte) (int, error) { return 0, io.ErrClosedPipe }
