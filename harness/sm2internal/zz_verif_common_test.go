//go:build verif

package internal

import (
	"math/big"

	"github.com/bilibili/smgo/sm2/internal/fiat"
	"github.com/bilibili/smgo/zzverif/hk"
	"github.com/bilibili/smgo/zzverif/ref"
)

// toRef converts a library point to the model's affine form using the
// math/big based conversion (independent of the library's own inversion).
func zvToRef(p *SM2Point) (ref.Pt, bool) {
	zz := zvRawBig(p.z)
	if zz.Sign() == 0 {
		return ref.Inf(), true
	}
	zi := new(big.Int).ModInverse(zz, ref.SM2P)
	x := new(big.Int).Mul(zvRawBig(p.x), zi)
	y := new(big.Int).Mul(zvRawBig(p.y), zi)
	x.Mod(x, ref.SM2P)
	y.Mod(y, ref.SM2P)
	return ref.Pt{X: x, Y: y}, true
}

var zvRInv = new(big.Int).ModInverse(new(big.Int).Lsh(big.NewInt(1), 256), ref.SM2P)

// montBig interprets four little-endian limbs as a Montgomery-domain value and
// returns the ordinary residue (limbs * 2^-256 mod p), without using the
// library's own conversion.
func zvMontBig(l *[4]uint64) *big.Int {
	v := new(big.Int)
	for i := 3; i >= 0; i-- {
		v.Lsh(v, 64)
		v.Or(v, new(big.Int).SetUint64(l[i]))
	}
	v.Mul(v, zvRInv)
	return v.Mod(v, ref.SM2P)
}

func zvRawBig(e *fiat.SM2Element) *big.Int { return zvMontBig(e.GetRaw()) }

func zvElemFromBig(v *big.Int) *fiat.SM2Element {
	e, err := new(fiat.SM2Element).SetBytes(ref.B32(new(big.Int).Mod(v, ref.SM2P)))
	if err != nil {
		panic(err)
	}
	return e
}

// fromRef builds a projective representative (X·λ : Y·λ : λ) of the model point;
// infinity becomes (0 : λ : 0).
func zvFromRef(p ref.Pt, lambda *big.Int) *SM2Point {
	if lambda == nil || lambda.Sign() == 0 {
		lambda = big.NewInt(1)
	}
	if p.Inf {
		return &SM2Point{x: new(fiat.SM2Element), y: zvElemFromBig(lambda), z: new(fiat.SM2Element)}
	}
	return &SM2Point{
		x: zvElemFromBig(new(big.Int).Mul(p.X, lambda)),
		y: zvElemFromBig(new(big.Int).Mul(p.Y, lambda)),
		z: zvElemFromBig(lambda),
	}
}

// onCurveProjective checks Y^2 Z = X^3 - 3 X Z^2 + b Z^3 on the raw coordinates.
func zvOnCurveProjective(p *SM2Point) bool {
	X, Y, Z := zvRawBig(p.x), zvRawBig(p.y), zvRawBig(p.z)
	P := ref.SM2P
	l := new(big.Int).Mul(Y, Y)
	l.Mul(l, Z)
	l.Mod(l, P)
	z2 := new(big.Int).Mul(Z, Z)
	r := new(big.Int).Mul(X, X)
	r.Mul(r, X)
	t := new(big.Int).Mul(X, z2)
	t.Mul(t, big.NewInt(3))
	r.Sub(r, t)
	t = new(big.Int).Mul(z2, Z)
	t.Mul(t, ref.SM2B)
	r.Add(r, t)
	r.Mod(r, P)
	return l.Cmp(r) == 0
}

func zvPtHex(p ref.Pt) string {
	if p.Inf {
		return "inf"
	}
	return hk.Hex(ref.B32(p.X)) + "," + hk.Hex(ref.B32(p.Y))
}

func zvRandScalarI(rng *hk.RNG) *big.Int {
	for {
		k := new(big.Int).SetBytes(rng.Bytes(32))
		if k.Sign() > 0 && k.Cmp(ref.SM2N) < 0 {
			return k
		}
	}
}

func zvBi(x int64) *big.Int { return big.NewInt(x) }

var zvB256 = new(big.Int).Lsh(big.NewInt(1), 256)

// patternedPoints returns curve points whose affine x has a carry-critical INTERNAL representation in
// the coordinate field (x * 2^256 mod p made of limbs 0, 1, 2^32, 2^63, 2^64-1, limbs of p and of the
// curve constant b ...): "nice" coordinates look random inside, these are the ones that do not.
func zvPatternedPoints(rng *hk.RNG, count int) []ref.Pt {
	R := new(big.Int).Lsh(big.NewInt(1), 256)
	rinv := new(big.Int).ModInverse(R, ref.SM2P)
	alpha := []uint64{0, 1, 1 << 32, 1 << 63, 1<<64 - 1, 0xFFFFFFFF00000000, 0xFFFFFFFE00000000, 1<<32 - 1, 0xFFFFFFFEFFFFFFFF, 1<<64 - 2}
	bm := new(big.Int).Mod(new(big.Int).Mul(ref.SM2B, R), ref.SM2P) // internal form of b
	for i := 0; i < 4; i++ {
		alpha = append(alpha, new(big.Int).Rsh(bm, uint(64*i)).Uint64())
	}
	var out []ref.Pt
	for tries := 0; len(out) < count && tries < 4000; tries++ {
		m := new(big.Int)
		for i := 0; i < 4; i++ {
			m.Lsh(m, 64)
			m.Or(m, new(big.Int).SetUint64(alpha[rng.Intn(len(alpha))]))
		}
		if m.Cmp(ref.SM2P) >= 0 {
			continue
		}
		x := new(big.Int).Mod(new(big.Int).Mul(m, rinv), ref.SM2P)
		if P, ok := ref.LiftX(x); ok {
			if rng.Intn(2) == 0 {
				P = P.Neg()
			}
			out = append(out, P)
		}
	}
	return out
}
