//go:build verif

package internal

import (
	"fmt"
	"math/big"
	"sync"
	"testing"

	"github.com/bilibili/smgo/zzverif/hk"
	"github.com/bilibili/smgo/zzverif/ref"
)

// C18 — FIRST USE in a fresh process. Precomputed data must be what the derivations produce not only at
// rest: the first calls that read a table may come from many goroutines at once. Each trial is a new
// process (hk.RunChildren). The child derives every expected entry with the reference model only (no
// library call), then releases many goroutines whose first action is a base-point multiplication through
// a different comb scheme / entry point; every result is compared with the model, and every goroutine
// walks the LIVE tables (pointers re-resolved) as soon as ITS OWN first call has returned - sound for
// static tables and for tables built lazily under a once-guard alike - and once more at the end.

type c18entry struct {
	name  string
	where string
	get   func() (x, y *[4]uint64)
	k     *big.Int
}

func c18Entries() []c18entry {
	var es []c18entry
	for ti, tb := range c18tables() {
		width := 1<<uint(tb.w) - 1
		for j := 0; j < tb.sub && j < len(tb.first); j++ {
			for i := 0; i < width; i++ {
				k := new(big.Int)
				for b := 0; b < tb.w; b++ {
					if (i+1)>>uint(b)&1 == 1 {
						k.SetBit(k, tb.rm+j*tb.it+b*tb.sub*tb.it, 1)
					}
				}
				ti, j, i := ti, j, i
				es = append(es, c18entry{tb.name, fmt.Sprintf("%s[sub=%d][%d]", tb.name, j, i), func() (*[4]uint64, *[4]uint64) { f := c18tables()[ti].first; return f[j][0][i], f[j][1][i] }, k})
			}
		}
		if tb.rm >= 1 {
			for i := 0; i < 1<<uint(tb.rm)-1; i++ {
				ti, i := ti, i
				es = append(es, c18entry{tb.name, fmt.Sprintf("%s-remainder[%d]", tb.name, i), func() (*[4]uint64, *[4]uint64) { f := c18tables()[ti].second; return f[0][i], f[1][i] }, big.NewInt(int64(i + 1))})
			}
		}
	}
	return es
}

func TestVerifC18FirstUse(t *testing.T) {
	r := hk.NewReporter("C18", "sm2-tables-first-use")
	defer r.Close()
	trial := hk.ChildIndex()
	if trial < 0 {
		n := hk.N(16, 80)
		ran, failed := hk.RunChildren("TestVerifC18FirstUse", n)
		r.Count("fresh_process_trials", int64(ran))
		for _, f := range failed {
			r.Inconclusive("first-use child: " + f)
		}
		return
	}
	// ---- child: model only until the barrier
	rng := hk.NewRNG(hk.Seed()+uint64(trial)*7919, "c18first")
	es := c18Entries()
	want := make([]ref.Pt, len(es))
	for i := range es {
		want[i] = ref.BaseMulFast(es[i].k)
	}
	// expected INTERNAL limbs (Montgomery form), so that a walk is a plain limb comparison and fast
	// enough to fall into a window of a few microseconds
	R := new(big.Int).Lsh(big.NewInt(1), 256)
	limbs := func(v *big.Int) [4]uint64 {
		m := new(big.Int).Mod(new(big.Int).Mul(v, R), ref.SM2P)
		var l [4]uint64
		for i := 0; i < 4; i++ {
			l[i] = new(big.Int).Rsh(m, uint(64*i)).Uint64()
		}
		return l
	}
	wantX, wantY := make([][4]uint64, len(es)), make([][4]uint64, len(es))
	for i := range es {
		wantX[i], wantY[i] = limbs(want[i].X), limbs(want[i].Y)
	}
	walk := func(phase string, who int, passes int) {
		n := len(es)
		for pass := 0; pass < passes; pass++ {
			off := 0
			if who >= 0 {
				off = (who*53 + pass*17) % n
			}
			for j := 0; j < n; j++ {
				i := (j + off) % n
				var gx, gy [4]uint64
				p, pm, _, _ := hk.Try(func() {
					ex, ey := es[i].get()
					gx, gy = *ex, *ey
				})
				if p || gx != wantX[i] || gy != wantY[i] {
					d := hk.D{"entry": es[i].where, "phase": phase, "goroutine": who, "trial": trial, "scalar": es[i].k.Text(16), "want": zvPtHex(want[i]), "panic": pm,
						"got_internal_limbs_x": fmt.Sprintf("%016x", gx), "got_internal_limbs_y": fmt.Sprintf("%016x", gy)}
					r.Violation("table-entry-wrong:"+es[i].name+":"+phase, d)
					return
				}
			}
		}
		r.EvalN("first-use-walk:"+phase, len(es)*passes)
	}
	workers := 48
	ks := make([][]byte, workers)
	wantPt := make([]ref.Pt, workers)
	for i := range ks {
		ks[i] = ref.B32(zvRandScalarI(rng))
		wantPt[i] = ref.BaseMulFast(ref.Int(ks[i]))
	}
	P := ref.BaseMulFast(zvRandScalarI(rng))
	s2 := ref.B32(zvRandScalarI(rng))
	wantMixed := make([]ref.Pt, workers)
	for i := range ks {
		wantMixed[i] = wantPt[i].Add(P.Mul(ref.Int(s2)))
	}
	start := make(chan struct{})
	var wg sync.WaitGroup
	for w := 0; w < workers; w++ {
		wg.Add(1)
		go func(w int) {
			defer wg.Done()
			<-start
			var got *SM2Point
			var err error
			kind := []int{0, 0, 0, 1, 0, 2, 0, 3, 0, 4, 0, 5}[(w+trial)%12]
			p, pm, _, _ := hk.Try(func() {
				switch kind {
				case 0, 1:
					got, err = ScalarBaseMult(ks[w])
				case 2:
					got, err = scalarBaseMult_SkipBitExtraction_5_3_17(ks[w])
				case 3:
					got, err = scalarBaseMult_SkipBitExtraction_4_2_32(ks[w])
				case 4:
					got, err = scalarBaseMult_SkipBitExtraction_7_3_12(ks[w])
				default:
					got, err = ScalarMixedMult_Unsafe(ks[w], zvFromRef(P, zvBi(1)), s2)
				}
			})
			wantP := wantPt[w]
			if kind == 5 {
				wantP = wantMixed[w]
			}
			d := hk.D{"trial": trial, "goroutine": w, "routine": kind, "scalar": hk.Hex(ks[w])}
			switch {
			case p:
				d["panic"] = pm
				r.Violation("first-use-base-multiplication-panics", d)
			case err != nil:
				d["err"] = err.Error()
				r.Violation("first-use-base-multiplication-fails", d)
			default:
				if g, _ := zvToRef(got); !g.Eq(wantP) {
					d["got"], d["want"] = zvPtHex(g), zvPtHex(wantP)
					r.Violation("first-use-base-multiplication-wrong", d)
				}
			}
			r.Eval(fmt.Sprintf("first-use:routine=%d", kind))
			walk("after-own-first-call", w, 2)
		}(w)
	}
	close(start)
	wg.Wait()
	walk("after-first-use", -1, 1)
}
