//go:build verif

package internal

import (
	"bytes"
	"fmt"
	"math/big"
	"testing"

	"github.com/bilibili/smgo/zzverif/hk"
	"github.com/bilibili/smgo/zzverif/ref"
)

// C15 — FIRST USE in a fresh process: the first point operation of a program need not be the one that the library's
// own entry points happen to start with. Each trial is a fresh process (hk.RunChildren) in which only the model and
// the field-element decoder run before the first point operation; which operation comes first rotates with the trial
// index (doubling, addition, negation, encoding, decoding, the on-curve test, the generator, a base multiplication).
// The operands are built from their coordinates directly, not through any constructor of the package.
func TestVerifC15FirstUse(t *testing.T) {
	r := hk.NewReporter("C15", "sm2-point-first-use")
	defer r.Close()
	trial := hk.ChildIndex()
	kinds := []string{"Double", "Add", "Negate", "Bytes", "SetBytes", "Sm2CheckOnCurve", "NewSM2Generator", "ScalarBaseMult", "Double-in-place", "Add-doubling-case", "GetAffineX", "Select"}
	if trial < 0 {
		n := len(kinds)
		if hk.Thorough() {
			n *= 3
		}
		ran, failed := hk.RunChildren("TestVerifC15FirstUse", n)
		r.Count("fresh_process_trials", int64(ran))
		for _, f := range failed {
			r.Inconclusive("first-use child: " + f)
		}
		return
	}
	rng := hk.NewRNG(hk.Seed()+uint64(trial)*32452843, "c15first")
	kind := kinds[trial%len(kinds)]
	k1, k2 := new(big.Int).SetBytes(rng.Bytes(31)), new(big.Int).SetBytes(rng.Bytes(31))
	A, B := ref.BaseMulFast(k1), ref.BaseMulFast(k2)
	lam := new(big.Int).SetBytes(rng.Bytes(20))
	enc := func(P ref.Pt) []byte {
		if P.Inf {
			return []byte{0}
		}
		return append([]byte{4}, append(ref.B32(P.X), ref.B32(P.Y)...)...)
	}
	bad := func(what string, got, want ref.Pt) {
		r.Violation("point-operation-wrong-as-first-use-in-a-fresh-process:"+kind, hk.D{"trial": trial, "operation": what, "A": zvPtHex(A), "B": zvPtHex(B), "got": zvPtHex(got), "want": zvPtHex(want)})
	}
	step := func(what string) {
		p, pm, _, _ := hk.Try(func() {
			switch what {
			case "Double":
				q := NewSM2Point().Double(zvFromRef(A, lam))
				if g, _ := zvToRef(q); !g.Eq(A.Dbl()) {
					bad(what, g, A.Dbl())
				}
			case "Double-in-place":
				q := zvFromRef(A, lam)
				q.Double(q)
				if g, _ := zvToRef(q); !g.Eq(A.Dbl()) {
					bad(what, g, A.Dbl())
				}
			case "Add":
				q := NewSM2Point().Add(zvFromRef(A, lam), zvFromRef(B, nil))
				if g, _ := zvToRef(q); !g.Eq(A.Add(B)) {
					bad(what, g, A.Add(B))
				}
			case "Add-doubling-case":
				q := NewSM2Point().Add(zvFromRef(A, lam), zvFromRef(A, nil))
				if g, _ := zvToRef(q); !g.Eq(A.Dbl()) {
					bad(what, g, A.Dbl())
				}
			case "Negate":
				q := NewSM2Point().Negate(zvFromRef(A, lam))
				if g, _ := zvToRef(q); !g.Eq(A.Neg()) {
					bad(what, g, A.Neg())
				}
			case "Bytes":
				if got := zvFromRef(A, lam).Bytes(); !bytes.Equal(got, enc(A)) {
					r.Violation("point-operation-wrong-as-first-use-in-a-fresh-process:"+kind, hk.D{"trial": trial, "operation": what, "got": hk.Hex(got), "want": hk.Hex(enc(A))})
				}
			case "GetAffineX":
				if got := zvFromRef(A, lam).GetAffineX(); got.Cmp(A.X) != 0 {
					r.Violation("point-operation-wrong-as-first-use-in-a-fresh-process:"+kind, hk.D{"trial": trial, "operation": what, "got": got.Text(16), "want": A.X.Text(16)})
				}
			case "SetBytes":
				q, err := NewSM2Point().SetBytes(enc(A))
				if err != nil || q == nil {
					r.Violation("point-operation-wrong-as-first-use-in-a-fresh-process:"+kind, hk.D{"trial": trial, "operation": what, "err": fmt.Sprint(err)})
				} else if g, _ := zvToRef(q); !g.Eq(A) {
					bad(what, g, A)
				}
			case "Sm2CheckOnCurve":
				on := Sm2CheckOnCurve(zvElemFromBig(A.X), zvElemFromBig(A.Y)) == nil
				off := Sm2CheckOnCurve(zvElemFromBig(A.X), zvElemFromBig(B.Y)) == nil
				if !on || off {
					r.Violation("point-operation-wrong-as-first-use-in-a-fresh-process:"+kind, hk.D{"trial": trial, "operation": what, "on_curve_point_accepted": on, "off_curve_point_accepted": off})
				}
			case "NewSM2Generator":
				if g, _ := zvToRef(NewSM2Generator()); !g.Eq(ref.G()) {
					bad(what, g, ref.G())
				}
			case "ScalarBaseMult":
				q, err := ScalarBaseMult(ref.B32(k1))
				if err != nil || q == nil {
					r.Violation("point-operation-wrong-as-first-use-in-a-fresh-process:"+kind, hk.D{"trial": trial, "operation": what, "err": fmt.Sprint(err)})
				} else if g, _ := zvToRef(q); !g.Eq(A) {
					bad(what, g, A)
				}
			case "Select":
				q := NewSM2Point().Select(zvFromRef(A, lam), zvFromRef(B, nil), 1)
				if g, _ := zvToRef(q); !g.Eq(A) {
					bad(what, g, A)
				}
			}
		})
		if p {
			r.Violation("panic-as-first-use-in-a-fresh-process:"+kind, hk.D{"trial": trial, "operation": what, "panic": pm})
		}
	}
	step(kind)
	// then every other operation, in an order that depends on the trial
	for i := range kinds {
		step(kinds[(i+trial)%len(kinds)])
	}
	r.Eval("first-use:" + kind)
}
