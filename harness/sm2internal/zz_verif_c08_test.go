//go:build verif && valgrind

package internal

import (
	"fmt"
	"os"
	"testing"
	"unsafe"

	"github.com/bilibili/smgo/utils"
)

// C08 / internal — scalar multiplications, masked table selection and point
// arithmetic on tainted scalars / coordinates under memcheck.

var vgSink uint64

func vgNote(format string, a ...interface{}) {
	if p := os.Getenv("VERIF_VG_NOTES"); p != "" {
		f, err := os.OpenFile(p, os.O_CREATE|os.O_WRONLY|os.O_APPEND, 0o644)
		if err == nil {
			fmt.Fprintf(f, format+"\n", a...)
			f.Close()
		}
	}
}

func vgBytes(seed int, n int) []byte {
	b := make([]byte, n)
	x := uint32(seed*2654435761 + 99991)
	for i := range b {
		x = x*1664525 + 1013904223
		b[i] = byte(x >> 24)
	}
	return b
}

func zvPoisonP(p *SM2Point) {
	utils.VgPoisonPtr(unsafe.Pointer(p.x.GetRaw()), 32)
	utils.VgPoisonPtr(unsafe.Pointer(p.y.GetRaw()), 32)
	utils.VgPoisonPtr(unsafe.Pointer(p.z.GetRaw()), 32)
}

func zvUnpoisonP(p *SM2Point) {
	utils.VgUnpoisonPtr(unsafe.Pointer(p.x.GetRaw()), 32)
	utils.VgUnpoisonPtr(unsafe.Pointer(p.y.GetRaw()), 32)
	utils.VgUnpoisonPtr(unsafe.Pointer(p.z.GetRaw()), 32)
}

//go:noinline
func vgS_ScalarBaseMult(k []byte) {
	utils.VgPoison(k)
	p, _ := ScalarBaseMult(k)
	zvUnpoisonP(p)
	utils.VgUnpoison(k)
	vgSink += p.x.GetRaw()[0]
}

//go:noinline
func vgS_ScalarBaseMult_scheme(which int, k []byte) {
	utils.VgPoison(k)
	var p *SM2Point
	switch which {
	case 0:
		p, _ = scalarBaseMult_SkipBitExtraction_5_3_17(k)
	case 1:
		p, _ = scalarBaseMult_SkipBitExtraction_4_2_32(k)
	default:
		p, _ = scalarBaseMult_SkipBitExtraction_7_3_12(k)
	}
	zvUnpoisonP(p)
	utils.VgUnpoison(k)
	vgSink += p.x.GetRaw()[0]
}

//go:noinline
func vgS_ScalarMult(P *SM2Point, k []byte) {
	utils.VgPoison(k)
	p, _ := ScalarMult(P, k)
	zvUnpoisonP(p)
	utils.VgUnpoison(k)
	vgSink += p.x.GetRaw()[0]
}

//go:noinline
func vgS_ScalarMult_tainted_point(P *SM2Point, k []byte) {
	// ECDH: both the scalar and (through the result) the coordinates are sensitive
	utils.VgPoison(k)
	zvPoisonP(P)
	p, _ := ScalarMult(P, k)
	zvUnpoisonP(p)
	zvUnpoisonP(P)
	utils.VgUnpoison(k)
	vgSink += p.x.GetRaw()[0]
}

//go:noinline
func vgS_MultiSelectXY(tbl *[][]*[4]uint64, width int, bits byte) {
	bb := []byte{bits}
	utils.VgPoison(bb)
	p := NewSM2Point()
	p.MultiSelectXY(tbl, width, bb[0])
	zvUnpoisonP(p)
	utils.VgUnpoison(bb)
	vgSink += p.x.GetRaw()[0]
}

//go:noinline
func vgS_MultiSelectXYZ(tbl *[][]*[4]uint64, width int, bits byte) {
	bb := []byte{bits}
	utils.VgPoison(bb)
	p := NewSM2Point()
	p.MultiSelectXYZ(tbl, width, bb[0])
	zvUnpoisonP(p)
	utils.VgUnpoison(bb)
	vgSink += p.x.GetRaw()[0]
}

//go:noinline
func vgS_PointArith(a, b *SM2Point) {
	zvPoisonP(a)
	zvPoisonP(b)
	q := NewSM2Point()
	q.Add(a, b)
	q.Double(q)
	q.Negate(q)
	q.Select(q, a, 1)
	q.Add(q, q)
	zvUnpoisonP(q)
	zvUnpoisonP(a)
	zvUnpoisonP(b)
	vgSink += q.x.GetRaw()[0]
}

//go:noinline
func vgS_Point_Bytes_safe(a *SM2Point) {
	zvPoisonP(a)
	out := a.Bytes()
	utils.VgUnpoison(out)
	zvUnpoisonP(a)
	vgSink += uint64(out[0])
}

//go:noinline
func vgS_Point_GetAffineX_safe(a *SM2Point) {
	zvPoisonP(a)
	x := a.GetAffineX()
	utils.VgUnpoisonPtr(unsafe.Pointer(x), unsafe.Sizeof(*x))
	w := x.Bits()
	if len(w) > 0 {
		utils.VgUnpoisonPtr(unsafe.Pointer(&w[0]), uintptr(len(w))*unsafe.Sizeof(w[0]))
	}
	zvUnpoisonP(a)
	vgSink += uint64(len(w))
}

func TestVgC08InternalBase(t *testing.T) {
	if !utils.VgRunning() {
		t.Skip("not under valgrind")
	}
	vgSink += uint64(utils.VgControls())
	ks := [][]byte{vgBytes(1, 32), make([]byte, 32), vgBytes(2, 32)}
	for i := range ks[2] {
		ks[2][i] = 0xff
	}
	one := make([]byte, 32)
	one[31] = 1
	ks = append(ks, one)
	for _, k := range ks {
		vgS_ScalarBaseMult(k)
	}
	vgNote("scenario ScalarBaseMult %d", len(ks))
}

func TestVgC08InternalSchemes(t *testing.T) {
	if !utils.VgRunning() {
		t.Skip("not under valgrind")
	}
	vgSink += uint64(utils.VgControls())
	for which := 0; which < 3; which++ {
		vgS_ScalarBaseMult_scheme(which, vgBytes(10+which, 32))
		z := make([]byte, 32)
		vgS_ScalarBaseMult_scheme(which, z)
	}
	vgNote("scenario ScalarBaseMult_scheme 6")
}

func TestVgC08InternalVar(t *testing.T) {
	if !utils.VgRunning() {
		t.Skip("not under valgrind")
	}
	vgSink += uint64(utils.VgControls())
	G := NewSM2Generator()
	P, _ := ScalarBaseMult(vgBytes(20, 32))
	n := 0
	for _, l := range []int{1, 16, 31, 32, 33, 40} {
		vgS_ScalarMult(G, vgBytes(30+l, l))
		n++
	}
	vgS_ScalarMult(P, vgBytes(31, 32))
	vgS_ScalarMult(P, make([]byte, 32))
	ff := make([]byte, 32)
	for i := range ff {
		ff[i] = 0xff
	}
	vgS_ScalarMult(P, ff)
	n += 3
	vgNote("scenario ScalarMult %d", n)
	vgS_ScalarMult_tainted_point(P, vgBytes(32, 32))
	vgNote("scenario ScalarMult_tainted_point 1")
}

func TestVgC08InternalPoint(t *testing.T) {
	if !utils.VgRunning() {
		t.Skip("not under valgrind")
	}
	vgSink += uint64(utils.VgControls())
	// masked selection over the live tables and over a transformed table with Z
	type tb struct {
		t     *[][]*[4]uint64
		width int
	}
	tbs := []tb{{&sm2Precomputed_6_3_14[0], 63}, {&sm2Precomputed_5_3_17[1], 31}, {&sm2Precomputed_4_2_32[0], 15}, {&sm2Precomputed_7_3_12[2], 127}, {&sm2Precomputed_6_3_14_Remainder, 15}}
	n := 0
	for _, x := range tbs {
		for bits := 0; bits <= x.width; bits++ {
			vgS_MultiSelectXY(x.t, x.width, byte(bits))
			n++
		}
	}
	vgNote("scenario MultiSelectXY %d", n)
	G := NewSM2Generator()
	var pre []*SM2Point
	acc := NewSM2Point()
	for i := 0; i < 15; i++ {
		acc = NewSM2Point().Add(acc, G)
		pre = append(pre, acc)
	}
	tbl := TransformPrecomputed(&pre, 15)
	for bits := 0; bits <= 15; bits++ {
		vgS_MultiSelectXYZ(&tbl, 15, byte(bits))
	}
	vgNote("scenario MultiSelectXYZ 16")
	A, _ := ScalarBaseMult(vgBytes(40, 32))
	B, _ := ScalarBaseMult(vgBytes(41, 32))
	vgS_PointArith(A, B)
	vgS_PointArith(A, NewSM2Point().Set(A)) // equal points
	vgS_PointArith(A, NewSM2Point().Negate(A))
	vgS_PointArith(NewSM2Point(), B) // infinity
	vgNote("scenario PointArith 4")
	vgS_Point_Bytes_safe(NewSM2Point().Set(A))
	vgS_Point_Bytes_safe(NewSM2Point())
	vgNote("scenario Point_Bytes_safe 2")
	vgS_Point_GetAffineX_safe(NewSM2Point().Set(B))
	vgNote("scenario Point_GetAffineX_safe 1")
}

// thorough tier: more scalars per comb scheme (zero rows, dense rows, boundary values) and every
// scalar length 1..40 for the variable-point multiplication
func TestVgC08InternalBaseMore(t *testing.T) {
	if !utils.VgRunning() {
		t.Skip("not under valgrind")
	}
	vgSink += uint64(utils.VgControls())
	var ks [][]byte
	for i := 0; i < 10; i++ {
		ks = append(ks, vgBytes(300+i, 32))
	}
	small := make([]byte, 32)
	small[29] = 1 // 2^16: the three top comb windows are zero
	sparse := make([]byte, 32)
	sparse[0], sparse[31] = 0x40, 0x01
	hi := make([]byte, 32)
	hi[0] = 0x80
	nm1 := []byte{0xFF, 0xFF, 0xFF, 0xFE, 0xFF, 0xFF, 0xFF, 0xFF, 0xFF, 0xFF, 0xFF, 0xFF, 0xFF, 0xFF, 0xFF, 0xFF, 0x72, 0x03, 0xDF, 0x6B, 0x21, 0xC6, 0x05, 0x2B, 0x53, 0xBB, 0xF4, 0x09, 0x39, 0xD5, 0x41, 0x22}
	ks = append(ks, small, sparse, hi, nm1)
	for _, k := range ks {
		vgS_ScalarBaseMult(append([]byte{}, k...))
		for which := 0; which < 3; which++ {
			vgS_ScalarBaseMult_scheme(which, append([]byte{}, k...))
		}
	}
	vgNote("scenario ScalarBaseMult %d", len(ks))
	vgNote("scenario ScalarBaseMult_scheme %d", 3*len(ks))
}

func TestVgC08InternalVarMore(t *testing.T) {
	if !utils.VgRunning() {
		t.Skip("not under valgrind")
	}
	vgSink += uint64(utils.VgControls())
	G := NewSM2Generator()
	negG := NewSM2Point().Negate(G)
	twoG := NewSM2Point().Double(G)
	n := 0
	for l := 1; l <= 40; l++ {
		P := []*SM2Point{G, negG, twoG}[l%3]
		vgS_ScalarMult(P, vgBytes(400+l, l))
		n++
	}
	vgNote("scenario ScalarMult %d", n)
	Q, _ := ScalarBaseMult(vgBytes(450, 32))
	for i := 0; i < 3; i++ {
		vgS_ScalarMult_tainted_point(NewSM2Point().Set(Q), vgBytes(451+i, 32))
	}
	vgNote("scenario ScalarMult_tainted_point 3")
}
