//go:build verif

package internal

import (
	"fmt"
	"math/big"

	"github.com/bilibili/smgo/zzverif/hk"
	"github.com/bilibili/smgo/zzverif/ref"
)

// C15 - projective representatives with CHOSEN internal values. "Doubling and addition in any projective
// representative": the formulas multiply, triple and octuple squares and products of the coordinates; a one-pass
// 3*t or 8*t with a lazy fold, a deferred reduction or a narrowed carry goes wrong only when the internal (Montgomery)
// residue of such an intermediate lies in a narrow window next to j*2^256/k or (j*2^256 + p)/k - probability 2^-32 or
// less for random representatives and for "nice" points. For a point P = (x, y) and a target residue v the scaling
// lambda is solved so that X, Y, Z, X^2, Y^2, Z^2, XY, XZ or YZ of (lambda x : lambda y : lambda) has exactly the
// internal value v (square roots mod p where needed, by the model); then Double and Add are judged on it.

func c15boundaryResidues() []*big.Int {
	var out []*big.Int
	zvB256 := new(big.Int).Lsh(big.NewInt(1), 256)
	p := ref.SM2P
	add := func(v *big.Int) {
		for d := int64(-2); d <= 2; d++ {
			w := new(big.Int).Add(v, big.NewInt(d))
			if w.Sign() > 0 && w.Cmp(p) < 0 {
				out = append(out, w)
			}
		}
	}
	for _, k := range []int64{2, 3, 4, 8} {
		for j := int64(1); j < k; j++ {
			add(new(big.Int).Div(new(big.Int).Mul(big.NewInt(j), zvB256), big.NewInt(k)))
			add(new(big.Int).Div(new(big.Int).Add(new(big.Int).Mul(big.NewInt(j), zvB256), p), big.NewInt(k)))
			add(new(big.Int).Div(new(big.Int).Mul(big.NewInt(j), p), big.NewInt(k)))
			add(new(big.Int).Div(new(big.Int).Add(new(big.Int).Mul(big.NewInt(j), zvB256), new(big.Int).Sub(zvB256, p)), big.NewInt(k)))
		}
	}
	add(new(big.Int).Sub(p, big.NewInt(3)))
	add(new(big.Int).Sub(zvB256, p))
	return out
}

// c15lambda solves the scaling so that the named intermediate of (lambda x : lambda y : lambda) has the internal
// (Montgomery) residue v. ok=false if a needed square root does not exist.
func c15lambda(P ref.Pt, kind string, v *big.Int) (*big.Int, bool) {
	p := ref.SM2P
	rinv := new(big.Int).ModInverse(new(big.Int).Lsh(big.NewInt(1), 256), p)
	w := new(big.Int).Mul(v, rinv) // the VALUE whose internal form is v
	w.Mod(w, p)
	inv := func(a *big.Int) *big.Int { return new(big.Int).ModInverse(new(big.Int).Mod(a, p), p) }
	mul := func(a, b *big.Int) *big.Int { return new(big.Int).Mod(new(big.Int).Mul(a, b), p) }
	var l *big.Int
	switch kind {
	case "X":
		l = mul(w, inv(P.X))
	case "Y":
		l = mul(w, inv(P.Y))
	case "Z":
		l = w
	case "X^2":
		s := ref.SqrtP(w)
		if s == nil {
			return nil, false
		}
		l = mul(s, inv(P.X))
	case "Y^2":
		s := ref.SqrtP(w)
		if s == nil {
			return nil, false
		}
		l = mul(s, inv(P.Y))
	case "Z^2":
		l = ref.SqrtP(w)
	case "XY":
		l = ref.SqrtP(mul(w, inv(mul(P.X, P.Y))))
	case "XZ":
		l = ref.SqrtP(mul(w, inv(P.X)))
	default: // YZ
		l = ref.SqrtP(mul(w, inv(P.Y)))
	}
	if l == nil || l.Sign() == 0 {
		return nil, false
	}
	return l, true
}

func c15chosenRepresentatives(r *hk.Reporter, rng *hk.RNG) {
	kinds := []string{"X", "Y", "Z", "X^2", "Y^2", "Z^2", "XY", "XZ", "YZ"}
	res := c15boundaryResidues()
	pts := []ref.Pt{ref.G(), ref.BaseMulFast(big.NewInt(2)), ref.BaseMulFast(zvRandScalarI(rng)), ref.BaseMulFast(zvRandScalarI(rng))}
	Q := ref.BaseMulFast(zvRandScalarI(rng))
	n := 0
	for vi, v0 := range res {
		for ki, kind := range kinds {
			if !hk.Thorough() && (vi+ki+int(hk.Seed()))%2 != 0 {
				continue
			}
			P := pts[(vi+ki)%len(pts)]
			// the windows that matter are wide (about 2^222): step down from the boundary until the square root exists
			var lam *big.Int
			v := new(big.Int).Set(v0)
			for tries := 0; tries < 8; tries++ {
				if l, ok := c15lambda(P, kind, v); ok {
					lam = l
					break
				}
				v = new(big.Int).Sub(v, big.NewInt(5))
			}
			if lam == nil {
				continue
			}
			rep := zvFromRef(P, lam)
			d := hk.D{"point": zvPtHex(P), "intermediate": kind, "internal_value": fmt.Sprintf("%064x", v), "lambda": fmt.Sprintf("%064x", lam)}
			var dbl, sum, sum2, self *SM2Point
			p, msg, _, _ := hk.Try(func() {
				dbl = NewSM2Point().Double(rep)
				sum = NewSM2Point().Add(rep, zvFromRef(Q, big.NewInt(1)))
				sum2 = NewSM2Point().Add(zvFromRef(Q, lam), rep)
				self = NewSM2Point().Add(rep, zvFromRef(P, big.NewInt(1)))
			})
			if p {
				d["panic"] = msg
				r.Violation("point-arithmetic-panics-on-chosen-representative", d)
				continue
			}
			chk := func(op string, got *SM2Point, want ref.Pt) {
				if g, _ := zvToRef(got); !g.Eq(want) {
					d["op"], d["got"], d["want"] = op, zvPtHex(g), zvPtHex(want)
					r.Violation("point-arithmetic-wrong-on-representative-with-chosen-internal-value:"+op, d)
				}
			}
			chk("Double", dbl, P.Dbl())
			chk("Add(rep,Q)", sum, P.Add(Q))
			chk("Add(Q*,rep)", sum2, Q.Add(P))
			chk("Add(rep,P)", self, P.Dbl())
			n++
		}
	}
	r.EvalN("representatives-with-chosen-internal-values", n)
}

// c15unitRepresentatives: representatives in which one coordinate (or a product of two) has a "recognisable" VALUE -
// 1, 2, 3, -1, a = -3, b - of points that include the two points with x = 0. A shortcut that recognises a neutral
// element, a fresh accumulator (0:1:0) or an affine operand by testing only SOME of its coordinates is wrong exactly on
// such a representative of an ordinary point (probability 2^-256 under random scaling). Judged by the affine model.
func c15unitRepresentatives(r *hk.Reporter, rng *hk.RNG) {
	p := ref.SM2P
	R := new(big.Int).Lsh(big.NewInt(1), 256)
	vals := []*big.Int{big.NewInt(1), big.NewInt(2), big.NewInt(3), new(big.Int).Sub(p, big.NewInt(1)), new(big.Int).Sub(p, big.NewInt(3)), ref.SM2B}
	var internals []*big.Int
	for _, w := range vals {
		internals = append(internals, new(big.Int).Mod(new(big.Int).Mul(w, R), p)) // value w
	}
	internals = append(internals, big.NewInt(1), big.NewInt(2)) // Montgomery residue 1, 2
	y0 := ref.SqrtP(ref.SM2B)
	pts := []ref.Pt{ref.G(), ref.BaseMulFast(big.NewInt(2)), ref.BaseMulFast(zvRandScalarI(rng))}
	if y0 != nil {
		pts = append(pts, ref.Pt{X: big.NewInt(0), Y: y0}, ref.Pt{X: big.NewInt(0), Y: new(big.Int).Sub(p, y0)})
	}
	others := []ref.Pt{ref.G(), ref.BaseMulFast(zvRandScalarI(rng))}
	kinds := []string{"X", "Y", "Z", "X^2", "Y^2", "Z^2", "XY", "XZ", "YZ"}
	n := 0
	for _, P := range pts {
		for _, kind := range kinds {
			if P.X.Sign() == 0 && (kind == "X" || kind == "X^2" || kind == "XY" || kind == "XZ") {
				continue
			}
			for _, v := range internals {
				lam, ok := c15lambda(P, kind, v)
				if !ok {
					continue
				}
				rep := zvFromRef(P, lam)
				d := hk.D{"point": zvPtHex(P), "intermediate": kind, "internal_value": fmt.Sprintf("%064x", v), "lambda": fmt.Sprintf("%064x", lam)}
				for qi, Q := range others {
					var dbl, s1, s2, s3 *SM2Point
					pn, msg, _, _ := hk.Try(func() {
						dbl = NewSM2Point().Double(rep)
						s1 = NewSM2Point().Add(rep, zvFromRef(Q, big.NewInt(1)))
						s2 = NewSM2Point().Add(zvFromRef(Q, big.NewInt(1)), rep)
						s3 = NewSM2Point().Add(rep, zvFromRef(Q, lam))
					})
					if pn {
						d["panic"] = msg
						r.Violation("point-arithmetic-panics-on-unit-representative", d)
						continue
					}
					chk := func(op string, got *SM2Point, want ref.Pt) {
						if g, _ := zvToRef(got); !g.Eq(want) {
							d["op"], d["other"], d["got"], d["want"] = op, zvPtHex(Q), zvPtHex(g), zvPtHex(want)
							r.Violation("point-arithmetic-wrong-on-representative-with-unit-coordinate:"+op, d)
						}
					}
					if qi == 0 {
						chk("Double", dbl, P.Dbl())
					}
					chk("Add(rep,Q)", s1, P.Add(Q))
					chk("Add(Q,rep)", s2, Q.Add(P))
					chk("Add(rep,Q*)", s3, P.Add(Q))
					n++
				}
			}
		}
	}
	r.EvalN("representatives-with-unit-coordinates", n)
}
