//go:build verif

package hk

import "sync"

// AtStackDepths runs f(depth) from FRESH goroutines, each at another recursion depth, so that the goroutine stack has to
// grow (be moved by the runtime) at another point inside f each time: a raw address kept across a call - a uintptr to a
// stack buffer, a pointer hidden from escape analysis - then points into the old copy. The sweep covers frames from a
// few hundred bytes up to about maxBytes of stack in `count` steps (the phase of the steps comes from the seed).
// f must report its own findings (it runs concurrently in groups of `parallel` goroutines).
func AtStackDepths(count, maxBytes, parallel int, f func(depth int)) {
	const frame = 112 // approximate bytes of stack per recursion step below
	maxDepth := maxBytes / frame
	if count < 1 {
		count = 1
	}
	step := maxDepth / count
	if step < 1 {
		step = 1
	}
	sem := make(chan struct{}, parallel)
	var wg sync.WaitGroup
	for depth := int(Seed() % uint64(step)); depth < maxDepth; depth += step {
		wg.Add(1)
		sem <- struct{}{}
		go func(depth int) {
			defer wg.Done()
			defer func() { <-sem }()
			var pad [48]byte
			stackRecurse(depth, &pad, func() { f(depth) })
		}(depth)
	}
	wg.Wait()
}

var stackSink byte

//go:noinline
func stackRecurse(depth int, pad *[48]byte, f func()) byte {
	var local [48]byte
	local[depth%48] = pad[(depth+1)%48] + 1
	if depth == 0 {
		f()
		return local[0]
	}
	return stackRecurse(depth-1, &local, f) + local[depth%48]
}
