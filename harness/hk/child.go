//go:build verif

package hk

import (
	"fmt"
	"os"
	"os/exec"
	"time"
)

// Fresh-process trials: some states exist only once per process (package initialisation, lazily built
// tables, the first call of an entry point). A monitor that wants to observe them under a hostile
// schedule re-executes the test binary: the parent test calls RunChildren, every child runs the same
// test function with VERIF_CHILD=<trial index> set and appends its own report to $VERIF_OUT (race
// reports of children go to the same GORACE log_path prefix). A child that dies without a report is
// returned in failed; the watchdog only makes the run inconclusive.

// ChildIndex returns the trial index of this process, or -1 in the parent.
func ChildIndex() int {
	v := os.Getenv("VERIF_CHILD")
	if v == "" {
		return -1
	}
	n := 0
	fmt.Sscanf(v, "%d", &n)
	return n
}

func RunChildren(testName string, n int) (ran int, failed []string) {
	for i := 0; i < n; i++ {
		cmd := exec.Command(os.Args[0], "-test.run", "^"+testName+"$", "-test.count=1", "-test.timeout=5m")
		cmd.Env = append(os.Environ(), fmt.Sprintf("VERIF_CHILD=%d", i), "VERIF_JOURNAL=")
		done := make(chan error, 1)
		var out []byte
		go func() {
			var err error
			out, err = cmd.CombinedOutput()
			done <- err
		}()
		select {
		case err := <-done:
			ran++
			if err != nil {
				tail := out
				if len(tail) > 1500 {
					tail = tail[len(tail)-1500:]
				}
				failed = append(failed, fmt.Sprintf("trial %d: %v: %s", i, err, tail))
			}
		case <-time.After(6 * time.Minute):
			cmd.Process.Kill()
			failed = append(failed, fmt.Sprintf("trial %d: watchdog", i))
		}
	}
	return
}

// EnvProp returns the property a test that serves several properties reports for in this run (VERIF_UNIT_PROP, set by
// the unit's configuration), or "".
func EnvProp() string { return os.Getenv("VERIF_UNIT_PROP") }
