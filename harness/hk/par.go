//go:build verif

package hk

import (
	"runtime"
	"sync"
)

// Parallel runs f(i) for i in [0,n) on all cores. Each case must derive its
// own RNG from its index so that results do not depend on scheduling.
func Parallel(n int, f func(i int)) {
	w := runtime.GOMAXPROCS(0)
	if w > n {
		w = n
	}
	if w < 1 {
		w = 1
	}
	var wg sync.WaitGroup
	ch := make(chan int, 256)
	for j := 0; j < w; j++ {
		wg.Add(1)
		go func() {
			defer wg.Done()
			for i := range ch {
				f(i)
			}
		}()
	}
	for i := 0; i < n; i++ {
		ch <- i
	}
	close(ch)
	wg.Wait()
}

// InShard reports whether case i belongs to this process's shard.
func InShard(i int) bool {
	si, sn := Shard()
	return i%sn == si
}
