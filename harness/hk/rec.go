//go:build verif

package hk

import "bytes"

// Record lays the given byte-string arguments out in ONE backing array, the way callers keep
// several fields of a record next to each other (ZA || xA || yA, key || nonce, header || body):
// every view handed to the code under test is a sub-slice whose CAPACITY extends over the fields
// that follow it. A callee that appends to an argument, or writes beyond its length, destroys live
// caller data without touching unmapped memory, so neither guard pages nor the race detector see
// it; the monitor compares the whole record with its snapshot after the call.
type Record struct {
	buf  []byte
	snap []byte
	offs [][2]int
}

// NewRecord copies the fields into a fresh record, separated by gap canary bytes, with tail spare
// canary bytes after the last field. A nil field stays nil (and takes no room).
func NewRecord(gap, tail int, fields ...[]byte) *Record {
	r := &Record{}
	n := tail
	for _, f := range fields {
		n += len(f) + gap
	}
	r.buf = make([]byte, 0, n)
	for i, f := range fields {
		lo := len(r.buf)
		r.buf = append(r.buf, f...)
		r.offs = append(r.offs, [2]int{lo, len(r.buf)})
		for j := 0; j < gap; j++ {
			r.buf = append(r.buf, byte(0xA5^i^j))
		}
	}
	for j := 0; j < tail; j++ {
		r.buf = append(r.buf, byte(0x5A^j))
	}
	r.snap = append([]byte{}, r.buf...)
	return r
}

// View returns field i as a sub-slice of the record: len = the field, cap = everything up to the
// end of the record.
func (r *Record) View(i int, orig []byte) []byte {
	if orig == nil {
		return nil
	}
	o := r.offs[i]
	return r.buf[o[0]:o[1]]
}

// Intact reports whether every byte of the record (fields, gaps, tail) still has the value it had
// when the record was built; off is the first modified offset and field the index of the field it
// lies in (-1: a gap or the tail).
func (r *Record) Intact() (ok bool, off int, field int) {
	if bytes.Equal(r.buf, r.snap) {
		return true, -1, -1
	}
	for i := range r.buf {
		if r.buf[i] != r.snap[i] {
			for fi, o := range r.offs {
				if i >= o[0] && i < o[1] {
					return false, i, fi
				}
			}
			return false, i, -1
		}
	}
	return false, -1, -1
}
