//go:build verif

// Package hk is the harness kit shared by all in-package monitors that the
// verification driver injects into bilibili/SMGo with `go test -overlay`.
// It is written in the Go 1.17 dialect (the repository's go.mod says go 1.17).
package hk

import (
	"encoding/hex"
	"encoding/json"
	"fmt"
	"os"
	"runtime/debug"
	"sort"
	"strconv"
	"strings"
	"sync"
)

// ---------------------------------------------------------------------------
// deterministic PRNG (splitmix64 seeding a xoshiro256**)

type RNG struct{ s [4]uint64 }

func splitmix(x *uint64) uint64 {
	*x += 0x9e3779b97f4a7c15
	z := *x
	z = (z ^ (z >> 30)) * 0xbf58476d1ce4e5b9
	z = (z ^ (z >> 27)) * 0x94d049bb133111eb
	return z ^ (z >> 31)
}

// NewRNG derives an independent stream from (seed, stream name).
func NewRNG(seed uint64, stream string) *RNG {
	x := seed ^ 0x5851f42d4c957f2d
	for _, c := range []byte(stream) {
		x = (x ^ uint64(c)) * 0x100000001b3
	}
	r := &RNG{}
	for i := range r.s {
		r.s[i] = splitmix(&x)
	}
	return r
}

func rotl(x uint64, k uint) uint64 { return (x << k) | (x >> (64 - k)) }

func (r *RNG) Uint64() uint64 {
	res := rotl(r.s[1]*5, 7) * 9
	t := r.s[1] << 17
	r.s[2] ^= r.s[0]
	r.s[3] ^= r.s[1]
	r.s[1] ^= r.s[2]
	r.s[0] ^= r.s[3]
	r.s[2] ^= t
	r.s[3] = rotl(r.s[3], 45)
	return res
}

func (r *RNG) Intn(n int) int {
	if n <= 0 {
		return 0
	}
	return int(r.Uint64() % uint64(n))
}

func (r *RNG) Fill(b []byte) {
	var w uint64
	for i := range b {
		if i&7 == 0 {
			w = r.Uint64()
		}
		b[i] = byte(w)
		w >>= 8
	}
}

func (r *RNG) Bytes(n int) []byte {
	b := make([]byte, n)
	r.Fill(b)
	return b
}

// Read makes RNG an io.Reader that never fails.
func (r *RNG) Read(p []byte) (int, error) {
	r.Fill(p)
	return len(p), nil
}

// Pick returns one of the given ints.
func (r *RNG) Pick(xs []int) int { return xs[r.Intn(len(xs))] }

// ---------------------------------------------------------------------------
// environment

func Tier() string {
	t := os.Getenv("VERIF_TIER")
	if t != "thorough" {
		return "quick"
	}
	return t
}

func Thorough() bool { return Tier() == "thorough" }

func Seed() uint64 {
	s := os.Getenv("VERIF_SEED")
	if s == "" {
		return 1
	}
	v, err := strconv.ParseInt(s, 10, 64)
	if err != nil {
		return 1
	}
	return uint64(v)
}

// Shard returns (index, count) from VERIF_SHARD="i/N" (default 0/1).
func Shard() (int, int) {
	s := os.Getenv("VERIF_SHARD")
	parts := strings.Split(s, "/")
	if len(parts) == 2 {
		i, e1 := strconv.Atoi(parts[0])
		n, e2 := strconv.Atoi(parts[1])
		if e1 == nil && e2 == nil && n > 0 && i >= 0 && i < n {
			return i, n
		}
	}
	return 0, 1
}

// Pick returns q in the quick tier and th in the thorough tier.
func N(q, th int) int {
	if Thorough() {
		return th
	}
	return q
}

func Hex(b []byte) string { return hex.EncodeToString(b) }

func Unhex(s string) []byte {
	b, err := hex.DecodeString(s)
	if err != nil {
		panic(err)
	}
	return b
}

// ---------------------------------------------------------------------------
// Reporter: what the monitor observed, written as one JSON document to
// $VERIF_OUT when Close is called. Safe for concurrent use.

type Violation struct {
	Class  string                 `json:"class"`
	Count  int                    `json:"count"`
	Detail map[string]interface{} `json:"detail"`
}

type Reporter struct {
	mu         sync.Mutex
	Prop       string
	Check      string
	evals      int64
	classes    map[string]int64
	samples    []interface{}
	maxSamples int
	viol       map[string]*Violation
	violOrder  []string
	notes      map[string]interface{}
	counters   map[string]int64
	incon      []string
	journal    *os.File
}

func NewReporter(prop, check string) *Reporter {
	r := &Reporter{Prop: prop, Check: check, classes: map[string]int64{}, viol: map[string]*Violation{},
		notes: map[string]interface{}{}, counters: map[string]int64{}, maxSamples: 6}
	if p := os.Getenv("VERIF_JOURNAL"); p != "" {
		f, err := os.OpenFile(p, os.O_CREATE|os.O_WRONLY|os.O_TRUNC, 0o644)
		if err == nil {
			r.journal = f
		}
	}
	return r
}

// Eval records one evaluated case belonging to the given class.
func (r *Reporter) Eval(class string) {
	r.mu.Lock()
	r.evals++
	r.classes[class]++
	r.mu.Unlock()
}

// EvalN records n evaluations of one class (for tight inner loops).
func (r *Reporter) EvalN(class string, n int) {
	r.mu.Lock()
	r.evals += int64(n)
	r.classes[class] += int64(n)
	r.mu.Unlock()
}

// Class marks a class as observed without counting an evaluation.
func (r *Reporter) Class(class string) {
	r.mu.Lock()
	r.classes[class]++
	r.mu.Unlock()
}

func (r *Reporter) Sample(v interface{}) {
	r.mu.Lock()
	if len(r.samples) < r.maxSamples {
		r.samples = append(r.samples, v)
	}
	r.mu.Unlock()
}

func (r *Reporter) Count(key string, n int64) {
	r.mu.Lock()
	r.counters[key] += n
	r.mu.Unlock()
}

func (r *Reporter) Note(key string, v interface{}) {
	r.mu.Lock()
	r.notes[key] = v
	r.mu.Unlock()
}

// Violation records a violation. class identifies the *kind* of failure
// (operation + argument shape + failure kind); it is what KNOWN_FINDINGS
// entries are matched against, so keep it specific and input-independent
// where possible. Only the first detail per class is kept.
func (r *Reporter) Violation(class string, detail map[string]interface{}) {
	r.mu.Lock()
	v, ok := r.viol[class]
	if !ok {
		v = &Violation{Class: class, Detail: detail}
		r.viol[class] = v
		r.violOrder = append(r.violOrder, class)
	}
	v.Count++
	r.mu.Unlock()
}

func (r *Reporter) Violations() int {
	r.mu.Lock()
	defer r.mu.Unlock()
	return len(r.viol)
}

// Inconclusive records an infrastructure problem (oracle self-test failed,
// class never observed, …). It never turns into a violation.
func (r *Reporter) Inconclusive(msg string) {
	r.mu.Lock()
	r.incon = append(r.incon, msg)
	r.mu.Unlock()
}

// Journal writes a line that survives a fatal crash of the process: the
// driver reports the last line as the witness if the child dies.
func (r *Reporter) Journal(format string, a ...interface{}) {
	if r.journal == nil {
		return
	}
	r.mu.Lock()
	fmt.Fprintf(r.journal, format+"\n", a...)
	r.mu.Unlock()
}

type report struct {
	Prop         string                 `json:"property"`
	Check        string                 `json:"check"`
	Tier         string                 `json:"tier"`
	Seed         uint64                 `json:"seed"`
	Shard        string                 `json:"shard"`
	Evaluations  int64                  `json:"evaluations"`
	Classes      map[string]int64       `json:"classes"`
	Samples      []interface{}          `json:"samples"`
	Violations   []*Violation           `json:"violations"`
	Notes        map[string]interface{} `json:"notes"`
	Counters     map[string]int64       `json:"counters"`
	Inconclusive []string               `json:"inconclusive"`
}

// Close writes the report. It must be called exactly once, at the end.
func (r *Reporter) Close() {
	r.mu.Lock()
	defer r.mu.Unlock()
	si, sn := Shard()
	rep := report{Prop: r.Prop, Check: r.Check, Tier: Tier(), Seed: Seed(), Shard: fmt.Sprintf("%d/%d", si, sn),
		Evaluations: r.evals, Classes: r.classes, Samples: r.samples, Notes: r.notes, Counters: r.counters,
		Inconclusive: r.incon}
	for _, c := range r.violOrder {
		rep.Violations = append(rep.Violations, r.viol[c])
	}
	if rep.Violations == nil {
		rep.Violations = []*Violation{}
	}
	if rep.Samples == nil {
		rep.Samples = []interface{}{}
	}
	if rep.Inconclusive == nil {
		rep.Inconclusive = []string{}
	}
	out := os.Getenv("VERIF_OUT")
	data, err := json.Marshal(rep)
	if err != nil {
		panic(err)
	}
	if out == "" {
		// interactive use: print a summary
		keys := make([]string, 0, len(r.classes))
		for k := range r.classes {
			keys = append(keys, k)
		}
		sort.Strings(keys)
		fmt.Printf("[%s/%s] evaluations=%d classes=%d violations=%d inconclusive=%d\n", r.Prop, r.Check, r.evals, len(keys), len(rep.Violations), len(r.incon))
		for _, v := range rep.Violations {
			d, _ := json.Marshal(v.Detail)
			fmt.Printf("  VIOL %s x%d %s\n", v.Class, v.Count, d)
		}
		for _, m := range r.incon {
			fmt.Printf("  INCONCLUSIVE %s\n", m)
		}
		return
	}
	// append: several Test functions of one run may each write a report
	f, err := os.OpenFile(out, os.O_CREATE|os.O_WRONLY|os.O_APPEND, 0o644)
	if err != nil {
		panic(err)
	}
	f.Write(append(data, '\n'))
	f.Close()
	if r.journal != nil {
		r.journal.Close()
	}
}

// D is a shorthand for violation details.
type D map[string]interface{}

// Try runs f, recovering a panic. It reports whether f panicked, the panic
// value rendered as a string, and — if the panic is a memory fault converted
// by debug.SetPanicOnFault — the faulting address.
func Try(f func()) (panicked bool, msg string, isFault bool, addr uintptr) {
	// SetPanicOnFault is per goroutine: faults at unexpected addresses (guard
	// pages, write-protected inputs) become recoverable panics carrying Addr().
	old := debug.SetPanicOnFault(true)
	defer debug.SetPanicOnFault(old)
	defer func() {
		if p := recover(); p != nil {
			panicked = true
			msg = fmt.Sprint(p)
			type addrer interface{ Addr() uintptr }
			if a, ok := p.(addrer); ok {
				isFault = true
				addr = a.Addr()
			}
		}
	}()
	f()
	return
}

// Perm returns a pseudo-random permutation of 0..n-1 (Fisher-Yates).
func (r *RNG) Perm(n int) []int {
	p := make([]int, n)
	for i := range p {
		p[i] = i
	}
	for i := n - 1; i > 0; i-- {
		j := r.Intn(i + 1)
		p[i], p[j] = p[j], p[i]
	}
	return p
}
