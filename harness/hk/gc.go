//go:build verif

package hk

import (
	"runtime"
	"time"
)

// GCBarrier forces garbage collection until everything that was unreachable when it was called has
// been collected AND its finalizers have run: two rounds, each allocating a sentinel object with a
// finalizer, dropping it and collecting until that finalizer has fired (the runtime runs finalizers
// from one goroutine, batch after batch, so after the second sentinel every finalizer queued by the
// first round has finished). The watchdog only decides "inconclusive" (false), never a verdict.
func GCBarrier() bool {
	for round := 0; round < 2; round++ {
		ch := make(chan struct{})
		func() {
			s := new([64]byte)
			runtime.SetFinalizer(s, func(*[64]byte) { close(ch) })
		}()
		fired := false
		for i := 0; i < 100 && !fired; i++ {
			runtime.GC()
			select {
			case <-ch:
				fired = true
			case <-time.After(50 * time.Millisecond):
			}
		}
		if !fired {
			return false
		}
	}
	return true
}

// Churn allocates (and returns, so that the caller keeps them alive) many small heap objects of the size classes up to
// 1 KiB, filled with a junk pattern: memory that the collector has just freed is handed out again and overwritten, so a
// raw address that still points there (an object kept alive by nothing but a uintptr) reads junk instead of its old
// contents.
func Churn() [][]byte {
	var keep [][]byte
	for round := 0; round < 4; round++ {
		for _, sz := range []int{16, 32, 48, 64, 96, 128, 144, 160, 192, 256, 288, 320, 384, 512, 1024} {
			for i := 0; i < 400; i++ {
				b := make([]byte, sz)
				for j := range b {
					b[j] = 0xA5
				}
				keep = append(keep, b)
			}
		}
	}
	return keep
}
