//go:build verif

package hk

import (
	"runtime"
	"time"
)

// GCBarrier forces garbage collection until everything that was unreachable when it was called has
// been collected AND its finalizers have run: two rounds, each allocating a sentinel object with a
// finalizer, dropping it and collecting until that finalizer has fired (the runtime runs finalizers
// from one goroutine, batch after batch, so after the second sentinel every finalizer queued by the
// first round has finished). The watchdog only decides "inconclusive" (false), never a verdict.
func GCBarrier() bool {
	for round := 0; round < 2; round++ {
		ch := make(chan struct{})
		func() {
			s := new([64]byte)
			runtime.SetFinalizer(s, func(*[64]byte) { close(ch) })
		}()
		fired := false
		for i := 0; i < 100 && !fired; i++ {
			runtime.GC()
			select {
			case <-ch:
				fired = true
			case <-time.After(50 * time.Millisecond):
			}
		}
		if !fired {
			return false
		}
	}
	return true
}
