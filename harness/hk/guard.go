//go:build verif

package hk

import (
	"syscall"
	"unsafe"
)

// Guarded buffers: a byte slice inside its own anonymous mapping with an
// inaccessible (PROT_NONE) page directly before and directly after the data
// pages. Placement End puts the last byte of the slice on the last byte of
// the data pages (over-reads/-writes of even one byte fault); placement Start
// puts the first byte at the start of the data pages (under-runs fault).
// cap(B) == len(B) always, so the Go side cannot silently reslice past it.

const (
	PlaceEnd   = 0
	PlaceStart = 1
	PlaceMid   = 2
)

type GBuf struct {
	B      []byte
	region []byte
	data   []byte // the data pages (between the guards)
	ps     int
	lo     int // offset of B[0] inside data
	place  int
}

var pageSize = syscall.Getpagesize()

// NewGuarded allocates a guarded buffer of n bytes.
func NewGuarded(n int, place int) *GBuf {
	ps := pageSize
	pages := (n + ps - 1) / ps
	if pages == 0 {
		pages = 1
	}
	if place == PlaceMid {
		pages++
	}
	region, err := syscall.Mmap(-1, 0, (pages+2)*ps, syscall.PROT_READ|syscall.PROT_WRITE, syscall.MAP_ANON|syscall.MAP_PRIVATE)
	if err != nil {
		panic(err)
	}
	if err := syscall.Mprotect(region[:ps], syscall.PROT_NONE); err != nil {
		panic(err)
	}
	if err := syscall.Mprotect(region[(pages+1)*ps:], syscall.PROT_NONE); err != nil {
		panic(err)
	}
	g := &GBuf{region: region, ps: ps, data: region[ps : (pages+1)*ps], place: place}
	switch place {
	case PlaceEnd:
		end := (pages + 1) * ps
		g.B = region[end-n : end : end]
		g.lo = end - n - ps
	case PlaceStart:
		g.B = region[ps : ps+n : ps+n]
		g.lo = 0
	default:
		off := ps + 64 + (ps-n%ps)%64
		g.B = region[off : off+n : off+n]
		g.lo = off - ps
	}
	return g
}

// Canary fills the data pages outside B with a pattern; CheckCanary verifies it.
func (g *GBuf) Canary() {
	lo, hi := g.bounds()
	for i := range g.data {
		if i < lo || i >= hi {
			g.data[i] = byte(0xC5 ^ i)
		}
	}
}

func (g *GBuf) bounds() (int, int) { return g.lo, g.lo + len(g.B) }

// CheckCanary returns the offset (relative to B[0]) of the first corrupted
// canary byte, or ok=true.
func (g *GBuf) CheckCanary() (ok bool, off int) {
	lo, hi := g.bounds()
	for i := range g.data {
		if i < lo || i >= hi {
			if g.data[i] != byte(0xC5^i) {
				return false, i - lo
			}
		}
	}
	return true, 0
}

// ReadOnly write-protects the data pages (a write faults at the instruction).
func (g *GBuf) ReadOnly() {
	if err := syscall.Mprotect(g.data, syscall.PROT_READ); err != nil {
		panic(err)
	}
}

func (g *GBuf) Writable() {
	if err := syscall.Mprotect(g.data, syscall.PROT_READ|syscall.PROT_WRITE); err != nil {
		panic(err)
	}
}

func (g *GBuf) Free() {
	if g.region != nil {
		syscall.Munmap(g.region)
		g.region = nil
		g.B = nil
		g.data = nil
	}
}

// Contains reports whether addr lies inside B.
func (g *GBuf) Contains(addr uintptr) bool {
	if len(g.B) == 0 {
		return false
	}
	p := uintptr(unsafe.Pointer(&g.B[0]))
	return addr >= p && addr < p+uintptr(len(g.B))
}

// InRegion reports whether addr lies inside the mapping (data or guards) and
// its offset relative to B[0] (negative = before).
func (g *GBuf) InRegion(addr uintptr) (bool, int) {
	p := uintptr(unsafe.Pointer(&g.region[0]))
	if addr < p || addr >= p+uintptr(len(g.region)) {
		return false, 0
	}
	lo, _ := g.bounds()
	d := uintptr(unsafe.Pointer(&g.data[0]))
	return true, int(int64(addr) - int64(d) - int64(lo))
}

// Pool reuses mappings by (size, place) so that tens of thousands of guarded
// calls do not mmap each time.
type Pool struct {
	m map[[2]int][]*GBuf
}

func NewPool() *Pool { return &Pool{m: map[[2]int][]*GBuf{}} }

func (p *Pool) Get(n, place int) *GBuf {
	k := [2]int{n, place}
	l := p.m[k]
	if len(l) > 0 {
		g := l[len(l)-1]
		p.m[k] = l[:len(l)-1]
		return g
	}
	return NewGuarded(n, place)
}

func (p *Pool) Put(g *GBuf) {
	g.Writable()
	k := [2]int{len(g.B), g.placeKey()}
	if len(p.m[k]) > 64 {
		g.Free()
		return
	}
	p.m[k] = append(p.m[k], g)
}

func (g *GBuf) placeKey() int { return g.place }

// OverCap returns the same bytes as B with a CAPACITY that reaches over the inaccessible page
// behind an end-abutting buffer (a slice of a larger mapping whose tail was protected later:
// len ends at the last accessible byte, cap does not). Code that appends to an argument, or
// reslices it up to its capacity, faults at the first byte. Only meaningful for PlaceEnd.
func (g *GBuf) OverCap() []byte {
	if g.place != PlaceEnd {
		return g.B
	}
	lo := g.ps + g.lo
	return g.region[lo : lo+len(g.B) : lo+len(g.B)+g.ps]
}

// ZeroMap returns n bytes of untouched anonymous memory outside the Go heap (MAP_NORESERVE): reads see
// zeros and cost no resident memory until a page is written. It makes operands of 2^31 .. 2^33 bytes
// affordable, for the places where a length crosses an integer width. writable=false maps it PROT_READ.
func ZeroMap(n int, writable bool) []byte {
	prot := syscall.PROT_READ
	if writable {
		prot |= syscall.PROT_WRITE
	}
	b, err := syscall.Mmap(-1, 0, n, prot, syscall.MAP_ANON|syscall.MAP_PRIVATE|syscall.MAP_NORESERVE)
	if err != nil {
		return nil
	}
	return b
}

func Unmap(b []byte) {
	if b != nil {
		syscall.Munmap(b)
	}
}
