//go:build verif

package hk

import (
	"sort"
	"time"
)

// OverlapLog records when operations ran WITHOUT synchronising the goroutines that run them. The first version of
// the concurrency monitors stamped an atomic counter before and after every operation; the race detector treats
// atomic operations as synchronisation, so every pair of operations that did not overlap in real time was ordered
// through the monitor's own counter and a data race between them could not be reported - the monitor hid what it was
// looking for. Each goroutine now appends (start, end) readings of the monotonic clock to a log of its own (no shared
// memory is touched during the run); the logs are merged after the goroutines have finished. The readings are
// evidence of concurrency (how many operations started while another was in flight, how many were in flight at
// most), never a verdict.
type OverlapLog struct {
	base time.Time
	ev   []int64 // start, end, start, end ... nanoseconds since base
}

func NewOverlapLog(base time.Time) *OverlapLog { return &OverlapLog{base: base} }

func (l *OverlapLog) Begin() { l.ev = append(l.ev, int64(time.Since(l.base))) }
func (l *OverlapLog) End()   { l.ev = append(l.ev, int64(time.Since(l.base))) }

// MergeOverlap returns the number of operations, how many of them started while another one was in flight, and the
// largest number in flight at once.
func MergeOverlap(logs []*OverlapLog) (ops, overlapped, maxInFlight int64) {
	type pt struct {
		t     int64
		start bool
	}
	var pts []pt
	for _, l := range logs {
		if l == nil {
			continue
		}
		for i := 0; i+1 < len(l.ev); i += 2 {
			pts = append(pts, pt{l.ev[i], true}, pt{l.ev[i+1], false})
			ops++
		}
	}
	sort.Slice(pts, func(i, j int) bool {
		if pts[i].t != pts[j].t {
			return pts[i].t < pts[j].t
		}
		return !pts[i].start && pts[j].start
	})
	var cur int64
	for _, p := range pts {
		if p.start {
			if cur > 0 {
				overlapped++
			}
			cur++
			if cur > maxInFlight {
				maxInFlight = cur
			}
		} else {
			cur--
		}
	}
	return
}
