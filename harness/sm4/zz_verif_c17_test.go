//go:build verif

package sm4

import (
	"bytes"
	"crypto/cipher"
	"fmt"
	"runtime"
	"sync"
	"sync/atomic"
	"testing"

	"github.com/bilibili/smgo/zzverif/hk"
	"github.com/bilibili/smgo/zzverif/ref"
)

// C17 (SM4 part) — one Block and one AEAD shared by many goroutines together
// with shared, write-protected input buffers. Every concurrent result is
// compared with the result precomputed serially by the reference model (the
// objects are immutable, so per-operation equality is the linearizability
// condition). The race detector watches the Go side; PROT_READ pages watch
// what the assembly writes.

type c17op struct {
	kind   string // "enc", "dec", "seal", "open", "open-forged"
	in     *hk.GBuf
	aad    *hk.GBuf
	nonce  *hk.GBuf
	want   []byte
	wantOK bool
}

func TestVerifC17SM4(t *testing.T) {
	r := hk.NewReporter("C17", "sm4-concurrent")
	defer r.Close()
	if err := ref.SelfTestGCM(); err != nil {
		r.Inconclusive("oracle self-test: " + err.Error())
		return
	}
	rng := hk.NewRNG(hk.Seed(), "c17sm4")
	protect := func(b []byte) *hk.GBuf {
		g := hk.NewGuarded(len(b), hk.PlaceMid)
		copy(g.B, b)
		g.ReadOnly()
		return g
	}
	rounds := hk.N(4, 12)
	var maxInflight, overlapped, total int64
	for _, asm := range paths() {
		asm := asm
		withAsm(asm, func() {
			pn := pathName(asm)
			for round := 0; round < rounds; round++ {
				procs := []int{16, 4, 16, 2}[round%4]
				old := runtime.GOMAXPROCS(procs)
				key := rng.Bytes(16)
				gKey := protect(key)
				blk, _ := NewCipher(gKey.B)
				var nonceV []byte
				var aead cipher.AEAD
				// vary the AEAD family per round: default, truncated tags, non-standard nonce
				tagSize, nonceLen := 16, 12
				switch round % 4 {
				case 1:
					tagSize = 12
				case 2:
					nonceLen = 17
				case 3:
					tagSize = 13
				}
				nonceV = rng.Bytes(nonceLen)
				aead, _ = newAEADFromBlock(blk, nonceLen, tagSize)
				g := ref.NewGCM(key)
				gNonce := protect(nonceV)
				// few distinct messages so that the same buffers are used concurrently
				var ops []*c17op
				for _, pl := range []int{0, 1, 16, 33, 64, 100, 256, 300, 1100} {
					pt, aadV := rng.Bytes(pl), rng.Bytes(rng.Pick([]int{0, 7, 16, 130}))
					sealed := g.Seal(nonceV, pt, aadV, tagSize)
					gPt, gAad, gCt := protect(pt), protect(aadV), protect(sealed)
					ops = append(ops, &c17op{"seal", gPt, gAad, gNonce, sealed, true})
					ops = append(ops, &c17op{"open", gCt, gAad, gNonce, pt, true})
					ops = append(ops, &c17op{"open-forged", protect(flipBit(sealed, rng.Intn(len(sealed)*8))), gAad, gNonce, nil, false})
				}
				for i := 0; i < 6; i++ {
					b := rng.Bytes(16)
					ct := ref.SM4Encrypt(key, b)
					ops = append(ops, &c17op{"enc", protect(b), nil, nil, ct, true})
					ops = append(ops, &c17op{"dec", protect(ct), nil, nil, b, true})
				}
				var before [2][32]uint32
				if c, ok := blk.(*sm4CipherAsm); ok {
					before[0], before[1] = c.enc, c.dec
				} else if c, ok := blk.(*sm4Cipher); ok {
					before[0], before[1] = c.enc, c.dec
				}
				workers := []int{16, 64, 32}[round%3]
				iters := hk.N(150, 600)
				var wg sync.WaitGroup
				var inflight int64
				start := make(chan struct{})
				for w := 0; w < workers; w++ {
					wg.Add(1)
					go func(w int) {
						defer wg.Done()
						lr := hk.NewRNG(hk.Seed(), fmt.Sprintf("c17/%d/%d", round, w))
						<-start
						for it := 0; it < iters; it++ {
							op := ops[lr.Intn(len(ops))]
							n := atomic.AddInt64(&inflight, 1)
							if n > 1 {
								atomic.AddInt64(&overlapped, 1)
							}
							for {
								m := atomic.LoadInt64(&maxInflight)
								if n <= m || atomic.CompareAndSwapInt64(&maxInflight, m, n) {
									break
								}
							}
							var out []byte
							var err error
							if it%11 == 3 {
								// construct a cipher for another key while everybody else is working
								k2 := lr.Bytes(16)
								if it%22 == 3 {
									k2 = append([]byte{}, key...)
								}
								b2, e2 := NewCipher(k2)
								probe := make([]byte, 16)
								o2 := make([]byte, 16)
								if e2 == nil {
									b2.Encrypt(o2, probe)
								}
								if e2 != nil || !bytes.Equal(o2, ref.SM4Encrypt(k2, probe)) {
									r.Violation(fmt.Sprintf("concurrent-NewCipher-wrong:%s", pn), hk.D{"key": hk.Hex(k2)})
								}
							}
							p, msg, isFault, _ := hk.Try(func() {
								switch op.kind {
								case "enc":
									out = make([]byte, 16)
									blk.Encrypt(out, op.in.B)
								case "dec":
									out = make([]byte, 16)
									blk.Decrypt(out, op.in.B)
								case "seal":
									out = aead.Seal(nil, op.nonce.B, op.in.B, op.aad.B)
								default:
									out, err = aead.Open(nil, op.nonce.B, op.in.B, op.aad.B)
								}
							})
							atomic.AddInt64(&inflight, -1)
							atomic.AddInt64(&total, 1)
							d := hk.D{"path": pn, "op": op.kind, "len": len(op.in.B), "workers": workers, "gomaxprocs": procs, "key": hk.Hex(key)}
							switch {
							case p && isFault:
								d["panic"] = msg
								r.Violation(fmt.Sprintf("concurrent-%s-writes-to-shared-input:%s", op.kind, pn), d)
							case p:
								d["panic"] = msg
								r.Violation(fmt.Sprintf("concurrent-%s-panics:%s", op.kind, pn), d)
							case op.wantOK && (err != nil || !bytes.Equal(out, op.want)):
								d["err"] = fmt.Sprint(err)
								r.Violation(fmt.Sprintf("concurrent-%s-differs-from-serial-result:%s", op.kind, pn), d)
							case !op.wantOK && err == nil:
								r.Violation(fmt.Sprintf("concurrent-%s-accepts-forgery:%s", op.kind, pn), d)
							}
							if it%7 == 0 {
								runtime.Gosched()
							}
						}
					}(w)
				}
				close(start)
				wg.Wait()
				var after [2][32]uint32
				if c, ok := blk.(*sm4CipherAsm); ok {
					after[0], after[1] = c.enc, c.dec
				} else if c, ok := blk.(*sm4Cipher); ok {
					after[0], after[1] = c.enc, c.dec
				}
				if before != after {
					r.Violation("cipher-object-round-keys-changed:"+pn, hk.D{"round": round})
				}
				if !bytes.Equal(gKey.B, key) || !bytes.Equal(gNonce.B, nonceV) {
					r.Violation("shared-key-or-nonce-changed:"+pn, hk.D{})
				}
				r.EvalN(fmt.Sprintf("%s|workers=%d|gomaxprocs=%d|tag=%d|nonce=%d", pn, workers, procs, tagSize, nonceLen), workers*iters)
				runtime.GOMAXPROCS(old)
				freed := map[*hk.GBuf]bool{}
				for _, op := range ops {
					for _, gb := range []*hk.GBuf{op.in, op.aad} {
						if gb != nil && !freed[gb] {
							freed[gb] = true
							gb.Free()
						}
					}
				}
				gKey.Free()
				gNonce.Free()
			}
			// object lifetimes under concurrency: sibling AEADs are collected and finalized WHILE other
			// goroutines use the Block and a surviving AEAD
			lifetimeHistories(r, rng, pn, hk.N(4, 20), true, true, true)
		})
	}
	r.Count("operations", total)
	r.Count("operations_started_while_another_in_flight", overlapped)
	r.Count("max_in_flight", maxInflight)
	r.Sample(hk.D{"workload": "16..64 goroutines x mixed Encrypt/Decrypt/Seal/Open/forged Open on ONE Block/AEAD and shared PROT_READ buffers", "max_in_flight": maxInflight, "overlapped_ops": overlapped})
	if overlapped == 0 {
		r.Inconclusive("no two operations overlapped: the workload was not concurrent")
	}
}
