//go:build verif

package sm4

import (
	"bytes"
	"crypto/cipher"
	"fmt"
	"runtime"
	"sync"
	"sync/atomic"
	"testing"
	"time"

	"github.com/bilibili/smgo/zzverif/hk"
	"github.com/bilibili/smgo/zzverif/ref"
)

// C17 (SM4 part) — one Block and one AEAD shared by many goroutines together
// with shared, write-protected input buffers. Every concurrent result is
// compared with the result precomputed serially by the reference model (the
// objects are immutable, so per-operation equality is the linearizability
// condition). The race detector watches the Go side; PROT_READ pages watch
// what the assembly writes.

type c17op struct {
	kind   string // "enc", "dec", "seal", "open", "open-forged"
	in     *hk.GBuf
	aad    *hk.GBuf
	nonce  *hk.GBuf
	want   []byte
	wantOK bool
	off    int // the input starts at this offset of `in` (inputs that are not 16-byte aligned)
}

func TestVerifC17SM4(t *testing.T) {
	r := hk.NewReporter("C17", "sm4-concurrent")
	defer r.Close()
	if err := ref.SelfTestGCM(); err != nil {
		r.Inconclusive("oracle self-test: " + err.Error())
		return
	}
	rng := hk.NewRNG(hk.Seed(), "c17sm4")
	protect := func(b []byte) *hk.GBuf {
		g := hk.NewGuarded(len(b), hk.PlaceMid)
		copy(g.B, b)
		g.ReadOnly()
		return g
	}
	rounds := hk.N(4, 12)
	var maxInflight, overlapped, total int64
	for _, asm := range zvPaths() {
		asm := asm
		zvWithAsm(asm, func() {
			pn := zvPathName(asm)
			for round := 0; round < rounds; round++ {
				procs := []int{16, 4, 16, 2}[round%4]
				old := runtime.GOMAXPROCS(procs)
				key := rng.Bytes(16)
				gKey := protect(key)
				blk, _ := NewCipher(gKey.B)
				var nonceV []byte
				var aead cipher.AEAD
				// vary the AEAD family per round: default, truncated tags, non-standard nonce
				tagSize, nonceLen := 16, 12
				switch round % 4 {
				case 1:
					tagSize = 12
				case 2:
					nonceLen = 17
				case 3:
					tagSize = 13
				}
				nonceV = rng.Bytes(nonceLen)
				aead, _ = zvNewAEADFromBlock(blk, nonceLen, tagSize)
				g := ref.NewGCM(key)
				gNonce := protect(nonceV)
				// few distinct messages so that the same buffers are used concurrently
				var ops []*c17op
				for _, pl := range []int{0, 1, 16, 33, 64, 100, 256, 300, 1100} {
					pt, aadV := rng.Bytes(pl), rng.Bytes(rng.Pick([]int{0, 7, 16, 130}))
					sealed := g.Seal(nonceV, pt, aadV, tagSize)
					gPt, gAad, gCt := protect(pt), protect(aadV), protect(sealed)
					ops = append(ops, &c17op{"seal", gPt, gAad, gNonce, sealed, true, 0})
					ops = append(ops, &c17op{"open", gCt, gAad, gNonce, pt, true, 0})
					ops = append(ops, &c17op{"open-forged", protect(zvFlipBit(sealed, rng.Intn(len(sealed)*8))), gAad, gNonce, nil, false, 0})
				}
				for i := 0; i < 6; i++ {
					b := rng.Bytes(16)
					ct := ref.SM4Encrypt(key, b)
					ops = append(ops, &c17op{"enc", protect(b), nil, nil, ct, true, 0})
					ops = append(ops, &c17op{"dec", protect(ct), nil, nil, b, true, 0})
				}
				// the same kinds of operation on inputs that do NOT start on a 16-byte boundary (sub-slices of shared,
				// write-protected buffers at every odd offset): a routine that stages such inputs somewhere shared shows here
				for i := 0; i < 8; i++ {
					off := 1 + (i*3+round)%15
					b := rng.Bytes(16)
					ct := ref.SM4Encrypt(key, b)
					ops = append(ops, &c17op{kind: "enc", in: protect(append(make([]byte, off), b...)), want: ct, wantOK: true, off: off})
					ops = append(ops, &c17op{kind: "dec", in: protect(append(make([]byte, off), ct...)), want: b, wantOK: true, off: off})
					pl := []int{1, 16, 33, 64, 100, 300, 17, 256}[i]
					pt, aadV := rng.Bytes(pl), rng.Bytes(rng.Pick([]int{0, 7, 16}))
					sealed := g.Seal(nonceV, pt, aadV, tagSize)
					gAad := protect(aadV)
					ops = append(ops, &c17op{kind: "seal", in: protect(append(make([]byte, off), pt...)), aad: gAad, nonce: gNonce, want: sealed, wantOK: true, off: off})
					ops = append(ops, &c17op{kind: "open", in: protect(append(make([]byte, off), sealed...)), aad: gAad, nonce: gNonce, want: pt, wantOK: true, off: off})
				}
				// the round keys inside the object, wherever its fields keep them (found by reflection: a renamed or
				// removed field means less to compare, never a monitor that does not build)
				snapshotRK := func() string {
					var all []byte
					for _, b := range stepRoundKeys(blk) {
						all = append(all, b...)
					}
					return string(all)
				}
				before := snapshotRK()
				workers := []int{16, 64, 32}[round%3]
				iters := hk.N(150, 600)
				var wg sync.WaitGroup
				start := make(chan struct{})
				t0 := time.Now()
				logs := make([]*hk.OverlapLog, workers)
				for w := 0; w < workers; w++ {
					wg.Add(1)
					logs[w] = hk.NewOverlapLog(t0)
					go func(w int) {
						defer wg.Done()
						lr := hk.NewRNG(hk.Seed(), fmt.Sprintf("c17/%d/%d", round, w))
						olog := logs[w]
						<-start
						for it := 0; it < iters; it++ {
							op := ops[lr.Intn(len(ops))]
							// (no shared counter here: an atomic stamped around every operation orders the operations for the race
							// detector and hides the races between them - see hk.OverlapLog)
							olog.Begin()
							var out []byte
							var err error
							if it%11 == 3 {
								// construct a cipher for another key while everybody else is working
								k2 := lr.Bytes(16)
								if it%22 == 3 {
									k2 = append([]byte{}, key...)
								}
								b2, e2 := NewCipher(k2)
								probe := make([]byte, 16)
								o2 := make([]byte, 16)
								if e2 == nil {
									b2.Encrypt(o2, probe)
								}
								if e2 != nil || !bytes.Equal(o2, ref.SM4Encrypt(k2, probe)) {
									r.Violation(fmt.Sprintf("concurrent-NewCipher-wrong:%s", pn), hk.D{"key": hk.Hex(k2)})
								}
							}
							p, msg, isFault, _ := hk.Try(func() {
								switch op.kind {
								case "enc":
									out = make([]byte, 16)
									blk.Encrypt(out, op.in.B[op.off:])
								case "dec":
									out = make([]byte, 16)
									blk.Decrypt(out, op.in.B[op.off:])
								case "seal":
									out = aead.Seal(nil, op.nonce.B, op.in.B[op.off:], op.aad.B)
								default:
									out, err = aead.Open(nil, op.nonce.B, op.in.B[op.off:], op.aad.B)
								}
							})
							olog.End()
							d := hk.D{"path": pn, "op": op.kind, "len": len(op.in.B), "workers": workers, "gomaxprocs": procs, "key": hk.Hex(key)}
							switch {
							case p && isFault:
								d["panic"] = msg
								r.Violation(fmt.Sprintf("concurrent-%s-writes-to-shared-input:%s", op.kind, pn), d)
							case p:
								d["panic"] = msg
								r.Violation(fmt.Sprintf("concurrent-%s-panics:%s", op.kind, pn), d)
							case op.wantOK && (err != nil || !bytes.Equal(out, op.want)):
								d["err"] = fmt.Sprint(err)
								r.Violation(fmt.Sprintf("concurrent-%s-differs-from-serial-result:%s", op.kind, pn), d)
							case !op.wantOK && err == nil:
								r.Violation(fmt.Sprintf("concurrent-%s-accepts-forgery:%s", op.kind, pn), d)
							}
							if it%7 == 0 {
								runtime.Gosched()
							}
						}
					}(w)
				}
				close(start)
				wg.Wait()
				{
					o, ov, mx := hk.MergeOverlap(logs)
					total += o
					overlapped += ov
					if mx > maxInflight {
						maxInflight = mx
					}
				}
				after := snapshotRK()
				if before != after {
					r.Violation("cipher-object-round-keys-changed:"+pn, hk.D{"round": round})
				}
				if !bytes.Equal(gKey.B, key) || !bytes.Equal(gNonce.B, nonceV) {
					r.Violation("shared-key-or-nonce-changed:"+pn, hk.D{})
				}
				r.EvalN(fmt.Sprintf("%s|workers=%d|gomaxprocs=%d|tag=%d|nonce=%d", pn, workers, procs, tagSize, nonceLen), workers*iters)
				runtime.GOMAXPROCS(old)
				freed := map[*hk.GBuf]bool{}
				for _, op := range ops {
					for _, gb := range []*hk.GBuf{op.in, op.aad} {
						if gb != nil && !freed[gb] {
							freed[gb] = true
							gb.Free()
						}
					}
				}
				gKey.Free()
				gNonce.Free()
			}
			// a SHARED record header (write-protected, no spare capacity) used by every goroutine as dst prefix AND additional
			// data, while one goroutine floods the same AEAD with more than 2^16 forgeries: every genuine record must keep
			// opening, every sealed record must be the standard one, the header must stay what it is
			{
				key := rng.Bytes(16)
				blk, _ := NewCipher(key)
				a, err := cipher.NewGCM(blk)
				if err == nil {
					g := ref.NewGCM(key)
					hdrV := rng.Bytes(13)
					hdr := protect(hdrV)
					type rec struct{ nonce, pt, sealed []byte }
					var recs []rec
					for _, l := range []int{0, 1, 17, 64, 200} {
						n, p := rng.Bytes(12), rng.Bytes(l)
						recs = append(recs, rec{n, p, g.Seal(n, p, hdrV, 16)})
					}
					nw := 8
					bad := make([]int, nw+1)
					var wg sync.WaitGroup
					start := make(chan struct{})
					for w := 0; w < nw; w++ {
						wg.Add(1)
						go func(w int) {
							defer wg.Done()
							<-start
							p, _, _, _ := hk.Try(func() {
								for it := 0; it < hk.N(3000, 30000); it++ {
									rc := &recs[(it+w)%len(recs)]
									out := a.Seal(hdr.B[:len(hdrV):len(hdrV)], rc.nonce, rc.pt, hdr.B)
									if len(out) != len(hdrV)+len(rc.sealed) || !bytes.Equal(out[len(hdrV):], rc.sealed) || !bytes.Equal(out[:len(hdrV)], hdrV) {
										bad[w]++
									}
									pt, e := a.Open(hdr.B[:len(hdrV):len(hdrV)], rc.nonce, rc.sealed, hdr.B)
									if e != nil || !bytes.Equal(pt[len(hdrV):], rc.pt) {
										bad[w]++
									}
								}
							})
							if p {
								bad[w] += 1000000
							}
						}(w)
					}
					wg.Add(1)
					go func() {
						defer wg.Done()
						<-start
						forged := append([]byte{}, recs[2].sealed...)
						for it := 0; it < 1<<16+500; it++ {
							forged[it%len(forged)] ^= byte(1 + it%200)
							if _, e := a.Open(nil, recs[2].nonce, forged, hdr.B); e == nil && !bytes.Equal(forged, recs[2].sealed) {
								bad[nw]++
							}
						}
					}()
					close(start)
					wg.Wait()
					// and afterwards, alone: the AEAD that took the flood still opens what is genuine
					for i := range recs {
						if pt, e := a.Open(nil, recs[i].nonce, recs[i].sealed, hdrV); e != nil || !bytes.Equal(pt, recs[i].pt) {
							bad[nw]++
						}
					}
					for w := range bad {
						if bad[w] != 0 {
							what := "concurrent-open-differs-from-serial-result:shared-header-as-dst-prefix-and-aad-during-a-forgery-flood"
							if bad[w] >= 1000000 {
								what = "concurrent-seal-writes-to-shared-input:shared-header-as-dst-prefix-and-aad"
							}
							r.Violation(what+":"+pn, hk.D{"key": hk.Hex(key), "goroutine": w, "wrong_results": bad[w] % 1000000})
							break
						}
					}
					if !bytes.Equal(hdr.B, hdrV) {
						r.Violation("shared-header-changed:"+pn, hk.D{})
					}
					hdr.Free()
					r.EvalN("shared-header-and-forgery-flood:"+pn, nw*hk.N(3000, 30000)*2+1<<16)
				}
			}
			// ONE Block hammered with blocks that do NOT start on a 16-byte boundary, a phase of its own (expected
			// results prepared beforehand, nothing but the cipher inside the goroutines)
			{
				key := rng.Bytes(16)
				blk, _ := NewCipher(key)
				nb := 48
				type bm struct {
					buf []byte // block at buf[off:off+16]
					off int
					ct  []byte
				}
				var bms []bm
				for i := 0; i < nb; i++ {
					off := 1 + i%15
					b := rng.Bytes(16)
					bms = append(bms, bm{append(make([]byte, off), b...), off, ref.SM4Encrypt(key, b)})
				}
				nw := 16
				bad := make([]int, nw)
				var wg sync.WaitGroup
				start := make(chan struct{})
				for w := 0; w < nw; w++ {
					wg.Add(1)
					go func(w int) {
						defer wg.Done()
						out, back := make([]byte, 16), make([]byte, 16)
						<-start
						x := uint32(w*2654435761 + 99)
						for it := 0; it < hk.N(60000, 600000); it++ {
							x = x*1664525 + 1013904223
							m := &bms[int(x>>8)%nb]
							blk.Encrypt(out, m.buf[m.off:])
							blk.Decrypt(back, m.ct)
							if !bytes.Equal(out, m.ct) || !bytes.Equal(back, m.buf[m.off:]) {
								bad[w]++
							}
						}
					}(w)
				}
				close(start)
				wg.Wait()
				for w := range bad {
					if bad[w] != 0 {
						r.Violation("concurrent-enc-differs-from-serial-result:misaligned-blocks-on-one-shared-Block:"+pn, hk.D{"key": hk.Hex(key), "goroutine": w, "wrong_results": bad[w]})
						break
					}
				}
				r.EvalN("shared-block-misaligned-hammer:"+pn, nw*hk.N(60000, 600000))
			}
			// FIRST USE of fresh AEADs: several goroutines make the very first calls on an AEAD that has just been derived
			// (whatever an AEAD sets up lazily on first use is set up by all of them at once)
			{
				nTrials := hk.N(600, 3000)
				for trial := 0; trial < nTrials; trial++ {
					key := rng.Bytes(16)
					blk, err := NewCipher(key)
					if err != nil {
						continue
					}
					a, err := cipher.NewGCM(blk)
					if err != nil {
						continue
					}
					g := ref.NewGCM(key)
					const nw = 10
					type job struct{ nonce, aad, pt, want []byte }
					jobs := make([]job, nw)
					for i := range jobs {
						j := job{nonce: rng.Bytes(12), aad: rng.Bytes(i * 5), pt: rng.Bytes(1 + i*13)}
						j.want = g.Seal(j.nonce, j.pt, j.aad, 16)
						jobs[i] = j
					}
					start := make(chan struct{})
					var wg sync.WaitGroup
					bad := int64(0)
					arrived := int64(0)
					for i := 0; i < nw; i++ {
						wg.Add(1)
						go func(j job, sealFirst bool) {
							defer wg.Done()
							<-start
							// a spinning barrier: the first calls are to fall into the same few hundred nanoseconds (what is set up on
							// first use is written by assembly, which the race detector does not see: only simultaneity shows it)
							atomic.AddInt64(&arrived, 1)
							for spins := 0; atomic.LoadInt64(&arrived) < nw && spins < 2000000; spins++ {
							}
							if sealFirst {
								if !bytes.Equal(a.Seal(nil, j.nonce, j.pt, j.aad), j.want) {
									atomic.AddInt64(&bad, 1)
								}
							}
							if pt, e := a.Open(nil, j.nonce, j.want, j.aad); e != nil || !bytes.Equal(pt, j.pt) {
								atomic.AddInt64(&bad, 1)
							}
						}(jobs[i], i%2 == 0)
					}
					close(start)
					wg.Wait()
					// and it must still be right afterwards, serially
					if !bytes.Equal(a.Seal(nil, jobs[0].nonce, jobs[0].pt, jobs[0].aad), jobs[0].want) {
						atomic.AddInt64(&bad, 1)
					}
					if bad != 0 {
						r.Violation("fresh-aead-wrong-when-first-used-by-several-goroutines:"+pn, hk.D{"key": hk.Hex(key), "wrong_results": bad, "trial": trial})
						break
					}
				}
				r.EvalN("fresh-aead-first-use:"+pn, nTrials)
			}
			// object lifetimes under concurrency: sibling AEADs are collected and finalized WHILE other
			// goroutines use the Block and a surviving AEAD
			zvLifetimeHistories(r, rng, pn, hk.N(4, 20), true, true, true)
		})
	}
	r.Count("operations", total)
	r.Count("operations_started_while_another_in_flight", overlapped)
	r.Count("max_in_flight", maxInflight)
	r.Sample(hk.D{"workload": "16..64 goroutines x mixed Encrypt/Decrypt/Seal/Open/forged Open on ONE Block/AEAD and shared PROT_READ buffers", "max_in_flight": maxInflight, "overlapped_ops": overlapped})
	if overlapped == 0 {
		r.Inconclusive("no two operations overlapped: the workload was not concurrent")
	}
}
