//go:build verif

package sm4

import (
	"bytes"
	"crypto/cipher"
	"encoding/binary"
	"fmt"
	"github.com/klauspost/cpuid/v2"
	"reflect"
	"testing"
	"unsafe"

	"github.com/bilibili/smgo/zzverif/hk"
	"github.com/bilibili/smgo/zzverif/ref"
)

// C05 — every block path against the reference SM4 (algebraic S-box).

func zvRkBytes(rk *[32]uint32) []byte {
	return (*[128]byte)(unsafe.Pointer(rk))[:]
}

func TestVerifC05(t *testing.T) {
	r := hk.NewReporter("C05", "sm4-block-paths")
	defer r.Close()
	if err := ref.SelfTestSM4(hk.Thorough()); err != nil {
		r.Inconclusive("oracle self-test: " + err.Error())
		return
	}
	rng := hk.NewRNG(hk.Seed(), "c05")

	// ---- keys
	var keys [][]byte
	keys = append(keys, make([]byte, 16), bytes.Repeat([]byte{0xff}, 16), hk.Unhex("0123456789abcdeffedcba9876543210"))
	for b := 0; b < 128; b++ {
		k := make([]byte, 16)
		k[b/8] = 1 << uint(b%8)
		keys = append(keys, k)
	}
	for _, v := range []byte{0x01, 0x55, 0xaa, 0x80, 0x7f} {
		keys = append(keys, bytes.Repeat([]byte{v}, 16))
	}
	// keys SOLVED so that a chosen round key has a chosen value (0, all ones, one bit): a guard, a shortcut or a table
	// index keyed on "this word is zero" meets such a key once in 2^32
	for _, pos := range []int{0, 1, 2, 15, 16, 29, 30, 31} {
		for vi, v := range []uint32{0, 0xffffffff, 1, 0x80000000} {
			w := [4]uint32{uint32(rng.Uint64()), uint32(rng.Uint64()), uint32(rng.Uint64()), v}
			// K_{pos+4} = rk_pos sits at index 3 of the window starting at pos+1
			k := ref.SM4KeyWithRoundKeys(pos+1, w)
			if rk := ref.SM4RoundKeys(k); rk[pos] != v {
				r.Inconclusive("c05: solved key does not have the chosen round key")
				break
			}
			if vi < 2 || hk.Thorough() || pos == 0 || pos == 31 {
				keys = append(keys, k)
			}
		}
	}
	// two round keys zero at once (rk_0 = rk_1 = 0, rk_30 = rk_31 = 0)
	keys = append(keys, ref.SM4KeyWithRoundKeys(4, [4]uint32{0, 0, uint32(rng.Uint64()), uint32(rng.Uint64())}), ref.SM4KeyWithRoundKeys(32, [4]uint32{uint32(rng.Uint64()), uint32(rng.Uint64()), 0, 0}))
	for i := 0; i < hk.N(400, 20000); i++ {
		keys = append(keys, rng.Bytes(16))
	}
	r.Note("keys", len(keys))

	fail := func(cls string, d hk.D) { r.Violation(cls, d) }

	hk.Parallel(len(keys), func(ki int) {
		if !hk.InShard(ki) {
			return
		}
		key := keys[ki]
		lr := hk.NewRNG(hk.Seed(), fmt.Sprintf("c05/%d", ki))
		wantRK := ref.SM4RoundKeys(key)
		keyClass := "random-key"
		if ki < 3 {
			keyClass = "fixed-key"
		} else if ki < 131 {
			keyClass = "single-bit-key"
		} else if ki < 136 {
			keyClass = "byte-repeat-key"
		}

		// key schedules: portable and (when available) assembly, both arrays
		var enc, dec [32]uint32
		expandKey(key, &enc, &dec)
		for i := 0; i < 32; i++ {
			if enc[i] != wantRK[i] || dec[i] != wantRK[31-i] {
				fail("expandKey-wrong", hk.D{"key": hk.Hex(key), "round": i})
				break
			}
		}
		r.Eval("schedule:portable," + keyClass)
		if zvAsmDetected {
			var encA, decA [32]uint32
			kc := append([]byte{}, key...)
			expandKeyAsm(&kc[0], &encA[0], &decA[0])
			for i := 0; i < 32; i++ {
				if encA[i] != wantRK[i] || decA[i] != wantRK[31-i] {
					fail("expandKeyAsm-wrong", hk.D{"key": hk.Hex(key), "round": i, "enc": fmt.Sprintf("%08x", encA[i]), "dec": fmt.Sprintf("%08x", decA[i]), "want": fmt.Sprintf("%08x", wantRK[i])})
					break
				}
			}
			if !bytes.Equal(kc, key) {
				fail("expandKeyAsm-modifies-key", hk.D{"key": hk.Hex(key)})
			}
			r.Eval("schedule:asm," + keyClass)
		}

		// blocks: random, single-bit, and (for some keys) the S-box covering set
		var blocks [][]byte
		nb := 16
		for i := 0; i < nb; i++ {
			blocks = append(blocks, lr.Bytes(16))
		}
		one := make([]byte, 16)
		one[lr.Intn(16)] = 1 << uint(lr.Intn(8))
		blocks = append(blocks, one, make([]byte, 16), bytes.Repeat([]byte{0xff}, 16))
		if ki%hk.N(40, 4) == 0 {
			for v := 0; v < 256; v++ {
				b := make([]byte, 16)
				for j := 4; j < 8; j++ {
					b[j] = byte(v) // X1 = v,v,v,v ; X2 = X3 = 0: round-1 S-box inputs sweep all values in all 4 byte positions
				}
				blocks = append(blocks, b)
			}
		}
		want := make([][]byte, len(blocks))
		refBlk := ref.NewSM4Block(key)
		for i, b := range blocks {
			want[i] = make([]byte, 16)
			refBlk.Encrypt(want[i], b)
		}

		// path 1/2: portable one- and two-block code
		for i, b := range blocks {
			out := make([]byte, 16)
			cryptoBlock(b, out, &enc)
			if !bytes.Equal(out, want[i]) {
				fail("portable-encrypt-wrong", hk.D{"key": hk.Hex(key), "block": hk.Hex(b), "got": hk.Hex(out), "want": hk.Hex(want[i])})
			}
			back := make([]byte, 16)
			cryptoBlock(out, back, &dec)
			if !bytes.Equal(back, b) {
				fail("portable-decrypt-wrong", hk.D{"key": hk.Hex(key), "block": hk.Hex(out), "got": hk.Hex(back), "want": hk.Hex(b)})
			}
		}
		r.EvalN("portable-x1,"+keyClass, len(blocks))
		for i := 0; i+1 < len(blocks) && i < 20; i += 2 {
			in := append(append([]byte{}, blocks[i]...), blocks[i+1]...)
			out := make([]byte, 32)
			cryptoBlockX2(in, out, &enc)
			if !bytes.Equal(out[:16], want[i]) || !bytes.Equal(out[16:], want[i+1]) {
				fail("portable-x2-encrypt-wrong", hk.D{"key": hk.Hex(key), "blocks": hk.Hex(in), "got": hk.Hex(out)})
			}
			back := make([]byte, 32)
			cryptoBlockX2(out, back, &dec)
			if !bytes.Equal(back, in) {
				fail("portable-x2-decrypt-wrong", hk.D{"key": hk.Hex(key), "blocks": hk.Hex(out)})
			}
			// the exported-in-package wrappers
			c := &sm4Cipher{enc: enc, dec: dec}
			o2 := make([]byte, 32)
			encryptX2(c, o2, in)
			if !bytes.Equal(o2, out) {
				fail("encryptX2-wrong", hk.D{"key": hk.Hex(key)})
			}
			decryptX2(c, o2, o2)
			if !bytes.Equal(o2, in) {
				fail("decryptX2-inplace-wrong", hk.D{"key": hk.Hex(key)})
			}
		}
		r.EvalN("portable-x2,"+keyClass, 10)

		// vector kernels with distinct blocks in every lane, encryption and decryption schedules
		if zvAsmDetected {
			type kern struct {
				name  string
				lanes int
				f     func(rk *uint32, dst, src *byte)
			}
			for _, k := range []kern{{"x1", 1, cryptoBlockAsm}, {"x2", 2, cryptoBlockAsmX2}, {"x4", 4, cryptoBlockAsmX4}, {"x8", 8, cryptoBlockAsmX8}, {"x16", 16, cryptoBlockAsmX16}} {
				for rep := 0; rep < 2; rep++ {
					off := lr.Intn(len(blocks))
					in := make([]byte, 16*k.lanes)
					exp := make([]byte, 16*k.lanes)
					for l := 0; l < k.lanes; l++ {
						copy(in[16*l:], blocks[(off+l)%len(blocks)])
						copy(exp[16*l:], want[(off+l)%len(blocks)])
					}
					inCopy := append([]byte{}, in...)
					out := make([]byte, 16*k.lanes)
					k.f(&enc[0], &out[0], &in[0])
					if !bytes.Equal(out, exp) {
						lane := 0
						for l := 0; l < k.lanes; l++ {
							if !bytes.Equal(out[16*l:16*l+16], exp[16*l:16*l+16]) {
								lane = l
								break
							}
						}
						fail("kernel-"+k.name+"-encrypt-wrong", hk.D{"key": hk.Hex(key), "in": hk.Hex(in), "got": hk.Hex(out), "want": hk.Hex(exp), "first_wrong_lane": lane})
					}
					if !bytes.Equal(in, inCopy) {
						fail("kernel-"+k.name+"-modifies-source", hk.D{"key": hk.Hex(key)})
					}
					back := make([]byte, 16*k.lanes)
					k.f(&dec[0], &back[0], &out[0])
					if !bytes.Equal(back, in) {
						fail("kernel-"+k.name+"-decrypt-wrong", hk.D{"key": hk.Hex(key), "in": hk.Hex(out), "got": hk.Hex(back), "want": hk.Hex(in)})
					}
					// in place
					k.f(&enc[0], &in[0], &in[0])
					if !bytes.Equal(in, exp) {
						fail("kernel-"+k.name+"-inplace-wrong", hk.D{"key": hk.Hex(key)})
					}
					r.EvalN(fmt.Sprintf("kernel-%s,%s", k.name, keyClass), k.lanes)
				}
			}
			// probe block rotated through every lane position of the widest kernel
			probe := blocks[0]
			for lane := 0; lane < 16; lane++ {
				in := lr.Bytes(256)
				copy(in[16*lane:], probe)
				out := make([]byte, 256)
				cryptoBlockAsmX16(&enc[0], &out[0], &in[0])
				if !bytes.Equal(out[16*lane:16*lane+16], want[0]) {
					fail("kernel-x16-lane-wrong", hk.D{"key": hk.Hex(key), "lane": lane})
				}
			}
			r.EvalN("kernel-x16-probe-lanes,"+keyClass, 16)
		}
	})

	// ---- public API on both paths (sequential: flips the path switch)
	for _, asm := range zvPaths() {
		zvWithAsm(asm, func() {
			pn := zvPathName(asm)
			for ki := 0; ki < hk.N(300, 5000) && ki < len(keys); ki++ {
				key := keys[ki]
				kcopy := append([]byte{}, key...)
				blk, err := NewCipher(kcopy)
				if err != nil || blk == nil {
					r.Violation("NewCipher-rejects-16-byte-key:"+pn, hk.D{"key": hk.Hex(key)})
					continue
				}
				if blk.BlockSize() != 16 {
					r.Violation("BlockSize-wrong:"+pn, hk.D{})
				}
				if !bytes.Equal(kcopy, key) {
					r.Violation("NewCipher-modifies-key:"+pn, hk.D{"key": hk.Hex(key)})
				}
				// the cipher must not depend on the key slice after construction
				for i := range kcopy {
					kcopy[i] ^= 0xa5
				}
				refBlk := ref.NewSM4Block(key)
				for j := 0; j < 4; j++ {
					in := rng.Bytes(16)
					want := make([]byte, 16)
					refBlk.Encrypt(want, in)
					out := make([]byte, 16)
					blk.Encrypt(out, in)
					if !bytes.Equal(out, want) {
						r.Violation("Encrypt-wrong:"+pn, hk.D{"key": hk.Hex(key), "block": hk.Hex(in), "got": hk.Hex(out), "want": hk.Hex(want)})
					}
					back := make([]byte, 16)
					blk.Decrypt(back, out)
					if !bytes.Equal(back, in) {
						r.Violation("Decrypt-wrong:"+pn, hk.D{"key": hk.Hex(key), "block": hk.Hex(out), "got": hk.Hex(back), "want": hk.Hex(in)})
					}
					// same buffer as source and destination
					buf := append([]byte{}, in...)
					blk.Encrypt(buf, buf)
					if !bytes.Equal(buf, want) {
						r.Violation("Encrypt-inplace-wrong:"+pn, hk.D{"key": hk.Hex(key), "block": hk.Hex(in)})
					}
					blk.Decrypt(buf, buf)
					if !bytes.Equal(buf, in) {
						r.Violation("Decrypt-inplace-wrong:"+pn, hk.D{"key": hk.Hex(key), "block": hk.Hex(in)})
					}
				}
				r.EvalN("public-api:"+pn, 4)
				// a sequence of RELATED blocks through the same object: the same block twice, blocks that share the first
				// half, the second half, all but one byte, all but one bit, and the previous output fed back in - state
				// kept from one call (a memo of the last block, a cached half) must not show in the next
				{
					base := rng.Bytes(16)
					seq := [][]byte{base, base}
					v := append([]byte{}, base...)
					copy(v[:8], rng.Bytes(8)) // shares the second half
					seq = append(seq, v)
					v = append([]byte{}, v...)
					copy(v[8:], rng.Bytes(8)) // shares the first half with the one before
					seq = append(seq, v)
					v = append([]byte{}, v...)
					v[rng.Intn(16)] ^= 0xff
					seq = append(seq, v)
					v = append([]byte{}, v...)
					v[rng.Intn(16)] ^= 1 << uint(rng.Intn(8))
					seq = append(seq, v, base)
					out := make([]byte, 16)
					want := make([]byte, 16)
					for pass := 0; pass < 2; pass++ { // back to back first, then with other calls in between
						for si, in := range seq {
							refBlk.Encrypt(want, in)
							blk.Encrypt(out, in)
							if !bytes.Equal(out, want) {
								r.Violation("Encrypt-wrong-in-a-sequence-of-related-blocks:"+pn, hk.D{"key": hk.Hex(key), "position": si, "block": hk.Hex(in), "previous_block": hk.Hex(seq[(si+len(seq)-1)%len(seq)]), "got": hk.Hex(out), "want": hk.Hex(want)})
								break
							}
							if pass == 0 {
								continue
							}
							// the output fed back in (encrypting it, and decrypting the INPUT, which was never an output)
							fb := append([]byte{}, out...)
							refBlk.Encrypt(want, fb)
							blk.Encrypt(out, fb)
							if !bytes.Equal(out, want) {
								r.Violation("Encrypt-wrong-in-a-sequence-of-related-blocks:"+pn, hk.D{"key": hk.Hex(key), "position": si, "block": hk.Hex(fb), "relation": "previous output fed back", "got": hk.Hex(out), "want": hk.Hex(want)})
								break
							}
							refBlk.Decrypt(want, in)
							blk.Decrypt(out, in)
							if !bytes.Equal(out, want) {
								r.Violation("Decrypt-wrong-in-a-sequence-of-related-blocks:"+pn, hk.D{"key": hk.Hex(key), "position": si, "block": hk.Hex(in), "got": hk.Hex(out), "want": hk.Hex(want)})
								break
							}
						}
					}
					r.EvalN("public-api:related-block-sequence:"+pn, 4*len(seq))
				}
			}
			// many goroutines construct ciphers for DIFFERENT keys at the same time (and for the same key
			// repeatedly): each must get the cipher of its own key
			{
				nk := 8
				ks := keys[3 : 3+nk]
				probe := rng.Bytes(16)
				wantCT := make([][]byte, nk)
				for i, k := range ks {
					wantCT[i] = ref.SM4Encrypt(k, probe)
				}
				hk.Parallel(hk.N(4000, 40000), func(i int) {
					ki := i % nk
					if i%7 == 0 {
						ki = (i / 7) % nk
					}
					blk, err := NewCipher(ks[ki])
					if err != nil {
						r.Violation("NewCipher-rejects-16-byte-key:"+pn, hk.D{})
						return
					}
					out := make([]byte, 16)
					blk.Encrypt(out, probe)
					if !bytes.Equal(out, wantCT[ki]) {
						which := -1
						for j := range wantCT {
							if bytes.Equal(out, wantCT[j]) {
								which = j
							}
						}
						r.Violation("concurrently-constructed-cipher-uses-wrong-key:"+pn, hk.D{"key_index": ki, "behaves_like_key_index": which, "key": hk.Hex(ks[ki])})
					}
					back := make([]byte, 16)
					blk.Decrypt(back, out)
					if !bytes.Equal(back, probe) {
						r.Violation("concurrently-constructed-cipher-decrypt-wrong:"+pn, hk.D{"key_index": ki})
					}
				})
				r.EvalN("concurrent-construction:"+pn, hk.N(4000, 40000))
			}
			// slices far LONGER than a block (only the first 16 bytes count): lengths around 2^31 and 2^32, where a
			// length test done in 32 bits changes sign or wraps; windows of one untouched zero mapping
			if big := hk.ZeroMap(1<<32+8192, true); big != nil {
				key := keys[1]
				blk, _ := NewCipher(key)
				refBlk := ref.NewSM4Block(key)
				for _, l := range []int{1<<31 - 1, 1 << 31, 1<<31 + 15, 1<<31 + 16, 1<<31 + 17, 1<<32 - 1, 1 << 32, 1<<32 + 15, 1<<32 + 16, 1<<32 + 4096} {
					in := rng.Bytes(16)
					want := make([]byte, 16)
					refBlk.Encrypt(want, in)
					for shape := 0; shape < 3; shape++ {
						copy(big[:16], in)
						var dst, src []byte
						switch shape {
						case 0:
							dst, src = make([]byte, 16), big[:l] // long source
						case 1:
							dst, src = big[4096:4096+l-4096], in // long destination
						default:
							dst, src = big[:l], big[:l] // both long, in place
						}
						p, msg, _, _ := hk.Try(func() { blk.Encrypt(dst, src) })
						d := hk.D{"key": hk.Hex(key), "len": l, "shape": []string{"long-src", "long-dst", "long-in-place"}[shape]}
						if p {
							d["panic"] = msg
							r.Violation("Encrypt-panics-on-long-slices:"+pn, d)
						} else if !bytes.Equal(dst[:16], want) {
							r.Violation("Encrypt-wrong-on-long-slices:"+pn, d)
						}
						back := make([]byte, 16)
						csrc := src
						if shape == 0 {
							copy(big[:16], want)
						} else {
							csrc = dst
						}
						p, msg, _, _ = hk.Try(func() { blk.Decrypt(back, csrc[:len(csrc):len(csrc)]) })
						if p || !bytes.Equal(back, in) {
							d["panic"] = msg
							r.Violation("Decrypt-wrong-on-long-slices:"+pn, d)
						}
						for i := 0; i < 16; i++ {
							big[i], big[4096+i] = 0, 0
						}
					}
					r.Eval(fmt.Sprintf("long-slices:%s", pn))
				}
				hk.Unmap(big)
			} else {
				r.Inconclusive("c05: cannot map 4 GiB of zero pages for the long-slice cases")
			}
			// slices LONGER than a block, the everyday way (a caller walking a buffer: c.Encrypt(buf[i:], buf[i:])): exactly
			// ONE block is produced, what lies behind it in dst (and all of src) stays as it was
			{
				key := rng.Bytes(16)
				blk, _ := NewCipher(key)
				refBlk := ref.NewSM4Block(key)
				for _, total := range []int{17, 31, 32, 33, 48, 64, 80, 256, 272} {
					for _, inplace := range []bool{false, true} {
						src := rng.Bytes(total)
						srcCopy := append([]byte{}, src...)
						dst := rng.Bytes(total)
						if inplace {
							dst = src
						}
						tail := append([]byte{}, dst[16:]...)
						want := make([]byte, 16)
						refBlk.Encrypt(want, srcCopy[:16])
						p, msg, _, _ := hk.Try(func() { blk.Encrypt(dst, src) })
						d := hk.D{"key": hk.Hex(key), "slice_len": total, "in_place": inplace, "panic": msg}
						if p || !bytes.Equal(dst[:16], want) {
							r.Violation("Encrypt-wrong-on-slices-longer-than-a-block:"+pn, d)
						} else if !bytes.Equal(dst[16:], tail) || (!inplace && !bytes.Equal(src, srcCopy)) {
							d["bytes_behind_the_block_before"], d["after"] = hk.Hex(tail), hk.Hex(dst[16:])
							r.Violation("Encrypt-touches-bytes-behind-the-block:"+pn, d)
						}
						// the walk: block by block through one buffer, encrypt then decrypt
						buf := rng.Bytes(total - total%16)
						orig := append([]byte{}, buf...)
						exp := make([]byte, len(buf))
						for i := 0; i < len(buf); i += 16 {
							refBlk.Encrypt(exp[i:i+16], orig[i:i+16])
						}
						p, msg, _, _ = hk.Try(func() {
							for i := 0; i < len(buf); i += 16 {
								blk.Encrypt(buf[i:], buf[i:])
							}
						})
						if p || !bytes.Equal(buf, exp) {
							r.Violation("Encrypt-walk-through-a-buffer-wrong:"+pn, hk.D{"key": hk.Hex(key), "buffer_len": len(buf), "panic": msg, "got": hk.Hex(buf), "want": hk.Hex(exp)})
						}
						p, msg, _, _ = hk.Try(func() {
							for i := 0; i < len(buf); i += 16 {
								blk.Decrypt(buf[i:], buf[i:])
							}
						})
						if p || !bytes.Equal(buf, orig) {
							r.Violation("Decrypt-walk-through-a-buffer-wrong:"+pn, hk.D{"key": hk.Hex(key), "buffer_len": len(buf), "panic": msg})
						}
						r.Eval("longer-than-a-block:" + pn)
					}
				}
			}
			// ONE Block used by many goroutines at once (a Block is not a one-caller object): every block comes out as
			// when the call runs alone
			{
				key := rng.Bytes(16)
				blk, _ := NewCipher(key)
				nb := 64
				ins, outs := make([][]byte, nb), make([][]byte, nb)
				for i := range ins {
					ins[i] = rng.Bytes(16)
					outs[i] = ref.SM4Encrypt(key, ins[i])
				}
				nOps := hk.N(400000, 2000000) // (short calls: many of them, so that calls overlap also on a loaded machine)
				hk.Parallel(nOps, func(i int) {
					j := i % nb
					o := make([]byte, 16)
					if i%2 == 0 {
						blk.Encrypt(o, ins[j])
						if !bytes.Equal(o, outs[j]) {
							r.Violation("shared-Block-encrypt-wrong-under-concurrent-use:"+pn, hk.D{"key": hk.Hex(key), "block": hk.Hex(ins[j]), "got": hk.Hex(o), "want": hk.Hex(outs[j])})
						}
					} else {
						blk.Decrypt(o, outs[j])
						if !bytes.Equal(o, ins[j]) {
							r.Violation("shared-Block-decrypt-wrong-under-concurrent-use:"+pn, hk.D{"key": hk.Hex(key), "block": hk.Hex(outs[j]), "got": hk.Hex(o), "want": hk.Hex(ins[j])})
						}
					}
				})
				r.EvalN("shared-block-concurrent-use:"+pn, nOps)
			}
			// PLACEMENT of the arguments is an input dimension too: key, source and destination at every offset 0..63
			// of a buffer (every alignment), and directly against an inaccessible page on either side. "Every key and
			// every block" includes the ones that do not start on a 16-byte boundary or that end a mapping.
			{
				pool := hk.NewPool()
				kbuf, sbuf, dbuf := make([]byte, 128), make([]byte, 128), make([]byte, 128)
				judgePlaced := func(what string, key, src, dst []byte, d hk.D) {
					want := ref.SM4Encrypt(key, src)
					in := append([]byte{}, src...)
					var blk cipher.Block
					var err error
					p, msg, isFault, addr := hk.Try(func() {
						blk, err = NewCipher(key)
						if err != nil {
							return
						}
						blk.Encrypt(dst, src)
					})
					d["key"], d["block"] = hk.Hex(key), hk.Hex(in)
					if p {
						d["panic"], d["memory_fault"], d["fault_address"] = msg, isFault, fmt.Sprintf("%#x", addr)
						r.Violation("Encrypt-fails-for-argument-placement:"+what+":"+pn, d)
						return
					}
					if err != nil || !bytes.Equal(dst[:16], want) {
						d["got"], d["want"] = hk.Hex(dst[:16]), hk.Hex(want)
						r.Violation("Encrypt-wrong-for-argument-placement:"+what+":"+pn, d)
						return
					}
					back := make([]byte, 16)
					copy(back, dst[:16])
					p, msg, isFault, addr = hk.Try(func() { blk.Decrypt(dst, dst) })
					if p || !bytes.Equal(dst[:16], in) {
						d["panic"], d["memory_fault"], d["fault_address"] = msg, isFault, fmt.Sprintf("%#x", addr)
						r.Violation("Decrypt-wrong-for-argument-placement:"+what+":"+pn, d)
					}
				}
				for off := 0; off < 64; off++ {
					for which := 0; which < 4; which++ {
						ko, so, do := 0, 0, 0
						switch which {
						case 0:
							ko = off
						case 1:
							so = off
						case 2:
							do = off
						default:
							ko, so, do = off, (off*7+3)%64, (off*13+5)%64
						}
						copy(kbuf[ko:], rng.Bytes(16))
						copy(sbuf[so:], rng.Bytes(16))
						judgePlaced("offset", kbuf[ko:ko+16:ko+16], sbuf[so:so+16:so+16], dbuf[do:do+16:do+16], hk.D{"key_offset": ko, "src_offset": so, "dst_offset": do})
					}
					r.Eval("placement:offsets:" + pn)
				}
				for _, place := range []int{hk.PlaceEnd, hk.PlaceStart} {
					for which := 0; which < 4; which++ {
						kg, sg, dg := pool.Get(16, place), pool.Get(16, place), pool.Get(16, place)
						key, src, dst := kg.B, sg.B, dg.B
						if which == 0 {
							src, dst = make([]byte, 16), make([]byte, 16)
						} else if which == 1 {
							key, dst = make([]byte, 16), make([]byte, 16)
						} else if which == 2 {
							key, src = make([]byte, 16), make([]byte, 16)
						}
						copy(key, rng.Bytes(16))
						copy(src, rng.Bytes(16))
						judgePlaced("page-edge", key, src, dst, hk.D{"placement": []string{"ends-at-inaccessible-page", "starts-after-inaccessible-page"}[place], "guarded": []string{"key", "src", "dst", "all"}[which]})
						pool.Put(kg)
						pool.Put(sg)
						pool.Put(dg)
					}
					r.Eval("placement:page-edge:" + pn)
				}
				// the kernels themselves, blocks against the page edge (every width)
				if asm && zvAsmDetected {
					key := rng.Bytes(16)
					var enc, dec [32]uint32
					expandKey(key, &enc, &dec)
					type kern struct {
						name  string
						lanes int
						f     func(rk *uint32, dst, src *byte)
					}
					for _, k := range []kern{{"x1", 1, cryptoBlockAsm}, {"x2", 2, cryptoBlockAsmX2}, {"x4", 4, cryptoBlockAsmX4}, {"x8", 8, cryptoBlockAsmX8}, {"x16", 16, cryptoBlockAsmX16}} {
						for _, place := range []int{hk.PlaceEnd, hk.PlaceStart} {
							k := k
							sg, dg := pool.Get(16*k.lanes, place), pool.Get(16*k.lanes, place)
							copy(sg.B, rng.Bytes(16*k.lanes))
							exp := make([]byte, 16*k.lanes)
							for l := 0; l < k.lanes; l++ {
								copy(exp[16*l:], ref.SM4Encrypt(key, sg.B[16*l:16*l+16]))
							}
							p, msg, isFault, addr := hk.Try(func() { k.f(&enc[0], &dg.B[0], &sg.B[0]) })
							if p || !bytes.Equal(dg.B, exp) {
								r.Violation("kernel-"+k.name+"-fails-for-blocks-at-page-edge", hk.D{"key": hk.Hex(key), "placement": place, "panic": msg, "memory_fault": isFault, "fault_address": fmt.Sprintf("%#x", addr)})
							}
							var ekg *hk.GBuf
							p, msg, isFault, addr = hk.Try(func() {
								ekg = pool.Get(16, place)
								copy(ekg.B, key)
								var e2, d2 [32]uint32
								expandKeyAsm(&ekg.B[0], &e2[0], &d2[0])
								if e2 != enc || d2 != dec {
									panic("schedule differs")
								}
							})
							if p {
								r.Violation("expandKeyAsm-fails-for-key-at-page-edge", hk.D{"key": hk.Hex(key), "placement": place, "panic": msg, "memory_fault": isFault, "fault_address": fmt.Sprintf("%#x", addr)})
							}
							if ekg != nil {
								pool.Put(ekg)
							}
							// the two schedule arrays as SEPARATE objects, each against an inaccessible page (the routine takes two
							// pointers; nothing says they are neighbours), and the kernel fed from a schedule that ends its mapping
							var eg, dgk *hk.GBuf
							p, msg, isFault, addr = hk.Try(func() {
								eg, dgk = pool.Get(128, place), pool.Get(128, place)
								expandKeyAsm(&key[0], (*uint32)(unsafe.Pointer(&eg.B[0])), (*uint32)(unsafe.Pointer(&dgk.B[0])))
								for i := 0; i < 32; i++ {
									if binary.LittleEndian.Uint32(eg.B[4*i:]) != enc[i] || binary.LittleEndian.Uint32(dgk.B[4*i:]) != dec[i] {
										panic(fmt.Sprintf("schedule word %d differs", i))
									}
								}
								for _, rk := range []*hk.GBuf{eg, dgk} {
									out := make([]byte, 16*k.lanes)
									k.f((*uint32)(unsafe.Pointer(&rk.B[0])), &out[0], &sg.B[0])
									if rk == eg && !bytes.Equal(out, exp) {
										panic("kernel result differs when the schedule is a separate array")
									}
								}
							})
							if p {
								r.Violation("schedule-arrays-as-separate-objects-at-page-edge:"+k.name, hk.D{"key": hk.Hex(key), "placement": place, "panic": msg, "memory_fault": isFault, "fault_address": fmt.Sprintf("%#x", addr)})
							}
							if eg != nil {
								pool.Put(eg)
							}
							if dgk != nil {
								pool.Put(dgk)
							}
							pool.Put(sg)
							pool.Put(dg)
							r.Eval("placement:kernel-" + k.name)
						}
					}
				}
			}
			// the ENVIRONMENT changes while ciphers are alive: the CPU feature set of the cpuid dependency (a public,
			// mutable global) has features switched off and on again; ciphers built before, between and after
			// must keep computing the standard permutation and its inverse
			{
				key := keys[2]
				refBlk := ref.NewSM4Block(key)
				judge := func(stage string, blk cipher.Block) {
					in := rng.Bytes(16)
					want := make([]byte, 16)
					refBlk.Encrypt(want, in)
					out, back := make([]byte, 16), make([]byte, 16)
					p, msg, _, _ := hk.Try(func() {
						blk.Encrypt(out, in)
						blk.Decrypt(back, want)
					})
					if p || !bytes.Equal(out, want) || !bytes.Equal(back, in) {
						r.Violation("block-wrong-after-cpu-feature-set-changed:"+pn, hk.D{"stage": stage, "key": hk.Hex(key), "block": hk.Hex(in), "encrypt": hk.Hex(out), "want": hk.Hex(want), "decrypt_of_want": hk.Hex(back), "panic": msg})
					}
				}
				before, _ := NewCipher(key)
				judge("built-before", before)
				feats := []cpuid.FeatureID{cpuid.GFNI, cpuid.AVX512F, cpuid.VPCLMULQDQ, cpuid.AESARM}
				had := map[cpuid.FeatureID]bool{}
				for _, f := range feats {
					had[f] = cpuid.CPU.Supports(f)
				}
				for _, f := range feats {
					cpuid.CPU.Disable(f)
					judge("built-before,used-while-"+f.String()+"-disabled", before)
					mid, err := NewCipher(key)
					if err == nil {
						judge("built-while-"+f.String()+"-disabled", mid)
					}
					if had[f] {
						cpuid.CPU.Enable(f)
					}
					judge("built-before,used-after-"+f.String()+"-re-enabled", before)
					if err == nil {
						judge("built-while-disabled,used-after-re-enabled", mid)
					}
				}
				r.Eval("cpu-feature-set-toggled:" + pn)
			}
			// object lifetimes: AEADs derived from a Block become garbage and are finalized while the Block lives on
			zvLifetimeHistories(r, rng, pn, hk.N(6, 40), false, true, false)
			// key lengths other than 16 must be rejected
			for l := 0; l <= 40; l++ {
				if l == 16 {
					continue
				}
				var blk interface{}
				var err error
				p, msg, _, _ := hk.Try(func() { blk, err = NewCipher(rng.Bytes(l)) })
				if p {
					r.Violation("NewCipher-panics-on-bad-key-length:"+pn, hk.D{"len": l, "panic": msg})
				} else if err == nil || !zvIsNilBlock(blk) {
					r.Violation("NewCipher-accepts-bad-key-length:"+pn, hk.D{"len": l})
				}
				r.Eval(fmt.Sprintf("keylen:%s", pn))
			}
			var blk interface{}
			var err error
			p, msg, _, _ := hk.Try(func() { blk, err = NewCipher(nil) })
			if p || err == nil || !zvIsNilBlock(blk) {
				r.Violation("NewCipher-nil-key:"+pn, hk.D{"panic": msg})
			}
		})
	}
	r.Sample(hk.D{"key": hk.Hex(keys[2]), "paths": "portable x1/x2, expandKey, expandKeyAsm, kernels x1..x16 (all lanes), public Encrypt/Decrypt asm on/off"})
}

func zvIsNilBlock(b interface{}) bool {
	if b == nil {
		return true
	}
	rv := reflect.ValueOf(b)
	return rv.Kind() == reflect.Ptr && rv.IsNil()
}
