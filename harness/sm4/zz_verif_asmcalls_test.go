//go:build verif && !verifnoasm

package sm4

// The only place where the monitors call the assembly stubs that the repository's own tests do NOT pin
// (sealAsm, openAsm, copyAsm, needExpand). If their Go declarations change, the driver rebuilds the
// harness with tag verifnoasm (zz_verif_asmcalls_stub_test.go): the direct-call sections are skipped and
// everything that goes through the public API still runs.

const asmDirectAvailable = true

func vSealAsm(rk *uint32, tagSize int, dst *byte, nonce, plaintext, aad []byte, temp *byte) {
	sealAsm(rk, tagSize, dst, nonce, plaintext, aad, temp)
}

func vOpenAsm(rk *uint32, tagSize int, dst *byte, nonce, ciphertext, aad []byte, temp *byte) int {
	return openAsm(rk, tagSize, dst, nonce, ciphertext, aad, temp)
}

func vCopyAsm(dst, src *byte, n int) { copyAsm(dst, src, n) }

func vNeedExpand(array []byte, asked int) int { return needExpand(array, asked) }
