//go:build verif && !verifnoasm

package sm4

// The only place where the monitors call the fused assembly routines that the repository's own tests do NOT pin
// (sealAsm, openAsm). If their Go declarations change, the driver rebuilds the harness with tag verifnoasm
// (zz_verif_asmcalls_stub_test.go): the direct-call sections are skipped and everything that goes through the
// public API still runs. The small helpers (copyAsm, needExpand) have adapters of their own
// (zz_verif_asmhelpers_test.go, tag verifnohelpers): a refactoring that replaces a helper by Go code must not cost
// the direct observation of sealAsm and openAsm.

const zvAsmDirectAvailable = true

func vSealAsm(rk *uint32, tagSize int, dst *byte, nonce, plaintext, aad []byte, temp *byte) {
	sealAsm(rk, tagSize, dst, nonce, plaintext, aad, temp)
}

func vOpenAsm(rk *uint32, tagSize int, dst *byte, nonce, ciphertext, aad []byte, temp *byte) int {
	return openAsm(rk, tagSize, dst, nonce, ciphertext, aad, temp)
}
