//go:build verif

package sm4

import (
	"crypto/cipher"
	"fmt"
	"sync"
	"sync/atomic"
	"unsafe"

	"github.com/bilibili/smgo/zzverif/hk"
	"github.com/bilibili/smgo/zzverif/ref"
)

// The accelerated path is selected by the package variable candoAsm. The
// monitors run every workload once as detected and once with it forced off
// (NewCipher then returns the portable cipher and crypto/cipher falls back to
// the standard library's generic GCM). The switch is only flipped between
// workloads, never while operations are in flight.

var zvAsmDetected = zvGetAsm()
var zvAsmMu sync.Mutex

func zvPaths() []bool {
	if !zvSwitchAvailable {
		return []bool{zvAsmDetected} // the selection cannot be forced on this tree: only what the library selects itself
	}
	if zvAsmDetected {
		return []bool{true, false}
	}
	return []bool{false}
}

func zvPathName(asm bool) string {
	if asm {
		return "asm"
	}
	return "portable"
}

func zvWithAsm(on bool, f func()) {
	zvAsmMu.Lock()
	old := zvGetAsm()
	zvSetAsm(on && zvAsmDetected)
	defer func() { zvSetAsm(old); zvAsmMu.Unlock() }()
	f()
}

// newAEAD builds an AEAD the way callers do (through crypto/cipher); the two
// families the standard library exposes are (any nonce size, tag 16) and
// (nonce 12, tag 12..16).
var zvAeadFamilyCounter uint32

func zvNewAEAD(key []byte, nonceSize, tagSize int) (cipher.AEAD, error) {
	blk, err := NewCipher(key)
	if err != nil {
		return nil, err
	}
	switch {
	case nonceSize == 12 && tagSize == 16:
		// the default shape is reachable through all three constructors; rotate through them
		switch atomic.AddUint32(&zvAeadFamilyCounter, 1) % 3 {
		case 1:
			return cipher.NewGCMWithNonceSize(blk, 12)
		case 2:
			return cipher.NewGCMWithTagSize(blk, 16)
		}
		return cipher.NewGCM(blk)
	case tagSize == 16:
		return cipher.NewGCMWithNonceSize(blk, nonceSize)
	case nonceSize == 12:
		return cipher.NewGCMWithTagSize(blk, tagSize)
	}
	// both non-standard at once: not reachable through crypto/cipher's constructors, but through the method those
	// constructors call on the Block (NewGCM(nonceSize, tagSize)), which callers can reach by interface assertion
	if g, ok := blk.(interface {
		NewGCM(nonceSize, tagSize int) (cipher.AEAD, error)
	}); ok {
		return g.NewGCM(nonceSize, tagSize)
	}
	return nil, zvErrComboUnreachable
}

// errComboUnreachable: a (nonce size, tag size) pair that no constructor of this path offers - nothing to judge.
var zvErrComboUnreachable = fmt.Errorf("combination of non-standard nonce and tag size is not reachable on this path")

func zvNewAEADFromBlock(blk cipher.Block, nonceSize, tagSize int) (cipher.AEAD, error) {
	switch {
	case nonceSize == 12 && tagSize == 16:
		return cipher.NewGCM(blk)
	case tagSize == 16:
		return cipher.NewGCMWithNonceSize(blk, nonceSize)
	case nonceSize == 12:
		return cipher.NewGCMWithTagSize(blk, tagSize)
	}
	return nil, fmt.Errorf("combination (nonce %d, tag %d) is not reachable through crypto/cipher", nonceSize, tagSize)
}

type zvGcmCase struct {
	key, nonce, aad, pt []byte
	tag                 int
	label               string
}

// kernelClass names which of the 256/128/64/32/16-byte kernels and what tail a
// plaintext length drives in the fused assembly.
func zvKernelClass(n int) string {
	n256 := n / 256
	if n256 > 2 {
		n256 = 2 // 2 = "two or more"
	}
	r := n % 256
	if n < 64 {
		// lengths below 64 skip straight to the X2 loop
		return fmt.Sprintf("short:b32=%d,b16=%d,tail=%d", n/32, (n%32)/16, n%16)
	}
	return fmt.Sprintf("n256=%d,b128=%d,b64=%d,b32=%d,b16=%d,tail=%d", n256, r/128, (r%128)/64, (r%64)/32, (r%32)/16, n%16)
}

func zvGhashClass(n int) string {
	blocks := n / 16
	way := "1way"
	if blocks >= 8 {
		way = "4way"
	}
	if n < 16 {
		way = "none"
	}
	return fmt.Sprintf("%s,rem4=%d,tail=%v", way, blocks%4, n%16 != 0)
}

func zvNonceClass(n int) string {
	if n == 12 {
		return "nonce12"
	}
	return "nonce:" + zvGhashClass(n)
}

func (c *zvGcmCase) class() string {
	return fmt.Sprintf("pt[%s]|aad[%s]|%s|tag%d", zvKernelClass(len(c.pt)), zvGhashClass(len(c.aad)), zvNonceClass(len(c.nonce)), c.tag)
}

func zvClip(b []byte) string {
	if len(b) > 4096 {
		return hk.Hex(b[:4096]) + fmt.Sprintf("...(%d bytes, PRNG-determined)", len(b))
	}
	return hk.Hex(b)
}

func (c *zvGcmCase) detail() hk.D {
	return hk.D{"key": hk.Hex(c.key), "nonce": hk.Hex(c.nonce), "aad": zvClip(c.aad), "pt": zvClip(c.pt), "tag_size": c.tag, "label": c.label,
		"lens": fmt.Sprintf("nonce=%d aad=%d pt=%d", len(c.nonce), len(c.aad), len(c.pt))}
}

var zvLenClasses = []int{0, 1, 15, 16, 17, 31, 32, 33, 47, 48, 63, 64, 65, 79, 80, 95, 96, 127, 128, 129, 143, 191, 192, 255, 256, 257, 271, 383, 384, 511, 512, 513, 640, 767, 768, 1023, 1024, 1025, 1100}

// gcmCases builds the deterministic C06 case list (shared by C06/C07/C10/C11).
func zvGcmCases(rng *hk.RNG, scale int) []*zvGcmCase {
	var cs []*zvGcmCase
	mk := func(label string, nl, al, pl, tag int) *zvGcmCase {
		return &zvGcmCase{key: rng.Bytes(16), nonce: rng.Bytes(nl), aad: rng.Bytes(al), pt: rng.Bytes(pl), tag: tag, label: label}
	}
	// every plaintext length and every aad length 0..1100, other dimensions from the class table
	offset := rng.Intn(3)
	for l := 0; l <= 1100; l++ {
		if scale < 2 && l%3 != offset && !zvIsClassLen(l) {
			// quick tier: a third of the lengths per run (seed-rotated), all class lengths always
			continue
		}
		cs = append(cs, mk("pt-sweep", 12, rng.Pick(zvLenClasses[:24]), l, 16))
		cs = append(cs, mk("aad-sweep", 12, l, rng.Pick(zvLenClasses[:24]), 16))
	}
	// nonce lengths 1..300 at tag 16
	for nl := 1; nl <= 300; nl++ {
		cs = append(cs, mk("nonce-sweep", nl, rng.Pick(zvLenClasses[:12]), rng.Pick(zvLenClasses[:24]), 16))
	}
	// lengths CONGRUENT to the special ones modulo a register width: the nonce length 12 selects another
	// derivation of the pre-counter block, 0 and multiples of 16 select other kernels; a comparison or a
	// counter that is narrower than the length (8, 16 bits; 24 in thorough) confuses 12 + 2^k with 12
	for _, k := range []uint{8, 16} {
		for _, v := range []int{0, 1, 12, 13, 16} {
			cs = append(cs, mk("width-congruent-nonce", v+1<<k, rng.Pick(zvLenClasses[:12]), rng.Pick(zvLenClasses[:24]), 16))
		}
		cs = append(cs, mk("width-congruent-nonce", 1<<k-1, 5, 33, 16))
		cs = append(cs, mk("width-congruent-aad", 12, 1<<k, 20, 16), mk("width-congruent-aad", 12, 1<<k+1, 0, 16), mk("width-congruent-aad", 12, 1<<k-1, 16, 16), mk("width-congruent-aad", 12, 1<<k+16, 300, 16))
		cs = append(cs, mk("width-congruent-pt", 12, 7, 1<<k, 16), mk("width-congruent-pt", 12, 0, 1<<k+1, 16), mk("width-congruent-pt", 12, 16, 1<<k-1, 16), mk("width-congruent-pt", 12, 3, 1<<k+16, 12))
	}
	if scale >= 2 {
		cs = append(cs, mk("width-congruent-nonce", 12+1<<24, 3, 40, 16), mk("width-congruent-nonce", 1<<24, 0, 16, 16), mk("width-congruent-aad", 12, 1<<24, 1, 16), mk("width-congruent-pt", 12, 1, 1<<24, 16))
	}
	// tag sizes 12..16 at nonce 12
	for tag := 12; tag <= 16; tag++ {
		for _, pl := range zvLenClasses {
			cs = append(cs, mk("tag-sweep", 12, rng.Pick(zvLenClasses[:12]), pl, tag))
		}
	}
	// BOTH non-standard at once (nonce size x tag size): the statement quantifies over the product; reached through
	// the Block's own NewGCM(nonceSize, tagSize) on the accelerated path (skipped where no path offers it)
	for _, nl := range []int{1, 8, 13, 16, 24, 60, 130} {
		for tag := 12; tag <= 15; tag++ {
			cs = append(cs, mk("nonce-x-tag", nl, rng.Pick(zvLenClasses[:12]), rng.Pick(zvLenClasses[:24]), tag))
		}
	}
	// class cross product (sampled in quick, full in thorough)
	for _, pl := range zvLenClasses {
		for _, al := range zvLenClasses {
			if scale < 2 && rng.Intn(6) != 0 {
				continue
			}
			cs = append(cs, mk("class-cross", 12, al, pl, 16))
		}
	}
	// structured contents
	for _, pl := range []int{16, 64, 256, 300} {
		c := mk("zeros", 12, 16, pl, 16)
		for i := range c.pt {
			c.pt[i] = 0
		}
		for i := range c.key {
			c.key[i] = 0
		}
		for i := range c.nonce {
			c.nonce[i] = 0
		}
		cs = append(cs, c)
		c2 := mk("ones", 12, 16, pl, 16)
		for i := range c2.pt {
			c2.pt[i] = 0xff
		}
		for i := range c2.key {
			c2.key[i] = 0xff
		}
		for i := range c2.nonce {
			c2.nonce[i] = 0xff
		}
		cs = append(cs, c2)
	}
	// random
	for i := 0; i < 1500*scale*scale; i++ {
		nl := 12
		tag := 16
		switch rng.Intn(3) {
		case 0:
			nl = 1 + rng.Intn(300)
		case 1:
			tag = 12 + rng.Intn(5)
		}
		cs = append(cs, mk("random", nl, rng.Intn(400), rng.Intn(1101), tag))
	}
	return cs
}

func zvIsClassLen(l int) bool {
	for _, c := range zvLenClasses {
		if c == l {
			return true
		}
	}
	return false
}

// wrapCases: nonces solved through GF(2^128) so that the pre-counter block has
// low word 2^32-j: the 32-bit counter wraps j blocks into the message.
func zvWrapCases(rng *hk.RNG, maxJ int) []*zvGcmCase {
	var cs []*zvGcmCase
	nonceLens := []int{16, 16, 17, 24, 31, 32, 48, 64, 127, 128, 129, 144, 200, 256}
	for j := 0; j <= maxJ; j++ {
		key := rng.Bytes(16)
		g := ref.NewGCM(key)
		var j0 [16]byte
		rng.Fill(j0[:12])
		v := uint32(0) - uint32(j) // 2^32 - j  (j=0 -> 0)
		j0[12], j0[13], j0[14], j0[15] = byte(v>>24), byte(v>>16), byte(v>>8), byte(v)
		nl := nonceLens[j%len(nonceLens)]
		nonce := g.SolveNonce(nl, j0, rng.Bytes(nl))
		// plaintext long enough for the wrap to fall inside it, in varying kernels
		pl := []int{16 * (j + 3), 1100, 16*(j+1) + 5, 700, 260}[j%5]
		if pl > 1400 {
			pl = 1400
		}
		cs = append(cs, &zvGcmCase{key: key, nonce: nonce, aad: rng.Bytes(rng.Intn(40)), pt: rng.Bytes(pl), tag: 16, label: fmt.Sprintf("counter-wrap:j=%d", j)})
	}
	return cs
}

func zvPtrOf(b []byte) uintptr {
	if cap(b) == 0 {
		return 0
	}
	return uintptr(unsafe.Pointer(&b[:1][0]))
}
