//go:build verif

package sm4

import (
	"bytes"
	"fmt"
	"testing"

	"github.com/bilibili/smgo/zzverif/hk"
	"github.com/bilibili/smgo/zzverif/ref"
)

// C18 (SM4 part) — every table entry against its derivation; assembly
// constants observed through execution.

// inverse of L'(b) = b ^ (b<<<13) ^ (b<<<23) by Gaussian elimination over GF(2)
func zvLPrimeInvTable() func(uint32) uint32 {
	lp := func(b uint32) uint32 { return b ^ (b<<13 | b>>19) ^ (b<<23 | b>>9) }
	// columns: image of each basis vector; solve M x = y for each basis y
	var rows [32]uint64 // row i: bits 0..31 = matrix row, bits 32..63 = identity (augmented)
	for i := 0; i < 32; i++ {
		var row uint64
		for j := 0; j < 32; j++ {
			if lp(1<<uint(j))>>uint(i)&1 == 1 {
				row |= 1 << uint(j)
			}
		}
		rows[i] = row | 1<<uint(32+i)
	}
	for col := 0; col < 32; col++ {
		piv := -1
		for r := col; r < 32; r++ {
			if rows[r]>>uint(col)&1 == 1 {
				piv = r
				break
			}
		}
		if piv < 0 {
			panic("L' not invertible")
		}
		rows[col], rows[piv] = rows[piv], rows[col]
		for r := 0; r < 32; r++ {
			if r != col && rows[r]>>uint(col)&1 == 1 {
				rows[r] ^= rows[col]
			}
		}
	}
	inv := [32]uint32{}
	for i := 0; i < 32; i++ {
		inv[i] = uint32(rows[i] >> 32)
	}
	return func(y uint32) uint32 {
		var x uint32
		for i := 0; i < 32; i++ {
			// x_i = <inv row i, y>
			v := inv[i] & y
			v ^= v >> 16
			v ^= v >> 8
			v ^= v >> 4
			v ^= v >> 2
			v ^= v >> 1
			x |= (v & 1) << uint(i)
		}
		return x
	}
}

func TestVerifC18SM4(t *testing.T) {
	r := hk.NewReporter("C18", "sm4-constants")
	defer r.Close()
	if err := ref.SelfTestSM4(false); err != nil {
		r.Inconclusive("oracle self-test: " + err.Error())
		return
	}
	rng := hk.NewRNG(hk.Seed(), "c18sm4")
	// ---- Go tables (walked at start, and again after the package has been used: they are live state)
	for phase := 0; phase < 2; phase++ {
		if phase == 1 {
			for _, asm := range zvPaths() {
				zvWithAsm(asm, func() {
					for q := 0; q < 40; q++ {
						key := rng.Bytes(16)
						blk, err := NewCipher(key)
						if err != nil {
							continue
						}
						b := rng.Bytes(32)
						hk.Try(func() { blk.Encrypt(b, b); blk.Decrypt(b[16:], b[:16]) })
						if a, err := zvNewAEAD(key, []int{12, 13, 16, 129}[q%4], 16); err == nil {
							n := rng.Bytes(a.NonceSize())
							ct := a.Seal(nil, n, rng.Bytes(rng.Intn(300)), rng.Bytes(rng.Intn(40)))
							hk.Try(func() { a.Open(nil, n, ct, nil) })
						}
					}
				})
			}
		}
		for x := 0; x < 256; x++ {
			if sbox[x] != ref.SM4Sbox[x] {
				r.Violation("sbox-entry-wrong", hk.D{"x": x, "got": sbox[x], "want": ref.SM4Sbox[x]})
			}
			for ti, tb := range []*[256]uint32{&s0, &s1, &s2, &s3} {
				want := ref.SM4L(uint32(ref.SM4Sbox[x]) << uint(24-8*ti))
				if tb[x] != want {
					r.Violation(fmt.Sprintf("t-table-entry-wrong:s%d", ti), hk.D{"x": x, "got": fmt.Sprintf("%08x", tb[x]), "want": fmt.Sprintf("%08x", want)})
				}
			}
		}
		r.EvalN("table:sbox", 256)
		r.EvalN("table:s0", 256)
		r.EvalN("table:s1", 256)
		r.EvalN("table:s2", 256)
		r.EvalN("table:s3", 256)
		for i := 0; i < 32; i++ {
			if ck[i] != ref.SM4CK[i] {
				r.Violation("ck-entry-wrong", hk.D{"i": i, "got": fmt.Sprintf("%08x", ck[i]), "want": fmt.Sprintf("%08x", ref.SM4CK[i])})
			}
		}
		r.EvalN("table:ck", 32)
		for i, v := range []uint32{fk0, fk1, fk2, fk3} {
			if v != ref.SM4FK[i] {
				r.Violation("fk-entry-wrong", hk.D{"i": i})
			}
		}
		r.EvalN("table:fk", 4)
		if BlockSize != 16 {
			r.Violation("blocksize-constant-wrong", hk.D{})
		}
	}
	r.Sample(hk.D{"table": "s2", "x": 0x37, "derivation": "L(sbox[x] << 8)", "value": fmt.Sprintf("%08x", s2[0x37])})

	if !zvAsmDetected {
		r.Note("assembly_constants", "not executable on this CPU")
		return
	}
	// ---- the GFNI affine macro (PreAffineMatrix, PostAffineMatrix, both immediates) on all 256 bytes
	for base := 0; base < 256; base += 64 {
		in := make([]byte, 64)
		for i := range in {
			in[i] = byte(base + i)
		}
		out := make([]byte, 64)
		verifAffine64(&out[0], &in[0])
		for i := range in {
			if out[i] != ref.SM4Sbox[in[i]] {
				r.Violation("asm-affine-sbox-wrong", hk.D{"x": in[i], "got": out[i], "want": ref.SM4Sbox[in[i]]})
			}
		}
	}
	// every byte value in every one of the 64 byte lanes (lane-dependent matrix broadcast errors)
	for lane := 0; lane < 64; lane++ {
		for v := 0; v < 256; v += 1 {
			if (v+lane)%4 != 0 {
				continue
			}
			in := rng.Bytes(64)
			in[lane] = byte(v)
			out := make([]byte, 64)
			verifAffine64(&out[0], &in[0])
			for i := range in {
				if out[i] != ref.SM4Sbox[in[i]] {
					r.Violation("asm-affine-sbox-wrong:lane", hk.D{"lane": i, "x": in[i], "got": out[i]})
					break
				}
			}
		}
	}
	r.EvalN("asm:affine-macro-all-256-bytes", 256)
	r.EvalN("asm:affine-macro-lanes", 64*64)

	// ---- FK<> and CK<> recovered from expandKeyAsm outputs
	linv := zvLPrimeInvTable()
	var sinv [256]byte
	for x := 0; x < 256; x++ {
		sinv[ref.SM4Sbox[x]] = byte(x)
	}
	tpInv := func(y uint32) uint32 {
		b := linv(y)
		return uint32(sinv[b>>24])<<24 | uint32(sinv[(b>>16)&0xff])<<16 | uint32(sinv[(b>>8)&0xff])<<8 | uint32(sinv[b&0xff])
	}
	for trial := 0; trial < hk.N(8, 64); trial++ {
		mk := rng.Bytes(16)
		if trial == 0 {
			mk = make([]byte, 16)
		}
		var enc, dec [32]uint32
		expandKeyAsm(&mk[0], &enc[0], &dec[0])
		var K [36]uint32
		for i := 0; i < 32; i++ {
			K[i+4] = enc[i]
			if dec[31-i] != enc[i] {
				r.Violation("asm-expandkey-dec-not-reverse-of-enc", hk.D{"key": hk.Hex(mk), "i": i})
			}
		}
		// CK_i for i >= 4 needs only outputs
		for i := 4; i < 32; i++ {
			got := tpInv(K[i+4]^K[i]) ^ K[i+1] ^ K[i+2] ^ K[i+3]
			if got != ref.SM4CK[i] {
				r.Violation("asm-CK-constant-wrong", hk.D{"i": i, "recovered": fmt.Sprintf("%08x", got), "want": fmt.Sprintf("%08x", ref.SM4CK[i]), "key": hk.Hex(mk)})
			}
		}
		// walk back to K_0..K_3 with the standard CK_0..3, then FK = K ^ MK
		for i := 3; i >= 0; i-- {
			K[i] = K[i+4] ^ ref.SM4TPrime(K[i+1]^K[i+2]^K[i+3]^ref.SM4CK[i])
		}
		for i := 0; i < 4; i++ {
			mkw := uint32(mk[4*i])<<24 | uint32(mk[4*i+1])<<16 | uint32(mk[4*i+2])<<8 | uint32(mk[4*i+3])
			if K[i]^mkw != ref.SM4FK[i] {
				r.Violation("asm-FK-or-CK0..3-constant-wrong", hk.D{"i": i, "recovered_fk": fmt.Sprintf("%08x", K[i]^mkw), "want": fmt.Sprintf("%08x", ref.SM4FK[i]), "key": hk.Hex(mk)})
			}
		}
		// and with the standard FK, CK_0..3
		for i := 0; i < 4; i++ {
			K[i] = (uint32(mk[4*i])<<24 | uint32(mk[4*i+1])<<16 | uint32(mk[4*i+2])<<8 | uint32(mk[4*i+3])) ^ ref.SM4FK[i]
		}
		for i := 0; i < 4; i++ {
			got := tpInv(K[i+4]^K[i]) ^ K[i+1] ^ K[i+2] ^ K[i+3]
			if got != ref.SM4CK[i] {
				r.Violation("asm-FK-or-CK0..3-constant-wrong", hk.D{"i": i, "recovered_ck": fmt.Sprintf("%08x", got), "want": fmt.Sprintf("%08x", ref.SM4CK[i]), "key": hk.Hex(mk)})
			}
		}
	}
	r.EvalN("asm:CK-recovered-from-key-schedule", 32)
	r.EvalN("asm:FK-recovered-from-key-schedule", 4)

	// ---- GHASH multiplier (GCM_POLY, bit-reversal masks, lane shuffles): bilinear, so the
	//      128x128 basis pairs characterise it completely; 1-way (count<8) and 4-way (count>=8)
	basis := func(i int) []byte {
		b := make([]byte, 16)
		b[i/8] = 0x80 >> uint(i%8)
		return b
	}
	type job struct{ i, j, pos, count int }
	var jobs []job
	for i := 0; i < 128; i++ {
		for j := 0; j < 128; j++ {
			jobs = append(jobs, job{i, j, 0, 1})
			if hk.Thorough() {
				for pos := 0; pos < 8; pos++ {
					jobs = append(jobs, job{i, j, pos, 8})
				}
				jobs = append(jobs, job{i, j, (i + j) % 11, 11}, job{i, j, (i * j) % 3, 3})
			} else {
				jobs = append(jobs, job{i, j, (i + 3*j) % 8, 8})
				if (i+j)%8 == 0 {
					jobs = append(jobs, job{i, j, (i + j) % 11, 11}, job{i, j, (i * j) % 3, 3})
				}
			}
		}
	}
	hk.Parallel(len(jobs), func(k int) {
		jb := jobs[k]
		H := basis(jb.i)
		data := make([]byte, 16*jb.count)
		copy(data[16*jb.pos:], basis(jb.j))
		tag := make([]byte, 16)
		gHashBlocks(&H[0], &tag[0], &data[0], jb.count)
		want := ref.FEFromBytes(basis(jb.j))
		h := ref.FEFromBytes(H)
		for q := 0; q < jb.count-jb.pos; q++ {
			want = want.Mul(h)
		}
		if !bytes.Equal(tag, want.Bytes()) {
			r.Violation(fmt.Sprintf("asm-ghash-multiplier-wrong:count=%d", jb.count), hk.D{"H_bit": jb.i, "data_bit": jb.j, "block": jb.pos, "count": jb.count, "got": hk.Hex(tag), "want": hk.Hex(want.Bytes())})
		}
	})
	r.EvalN("asm:ghash-basis-pairs-1way", 128*128)
	r.EvalN("asm:ghash-basis-pairs-4way", len(jobs)-128*128)
	// non-zero initial tag and dense operands
	for q := 0; q < hk.N(500, 5000); q++ {
		count := 1 + rng.Intn(20)
		H, tag, data := rng.Bytes(16), rng.Bytes(16), rng.Bytes(16*count)
		y := ref.FEFromBytes(tag)
		h := ref.FEFromBytes(H)
		for b := 0; b < count; b++ {
			y = y.Xor(ref.FEFromBytes(data[16*b:])).Mul(h)
		}
		gHashBlocks(&H[0], &tag[0], &data[0], count)
		if !bytes.Equal(tag, y.Bytes()) {
			r.Violation("asm-ghash-wrong:dense", hk.D{"count": count})
		}
	}
	r.EvalN("asm:ghash-dense", hk.N(500, 5000))
}
