//go:build verif

package sm4

import (
	"bytes"
	"fmt"
	"testing"

	"github.com/bilibili/smgo/zzverif/hk"
	"github.com/bilibili/smgo/zzverif/ref"
)

// C10 (SM4 part) — buffer contracts of Seal/Open/Encrypt/Decrypt:
// result = dst ‖ output for every (len, cap) shape of dst including the
// in-place idiom; inputs live in write-protected pages (a write faults at the
// instruction), are snapshot-compared as a cross-check, and every call is
// repeated on the same buffers.

type zvDstShape struct {
	name   string
	prefix int
	spare  int // spare capacity beyond the prefix: -1 = nil dst, -2 = exactly what is needed, -3 = more than needed
}

var zvDstShapes = []zvDstShape{
	{"nil", 0, -1},
	{"empty-nonnil-cap0", 0, 0},
	{"prefix1-cap=len", 1, 0},
	{"prefix16-cap=len", 16, 0},
	{"prefix17-cap=len", 17, 0},
	{"empty-cap-exact", 0, -2},
	{"prefix15-cap-exact", 15, -2},
	{"empty-cap-larger", 0, -3},
	{"prefix16-cap-larger", 16, -3},
	{"prefix1-cap-short-by-1", 1, -4},
}

func zvMakeDst(sh zvDstShape, need int, rng *hk.RNG) (dst []byte, backing []byte) {
	if sh.spare == -1 {
		return nil, nil
	}
	var capTotal int
	switch sh.spare {
	case -2:
		capTotal = sh.prefix + need
	case -3:
		capTotal = sh.prefix + need + 1 + rng.Intn(40)
	case -4:
		capTotal = sh.prefix + need - 1
		if capTotal < sh.prefix {
			capTotal = sh.prefix
		}
	default:
		capTotal = sh.prefix + sh.spare
	}
	backing = make([]byte, capTotal+64)
	for i := range backing {
		backing[i] = byte(0xD0 ^ i)
	}
	dst = backing[:sh.prefix:capTotal]
	return dst, backing
}

func TestVerifC10SM4(t *testing.T) {
	r := hk.NewReporter("C10", "sm4-buffers")
	defer r.Close()
	if err := ref.SelfTestGCM(); err != nil {
		r.Inconclusive("oracle self-test: " + err.Error())
		return
	}
	rng := hk.NewRNG(hk.Seed(), "c10")
	pool := hk.NewPool()

	var cases []*zvGcmCase
	mk := func(nl, al, pl, tag int) *zvGcmCase {
		return &zvGcmCase{key: rng.Bytes(16), nonce: rng.Bytes(nl), aad: rng.Bytes(al), pt: rng.Bytes(pl), tag: tag, label: "c10"}
	}
	for _, pl := range zvLenClasses {
		cases = append(cases, mk(12, rng.Pick([]int{0, 1, 16, 20, 129}), pl, 16))
	}
	for i := 0; i < hk.N(30, 400); i++ {
		nl, tag := 12, 16
		switch rng.Intn(3) {
		case 0:
			nl = 1 + rng.Intn(200)
		case 1:
			tag = 12 + rng.Intn(5)
		}
		cases = append(cases, mk(nl, rng.Intn(200), rng.Intn(700), tag))
	}
	r.Note("messages", len(cases))
	r.Sample(hk.D{"message": cases[3].detail()["lens"], "dst_shapes": fmt.Sprint(len(zvDstShapes)) + " shapes + in-place", "inputs": "key/nonce/aad/message in PROT_READ pages"})

	// guarded, write-protected copy of an input
	protect := func(b []byte) *hk.GBuf {
		g := pool.Get(len(b), hk.PlaceMid)
		g.Writable()
		copy(g.B, b)
		g.ReadOnly()
		return g
	}

	for _, asm := range zvPaths() {
		asm := asm
		zvWithAsm(asm, func() {
			pn := zvPathName(asm)
			otherKey := rng.Bytes(16)
			otherAEAD, _ := zvNewAEAD(otherKey, 12, 16)
			otherLong, _ := zvNewAEAD(otherKey, 130, 16)
			otherMsg := rng.Bytes(300)
			for ci, c := range cases {
				if !hk.InShard(ci) {
					continue
				}
				g := ref.NewGCM(c.key)
				sealed := g.Seal(c.nonce, c.pt, c.aad, c.tag)
				gKey := protect(c.key)
				a, err := zvNewAEAD(gKey.B, len(c.nonce), c.tag)
				if err == zvErrComboUnreachable {
					r.Class("trivial:nonce-x-tag-not-offered-on-this-path")
					continue
				}
				if err != nil {
					r.Violation("cannot-construct-aead:"+pn, hk.D{"err": err.Error()})
					continue
				}
				gNonce, gAad, gPt, gCt := protect(c.nonce), protect(c.aad), protect(c.pt), protect(sealed)
				inputsIntact := func(op, shape string) {
					if !bytes.Equal(gNonce.B, c.nonce) || !bytes.Equal(gAad.B, c.aad) || !bytes.Equal(gPt.B, c.pt) || !bytes.Equal(gCt.B, sealed) || !bytes.Equal(gKey.B, c.key) {
						r.Violation(fmt.Sprintf("%s-modifies-input:%s:%s", op, pn, shape), c.detail())
					}
				}
				// "repeating a call on the same buffers gives the same answer" - also when the library did other work in
				// between: a sealing and an opening under another key, long enough to run every kernel and the
				// 4-way GHASH (state left in vector registers or scratch must not leak into the next call)
				interfere := func() {
					on := rng.Bytes(12)
					ct := otherAEAD.Seal(nil, on, otherMsg, otherMsg[:130])
					otherAEAD.Open(nil, on, ct, otherMsg[:130])
					otherLong.Seal(nil, otherMsg[:130], otherMsg[:40], nil)
				}
				for _, sh := range zvDstShapes {
					// ---------------- Seal
					for rep := 0; rep < 2; rep++ {
						if rep == 1 {
							interfere() // unrelated work under ANOTHER key between the two identical calls
						}
						dst, backing := zvMakeDst(sh, len(sealed), rng)
						prefix := append([]byte{}, dst...)
						var snapshot []byte
						if backing != nil {
							snapshot = append([]byte{}, backing...)
						}
						var out []byte
						p, msg, isFault, addr := hk.Try(func() { out = a.Seal(dst, gNonce.B, gPt.B, gAad.B) })
						d := c.detail()
						d["dst_shape"], d["dst_len"], d["dst_cap"], d["repeat"] = sh.name, len(dst), cap(dst), rep
						switch {
						case p && isFault:
							d["fault_addr"], d["panic"] = fmt.Sprintf("%#x", addr), msg
							d["fault_in"] = zvWhichBuf(addr, map[string]*hk.GBuf{"key": gKey, "nonce": gNonce, "aad": gAad, "plaintext": gPt})
							r.Violation(fmt.Sprintf("seal-writes-to-input:%s:%s", pn, d["fault_in"]), d)
						case p:
							d["panic"] = msg
							r.Violation(fmt.Sprintf("seal-panics-on-legal-dst:%s:%s", pn, sh.name), d)
						case !bytes.Equal(out, append(prefix, sealed...)):
							d["got"] = hk.Hex(out)
							r.Violation(fmt.Sprintf("seal-result-not-dst+output:%s:%s", pn, sh.name), d)
						default:
							// memory beyond cap(dst) does not belong to the call at all
							if backing != nil && !bytes.Equal(backing[cap(dst):], snapshot[cap(dst):]) {
								r.Violation(fmt.Sprintf("seal-writes-beyond-dst-capacity:%s:%s", pn, sh.name), d)
							}
						}
						inputsIntact("seal", sh.name)
						r.Eval(fmt.Sprintf("%s|seal|%s|pt[%s]", pn, sh.name, zvKernelClass(len(c.pt))))
					}
					// ---------------- Open
					for rep := 0; rep < 2; rep++ {
						if rep == 1 {
							interfere() // unrelated work under ANOTHER key between the two identical calls
						}
						dst, backing := zvMakeDst(sh, len(c.pt), rng)
						prefix := append([]byte{}, dst...)
						var snapshot []byte
						if backing != nil {
							snapshot = append([]byte{}, backing...)
						}
						var out []byte
						var oerr error
						p, msg, isFault, addr := hk.Try(func() { out, oerr = a.Open(dst, gNonce.B, gCt.B, gAad.B) })
						d := c.detail()
						d["dst_shape"], d["dst_len"], d["dst_cap"], d["repeat"] = sh.name, len(dst), cap(dst), rep
						switch {
						case p && isFault:
							d["fault_addr"], d["panic"] = fmt.Sprintf("%#x", addr), msg
							d["fault_in"] = zvWhichBuf(addr, map[string]*hk.GBuf{"key": gKey, "nonce": gNonce, "aad": gAad, "ciphertext": gCt})
							r.Violation(fmt.Sprintf("open-writes-to-input:%s:%s", pn, d["fault_in"]), d)
						case p:
							d["panic"] = msg
							r.Violation(fmt.Sprintf("open-panics-on-legal-dst:%s:%s", pn, sh.name), d)
						case oerr != nil:
							d["err"] = oerr.Error()
							r.Violation(fmt.Sprintf("open-rejects-authentic-message:%s:%s:repeat%d", pn, sh.name, rep), d)
						case !bytes.Equal(out, append(prefix, c.pt...)):
							d["got"] = hk.Hex(out)
							r.Violation(fmt.Sprintf("open-result-not-dst+output:%s:%s", pn, sh.name), d)
						default:
							if backing != nil && !bytes.Equal(backing[cap(dst):], snapshot[cap(dst):]) {
								r.Violation(fmt.Sprintf("open-writes-beyond-dst-capacity:%s:%s", pn, sh.name), d)
							}
						}
						inputsIntact("open", sh.name)
						r.Eval(fmt.Sprintf("%s|open|%s|pt[%s]", pn, sh.name, zvKernelClass(len(c.pt))))
					}
				}
				// ---------------- every prefix length 0..200 on the reallocation path (cap too small) and with room
				if ci%hk.N(12, 3) == 0 {
					pls := make([]int, 0, 220)
					for pl := 0; pl <= 200; pl++ {
						pls = append(pls, pl)
					}
					// long prefixes (a record appended to a stream buffer): lengths around one and two bytes' worth
					pls = append(pls, 255, 256, 257, 300, 511, 512, 1024, 4096, 65535, 65536, 70000)
					for _, pl := range pls {
						// room: none, more than needed, and spare capacity that holds the message but NOT the whole result (short by 1
						// byte, by 5, by a whole tag): the result must then move to new storage, nothing may be written past cap(dst)
						for _, room := range []int{0, 1, -1, -5, -1000} {
							short := func(full int) int {
								switch {
								case room == 0:
									return pl
								case room == 1:
									return pl + full + 3
								case room == -1000:
									if full < a.Overhead() {
										return pl
									}
									return pl + full - a.Overhead()
								}
								if full+room < 0 {
									return pl
								}
								return pl + full + room
							}
							capTotal := short(len(sealed))
							backing := make([]byte, capTotal+48)
							for i := range backing {
								backing[i] = byte(0x3C ^ i)
							}
							snap := append([]byte{}, backing...)
							dst := backing[:pl:capTotal]
							prefix := append([]byte{}, dst...)
							var out []byte
							p, msg, _, _ := hk.Try(func() { out = a.Seal(dst, gNonce.B, gPt.B, gAad.B) })
							if p || !bytes.Equal(out, append(append([]byte{}, prefix...), sealed...)) {
								d := c.detail()
								d["prefix_len"], d["room"], d["panic"], d["got_prefix"] = pl, capTotal-pl, msg, hk.Hex(out[:zvMin(len(out), zvMin(pl, 64))])
								r.Violation(fmt.Sprintf("seal-result-not-dst+output:%s:prefix-sweep:room=%d", pn, room), d)
							}
							if !bytes.Equal(backing[capTotal:], snap[capTotal:]) {
								d := c.detail()
								d["prefix_len"], d["dst_cap"], d["result_len"] = pl, capTotal, pl+len(sealed)
								r.Violation(fmt.Sprintf("seal-writes-past-the-capacity-of-dst:%s:prefix-sweep:room=%d", pn, room), d)
							}
							capO := short(len(c.pt))
							backing2 := make([]byte, capO+48)
							for i := range backing2 {
								backing2[i] = byte(0x5A ^ i)
							}
							snap2 := append([]byte{}, backing2...)
							dst2 := backing2[:pl:capO]
							prefix2 := append([]byte{}, dst2...)
							var pt []byte
							var oerr error
							p, msg, _, _ = hk.Try(func() { pt, oerr = a.Open(dst2, gNonce.B, gCt.B, gAad.B) })
							if p || oerr != nil || !bytes.Equal(pt, append(append([]byte{}, prefix2...), c.pt...)) {
								d := c.detail()
								d["prefix_len"], d["room"], d["panic"], d["err"] = pl, capO-pl, msg, fmt.Sprint(oerr)
								r.Violation(fmt.Sprintf("open-result-not-dst+output:%s:prefix-sweep:room=%d", pn, room), d)
							}
							if !bytes.Equal(backing2[capO:], snap2[capO:]) {
								d := c.detail()
								d["prefix_len"], d["dst_cap"] = pl, capO
								r.Violation(fmt.Sprintf("open-writes-past-the-capacity-of-dst:%s:prefix-sweep:room=%d", pn, room), d)
							}
						}
						r.Eval(fmt.Sprintf("%s|prefix-sweep|len%%64=%d,long=%v", pn, pl%64, pl > 200))
					}
				}
				// ---------------- all inputs as sub-slices of ONE record (spare capacity reaches into the next field)
				{
					for order := 0; order < 3; order++ {
						parts := map[string][]byte{"nonce": c.nonce, "aad": c.aad, "pt": c.pt, "ct": sealed}
						names := [][]string{{"nonce", "aad", "pt", "ct"}, {"ct", "pt", "aad", "nonce"}, {"aad", "ct", "nonce", "pt"}}[order]
						var record []byte
						off := map[string][2]int{}
						for _, nme := range names {
							off[nme] = [2]int{len(record), len(record) + len(parts[nme])}
							record = append(record, parts[nme]...)
						}
						record = append(record, 0xEE, 0xEE, 0xEE, 0xEE, 0xEE, 0xEE, 0xEE, 0xEE)
						snapshot := append([]byte{}, record...)
						get := func(nme string) []byte { o := off[nme]; return record[o[0]:o[1]] }
						var out, back []byte
						var oerr error
						p, msg, _, _ := hk.Try(func() {
							out = a.Seal(nil, get("nonce"), get("pt"), get("aad"))
							back, oerr = a.Open(nil, get("nonce"), get("ct"), get("aad"))
						})
						d := c.detail()
						d["field_order"] = names
						if p {
							d["panic"] = msg
							r.Violation("gcm-panics-on-record-subslices:"+pn, d)
						} else if !bytes.Equal(out, sealed) || oerr != nil || !bytes.Equal(back, c.pt) {
							r.Violation("gcm-wrong-on-record-subslices:"+pn, d)
						}
						if !bytes.Equal(record, snapshot) {
							r.Violation("gcm-writes-into-caller-record:"+pn, d)
						}
					}
					r.Eval(fmt.Sprintf("%s|record-subslices|pt[%s]", pn, zvKernelClass(len(c.pt))))
				}
				// ---------------- in-place idioms
				{
					// the buffer lives inside a larger array: the bytes behind the result beyond the capacity
					// handed over are canaries (spare capacity itself is the callee's to use)
					room := len(c.pt) + c.tag + rng.Intn(3)
					backing := bytes.Repeat([]byte{0xEE}, room+24)
					buf := backing[:len(c.pt):room]
					copy(buf, c.pt)
					var out []byte
					p, msg, _, _ := hk.Try(func() { out = a.Seal(buf[:0], gNonce.B, buf, gAad.B) })
					d := c.detail()
					if p {
						d["panic"] = msg
						r.Violation("seal-inplace-panics:"+pn, d)
					} else if !bytes.Equal(out, sealed) {
						d["got"] = hk.Hex(out)
						r.Violation("seal-inplace-wrong:"+pn, d)
					}
					for i := room; i < len(backing); i++ { // beyond the capacity handed over: nobody's but the caller's
						if backing[i] != 0xEE {
							d["offset_behind_capacity"] = i - room
							r.Violation("seal-inplace-writes-behind-the-capacity-of-dst:"+pn, d)
							break
						}
					}
					// the same idiom with the CAPACITY OF dst capped at the message (dst = buf[:0:n]) while the message slice itself
					// still has spare capacity behind it: the only capacity the callee may use is dst's - the result needs new
					// storage, and what lies behind the message in the caller's buffer stays as it is
					if len(c.pt) > 0 {
						n := len(c.pt)
						backing2 := bytes.Repeat([]byte{0xD7}, n+c.tag+24)
						copy(backing2, c.pt)
						msgSlice := backing2[:n]
						var out2 []byte
						p, msg, _, _ := hk.Try(func() { out2 = a.Seal(backing2[:0:n], gNonce.B, msgSlice, gAad.B) })
						if p || !bytes.Equal(out2, sealed) {
							d["panic"], d["got"] = msg, hk.Hex(out2)
							r.Violation("seal-inplace-wrong:dst-capacity-capped-at-the-message:"+pn, d)
						}
						for i := n; i < len(backing2); i++ {
							if backing2[i] != 0xD7 {
								d["offset_behind_capacity"] = i - n
								r.Violation("seal-inplace-writes-behind-the-capacity-of-dst:dst-capacity-capped-at-the-message:"+pn, d)
								break
							}
						}
					}
					ct := append([]byte{}, sealed...)
					var pt []byte
					var oerr error
					p, msg, _, _ = hk.Try(func() { pt, oerr = a.Open(ct[:0], gNonce.B, ct, gAad.B) })
					if p {
						d["panic"] = msg
						r.Violation("open-inplace-panics:"+pn, d)
					} else if oerr != nil || !bytes.Equal(pt, c.pt) {
						d["got"], d["err"] = hk.Hex(pt), fmt.Sprint(oerr)
						r.Violation("open-inplace-wrong:"+pn, d)
					}
					// failed in-place open must not be mistaken for success and must not panic
					if len(sealed) > 0 {
						bad := zvFlipBit(sealed, rng.Intn(len(sealed)*8))
						p, msg, _, _ = hk.Try(func() { pt, oerr = a.Open(bad[:0], gNonce.B, bad, gAad.B) })
						if p {
							d["panic"] = msg
							r.Violation("open-inplace-forgery-panics:"+pn, d)
						} else if oerr == nil {
							r.Violation("open-inplace-forgery-accepted:"+pn, d)
						}
					}
					inputsIntact("inplace", "in-place")
					r.Eval(fmt.Sprintf("%s|inplace|pt[%s]", pn, zvKernelClass(len(c.pt))))
				}
				// ---------------- CROSS-ARGUMENT aliasing that crypto/cipher allows: the additional data (and the nonce)
				// may be the very bytes dst already holds - the record idiom of crypto/tls,
				// Seal(record[:hdr], nonce, record[hdr:], record[:hdr]): header = dst prefix = additional data, the
				// plaintext sits exactly where the output goes; on the way back Open(payload[:0], nonce, payload, header)
				// with header and payload adjacent in one buffer; the explicit nonce may be the tail of the header
				{
					hdr := c.aad
					if len(hdr) < 8 {
						hdr = append(append([]byte{}, hdr...), rng.Bytes(8-len(hdr))...)
					}
					wantSealed := ref.NewGCM(c.key).Seal(c.nonce, c.pt, hdr, c.tag)
					for variant := 0; variant < 3; variant++ {
						record := make([]byte, len(hdr)+len(c.pt), len(hdr)+len(c.pt)+c.tag+variant)
						copy(record, hdr)
						copy(record[len(hdr):], c.pt)
						nonce := gNonce.B
						wantS := wantSealed
						if variant == 2 && a.NonceSize() <= len(hdr) {
							// the nonce is the tail of the header inside the record
							nonce = record[len(hdr)-a.NonceSize() : len(hdr)]
							wantS = ref.NewGCM(c.key).Seal(nonce, c.pt, hdr, c.tag)
						}
						var out []byte
						p, msg, _, _ := hk.Try(func() { out = a.Seal(record[:len(hdr)], nonce, record[len(hdr):], record[:len(hdr)]) })
						d := c.detail()
						d["idiom"], d["variant"], d["header_len"] = "Seal(record[:hdr], nonce, record[hdr:], record[:hdr])", variant, len(hdr)
						if p {
							d["panic"] = msg
							r.Violation("seal-panics-when-aad-is-the-dst-prefix:"+pn, d)
						} else if !bytes.Equal(out, append(append([]byte{}, hdr...), wantS...)) {
							d["got"] = zvClip(out)
							r.Violation("seal-result-not-dst+output-when-aad-is-the-dst-prefix:"+pn, d)
						}
						// the same idiom when the header slice has NO spare capacity (len == cap): the result needs a new array, and
						// the header - still the additional data of this very call - must be read intact and left intact
						{
							hdrOnly := append(make([]byte, 0, len(hdr)), hdr...)
							ptCopy := append([]byte{}, c.pt...)
							var out2 []byte
							p2, msg2, _, _ := hk.Try(func() { out2 = a.Seal(hdrOnly[:len(hdr):len(hdr)], gNonce.B, ptCopy, hdrOnly[:len(hdr):len(hdr)]) })
							if variant == 0 {
								if p2 || !bytes.Equal(out2, append(append([]byte{}, hdr...), wantSealed...)) {
									d["panic"], d["idiom"] = msg2, "Seal(hdr (no spare capacity), nonce, pt, hdr)"
									r.Violation("seal-result-wrong-when-dst-prefix-without-room-is-the-aad:"+pn, d)
								} else if !bytes.Equal(hdrOnly, hdr) {
									r.Violation("seal-modifies-dst-prefix-that-is-the-aad:"+pn, d)
								}
							}
						}
						// and back: header and sealed payload adjacent in one buffer
						rec2 := append(append([]byte{}, hdr...), wantS...)
						nonce2 := gNonce.B
						if variant == 2 && a.NonceSize() <= len(hdr) {
							nonce2 = rec2[len(hdr)-a.NonceSize() : len(hdr)]
						}
						payload := rec2[len(hdr):]
						var pt []byte
						var oerr error
						if variant == 1 {
							p, msg, _, _ = hk.Try(func() { pt, oerr = a.Open(rec2[:len(hdr)], nonce2, payload, rec2[:len(hdr)]) })
							if !p && oerr == nil && len(pt) >= len(hdr) {
								if !bytes.Equal(pt[:len(hdr)], hdr) {
									r.Violation("open-result-not-dst+output-when-aad-is-the-dst-prefix:"+pn, d)
								}
								pt = pt[len(hdr):]
							}
						} else {
							p, msg, _, _ = hk.Try(func() { pt, oerr = a.Open(payload[:0], nonce2, payload, rec2[:len(hdr)]) })
						}
						if p {
							d["panic"] = msg
							r.Violation("open-panics-on-record-idiom:"+pn, d)
						} else if oerr != nil || !bytes.Equal(pt, c.pt) {
							d["err"] = fmt.Sprint(oerr)
							r.Violation("open-wrong-on-record-idiom:"+pn, d)
						}
						if !bytes.Equal(rec2[:len(hdr)], hdr) {
							r.Violation("open-modifies-header-of-record:"+pn, d)
						}
						// a FORGED payload behind the same header: the call fails, and the header - which is the dst prefix AND
						// the additional data, i.e. an input - must still be what it was; the genuine record opens afterwards
						if len(wantS) > 0 {
							rec3 := append(append([]byte{}, hdr...), wantS...)
							rec3[len(hdr)+rng.Intn(len(wantS))] ^= 0x10
							nonce3 := gNonce.B
							if variant == 2 && a.NonceSize() <= len(hdr) {
								nonce3 = append([]byte{}, rec3[len(hdr)-a.NonceSize():len(hdr)]...)
							}
							var e3 error
							p, msg, _, _ = hk.Try(func() { _, e3 = a.Open(rec3[:len(hdr)], nonce3, rec3[len(hdr):], rec3[:len(hdr)]) })
							if p || e3 == nil {
								d["panic"] = msg
								r.Violation("forged-record-not-refused:"+pn, d)
							} else if !bytes.Equal(rec3[:len(hdr)], hdr) {
								d["header_after_failed_open"] = hk.Hex(rec3[:len(hdr)])
								r.Violation("failed-open-modifies-additional-data-that-is-the-dst-prefix:"+pn, d)
							}
							rec4 := append(append(rec3[:0:0], rec3[:len(hdr)]...), wantS...)
							p, msg, _, _ = hk.Try(func() { pt, oerr = a.Open(nil, nonce3, rec4[len(hdr):], rec4[:len(hdr)]) })
							if (p || oerr != nil || !bytes.Equal(pt, c.pt)) && bytes.Equal(rec3[:len(hdr)], hdr) {
								r.Violation("genuine-record-does-not-open-after-a-forged-one:"+pn, d)
							}
						}
					}
					r.Eval(fmt.Sprintf("%s|record-idiom(aad=dst-prefix)|pt[%s]", pn, zvKernelClass(len(c.pt))))
				}
				// ---------------- ADJACENT but not overlapping arguments in one backing array: an input starts exactly at the
				// byte where the output region ends (or ends exactly where it starts). Legal for every AEAD; an
				// overlap test that is off by one refuses it.
				{
					n, tg := len(c.pt), c.tag
					for variant := 0; variant < 4; variant++ {
						var out []byte
						var buf []byte
						var wantAfter []byte
						d := c.detail()
						p, msg, _, _ := hk.Try(func() {
							switch variant {
							case 0: // [room n+tag][plaintext]
								buf = make([]byte, n+tg+n)
								copy(buf[n+tg:], c.pt)
								out = a.Seal(buf[:0:n+tg], gNonce.B, buf[n+tg:], gAad.B)
								d["layout"] = "[output room][plaintext]"
							case 1: // [plaintext][room n+tag]
								buf = make([]byte, n+n+tg)
								copy(buf, c.pt)
								out = a.Seal(buf[n:n:n+n+tg], gNonce.B, buf[:n], gAad.B)
								d["layout"] = "[plaintext][output room]"
							case 2: // [room n+tag][aad]
								buf = make([]byte, n+tg+len(c.aad))
								copy(buf[n+tg:], c.aad)
								out = a.Seal(buf[:0:n+tg], gNonce.B, gPt.B, buf[n+tg:])
								d["layout"] = "[output room][aad]"
							default: // [nonce][room n+tag]
								buf = make([]byte, len(c.nonce)+n+tg)
								copy(buf, c.nonce)
								out = a.Seal(buf[len(c.nonce):len(c.nonce):len(buf)], buf[:len(c.nonce)], gPt.B, gAad.B)
								d["layout"] = "[nonce][output room]"
							}
						})
						_ = wantAfter
						if p {
							d["panic"] = msg
							r.Violation("seal-panics-on-adjacent-arguments:"+pn, d)
						} else if !bytes.Equal(out, sealed) {
							r.Violation("seal-wrong-on-adjacent-arguments:"+pn, d)
						}
						// Open: [room n][ciphertext] and [ciphertext][room n]
						var pt []byte
						var oerr error
						p, msg, _, _ = hk.Try(func() {
							if variant%2 == 0 {
								b2 := make([]byte, n+len(sealed))
								copy(b2[n:], sealed)
								pt, oerr = a.Open(b2[:0:n], gNonce.B, b2[n:], gAad.B)
							} else {
								b2 := make([]byte, len(sealed)+n)
								copy(b2, sealed)
								pt, oerr = a.Open(b2[len(sealed):len(sealed):len(b2)], gNonce.B, b2[:len(sealed)], gAad.B)
							}
						})
						if p {
							d["panic"] = msg
							r.Violation("open-panics-on-adjacent-arguments:"+pn, d)
						} else if oerr != nil || !bytes.Equal(pt, c.pt) {
							r.Violation("open-wrong-on-adjacent-arguments:"+pn, d)
						}
					}
					r.Eval(fmt.Sprintf("%s|adjacent-arguments|pt[%s]", pn, zvKernelClass(len(c.pt))))
				}
				// ---------------- Block: inputs intact, repeatable
				{
					blk, _ := NewCipher(gKey.B)
					src := protect(rng.Bytes(16))
					want := ref.SM4Encrypt(c.key, src.B)
					for rep := 0; rep < 2; rep++ {
						out := make([]byte, 16)
						p, msg, isFault, _ := hk.Try(func() { blk.Encrypt(out, src.B) })
						if p {
							r.Violation(fmt.Sprintf("encrypt-faults-on-readonly-source:%s", pn), hk.D{"panic": msg, "fault": isFault})
						} else if !bytes.Equal(out, want) {
							r.Violation(fmt.Sprintf("encrypt-not-repeatable:%s", pn), hk.D{"repeat": rep})
						}
						back := make([]byte, 16)
						wp := protect(want)
						p, msg, isFault, _ = hk.Try(func() { blk.Decrypt(back, wp.B) })
						if p {
							r.Violation(fmt.Sprintf("decrypt-faults-on-readonly-source:%s", pn), hk.D{"panic": msg, "fault": isFault})
						} else if !bytes.Equal(back, src.B) {
							r.Violation(fmt.Sprintf("decrypt-not-repeatable:%s", pn), hk.D{"repeat": rep})
						}
						pool.Put(wp)
					}
					pool.Put(src)
					inputsIntact("block", "block")
					r.Eval(pn + "|block-readonly-inputs")
				}
				for _, gb := range []*hk.GBuf{gKey, gNonce, gAad, gPt, gCt} {
					pool.Put(gb)
				}
			}
		})
	}
}

func zvWhichBuf(addr uintptr, m map[string]*hk.GBuf) string {
	for name, g := range m {
		if in, _ := g.InRegion(addr); in {
			return name
		}
	}
	return "elsewhere"
}

func zvMin(a, b int) int {
	if a < b {
		return a
	}
	return b
}
