//go:build verif

package sm4

import (
	"bytes"
	"crypto/cipher"
	"fmt"
	"testing"

	"github.com/bilibili/smgo/zzverif/hk"
	"github.com/bilibili/smgo/zzverif/ref"
)

// C07 — Open releases plaintext only for an authentic message. Expected
// verdicts come from the reference GCM.

type zvOpenProbe struct {
	nonce, ct, aad []byte
	label          string
}

func TestVerifC07(t *testing.T) {
	r := hk.NewReporter("C07", "gcm-open")
	defer r.Close()
	if err := ref.SelfTestGCM(); err != nil {
		r.Inconclusive("oracle self-test: " + err.Error())
		return
	}
	rng := hk.NewRNG(hk.Seed(), "c07")
	// FIRST, before anything else shares the heap with the calls under observation: Open into destinations of exactly the
	// plaintext's size that end at an inaccessible page, authentic and forged, for every tag size. An Open that writes
	// more than the plaintext (whole blocks, the tag region) faults here instead of corrupting some heap object of the
	// monitor; and a forged message must leave no plaintext behind in such a destination either.
	for _, asm := range zvPaths() {
		bad := false
		zvWithAsm(asm, func() {
			pn := zvPathName(asm)
			key := rng.Bytes(16)
			g := ref.NewGCM(key)
			for tag := 12; tag <= 16; tag++ {
				a, err := zvNewAEAD(key, 12, tag)
				if err != nil {
					continue
				}
				for _, pl := range []int{0, 1, 4, 15, 16, 20, 33, 100} {
					nonce, pt, aad := rng.Bytes(12), rng.Bytes(pl), rng.Bytes(pl%7)
					ct := g.Seal(nonce, pt, aad, tag)
					for _, forged := range []bool{false, true} {
						in := append([]byte{}, ct...)
						if forged {
							in[rng.Intn(len(in))] ^= 1 << uint(rng.Intn(8))
						}
						gb := hk.NewGuarded(pl, hk.PlaceEnd)
						var out []byte
						var oerr error
						p, pm, isFault, _ := hk.Try(func() { out, oerr = a.Open(gb.B[:0], nonce, in, aad) })
						d := hk.D{"key": hk.Hex(key), "nonce": hk.Hex(nonce), "ct": hk.Hex(in), "aad": hk.Hex(aad), "tag_size": tag, "forged": forged, "panic": pm, "write_fault_behind_dst": isFault, "err": fmt.Sprint(oerr)}
						switch {
						case p:
							r.Violation(fmt.Sprintf("open-panics:%s:dst-of-exact-capacity-before-an-inaccessible-page", pn), d)
							bad = bad || isFault
						case !forged && (oerr != nil || !bytes.Equal(out, pt)):
							r.Violation(fmt.Sprintf("open-rejects-or-garbles-authentic-message:%s:dst-of-exact-capacity", pn), d)
						case forged && (oerr == nil || out != nil):
							r.Violation(fmt.Sprintf("open-accepts-forgery:%s:dst-of-exact-capacity", pn), d)
						}
						gb.Free()
						r.Eval(fmt.Sprintf("%s|exact-capacity-guarded-dst|tag=%d,forged=%v", pn, tag, forged))
					}
				}
			}
		})
		if bad {
			return // the path writes outside its destination: the heap of this process is not to be trusted any further
		}
	}
	all := zvGcmCases(rng, 1)
	all = append(all, zvWrapCases(rng, 20)...)
	// messages that get the full mutation treatment
	var full []*zvGcmCase
	mk := func(nl, al, pl, tag int) *zvGcmCase {
		return &zvGcmCase{key: rng.Bytes(16), nonce: rng.Bytes(nl), aad: rng.Bytes(al), pt: rng.Bytes(pl), tag: tag, label: "full-mutation"}
	}
	full = append(full, mk(12, 0, 0, 16), mk(12, 20, 1, 16), mk(12, 5, 15, 12), mk(12, 16, 16, 13), mk(12, 33, 17, 14), mk(12, 1, 64, 15),
		mk(12, 128, 100, 16), mk(13, 17, 33, 16), mk(1, 3, 48, 16), mk(16, 0, 31, 16), mk(129, 200, 130, 16), mk(12, 257, 300, 12))
	if hk.Thorough() {
		full = append(full, mk(12, 64, 1100, 16), mk(300, 1100, 513, 16), mk(12, 0, 255, 12), mk(200, 15, 256, 16))
		for i := 0; i < 40; i++ {
			full = append(full, mk([]int{12, 12, 1 + rng.Intn(300)}[rng.Intn(3)], rng.Intn(300), rng.Intn(700), 16))
		}
	}
	r.Note("messages", len(all))
	r.Note("fully_mutated_messages", len(full))
	r.Sample(hk.D{"message": full[2].detail()["lens"], "mutations": "every single-bit flip of ciphertext, tag, nonce and aad; every truncation; 1..32-byte extensions; swapped nonce/aad"})

	// thorough tier: a 4 GiB message (2^32 bytes of plaintext, 2^28 blocks; SP 800-38D allows 2^36-32 bytes)
	// sealed in place and opened in place on the accelerated path: Open must return every output of Seal.
	// Oracle: the round trip, plus ciphertext blocks at chosen positions against E_K(J0 + i + 1) by the model.
	if hk.Thorough() && zvAsmDetected {
		zvWithAsm(true, func() {
			const n = 1 << 32
			big := hk.ZeroMap(n+4096, true)
			if big == nil {
				r.Inconclusive("c07: cannot map 4 GiB for the giant message")
				return
			}
			defer hk.Unmap(big)
			key, nonce, aad := rng.Bytes(16), rng.Bytes(12), rng.Bytes(20)
			a, _ := zvNewAEAD(key, 12, 16)
			var ct, back []byte
			var oerr error
			p, msg, _, _ := hk.Try(func() { ct = a.Seal(big[:0:n+16], nonce, big[:n], aad) })
			d := hk.D{"key": hk.Hex(key), "nonce": hk.Hex(nonce), "plaintext": "2^32 zero bytes, sealed in place"}
			if p || len(ct) != n+16 {
				d["panic"] = msg
				r.Violation("seal-fails-on-4GiB-message", d)
				return
			}
			g := ref.NewGCM(key)
			j0 := g.J0(nonce)
			for _, blk := range []uint64{0, 1, 255, 1 << 20, 1<<28 - 1} {
				ctr := j0
				v := uint32(ctr[12])<<24 | uint32(ctr[13])<<16 | uint32(ctr[14])<<8 | uint32(ctr[15])
				v += uint32(blk) + 1
				ctr[12], ctr[13], ctr[14], ctr[15] = byte(v>>24), byte(v>>16), byte(v>>8), byte(v)
				ks := ref.SM4Encrypt(key, ctr[:])
				if !bytes.Equal(ct[16*blk:16*blk+16], ks) {
					d["block"] = blk
					r.Violation("seal-4GiB-keystream-block-wrong", d)
				}
			}
			p, msg, _, _ = hk.Try(func() { back, oerr = a.Open(ct[:0], nonce, ct, aad) })
			switch {
			case p:
				d["panic"] = msg
				r.Violation("open-panics-on-4GiB-output-of-seal", d)
			case oerr != nil:
				d["err"] = oerr.Error()
				r.Violation("open-rejects-4GiB-output-of-seal", d)
			case len(back) != n:
				r.Violation("open-4GiB-wrong-length", d)
			default:
				for off := 0; off < n; off += 1 << 26 {
					for _, c := range back[off : off+4096] {
						if c != 0 {
							r.Violation("open-4GiB-plaintext-wrong", d)
							off = n
							break
						}
					}
				}
				if back[n-1] != 0 || back[n-17] != 0 {
					r.Violation("open-4GiB-plaintext-wrong", d)
				}
			}
			// and one flipped bit in the middle must be rejected
			if oerr == nil && !p {
				p2, _, _, _ := hk.Try(func() { ct = a.Seal(big[:0:n+16], nonce, big[:n], aad) })
				if !p2 {
					ct[n/2] ^= 4
					_, e2 := a.Open(ct[:0], nonce, ct, aad)
					if e2 == nil {
						r.Violation("open-accepts-modified-4GiB-message", d)
					}
				}
			}
			r.Eval("giant:4GiB-roundtrip")
		})
	}
	// forgery by length wrap: a message sealed under aad' must not open under 0^(2^29) || aad' (nor the
	// other way round); leading zero blocks change nothing but the length block
	{
		const zeros = 1 << 29
		key, nonce, tail, pt := rng.Bytes(16), rng.Bytes(12), rng.Bytes(19), rng.Bytes(40)
		huge := make([]byte, zeros+len(tail))
		copy(huge[zeros:], tail)
		g := ref.NewGCM(key)
		short := g.Seal(nonce, pt, tail, 16)
		long := g.SealZeroPrefixedAAD(nonce, pt, zeros, tail, 16)
		for _, asm := range zvPaths() {
			asm := asm
			if !asm && !hk.Thorough() {
				continue
			}
			zvWithAsm(asm, func() {
				a, err := zvNewAEAD(key, 12, 16)
				if err != nil {
					return
				}
				if out, err := a.Open(nil, nonce, short, huge); err == nil {
					r.Violation("forgery-accepted:"+zvPathName(asm)+":zero-prefixed-aad", hk.D{"key": hk.Hex(key), "released": hk.Hex(out)})
				}
				if _, err := a.Open(nil, nonce, long, tail); err == nil {
					r.Violation("forgery-accepted:"+zvPathName(asm)+":zero-prefix-removed", hk.D{"key": hk.Hex(key)})
				}
				if out, err := a.Open(nil, nonce, long, huge); err != nil || !bytes.Equal(out, pt) {
					r.Violation("authentic-message-rejected:"+zvPathName(asm)+":aad>=2^29-bytes", hk.D{"key": hk.Hex(key)})
				}
				r.EvalN(zvPathName(asm)+"|aad>=2^29-bytes", 3)
			})
		}
	}
	for _, asm := range zvPaths() {
		asm := asm
		zvWithAsm(asm, func() {
			pn := zvPathName(asm)
			open := func(a cipher.AEAD, c *zvGcmCase, pr zvOpenProbe, wantPT []byte, wantOK bool) {
				var pt []byte
				var err error
				p, msg, _, _ := hk.Try(func() { pt, err = a.Open(nil, pr.nonce, pr.ct, pr.aad) })
				d := func() hk.D {
					dd := c.detail()
					dd["probe"], dd["probe_nonce"], dd["probe_ct"], dd["probe_aad"] = pr.label, hk.Hex(pr.nonce), hk.Hex(pr.ct), hk.Hex(pr.aad)
					dd["returned"], dd["err"] = hk.Hex(pt), fmt.Sprint(err)
					return dd
				}
				switch {
				case p:
					dd := d()
					dd["panic"] = msg
					r.Violation(fmt.Sprintf("open-panics:%s:%s", pn, pr.label), dd)
				case wantOK && err != nil:
					r.Violation(fmt.Sprintf("authentic-message-rejected:%s:%s", pn, pr.label), d())
				case wantOK && !bytes.Equal(pt, wantPT):
					r.Violation(fmt.Sprintf("authentic-message-decrypted-wrongly:%s:%s", pn, pr.label), d())
				case !wantOK && err == nil:
					r.Violation(fmt.Sprintf("forgery-accepted:%s:%s", pn, pr.label), d())
				case !wantOK && len(pt) != 0:
					r.Violation(fmt.Sprintf("plaintext-returned-with-error:%s:%s", pn, pr.label), d())
				}
			}

			// (1) every message of the C06 list: authentic open + a handful of forgeries
			hk.Parallel(len(all), func(i int) {
				if !hk.InShard(i) {
					return
				}
				c := all[i]
				lr := hk.NewRNG(hk.Seed(), fmt.Sprintf("c07/%d", i))
				g := ref.NewGCM(c.key)
				sealed := g.Seal(c.nonce, c.pt, c.aad, c.tag)
				a, err := zvNewAEAD(c.key, len(c.nonce), c.tag)
				if err == zvErrComboUnreachable {
					r.Class("trivial:nonce-x-tag-not-offered-on-this-path")
					return
				}
				if err != nil {
					r.Violation("cannot-construct-aead:"+pn, hk.D{"err": err.Error()})
					return
				}
				open(a, c, zvOpenProbe{c.nonce, sealed, c.aad, "authentic"}, c.pt, true)
				n := 1
				// the authentic message opened IN PLACE (dst = ciphertext[:0], the idiom the interface documents)
				if i%2 == 1 {
					buf := append([]byte{}, sealed...)
					var got []byte
					var oerr error
					p, msg, _, _ := hk.Try(func() { got, oerr = a.Open(buf[:0], c.nonce, buf, c.aad) })
					if p || oerr != nil || !bytes.Equal(got, c.pt) {
						dd := c.detail()
						dd["panic"], dd["err"], dd["returned"] = msg, fmt.Sprint(oerr), zvClip(got)
						r.Violation(fmt.Sprintf("authentic-message-rejected:%s:opened-in-place", pn), dd)
					}
					n++
				}
				// the additional data ARE the bytes dst already holds, and dst has no spare capacity (a record header used as
				// both): the header is read while the result moves to a new array; it must be read intact and stay intact
				if i%4 == 0 && len(c.aad) > 0 {
					hdr := append(make([]byte, 0, len(c.aad)), c.aad...)
					hdr = hdr[:len(hdr):len(hdr)]
					var got []byte
					var oerr error
					p, msg, _, _ := hk.Try(func() { got, oerr = a.Open(hdr, c.nonce, sealed, hdr) })
					if p || oerr != nil || !bytes.Equal(got, append(append([]byte{}, c.aad...), c.pt...)) || !bytes.Equal(hdr, c.aad) {
						dd := c.detail()
						dd["panic"], dd["err"], dd["header_after"] = msg, fmt.Sprint(oerr), hk.Hex(hdr)
						r.Violation(fmt.Sprintf("authentic-message-rejected:%s:dst-prefix-without-room-is-the-additional-data", pn), dd)
					}
					n++
				}
				// the authentic message opened INTO a caller's buffer: a prefix that must survive, room that is exactly
				// enough / ample / missing; the plaintext comes back behind the prefix
				if i%2 == 0 {
					pre := []int{1, 5, 16, 33}[(i/8)%4]
					room := []int{len(c.pt), len(c.pt) + 41, len(c.pt) / 2, 0}[(i/2)%4]
					dst := make([]byte, pre, pre+room)
					for k := range dst {
						dst[k] = byte(0xC0 + k)
					}
					keep := append([]byte{}, dst...)
					var got []byte
					var oerr error
					p, msg, _, _ := hk.Try(func() { got, oerr = a.Open(dst, c.nonce, sealed, c.aad) })
					if p || oerr != nil || len(got) != pre+len(c.pt) || !bytes.Equal(got[:pre], keep) || !bytes.Equal(got[pre:], c.pt) {
						dd := c.detail()
						dd["panic"], dd["err"], dd["dst_len"], dd["dst_cap"], dd["returned"] = msg, fmt.Sprint(oerr), pre, pre+room, zvClip(got)
						r.Violation(fmt.Sprintf("authentic-message-not-returned-behind-dst-prefix:%s", pn), dd)
					}
					n++
				}
				probes := []zvOpenProbe{}
				if len(sealed) > 0 {
					probes = append(probes, zvOpenProbe{c.nonce, zvFlipBit(sealed, lr.Intn(len(sealed)*8)), c.aad, "flip-anywhere"})
					probes = append(probes, zvOpenProbe{c.nonce, zvFlipBit(sealed, (len(sealed)-1)*8+lr.Intn(8)), c.aad, "flip-last-tag-byte"})
					probes = append(probes, zvOpenProbe{c.nonce, zvFlipBit(sealed, (len(sealed)-c.tag)*8+lr.Intn(8)), c.aad, "flip-first-tag-byte"})
					probes = append(probes, zvOpenProbe{c.nonce, sealed[:len(sealed)-1], c.aad, "drop-last-byte"})
				}
				if len(c.pt) > 0 {
					probes = append(probes, zvOpenProbe{c.nonce, zvFlipBit(sealed, lr.Intn(len(c.pt)*8)), c.aad, "flip-ciphertext"})
					probes = append(probes, zvOpenProbe{c.nonce, sealed[1:], c.aad, "drop-first-byte"})
				}
				if len(c.aad) > 0 {
					probes = append(probes, zvOpenProbe{c.nonce, sealed, zvFlipBit(c.aad, lr.Intn(len(c.aad)*8)), "flip-aad"})
					probes = append(probes, zvOpenProbe{c.nonce, sealed, c.aad[:len(c.aad)-1], "truncate-aad"})
				}
				probes = append(probes, zvOpenProbe{zvFlipBit(c.nonce, lr.Intn(len(c.nonce)*8)), sealed, c.aad, "flip-nonce"})
				probes = append(probes, zvOpenProbe{c.nonce, append(append([]byte{}, sealed...), 0), c.aad, "append-zero"})
				probes = append(probes, zvOpenProbe{c.nonce, sealed, append(append([]byte{}, c.aad...), 0), "extend-aad"})
				for _, pr := range probes {
					wpt, wok := g.Open(pr.nonce, pr.ct, pr.aad, c.tag)
					open(a, c, pr, wpt, wok)
					n++
				}
				// a rejected message must not leave its decryption in a caller-supplied dst (buffer reuse
				// and in-place idioms); judged only when >= 4 plaintext bytes would be recognisable
				if len(c.pt) >= 4 && len(sealed) > 0 {
					for _, kind := range []string{"tag-bit", "ciphertext-bit", "aad"} {
						bad := append([]byte{}, sealed...)
						aadP := c.aad
						switch kind {
						case "tag-bit":
							bad = zvFlipBit(sealed, (len(sealed)-1)*8+lr.Intn(8))
						case "ciphertext-bit":
							bad = zvFlipBit(sealed, lr.Intn(len(c.pt)*8))
						default:
							aadP = append(append([]byte{}, c.aad...), 7)
						}
						wouldBe := make([]byte, len(c.pt))
						{
							// CTR decryption of the forged ciphertext by the model (what a decrypt-before-verify would produce)
							j0 := g.J0(c.nonce)
							copy(wouldBe, zvRefCTR(g, j0, bad[:len(c.pt)]))
						}
						for _, inplace := range []bool{false, true} {
							var buf, in []byte
							if inplace {
								in = append([]byte{}, bad...)
								buf = in[:0]
							} else {
								in = bad
								back := make([]byte, len(c.pt)+16)
								for i := range back {
									back[i] = 0xA7
								}
								buf = back[:0]
							}
							var pt []byte
							var oerr error
							p, msg, _, _ := hk.Try(func() { pt, oerr = a.Open(buf, c.nonce, in, aadP) })
							full := buf[:len(c.pt)]
							if p {
								dd := c.detail()
								dd["panic"] = msg
								r.Violation(fmt.Sprintf("open-panics:%s:forged-with-dst", pn), dd)
							} else if oerr == nil {
								r.Violation(fmt.Sprintf("forgery-accepted:%s:%s-with-dst", pn, kind), c.detail())
							} else if len(pt) != 0 {
								r.Violation(fmt.Sprintf("plaintext-returned-with-error:%s:%s-with-dst", pn, kind), c.detail())
							} else if bytes.Equal(full, wouldBe) && !bytes.Equal(wouldBe, make([]byte, len(wouldBe))) && !bytes.Equal(wouldBe, bytes.Repeat([]byte{0xA7}, len(wouldBe))) && !bytes.Equal(wouldBe, bad[:len(wouldBe)]) {
								// (an all-zero, untouched-pattern or ciphertext-equal "plaintext" would be indistinguishable from a
								// harmlessly cleared / untouched buffer and is not judged)
								dd := c.detail()
								dd["dst_after_failed_open"], dd["inplace"], dd["forgery"] = hk.Hex(full), inplace, kind
								r.Violation(fmt.Sprintf("plaintext-released-into-dst-on-authentication-failure:%s:inplace=%v", pn, inplace), dd)
							}
							n++
						}
					}
				}
				// the same buffers opened again after all of the above: still authentic
				open(a, c, zvOpenProbe{c.nonce, sealed, c.aad, "authentic-reopened"}, c.pt, true)
				r.EvalN(pn+"|"+c.class(), n+1)
			})

			// (1a) AEADs of different tag and nonce sizes derived from ONE Block, used, dropped and used again in all orders:
			// each opens exactly the messages of its own parameters
			zvLifetimeHistories(r, rng, pn, hk.N(4, 24), false, false, true)
			{
				key := rng.Bytes(16)
				blk, _ := NewCipher(key)
				g := ref.NewGCM(key)
				if blk != nil {
					for round := 0; round < hk.N(6, 40); round++ {
						tags := rng.Perm(5)
						for _, ti := range tags {
							tag := 12 + ti
							a, err := cipher.NewGCMWithTagSize(blk, tag)
							if err != nil {
								r.Violation("cannot-construct-aead:"+pn, hk.D{"tag": tag, "err": err.Error()})
								continue
							}
							nonce, aad, pt := rng.Bytes(12), rng.Bytes(rng.Intn(30)), rng.Bytes(rng.Intn(80))
							sealed := g.Seal(nonce, pt, aad, tag)
							got, oerr := a.Open(nil, nonce, sealed, aad)
							if a.Overhead() != tag || oerr != nil || !bytes.Equal(got, pt) {
								r.Violation("authentic-message-rejected:sibling-aeads-of-one-block:"+pn, hk.D{"key": hk.Hex(key), "tag": tag, "overhead_reported": a.Overhead(), "err": fmt.Sprint(oerr), "order_of_tag_sizes": fmt.Sprint(tags)})
							}
							// a message sealed for ANOTHER tag size (truncated / longer tag) must not open
							other := 12 + (ti+1)%5
							if _, e2 := a.Open(nil, nonce, g.Seal(nonce, pt, aad, other), aad); e2 == nil {
								r.Violation("forgery-accepted:message-of-another-tag-size:"+pn, hk.D{"key": hk.Hex(key), "aead_tag": tag, "message_tag": other})
							}
						}
						r.Eval("sibling-aeads:" + pn)
					}
				}
			}

			// (1a') a LONG history on one AEAD: 2^16 + 10 rejected forgeries (and as many seals), then the authentic message -
			// whatever the object counts, it must not run out
			{
				key := rng.Bytes(16)
				g := ref.NewGCM(key)
				a, err := zvNewAEAD(key, 12, 16)
				if err == nil {
					nonce, aad, pt := rng.Bytes(12), rng.Bytes(5), rng.Bytes(20)
					sealed := g.Seal(nonce, pt, aad, 16)
					bad := zvFlipBit(sealed, 3)
					accepted := 0
					nForged := 1<<16 + 10
					if hk.Thorough() {
						nForged = 1<<20 + 10
					}
					for q := 0; q < nForged; q++ {
						bad[q%len(bad)] ^= byte(1 + q%255)
						if _, e := a.Open(nil, nonce, bad, aad); e == nil && !bytes.Equal(bad, sealed) {
							accepted++
						}
						if q%4 == 0 {
							a.Seal(nil, nonce, pt[:q%len(pt)], aad)
						}
					}
					got, oerr := a.Open(nil, nonce, sealed, aad)
					if accepted != 0 || oerr != nil || !bytes.Equal(got, pt) || !bytes.Equal(a.Seal(nil, nonce, pt, aad), sealed) {
						r.Violation("authentic-message-rejected:after-a-long-history-of-forgeries-on-one-aead:"+pn, hk.D{"key": hk.Hex(key), "forgeries_before": nForged, "forgeries_accepted": accepted, "err": fmt.Sprint(oerr)})
					}
					r.EvalN("long-history-on-one-aead:"+pn, nForged)
				}
			}

			// (1b) ONE AEAD object serving many goroutines that open (authentic and forged messages mixed): every
			// authentic message must come back, every forgery must be refused - an AEAD is not a one-caller object
			{
				key := rng.Bytes(16)
				g := ref.NewGCM(key)
				a, err := zvNewAEAD(key, 12, 16)
				if err == nil {
					type msgT struct{ nonce, aad, pt, sealed, bad []byte }
					var msgs []msgT
					for _, l := range []int{0, 1, 16, 31, 64, 200, 300, 1000} {
						m := msgT{nonce: rng.Bytes(12), aad: rng.Bytes(rng.Intn(40)), pt: rng.Bytes(l)}
						m.sealed = g.Seal(m.nonce, m.pt, m.aad, 16)
						m.bad = zvFlipBit(m.sealed, rng.Intn(len(m.sealed)*8))
						msgs = append(msgs, m)
					}
					nOps := hk.N(6000, 60000)
					hk.Parallel(nOps, func(i int) {
						m := msgs[i%len(msgs)]
						if i%3 == 2 {
							pt, oerr := a.Open(nil, m.nonce, m.bad, m.aad)
							if oerr == nil || len(pt) != 0 {
								r.Violation("forgery-accepted-by-shared-aead:"+pn, hk.D{"key": hk.Hex(key), "len": len(m.pt)})
							}
							return
						}
						pt, oerr := a.Open(nil, m.nonce, m.sealed, m.aad)
						if oerr != nil || !bytes.Equal(pt, m.pt) {
							r.Violation("authentic-message-rejected-by-shared-aead:"+pn, hk.D{"key": hk.Hex(key), "len": len(m.pt), "err": fmt.Sprint(oerr)})
						}
					})
					r.EvalN("shared-aead-concurrent-opens:"+pn, nOps)
				}
			}

			// (2) full mutation sets
			for mi, c := range full {
				if !hk.InShard(mi) {
					continue
				}
				g := ref.NewGCM(c.key)
				sealed := g.Seal(c.nonce, c.pt, c.aad, c.tag)
				a, err := zvNewAEAD(c.key, len(c.nonce), c.tag)
				if err == zvErrComboUnreachable {
					r.Class("trivial:nonce-x-tag-not-offered-on-this-path")
					continue
				}
				if err != nil {
					r.Violation("cannot-construct-aead:"+pn, hk.D{"err": err.Error()})
					continue
				}
				var probes []zvOpenProbe
				for b := 0; b < len(sealed)*8; b++ {
					lab := "bitflip-ciphertext"
					if b >= len(c.pt)*8 {
						lab = "bitflip-tag"
					}
					probes = append(probes, zvOpenProbe{c.nonce, zvFlipBit(sealed, b), c.aad, lab})
				}
				for b := 0; b < len(c.nonce)*8; b++ {
					probes = append(probes, zvOpenProbe{zvFlipBit(c.nonce, b), sealed, c.aad, "bitflip-nonce"})
				}
				for b := 0; b < len(c.aad)*8; b++ {
					probes = append(probes, zvOpenProbe{c.nonce, sealed, zvFlipBit(c.aad, b), "bitflip-aad"})
				}
				for l := 0; l < len(sealed); l++ {
					lab := "truncated"
					if l < c.tag {
						lab = "shorter-than-tag"
					}
					probes = append(probes, zvOpenProbe{c.nonce, sealed[:l], c.aad, lab})
					if l > 0 && l%7 == 0 {
						probes = append(probes, zvOpenProbe{c.nonce, sealed[l:], c.aad, "front-truncated"})
					}
				}
				for e := 1; e <= 32; e++ {
					probes = append(probes, zvOpenProbe{c.nonce, append(append([]byte{}, sealed...), rng.Bytes(e)...), c.aad, "extended"})
					probes = append(probes, zvOpenProbe{c.nonce, append(rng.Bytes(e), sealed...), c.aad, "front-extended"})
				}
				// tag truncated / extended relative to what the AEAD expects
				for dl := 1; dl <= 4 && dl <= len(sealed); dl++ {
					probes = append(probes, zvOpenProbe{c.nonce, sealed[:len(sealed)-dl], c.aad, "tag-truncated"})
				}
				if len(c.nonce) == len(c.aad) {
					probes = append(probes, zvOpenProbe{c.aad, sealed, c.nonce, "swapped-nonce-aad"})
				}
				probes = append(probes, zvOpenProbe{c.nonce, sealed, nil, "aad-dropped"}, zvOpenProbe{c.nonce, sealed, sealed, "aad=ciphertext"})
				// every byte string shorter than the tag, of a few contents
				for l := 0; l < c.tag; l++ {
					probes = append(probes, zvOpenProbe{c.nonce, make([]byte, l), c.aad, "shorter-than-tag"}, zvOpenProbe{c.nonce, rng.Bytes(l), c.aad, "shorter-than-tag"})
				}
				counts := map[string]int{}
				var mu = make(chan struct{}, 1)
				mu <- struct{}{}
				hk.Parallel(len(probes), func(i int) {
					pr := probes[i]
					wpt, wok := g.Open(pr.nonce, pr.ct, pr.aad, c.tag)
					if len(c.aad) == 0 && pr.label == "aad-dropped" {
						// identical to the authentic message
						wpt, wok = c.pt, true
					}
					open(a, c, pr, wpt, wok)
					<-mu
					counts[pr.label]++
					mu <- struct{}{}
				})
				for lab, n := range counts {
					r.EvalN(fmt.Sprintf("%s|mutation:%s|%s", pn, lab, c.class()), n)
				}
			}
		})
	}
}

func zvFlipBit(b []byte, bit int) []byte {
	o := append([]byte{}, b...)
	o[bit/8] ^= 1 << uint(bit%8)
	return o
}

// refCTR is the model's CTR keystream application starting at inc32(J0).
func zvRefCTR(g *ref.GCM, j0 [16]byte, in []byte) []byte {
	return g.CTR(j0, in)
}
