//go:build verif

package sm4

import (
	"crypto/cipher"
	"encoding/json"
	"fmt"
	"os"
	"reflect"
	"runtime"
	"runtime/debug"
	"testing"
	"unsafe"

	"github.com/bilibili/smgo/zzverif/hk"
)

// C09 — whole PUBLIC operations single-stepped (tools/engine_paths.py, second tracer run).
//
// The assembly-level traces judge the routines in isolation; the path monitor judges which routines
// serve a public call. This workload closes what lies between: the Go code of the package that sits
// around the routines (NewCipher, the Block methods, NewGCM, Seal, Open). One public call runs inside
// vtStepRun, which the tracer single-steps from entry to return; offline, only the program counters that
// lie in functions of the sm4 package proper (source files of the repository, not this harness, not the
// runtime) are kept, and for one SHAPE (operation, all lengths, all capacities) the kept sequences must
// be identical for every assignment of CONTENTS:
//
//	v0 random A, v1 random B, v2 all zero, v3 all 0xFF, v4 A again on the same objects,
//	v5 A again on objects freshly built from the same key, v6 B with A's key, v7 A with B's key
//
// "A again" is what makes a memo keyed by key, nonce or message bytes visible (hit against miss), the
// other assignments sample value-dependent decisions. Open is compared within its verdict class.
// Before the traced assignments of a shape one untraced warm-up call (other contents) grows the stack and
// warms the allocator so that neither shows up in prologues of the package's functions.

var vtStepFn func()

//go:noinline
func vtStepRun() { vtStepFn() }

type stepPlan struct {
	ID      uint64      `json:"id"`
	Group   string      `json:"group"`
	Variant string      `json:"variant"`
	Class   string      `json:"class"`
	Secret  [][2]uint64 `json:"secret_ranges,omitempty"` // (address, length) of key, round keys, nonce, aad, message, ciphertext
	End     bool        `json:"end,omitempty"`
}

// stepPending: the byte ranges the NEXT traced operation works on (declared by whoever builds the call); the
// offline taint interpreter marks them secret (tools/vtcheck -mode steps).
var stepPending [][]byte

func stepDeclare(bs ...[]byte) {
	for _, b := range bs {
		if len(b) > 0 {
			stepPending = append(stepPending, b)
		}
	}
}

// stepRoundKeys finds the round keys inside a cipher / AEAD object by reflection (fields of uint32 arrays or slices):
// a renamed field just means fewer declared sources, never a build failure.
func stepRoundKeys(obj interface{}) [][]byte {
	var out [][]byte
	var walk func(v reflect.Value, depth int)
	walk = func(v reflect.Value, depth int) {
		if depth > 4 {
			return
		}
		switch v.Kind() {
		case reflect.Ptr, reflect.Interface:
			if !v.IsNil() {
				walk(v.Elem(), depth+1)
			}
		case reflect.Struct:
			for i := 0; i < v.NumField(); i++ {
				walk(v.Field(i), depth+1)
			}
		case reflect.Array:
			if v.Type().Elem().Kind() == reflect.Uint32 && v.Len() > 0 && v.CanAddr() {
				out = append(out, unsafe.Slice((*byte)(unsafe.Pointer(v.UnsafeAddr())), 4*v.Len()))
			}
		case reflect.Slice:
			if v.Type().Elem().Kind() == reflect.Uint32 && v.Len() > 0 {
				out = append(out, unsafe.Slice((*byte)(unsafe.Pointer(v.Pointer())), 4*v.Len()))
			}
		}
	}
	walk(reflect.ValueOf(obj), 0)
	return out
}

type stepContents struct {
	key, nonce, pt, aad, block []byte
}

func TestVtracePublicSteps(t *testing.T) {
	planPath := os.Getenv("VERIF_VT_PLAN")
	if planPath == "" {
		t.Skip("only runs under tools/vtrace")
	}
	f, err := os.Create(planPath)
	if err != nil {
		t.Fatal(err)
	}
	defer f.Close()
	var id uint64
	if !zvAsmDetected {
		data, _ := json.Marshal(map[string]interface{}{"id": 0, "group": "not-applicable", "end": true})
		f.Write(append(data, '\n'))
		return
	}
	runtime.LockOSThread()
	debug.SetGCPercent(-1)
	rng := hk.NewRNG(hk.Seed(), "steps")
	traced := func(group, variant, class string, fn func()) {
		id++
		pl := &stepPlan{ID: id, Group: group, Variant: variant, Class: class}
		for _, b := range stepPending {
			pl.Secret = append(pl.Secret, [2]uint64{uint64(uintptr(unsafe.Pointer(&b[0]))), uint64(len(b))})
		}
		stepPending = nil
		data, _ := json.Marshal(pl)
		f.Write(append(data, '\n'))
		vtStepFn = func() {
			defer func() { recover() }()
			fn()
		}
		vtMark(id)
		vtStepRun()
	}
	untraced := func(fn func()) {
		defer func() { recover() }()
		fn()
	}
	fill := func(n int, b byte) []byte {
		o := make([]byte, n)
		for i := range o {
			o[i] = b
		}
		return o
	}
	mkContents := func(nonceLen, ptLen, aadLen int) []stepContents {
		mk := func() stepContents {
			return stepContents{rng.Bytes(16), rng.Bytes(nonceLen), rng.Bytes(ptLen), rng.Bytes(aadLen), rng.Bytes(16)}
		}
		a, b := mk(), mk()
		z := stepContents{fill(16, 0), fill(nonceLen, 0), fill(ptLen, 0), fill(aadLen, 0), fill(16, 0)}
		o := stepContents{fill(16, 0xff), fill(nonceLen, 0xff), fill(ptLen, 0xff), fill(aadLen, 0xff), fill(16, 0xff)}
		ba := stepContents{a.key, b.nonce, b.pt, b.aad, b.block}
		ab := stepContents{b.key, a.nonce, a.pt, a.aad, a.block}
		return []stepContents{a, b, z, o, a, a, ba, ab}
	}
	names := []string{"v0:random-A", "v1:random-B", "v2:zero", "v3:ones", "v4:A-again-same-objects", "v5:A-again-fresh-objects", "v6:B-under-key-A", "v7:A-under-key-B"}

	// ---- NewCipher and the Block methods
	rounds := hk.N(2, 6)
	for round := 0; round < rounds; round++ {
		cs := mkContents(12, 16, 0)
		warm := rng.Bytes(16)
		untraced(func() { NewCipher(warm) })
		blocks := make([]cipher.Block, len(cs))
		for v, c := range cs {
			c, v := c, v
			stepDeclare(c.key)
			traced(fmt.Sprintf("NewCipher#%d", round), names[v], "", func() { blocks[v], _ = NewCipher(c.key) })
		}
		usable := true
		for v := range blocks {
			if blocks[v] == nil {
				usable = false // refused for some contents: the sequences above already differ; nothing to run the block methods on
			}
		}
		if !usable {
			continue
		}
		blocks[4] = blocks[0]
		for _, op := range []string{"Encrypt", "Decrypt"} {
			for _, shape := range []string{"disjoint", "in-place", "long-slices"} {
				op, shape := op, shape
				call := func(blk cipher.Block, c stepContents) func() {
					src := append([]byte{}, c.block...)
					dst := make([]byte, 16)
					switch shape {
					case "in-place":
						dst = src
					case "long-slices":
						src = append(src, c.pt...)
						dst = make([]byte, 40)
					}
					stepDeclare(src)
					stepDeclare(stepRoundKeys(blk)...)
					if op == "Encrypt" {
						return func() { blk.Encrypt(dst, src) }
					}
					return func() { blk.Decrypt(dst, src) }
				}
				untraced(call(blocks[1], cs[0]))
				stepPending = nil
				for v, c := range cs {
					traced(fmt.Sprintf("Block.%s/%s#%d", op, shape, round), names[v], "", call(blocks[v], c))
				}
			}
		}
	}

	// ---- AEAD constructors, Seal, Open
	type ctor struct {
		name     string
		nonceLen int
		mk       func(cipher.Block) (cipher.AEAD, error)
	}
	ctors := []ctor{
		{"NewGCM", 12, func(b cipher.Block) (cipher.AEAD, error) { return cipher.NewGCM(b) }},
		{"NewGCMWithTagSize(13)", 12, func(b cipher.Block) (cipher.AEAD, error) { return cipher.NewGCMWithTagSize(b, 13) }},
		{"NewGCMWithNonceSize(16)", 16, func(b cipher.Block) (cipher.AEAD, error) { return cipher.NewGCMWithNonceSize(b, 16) }},
		{"NewGCMWithNonceSize(1)", 1, func(b cipher.Block) (cipher.AEAD, error) { return cipher.NewGCMWithNonceSize(b, 1) }},
		{"NewGCMWithNonceSize(130)", 130, func(b cipher.Block) (cipher.AEAD, error) { return cipher.NewGCMWithNonceSize(b, 130) }},
	}
	ptLens := []int{0, 1, 16, 33, 100, 272}
	if hk.Thorough() {
		ptLens = []int{0, 1, 15, 16, 17, 33, 64, 100, 129, 272, 520, 1030}
	}
	for ci, c := range ctors {
		for pi, pl := range ptLens {
			if !hk.Thorough() && (pi+ci+int(hk.Seed()))%2 != 0 && pl != 33 && !(pl == 0 && ci == 0) { // (tag-only messages under the default constructor always run)
				continue
			}
			aadLen := []int{0, 13, 16, 70, 200}[(pi+ci)%5]
			cs := mkContents(c.nonceLen, pl, aadLen)
			blocks := make([]cipher.Block, len(cs))
			aeads := make([]cipher.AEAD, len(cs))
			usable := true
			for v := range cs {
				blocks[v], _ = NewCipher(cs[v].key)
				if blocks[v] == nil {
					usable = false
				}
			}
			if !usable {
				continue
			}
			blocks[4] = blocks[0]
			c := c
			wb, _ := NewCipher(rng.Bytes(16))
			untraced(func() { c.mk(wb) })
			for v := range cs {
				v := v
				if v == 4 {
					aeads[4] = aeads[0]
					continue
				}
				stepDeclare(stepRoundKeys(blocks[v])...)
				traced(fmt.Sprintf("cipher.%s/pt=%d", c.name, pl), names[v], "", func() { aeads[v], _ = c.mk(blocks[v]) })
				if aeads[v] == nil {
					usable = false
				}
			}
			if !usable {
				continue
			}
			for _, shape := range []string{"dst=nil", "in-place", "prefix+room"} {
				shape := shape
				if !hk.Thorough() && shape != "dst=nil" && (pi+ci)%3 != 0 {
					continue
				}
				seal := func(a cipher.AEAD, c stepContents, out *[]byte) func() {
					pt := append(make([]byte, 0, len(c.pt)+16), c.pt...)
					dst := []byte(nil)
					switch shape {
					case "in-place":
						dst = pt[:0]
					case "prefix+room":
						dst = make([]byte, 5, 5+len(c.pt)+16)
					}
					stepDeclare(c.nonce, pt, c.aad)
					stepDeclare(stepRoundKeys(a)...)
					return func() { *out = a.Seal(dst, c.nonce, pt, c.aad) }
				}
				var sink []byte
				warmC := mkContents(c.nonceLen, pl, aadLen)[0]
				wa, _ := c.mk(wb)
				untraced(seal(wa, warmC, &sink))
				stepPending = nil
				cts := make([][]byte, len(cs))
				for v := range cs {
					traced(fmt.Sprintf("%s.Seal/%s/pt=%d,aad=%d", c.name, shape, pl, aadLen), names[v], "", seal(aeads[v], cs[v], &cts[v]))
				}
				open := func(a cipher.AEAD, c stepContents, ct []byte) func() {
					buf := append([]byte{}, ct...)
					dst := []byte(nil)
					if shape == "in-place" {
						dst = buf[:0]
					} else if shape == "prefix+room" {
						dst = make([]byte, 5, 5+len(ct))
					}
					stepDeclare(c.nonce, buf, c.aad)
					stepDeclare(stepRoundKeys(a)...)
					return func() { a.Open(dst, c.nonce, buf, c.aad) }
				}
				strip := func(ct []byte) []byte {
					if shape == "prefix+room" && len(ct) >= 5 {
						return ct[5:]
					}
					return ct
				}
				untraced(open(wa, warmC, strip(sink)))
				stepPending = nil
				for v := range cs {
					traced(fmt.Sprintf("%s.Open/%s/pt=%d,aad=%d", c.name, shape, pl, aadLen), names[v], "authentic", open(aeads[v], cs[v], strip(cts[v])))
				}
				// forgeries: every position class of the difference, judged among themselves
				forge := func(v int, kind string) []byte {
					ct := append([]byte{}, strip(cts[v])...)
					if len(ct) == 0 {
						return ct
					}
					switch kind {
					case "first-tag-byte":
						ct[len(ct)-aeads[v].Overhead()] ^= 0x01
					case "last-tag-byte":
						ct[len(ct)-1] ^= 0x80
					case "first-byte":
						ct[0] ^= 0x40
					case "all-zero":
						for i := range ct {
							ct[i] = 0
						}
					case "tag-of-other":
						copy(ct[len(ct)-aeads[v].Overhead():], strip(cts[(v+1)%4])[len(ct)-aeads[v].Overhead():])
					}
					return ct
				}
				complete := true
				for v := range cts {
					if len(strip(cts[v])) != pl+aeads[v].Overhead() {
						complete = false // a Seal failed for some contents (reported through its sequence): no forgeries to build
					}
				}
				for i, kind := range []string{"first-tag-byte", "last-tag-byte", "first-byte", "all-zero", "tag-of-other"} {
					if !complete {
						break
					}
					v := []int{0, 1, 2, 3, 5}[i]
					traced(fmt.Sprintf("%s.Open/%s/pt=%d,aad=%d", c.name, shape, pl, aadLen), "forged:"+kind+"/"+names[v], "forged", open(aeads[v], cs[v], forge(v, kind)))
				}
			}
		}
	}
	id++
	data, _ := json.Marshal(&stepPlan{ID: id, Group: "end", End: true})
	f.Write(append(data, '\n'))
	vtMark(id)
}
