//go:build verif && !verifnoswitch

package sm4

// The one place where the monitors touch the package variable that selects the accelerated path. If the tree under
// test no longer has it in this form (a function, an atomic, another name), the driver rebuilds with tag verifnoswitch
// (zz_verif_pathswitch_stub_test.go): every workload then runs on the path the library itself selects, and the portable
// path is not forced.

const zvSwitchAvailable = true

func zvGetAsm() bool { return candoAsm }

func zvSetAsm(on bool) { candoAsm = on }
