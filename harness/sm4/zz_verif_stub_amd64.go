//go:build verif

package sm4

// verifAffine64 applies the assembly `affine` macro (the GFNI S-box with
// PreAffineMatrix/PostAffineMatrix and both immediates of com_amd64.s) to 64
// bytes. It exists only so that the monitor can observe the assembly
// constants through execution.
//
//go:noescape
func verifAffine64(dst, src *byte)
