//go:build verif && verifnohelpers

package sm4

const zvAsmHelpersAvailable = false

func vCopyAsm(dst, src *byte, n int) { panic("direct call unavailable") }

func vNeedExpand(array []byte, asked int) int { panic("direct call unavailable") }
