//go:build verif

package sm4

import (
	"bytes"
	"crypto/cipher"
	"fmt"
	"runtime"
	"sync"

	"github.com/bilibili/smgo/zzverif/hk"
	"github.com/bilibili/smgo/zzverif/ref"
)

// Object LIFETIME histories: a Block, several AEADs derived from it and the key slice have
// independent lifetimes for the caller. The monitor derives objects, uses them, lets some become
// garbage while others are kept, forces collection and finalizers (hk.GCBarrier), and then judges
// every survivor against the models again. State shared between a Block and the AEADs made from it
// (round keys, tables) must survive as long as ANY of them is alive. With concurrent=true other
// goroutines keep using the survivors while the collection happens. judgeBlk / judgeAEAD select what
// the calling property is about (C05: the Block; C06: the AEADs; C17: both).
func zvLifetimeHistories(r *hk.Reporter, rng *hk.RNG, pn string, sessions int, concurrent bool, judgeBlk, judgeAEAD bool) {
	type sib struct {
		a        cipher.AEAD
		nl, tag  int
		nonce    []byte
		aad, pt  []byte
		expected []byte
	}
	for sess := 0; sess < sessions; sess++ {
		key := rng.Bytes(16)
		kcopy := append([]byte{}, key...)
		blk, err := NewCipher(kcopy)
		if err != nil {
			r.Violation("lifetime:NewCipher-fails:"+pn, hk.D{"key": hk.Hex(key)})
			return
		}
		for i := range kcopy {
			kcopy[i] = 0
		}
		kcopy = nil
		g := ref.NewGCM(key)
		refBlk := ref.NewSM4Block(key)
		mk := func(i int) *sib {
			s := &sib{nl: 12, tag: 16}
			switch i % 4 {
			case 1:
				s.tag = 12 + rng.Intn(5)
			case 2:
				s.nl = rng.Pick([]int{1, 8, 13, 16, 33})
			}
			s.a, _ = zvNewAEADFromBlock(blk, s.nl, s.tag)
			s.nonce, s.aad, s.pt = rng.Bytes(s.nl), rng.Bytes(rng.Pick([]int{0, 5, 16, 40})), rng.Bytes(rng.Pick([]int{0, 1, 16, 31, 64, 100, 300}))
			s.expected = g.Seal(s.nonce, s.pt, s.aad, s.tag)
			return s
		}
		judgeBlock := func(stage string, hist []string) {
			if !judgeBlk || blk == nil {
				return
			}
			for j := 0; j < 3; j++ {
				in := rng.Bytes(16)
				want := make([]byte, 16)
				refBlk.Encrypt(want, in)
				out, back := make([]byte, 16), make([]byte, 16)
				blk.Encrypt(out, in)
				blk.Decrypt(back, want)
				if !bytes.Equal(out, want) || !bytes.Equal(back, in) {
					r.Violation("lifetime:block-wrong-"+stage+":"+pn, hk.D{"key": hk.Hex(key), "block": hk.Hex(in), "encrypt": hk.Hex(out), "want": hk.Hex(want), "decrypt_of_want": hk.Hex(back), "history": hist})
					return
				}
			}
		}
		judgeSib := func(s *sib, stage string, hist []string) {
			if s.a == nil || !judgeAEAD {
				return
			}
			got := s.a.Seal(nil, s.nonce, s.pt, s.aad)
			pt, err := s.a.Open(nil, s.nonce, s.expected, s.aad)
			if !bytes.Equal(got, s.expected) || err != nil || !bytes.Equal(pt, s.pt) {
				r.Violation("lifetime:aead-wrong-"+stage+":"+pn, hk.D{"key": hk.Hex(key), "nonce": hk.Hex(s.nonce), "aad": hk.Hex(s.aad), "pt": hk.Hex(s.pt), "tag": s.tag, "seal": hk.Hex(got), "want": hk.Hex(s.expected), "open_err": fmt.Sprint(err), "history": hist})
			}
		}
		var hist []string
		keep := mk(0)
		hist = append(hist, "NewCipher", "derive AEAD keep")
		// AEADs that become garbage: each used once, then dropped
		nDrop := 1 + sess%3
		func() {
			for i := 0; i < nDrop; i++ {
				s := mk(i + sess)
				judgeSib(s, "fresh", hist)
			}
		}()
		hist = append(hist, fmt.Sprintf("derive+use+drop %d AEADs", nDrop))
		judgeBlock("before-collection", hist)
		judgeSib(keep, "before-collection", hist)
		// users running while the collection happens
		stop := make(chan struct{})
		var wg sync.WaitGroup
		if concurrent {
			for w := 0; w < 4; w++ {
				wg.Add(1)
				go func(w int) {
					defer wg.Done()
					in := bytes.Repeat([]byte{byte(w)}, 16)
					want := make([]byte, 16)
					refBlk.Encrypt(want, in)
					out := make([]byte, 16)
					for i := 0; ; i++ {
						select {
						case <-stop:
							return
						default:
						}
						if w%2 == 0 && judgeBlk {
							blk.Encrypt(out, in)
							if !bytes.Equal(out, want) {
								r.Violation("lifetime:block-wrong-while-sibling-is-collected:"+pn, hk.D{"key": hk.Hex(key), "block": hk.Hex(in), "got": hk.Hex(out), "want": hk.Hex(want), "iteration": i})
								return
							}
						} else if judgeAEAD {
							got := keep.a.Seal(nil, keep.nonce, keep.pt, keep.aad)
							if !bytes.Equal(got, keep.expected) {
								r.Violation("lifetime:aead-wrong-while-sibling-is-collected:"+pn, hk.D{"key": hk.Hex(key), "got": hk.Hex(got), "want": hk.Hex(keep.expected), "iteration": i})
								return
							}
						}
					}
				}(w)
			}
		}
		if !hk.GCBarrier() {
			close(stop)
			wg.Wait()
			r.Inconclusive("lifetime: finalizer barrier did not complete")
			return
		}
		hist = append(hist, "GC + finalizers + allocation churn")
		junk1 := hk.Churn()
		close(stop)
		wg.Wait()
		judgeBlock("after-derived-AEAD-collected", hist)
		judgeSib(keep, "after-sibling-collected", hist)
		late := mk(1)
		hist = append(hist, "derive AEAD late")
		judgeSib(late, "derived-after-sibling-collected", hist)
		// now the Block itself becomes garbage while AEADs stay
		if sess%2 == 0 {
			blk = nil
			hist = append(hist, "drop Block")
			if !hk.GCBarrier() {
				r.Inconclusive("lifetime: finalizer barrier did not complete")
				return
			}
			hist = append(hist, "GC + finalizers + allocation churn")
			junk2 := hk.Churn()
			judgeSib(keep, "after-block-collected", hist)
			judgeSib(late, "after-block-collected", hist)
			runtime.KeepAlive(junk2)
		}
		runtime.KeepAlive(junk1)
		r.Eval(fmt.Sprintf("lifetime:%s,dropped=%d,block-dropped=%v,concurrent=%v", pn, nDrop, sess%2 == 0, concurrent))
	}
}
