//go:build verif

package sm4

import (
	"bytes"
	"crypto/cipher"
	"fmt"
	"strings"
	"testing"
	"unsafe"

	"github.com/bilibili/smgo/zzverif/hk"
	"github.com/bilibili/smgo/zzverif/ref"
)

// C11 — guard-page monitor: every pointer argument lives in its own mapping
// with PROT_NONE pages on both sides, laid against the end (over-run) or the
// start (under-run) of its pages. A hardware fault inside the call is an
// out-of-range access; an ordinary panic is detected misuse.

type zvGset struct {
	pool *hk.Pool
	bufs map[string]*hk.GBuf
}

func (s *zvGset) get(name string, content []byte, place int) []byte {
	g := s.pool.Get(len(content), place)
	g.Writable()
	copy(g.B, content)
	s.bufs[name] = g
	return g.B
}

func (s *zvGset) release() {
	for k, g := range s.bufs {
		s.pool.Put(g)
		delete(s.bufs, k)
	}
}

// where names the argument whose guard (or interior) the faulting address
// belongs to, with the offset relative to the start of the argument.
func (s *zvGset) where(addr uintptr) string {
	for name, g := range s.bufs {
		if in, off := g.InRegion(addr); in {
			switch {
			case off < 0:
				return fmt.Sprintf("%s:before-start", name)
			case off >= len(g.B):
				return fmt.Sprintf("%s:past-end", name)
			default:
				return fmt.Sprintf("%s:inside", name)
			}
		}
	}
	return "unrelated-address"
}

var c11sink int

func zvPlaceName(p int) string {
	return []string{"end", "start", "mid"}[p]
}

func TestVerifC11(t *testing.T) {
	r := hk.NewReporter("C11", "sm4-guard-pages")
	defer r.Close()
	if err := ref.SelfTestGCM(); err != nil {
		r.Inconclusive("oracle self-test: " + err.Error())
		return
	}
	rng := hk.NewRNG(hk.Seed(), "c11")
	gs := &zvGset{pool: hk.NewPool(), bufs: map[string]*hk.GBuf{}}
	faults := 0

	// positive control: the monitor must see a deliberate 1-byte over-read
	{
		b := gs.get("control", make([]byte, 16), hk.PlaceEnd)
		p, _, isFault, addr := hk.Try(func() {
			q := (*byte)(unsafe.Pointer(uintptr(unsafe.Pointer(&b[15])) + 1))
			c11sink += int(*q)
		})
		if !p || !isFault || gs.where(addr) != "control:past-end" {
			r.Inconclusive("guard-page positive control did not fire")
			return
		}
		gs.release()
		r.Count("positive_control_faults", 1)
	}

	// ------------------------------------------------------------------ A. Block methods
	for _, asm := range zvPaths() {
		asm := asm
		zvWithAsm(asm, func() {
			pn := zvPathName(asm)
			key := rng.Bytes(16)
			blk, _ := NewCipher(key)
			for _, op := range []string{"Encrypt", "Decrypt"} {
				for dl := 0; dl <= 32; dl++ {
					for sl := 0; sl <= 32; sl++ {
						if !hk.Thorough() && dl != 16 && sl != 16 && (dl+sl)%3 != 0 && dl < 31 && sl < 31 {
							continue
						}
						for _, place := range []int{hk.PlaceEnd, hk.PlaceStart} {
							src := gs.get("src", rng.Bytes(sl), place)
							dst := gs.get("dst", make([]byte, dl), place)
							r.Journal("%s %s dst=%d src=%d place=%s", pn, op, dl, sl, zvPlaceName(place))
							p, msg, isFault, addr := hk.Try(func() {
								if op == "Encrypt" {
									blk.Encrypt(dst, src)
								} else {
									blk.Decrypt(dst, src)
								}
							})
							d := hk.D{"path": pn, "op": op, "dst_len": dl, "src_len": sl, "placement": zvPlaceName(place), "panic": msg}
							short := dl < 16 || sl < 16
							switch {
							case p && isFault:
								faults++
								d["fault"] = gs.where(addr)
								r.Violation(fmt.Sprintf("block-out-of-range-access:%s:%s:%s", pn, op, gs.where(addr)), d)
							case short && !p:
								r.Violation(fmt.Sprintf("block-short-buffer-processed-silently:%s:%s", pn, op), d)
							case !short && p:
								r.Violation(fmt.Sprintf("block-panics-on-legal-buffers:%s:%s", pn, op), d)
							case !short:
								var want []byte
								if op == "Encrypt" {
									want = ref.SM4Encrypt(key, src)
								} else {
									want = ref.SM4Decrypt(key, src)
								}
								if !bytes.Equal(dst[:16], want) {
									r.Violation(fmt.Sprintf("block-wrong-result:%s:%s", pn, op), d)
								}
							}
							gs.release()
							r.Eval(fmt.Sprintf("%s|%s|short=%v|%s", pn, op, short, zvPlaceName(place)))
						}
					}
				}
				// short length but sufficient capacity (ordinary heap slices): must still be refused, not
				// silently processed past len
				for _, shp := range [][2]int{{8, 16}, {15, 32}, {0, 16}, {1, 64}} {
					for which := 0; which < 2; which++ {
						dbuf := bytes.Repeat([]byte{0xCC}, 64)
						sbuf := rng.Bytes(64)
						dst, src := dbuf[:16], sbuf[:16]
						if which == 0 {
							dst = dbuf[:shp[0]:shp[1]]
						} else {
							src = sbuf[:shp[0]:shp[1]]
						}
						p, msg, _, _ := hk.Try(func() {
							if op == "Encrypt" {
								blk.Encrypt(dst, src)
							} else {
								blk.Decrypt(dst, src)
							}
						})
						if !p {
							touched := !bytes.Equal(dbuf[len(dst):], bytes.Repeat([]byte{0xCC}, 64-len(dst)))
							r.Violation(fmt.Sprintf("block-short-buffer-processed-silently:%s:%s", pn, op), hk.D{"path": pn, "op": op, "dst_len": len(dst), "dst_cap": cap(dst), "src_len": len(src), "src_cap": cap(src), "wrote_past_len": touched, "panic": msg})
						}
						r.Eval(fmt.Sprintf("%s|%s|short-len-with-capacity", pn, op))
					}
				}
			}
		})
	}

	// ------------------------------------------------------------------ B. Seal / Open
	type sc struct {
		nl, al, pl, tag int
		exactDst        bool
		place           int
	}
	var scs []sc
	for pl := 0; pl <= 1100; pl++ {
		if !hk.Thorough() && pl > 300 && pl%5 != int(hk.Seed()%5) && !zvIsClassLen(pl) {
			continue
		}
		scs = append(scs, sc{12, rng.Pick([]int{0, 1, 16, 33}), pl, 12 + pl%5, pl%2 == 0, hk.PlaceEnd})
		if pl%4 == 0 || pl < 70 {
			scs = append(scs, sc{12, rng.Pick([]int{0, 5, 130}), pl, 16, pl%8 == 0, hk.PlaceStart})
		}
	}
	for al := 0; al <= 300; al++ {
		scs = append(scs, sc{12, al, rng.Pick([]int{0, 1, 17, 64, 100}), 16, al%2 == 0, []int{hk.PlaceEnd, hk.PlaceStart}[al%2]})
	}
	for nl := 1; nl <= 300; nl++ {
		scs = append(scs, sc{nl, rng.Pick([]int{0, 3, 16}), rng.Pick([]int{0, 5, 16, 40}), 16, nl%2 == 0, []int{hk.PlaceEnd, hk.PlaceStart}[nl%3%2]})
	}
	r.Note("seal_open_shapes", len(scs))
	r.Sample(hk.D{"op": "Seal/Open", "lens": "nonce=12 aad=16 pt=17 tag=14", "placement": "every argument end-abutting a PROT_NONE page", "dst": "nil or exact-capacity guarded"})
	for _, asm := range zvPaths() {
		asm := asm
		zvWithAsm(asm, func() {
			pn := zvPathName(asm)
			aeads := map[[2]int]cipher.AEAD{}
			key := rng.Bytes(16)
			g := ref.NewGCM(key)
			for si, c := range scs {
				if !hk.InShard(si) {
					continue
				}
				if !asm && si%3 != 0 && !hk.Thorough() {
					continue // the portable/std-lib path is pure Go (bounds-checked); sample it
				}
				a, ok := aeads[[2]int{c.nl, c.tag}]
				if !ok {
					var err error
					a, err = zvNewAEAD(key, c.nl, c.tag)
					if err != nil {
						r.Violation("cannot-construct-aead:"+pn, hk.D{"err": err.Error()})
						continue
					}
					aeads[[2]int{c.nl, c.tag}] = a
				}
				nonceV, aadV, ptV := rng.Bytes(c.nl), rng.Bytes(c.al), rng.Bytes(c.pl)
				sealed := g.Seal(nonceV, ptV, aadV, c.tag)
				for _, op := range []string{"Seal", "Open", "Open-forged", "Open-short", "Seal-inplace", "Open-inplace", "Seal-after-prefix", "Open-after-prefix", "Seal-short-room", "Open-short-room", "Seal-after-long-prefix"} {
					nonce := gs.get("nonce", nonceV, c.place)
					aad := gs.get("aad", aadV, c.place)
					var in []byte
					need := 0
					switch op {
					case "Seal":
						in = gs.get("plaintext", ptV, c.place)
						need = c.pl + c.tag
					case "Open", "Open-after-prefix", "Open-short-room":
						in = gs.get("ciphertext", sealed, c.place)
						need = c.pl
					case "Seal-after-prefix", "Seal-short-room", "Seal-after-long-prefix":
						in = gs.get("plaintext", ptV, c.place)
						need = c.pl + c.tag
					case "Open-forged":
						in = gs.get("ciphertext", zvFlipBit(sealed, rng.Intn(len(sealed)*8)), c.place)
						need = c.pl
					case "Seal-inplace":
						// one buffer of exactly len(pt)+tag bytes against the guard pages: plaintext at its start, dst = buf[:0]
						full := gs.get("inplace", append(append([]byte{}, ptV...), make([]byte, c.tag)...), c.place)
						in = full[:c.pl]
					case "Open-inplace":
						full := gs.get("inplace", sealed, c.place)
						in = full
					default:
						l := rng.Intn(c.tag)
						in = gs.get("ciphertext", sealed[:l], c.place)
					}
					var dst []byte
					var prefix []byte
					if op == "Seal-after-prefix" || op == "Open-after-prefix" {
						// dst already holds a prefix and has NO room (capacity = length, the prefix ends / starts at an
						// inaccessible page): the result needs a new array, and exactly the prefix is copied over
						prefix = rng.Bytes([]int{1, 5, 16, 33, 100}[si%5])
						dst = gs.get("dst-prefix", prefix, c.place)
					} else if op == "Seal-short-room" || op == "Open-short-room" {
						// dst has a prefix and spare capacity that is SHORT of the result by 1 .. tag bytes (it may hold the whole
						// message but not the tag), and ends at an inaccessible page: the result must move, nothing is written there
						prefix = rng.Bytes([]int{0, 3, 16, 40}[si%4])
						shortBy := 1 + (si/4)%c.tag
						if shortBy > need {
							shortBy = need
						}
						full := gs.get("dst-short-room", append(append([]byte{}, prefix...), make([]byte, need-shortBy)...), hk.PlaceEnd)
						dst = full[:len(prefix)]
					} else if op == "Seal-after-long-prefix" {
						// a few hundred bytes already in dst, and exactly enough room behind them
						prefix = rng.Bytes([]int{255, 256, 300, 1024}[si%4])
						full := gs.get("dst-long-prefix", append(append([]byte{}, prefix...), make([]byte, need)...), c.place)
						dst = full[:len(prefix)]
					} else if op == "Seal-inplace" || op == "Open-inplace" {
						dst = in[:0]
					} else if c.exactDst {
						full := gs.get("dst", make([]byte, need), c.place)
						dst = full[:0]
					}
					r.Journal("%s %s nonce=%d aad=%d pt=%d tag=%d exactdst=%v place=%s", pn, op, c.nl, c.al, c.pl, c.tag, c.exactDst, zvPlaceName(c.place))
					var out []byte
					var oerr error
					p, msg, isFault, addr := hk.Try(func() {
						if strings.HasPrefix(op, "Seal") {
							out = a.Seal(dst, nonce, in, aad)
						} else {
							out, oerr = a.Open(dst, nonce, in, aad)
						}
					})
					d := hk.D{"path": pn, "op": op, "nonce_len": c.nl, "aad_len": c.al, "pt_len": c.pl, "tag": c.tag, "dst": map[bool]string{true: "exact-capacity-guarded", false: "nil"}[c.exactDst],
						"placement": zvPlaceName(c.place), "panic": msg, "key": hk.Hex(key), "nonce": hk.Hex(nonceV), "aad": hk.Hex(aadV), "input": hk.Hex(in)}
					switch {
					case p && isFault:
						faults++
						d["fault"] = gs.where(addr)
						r.Violation(fmt.Sprintf("gcm-out-of-range-access:%s:%s:%s", pn, op, gs.where(addr)), d)
					case p:
						r.Violation(fmt.Sprintf("gcm-panics:%s:%s", pn, op), d)
					case (op == "Seal-after-prefix" || op == "Seal-short-room" || op == "Seal-after-long-prefix") && !bytes.Equal(out, append(append([]byte{}, prefix...), sealed...)):
						r.Violation(fmt.Sprintf("gcm-wrong-result:%s:%s", pn, op), d)
					case (op == "Open-after-prefix" || op == "Open-short-room") && (oerr != nil || !bytes.Equal(out, append(append([]byte{}, prefix...), ptV...))):
						d["err"] = fmt.Sprint(oerr)
						r.Violation(fmt.Sprintf("gcm-wrong-result:%s:%s", pn, op), d)
					case (op == "Seal" || op == "Seal-inplace") && !bytes.Equal(out, sealed):
						r.Violation(fmt.Sprintf("gcm-wrong-result:%s:%s", pn, op), d)
					case (op == "Open" || op == "Open-inplace") && (oerr != nil || !bytes.Equal(out, ptV)):
						d["err"] = fmt.Sprint(oerr)
						r.Violation(fmt.Sprintf("gcm-wrong-result:%s:%s", pn, op), d)
					case (op == "Open-forged" || op == "Open-short") && oerr == nil:
						r.Violation(fmt.Sprintf("gcm-accepts-bad-input:%s:%s", pn, op), d)
					}
					gs.release()
					r.Eval(fmt.Sprintf("%s|%s|pt%%16=%d,aad%%16=%d,nonce%%16=%d,tag=%d,%s,dst=%v", pn, op, c.pl%16, c.al%16, c.nl%16, c.tag, zvPlaceName(c.place), c.exactDst))
				}
			}
		})
	}

	// ------------------------------------------------------------------ B2. arguments that are gone after the call
	// The key slice belongs to the caller: after NewCipher has returned it may be wiped, reused or - here - UNMAPPED. A
	// cipher or AEAD that still reads it (a retained slice, a key schedule built on first use, a cache compared with
	// the next key) faults. And a nonce that is SHORTER than the AEAD's nonce size, ending at an inaccessible page with
	// its capacity reaching over it, must be refused by its length - not resliced to size and read.
	for _, asm := range zvPaths() {
		asm := asm
		zvWithAsm(asm, func() {
			pn := zvPathName(asm)
			for i := 0; i < hk.N(24, 120); i++ {
				key := rng.Bytes(16)
				kb := hk.NewGuarded(16, []int{hk.PlaceEnd, hk.PlaceStart}[i%2])
				copy(kb.B, key)
				var blk cipher.Block
				var a cipher.AEAD
				stage := "NewCipher"
				p, msg, isFault, _ := hk.Try(func() {
					blk, _ = NewCipher(kb.B)
					if i%3 == 0 {
						stage = "NewGCM-before-the-key-is-gone"
						a, _ = cipher.NewGCM(blk)
					}
					kb.Free() // the caller's key buffer no longer exists
					stage = "second-NewCipher-after-the-first-key-is-gone"
					if i%4 == 1 {
						NewCipher(rng.Bytes(16))
					}
					in, out, want := rng.Bytes(16), make([]byte, 16), make([]byte, 16)
					ref.NewSM4Block(key).Encrypt(want, in)
					stage = "Encrypt"
					blk.Encrypt(out, in)
					if !bytes.Equal(out, want) {
						r.Violation("block-wrong-after-the-key-buffer-was-unmapped:"+pn, hk.D{"key": hk.Hex(key)})
					}
					stage = "Decrypt"
					blk.Decrypt(out, want)
					if !bytes.Equal(out, in) {
						r.Violation("block-wrong-after-the-key-buffer-was-unmapped:"+pn, hk.D{"key": hk.Hex(key), "op": "Decrypt"})
					}
					if a == nil {
						stage = "NewGCM"
						a, _ = cipher.NewGCM(blk)
					}
					nonce, pt, aad := rng.Bytes(12), rng.Bytes(33), rng.Bytes(5)
					stage = "Seal"
					if got := a.Seal(nil, nonce, pt, aad); !bytes.Equal(got, ref.NewGCM(key).Seal(nonce, pt, aad, 16)) {
						r.Violation("seal-wrong-after-the-key-buffer-was-unmapped:"+pn, hk.D{"key": hk.Hex(key)})
					}
				})
				if p {
					r.Violation("key-buffer-read-after-NewCipher-returned:"+pn, hk.D{"key": hk.Hex(key), "stage": stage, "panic": msg, "fault": isFault})
				}
				kb.Free()
				r.Eval(pn + "|key-buffer-unmapped-after-NewCipher")
			}
			key := rng.Bytes(16)
			for _, nl := range []int{12, 16, 13} {
				a, err := zvNewAEAD(key, nl, 16)
				if err != nil {
					continue
				}
				for _, short := range []int{1, 4, nl - 1} {
					nb := hk.NewGuarded(nl-short, hk.PlaceEnd)
					copy(nb.B, rng.Bytes(nl-short))
					nonce := nb.OverCap() // capacity reaches over the inaccessible page
					pt := rng.Bytes(20)
					for _, op := range []string{"Seal", "Open"} {
						p, msg, isFault, _ := hk.Try(func() {
							if op == "Seal" {
								a.Seal(nil, nonce, pt, nil)
							} else {
								a.Open(nil, nonce, rng.Bytes(36), nil)
							}
						})
						if p && isFault {
							r.Violation("short-nonce-read-past-its-end:"+pn+":"+op, hk.D{"nonce_size": nl, "nonce_len": len(nonce), "nonce_cap": cap(nonce), "panic": msg})
						}
					}
					nb.Free()
					r.Eval(fmt.Sprintf("%s|short-nonce-with-capacity-over-the-guard|size=%d,short=%d", pn, nl, short))
				}
			}
		})
	}

	// ------------------------------------------------------------------ C. assembly routines directly
	if zvAsmDetected {
		key := rng.Bytes(16)
		refRK := ref.SM4RoundKeys(key)
		// the cipher object as the library lays it out: enc[32] then dec[32], nothing after it
		layRK := func(place int) (encp, decp *uint32) {
			obj := gs.get("cipher-object", make([]byte, 256), place)
			encs := (*[32]uint32)(unsafe.Pointer(&obj[0]))
			decs := (*[32]uint32)(unsafe.Pointer(&obj[128]))
			for i := 0; i < 32; i++ {
				encs[i] = refRK[i]
				decs[i] = refRK[31-i]
			}
			return &encs[0], &decs[0]
		}
		type kern struct {
			name  string
			lanes int
			f     func(rk *uint32, dst, src *byte)
		}
		for _, k := range []kern{{"cryptoBlockAsm", 1, cryptoBlockAsm}, {"cryptoBlockAsmX2", 2, cryptoBlockAsmX2}, {"cryptoBlockAsmX4", 4, cryptoBlockAsmX4}, {"cryptoBlockAsmX8", 8, cryptoBlockAsmX8}, {"cryptoBlockAsmX16", 16, cryptoBlockAsmX16}} {
			for _, place := range []int{hk.PlaceEnd, hk.PlaceStart} {
				for _, useDec := range []bool{false, true} {
					encp, decp := layRK(place)
					rk := encp
					if useDec {
						rk = decp
					}
					src := gs.get("src", rng.Bytes(16*k.lanes), place)
					dst := gs.get("dst", make([]byte, 16*k.lanes), place)
					r.Journal("kernel %s place=%s dec=%v", k.name, zvPlaceName(place), useDec)
					p, msg, isFault, addr := hk.Try(func() { k.f(rk, &dst[0], &src[0]) })
					d := hk.D{"routine": k.name, "placement": zvPlaceName(place), "schedule": map[bool]string{false: "enc", true: "dec"}[useDec], "panic": msg}
					if p && isFault {
						faults++
						d["fault"] = gs.where(addr)
						r.Violation(fmt.Sprintf("kernel-out-of-range-access:%s:%s", k.name, gs.where(addr)), d)
					} else if p {
						r.Violation("kernel-panics:"+k.name, d)
					} else {
						for l := 0; l < k.lanes; l++ {
							want := ref.SM4Encrypt(key, src[16*l:16*l+16])
							if useDec {
								want = ref.SM4Decrypt(key, src[16*l:16*l+16])
							}
							if !bytes.Equal(dst[16*l:16*l+16], want) {
								r.Violation("kernel-wrong-under-guard:"+k.name, d)
								break
							}
						}
					}
					gs.release()
					r.Eval(fmt.Sprintf("kernel|%s|%s|dec=%v", k.name, zvPlaceName(place), useDec))
				}
			}
		}
		// expandKeyAsm: 16-byte key, enc and dec as the two halves of the object
		for _, place := range []int{hk.PlaceEnd, hk.PlaceStart} {
			k := gs.get("key", key, place)
			obj := gs.get("cipher-object", make([]byte, 256), place)
			r.Journal("expandKeyAsm place=%s", zvPlaceName(place))
			p, msg, isFault, addr := hk.Try(func() {
				expandKeyAsm(&k[0], (*uint32)(unsafe.Pointer(&obj[0])), (*uint32)(unsafe.Pointer(&obj[128])))
			})
			if p && isFault {
				faults++
				r.Violation("kernel-out-of-range-access:expandKeyAsm:"+gs.where(addr), hk.D{"placement": zvPlaceName(place), "panic": msg})
			} else if p {
				r.Violation("kernel-panics:expandKeyAsm", hk.D{"panic": msg})
			} else {
				encs := (*[32]uint32)(unsafe.Pointer(&obj[0]))
				decs := (*[32]uint32)(unsafe.Pointer(&obj[128]))
				for i := 0; i < 32; i++ {
					if encs[i] != refRK[i] || decs[i] != refRK[31-i] {
						r.Violation("kernel-wrong-under-guard:expandKeyAsm", hk.D{"round": i})
						break
					}
				}
			}
			gs.release()
			r.Eval("kernel|expandKeyAsm|" + zvPlaceName(place))
		}
		// expandKeyAsm again with enc and dec as two SEPARATE objects of 128 bytes (the routine takes two pointers; that the
		// library's only caller passes neighbours is not part of its contract): a store reaching past either array faults
		for _, place := range []int{hk.PlaceEnd, hk.PlaceStart} {
			k := gs.get("key", key, place)
			encB := gs.get("enc-array", make([]byte, 128), place)
			decB := gs.get("dec-array", make([]byte, 128), place)
			r.Journal("expandKeyAsm separate arrays place=%s", zvPlaceName(place))
			p, msg, isFault, addr := hk.Try(func() {
				expandKeyAsm(&k[0], (*uint32)(unsafe.Pointer(&encB[0])), (*uint32)(unsafe.Pointer(&decB[0])))
			})
			if p && isFault {
				faults++
				r.Violation("kernel-out-of-range-access:expandKeyAsm(separate-arrays):"+gs.where(addr), hk.D{"placement": zvPlaceName(place), "panic": msg})
			} else if p {
				r.Violation("kernel-panics:expandKeyAsm(separate-arrays)", hk.D{"panic": msg})
			} else {
				encs := (*[32]uint32)(unsafe.Pointer(&encB[0]))
				decs := (*[32]uint32)(unsafe.Pointer(&decB[0]))
				for i := 0; i < 32; i++ {
					if encs[i] != refRK[i] || decs[i] != refRK[31-i] {
						r.Violation("kernel-wrong-under-guard:expandKeyAsm(separate-arrays)", hk.D{"round": i})
						break
					}
				}
			}
			gs.release()
			r.Eval("kernel|expandKeyAsm-separate-arrays|" + zvPlaceName(place))
		}
		// gHashBlocks: H, tag (in/out), data of count blocks
		for count := 1; count <= hk.N(40, 80); count++ {
			for _, place := range []int{hk.PlaceEnd, hk.PlaceStart} {
				H := gs.get("H", rng.Bytes(16), place)
				tag := gs.get("tag", rng.Bytes(16), place)
				data := gs.get("data", rng.Bytes(16*count), place)
				t0 := ref.FEFromBytes(tag)
				r.Journal("gHashBlocks count=%d place=%s", count, zvPlaceName(place))
				p, msg, isFault, addr := hk.Try(func() { gHashBlocks(&H[0], &tag[0], &data[0], count) })
				if p && isFault {
					faults++
					r.Violation("kernel-out-of-range-access:gHashBlocks:"+gs.where(addr), hk.D{"count": count, "placement": zvPlaceName(place), "panic": msg})
				} else if p {
					r.Violation("kernel-panics:gHashBlocks", hk.D{"panic": msg})
				} else {
					h := ref.FEFromBytes(H)
					y := t0
					for b := 0; b < count; b++ {
						y = y.Xor(ref.FEFromBytes(data[16*b:])).Mul(h)
					}
					if !bytes.Equal(tag, y.Bytes()) {
						r.Violation("kernel-wrong-under-guard:gHashBlocks", hk.D{"count": count})
					}
				}
				gs.release()
				r.Eval(fmt.Sprintf("kernel|gHashBlocks|4way=%v|%s", count >= 8, zvPlaceName(place)))
			}
		}
		// copyAsm (prefix copy of ensureCapacity): every length 0..130, both placements
		for n := 1; n <= 130 && zvAsmHelpersAvailable; n++ {
			for _, place := range []int{hk.PlaceEnd, hk.PlaceStart} {
				srcV := rng.Bytes(n)
				src := gs.get("src", srcV, place)
				dst := gs.get("dst", make([]byte, n), place)
				r.Journal("copyAsm len=%d place=%s", n, zvPlaceName(place))
				p, msg, isFault, addr := hk.Try(func() { vCopyAsm(&dst[0], &src[0], n) })
				if p && isFault {
					faults++
					r.Violation("kernel-out-of-range-access:copyAsm:"+gs.where(addr), hk.D{"len": n, "placement": zvPlaceName(place), "panic": msg})
				} else if p {
					r.Violation("kernel-panics:copyAsm", hk.D{"panic": msg})
				} else if !bytes.Equal(dst, srcV) {
					r.Violation("kernel-wrong-under-guard:copyAsm", hk.D{"len": n})
				}
				gs.release()
			}
			r.Eval(fmt.Sprintf("kernel|copyAsm|len%%8=%d", n%8))
		}
		// copyAsm at EVERY alignment of source and destination and every short length, inside larger buffers whose
		// surroundings are canaries (the page-edge placements above fix the alignment to the length)
		for sa := 0; sa < 16 && zvAsmHelpersAvailable; sa++ {
			for da := 0; da < 16; da += 1 + sa%3 {
				for n := 0; n <= 40; n++ {
					sbuf, dbuf := rng.Bytes(96), bytes.Repeat([]byte{0xC7}, 96)
					so, do := 16+sa, 16+da
					var dummyS, dummyD byte
					sp, dp := &dummyS, &dummyD
					if n > 0 {
						sp, dp = &sbuf[so], &dbuf[do]
					}
					p, msg, _, _ := hk.Try(func() { vCopyAsm(dp, sp, n) })
					ok := !p && bytes.Equal(dbuf[do:do+n], sbuf[so:so+n]) && bytes.Equal(dbuf[:do], bytes.Repeat([]byte{0xC7}, do)) && bytes.Equal(dbuf[do+n:], bytes.Repeat([]byte{0xC7}, 96-do-n)) && dummyD == 0
					if !ok {
						r.Violation("kernel-writes-outside-destination:copyAsm", hk.D{"len": n, "src_alignment": sa, "dst_alignment": da, "panic": msg, "dst_after": hk.Hex(dbuf)})
					}
				}
			}
			r.Eval(fmt.Sprintf("kernel|copyAsm|all-alignments|src%%16=%d", sa))
		}
		// sealAsm / openAsm with the 32-byte scratch block and round keys inside the object
		directCases := []sc{{12, 0, 0, 16, true, hk.PlaceEnd}, {12, 20, 17, 16, true, hk.PlaceEnd}, {13, 1, 300, 16, true, hk.PlaceStart}, {12, 16, 256, 12, true, hk.PlaceEnd}, {130, 129, 1, 16, true, hk.PlaceEnd}, {12, 7, 513, 13, true, hk.PlaceStart}}
		if !zvAsmDirectAvailable {
			directCases = nil
			r.Class("trivial:direct-asm-calls-unavailable-on-this-tree")
		}
		for _, c := range directCases {
			encp, _ := layRK(c.place)
			nonceV, aadV, ptV := rng.Bytes(c.nl), rng.Bytes(c.al), rng.Bytes(c.pl)
			sealed := ref.NewGCM(key).Seal(nonceV, ptV, aadV, c.tag)
			nonce := gs.get("nonce", nonceV, c.place)
			aad := gs.get("aad", aadV, c.place)
			pt := gs.get("plaintext", ptV, c.place)
			dst := gs.get("dst", make([]byte, c.pl+c.tag), c.place)
			temp := gs.get("temp", make([]byte, 32), c.place)
			r.Journal("sealAsm nonce=%d aad=%d pt=%d tag=%d", c.nl, c.al, c.pl, c.tag)
			p, msg, isFault, addr := hk.Try(func() { vSealAsm(encp, c.tag, &dst[0], nonce, pt, aad, &temp[0]) })
			if p && isFault {
				faults++
				r.Violation("kernel-out-of-range-access:sealAsm:"+gs.where(addr), hk.D{"lens": fmt.Sprint(c), "panic": msg})
			} else if p {
				r.Violation("kernel-panics:sealAsm", hk.D{"panic": msg})
			} else if !bytes.Equal(dst, sealed) {
				r.Violation("kernel-wrong-under-guard:sealAsm", hk.D{"lens": fmt.Sprint(c)})
			}
			gs.release()
			r.Eval("kernel|sealAsm|" + zvPlaceName(c.place))
			encp, _ = layRK(c.place)
			nonce = gs.get("nonce", nonceV, c.place)
			aad = gs.get("aad", aadV, c.place)
			ct := gs.get("ciphertext", sealed, c.place)
			outLen := c.pl
			if outLen == 0 {
				outLen = 1
			}
			out := gs.get("dst", make([]byte, outLen), c.place)
			temp = gs.get("temp", make([]byte, 32), c.place)
			r.Journal("openAsm nonce=%d aad=%d pt=%d tag=%d", c.nl, c.al, c.pl, c.tag)
			var res int
			p, msg, isFault, addr = hk.Try(func() { res = vOpenAsm(encp, c.tag, &out[0], nonce, ct, aad, &temp[0]) })
			if p && isFault {
				faults++
				r.Violation("kernel-out-of-range-access:openAsm:"+gs.where(addr), hk.D{"lens": fmt.Sprint(c), "panic": msg})
			} else if p {
				r.Violation("kernel-panics:openAsm", hk.D{"panic": msg})
			} else if res != 1 || !bytes.Equal(out[:c.pl], ptV) {
				r.Violation("kernel-wrong-under-guard:openAsm", hk.D{"lens": fmt.Sprint(c), "res": res})
			}
			gs.release()
			r.Eval("kernel|openAsm|" + zvPlaceName(c.place))
		}
	}
	r.Count("faults_observed", int64(faults))
}
