//go:build verif && !verifnohelpers

package sm4

// Adapters for the small assembly helpers of the GCM glue (copyAsm, needExpand). If one of them is gone or declared
// differently on the tree under test, the driver rebuilds with tag verifnohelpers and the sections that call them
// directly are skipped (the public API, which is what uses them, is still driven).

const zvAsmHelpersAvailable = true

func vCopyAsm(dst, src *byte, n int) { copyAsm(dst, src, n) }

func vNeedExpand(array []byte, asked int) int { return needExpand(array, asked) }
