//go:build verif

package sm4

import (
	"crypto/cipher"
	"encoding/json"
	"fmt"
	"os"
	"runtime"
	"runtime/debug"
	"testing"

	"github.com/bilibili/smgo/zzverif/hk"
	"github.com/klauspost/cpuid/v2"
)

// cpuHasDocumentedFeatures asks the CPU directly (not the library) for every feature the pinned selection
// predicate of the accelerated amd64 path names.
func zvCpuHasDocumentedFeatures() bool {
	return cpuid.CPU.Supports(cpuid.AVX512F, cpuid.AVX512DQ, cpuid.AVX512VL, cpuid.AVX, cpuid.GFNI, cpuid.SSE3, cpuid.SSE2, cpuid.VPCLMULQDQ)
}

// C09 — PATH monitor for the public API. The single-step traces judge the assembly routines; this
// workload judges which routines serve the PUBLIC methods when the accelerated path is selected.
// It runs under tools/vtrace with log-only breakpoints on every table-driven routine of the portable
// implementation (cryptoBlock, cryptoBlockX2, expandKey, the generic Encrypt/Decrypt, tau/T'...) and on
// the standard library's generic GCM (table-driven GHASH). vtMark(id) is hit before each public
// operation; a plan file names the operation. If one of those routines runs between two markers, a
// public operation was served by code whose memory addresses depend on key and data.
// Argument shapes include the legal ones (disjoint, exactly overlapping, adjacent, long slices) and, for
// completeness, partially overlapping dst/src, which the Block contract forbids: a panic there is fine.

type zvPathPlan struct {
	ID    uint64 `json:"id"`
	Op    string `json:"op"`
	Shape string `json:"shape"`
	End   bool   `json:"end,omitempty"`
}

func TestVtracePublicPaths(t *testing.T) {
	planPath := os.Getenv("VERIF_VT_PLAN")
	if planPath == "" {
		t.Skip("only runs under tools/vtrace")
	}
	f, err := os.Create(planPath)
	if err != nil {
		t.Fatal(err)
	}
	defer f.Close()
	var id uint64
	emit := func(op, shape string) uint64 {
		id++
		data, _ := json.Marshal(&zvPathPlan{ID: id, Op: op, Shape: shape})
		f.Write(append(data, '\n'))
		return id
	}
	if !zvAsmDetected && !zvCpuHasDocumentedFeatures() {
		data, _ := json.Marshal(map[string]interface{}{"id": 0, "op": "not-applicable", "shape": "accelerated path not available on this CPU", "end": true})
		f.Write(append(data, '\n'))
		return
	}
	if !zvAsmDetected {
		// The README promises the constant-time implementation on amd64 CPUs with AVX512F and GFNI; this CPU reports
		// every feature the pinned selection predicate names, and the library still does not select it. The
		// workload runs all the same: whatever serves the public operations is what a user of this CPU gets.
		data, _ := json.Marshal(map[string]interface{}{"id": 1 << 40, "op": "selection", "shape": "the CPU reports AVX512F, AVX512DQ, AVX512VL, AVX, GFNI, SSE2, SSE3, VPCLMULQDQ (the README names AVX512F and GFNI as the condition for the constant-time implementation) but the library's own selection says the accelerated path is unavailable"})
		f.Write(append(data, '\n'))
	}
	runtime.LockOSThread()
	debug.SetGCPercent(-1)
	rng := hk.NewRNG(hk.Seed(), "paths")
	try := func(fn func()) {
		defer func() { recover() }()
		fn()
	}
	for round := 0; round < hk.N(3, 12); round++ {
		key := rng.Bytes(16)
		if round == 1 {
			key = make([]byte, 16)
		}
		keyShape := "16-byte key"
		if round%2 == 1 {
			// the key is a sub-slice at an odd offset of a larger buffer (a field of a parsed record): what serves the
			// calls must not depend on where the arguments lie
			off := []int{1, 3, 4, 7, 9, 12, 15}[(round/2+int(hk.Seed()))%7]
			kb := make([]byte, 48)
			copy(kb[off:], key)
			key = kb[off : off+16]
			keyShape = fmt.Sprintf("16-byte key at offset %d of a larger buffer", off)
		}
		vtMark(emit("NewCipher", keyShape))
		blk, err := NewCipher(key)
		if err != nil || blk == nil {
			continue // a refused 16-byte key is C05's business; this monitor judges what serves the calls that are served
		}
		buf := rng.Bytes(96)
		type shp struct {
			name     string
			dst, src []byte
		}
		shapes := []shp{
			{"disjoint", make([]byte, 16), buf[:16]},
			{"exact-overlap", buf[16:32], buf[16:32]},
			{"dst-right-after-src", buf[48:64], buf[32:48]},
			{"dst-right-before-src", buf[32:48], buf[48:64]},
			{"long-slices", make([]byte, 40), buf[:48]},
			{"dst-with-spare-capacity", make([]byte, 16, 64), buf[64:80]},
			{"src-at-odd-address", make([]byte, 16), buf[65:81]},
			{"dst-at-odd-address", make([]byte, 40)[3:19], buf[:16]},
			{"both-at-odd-addresses", make([]byte, 40)[7:23], buf[71:87]},
		}
		for off := 1; off < 16; off += 1 + round%3 {
			shapes = append(shapes, shp{fmt.Sprintf("out-of-contract:dst=src+%d", off), buf[32+off : 48+off], buf[32:48]})
			shapes = append(shapes, shp{fmt.Sprintf("out-of-contract:dst=src-%d", off), buf[32-off : 48-off], buf[32:48]})
		}
		for _, s := range shapes {
			s := s
			vtMark(emit("Block.Encrypt", s.name))
			try(func() { blk.Encrypt(s.dst, s.src) })
			vtMark(emit("Block.Decrypt", s.name))
			try(func() { blk.Decrypt(s.dst, s.src) })
		}
		// modes of the standard library over the Block (they call Encrypt/Decrypt block by block)
		vtMark(emit("cipher.NewCBCEncrypter+CryptBlocks", "64 bytes"))
		try(func() {
			m := cipher.NewCBCEncrypter(blk, make([]byte, 16))
			o := make([]byte, 64)
			m.CryptBlocks(o, buf[:64])
		})
		vtMark(emit("cipher.NewCTR+XORKeyStream", "50 bytes"))
		try(func() {
			m := cipher.NewCTR(blk, make([]byte, 16))
			o := make([]byte, 50)
			m.XORKeyStream(o, buf[:50])
		})
		// AEAD constructors and Seal/Open
		type ctor struct {
			name string
			mk   func() (cipher.AEAD, error)
		}
		ctors := []ctor{
			{"NewGCM", func() (cipher.AEAD, error) { return cipher.NewGCM(blk) }},
			{"NewGCMWithTagSize(12)", func() (cipher.AEAD, error) { return cipher.NewGCMWithTagSize(blk, 12) }},
			{"NewGCMWithTagSize(15)", func() (cipher.AEAD, error) { return cipher.NewGCMWithTagSize(blk, 15) }},
			{"NewGCMWithNonceSize(1)", func() (cipher.AEAD, error) { return cipher.NewGCMWithNonceSize(blk, 1) }},
			{"NewGCMWithNonceSize(16)", func() (cipher.AEAD, error) { return cipher.NewGCMWithNonceSize(blk, 16) }},
			{"NewGCMWithNonceSize(129)", func() (cipher.AEAD, error) { return cipher.NewGCMWithNonceSize(blk, 129) }},
		}
		for ci, c := range ctors {
			vtMark(emit("cipher."+c.name, "-"))
			var a cipher.AEAD
			try(func() { a, _ = c.mk() })
			if a == nil {
				continue
			}
			nonce := rng.Bytes(a.NonceSize())
			for _, pl := range []int{0, 1, 15, 16, 17, 31, 32, 33, 64, 100, 128, 255, 256, 257, 300, 1000} {
				if (pl+ci+round)%3 != 0 && pl > 33 {
					continue
				}
				pt, aad := rng.Bytes(pl), rng.Bytes(rng.Pick([]int{0, 1, 13, 16, 20, 64, 200}))
				var ct []byte
				vtMark(emit(c.name+".Seal", fmt.Sprintf("dst=nil,pt=%d,aad=%d", pl, len(aad))))
				try(func() { ct = a.Seal(nil, nonce, pt, aad) })
				vtMark(emit(c.name+".Open", fmt.Sprintf("dst=nil,ct=%d", len(ct))))
				try(func() { a.Open(nil, nonce, ct, aad) })
				// in place, with a prefix, forged, truncated
				inpl := append(make([]byte, 0, pl+16), pt...)
				vtMark(emit(c.name+".Seal", fmt.Sprintf("in-place,pt=%d", pl)))
				try(func() { a.Seal(inpl[:0], nonce, inpl, aad) })
				pre := make([]byte, 5, 5+pl+16)
				vtMark(emit(c.name+".Seal", fmt.Sprintf("dst=prefix5+room,pt=%d", pl)))
				try(func() { a.Seal(pre, nonce, pt, aad) })
				{
					// every argument at an odd address inside a larger buffer
					n2, p2, a2, d2 := rng.Bytes(len(nonce) + 3)[3:], rng.Bytes(pl + 1)[1:], rng.Bytes(len(aad) + 5)[5:], make([]byte, 7, 7+pl+16+8)
					vtMark(emit(c.name+".Seal", fmt.Sprintf("all-arguments-at-odd-addresses,pt=%d,aad=%d", pl, len(aad))))
					var c3 []byte
					try(func() { c3 = a.Seal(d2, n2, p2, a2) })
					if len(c3) > 7 {
						vtMark(emit(c.name+".Open", fmt.Sprintf("all-arguments-at-odd-addresses,ct=%d", len(c3)-7)))
						try(func() { a.Open(make([]byte, 3, 3+pl+8), n2, c3[7:], a2) })
					}
				}
				if len(ct) > 0 {
					bad := append([]byte{}, ct...)
					bad[rng.Intn(len(bad))] ^= 0x20
					vtMark(emit(c.name+".Open", fmt.Sprintf("forged,ct=%d", len(ct))))
					try(func() { a.Open(nil, nonce, bad, aad) })
					vtMark(emit(c.name+".Open", fmt.Sprintf("in-place,ct=%d", len(ct))))
					c2 := append([]byte{}, ct...)
					try(func() { a.Open(c2[:0], nonce, c2, aad) })
					vtMark(emit(c.name+".Open", "shorter-than-tag"))
					try(func() { a.Open(nil, nonce, ct[:len(ct)%7], aad) })
				}
			}
		}
	}
	id++
	data, _ := json.Marshal(&zvPathPlan{ID: id, Op: "end", End: true})
	f.Write(append(data, '\n'))
	vtMark(id)
}
