//go:build verif

package sm4

import (
	"bytes"
	"fmt"
	"os"
	"strings"
	"testing"

	"github.com/bilibili/smgo/zzverif/hk"
	"github.com/bilibili/smgo/zzverif/ref"
)

// C11 / C17 — the runtime's electric-fence mode as a use-after-free sanitizer. With GODEBUG=efence=1 the Go
// runtime gives every object its own page, never reuses freed memory and FAULTS the old copy when a
// goroutine stack is moved. Code that keeps a raw address (uintptr) of stack or heap memory across a
// point where the runtime may move or free it - invisible to the race detector and to checkptr when
// the access is done by assembly - then touches a faulted page. The workload calls the public Block and
// AEAD methods from fresh goroutines at EVERY stack depth of a sweep (frames of 64 bytes up to 160 KiB),
// so that the stack growth 2K->4K->...->256K happens at every possible point inside the call, with dst
// shapes that allocate and that do not. Results are compared with the model.
//
// Run by the driver with GODEBUG=efence=1; without it the test still runs (depth sweep only).

//go:noinline
func zvEfenceRecurse(depth int, pad *[48]byte, f func()) byte {
	var local [48]byte
	local[depth%48] = pad[(depth+1)%48] + 1
	if depth == 0 {
		f()
		return local[0]
	}
	return zvEfenceRecurse(depth-1, &local, f) + local[depth%48]
}

func TestVerifEfenceSM4(t *testing.T) {
	r := hk.NewReporter(os.Getenv("VERIF_EFENCE_PROP"), "efence-stack-depth-sweep")
	if r.Prop == "" {
		r.Prop = "C11"
	}
	defer r.Close()
	if !strings.Contains(os.Getenv("GODEBUG"), "efence=1") {
		r.Note("efence", "GODEBUG=efence=1 not set: only the depth sweep runs")
	}
	rng := hk.NewRNG(hk.Seed(), "efence")
	key := rng.Bytes(16)
	g := ref.NewGCM(key)
	for _, asm := range zvPaths() {
		asm := asm
		zvWithAsm(asm, func() {
			pn := zvPathName(asm)
			blk, _ := NewCipher(key)
			type shape struct {
				nl, tag, pl int
			}
			shapes := []shape{{12, 16, 300}, {12, 12, 33}, {17, 16, 64}, {130, 16, 5}}
			var aeads []interface {
				Seal(dst, nonce, plaintext, additionalData []byte) []byte
				Open(dst, nonce, ciphertext, additionalData []byte) ([]byte, error)
			}
			for _, s := range shapes {
				a, _ := zvNewAEADFromBlock(blk, s.nl, s.tag)
				aeads = append(aeads, a)
			}
			step := hk.N(3, 1)
			maxDepth := hk.N(1400, 2600)
			for depth := int(hk.Seed() % uint64(step)); depth < maxDepth; depth += step {
				si := depth % len(shapes)
				s, a := shapes[si], aeads[si]
				nonce, pt, aad := rng.Bytes(s.nl), rng.Bytes(s.pl), rng.Bytes(20)
				want := g.Seal(nonce, pt, aad, s.tag)
				blockIn := rng.Bytes(16)
				wantBlk := ref.SM4Encrypt(key, blockIn)
				done := make(chan string, 1)
				go func() {
					bad := ""
					var pad [48]byte
					p, msg, isFault, addr := hk.Try(func() {
						zvEfenceRecurse(depth, &pad, func() {
							var got []byte
							switch depth % 3 {
							case 0:
								got = a.Seal(nil, nonce, pt, aad) // allocates inside
							case 1:
								got = a.Seal(make([]byte, 0, len(want)), nonce, pt, aad)
							default:
								got = a.Seal(make([]byte, 3, 3), nonce, pt, aad)[3:] // must grow
							}
							if !bytes.Equal(got, want) {
								bad = "Seal"
							}
							back, err := a.Open(nil, nonce, want, aad)
							if err != nil || !bytes.Equal(back, pt) {
								bad = "Open"
							}
							out := make([]byte, 16)
							blk.Encrypt(out, blockIn)
							if !bytes.Equal(out, wantBlk) {
								bad = "Encrypt"
							}
						})
					})
					if p {
						bad = fmt.Sprintf("panic (fault=%v addr=%#x): %s", isFault, addr, msg)
					}
					done <- bad
				}()
				if bad := <-done; bad != "" {
					r.Violation("call-at-stack-depth-fails:"+pn, hk.D{"depth_frames": depth, "approx_stack_bytes": depth * 112, "what": bad, "shape": fmt.Sprint(s), "efence": os.Getenv("GODEBUG")})
					break
				}
				r.Eval(fmt.Sprintf("%s|depth-sweep|stack~2^%d", pn, zvBitlenInt(depth*112+2048)))
			}
		})
	}
}
