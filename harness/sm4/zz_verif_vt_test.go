//go:build verif && amd64

package sm4

import (
	"encoding/json"
	"fmt"
	"os"
	"runtime"
	"runtime/debug"
	"strconv"
	"strings"
	"testing"
	"unsafe"

	"github.com/bilibili/smgo/zzverif/hk"
	"github.com/bilibili/smgo/zzverif/ref"
)

// Workload for the single-step tracer (tools/vtrace): every assembly routine is
// called with all buffers at FIXED addresses; only the contents change between
// the invocations of one length configuration. Before each call vtMark(id) is
// hit (a log-only breakpoint), and a plan file tells the offline monitor what
// invocation id was: routine, configuration, content class, buffer ranges.
//
// Run only under the tracer: VERIF_VT_PLAN must name the plan file.

var vtSink uint64

//go:noinline
func vtMark(id uint64) { vtSink += id }

type vtBuf struct {
	Addr uint64 `json:"addr"`
	Len  int    `json:"len"`
}

type vtPlan struct {
	ID      uint64           `json:"id"`
	Routine string           `json:"routine"`
	Config  string           `json:"config"`
	Class   string           `json:"class"`   // traces of one (routine, config, class) must be identical
	Content string           `json:"content"` // which content assignment
	Bufs    map[string]vtBuf `json:"bufs"`
	Secret  []string         `json:"secret"` // buffers whose bytes are taint sources
	Public  []string         `json:"public"` // buffers that carry no secret (lengths etc. are in registers)
	Ret     *int             `json:"ret,omitempty"`
}

type vtCtx struct {
	f      *os.File
	nextID uint64
	shardI int
	shardN int
	cfgIdx int
	rng    *hk.RNG
	// fixed buffers
	obj   []byte // cipher object: enc[32] | dec[32]
	key   []byte
	nonce []byte
	aad   []byte
	src   []byte
	dst   []byte
	temp  []byte
	H     []byte
	tag   []byte
}

func (c *vtCtx) buf(b []byte, n int) vtBuf {
	return vtBuf{Addr: uint64(uintptr(unsafe.Pointer(&b[0]))), Len: n}
}

func (c *vtCtx) emit(p *vtPlan) uint64 {
	c.nextID++
	p.ID = c.nextID
	data, _ := json.Marshal(p)
	c.f.Write(append(data, '\n'))
	return p.ID
}

// takeConfig implements sharding over length configurations.
func (c *vtCtx) takeConfig() bool {
	c.cfgIdx++
	return c.cfgIdx%c.shardN == c.shardI
}

func (c *vtCtx) enc() *uint32 { return (*uint32)(unsafe.Pointer(&c.obj[0])) }
func (c *vtCtx) dec() *uint32 { return (*uint32)(unsafe.Pointer(&c.obj[128])) }

func (c *vtCtx) setKey(key []byte) {
	rk := ref.SM4RoundKeys(key)
	e := (*[32]uint32)(unsafe.Pointer(&c.obj[0]))
	d := (*[32]uint32)(unsafe.Pointer(&c.obj[128]))
	for i := 0; i < 32; i++ {
		e[i] = rk[i]
		d[i] = rk[31-i]
	}
}

// content assignments: name -> filler
func vtFill(name string, rng *hk.RNG, b []byte) {
	switch name {
	case "zero":
		for i := range b {
			b[i] = 0
		}
	case "ones":
		for i := range b {
			b[i] = 0xff
		}
	default:
		rng.Fill(b)
	}
}

func TestVtraceWorkload(t *testing.T) {
	planPath := os.Getenv("VERIF_VT_PLAN")
	if planPath == "" {
		t.Skip("only runs under tools/vtrace")
	}
	if !zvAsmDetected {
		t.Skip("accelerated path not available on this CPU")
	}
	runtime.LockOSThread()
	debug.SetGCPercent(-1)
	f, err := os.Create(planPath)
	if err != nil {
		t.Fatal(err)
	}
	defer f.Close()
	si, sn := hk.Shard()
	c := &vtCtx{f: f, shardI: si, shardN: sn, rng: hk.NewRNG(hk.Seed(), "vtrace")}
	big := make([]byte, 16*4096)
	// carve fixed, 64-byte aligned buffers out of one allocation
	base := (64 - int(uintptr(unsafe.Pointer(&big[0]))%64)) % 64
	cut := func(n int) []byte {
		b := big[base : base+n : base+n]
		base += (n + 63) / 64 * 64
		return b
	}
	c.obj, c.key, c.nonce, c.aad = cut(256), cut(16), cut(320), cut(1200)
	c.src, c.dst, c.temp, c.H, c.tag = cut(8300+16), cut(8300+16), cut(32), cut(16), cut(16)

	thorough := hk.Thorough()
	contents := []string{"A", "B", "zero", "ones"}
	if thorough {
		contents = append(contents, "C")
	}
	which := os.Getenv("VERIF_VT_ROUTINES") // comma list; empty = all
	want := func(r string) bool {
		if !zvAsmDirectAvailable && (r == "sealAsm" || r == "openAsm") {
			return false // their declarations are not the ones the monitors were written for (tag verifnoasm)
		}
		if !zvAsmHelpersAvailable && (r == "copyAsm" || r == "needExpand") {
			return false // helper gone or declared differently on this tree (tag verifnohelpers)
		}
		return which == "" || strings.Contains(","+which+",", ","+r+",")
	}

	// ---------------------------------------------------------------- expandKeyAsm
	if want("expandKeyAsm") && c.takeConfig() {
		names := append([]string{}, contents...)
		for b := 0; b < 3; b++ {
			names = append(names, fmt.Sprintf("bit%d", b*50))
		}
		for _, cn := range names {
			vtFill(cn, c.rng, c.key)
			if strings.HasPrefix(cn, "bit") {
				n, _ := strconv.Atoi(cn[3:])
				for i := range c.key {
					c.key[i] = byte(0x3c + i)
				}
				c.key[n/8] ^= 1 << uint(n%8)
			}
			id := c.emit(&vtPlan{Routine: "expandKeyAsm", Config: "-", Class: "all", Content: cn,
				Bufs: map[string]vtBuf{"key": c.buf(c.key, 16), "obj": c.buf(c.obj, 256)}, Secret: []string{"key"}})
			vtMark(id)
			expandKeyAsm(&c.key[0], c.enc(), c.dec())
		}
	}
	// ---------------------------------------------------------------- block kernels
	type kern struct {
		name  string
		lanes int
		f     func(rk *uint32, dst, src *byte)
	}
	for _, k := range []kern{{"cryptoBlockAsm", 1, cryptoBlockAsm}, {"cryptoBlockAsmX2", 2, cryptoBlockAsmX2}, {"cryptoBlockAsmX4", 4, cryptoBlockAsmX4}, {"cryptoBlockAsmX8", 8, cryptoBlockAsmX8}, {"cryptoBlockAsmX16", 16, cryptoBlockAsmX16}} {
		for _, sched := range []string{"enc", "dec"} {
			if !want(k.name) || !c.takeConfig() {
				continue
			}
			for _, cn := range contents {
				vtFill(cn, c.rng, c.key)
				c.setKey(c.key)
				if cn == "zero" || cn == "ones" {
					vtFill(cn, c.rng, c.obj) // round keys themselves all-zero / all-one
				}
				vtFill(cn, c.rng, c.src[:16*k.lanes])
				rk := c.enc()
				if sched == "dec" {
					rk = c.dec()
				}
				id := c.emit(&vtPlan{Routine: k.name, Config: sched, Class: "all", Content: cn,
					Bufs: map[string]vtBuf{"obj": c.buf(c.obj, 256), "src": c.buf(c.src, 16*k.lanes), "dst": c.buf(c.dst, 16*k.lanes)}, Secret: []string{"obj", "src"}})
				vtMark(id)
				k.f(rk, &c.dst[0], &c.src[0])
			}
		}
	}
	// ---------------------------------------------------------------- gHashBlocks
	counts := []int{1, 2, 3, 4, 7, 8, 9, 10, 11, 12, 16, 19}
	if thorough {
		counts = nil
		for n := 1; n <= 40; n++ {
			counts = append(counts, n)
		}
	}
	for _, n := range counts {
		if !want("gHashBlocks") || !c.takeConfig() {
			continue
		}
		for _, cn := range contents {
			vtFill(cn, c.rng, c.H)
			vtFill(cn, c.rng, c.src[:16*n])
			vtFill(cn, c.rng, c.tag)
			id := c.emit(&vtPlan{Routine: "gHashBlocks", Config: fmt.Sprintf("count=%d", n), Class: "all", Content: cn,
				Bufs: map[string]vtBuf{"H": c.buf(c.H, 16), "tag": c.buf(c.tag, 16), "data": c.buf(c.src, 16*n)}, Secret: []string{"H", "tag", "data"}})
			vtMark(id)
			gHashBlocks(&c.H[0], &c.tag[0], &c.src[0], n)
		}
	}
	// ---------------------------------------------------------------- helpers
	for _, n := range []int{0, 1, 2, 3, 4, 7, 8, 9, 15, 16, 17, 31, 33, 100} {
		if !want("copyAsm") || !c.takeConfig() {
			continue
		}
		for _, cn := range contents[:3] {
			vtFill(cn, c.rng, c.src[:n+1])
			id := c.emit(&vtPlan{Routine: "copyAsm", Config: fmt.Sprintf("len=%d", n), Class: "all", Content: cn,
				Bufs: map[string]vtBuf{"src": c.buf(c.src, n), "dst": c.buf(c.dst, n)}, Secret: []string{"src"}})
			vtMark(id)
			vCopyAsm(&c.dst[0], &c.src[0], n)
		}
	}
	for _, sh := range [][3]int{{0, 0, 0}, {0, 0, 16}, {5, 40, 35}, {5, 40, 36}, {16, 16, 1}, {0, 28, 28}} {
		if !want("needExpand") || !c.takeConfig() {
			continue
		}
		for _, cn := range contents[:3] {
			vtFill(cn, c.rng, c.dst[:64])
			arr := c.dst[:sh[0]:sh[1]]
			id := c.emit(&vtPlan{Routine: "needExpand", Config: fmt.Sprintf("len=%d,cap=%d,asked=%d", sh[0], sh[1], sh[2]), Class: "all", Content: cn,
				Bufs: map[string]vtBuf{"array": c.buf(c.dst, sh[1])}, Secret: []string{"array"}})
			vtMark(id)
			vtSink += uint64(vNeedExpand(arr, sh[2]))
		}
	}
	// ---------------------------------------------------------------- sealAsm / openAsm
	type gcfg struct{ nl, al, pl, tag int }
	var cfgs []gcfg
	ptLens := []int{0, 1, 15, 16, 17, 31, 32, 33, 48, 63, 64, 65, 96, 127, 128, 129, 192, 255, 256, 257, 300, 511, 512, 513, 1100}
	aadLens := []int{0, 1, 15, 16, 17, 31, 32, 64, 127, 128, 129, 160, 200}
	nonceLens := []int{1, 11, 13, 15, 16, 17, 32, 33, 127, 128, 129, 144, 200}
	if thorough {
		for pl := 0; pl <= 1100; pl++ {
			cfgs = append(cfgs, gcfg{12, []int{0, 20, 16}[pl%3], pl, 16})
		}
		for al := 0; al <= 300; al++ {
			cfgs = append(cfgs, gcfg{12, al, []int{0, 33, 64}[al%3], 16})
		}
		for nl := 1; nl <= 300; nl++ {
			cfgs = append(cfgs, gcfg{nl, []int{0, 5}[nl%2], []int{0, 17, 40}[nl%3], 16})
		}
		for tag := 12; tag <= 16; tag++ {
			for _, pl := range []int{0, 1, 2, 3, 4, 15, 16, 17, 33, 100} {
				cfgs = append(cfgs, gcfg{12, 7, pl, tag})
			}
		}
	} else {
		for _, pl := range ptLens {
			cfgs = append(cfgs, gcfg{12, 20, pl, 16})
		}
		for _, al := range aadLens {
			cfgs = append(cfgs, gcfg{12, al, 33, 16})
		}
		for _, nl := range nonceLens {
			cfgs = append(cfgs, gcfg{nl, 5, 17, 16})
		}
		for tag := 12; tag <= 15; tag++ {
			cfgs = append(cfgs, gcfg{12, 7, []int{1, 2, 3, 17}[tag-12], tag})
		}
		cfgs = append(cfgs, gcfg{129, 129, 257, 16}, gcfg{16, 0, 0, 12}, gcfg{12, 0, 0, 16})
	}
	// messages long enough for several rounds of the 16-block loop and its look-ahead logic (both tiers)
	cfgs = append(cfgs, gcfg{12, 20, 1536, 16}, gcfg{12, 0, 2048 + 5, 16}, gcfg{12, 16, 4096 + 17, 16}, gcfg{13, 3, 8192 + 1, 16})
	for _, g := range cfgs {
		if !(want("sealAsm") || want("openAsm")) || !c.takeConfig() {
			continue
		}
		cfgName := fmt.Sprintf("nonce=%d,aad=%d,pt=%d,tag=%d", g.nl, g.al, g.pl, g.tag)
		type content struct {
			name                string
			key, nonce, aad, pt []byte
		}
		var cs []content
		for _, cn := range contents {
			x := content{name: cn, key: make([]byte, 16), nonce: make([]byte, g.nl), aad: make([]byte, g.al), pt: make([]byte, g.pl)}
			vtFill(cn, c.rng, x.key)
			vtFill(cn, c.rng, x.nonce)
			vtFill(cn, c.rng, x.aad)
			vtFill(cn, c.rng, x.pt)
			cs = append(cs, x)
		}
		load := func(x content) {
			c.setKey(x.key)
			copy(c.nonce, x.nonce)
			copy(c.aad, x.aad)
		}
		bufs := func(inName string, inLen, outLen int) map[string]vtBuf {
			m := map[string]vtBuf{"obj": c.buf(c.obj, 256), "nonce": c.buf(c.nonce, g.nl), "aad": c.buf(c.aad, g.al), inName: c.buf(c.src, inLen), "dst": c.buf(c.dst, outLen), "temp": c.buf(c.temp, 32)}
			return m
		}
		if want("sealAsm") {
			for _, x := range cs {
				load(x)
				copy(c.src, x.pt)
				for i := range c.temp {
					c.temp[i] = 0
				}
				id := c.emit(&vtPlan{Routine: "sealAsm", Config: cfgName, Class: "seal", Content: x.name, Bufs: bufs("plaintext", g.pl, g.pl+g.tag),
					Secret: []string{"obj", "plaintext", "nonce", "aad"}})
				vtMark(id)
				vSealAsm(c.enc(), g.tag, &c.dst[0], c.nonce[:g.nl], c.src[:g.pl], c.aad[:g.al], &c.temp[0])
			}
		}
		if want("openAsm") {
			type probe struct {
				x     content
				ct    []byte
				class string
				name  string
			}
			var ps []probe
			for _, x := range cs {
				sealed := ref.NewGCM(x.key).Seal(x.nonce, x.pt, x.aad, g.tag)
				ps = append(ps, probe{x, sealed, "open-authentic", x.name})
			}
			a := cs[0]
			sa := ref.NewGCM(a.key).Seal(a.nonce, a.pt, a.aad, g.tag)
			ps = append(ps, probe{a, zvFlipBit(sa, g.pl*8), "open-forged", "A:tag-first-bit"})
			ps = append(ps, probe{a, zvFlipBit(sa, len(sa)*8-1), "open-forged", "A:tag-last-bit"})
			if g.pl > 0 {
				ps = append(ps, probe{a, zvFlipBit(sa, 3), "open-forged", "A:ciphertext-bit"})
			}
			b := cs[1]
			sb := ref.NewGCM(b.key).Seal(b.nonce, b.pt, b.aad, g.tag)
			ps = append(ps, probe{b, zvFlipBit(sb, (g.pl+g.tag/2)*8), "open-forged", "B:tag-middle-bit"})
			zr := cs[2]
			ps = append(ps, probe{zr, make([]byte, g.pl+g.tag), "open-forged", "zero:all-zero-ciphertext"})
			for _, p := range ps {
				load(p.x)
				copy(c.src, p.ct)
				for i := range c.temp {
					c.temp[i] = 0
				}
				one := 1
				zero := 0
				ret := &one
				if p.class == "open-forged" {
					ret = &zero
				}
				id := c.emit(&vtPlan{Routine: "openAsm", Config: cfgName, Class: p.class, Content: p.name, Bufs: bufs("ciphertext", g.pl+g.tag, g.pl+1),
					Secret: []string{"obj", "ciphertext", "nonce", "aad"}, Ret: ret})
				vtMark(id)
				got := vOpenAsm(c.enc(), g.tag, &c.dst[0], c.nonce[:g.nl], c.src[:g.pl+g.tag], c.aad[:g.al], &c.temp[0])
				if got != *ret {
					// the functional result is C07's business; record it so that the monitor can flag a mislabelled class
					c.emit(&vtPlan{Routine: "openAsm", Config: cfgName, Class: "unexpected-verdict", Content: p.name, Ret: &got})
				}
			}
		}
	}
	c.emit(&vtPlan{Routine: "end", Config: "-", Class: "-", Content: "-"})
}
