//go:build verif && verifnoasm

package sm4

// Fallback when the declarations of sealAsm / openAsm are not the ones the monitors were written for: direct calls
// are unavailable, sections that need them are skipped.

const zvAsmDirectAvailable = false

func vSealAsm(rk *uint32, tagSize int, dst *byte, nonce, plaintext, aad []byte, temp *byte) {
	panic("direct call unavailable")
}

func vOpenAsm(rk *uint32, tagSize int, dst *byte, nonce, ciphertext, aad []byte, temp *byte) int {
	panic("direct call unavailable")
}
