//go:build verif

#include "com_amd64.s"

// func verifAffine64(dst, src *byte)  -- S-box of 64 bytes through the affine macro
TEXT ·verifAffine64(SB),NOSPLIT,$0-16
    MOVQ dst+0(FP), DI
    MOVQ src+8(FP), SI
    loadMatrix(VzPreMatrix, VzPostMatrix, AX, BX)
    VMOVDQU32 (SI), VzSrc
    affine(VzPreMatrix, VzPostMatrix, VzSrc, VzInterim, VzDst)
    VMOVDQU32 VzDst, (DI)
    RET
