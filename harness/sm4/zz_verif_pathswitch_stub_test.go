//go:build verif && verifnoswitch

package sm4

const zvSwitchAvailable = false

// what the library ought to select is read off the CPU (the condition the README documents): no library call is made
// here, so that the first NewCipher of the process is still the workload's
func zvGetAsm() bool { return zvCpuHasDocumentedFeatures() }

func zvSetAsm(on bool) {}
