//go:build verif

package sm4

import (
	"bytes"
	"crypto/cipher"
	"fmt"
	"testing"

	"github.com/bilibili/smgo/zzverif/hk"
	"github.com/bilibili/smgo/zzverif/ref"
)

// C06 — Seal against SP 800-38D GCM over the reference SM4, on both
// executable paths (fused assembly; standard library generic mode over the
// portable cipher), including counter wrap through solved nonces.

func TestVerifC06(t *testing.T) {
	r := hk.NewReporter("C06", "gcm-seal")
	defer r.Close()
	if err := ref.SelfTestSM4(false); err != nil {
		r.Inconclusive("oracle self-test: " + err.Error())
		return
	}
	if err := ref.SelfTestGCM(); err != nil {
		r.Inconclusive("oracle self-test: " + err.Error())
		return
	}
	rng := hk.NewRNG(hk.Seed(), "c06")
	// FIRST, before anything else shares the heap with the calls under observation: every tag size with the destination's
	// capacity exactly the size of the result, ending at an inaccessible page. A Seal that writes more than
	// len(plaintext)+tagSize bytes (a full 16-byte tag that is cut afterwards) faults here - in the rest of the check the
	// same write would land in some other heap object, possibly the model's, and nothing seen afterwards could be trusted.
	for _, asm := range zvPaths() {
		bad := false
		zvWithAsm(asm, func() {
			pn := zvPathName(asm)
			key := rng.Bytes(16)
			g := ref.NewGCM(key)
			for tag := 12; tag <= 16; tag++ {
				a, err := zvNewAEAD(key, 12, tag)
				if err != nil {
					continue
				}
				for _, pl := range []int{0, 1, 4, 15, 16, 20, 33, 100} {
					nonce, pt, aad := rng.Bytes(12), rng.Bytes(pl), rng.Bytes(pl%7)
					gb := hk.NewGuarded(pl+tag, hk.PlaceEnd)
					var out []byte
					p, pm, isFault, _ := hk.Try(func() { out = a.Seal(gb.B[:0], nonce, pt, aad) })
					if p || !bytes.Equal(out, g.Seal(nonce, pt, aad, tag)) {
						r.Violation(fmt.Sprintf("seal-differs-from-sp800-38d:%s:dst-of-exact-capacity-before-an-inaccessible-page", pn), hk.D{"key": hk.Hex(key), "nonce": hk.Hex(nonce), "pt": hk.Hex(pt), "aad": hk.Hex(aad), "tag_size": tag, "panic": pm, "write_fault_behind_dst": isFault, "got": hk.Hex(out)})
						bad = bad || isFault
					}
					gb.Free()
					r.Eval(fmt.Sprintf("%s|exact-capacity-guarded-dst|tag=%d", pn, tag))
				}
			}
		})
		if bad {
			return // the path writes outside its destination: the heap of this process is not to be trusted any further
		}
	}
	cases := zvGcmCases(rng, hk.N(1, 2))
	cases = append(cases, zvWrapCases(rng, hk.N(80, 300))...)
	// lengths whose BIT length needs more than 24 bits (exercises the upper bytes of the length block)
	big := 1 << 21
	cases = append(cases, &zvGcmCase{key: rng.Bytes(16), nonce: rng.Bytes(12), aad: rng.Bytes(big + 5), pt: rng.Bytes(16), tag: 16, label: "large-aad"})
	cases = append(cases, &zvGcmCase{key: rng.Bytes(16), nonce: rng.Bytes(12), aad: rng.Bytes(3), pt: rng.Bytes(big + 3), tag: 16, label: "large-pt"})
	if hk.Thorough() {
		cases = append(cases, &zvGcmCase{key: rng.Bytes(16), nonce: rng.Bytes(13), aad: rng.Bytes(1<<24 + 1), pt: rng.Bytes(1<<24 + 17), tag: 16, label: "large-aad"})
	}
	// the OpenSSL fixtures, replayed against the implementation directly
	kats, err := ref.LoadGCM()
	if err != nil {
		r.Inconclusive("fixtures: " + err.Error())
		return
	}
	for i, k := range kats {
		cases = append(cases, &zvGcmCase{key: hk.Unhex(k.Key), nonce: hk.Unhex(k.Nonce), aad: hk.Unhex(k.Aad), pt: hk.Unhex(k.Pt), tag: len(k.Tag) / 2, label: fmt.Sprintf("openssl-kat-%d:%s", i, k.Ct+k.Tag)})
	}
	r.Note("cases", len(cases))
	r.Sample(hk.D{"label": cases[10].label, "lens": cases[10].detail()["lens"], "key": hk.Hex(cases[10].key), "nonce": hk.Hex(cases[10].nonce)})
	wc := cases[len(cases)-len(kats)-3]
	r.Sample(hk.D{"label": wc.label, "nonce": hk.Hex(wc.nonce), "key": hk.Hex(wc.key), "j0": hk.Hex(func() []byte { j := ref.NewGCM(wc.key).J0(wc.nonce); return j[:] }())})

	// the wrap construction must really produce the intended pre-counter block
	for _, c := range cases {
		if len(c.label) > 12 && c.label[:12] == "counter-wrap" {
			j0 := ref.NewGCM(c.key).J0(c.nonce)
			var j int
			fmt.Sscanf(c.label, "counter-wrap:j=%d", &j)
			low := uint32(j0[12])<<24 | uint32(j0[13])<<16 | uint32(j0[14])<<8 | uint32(j0[15])
			if low != uint32(0)-uint32(j) {
				r.Inconclusive("nonce solver did not reach the target counter")
				return
			}
		}
	}

	// long-lived objects: ONE Block / AEAD per family serves a random sequence of messages of all
	// length classes, each compared with the model (state must not leak from call to call)
	for _, asm := range zvPaths() {
		asm := asm
		zvWithAsm(asm, func() {
			pn := zvPathName(asm)
			for fam := 0; fam < 6; fam++ {
				nl, tag := []int{12, 12, 12, 17, 129, 1}[fam], []int{16, 12, 14, 16, 16, 16}[fam]
				key := rng.Bytes(16)
				blk, berr := NewCipher(key)
				if berr != nil {
					continue
				}
				a, err := zvNewAEADFromBlock(blk, nl, tag)
				if err != nil {
					continue
				}
				g := ref.NewGCM(key)
				refBlk := ref.NewSM4Block(key)
				for step := 0; step < hk.N(150, 1500); step++ {
					// the Block the AEAD was made from stays in use as a block cipher in between (a key-wrap, a CMAC, a
					// single-block decryption with the same key): sealing must not depend on what the Block was last asked to do
					if step%4 == 1 || step%7 == 3 {
						in, out, want := rng.Bytes(16), make([]byte, 16), make([]byte, 16)
						if step%4 == 1 {
							blk.Decrypt(out, in)
							refBlk.Decrypt(want, in)
						} else {
							blk.Encrypt(out, in)
							refBlk.Encrypt(want, in)
						}
						if !bytes.Equal(out, want) {
							r.Violation(fmt.Sprintf("block-wrong-between-seals:%s:long-lived-aead", pn), hk.D{"step": step, "key": hk.Hex(key), "block": hk.Hex(in), "decrypt": step%4 == 1})
							break
						}
					}
					nonce := rng.Bytes(nl)
					aad := rng.Bytes(rng.Pick(zvLenClasses[:20]))
					pt := rng.Bytes(rng.Pick(zvLenClasses))
					want := g.Seal(nonce, pt, aad, tag)
					got := a.Seal(nil, nonce, pt, aad)
					if !bytes.Equal(got, want) {
						r.Violation(fmt.Sprintf("seal-differs-from-sp800-38d:%s:long-lived-aead", pn), hk.D{"step": step, "key": hk.Hex(key), "nonce": hk.Hex(nonce), "aad": zvClip(aad), "pt": zvClip(pt), "tag_size": tag})
						break
					}
					if step%3 == 0 {
						back, err := a.Open(nil, nonce, got, aad)
						if err != nil || !bytes.Equal(back, pt) {
							r.Violation(fmt.Sprintf("open-fails-on-own-seal:%s:long-lived-aead", pn), hk.D{"step": step})
							break
						}
					}
				}
				r.EvalN(fmt.Sprintf("%s|long-lived-aead|nonce=%d,tag=%d", pn, nl, tag), hk.N(150, 1500))
				// a nonce whose length is NOT the AEAD's NonceSize (shorter or longer, cut from a buffer with spare capacity):
				// the standard library's generic mode over a portable cipher refuses the call (it panics); the outcome must
				// not depend on the path, so this path must refuse it too - not seal under a truncated or extended nonce
				if std, err := zvNewAEADFromBlock(ref.NewSM4Block(key), nl, tag); err == nil {
					buf := rng.Bytes(nl + 40)
					pt := rng.Bytes(21)
					for _, wl := range []int{nl - 1, nl + 1, nl + 4, nl / 2, nl + 16} {
						if wl < 0 || wl == nl {
							continue
						}
						var out []byte
						stdRefuses, _, _, _ := hk.Try(func() { std.Seal(nil, buf[:wl], pt, nil) })
						refuses, _, _, _ := hk.Try(func() { out = a.Seal(nil, buf[:wl], pt, nil) })
						if stdRefuses && !refuses {
							r.Violation(fmt.Sprintf("outcome-depends-on-path:nonce-of-wrong-length-accepted:%s", pn), hk.D{"key": hk.Hex(key), "nonce_size_of_aead": nl, "nonce_length_given": wl, "nonce_capacity": cap(buf[:wl]), "output": hk.Hex(out),
								"standard_library_generic_mode": "panics"})
						}
						stdRefuses, _, _, _ = hk.Try(func() { std.Open(nil, buf[:wl], rng.Bytes(21+tag), nil) })
						var oerr error
						refuses, _, _, _ = hk.Try(func() { _, oerr = a.Open(nil, buf[:wl], rng.Bytes(21+tag), nil) })
						if stdRefuses && !refuses {
							r.Violation(fmt.Sprintf("outcome-depends-on-path:nonce-of-wrong-length-accepted-by-open:%s", pn), hk.D{"key": hk.Hex(key), "nonce_size_of_aead": nl, "nonce_length_given": wl, "error": fmt.Sprint(oerr), "standard_library_generic_mode": "panics"})
						}
						r.Eval(fmt.Sprintf("%s|nonce-of-wrong-length|nonce=%d,given=%+d", pn, nl, wl-nl))
					}
				}
			}
		})
	}
	// additional data of 2^29 bytes and more: the bit length no longer fits 32 bits. The oracle is exact
	// and cheap: leading ZERO blocks leave the (initially zero) GHASH state at zero, so the tag for
	// 0^(2^29) || aad' equals the model's computation over aad' alone with the true length in the
	// length block.
	{
		const zeros = 1 << 29
		key, nonce := rng.Bytes(16), rng.Bytes(12)
		tail := rng.Bytes(21)
		pt := rng.Bytes(37)
		huge := make([]byte, zeros+len(tail))
		copy(huge[zeros:], tail)
		want := ref.NewGCM(key).SealZeroPrefixedAAD(nonce, pt, zeros, tail, 16)
		for _, asm := range zvPaths() {
			asm := asm
			if !asm && !hk.Thorough() {
				continue // the std-lib generic path needs seconds for 512 MiB; thorough only
			}
			zvWithAsm(asm, func() {
				a, err := zvNewAEAD(key, 12, 16)
				if err != nil {
					return
				}
				got := a.Seal(nil, nonce, pt, huge)
				if !bytes.Equal(got, want) {
					r.Violation(fmt.Sprintf("seal-differs-from-sp800-38d:%s:aad>=2^29-bytes", zvPathName(asm)), hk.D{"key": hk.Hex(key), "nonce": hk.Hex(nonce), "aad": "0^(2^29) || " + hk.Hex(tail), "pt": hk.Hex(pt), "got": hk.Hex(got), "want": hk.Hex(want)})
				}
				// and the forgery this would enable: the short-aad message must not open under the long aad
				short := ref.NewGCM(key).Seal(nonce, pt, tail, 16)
				if _, err := a.Open(nil, nonce, short, huge); err == nil {
					r.Violation(fmt.Sprintf("open-accepts-message-under-zero-prefixed-aad:%s", zvPathName(asm)), hk.D{"key": hk.Hex(key)})
				}
				r.Eval(zvPathName(asm) + "|aad>=2^29-bytes")
			})
		}
	}
	// a PLAINTEXT of 2^28+5 bytes (an untouched zero mapping), sealed in one call: far below the limit of SP 800-38D
	// (2^36-32 bytes), far above every length the other cases use - a limit test that counts in the wrong unit refuses it.
	// The oracle is partial but exact where it looks: no panic; the ciphertext blocks at the start, around the 2^24-th
	// counter value and at the end equal the plaintext xor E_K(counter) of the model; the library's own Open accepts the
	// result in place and returns the zeros; one flipped tag bit is refused.
	for _, asm := range zvPaths() {
		if !asm && !hk.Thorough() {
			continue
		}
		zvWithAsm(asm, func() {
			pn := zvPathName(asm)
			n := 1<<28 + 5
			z := hk.ZeroMap(n+4096, false)
			if z == nil {
				return
			}
			defer hk.Unmap(z)
			key, nonce, aad := rng.Bytes(16), rng.Bytes(12), rng.Bytes(11)
			a, err := zvNewAEAD(key, 12, 16)
			if err != nil {
				return
			}
			var ct []byte
			p, msg, _, _ := hk.Try(func() { ct = a.Seal(nil, nonce, z[:n], aad) })
			d := hk.D{"key": hk.Hex(key), "nonce": hk.Hex(nonce), "aad": hk.Hex(aad), "plaintext": fmt.Sprintf("0^%d", n), "panic": msg}
			if p || len(ct) != n+16 {
				d["result_len"] = len(ct)
				r.Violation("seal-refuses-or-truncates-a-plaintext-of-2^28-bytes:"+pn, d)
				return
			}
			g := ref.NewGCM(key)
			j0 := g.J0(nonce)
			blkRef := ref.NewSM4Block(key)
			for _, bi := range []int{0, 1, 1<<24 - 3, 1<<24 - 2, 1<<24 - 1, 1 << 24, n/16 - 1, n / 16} {
				ctr := j0
				c := uint32(ctr[12])<<24 | uint32(ctr[13])<<16 | uint32(ctr[14])<<8 | uint32(ctr[15])
				c += uint32(bi) + 1
				ctr[12], ctr[13], ctr[14], ctr[15] = byte(c>>24), byte(c>>16), byte(c>>8), byte(c)
				ks := make([]byte, 16)
				blkRef.Encrypt(ks, ctr[:])
				end := 16*bi + 16
				if end > n {
					end = n
				}
				if !bytes.Equal(ct[16*bi:end], ks[:end-16*bi]) {
					d["block_index"], d["got"], d["want"] = bi, hk.Hex(ct[16*bi:end]), hk.Hex(ks[:end-16*bi])
					r.Violation("seal-differs-from-sp800-38d:"+pn+":plaintext-of-2^28-bytes", d)
					return
				}
			}
			ct[n+3] ^= 0x10
			if _, err := a.Open(nil, nonce, ct[:n+16:n+16], aad); err == nil {
				r.Violation("open-accepts-flipped-tag:"+pn+":plaintext-of-2^28-bytes", d)
			}
			ct[n+3] ^= 0x10
			back, oerr := a.Open(ct[:0], nonce, ct, aad)
			if oerr != nil || len(back) != n || !bytes.Equal(back[:4096], z[:4096]) || !bytes.Equal(back[n-4096:], z[:4096]) {
				d["err"] = fmt.Sprint(oerr)
				r.Violation("open-rejects-own-seal:"+pn+":plaintext-of-2^28-bytes", d)
			}
			r.Eval(pn + "|plaintext=2^28+5")
		})
	}
	// NONCES of 2^31+12, 2^32+12, 2^32+13 bytes (and 2^24+12): the length that selects the 96-bit derivation is
	// compared at full width only if nobody narrows it. All-zero nonces (an untouched zero mapping, optionally a
	// short non-zero tail) have an exact O(1) oracle: zero blocks keep the GHASH state at zero.
	if zvAsmDetected {
		zvWithAsm(true, func() {
			big := hk.ZeroMap(1<<32+1<<18, true)
			if big == nil {
				r.Inconclusive("c06: cannot map 4 GiB for the giant nonces")
				return
			}
			defer hk.Unmap(big)
			sizes := []int{1<<24 + 12, 1<<31 + 12, 1<<32 + 12, 1<<32 + 13}
			if hk.Thorough() {
				sizes = append(sizes, 1<<32+16, 1<<31+28, 1<<16+12+1<<32)
			}
			for _, nl := range sizes {
				key, pt, aad := rng.Bytes(16), rng.Bytes(45), rng.Bytes(9)
				blk, _ := NewCipher(key)
				a, err := cipher.NewGCMWithNonceSize(blk, nl)
				if err != nil {
					r.Violation("cannot-construct-aead:asm", hk.D{"nonce_size": nl, "err": err.Error()})
					continue
				}
				zeros := uint64(nl) &^ 15
				tailLen := nl - int(zeros)
				tail := rng.Bytes(tailLen)
				copy(big[zeros:], tail)
				g := ref.NewGCM(key)
				want := g.SealJ0(g.J0ZeroPrefixed(zeros, tail), pt, aad, 16)
				var got []byte
				p, msg, _, _ := hk.Try(func() { got = a.Seal(nil, big[:nl], pt, aad) })
				d := hk.D{"key": hk.Hex(key), "nonce": fmt.Sprintf("0^%d || %s (%d bytes)", zeros, hk.Hex(tail), nl), "aad": hk.Hex(aad), "pt": hk.Hex(pt)}
				if p {
					d["panic"] = msg
					r.Violation("seal-panics:asm:giant-nonce", d)
				} else if !bytes.Equal(got, want) {
					d["got"], d["want"] = hk.Hex(got), hk.Hex(want)
					r.Violation("seal-differs-from-sp800-38d:asm:giant-nonce", d)
				} else if back, err := a.Open(nil, big[:nl], want, aad); err != nil || !bytes.Equal(back, pt) {
					r.Violation("open-rejects-reference-message:asm:giant-nonce", d)
				}
				for i := range tail {
					big[int(zeros)+i] = 0
				}
				r.Eval(fmt.Sprintf("asm|giant-nonce|2^%d+%d", zvBitlenInt(nl)-1, nl-1<<uint(zvBitlenInt(nl)-1)))
			}
		})
	}
	// ONE AEAD shared by all workers sealing different messages at the same time
	for _, asm := range zvPaths() {
		asm := asm
		zvWithAsm(asm, func() {
			pn := zvPathName(asm)
			key := rng.Bytes(16)
			a, err := zvNewAEAD(key, 13, 16)
			if err != nil {
				return
			}
			g := ref.NewGCM(key)
			type job struct{ nonce, aad, pt, want []byte }
			jobs := make([]job, hk.N(3000, 30000))
			for i := range jobs {
				j := job{nonce: rng.Bytes(13), aad: rng.Bytes(rng.Pick([]int{0, 5, 16, 21})), pt: rng.Bytes(rng.Pick([]int{1, 5, 17, 33, 100}))}
				jobs[i] = j
			}
			hk.Parallel(len(jobs), func(i int) {
				j := &jobs[i]
				want := g.Seal(j.nonce, j.pt, j.aad, 16)
				got := a.Seal(nil, j.nonce, j.pt, j.aad)
				if !bytes.Equal(got, want) {
					r.Violation(fmt.Sprintf("seal-differs-from-sp800-38d:%s:shared-aead-concurrent", pn), hk.D{"key": hk.Hex(key), "nonce": hk.Hex(j.nonce), "aad": hk.Hex(j.aad), "pt": hk.Hex(j.pt)})
				}
			})
			r.EvalN(pn+"|shared-aead-concurrent", len(jobs))
			// object lifetimes: an AEAD must keep sealing correctly after sibling AEADs / its Block were collected
			zvLifetimeHistories(r, rng, pn, hk.N(4, 24), false, false, true)
			// the caller's KEY BUFFER is reused: overwritten in place with key after key (and with an earlier key again);
			// every cipher built from it must be the cipher of the bytes it held at that moment
			{
				kbuf := make([]byte, 16)
				ks := [][]byte{rng.Bytes(16), rng.Bytes(16), rng.Bytes(16)}
				for step := 0; step < hk.N(40, 400); step++ {
					k := ks[rng.Intn(len(ks))]
					copy(kbuf, k)
					a, err := zvNewAEAD(kbuf, 12, 16)
					if err != nil {
						r.Violation("cannot-construct-aead:"+pn, hk.D{"err": err.Error()})
						continue
					}
					nonce, aad, pt := rng.Bytes(12), rng.Bytes(rng.Intn(20)), rng.Bytes(rng.Intn(70))
					want := ref.NewGCM(k).Seal(nonce, pt, aad, 16)
					if got := a.Seal(nil, nonce, pt, aad); !bytes.Equal(got, want) {
						r.Violation("seal-differs-from-sp800-38d:"+pn+":key-buffer-reused-by-the-caller", hk.D{"key": hk.Hex(k), "nonce": hk.Hex(nonce), "aad": hk.Hex(aad), "pt": hk.Hex(pt), "got": hk.Hex(got), "want": hk.Hex(want), "step": step})
						break
					}
					r.Eval(pn + "|key-buffer-reused")
				}
			}
		})
	}
	for _, asm := range zvPaths() {
		asm := asm
		zvWithAsm(asm, func() {
			pn := zvPathName(asm)
			hk.Parallel(len(cases), func(i int) {
				if !hk.InShard(i) {
					return
				}
				c := cases[i]
				want := ref.NewGCM(c.key).Seal(c.nonce, c.pt, c.aad, c.tag)
				if len(c.label) > 11 && c.label[:11] == "openssl-kat" {
					// third opinion: OpenSSL's bytes
					exp := c.label[len(c.label)-2*len(want):]
					if hk.Hex(want) != exp {
						r.Inconclusive("model disagrees with OpenSSL fixture")
						return
					}
				}
				aead, err := zvNewAEAD(c.key, len(c.nonce), c.tag)
				if err == zvErrComboUnreachable {
					r.Class("trivial:nonce-x-tag-not-offered-on-this-path")
					return
				}
				if err != nil {
					r.Violation("cannot-construct-aead:"+pn, hk.D{"err": err.Error(), "nonce": len(c.nonce), "tag": c.tag})
					return
				}
				if aead.NonceSize() != len(c.nonce) || aead.Overhead() != c.tag {
					r.Violation("aead-reports-wrong-sizes:"+pn, hk.D{"nonce": aead.NonceSize(), "overhead": aead.Overhead()})
				}
				var got []byte
				p, msg, _, _ := hk.Try(func() { got = aead.Seal(nil, c.nonce, c.pt, c.aad) })
				cls := c.class()
				lab := c.label
				if len(lab) > 12 && lab[:12] == "counter-wrap" {
					lab = "counter-wrap"
				} else if len(lab) > 11 && lab[:11] == "openssl-kat" {
					lab = "openssl-kat"
				}
				if p {
					d := c.detail()
					d["panic"] = msg
					r.Violation(fmt.Sprintf("seal-panics:%s:%s", pn, lab), d)
				} else if !bytes.Equal(got, want) {
					d := c.detail()
					d["got"], d["want"] = zvClip(got), zvClip(want)
					where := "tag"
					if len(got) != len(want) {
						where = "length"
					} else if !bytes.Equal(got[:len(c.pt)], want[:len(c.pt)]) {
						where = "ciphertext"
						for b := 0; b < len(c.pt); b++ {
							if got[b] != want[b] {
								d["first_wrong_byte"] = b
								break
							}
						}
					}
					r.Violation(fmt.Sprintf("seal-differs-from-sp800-38d:%s:%s:%s", pn, lab, where), d)
				}
				// the same message sealed INTO a caller's buffer (prefix kept, room exact / ample / missing, in place):
				// the standard's output must follow the prefix
				if !p && i%2 == 0 {
					pre := []int{1, 5, 16, 33}[(i/8)%4]
					shape := (i / 2) % 5
					pt := c.pt
					var dst []byte
					switch shape {
					case 4:
						// in place, but the plaintext's array has NO room for the tag: the result needs a new array while the
						// old one still holds the plaintext that is being read
						buf := make([]byte, len(c.pt))
						copy(buf, c.pt)
						pt, dst, pre = buf, buf[:0:len(buf)], 0
					case 0:
						dst = make([]byte, pre, pre+len(c.pt)+c.tag)
					case 1:
						dst = make([]byte, pre, pre+len(c.pt)+c.tag+37)
					case 2:
						dst = make([]byte, pre, pre+len(c.pt)/2)
					default:
						buf := make([]byte, len(c.pt), len(c.pt)+c.tag)
						copy(buf, c.pt)
						pt, dst, pre = buf, buf[:0], 0
					}
					for k := range dst {
						dst[k] = byte(0xC0 + k)
					}
					keep := append([]byte{}, dst...)
					var got2 []byte
					p2, msg2, _, _ := hk.Try(func() { got2 = aead.Seal(dst, c.nonce, pt, c.aad) })
					if p2 || len(got2) != pre+len(want) || !bytes.Equal(got2[:pre], keep) || !bytes.Equal(got2[pre:], want) {
						d := c.detail()
						d["panic"], d["dst_shape"], d["dst_len"], d["returned"] = msg2, []string{"exact-room", "ample-room", "too-little-room", "in-place", "in-place-without-room-for-the-tag"}[shape], pre, zvClip(got2)
						r.Violation(fmt.Sprintf("seal-into-dst-differs-from-sp800-38d:%s:%s", pn, lab), d)
					}
				}
				if lab == "counter-wrap" {
					r.Eval(pn + "|" + c.label + "|pt[" + zvKernelClass(len(c.pt)) + "]")
					r.Count("wrap_positions_"+pn, 1)
				} else {
					r.Eval(pn + "|" + cls)
				}
			})
		})
	}
}

func zvBitlenInt(v int) int {
	n := 0
	for ; v > 0; v >>= 1 {
		n++
	}
	return n
}
