//go:build verif && amd64

package sm4

import (
	"fmt"
	"os"
	"strconv"
	"strings"
	"testing"
	"unsafe"

	"github.com/bilibili/smgo/zzverif/hk"
	"github.com/bilibili/smgo/zzverif/ref"
)

// C18 (assembly data blocks) — the static DATA symbols of the amd64 assembly files are read from
// the running process's own memory (addresses supplied by the driver from the symbol table of this
// very binary) and compared with their derivations. This reaches the entries that execution with
// realistic lengths cannot (e.g. the shuffle bytes that place bits 40..63 of the GCM length block).

func TestVerifC18AsmData(t *testing.T) {
	spec := os.Getenv("VERIF_ASMDATA")
	if spec == "" {
		t.Skip("needs symbol addresses from the driver")
	}
	r := hk.NewReporter("C18", "sm4-asm-data-blocks")
	defer r.Close()
	rev := func(n, group int) []byte { // byte reversal inside groups of `group` bytes
		b := make([]byte, n)
		for i := range b {
			g := i / group
			b[i] = byte(g*group + (group - 1 - i%group))
		}
		return b
	}
	le32 := func(ws []uint32) []byte {
		var b []byte
		for _, w := range ws {
			b = append(b, byte(w), byte(w>>8), byte(w>>16), byte(w>>24))
		}
		return b
	}
	lanes := func(add func(lane int) uint64) []byte { // per 128-bit lane: qword 0, then add<<32
		var b []byte
		for l := 0; l < 4; l++ {
			b = append(b, make([]byte, 8)...)
			v := add(l) << 32
			for i := 0; i < 8; i++ {
				b = append(b, byte(v>>(8*uint(i))))
			}
		}
		return b
	}
	rev4 := make([]byte, 16)
	for i := range rev4 {
		rev4[i] = byte((i&1)<<3 | (i&2)<<1 | (i&4)>>1 | (i&8)>>3)
	}
	poly := make([]byte, 16)
	poly[0] = 0x87 // x^7 + x^2 + x + 1 of the GCM reduction polynomial
	want := map[string][]byte{
		"Shuffle":      rev(16, 4),
		"Shuffle1":     rev(16, 8),
		"Shuffle2":     rev(16, 16),
		"AND_MASK":     []byte(strings.Repeat("\x0f", 16)),
		"LOWER_MASK":   rev4,
		"GCM_POLY":     poly,
		"FK":           le32(ref.SM4FK[:]),
		"CK":           le32(ref.SM4CK[:]),
		"Counter_Add1": lanes(func(l int) uint64 { return uint64(l + 1) }),
		"Counter_Add2": lanes(func(l int) uint64 { return 4 }),
		"Counter_Add3": lanes(func(l int) uint64 { return 2 }),
	}
	seen := map[string]int{}
	for _, ent := range strings.Split(spec, ";") {
		// name@hexaddr:size
		at := strings.Index(ent, "@")
		col := strings.LastIndex(ent, ":")
		if at < 0 || col < at {
			continue
		}
		name := ent[:at]
		addr, err1 := strconv.ParseUint(ent[at+1:col], 16, 64)
		size, err2 := strconv.Atoi(ent[col+1:])
		w, ok := want[name]
		if err1 != nil || err2 != nil || !ok {
			continue
		}
		seen[name]++
		if size != len(w) {
			r.Violation("asm-data-block-wrong-size:"+name, hk.D{"size": size, "want": len(w)})
			continue
		}
		got := make([]byte, size)
		for i := range got {
			got[i] = *(*byte)(unsafe.Pointer(uintptr(addr) + uintptr(i)))
		}
		for i := range got {
			if got[i] != w[i] {
				r.Violation("asm-data-block-wrong:"+name, hk.D{"symbol": name, "offset": i, "got": hk.Hex(got), "want": hk.Hex(w)})
				break
			}
		}
		r.EvalN("asm-data:"+name, size)
	}
	for name := range want {
		if seen[name] == 0 {
			r.Inconclusive("assembly data symbol not found in the binary: " + name)
		}
	}
	r.Sample(hk.D{"symbol": "Shuffle1", "derivation": "byte reversal inside each 8-byte half", "bytes": fmt.Sprintf("%x", want["Shuffle1"])})
}
