//go:build verif

package sm2

import (
	"bytes"
	crand "crypto/rand"
	"fmt"
	"math/big"
	"runtime"
	"sync"
	"testing"
	"time"

	"github.com/bilibili/smgo/sm3"
	"github.com/bilibili/smgo/zzverif/hk"
	"github.com/bilibili/smgo/zzverif/ref"
)

// C17 (SM2 + SM3 part) — concurrent Sign/Verify/DerivePublic/GenerateKey
// sharing key buffers and the package-level tables, and independent hash
// values, under the race detector; every result is compared with the serial
// model result.

func TestVerifC17SM2(t *testing.T) {
	r := hk.NewReporter("C17", "sm2-concurrent")
	defer r.Close()
	if err := ref.SelfTestSM2(); err != nil {
		r.Inconclusive("oracle self-test: " + err.Error())
		return
	}
	rng := hk.NewRNG(hk.Seed(), "c17sm2")
	protect := func(b []byte) *hk.GBuf {
		g := hk.NewGuarded(len(b), hk.PlaceMid)
		copy(g.B, b)
		g.ReadOnly()
		return g
	}
	type shared struct {
		priv, px, py, e, r, s, id, msg *hk.GBuf
		stream                         []byte
		wantR, wantS                   []byte
		wantE                          []byte
		rID, sID                       []byte
	}
	var keys []*shared
	for i := 0; i < 4; i++ {
		d := zvRandScalar(rng)
		P := zvRefPub(d)
		sh := &shared{priv: protect(ref.B32(d)), px: protect(ref.B32(P.X)), py: protect(ref.B32(P.Y)), e: protect(rng.Bytes(32)),
			id: protect([]byte("1234567812345678")), msg: protect(rng.Bytes(100)), stream: rng.Bytes(32 * 6)}
		m := ref.SM2Sign(d, sh.e.B, sh.stream)
		sh.wantR, sh.wantS = ref.B32(m.R), ref.B32(m.S)
		sh.r, sh.s = protect(sh.wantR), protect(sh.wantS)
		za, _ := ref.SM2ZA(sh.id.B, sh.px.B, sh.py.B)
		sh.wantE = ref.SM2E(za, sh.msg.B)
		m2 := ref.SM2Sign(d, sh.wantE, sh.stream)
		sh.rID, sh.sID = ref.B32(m2.R), ref.B32(m2.S)
		keys = append(keys, sh)
	}
	zaTable := protect(rng.Bytes(32 * 4))
	// RARE-PATH calls mixed into the stress (and run once before it): the first candidate is rejected late
	// (r = 0, r + k = n, s = 0 through a solved digest) or early (k = 0, k >= n), the source fails in the
	// middle of a redraw, the key is invalid. Whatever such a path leaves behind in package-level state
	// (pools, caches, scratch) is what the ordinary concurrent calls would trip over.
	type rare struct {
		priv, e, stream []byte
		wantR, wantS    []byte // nil: an error is expected
		what            string
	}
	var rares []*rare
	for i := 0; i < 12; i++ {
		d := ref.Int(keys[i%len(keys)].priv.B)
		k1 := zvRandScalar(rng)
		x1 := ref.BaseMulFast(k1).X
		e := rng.Bytes(32)
		first := ref.B32(k1)
		what := ""
		switch i % 6 {
		case 0:
			e, what = ref.B32(ref.ModN(new(big.Int).Neg(x1))), "late-rejection:r=0"
		case 1:
			e, what = ref.B32(ref.ModN(new(big.Int).Sub(new(big.Int).Sub(zvNI, k1), x1))), "late-rejection:r+k=n"
		case 2:
			rT := ref.ModN(new(big.Int).Mul(k1, ref.InvN(d)))
			e, what = ref.B32(ref.ModN(new(big.Int).Sub(rT, x1))), "late-rejection:s=0"
		case 3:
			first, what = make([]byte, 32), "early-rejection:k=0"
		case 4:
			first, what = ref.B32(zvNI), "early-rejection:k=n"
		default:
			what = "source-fails-in-redraw"
		}
		stream := append(append([]byte{}, first...), ref.B32(zvRandScalar(rng))...)
		rc := &rare{priv: ref.B32(d), e: e, stream: stream, what: what}
		if i%6 == 5 {
			rc.e = ref.B32(ref.ModN(new(big.Int).Neg(x1))) // r = 0, then the source ends after 40 bytes
			rc.stream = stream[:40]
		} else {
			m := ref.SM2Sign(d, e, stream)
			if m.R == nil || len(m.Rejected) != 1 {
				r.Inconclusive("c17: rare-path stream not rejected once by the model: " + what)
				continue
			}
			rc.wantR, rc.wantS = ref.B32(m.R), ref.B32(m.S)
		}
		rares = append(rares, rc)
	}
	runRare := func(rc *rare) string {
		rr, ss, err := SignHashed(zvNewScript(rc.stream), rc.priv, rc.e)
		if rc.wantR == nil {
			if err == nil || rr != nil || ss != nil {
				return "rare-path:" + rc.what + ":no-error"
			}
			return ""
		}
		if err != nil || !bytes.Equal(rr, rc.wantR) || !bytes.Equal(ss, rc.wantS) {
			return "rare-path:" + rc.what
		}
		return ""
	}
	for _, rc := range rares {
		if bad := runRare(rc); bad != "" {
			r.Violation("serial-result-wrong:"+bad, hk.D{"priv": hk.Hex(rc.priv), "e": hk.Hex(rc.e), "stream": hk.Hex(rc.stream)})
		}
		SignHashed(zvNewScript(rc.stream), make([]byte, 32), rc.e) // invalid key: error path
	}
	// INDEPENDENT HASH VALUES, a phase of their own: nothing but sm3 runs inside the goroutines (messages and expected
	// digests are prepared beforehand), so that no synchronisation inside the model or the standard library (math/big and
	// fmt keep sync.Pools, which order goroutines for the race detector) stands between two hashes
	{
		type hm struct{ data, want []byte }
		var msgs []hm
		for res := 0; res < 64; res++ {
			for blocks := 0; blocks < 3; blocks++ {
				d := rng.Bytes(64*blocks + res)
				msgs = append(msgs, hm{d, ref.SM3(d)})
			}
		}
		var wg sync.WaitGroup
		start := make(chan struct{})
		nw := 16
		bad := make([]int, nw)
		for w := 0; w < nw; w++ {
			wg.Add(1)
			go func(w int) {
				defer wg.Done()
				<-start
				x := uint32(w*2654435761 + 12345)
				for it := 0; it < hk.N(1500, 15000); it++ {
					x = x*1664525 + 1013904223
					m := msgs[int(x>>8)%len(msgs)]
					h := sm3.New()
					h.Write(m.data[:len(m.data)/2])
					h.Write(m.data[len(m.data)/2:])
					one := sm3.SumSM3(m.data)
					if !bytes.Equal(h.Sum(nil), m.want) || !bytes.Equal(one[:], m.want) {
						bad[w]++
					}
				}
			}(w)
		}
		close(start)
		wg.Wait()
		for w := range bad {
			if bad[w] != 0 {
				r.Violation("concurrent-result-differs-from-serial-result:sm3-independent-hash-values", hk.D{"goroutine": w, "wrong_digests": bad[w]})
				break
			}
		}
		r.EvalN("sm3|independent-hash-values|workers=16", nw*hk.N(1500, 15000))
	}
	var maxInflight, overlapped, total int64
	rounds := hk.N(2, 8)
	for round := 0; round < rounds; round++ {
		procs := []int{16, 4}[round%2]
		old := runtime.GOMAXPROCS(procs)
		workers := []int{16, 48}[round%2]
		iters := hk.N(40, 150)
		var wg sync.WaitGroup
		start := make(chan struct{})
		t0 := time.Now()
		logs := make([]*hk.OverlapLog, workers)
		for w := 0; w < workers; w++ {
			wg.Add(1)
			logs[w] = hk.NewOverlapLog(t0)
			go func(w int) {
				defer wg.Done()
				lr := hk.NewRNG(hk.Seed(), fmt.Sprintf("c17sm2/%d/%d", round, w))
				olog := logs[w]
				var lastErr error
				var lastText string
				<-start
				for it := 0; it < iters; it++ {
					sh := keys[lr.Intn(len(keys))]
					kind := lr.Intn(13)
					olog.Begin() // unsynchronised, see hk.OverlapLog
					bad := ""
					p, msg, isFault, _ := hk.Try(func() {
						switch kind {
						case 11, 12:
							// calls that FAIL, a different way in every goroutine (keys 0, n-1, n, all ones; r or s out of range): the
							// error each call gets back is its own - its text must still be the same when the goroutine looks at it
							// again after other goroutines have failed in other ways (and nobody writes to shared state to build it)
							if lastErr != nil && lastErr.Error() != lastText {
								bad = "error-value-returned-earlier-changed-its-text"
							}
							var err error
							if kind == 11 {
								badKey := [][]byte{make([]byte, 32), ref.B32(zvNm1), ref.B32(zvNI), bytes.Repeat([]byte{0xff}, 32), make([]byte, 31), make([]byte, 33)}[(w+it)%6]
								_, _, err = SignHashed(zvNewScript(sh.stream), badKey, sh.e.B)
								if err == nil {
									bad = "SignHashed(invalid key) did not fail"
								}
							} else {
								badR := [][]byte{make([]byte, 32), ref.B32(zvNI), bytes.Repeat([]byte{0xff}, 32), make([]byte, 31)}[(w+it)%4]
								var ok bool
								ok, err = VerifyHashed(sh.px.B, sh.py.B, sh.e.B, badR, sh.s.B)
								if ok {
									bad = "VerifyHashed(r out of range) accepted"
								}
							}
							if err != nil {
								lastErr, lastText = err, err.Error()
							}
						case 0:
							rr, ss, err := SignHashed(zvNewScript(sh.stream), sh.priv.B, sh.e.B)
							if err != nil || !bytes.Equal(rr, sh.wantR) || !bytes.Equal(ss, sh.wantS) {
								bad = "SignHashed"
							}
						case 1:
							ok, err := VerifyHashed(sh.px.B, sh.py.B, sh.e.B, sh.r.B, sh.s.B)
							if !ok || err != nil {
								bad = "VerifyHashed"
							}
						case 2:
							x, y, err := DerivePublic(sh.priv.B)
							if err != nil || !bytes.Equal(x, sh.px.B) || !bytes.Equal(y, sh.py.B) {
								bad = "DerivePublic"
							}
						case 3:
							priv, x, y, err := GenerateKey(zvNewScript(append(append([]byte{}, sh.priv.B...), 0)))
							if err != nil || !bytes.Equal(priv, sh.priv.B) || !bytes.Equal(x, sh.px.B) || !bytes.Equal(y, sh.py.B) {
								bad = "GenerateKey"
							}
						case 4:
							rr, ss, err := Sign(sh.id.B, sh.px.B, sh.py.B, zvNewScript(sh.stream), sh.priv.B, sh.msg.B)
							if err != nil || !bytes.Equal(rr, sh.rID) || !bytes.Equal(ss, sh.sID) {
								bad = "Sign"
							}
							ok, _ := Verify(sh.id.B, sh.px.B, sh.py.B, sh.msg.B, rr, ss)
							if !ok {
								bad = "Verify"
							}
						case 5:
							// forged signature must stay rejected under load
							ok, _ := VerifyHashed(sh.px.B, sh.py.B, sh.e.B, sh.s.B, sh.r.B)
							if ok && !ref.SM2Verify(sh.px.B, sh.py.B, sh.e.B, sh.s.B, sh.r.B) {
								bad = "VerifyHashed-accepts-forgery"
							}
							if TestPrivateKey(sh.priv.B) != 0 || !CheckOnCurve(sh.px.B, sh.py.B) {
								bad = "TestPrivateKey/CheckOnCurve"
							}
						case 6:
							// crafted, invalid signatures with (r+s) mod n tiny or s tiny: must stay rejected and
							// must not disturb anybody else
							tv := zvBi(int64(1 + lr.Intn(9000)))
							sv := new(big.Int).SetBytes(lr.Bytes(32))
							sv.Mod(sv, ref.SM2N)
							if lr.Intn(2) == 0 {
								sv = new(big.Int).Lsh(zvBi(1), uint(5+lr.Intn(240)))
							}
							rr := ref.ModN(new(big.Int).Sub(tv, sv))
							if rr.Sign() != 0 && sv.Sign() != 0 {
								e := lr.Bytes(32)
								ok, _ := VerifyHashed(sh.px.B, sh.py.B, e, ref.B32(rr), ref.B32(sv))
								if ok != ref.SM2Verify(sh.px.B, sh.py.B, e, ref.B32(rr), ref.B32(sv)) {
									bad = "VerifyHashed-crafted"
								}
							}
						case 9:
							// the process-wide crypto/rand.Reader as the source, from many goroutines at once (what real callers pass)
							e := lr.Bytes(32)
							rr, ss, err := SignHashed(crand.Reader, sh.priv.B, e)
							if err != nil || !ref.SM2Verify(sh.px.B, sh.py.B, e, rr, ss) {
								bad = "SignHashed(crypto/rand.Reader)"
							}
						case 10:
							// ZA handed over as a sub-slice with SPARE CAPACITY of a shared, write-protected table of per-user values
							// (ZA_1 || ZA_2 || ...): signing and verifying different messages under it at the same time
							za := zaTable.B[32*(it%2) : 32*(it%2)+32]
							msg := sh.msg.B[:10+lr.Intn(60)]
							eza := ref.SM2E(za, msg)
							m := ref.SM2Sign(ref.Int(sh.priv.B), eza, sh.stream)
							rr, ss, err := SignZa(zvNewScript(sh.stream), sh.priv.B, za, msg)
							if err != nil || m.R == nil || !bytes.Equal(rr, ref.B32(m.R)) || !bytes.Equal(ss, ref.B32(m.S)) {
								bad = "SignZa(shared-za-with-spare-capacity)"
							} else if ok, _ := VerifyZa(sh.px.B, sh.py.B, za, msg, rr, ss); !ok {
								bad = "VerifyZa(shared-za-with-spare-capacity)"
							}
						case 8:
							if len(rares) > 0 {
								bad = runRare(rares[lr.Intn(len(rares))])
							}
						default:
							// independent hash values used concurrently
							data := lr.Bytes(lr.Intn(300))
							if lr.Intn(2) == 0 {
								// lengths whose padding needs a second block (56..63 mod 64), different for every goroutine
								data = lr.Bytes(64*lr.Intn(4) + 56 + lr.Intn(8))
							}
							h := sm3.New()
							h.Write(data[:len(data)/2])
							h.Write(data[len(data)/2:])
							if !bytes.Equal(h.Sum(nil), ref.SM3(data)) {
								bad = "sm3"
							}
						}
					})
					olog.End()
					if p && isFault {
						r.Violation("concurrent-sm2-writes-to-shared-input", hk.D{"op": kind, "panic": msg})
					} else if p {
						r.Violation("concurrent-sm2-panics", hk.D{"op": kind, "panic": msg})
					} else if bad != "" {
						r.Violation("concurrent-result-differs-from-serial-result:"+bad, hk.D{"op": kind, "workers": workers, "gomaxprocs": procs})
					}
					if it%5 == 0 {
						runtime.Gosched()
					}
				}
			}(w)
		}
		close(start)
		wg.Wait()
		{
			o, ov, mx := hk.MergeOverlap(logs)
			total += o
			overlapped += ov
			if mx > maxInflight {
				maxInflight = mx
			}
		}
		runtime.GOMAXPROCS(old)
		r.EvalN(fmt.Sprintf("sm2|workers=%d|gomaxprocs=%d", workers, procs), workers*iters)
	}
	for _, sh := range keys {
		d := ref.Int(sh.priv.B)
		P := zvRefPub(d)
		if !bytes.Equal(sh.px.B, ref.B32(P.X)) || !bytes.Equal(sh.r.B, sh.wantR) {
			r.Violation("shared-key-material-changed", hk.D{})
		}
	}
	r.Count("operations", total)
	r.Count("operations_started_while_another_in_flight", overlapped)
	r.Count("max_in_flight", maxInflight)
	r.Sample(hk.D{"workload": "16..48 goroutines x SignHashed/VerifyHashed/DerivePublic/GenerateKey/Sign+Verify/forgery/sm3 sharing 4 key sets in PROT_READ pages", "max_in_flight": maxInflight})
	if overlapped == 0 {
		r.Inconclusive("no two operations overlapped: the workload was not concurrent")
	}
}
