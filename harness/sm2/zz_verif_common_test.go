//go:build verif

package sm2

import (
	"bufio"
	"bytes"
	crand "crypto/rand"
	"errors"
	"fmt"
	"io"
	"math/big"
	"runtime"
	"sync"

	"github.com/bilibili/smgo/zzverif/hk"
	"github.com/bilibili/smgo/zzverif/ref"
)

// ---------------------------------------------------------------------------
// scripted, event-recording randomness source

type zvRdEvent struct {
	Req int    `json:"req"`
	N   int    `json:"n"`
	Err string `json:"err,omitempty"`
}

type zvScriptReader struct {
	data         []byte
	off          int
	chunk        int   // max bytes handed out per Read (0 = as many as asked)
	zeroEvery    int   // every k-th call returns (0,nil) first (0 = never)
	failAt       int   // absolute byte offset at which the source fails (-1 = only at end of data)
	failErr      error // error returned at failAt (nil => io.EOF)
	failWithData bool  // deliver the last bytes and the error in the same call
	errWithFull  bool  // also when those last bytes fill the request completely (io.Reader allows n == len(p) with err != nil)
	transient    bool  // the failure is reported once; later calls deliver the rest of the data
	repeat       int   // transient only: the failure is reported this many times in a row first (0 = once)
	stallAt      int   // absolute byte offset at which the source stalls: stallCount reads return (0, nil) there (-1 = never)
	stallCount   int
	calls        int
	events       []zvRdEvent
	failed       bool
	readsAfter   int // Read calls made after the failure was reported
}

func zvNewScript(data []byte) *zvScriptReader {
	return &zvScriptReader{data: data, failAt: -1, stallAt: -1}
}

func (s *zvScriptReader) Read(p []byte) (int, error) {
	s.calls++
	if s.failed {
		s.readsAfter++
		e := s.failErr
		if e == nil {
			e = io.EOF
		}
		s.events = append(s.events, zvRdEvent{Req: len(p), N: 0, Err: e.Error()})
		return 0, e
	}
	if s.stallAt >= 0 && s.off == s.stallAt && s.stallCount > 0 && len(p) > 0 {
		s.stallCount--
		if len(s.events) < 64 {
			s.events = append(s.events, zvRdEvent{Req: len(p), N: 0})
		}
		return 0, nil
	}
	if s.zeroEvery > 0 && s.calls%s.zeroEvery == 0 && len(p) > 0 {
		s.events = append(s.events, zvRdEvent{Req: len(p), N: 0})
		return 0, nil
	}
	limit := len(s.data)
	if s.failAt >= 0 && s.failAt < limit {
		limit = s.failAt
	}
	n := len(p)
	if s.chunk > 0 && n > s.chunk {
		n = s.chunk
	}
	if n > limit-s.off {
		n = limit - s.off
	}
	copy(p, s.data[s.off:s.off+n])
	s.off += n
	if s.off >= limit && (n < len(p) || n == 0 || (s.errWithFull && len(p) > 0)) {
		// the source is exhausted / fails here
		e := s.failErr
		if e == nil {
			e = io.EOF
		}
		if n > 0 && !s.failWithData && !(s.errWithFull && n == len(p)) {
			s.events = append(s.events, zvRdEvent{Req: len(p), N: n})
			return n, nil // error comes with the next call
		}
		if s.transient && s.failAt >= 0 && s.failAt < len(s.data) {
			// one-off failure (EINTR/EAGAIN style): the data after failAt is still there
			if s.repeat > 1 {
				s.repeat--
			} else {
				s.failAt = -1
			}
		} else {
			s.failed = true
		}
		s.events = append(s.events, zvRdEvent{Req: len(p), N: n, Err: e.Error()})
		return n, e
	}
	s.events = append(s.events, zvRdEvent{Req: len(p), N: n})
	return n, nil
}

// byteScript is the same source with the optional io.ByteReader interface as well (bufio.Reader,
// bytes.Buffer, strings.Reader all have it): a library that type-switches on its source must
// treat every failure the same way on that path.
type zvByteScript struct{ *zvScriptReader }

func (b zvByteScript) ReadByte() (byte, error) {
	var one [1]byte
	for i := 0; i < 8; i++ {
		n, err := b.zvScriptReader.Read(one[:])
		if n == 1 {
			// like bufio: a byte delivered together with an error is returned first, the error on the next call
			return one[0], nil
		}
		if err != nil {
			return 0, err
		}
	}
	return 0, io.ErrNoProgress
}

// sourceKinds wraps a scripted source the ways callers do.
var zvSourceKindNames = []string{"plain", "bytereader", "bufio", "bufio16", "limited", "multi"}

func zvWrapSource(s *zvScriptReader, kind int) io.Reader {
	switch kind {
	case 1:
		return zvByteScript{s}
	case 2:
		return bufio.NewReader(s)
	case 3:
		return bufio.NewReaderSize(s, 16)
	case 4:
		return io.LimitReader(s, 1<<40)
	case 5:
		return io.MultiReader(bytes.NewReader(nil), s)
	}
	return s
}

// crossesUnit reports whether some Read asked for bytes beyond the current
// 32-byte unit (the standard draws k in 32-byte units).
func (s *zvScriptReader) crossesUnit() bool {
	off := 0
	for _, e := range s.events {
		if e.Req > 32-(off%32) {
			return true
		}
		off += e.N
	}
	return false
}

var zvErrCustom = errors.New("verif: injected entropy failure")

// errTemporary is an error VALUE of the kind network and device sources return: it classifies itself
// as temporary / timeout. The statement makes no exception for it: any reported error ends the call.
type zvErrTemporary struct{ timeout bool }

func (e zvErrTemporary) Error() string   { return "verif: resource temporarily unavailable" }
func (e zvErrTemporary) Temporary() bool { return true }
func (e zvErrTemporary) Timeout() bool   { return e.timeout }

// ---------------------------------------------------------------------------
// key and scalar helpers

var (
	zvNI   = ref.SM2N
	zvNm1  = new(big.Int).Sub(ref.SM2N, big.NewInt(1))
	zvNm2  = new(big.Int).Sub(ref.SM2N, big.NewInt(2))
	zvNm3  = new(big.Int).Sub(ref.SM2N, big.NewInt(3))
	zvTwo  = big.NewInt(2)
	zvB256 = new(big.Int).Lsh(big.NewInt(1), 256)
)

func zvBi(x int64) *big.Int { return big.NewInt(x) }

func zvRandScalar(rng *hk.RNG) *big.Int {
	for {
		k := new(big.Int).SetBytes(rng.Bytes(32))
		if k.Sign() > 0 && k.Cmp(zvNm2) <= 0 {
			return k
		}
	}
}

// specialKeys are boundary private keys that are valid.
func zvSpecialKeys() []*big.Int {
	return []*big.Int{zvBi(1), zvBi(2), zvBi(3), zvBi(255), zvBi(256), new(big.Int).Set(zvNm2), new(big.Int).Set(zvNm3),
		new(big.Int).Lsh(zvBi(1), 255), new(big.Int).Sub(new(big.Int).Lsh(zvBi(1), 248), zvBi(1)),
		new(big.Int).Lsh(zvBi(1), 248), new(big.Int).Lsh(zvBi(1), 128), new(big.Int).Sub(new(big.Int).Lsh(zvBi(1), 64), zvBi(1))}
}

type zvPubCache struct {
	mu sync.Mutex
	m  map[string]ref.Pt
}

var zvPubs = zvPubCache{m: map[string]ref.Pt{}}

// refPub is [d]G by the reference model (cached).
func zvRefPub(d *big.Int) ref.Pt {
	k := d.Text(16)
	zvPubs.mu.Lock()
	p, ok := zvPubs.m[k]
	zvPubs.mu.Unlock()
	if ok {
		return p
	}
	p = ref.BaseMulFast(d)
	zvPubs.mu.Lock()
	zvPubs.m[k] = p
	zvPubs.mu.Unlock()
	return p
}

func zvLeadingZeros(b []byte) int {
	n := 0
	for _, c := range b {
		if c != 0 {
			break
		}
		n++
	}
	return n
}

func zvLzClass(v *big.Int) int { return 32 - (v.BitLen()+7)/8 }

// solveDigest returns e such that signing with (d,k) yields the requested
// target: kind "r", "s" or "t" with the given value. ok=false if degenerate.
func zvSolveDigest(d, k *big.Int, kind string, target *big.Int) (e []byte, ok bool) {
	x1 := ref.BaseMulFast(k).X
	D := ref.InvN(new(big.Int).Add(d, zvBi(1)))
	var r *big.Int
	switch kind {
	case "r":
		r = ref.ModN(target)
	case "s":
		// s = D k + r (D-1)  =>  r = (s - D k) (D-1)^-1
		dm1 := ref.ModN(new(big.Int).Sub(D, zvBi(1)))
		if dm1.Sign() == 0 {
			return nil, false
		}
		r = new(big.Int).Mul(D, k)
		r.Sub(target, r)
		r.Mul(r, ref.InvN(dm1))
		r = ref.ModN(r)
	case "r+k":
		// (r + k) mod n = target
		r = ref.ModN(new(big.Int).Sub(target, k))
	case "t":
		// t = D (k + r)  =>  r = t (1+d) - k
		r = new(big.Int).Mul(target, new(big.Int).Add(d, zvBi(1)))
		r.Sub(r, k)
		r = ref.ModN(r)
	default:
		panic("kind")
	}
	ee := ref.ModN(new(big.Int).Sub(r, x1))
	return ref.B32(ee), true
}

func zvHexOrNil(b []byte) string {
	if b == nil {
		return "<nil>"
	}
	return hk.Hex(b)
}

func zvErrStr(e error) string {
	if e == nil {
		return "<nil>"
	}
	return e.Error()
}

func zvCaseID(prefix string, i int) string { return fmt.Sprintf("%s/%d", prefix, i) }

// hostilePrelude drives the rest of the public API with unusual but legal inputs BEFORE a monitor
// starts judging its own property, in the same process: crafted verifications ((r+s) mod n tiny, s
// tiny, keys G / -G / same x other y), signing with short key encodings and with keys that are tails
// of one another, ZA with odd ids. Results are not judged here (their own properties do that); the
// point is that state left behind by one entry point must not change what another one returns.
func zvHostilePrelude(rng *hk.RNG) {
	defer func() { recover() }()
	Ps := []ref.Pt{ref.G(), ref.G().Neg(), zvRefPub(zvBi(2)), zvRefPub(zvRandScalar(rng))}
	Ps = append(Ps, Ps[3].Neg())
	for _, P := range Ps {
		px, py := ref.B32(P.X), ref.B32(P.Y)
		for _, tv := range []*big.Int{zvBi(1), zvBi(2), zvBi(5000), zvBi(8191), new(big.Int).Lsh(zvBi(1), 13), zvRandScalar(rng)} {
			for _, sv := range []*big.Int{zvBi(1), new(big.Int).Lsh(zvBi(1), 17), new(big.Int).Lsh(zvBi(1), 200), zvRandScalar(rng)} {
				rr := ref.ModN(new(big.Int).Sub(tv, sv))
				if rr.Sign() == 0 {
					continue
				}
				VerifyHashed(px, py, rng.Bytes(32), ref.B32(rr), ref.B32(sv))
			}
		}
		Verify([]byte("1234567812345678"), px, py, []byte("m"), ref.B32(zvBi(7)), ref.B32(zvBi(9)))
		CheckOnCurve(px, py)
		ZA(rng.Bytes(rng.Intn(70)), px, py)
	}
	a := ref.B32(zvRandScalar(rng))
	a[0] |= 1
	for _, k := range [][]byte{a, a[1:], a[5:], append([]byte{0}, a[1:]...), a} {
		SignHashed(zvNewScript(rng.Bytes(96)), k, rng.Bytes(32))
		DerivePublic(a)
	}
	GenerateKey(zvNewScript(append(make([]byte, 32), rng.Bytes(64)...)))
}

// rareNonceCases pairs every fixture nonce k whose x1 = x([k]G) lies in a 2^-31 class (see
// ref.RareNonce) with the digests that make e + x1 cross a multiple of n in the unusual way:
// for class "hi" e + x1 >= 2n needs e close to 2^256 (two subtractions of n), with the exact
// boundaries e = 2n - x1 - 1 (r = n-1), 2n - x1 (r = 0: retry) and 2n - x1 + 1 (r = 1); for class
// "lo" r = e + x1 keeps leading zero bytes for tiny e, and e = n - x1 gives r = 0.
type zvRareCase struct {
	k     *big.Int
	e     []byte
	label string
}

func zvRareNonceCases(rng *hk.RNG) ([]zvRareCase, error) {
	rn, err := ref.LoadRareNonces()
	if err != nil {
		return nil, err
	}
	var out []zvRareCase
	twoN := new(big.Int).Lsh(zvNI, 1)
	for _, f := range rn {
		k, _ := new(big.Int).SetString(f.K, 16)
		x1, _ := new(big.Int).SetString(f.X, 16)
		var es []*big.Int
		if f.Class == "hi" {
			edge := new(big.Int).Sub(twoN, x1) // smallest e with e + x1 >= 2n
			es = append(es, new(big.Int).Sub(zvB256, zvBi(1)), new(big.Int).Sub(zvB256, zvBi(2)), new(big.Int).Sub(edge, zvBi(1)), edge, new(big.Int).Add(edge, zvBi(1)),
				new(big.Int).SetBytes(append([]byte{0xff, 0xff, 0xff, 0xff}, rng.Bytes(28)...)), new(big.Int).Set(zvNI), new(big.Int).Set(zvNm1), zvBi(0), new(big.Int).SetBytes(rng.Bytes(32)))
			for j := 0; j < 4; j++ {
				// uniformly between the edge and 2^256-1
				span := new(big.Int).Sub(zvB256, edge)
				v := new(big.Int).Mod(new(big.Int).SetBytes(rng.Bytes(40)), span)
				es = append(es, v.Add(v, edge))
			}
		} else {
			edge := new(big.Int).Sub(zvNI, x1) // e + x1 = n
			es = append(es, zvBi(0), zvBi(1), zvBi(255), new(big.Int).Sub(edge, zvBi(1)), edge, new(big.Int).Add(edge, zvBi(1)), new(big.Int).Sub(zvB256, zvBi(1)), new(big.Int).SetBytes(rng.Bytes(32)),
				new(big.Int).SetBytes(rng.Bytes(3)), new(big.Int).SetBytes(rng.Bytes(27)))
		}
		for _, e := range es {
			if e.Sign() < 0 || e.Cmp(zvB256) >= 0 {
				continue
			}
			out = append(out, zvRareCase{k: k, e: ref.B32(e), label: "rare-nonce-" + f.Class})
		}
	}
	return out, nil
}

// montgomeryPatternScalars returns residues mod n whose INTERNAL representation in the library's
// scalar field (v * 2^256 mod n, four 64-bit limbs) is made of carry-critical limbs: 0, 1, 2^32,
// 2^63, 2^64-1, high-half-only words ... Values of r+k, s, d+1 that are "nice" as integers have random
// looking internal limbs; these are the ones that are nice inside.
func zvMontgomeryPatternScalars(rng *hk.RNG, count int) []*big.Int {
	alpha := []uint64{0, 1, 1 << 32, 1 << 63, 1<<64 - 1, 0xFFFFFFFF00000000, 0xFFFFFFFE00000000, 1<<32 - 1, 0x8000000000000000, 0x0000000100000000, 0x7203DF6B21C6052B, 0x53BBF40939D54123}
	rinv := new(big.Int).ModInverse(zvB256, zvNI)
	var out []*big.Int
	mk := func(l [4]uint64) {
		m := new(big.Int)
		for i := 3; i >= 0; i-- {
			m.Lsh(m, 64)
			m.Or(m, new(big.Int).SetUint64(l[i]))
		}
		if m.Cmp(zvNI) >= 0 || m.Sign() == 0 {
			return
		}
		out = append(out, ref.ModN(new(big.Int).Mul(m, rinv)))
	}
	// all limbs with their low 32 bits clear / their high 32 bits clear / one limb only
	hi := []uint64{1 << 32, 1 << 63, 0xFFFFFFFF00000000, 0xFFFFFFFE00000000, 0}
	for a := 0; a < len(hi); a++ {
		for b := 0; b < len(hi); b++ {
			mk([4]uint64{hi[a], hi[b], hi[(a+b)%len(hi)], hi[(a*2+b)%len(hi)] & 0x7FFFFFFF00000000})
		}
	}
	for i := 0; i < 4; i++ {
		for _, v := range alpha[1:] {
			var l [4]uint64
			l[i] = v
			mk(l)
		}
	}
	for len(out) < count {
		mk([4]uint64{alpha[rng.Intn(len(alpha))], alpha[rng.Intn(len(alpha))], alpha[rng.Intn(len(alpha))], alpha[rng.Intn(len(alpha))] >> 1})
	}
	return out
}

// zeroRunReader delivers `zeros` zero bytes (each 32-byte unit is the rejected candidate 0) and then tail,
// without holding the run in memory: runs of 2^24 and more rejected candidates.
type zvZeroRunReader struct {
	zeros int64
	tail  []byte
	read  int64
}

func (z *zvZeroRunReader) Read(p []byte) (int, error) {
	n := 0
	if z.zeros > 0 {
		n = len(p)
		if int64(n) > z.zeros {
			n = int(z.zeros)
		}
		for i := 0; i < n; i++ {
			p[i] = 0
		}
		z.zeros -= int64(n)
	} else {
		if len(z.tail) == 0 {
			return 0, io.EOF
		}
		n = copy(p, z.tail)
		z.tail = z.tail[n:]
	}
	z.read += int64(n)
	return n, nil
}

var zvGlobalRandMu sync.Mutex

// withGlobalRand replaces the process-wide crypto/rand.Reader by rd for the duration of f and hands f that
// very global object: a library may recognise it by identity and treat it differently from other sources.
// Sequential sections only.
func zvWithGlobalRand(rd io.Reader, f func(src io.Reader)) {
	zvGlobalRandMu.Lock()
	saved := crand.Reader
	crand.Reader = rd
	defer func() { crand.Reader = saved; zvGlobalRandMu.Unlock() }()
	f(crand.Reader)
}

// stackHungryReader uses a lot of stack inside Read (recursion), so that the CALLER's stack is moved while the
// library waits for its randomness - the moment a raw address of the candidate buffer goes stale.
type zvStackHungryReader struct {
	inner  io.Reader
	hungry bool
	used   bool
}

//go:noinline
func zvBurnStack(n int, acc *[64]byte) byte {
	var local [64]byte
	local[n%64] = acc[(n+1)%64] + 1
	if n == 0 {
		return local[0]
	}
	return zvBurnStack(n-1, &local) + local[n%64]
}

func (s *zvStackHungryReader) Read(p []byte) (int, error) {
	if s.hungry && !s.used {
		s.used = true
		var a [64]byte
		zvBurnStack(6000, &a) // about 1 MiB of frames
	}
	return s.inner.Read(p)
}

// handoffReader models a device front end: Read hands the caller's buffer to a WORKER goroutine, which fills it (at most
// `chunk` bytes per Read) and reports the count, while the caller is parked. From the second request on the worker first
// runs a garbage collection: a parked goroutine with a large, mostly unused stack has its stack shrunk (moved) then, and a
// buffer whose address was hidden from the runtime is left behind in the old copy.
type zvHandoffReader struct {
	req  chan []byte
	done chan zvHandoffRes
}

type zvHandoffRes struct {
	n   int
	err error
}

func zvNewHandoffReader(inner io.Reader, chunk int) *zvHandoffReader {
	h := &zvHandoffReader{req: make(chan []byte), done: make(chan zvHandoffRes)}
	go func() {
		reqs := 0
		for p := range h.req {
			if reqs > 0 {
				runtime.GC()
			}
			reqs++
			if len(p) > chunk {
				p = p[:chunk]
			}
			n, err := inner.Read(p)
			h.done <- zvHandoffRes{n, err}
		}
	}()
	return h
}

func (h *zvHandoffReader) Read(p []byte) (int, error) {
	h.req <- p
	r := <-h.done
	return r.n, r.err
}

func (h *zvHandoffReader) Close() { close(h.req) }

// afterLargeStack runs f in a fresh goroutine that first used (and left) about `frames` x 100 bytes of stack
func zvAfterLargeStack(frames int, f func()) {
	done := make(chan struct{})
	go func() {
		defer close(done)
		var a [64]byte
		zvBurnStack(frames, &a)
		f()
	}()
	<-done
}
