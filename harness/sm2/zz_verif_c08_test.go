//go:build verif && valgrind

package sm2

import (
	"bytes"
	crand "crypto/rand"
	"fmt"
	"math/big"
	"os"
	"testing"
	"unsafe"

	"github.com/bilibili/smgo/utils"
)

// The library tells us (hook, tag verif) where x1 of [k]G becomes public: r is
// published with the signature, so the taint on x1 is dropped there.
func init() {
	VerifDeclassifyHook = func(x *big.Int) {
		vgDeclassified++
		utils.VgUnpoisonPtr(unsafe.Pointer(x), unsafe.Sizeof(*x))
		w := x.Bits()
		if len(w) > 0 {
			utils.VgUnpoisonPtr(unsafe.Pointer(&w[0]), uintptr(len(w))*unsafe.Sizeof(w[0]))
		}
	}
}

// C08 / sm2 — private-key range test in isolation (Level 1) and the signing /
// key-generation entry points with one taint source at a time (Level 2).

var vgSink int
var vgDeclassified int

func vgNote(format string, a ...interface{}) {
	if p := os.Getenv("VERIF_VG_NOTES"); p != "" {
		f, err := os.OpenFile(p, os.O_CREATE|os.O_WRONLY|os.O_APPEND, 0o644)
		if err == nil {
			fmt.Fprintf(f, format+"\n", a...)
			f.Close()
		}
	}
}

func vgBytes(seed int, n int) []byte {
	b := make([]byte, n)
	x := uint32(seed*2654435761 + 4242)
	for i := range b {
		x = x*1664525 + 1013904223
		b[i] = byte(x >> 24)
	}
	return b
}

func vgKey(seed int) []byte {
	k := vgBytes(seed, 32)
	k[0] &= 0x7f
	k[31] |= 1
	return k
}

//go:noinline
func vgS_TestPrivateKey(priv []byte) {
	utils.VgPoison(priv)
	r := TestPrivateKey(priv)
	utils.VgUnpoison(priv)
	vgSink += r
}

// taintedReader hands out a fixed stream whose bytes are marked undefined at
// the moment they are delivered (the nonce/key candidates are the secret).
type zvTaintedReader struct {
	data  []byte
	off   int
	taint bool
}

func (t *zvTaintedReader) Read(p []byte) (int, error) {
	n := copy(p, t.data[t.off:])
	t.off += n
	if t.taint {
		utils.VgPoison(p[:n])
	}
	return n, nil
}

//go:noinline
func vgL2_SignHashed_d_tainted(priv, e, stream []byte) {
	utils.VgPoison(priv)
	r, s, err := SignHashed(&zvTaintedReader{data: stream}, priv, e)
	utils.VgUnpoison(priv)
	utils.VgUnpoison(r)
	utils.VgUnpoison(s)
	if err != nil {
		vgSink++
	}
	vgSink += len(r) + len(s)
}

//go:noinline
func vgL2_SignHashed_k_tainted(priv, e, stream []byte) {
	r, s, err := SignHashed(&zvTaintedReader{data: stream, taint: true}, priv, e)
	utils.VgUnpoison(r)
	utils.VgUnpoison(s)
	if err != nil {
		vgSink++
	}
	vgSink += len(r) + len(s)
}

//go:noinline
func vgL2_GenerateKey_stream_tainted(stream []byte) {
	priv, x, y, err := GenerateKey(&zvTaintedReader{data: stream, taint: true})
	utils.VgUnpoison(priv)
	utils.VgUnpoison(x)
	utils.VgUnpoison(y)
	if err != nil {
		vgSink++
	}
	vgSink += len(x)
}

//go:noinline
func vgL2_DerivePublic_d_tainted(priv []byte) {
	utils.VgPoison(priv)
	x, y, err := DerivePublic(priv)
	utils.VgUnpoison(priv)
	utils.VgUnpoison(x)
	utils.VgUnpoison(y)
	if err != nil {
		vgSink++
	}
	vgSink += len(x)
}

func TestVgC08SM2Level1(t *testing.T) {
	if !utils.VgRunning() {
		t.Skip("not under valgrind")
	}
	vgSink += utils.VgControls()
	n := 0
	for i := 0; i < 8; i++ {
		k := vgKey(i)
		switch i {
		case 1:
			k = make([]byte, 32)
		case 2:
			k = bytes.Repeat([]byte{0xff}, 32)
		case 3:
			copy(k, nMinus1Bytes)
		case 4:
			copy(k, nMinus1Bytes[:20])
		}
		vgS_TestPrivateKey(k)
		n++
	}
	// shorter encodings (the statement speaks of secrets "of a given length": the length is public, the bytes are not)
	for _, l := range []int{1, 2, 8, 20, 31} {
		for variant := 0; variant < 4; variant++ {
			k := append([]byte{}, vgKey(variant + l)[:l]...)
			switch variant {
			case 1:
				k = make([]byte, l) // zero in this length
			case 2:
				for j := 0; j < l/2; j++ {
					k[j] = 0 // leading zero bytes
				}
			case 3:
				for j := range k {
					k[j] = 0xff
				}
			}
			vgS_TestPrivateKey(k)
			n++
		}
	}
	vgNote("scenario TestPrivateKey %d", n)
}

func TestVgC08SM2SignD(t *testing.T) {
	if !utils.VgRunning() {
		t.Skip("not under valgrind")
	}
	vgSink += utils.VgControls()
	for i := 0; i < 2; i++ {
		vgL2_SignHashed_d_tainted(vgKey(50+i), vgBytes(60+i, 32), append(vgKey(70+i), vgKey(80+i)...))
	}
	vgNote("scenario L2_SignHashed_d_tainted 2")
	vgL2_DerivePublic_d_tainted(vgKey(90))
	vgNote("scenario L2_DerivePublic_d_tainted 1")
}

// The well-known GLOBAL source: callers pass crypto/rand.Reader itself; a library may recognise that very object
// (interface identity) and take another route for it. The global is replaced by the tainted source for the call.
//
//go:noinline
func vgL2_SignHashed_global_rand_reader_k_tainted(priv, e, stream []byte) {
	saved := crand.Reader
	crand.Reader = &zvTaintedReader{data: stream, taint: true}
	r, s, err := SignHashed(crand.Reader, priv, e)
	crand.Reader = saved
	utils.VgUnpoison(r)
	utils.VgUnpoison(s)
	if err != nil {
		vgSink++
	}
	vgSink += len(r) + len(s)
}

//go:noinline
func vgL2_GenerateKey_global_rand_reader_tainted(stream []byte) {
	saved := crand.Reader
	crand.Reader = &zvTaintedReader{data: stream, taint: true}
	priv, x, y, err := GenerateKey(crand.Reader)
	crand.Reader = saved
	utils.VgUnpoison(priv)
	utils.VgUnpoison(x)
	utils.VgUnpoison(y)
	if err != nil {
		vgSink++
	}
	vgSink += len(x)
}

func TestVgC08SM2SignK(t *testing.T) {
	if !utils.VgRunning() {
		t.Skip("not under valgrind")
	}
	vgSink += utils.VgControls()
	for i := 0; i < 2; i++ {
		vgL2_SignHashed_k_tainted(vgKey(150+i), vgBytes(160+i, 32), append(vgKey(170+i), vgKey(180+i)...))
	}
	// a stream whose first candidate is out of range (rejection loop taken once)
	vgL2_SignHashed_k_tainted(vgKey(152), vgBytes(162, 32), append(bytes.Repeat([]byte{0xff}, 32), vgKey(172)...))
	vgNote("scenario L2_SignHashed_k_tainted 3")
	vgNote("declassified %d", vgDeclassified)
	vgL2_GenerateKey_stream_tainted(append(vgKey(190), vgKey(191)...))
	vgL2_GenerateKey_stream_tainted(append(bytes.Repeat([]byte{0xff}, 32), vgKey(192)...))
	vgNote("scenario L2_GenerateKey_stream_tainted 2")
	// nonces with leading zero words / bytes through the global source object
	lead := vgKey(195)
	for i := 0; i < 9; i++ {
		lead[i] = 0
	}
	vgL2_SignHashed_global_rand_reader_k_tainted(vgKey(193), vgBytes(194, 32), append(lead, vgKey(196)...))
	vgL2_SignHashed_global_rand_reader_k_tainted(vgKey(197), vgBytes(198, 32), append(vgKey(199), vgKey(200)...))
	vgNote("scenario L2_SignHashed_global_rand_reader_k_tainted 2")
	vgL2_GenerateKey_global_rand_reader_tainted(append(vgKey(201), vgKey(202)...))
	vgNote("scenario L2_GenerateKey_global_rand_reader_tainted 1")
}

//go:noinline
func vgL2_Sign_d_tainted(id, px, py, priv, msg, stream []byte) {
	utils.VgPoison(priv)
	r, s, err := Sign(id, px, py, &zvTaintedReader{data: stream}, priv, msg)
	utils.VgUnpoison(priv)
	utils.VgUnpoison(r)
	utils.VgUnpoison(s)
	if err != nil {
		vgSink++
	}
	vgSink += len(r) + len(s)
}

//go:noinline
func vgL2_SignZa_k_tainted(priv, za, msg, stream []byte) {
	r, s, err := SignZa(&zvTaintedReader{data: stream, taint: true}, priv, za, msg)
	utils.VgUnpoison(r)
	utils.VgUnpoison(s)
	if err != nil {
		vgSink++
	}
	vgSink += len(r) + len(s)
}

//go:noinline
func vgL2_SignHashed_short_key_d_tainted(priv, e, stream []byte) {
	utils.VgPoison(priv)
	r, s, err := SignHashed(&zvTaintedReader{data: stream}, priv, e)
	utils.VgUnpoison(priv)
	utils.VgUnpoison(r)
	utils.VgUnpoison(s)
	if err != nil {
		vgSink++
	}
	vgSink += len(r) + len(s)
}

func TestVgC08SM2Wrappers(t *testing.T) {
	if !utils.VgRunning() {
		t.Skip("not under valgrind")
	}
	vgSink += utils.VgControls()
	priv := vgKey(250)
	x, y, err := DerivePublic(priv)
	if err != nil {
		t.Fatal(err)
	}
	vgL2_Sign_d_tainted([]byte("1234567812345678"), x, y, append([]byte{}, priv...), vgBytes(251, 77), append(vgKey(252), vgKey(253)...))
	vgNote("scenario L2_Sign_d_tainted 1")
	vgL2_SignZa_k_tainted(append([]byte{}, priv...), vgBytes(254, 32), vgBytes(255, 10), append(vgKey(256), vgKey(257)...))
	// two rejected candidates (>= n) first
	vgL2_SignZa_k_tainted(append([]byte{}, priv...), vgBytes(258, 32), vgBytes(259, 64), append(append(bytes.Repeat([]byte{0xff}, 64), vgKey(260)...), vgKey(261)...))
	vgNote("scenario L2_SignZa_k_tainted 2")
	short := vgKey(262)[1:] // 31-byte encoding of a valid key
	vgL2_SignHashed_short_key_d_tainted(short, vgBytes(263, 32), append(vgKey(264), vgKey(265)...))
	vgNote("scenario L2_SignHashed_short_key_d_tainted 1")
	// key generation after three rejected candidates
	vgL2_GenerateKey_stream_tainted(append(append(bytes.Repeat([]byte{0xff}, 96), vgKey(266)...), vgKey(267)...))
	vgNote("scenario L2_GenerateKey_stream_tainted 1")
}
