//go:build verif

package sm2

import (
	"bytes"
	"context"
	crand "crypto/rand"
	"fmt"
	"io"
	"math/big"
	"os"
	"syscall"
	"testing"

	"github.com/bilibili/smgo/zzverif/hk"
	"github.com/bilibili/smgo/zzverif/ref"
)

// C19 — fault enumeration over the caller-supplied randomness source: every
// byte position of the first failure, in streams that start with 0..3
// rejected candidates, for key generation and all signing entry points.
// Oracle: the model run on the bytes that were available before the failure.
// If the model cannot finish on them, the call must return a non-nil error and
// nothing else; otherwise it must return exactly the model's result.

func TestVerifC19(t *testing.T) {
	r := hk.NewReporter("C19", "sm2-reader-faults")
	defer r.Close()
	if err := ref.SelfTestSM2(); err != nil {
		r.Inconclusive("oracle self-test: " + err.Error())
		return
	}
	rng := hk.NewRNG(hk.Seed(), "c19")
	zvHostilePrelude(hk.NewRNG(hk.Seed(), "prelude"))
	d := zvRandScalar(rng)
	P := zvRefPub(d)
	px, py := ref.B32(P.X), ref.B32(P.Y)
	priv := ref.B32(d)
	e := rng.Bytes(32)
	za := rng.Bytes(32)
	id := []byte("1234567812345678")
	msg := rng.Bytes(40)
	zaReal, _ := ref.SM2ZA(id, px, py)
	eZa := ref.SM2E(za, msg)
	eID := ref.SM2E(zaReal, msg)

	// the source is the process-wide crypto/rand.Reader VARIABLE, which a program may have replaced (a DRBG in front of a
	// device, a test double): handed in as the argument it is a caller-supplied source like any other, and its failure
	// must stop key generation and signing (runs before anything else, the variable is global state)
	{
		saved := crand.Reader
		for i, good := range []int{0, 1, 16, 31, 32 + 16, 64 + 31} {
			src := rng.Bytes(good)
			for j := 0; j+32 <= good; j += 32 {
				copy(src[j:], bytes.Repeat([]byte{0xff}, 32)) // whole candidates before the failure are rejected ones
			}
			for ei, entry := range []string{"GenerateKey", "SignHashed"} {
				rd := zvNewScript(src)
				rd.failErr = []error{nil, zvErrCustom, syscall.EAGAIN}[(i+ei)%3]
				crand.Reader = io.Reader(rd)
				var a, b []byte
				var err error
				p, pm, _, _ := hk.Try(func() {
					if entry == "GenerateKey" {
						_, a, b, err = GenerateKey(crand.Reader)
					} else {
						a, b, err = SignHashed(crand.Reader, priv, e)
					}
				})
				crand.Reader = saved
				if p || err == nil || a != nil || b != nil {
					r.Violation("result-returned-although-source-failed:"+entry+":source-is-the-replaced-crypto-rand-Reader", hk.D{"bytes_before_failure": good, "stream": hk.Hex(src), "a": zvHexOrNil(a), "b": zvHexOrNil(b), "error": zvErrStr(err), "panic": pm})
				}
				r.Eval(fmt.Sprintf("%s:source=replaced-crypto/rand.Reader,fails-after=%d", entry, good))
			}
		}
		crand.Reader = saved
	}

	over := [][]byte{ref.B32(zvNI), ref.B32(new(big.Int).Add(zvNI, zvBi(1))), ref.B32(new(big.Int).Sub(zvB256, zvBi(1))), ref.B32(zvNm1)}
	// n-1 is rejected by key generation; for signing it is a legal nonce, so the
	// model decides per entry point.
	// error VALUES: plain, sentinel, self-classifying (Temporary/Timeout), errno, wrapped
	errKinds := []error{nil, io.ErrUnexpectedEOF, zvErrCustom, zvErrTemporary{}, zvErrTemporary{timeout: true}, syscall.EAGAIN, syscall.EINTR, os.ErrDeadlineExceeded, context.DeadlineExceeded,
		fmt.Errorf("read /dev/hwrng: %w", syscall.EAGAIN), io.ErrNoProgress, io.ErrShortBuffer, &os.PathError{Op: "read", Path: "/dev/random", Err: syscall.EINTR}}
	errNames := []string{"EOF", "ErrUnexpectedEOF", "custom", "Temporary", "Temporary+Timeout", "EAGAIN", "EINTR", "os.ErrDeadlineExceeded", "context.DeadlineExceeded", "wrapped-EAGAIN", "ErrNoProgress", "ErrShortBuffer", "PathError-EINTR"}
	chunks := []int{0, 1, 7, 31}
	entries := []string{"GenerateKey", "SignHashed", "SignZa", "Sign"}

	type fcase struct {
		entry    string
		stream   []byte
		failAt   int
		ek       int
		withData bool
		chunk    int
		zero     int
		nrej     int
		src      int  // index into sourceKindNames
		trans    bool // the failure is transient
		repeat   int  // transient: reported this many times in a row
	}
	var cases []fcase
	for nrej := 0; nrej <= 3; nrej++ {
		for variant := 0; variant < hk.N(1, 3); variant++ {
			var stream []byte
			for j := 0; j < nrej; j++ {
				stream = append(stream, over[(j+variant+nrej)%3]...) // always >= n: rejected by both
			}
			stream = append(stream, ref.B32(zvRandScalar(rng))...)
			stream = append(stream, rng.Bytes(32)...)
			for _, entry := range entries {
				for failAt := 0; failAt <= (nrej+1)*32+1; failAt++ {
					for ek := range errKinds[:3] {
						for _, wd := range []bool{false, true} {
							for ci, ch := range chunks {
								if !hk.Thorough() && (failAt+ek+ci)%2 == 1 && failAt%32 != 0 && failAt%32 != 31 {
									continue // quick tier: half of the interior cross-product
								}
								cases = append(cases, fcase{entry: entry, stream: stream, failAt: failAt, ek: ek, withData: wd, chunk: ch, zero: []int{0, 0, 3}[(failAt+ci)%3], nrej: nrej})
							}
						}
					}
				}
				// the same failure positions through other source TYPES (ByteReader, bufio, LimitReader, MultiReader)
				// and as TRANSIENT failures (reported once, data continues afterwards): any reported error must
				// end the call with an error
				for failAt := 0; failAt <= (nrej+1)*32+1; failAt++ {
					for src := 0; src < len(zvSourceKindNames); src++ {
						for ti, tr := range []bool{false, true} {
							if src == 0 && !tr {
								continue
							}
							if !hk.Thorough() && (failAt+src+ti+variant)%2 == 1 && failAt%32 != 0 && failAt%32 != 31 {
								continue
							}
							ek := (failAt + src*5 + ti*3 + variant) % len(errKinds)
							if tr && ek == 0 {
								ek = 3 // a transient EOF makes no sense
							}
							cases = append(cases, fcase{entry: entry, stream: stream, failAt: failAt, ek: ek, withData: (failAt+src)%3 == 0, chunk: chunks[(failAt+ti)%len(chunks)], nrej: nrej, src: src, trans: tr,
								repeat: []int{1, 1, 2, 3, 5}[(failAt+src)%5]})
						}
					}
				}
				// no failure at all, only short reads
				for _, ch := range []int{1, 2, 3, 5, 7, 16, 31, 33} {
					cases = append(cases, fcase{entry: entry, stream: stream, failAt: -1, chunk: ch, zero: []int{0, 2, 3}[ch%3], nrej: nrej})
				}
			}
		}
	}
	// streams whose first candidate is 0 or n-1 (model decides)
	for _, first := range [][]byte{make([]byte, 32), ref.B32(zvNm1)} {
		stream := append(append([]byte{}, first...), ref.B32(zvRandScalar(rng))...)
		for _, entry := range entries {
			for failAt := 30; failAt <= 66; failAt++ {
				cases = append(cases, fcase{entry: entry, stream: stream, failAt: failAt, ek: failAt % 3, withData: failAt%2 == 0, chunk: chunks[failAt%4], nrej: 1})
			}
		}
	}
	// "after ANY number of rejected candidates": longer runs of rejected candidates (a bound on the redraws that gives up
	// quietly sits at a small round number), the source ending or failing at a few offsets of the next draw
	for _, nrej := range []int{4, 7, 8, 9, 15, 16, 17, 31, 32, 33, 64, 100, 255, 256, 300} {
		var stream []byte
		for j := 0; j < nrej; j++ {
			stream = append(stream, over[(j+nrej)%3]...)
		}
		stream = append(stream, rng.Bytes(32)...)
		for _, entry := range []string{"GenerateKey", "SignHashed"} {
			for _, off := range []int{0, 1, 17, 31} {
				cases = append(cases, fcase{entry: entry, stream: stream, failAt: nrej*32 + off, ek: (nrej + off) % 3, withData: off%2 == 1, chunk: chunks[(nrej+off)%len(chunks)], nrej: nrej})
			}
		}
	}
	r.Sample(hk.D{"entry": cases[100].entry, "stream": hk.Hex(cases[100].stream), "fail_at": cases[100].failAt, "err": errNames[cases[100].ek], "chunk": cases[100].chunk})

	hk.Parallel(len(cases), func(i int) {
		c := cases[i]
		avail := c.stream
		if c.failAt >= 0 && c.failAt < len(avail) {
			avail = avail[:c.failAt]
		}
		rd := zvNewScript(c.stream)
		rd.failAt, rd.failErr, rd.failWithData, rd.chunk, rd.zeroEvery, rd.transient, rd.repeat = c.failAt, errKinds[c.ek], c.withData, c.chunk, c.zero, c.trans, c.repeat
		src := zvWrapSource(rd, c.src)
		det := hk.D{"source_type": zvSourceKindNames[c.src], "transient": c.trans, "entry": c.entry, "stream": hk.Hex(c.stream), "fail_at": c.failAt, "err_kind": errNames[c.ek], "with_data": c.withData, "chunk": c.chunk, "zero_every": c.zero, "priv": hk.Hex(priv)}
		pos := "none"
		if c.failAt >= 0 {
			pos = fmt.Sprintf("cand%d+%d", c.failAt/32, c.failAt%32)
		}
		cls := fmt.Sprintf("%s:nrej=%d,fail=%s", c.entry, c.nrej, pos)
		if c.src != 0 || c.trans {
			cls = fmt.Sprintf("%s:src=%s,transient=%v,repeat=%d,nrej=%d,fail=+%d", c.entry, zvSourceKindNames[c.src], c.trans, c.repeat, c.nrej, c.failAt%32)
		}
		if c.entry == "GenerateKey" {
			model := ref.SM2KeyGen(avail)
			var gp, gx, gy []byte
			var err error
			p, pm, _, _ := hk.Try(func() { gp, gx, gy, err = GenerateKey(src) })
			det["priv_out"], det["x"], det["y"], det["error"] = zvHexOrNil(gp), zvHexOrNil(gx), zvHexOrNil(gy), zvErrStr(err)
			det["reads"] = rd.events
			switch {
			case p:
				det["panic"] = pm
				r.Violation("panic-on-failing-source:GenerateKey", det)
			case model.Short && err == nil:
				r.Violation("key-returned-although-source-failed:GenerateKey", det)
			case model.Short && (gx != nil || gy != nil):
				r.Violation("public-key-returned-with-error:GenerateKey", det)
			// a leftover private buffer alongside an error is not flagged: the statement
			// forbids a public key or signature, and the error tells the caller to discard it
			case !model.Short && (err != nil || !bytes.Equal(gp, ref.B32(model.D)) || !bytes.Equal(gx, ref.B32(model.Pub.X)) || !bytes.Equal(gy, ref.B32(model.Pub.Y))):
				r.Violation("short-reads-not-completed:GenerateKey", det)
			}
			r.Eval(cls + fmt.Sprintf(",%s,chunk=%d", errNames[c.ek], c.chunk))
			return
		}
		ee := e
		switch c.entry {
		case "SignZa":
			ee = eZa
		case "Sign":
			ee = eID
		}
		model := ref.SM2Sign(d, ee, avail)
		var rr, ss []byte
		var err error
		p, pm, _, _ := hk.Try(func() {
			switch c.entry {
			case "SignHashed":
				rr, ss, err = SignHashed(src, priv, e)
			case "SignZa":
				rr, ss, err = SignZa(src, priv, za, msg)
			default:
				rr, ss, err = Sign(id, px, py, src, priv, msg)
			}
		})
		det["r"], det["s"], det["error"] = zvHexOrNil(rr), zvHexOrNil(ss), zvErrStr(err)
		det["reads"] = rd.events
		switch {
		case p:
			det["panic"] = pm
			r.Violation("panic-on-failing-source:"+c.entry, det)
		case model.Short && err == nil:
			r.Violation("signature-returned-although-source-failed:"+c.entry, det)
		case model.Short && (rr != nil || ss != nil):
			r.Violation("signature-returned-with-error:"+c.entry, det)
		case !model.Short && (err != nil || !bytes.Equal(rr, ref.B32(model.R)) || !bytes.Equal(ss, ref.B32(model.S))):
			r.Violation("short-reads-not-completed:"+c.entry, det)
		}
		r.Eval(cls + fmt.Sprintf(",%s,chunk=%d", errNames[c.ek], c.chunk))
	})

	// a first candidate that is in range but rejected LATE (r=0, r+k=n, s=0; digest solved from it), then
	// the source fails at every offset of the redraw: error and NOTHING else must come back
	for _, rule := range []string{"r=0", "r+k=n", "s=0"} {
		for rep := 0; rep < hk.N(2, 6); rep++ {
			k1 := zvRandScalar(rng)
			x1 := ref.BaseMulFast(k1).X
			var rT *big.Int
			switch rule {
			case "r=0":
				rT = zvBi(0)
			case "r+k=n":
				rT = new(big.Int).Sub(zvNI, k1)
			default:
				rT = ref.ModN(new(big.Int).Mul(k1, ref.InvN(d)))
			}
			eL := ref.B32(ref.ModN(new(big.Int).Sub(rT, x1)))
			stream := append(ref.B32(k1), ref.B32(zvRandScalar(rng))...)
			for failAt := 32; failAt < 64; failAt += 1 + rep {
				for ek := range errKinds {
					rd := zvNewScript(stream)
					rd.failAt, rd.failErr, rd.failWithData = failAt, errKinds[ek], failAt%2 == 0
					model := ref.SM2Sign(d, eL, stream[:failAt])
					var rr, ss []byte
					var err error
					p, pm, _, _ := hk.Try(func() { rr, ss, err = SignHashed(rd, priv, eL) })
					det := hk.D{"rule": rule, "stream": hk.Hex(stream), "fail_at": failAt, "e": hk.Hex(eL), "priv": hk.Hex(priv), "r": zvHexOrNil(rr), "s": zvHexOrNil(ss), "error": zvErrStr(err)}
					switch {
					case !model.Short || len(model.Rejected) != 1:
						r.Inconclusive("c19: late-rejection stream not rejected by the model as planned")
					case p:
						det["panic"] = pm
						r.Violation("panic-on-failing-source:SignHashed:after-late-rejection", det)
					case err == nil:
						r.Violation("signature-returned-although-source-failed:SignHashed:after-late-rejection", det)
					case rr != nil || ss != nil:
						r.Violation("signature-returned-with-error:SignHashed:after-late-rejection:"+rule, det)
					}
					r.Eval(fmt.Sprintf("SignHashed:late-rejection=%s,fail=cand1+%d", rule, failAt-32))
				}
			}
		}
	}

	// SHORT key encodings (1, 16, 31 bytes): the nonce draw is 32 bytes whatever the length of the key argument; a source
	// that ends anywhere inside it must make the call fail
	for _, kl := range []int{1, 16, 31} {
		db := append([]byte{1 + byte(rng.Intn(255))}, rng.Bytes(kl-1)...)
		d2 := new(big.Int).SetBytes(db)
		stream := append(ref.B32(zvRandScalar(rng)), rng.Bytes(32)...)
		for failAt := 0; failAt <= 33; failAt++ {
			rd := zvNewScript(stream)
			rd.failAt, rd.failErr, rd.failWithData, rd.chunk = failAt, errKinds[failAt%3], failAt%2 == 0, []int{0, 1, 7}[failAt%3]
			model := ref.SM2Sign(d2, e, stream[:failAt])
			var rr, ss []byte
			var err error
			p, pm, _, _ := hk.Try(func() { rr, ss, err = SignHashed(rd, db, e) })
			det := hk.D{"priv": hk.Hex(db), "keylen": kl, "stream": hk.Hex(stream), "fail_at": failAt, "r": zvHexOrNil(rr), "s": zvHexOrNil(ss), "error": zvErrStr(err)}
			switch {
			case p:
				det["panic"] = pm
				r.Violation("panic-on-failing-source:SignHashed:short-key", det)
			case model.Short && err != nil && rr == nil && ss == nil:
			case model.Short && err != nil && len(db) < 32 && rr == nil:
			case model.Short:
				r.Violation("signature-returned-although-source-failed:SignHashed:short-key", det)
			case err != nil || !bytes.Equal(rr, ref.B32(model.R)) || !bytes.Equal(ss, ref.B32(model.S)):
				r.Violation("short-reads-not-completed:SignHashed:short-key", det)
			}
			r.Eval(fmt.Sprintf("SignHashed:keylen=%d,fail=+%d", kl, failAt))
		}
	}

	// STALLS: the source returns (0, nil) many times in a row in the middle of a draw (a device that is not
	// ready) and then goes on. The call must either complete the draw (model result) or give up with an error
	// and nothing else; it must never go on with a partly filled nonce or key.
	for _, entry := range []string{"GenerateKey", "SignHashed"} {
		for _, nrej := range []int{0, 1, 3} {
			for _, off := range []int{0, 1, 13, 31} {
				for _, cnt := range []int{1, 2, 99, 100, 101, 150, 1000, 70000} {
					for _, after := range []string{"data", "eof"} {
						var stream []byte
						for j := 0; j < nrej; j++ {
							stream = append(stream, over[j%3]...)
						}
						stream = append(stream, ref.B32(zvRandScalar(rng))...)
						stream = append(stream, rng.Bytes(32)...)
						at := nrej*32 + off
						rd := zvNewScript(stream)
						rd.stallAt, rd.stallCount = at, cnt
						if after == "eof" {
							rd.failAt = at // nothing more after the stall: must be an error
						}
						det := hk.D{"entry": entry, "stream": hk.Hex(stream), "stall_at": at, "empty_reads": cnt, "then": after, "priv": hk.Hex(priv)}
						var out1, out2, out3 []byte
						var err error
						p, pm, _, _ := hk.Try(func() {
							if entry == "GenerateKey" {
								out1, out2, out3, err = GenerateKey(rd)
							} else {
								out1, out2, err = SignHashed(rd, priv, e)
							}
						})
						okModel := false
						if entry == "GenerateKey" {
							m := ref.SM2KeyGen(stream)
							okModel = after == "data" && err == nil && bytes.Equal(out1, ref.B32(m.D)) && bytes.Equal(out2, ref.B32(m.Pub.X)) && bytes.Equal(out3, ref.B32(m.Pub.Y))
						} else {
							m := ref.SM2Sign(d, e, stream)
							okModel = after == "data" && err == nil && bytes.Equal(out1, ref.B32(m.R)) && bytes.Equal(out2, ref.B32(m.S))
						}
						gaveUp := err != nil && out2 == nil && (entry == "GenerateKey" && out3 == nil || entry != "GenerateKey" && out1 == nil)
						det["error"], det["out"] = zvErrStr(err), zvHexOrNil(out1)+","+zvHexOrNil(out2)
						switch {
						case p:
							det["panic"] = pm
							r.Violation("panic-on-stalling-source:"+entry, det)
						case !okModel && !gaveUp:
							r.Violation("stalling-source-neither-completed-nor-refused:"+entry, det)
						}
						r.Eval(fmt.Sprintf("%s:stall=%d,off=%d,nrej=%d,then=%s", entry, cnt, off, nrej, after))
					}
				}
			}
		}
	}

	// nil source
	{
		var gp, gx, gy []byte
		var err error
		p, pm, _, _ := hk.Try(func() { gp, gx, gy, err = GenerateKey(nil) })
		if p || err == nil || gx != nil || gy != nil {
			r.Violation("nil-source-not-reported:GenerateKey", hk.D{"panic": pm, "err": zvErrStr(err), "priv": zvHexOrNil(gp)})
		}
		r.Eval("GenerateKey:nil-source")
	}
	r.Note("cases", len(cases))
}
