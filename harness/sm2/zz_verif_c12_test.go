//go:build verif

package sm2

import (
	"bytes"
	"fmt"
	"math/big"
	"testing"

	"github.com/bilibili/smgo/zzverif/hk"
	"github.com/bilibili/smgo/zzverif/ref"
)

// C12 — key generation / key tests against the reference model.

func TestVerifC12(t *testing.T) {
	r := hk.NewReporter("C12", "sm2-keys")
	defer r.Close()
	if err := ref.SelfTestSM2(); err != nil {
		r.Inconclusive("oracle self-test: " + err.Error())
		return
	}
	rng := hk.NewRNG(hk.Seed(), "c12")
	zvHostilePrelude(hk.NewRNG(hk.Seed(), "prelude"))

	// ---- GenerateKey on streams whose leading candidates are out of range
	bad := [][]byte{make([]byte, 32), ref.B32(zvNm1), ref.B32(zvNI), ref.B32(new(big.Int).Add(zvNI, zvBi(1))), ref.B32(new(big.Int).Sub(zvB256, zvBi(1)))}
	badName := []string{"0", "n-1", "n", "n+1", "2^256-1"}
	goodEdge := [][]byte{ref.B32(zvBi(1)), ref.B32(zvBi(2)), ref.B32(zvNm2), ref.B32(zvNm3)}
	type gcase struct {
		stream []byte
		chunk  int
		plan   string
	}
	var gcs []gcase
	chunks := []int{0, 1, 7, 31, 32, 33}
	// all sequences of 0..2 bad candidates (in all orders), then some of length 3
	var seqs [][]int
	seqs = append(seqs, []int{})
	for a := 0; a < 5; a++ {
		seqs = append(seqs, []int{a})
		for b := 0; b < 5; b++ {
			seqs = append(seqs, []int{a, b})
		}
	}
	for i := 0; i < hk.N(10, 125); i++ {
		seqs = append(seqs, []int{rng.Intn(5), rng.Intn(5), rng.Intn(5)})
	}
	for si, sq := range seqs {
		var st []byte
		plan := ""
		for _, b := range sq {
			st = append(st, bad[b]...)
			plan += badName[b] + ","
		}
		if si%3 == 0 {
			st = append(st, goodEdge[si%len(goodEdge)]...)
			plan += "edge"
		} else {
			st = append(st, ref.B32(zvRandScalar(rng))...)
			plan += "rand"
		}
		st = append(st, rng.Bytes(64)...)
		gcs = append(gcs, gcase{st, chunks[si%len(chunks)], plan})
	}
	for i := 0; i < hk.N(300, 6000); i++ {
		gcs = append(gcs, gcase{rng.Bytes(32 * 4), chunks[rng.Intn(len(chunks))], "random"})
	}
	// streams that end exactly behind the accepted candidate, whose source reports io.EOF TOGETHER with the last bytes
	// (io.Reader: "it may return the (non-nil) error from the same call"): all 32 bytes were delivered, this is a key
	for i := 0; i < hk.N(40, 400); i++ {
		var st []byte
		for b := 0; b < i%3; b++ {
			st = append(st, bad[(i+b)%5]...)
		}
		st = append(st, ref.B32(zvRandScalar(rng))...)
		gcs = append(gcs, gcase{st, chunks[i%len(chunks)], "eof-with-last-bytes"})
	}
	// finite streams that END before an acceptable candidate is complete: every length 0..31 after 0..2 rejected ones
	for nbad := 0; nbad < 3; nbad++ {
		for l := 0; l < 32; l++ {
			var st []byte
			for b := 0; b < nbad; b++ {
				st = append(st, bad[(l+b)%5]...)
			}
			tail := ref.B32(zvRandScalar(rng))
			if l%2 == 0 {
				tail = append([]byte{0, 0}, rng.Bytes(30)...) // small in any case, whatever follows
			}
			st = append(st, tail[:l]...)
			gcs = append(gcs, gcase{st, chunks[(l+nbad)%len(chunks)], fmt.Sprintf("exhausted-after-%d-rejected", nbad)})
		}
	}
	// a VERY long run of rejected candidates (no bound on redraws in the statement): 2^20+3 of them
	{
		nrej := 1<<20 + 3
		st := bytes.Repeat([]byte{0xff}, 32*nrej)
		for i := 0; i < nrej; i += 5 {
			copy(st[32*i:], ref.B32(zvNm1)) // n-1 mixed in
		}
		st = append(append(st, ref.B32(zvRandScalar(rng))...), rng.Bytes(32)...)
		gcs = append(gcs, gcase{st, 0, "long-rejection-run"})
	}
	r.Sample(hk.D{"kind": "GenerateKey", "plan": gcs[7].plan, "stream": hk.Hex(gcs[7].stream)})
	hk.Parallel(len(gcs), func(i int) {
		g := gcs[i]
		model := ref.SM2KeyGen(g.stream)
		if model.Short {
			// the stream ends before an acceptable 32-byte candidate is complete: there is no key "of this stream";
			// whatever comes back must not be a key (C19 enumerates the failure positions and kinds, here it is the
			// plain end of a finite stream)
			rd := zvNewScript(g.stream)
			rd.chunk = g.chunk
			var priv, x, y []byte
			var err error
			p, msg, _, _ := hk.Try(func() { priv, x, y, err = GenerateKey(rd) })
			// (the private buffer that comes back next to the error is not judged: by convention results beside a
			// non-nil error are unspecified, and C19 speaks of "no public key or signature")
			if p || err == nil || x != nil || y != nil {
				r.Violation("generatekey-returns-a-key-from-an-exhausted-stream", hk.D{"stream": hk.Hex(g.stream), "stream_len": len(g.stream), "chunk": g.chunk, "plan": g.plan, "priv": zvHexOrNil(priv), "x": zvHexOrNil(x), "err": zvErrStr(err), "panic": msg})
			}
			r.Eval(fmt.Sprintf("genkey-exhausted:len%%32=%d,chunk=%d", len(g.stream)%32, g.chunk))
			return
		}
		rd := zvNewScript(g.stream)
		rd.chunk = g.chunk
		rd.errWithFull = g.plan == "eof-with-last-bytes"
		var priv, x, y []byte
		var err error
		p, msg, _, _ := hk.Try(func() { priv, x, y, err = GenerateKey(rd) })
		shown := g.stream[:model.Consumed]
		if len(shown) > 4096 {
			shown = shown[len(shown)-4096:]
		}
		d := hk.D{"stream": hk.Hex(shown), "stream_bytes_consumed_by_model": model.Consumed, "chunk": g.chunk, "plan": g.plan, "priv": zvHexOrNil(priv), "x": zvHexOrNil(x), "y": zvHexOrNil(y), "err": zvErrStr(err),
			"model_d": hk.Hex(ref.B32(model.D)), "model_x": hk.Hex(ref.B32(model.Pub.X)), "model_y": hk.Hex(ref.B32(model.Pub.Y)), "consumed": rd.off, "model_consumed": model.Consumed}
		cls := "plan=" + g.plan
		switch {
		case p:
			d["panic"] = msg
			r.Violation("generatekey-panics:"+cls, d)
		case err != nil:
			r.Violation("generatekey-error-on-good-stream:"+cls, d)
		case !bytes.Equal(priv, ref.B32(model.D)):
			r.Violation("generatekey-wrong-private-key:"+cls, d)
		case !bytes.Equal(x, ref.B32(model.Pub.X)) || !bytes.Equal(y, ref.B32(model.Pub.Y)):
			r.Violation("generatekey-wrong-public-key:"+cls, d)
		case rd.off != model.Consumed:
			r.Violation("generatekey-consumption-differs:"+cls, d)
		case rd.crossesUnit():
			r.Violation("generatekey-draw-not-in-32-byte-units:"+cls, d)
		}
		r.Eval(fmt.Sprintf("genkey:%s,chunk=%d", g.plan, g.chunk))
	})

	// ---- 2^24 (2^26 thorough) consecutive rejected candidates from a generated source: the number of redraws is
	//      unbounded in the statement; an implementation whose redraw costs stack or memory per candidate dies here
	{
		nrej := int64(hk.N(1<<24, 1<<26))
		dd := zvRandScalar(rng)
		zr := &zvZeroRunReader{zeros: 32 * nrej, tail: append(ref.B32(dd), rng.Bytes(32)...)}
		r.Journal("GenerateKey after %d rejected candidates (all zero)", nrej)
		priv, x, y, err := GenerateKey(zr)
		P := zvRefPub(dd)
		if err != nil || !bytes.Equal(priv, ref.B32(dd)) || !bytes.Equal(x, ref.B32(P.X)) || !bytes.Equal(y, ref.B32(P.Y)) || zr.read != 32*nrej+32 {
			r.Violation("generatekey-wrong-after-very-long-rejection-run", hk.D{"rejected_candidates": nrej, "err": zvErrStr(err), "priv": zvHexOrNil(priv), "want": hk.Hex(ref.B32(dd)), "bytes_read": zr.read})
		}
		r.Eval("genkey:rejection-run=2^24+")
	}

	// ---- TestPrivateKey: 32-byte strings accepted iff value in [1,n-2]
	var vals []*big.Int
	for _, c := range []*big.Int{zvBi(0), zvNI, zvB256, new(big.Int).Lsh(zvBi(1), 255), new(big.Int).Lsh(zvBi(1), 128), new(big.Int).Rsh(zvNI, 1)} {
		for dlt := int64(-3); dlt <= 3; dlt++ {
			v := new(big.Int).Add(c, zvBi(dlt))
			if v.Sign() >= 0 && v.Cmp(zvB256) < 0 {
				vals = append(vals, v)
			}
		}
	}
	// values that differ from n-1 in exactly one byte (exercises the byte-wise comparison)
	nb := ref.B32(zvNm1)
	for i := 0; i < 32; i++ {
		for _, dl := range []int{-1, 1} {
			b := append([]byte{}, nb...)
			b[i] = byte(int(b[i]) + dl)
			vals = append(vals, new(big.Int).SetBytes(b))
		}
	}
	for i := 0; i < hk.N(20000, 200000); i++ {
		b := rng.Bytes(32)
		switch rng.Intn(4) {
		case 0: // share a long prefix with n-1
			k := rng.Intn(33)
			copy(b, nb[:k])
		case 1:
			b[0] = 0xff
			b[1] = 0xff
			b[2] = 0xff
			b[3] = 0xfe | byte(rng.Intn(2))
		}
		vals = append(vals, new(big.Int).SetBytes(b))
	}
	// values with a VANISHING or n-like AGGREGATE: the 8/16/32/64-bit words (big- and little-endian reading) sum or XOR
	// to 0, to all-ones, or to the aggregate of n-1 / n; all words equal. A zero test or a comparison that folds the
	// words arithmetically (wrap-around sum, XOR of differences accumulated wrongly) errs only on such values
	// (probability 2^-64 .. 2^-8 per random key). Each is also offered to GenerateKey as the first candidate.
	var aggVals []*big.Int
	{
		nm1b, nbb := ref.B32(zvNm1), ref.B32(zvNI)
		for _, w := range []int{1, 2, 4, 8} {
			words := 32 / w
			agg := func(b []byte, xor, le bool) uint64 {
				var a uint64
				for i := 0; i < words; i++ {
					var v uint64
					for j := 0; j < w; j++ {
						if le {
							v |= uint64(b[i*w+j]) << (8 * uint(j))
						} else {
							v = v<<8 | uint64(b[i*w+j])
						}
					}
					if xor {
						a ^= v
					} else {
						a += v
					}
				}
				if w < 8 {
					a &= 1<<(8*uint(w)) - 1
				}
				return a
			}
			put := func(b []byte, i int, v uint64, le bool) {
				for j := 0; j < w; j++ {
					if le {
						b[i*w+j] = byte(v >> (8 * uint(j)))
					} else {
						b[i*w+j] = byte(v >> (8 * uint(w-1-j)))
					}
				}
			}
			for rep := 0; rep < hk.N(12, 60); rep++ {
				for _, xor := range []bool{false, true} {
					for _, le := range []bool{false, true} {
						for ti, target := range []uint64{0, ^uint64(0), agg(nm1b, xor, le), agg(nbb, xor, le), 1} {
							b := rng.Bytes(32)
							if rep%3 == 1 { // sparse: most words zero
								for i := range b {
									b[i] = 0
								}
								put(b, rng.Intn(words), rng.Uint64(), le)
								put(b, rng.Intn(words), rng.Uint64(), le)
							}
							if rep%3 == 2 && w >= 4 {
								b[0], b[1], b[2], b[3] = 0xff, 0xff, 0xff, 0xfe // next to n
							}
							slot := (rep + ti) % words
							if rep%3 == 2 && w >= 4 && slot == 0 {
								slot = words - 1
							}
							put(b, slot, 0, le)
							cur := agg(b, xor, le)
							var fix uint64
							if xor {
								fix = cur ^ target
							} else {
								fix = target - cur
							}
							put(b, slot, fix, le)
							aggVals = append(aggVals, new(big.Int).SetBytes(b))
						}
					}
				}
			}
			// all words equal
			b := make([]byte, 32)
			for i := 0; i < words; i++ {
				put(b, i, 0x0123456789abcdef, false)
			}
			aggVals = append(aggVals, new(big.Int).SetBytes(b))
		}
		vals = append(vals, aggVals...)
		for i, v := range aggVals {
			stream := append(ref.B32(v), ref.B32(zvRandScalarIdx(hk.Seed(), 900000+i))...)
			stream = append(stream, rng.Bytes(32)...)
			m := ref.SM2KeyGen(stream)
			var priv []byte
			var err error
			pn, pm, _, _ := hk.Try(func() { priv, _, _, err = GenerateKey(zvNewScript(stream)) })
			if pn || err != nil || !bytes.Equal(priv, ref.B32(m.D)) {
				r.Violation("generatekey-not-standard:first-candidate-with-vanishing-aggregate", hk.D{"stream": hk.Hex(stream), "priv": zvHexOrNil(priv), "model_d": hk.Hex(ref.B32(m.D)), "err": zvErrStr(err), "panic": pm})
			}
		}
		r.EvalN("genkey:first-candidate-with-vanishing-aggregate", len(aggVals))
	}
	for _, v := range vals {
		b := ref.B32(v)
		want := ref.ValidPriv(v)
		var got int
		p, msg, _, _ := hk.Try(func() { got = TestPrivateKey(b) })
		if p {
			r.Violation("testprivatekey-panics", hk.D{"priv": hk.Hex(b), "panic": msg})
		} else if (got == 0) != want {
			cls := "testprivatekey-accepts-invalid"
			if want {
				cls = "testprivatekey-rejects-valid"
			}
			r.Violation(cls+":"+zvBoundaryName(v), hk.D{"priv": hk.Hex(b), "got": got})
		}
		r.Eval("testpriv:" + zvBoundaryName(v))
	}
	// lengths: longer than 32 must be rejected
	for l := 33; l <= 40; l++ {
		b := append(make([]byte, l-32), ref.B32(zvBi(7))...)
		if TestPrivateKey(b) == 0 {
			r.Violation("testprivatekey-accepts-long-encoding", hk.D{"priv": hk.Hex(b)})
		}
		r.Eval(fmt.Sprintf("testpriv:len=%d", l))
	}

	// ---- key generation from fresh goroutines at EVERY STACK DEPTH of a sweep, with sources that use a lot of stack in
	//      their first Read or none at all: the candidate buffer must follow the stack wherever it moves
	{
		// (the model's answers are computed before the sweep: a stack the model has already grown does not move again)
		type st struct {
			stream []byte
			d, x   []byte
		}
		var sts []st
		for _, first := range [][]byte{nil, ref.B32(zvNm1), make([]byte, 32), ref.B32(zvNI)} {
			stream := append(append(append([]byte{}, first...), ref.B32(zvRandScalar(rng))...), rng.Bytes(32)...)
			m := ref.SM2KeyGen(stream)
			sts = append(sts, st{stream, ref.B32(m.D), ref.B32(m.Pub.X)})
		}
		hk.AtStackDepths(hk.N(700, 2000), 96<<10, 8, func(depth int) {
			s0 := sts[depth%len(sts)]
			src := &zvStackHungryReader{inner: zvNewScript(s0.stream), hungry: depth%3 == 0}
			priv, x, _, err := GenerateKey(src)
			if err != nil || !bytes.Equal(priv, s0.d) || !bytes.Equal(x, s0.x) {
				r.Violation("generatekey-wrong-when-the-stack-grows-inside-the-call", hk.D{"stack_depth_frames": depth, "stream": hk.Hex(s0.stream), "priv": zvHexOrNil(priv), "model_d": hk.Hex(s0.d), "err": zvErrStr(err), "source_uses_stack": depth%3 == 0})
			}
		})
		r.EvalN("genkey:stack-depth-sweep", hk.N(700, 2000))
		// a source that hands the buffer to a WORKER goroutine and delivers in pieces, with a garbage collection (stack
		// shrink of the parked caller) between the pieces; the caller comes from a deep call chain
		for i := 0; i < hk.N(10, 60); i++ {
			s0 := sts[i%len(sts)]
			var priv, x []byte
			var err error
			h := zvNewHandoffReader(zvNewScript(s0.stream), []int{16, 8, 31, 1}[i%4])
			zvAfterLargeStack([]int{150, 400, 1200, 60}[(i/4)%4], func() { priv, x, _, err = GenerateKey(h) })
			h.Close()
			if err != nil || !bytes.Equal(priv, s0.d) || !bytes.Equal(x, s0.x) {
				r.Violation("generatekey-wrong:source-fills-the-buffer-from-another-goroutine", hk.D{"stream": hk.Hex(s0.stream), "priv": zvHexOrNil(priv), "model_d": hk.Hex(s0.d), "err": zvErrStr(err)})
			}
			r.Eval("genkey:source:worker-goroutine-fills-the-buffer")
		}
	}

	// ---- values from the LIMB GRID around n - 1 (each limb 0, limb - 1, limb, limb + 1, all ones): the private-key test,
	//      derivation and key generation must draw the line exactly at n - 2
	{
		grid := ref.LimbGrid(zvNm1)
		hk.Parallel(len(grid), func(i int) {
			v := grid[i]
			b := ref.B32(v)
			want := 0
			if !ref.ValidPriv(v) {
				want = -1
			}
			if got := TestPrivateKey(b); got != want {
				r.Violation("testprivatekey-wrong:limb-grid-around-n-1", hk.D{"priv": hk.Hex(b), "got": got, "want": want})
			}
			if i%3 == int(hk.Seed()%3) || hk.Thorough() {
				stream := append(append([]byte{}, b...), ref.B32(zvBi(7))...)
				model := ref.SM2KeyGen(stream)
				priv, x, _, err := GenerateKey(zvNewScript(stream))
				if err != nil || !bytes.Equal(priv, ref.B32(model.D)) || !bytes.Equal(x, ref.B32(model.Pub.X)) {
					r.Violation("generatekey-wrong:first-candidate-from-limb-grid-around-n-1", hk.D{"candidate": hk.Hex(b), "priv": zvHexOrNil(priv), "model_d": hk.Hex(ref.B32(model.D)), "err": zvErrStr(err)})
				}
			}
			r.Eval("limb-grid-around-n-1")
		})
	}

	// ---- DerivePublic: [d]G or an error, never a panic, never a wrong point
	var dvals []*big.Int
	dvals = append(dvals, vals[:60]...)
	dvals = append(dvals, ref.LimbGrid(zvNI)[:625:625]...)
	for i := 0; i < hk.N(300, 5000); i++ {
		dvals = append(dvals, new(big.Int).SetBytes(rng.Bytes(32)))
	}
	hk.Parallel(len(dvals), func(i int) {
		v := dvals[i]
		b := ref.B32(v)
		var x, y []byte
		var err error
		p, msg, _, _ := hk.Try(func() { x, y, err = DerivePublic(b) })
		want := ref.BaseMulFast(v)
		d := hk.D{"priv": hk.Hex(b), "x": zvHexOrNil(x), "y": zvHexOrNil(y), "err": zvErrStr(err)}
		name := zvBoundaryName(v)
		switch {
		case p:
			d["panic"] = msg
			r.Violation("derivepublic-panics:"+name, d)
		case err != nil:
			if !want.Inf && ref.ValidPriv(v) {
				r.Violation("derivepublic-error-on-valid-key:"+name, d)
			}
		case want.Inf:
			r.Violation("derivepublic-returns-point-for-infinity:"+name, d)
		case !bytes.Equal(x, ref.B32(want.X)) || !bytes.Equal(y, ref.B32(want.Y)):
			d["want_x"], d["want_y"] = hk.Hex(ref.B32(want.X)), hk.Hex(ref.B32(want.Y))
			r.Violation("derivepublic-wrong-point:"+name, d)
		}
		r.Eval("derive:" + name)
	})
	// the caller REUSES one key buffer (overwritten in place with key after key, also with an earlier key again) and
	// KEEPS the coordinates it was given: every derivation is that of the bytes the buffer held at the moment of the
	// call, and what was handed out earlier does not change
	{
		var pb [32]byte
		type kept struct{ x, y, wx, wy []byte }
		var outs []kept
		ks := []*big.Int{zvRandScalar(rng), zvRandScalar(rng), zvRandScalar(rng), zvBi(1), new(big.Int).Set(zvNm2)}
		for step := 0; step < hk.N(60, 600); step++ {
			v := ks[rng.Intn(len(ks))]
			copy(pb[:], ref.B32(v))
			x, y, err := DerivePublic(pb[:])
			want := ref.BaseMulFast(v)
			if err != nil || !bytes.Equal(x, ref.B32(want.X)) || !bytes.Equal(y, ref.B32(want.Y)) {
				r.Violation("derivepublic-wrong-point:caller-reuses-its-key-buffer", hk.D{"priv": hk.Hex(pb[:]), "x": zvHexOrNil(x), "y": zvHexOrNil(y), "want_x": hk.Hex(ref.B32(want.X)), "err": zvErrStr(err), "step": step})
				break
			}
			if tp := TestPrivateKey(pb[:]); tp != 0 {
				r.Violation("testprivatekey-rejects-valid-key:caller-reuses-its-key-buffer", hk.D{"priv": hk.Hex(pb[:]), "result": tp})
			}
			outs = append(outs, kept{x, y, ref.B32(want.X), ref.B32(want.Y)})
			r.Eval("derive:reused-key-buffer")
		}
		for i, o := range outs {
			if !bytes.Equal(o.x, o.wx) || !bytes.Equal(o.y, o.wy) {
				r.Violation("public-key-handed-out-earlier-changed-by-later-calls", hk.D{"call_number": i, "x_now": hk.Hex(o.x), "x_returned": hk.Hex(o.wx)})
				break
			}
		}
	}
	for l := 0; l <= 40; l++ {
		if l == 32 {
			continue
		}
		b := rng.Bytes(l)
		var x, y []byte
		var err error
		p, msg, _, _ := hk.Try(func() { x, y, err = DerivePublic(b) })
		if p {
			r.Violation("derivepublic-panics:wrong-length", hk.D{"priv": hk.Hex(b), "panic": msg})
		} else if err == nil {
			// a result is only acceptable if it is the right point for the value
			want := ref.BaseMulFast(new(big.Int).SetBytes(b))
			if want.Inf || !bytes.Equal(x, ref.B32(want.X)) || !bytes.Equal(y, ref.B32(want.Y)) {
				r.Violation("derivepublic-wrong-point:wrong-length", hk.D{"priv": hk.Hex(b), "x": zvHexOrNil(x), "y": zvHexOrNil(y)})
			}
		}
		r.Eval(fmt.Sprintf("derive:len=%d", l))
	}

	// ---- CheckOnCurve: exactly canonical 32-byte coordinates on the curve
	type cc struct {
		x, y  []byte
		label string
	}
	var ccs []cc
	for i := 0; i < hk.N(200, 3000); i++ {
		P := ref.BaseMulFast(zvRandScalar(rng))
		x, y := ref.B32(P.X), ref.B32(P.Y)
		ccs = append(ccs, cc{x, y, "on-curve"})
		ccs = append(ccs, cc{x, ref.B32(P.Neg().Y), "on-curve-neg"})
		ccs = append(ccs, cc{zvFlip(x, rng.Intn(256)), y, "bitflip-x"})
		ccs = append(ccs, cc{x, zvFlip(y, rng.Intn(256)), "bitflip-y"})
		ccs = append(ccs, cc{y, x, "swapped"})
		ccs = append(ccs, cc{rng.Bytes(32), rng.Bytes(32), "random"})
		if i < 45 {
			l := i
			if l >= 32 {
				l++
			}
			ccs = append(ccs, cc{rng.Bytes(l), y, "x-wrong-length"})
			ccs = append(ccs, cc{x, rng.Bytes(l), "y-wrong-length"})
		}
		// coordinates that are TOO LONG but begin (or end) with the coordinates of a point on the curve: a decoder that
		// looks at a fixed-length view of its input sees a valid point
		if i%4 == 0 {
			extra := rng.Bytes([]int{1, 8, 32}[(i/4)%3])
			ccs = append(ccs, cc{append(append([]byte{}, x...), extra...), y, "x-too-long-with-valid-prefix"})
			ccs = append(ccs, cc{x, append(append([]byte{}, y...), extra...), "y-too-long-with-valid-prefix"})
			ccs = append(ccs, cc{append(append([]byte{}, x...), extra...), append(append([]byte{}, y...), extra...), "both-too-long-with-valid-prefix"})
			ccs = append(ccs, cc{append(append([]byte{}, extra...), x...), append(append([]byte{}, extra...), y...), "both-too-long-with-valid-suffix"})
			ccs = append(ccs, cc{append(make([]byte, len(extra)), x...), append(make([]byte, len(extra)), y...), "both-too-long-with-leading-zeros"})
		}
	}
	z := make([]byte, 32)
	ccs = append(ccs, cc{z, z, "(0,0)"}, cc{ref.B32(ref.SM2Gx), ref.B32(ref.SM2Gy), "G"}, cc{nil, nil, "nil"},
		cc{ref.B32(ref.SM2P), ref.B32(ref.SM2Gy), "x=p"}, cc{ref.B32(ref.SM2Gx), ref.B32(ref.SM2P), "y=p"})
	lim := new(big.Int).Sub(zvB256, ref.SM2P)
	for x := int64(0); x < 60; x++ {
		P, ok := ref.LiftX(zvBi(x))
		if !ok {
			continue
		}
		ccs = append(ccs, cc{ref.B32(P.X), ref.B32(P.Y), "small-x-on-curve"})
		ccs = append(ccs, cc{ref.B32(new(big.Int).Add(P.X, ref.SM2P)), ref.B32(P.Y), "x+p"})
		if P.Y.Cmp(lim) < 0 {
			ccs = append(ccs, cc{ref.B32(P.X), ref.B32(new(big.Int).Add(P.Y, ref.SM2P)), "y+p"})
		}
	}
	// x0 + p for on-curve x0 anywhere in [0, 2^256 - p): the encoding's top word is FFFFFFFE or FFFFFFFF
	{
		span := new(big.Int).Sub(zvB256, ref.SM2P)
		found := 0
		for tries := 0; found < hk.N(40, 400) && tries < 20000; tries++ {
			x0 := new(big.Int).SetBytes(rng.Bytes(29))
			switch tries % 6 {
			case 1:
				x0.Rsh(x0, uint(8*rng.Intn(24)))
			case 2:
				x0 = new(big.Int).Sub(span, new(big.Int).SetBytes(rng.Bytes(3)))
			case 3:
				x0 = new(big.Int).Add(new(big.Int).Lsh(zvBi(1), 96), new(big.Int).SetBytes(rng.Bytes(6)))
			case 4:
				x0 = new(big.Int).Add(new(big.Int).Lsh(zvBi(1), uint(64+rng.Intn(160))), new(big.Int).SetBytes(rng.Bytes(4)))
			}
			if x0.Sign() < 0 || x0.Cmp(span) >= 0 {
				continue
			}
			P, ok := ref.LiftX(x0)
			if !ok {
				continue
			}
			found++
			ccs = append(ccs, cc{ref.B32(P.X), ref.B32(P.Y), "x-below-2^256-p-on-curve"})
			enc := ref.B32(new(big.Int).Add(P.X, ref.SM2P))
			ccs = append(ccs, cc{enc, ref.B32(P.Y), fmt.Sprintf("x+p:topword=%02x%02x%02x%02x", enc[0], enc[1], enc[2], enc[3])})
		}
	}
	// coordinates from rare classes: x or y in [n, p), tiny y (fixture + lifted)
	if sps, scls, serr := ref.SpecialPoints(); serr != nil {
		r.Inconclusive("special-point fixture: " + serr.Error())
	} else {
		for i, P := range sps {
			ccs = append(ccs, cc{ref.B32(P.X), ref.B32(P.Y), "coordinate-class:" + scls[i]})
			ccs = append(ccs, cc{ref.B32(P.X), zvFlip(ref.B32(P.Y), 255), "coordinate-class-off-curve:" + scls[i]})
		}
	}
	// non-canonical encodings with a sparse distance from the bound, and valid coordinates split at the wrong place
	if als, aerr := ref.SparseAliases(); aerr == nil {
		for _, al := range als {
			ccs = append(ccs, cc{al.X, al.Y, "non-canonical:" + al.Class})
		}
	} else {
		r.Inconclusive("alias construction: " + aerr.Error())
	}
	for i := 0; i < hk.N(3, 12); i++ {
		P := ref.BaseMulFast(zvRandScalar(rng))
		xy := append(ref.B32(P.X), ref.B32(P.Y)...)
		for _, cut := range []int{0, 1, 16, 31, 33, 40, 63, 64} {
			ccs = append(ccs, cc{xy[:cut], xy[cut:], "lengths-compensate"})
		}
	}
	// points that are not on the curve but whose curve-equation defect sits in one limb / one byte only
	for _, np := range ref.NearCurvePoints(rng.Bytes, hk.N(2, 8)) {
		ccs = append(ccs, cc{ref.B32(np.X), ref.B32(np.Y), "off-curve:" + np.Class})
	}
	for _, c := range ccs {
		want := len(c.x) == 32 && len(c.y) == 32 && ref.OnCurve(ref.Int(c.x), ref.Int(c.y))
		var got bool
		p, msg, _, _ := hk.Try(func() { got = CheckOnCurve(c.x, c.y) })
		if p {
			r.Violation("checkoncurve-panics:"+c.label, hk.D{"x": zvHexOrNil(c.x), "y": zvHexOrNil(c.y), "panic": msg})
		} else if got != want {
			r.Violation("checkoncurve-wrong:"+c.label, hk.D{"x": zvHexOrNil(c.x), "y": zvHexOrNil(c.y), "got": got, "want": want})
		}
		r.Eval(fmt.Sprintf("oncurve:%s=%v", c.label, want))
	}
}

func zvBoundaryName(v *big.Int) string {
	type nb struct {
		name string
		c    *big.Int
	}
	for _, b := range []nb{{"0", zvBi(0)}, {"n", zvNI}, {"2^256", zvB256}} {
		d := new(big.Int).Sub(v, b.c)
		if d.IsInt64() && d.Int64() >= -3 && d.Int64() <= 3 {
			return fmt.Sprintf("%s%+d", b.name, d.Int64())
		}
	}
	if v.Cmp(zvNI) >= 0 {
		return "above-n"
	}
	return fmt.Sprintf("in-range:lz=%d", zvLzClass(v))
}
