//go:build verif

package sm2

import (
	"bytes"
	"fmt"
	"testing"

	"github.com/bilibili/smgo/zzverif/hk"
	"github.com/bilibili/smgo/zzverif/ref"
)

// C11 (SM2 entry points) — memory monitor: every byte-string argument of every exported function is
// (a) placed so that it ends on the last accessible byte of a mapping, with a capacity that reaches
// over the following PROT_NONE page (an append to the argument, or a read past its length, faults),
// (b) placed at the first byte of a mapping (an under-run faults), and (c) carved out of one record
// whose other bytes are canaries and neighbouring fields (a write outside the argument's byte range
// that stays inside mapped memory shows in the snapshot comparison). Results are compared with the
// model as well, so that a call that "survives" by returning early is not counted as coverage.

type c11call struct {
	name string
	args [][]byte
	// run executes the entry point with the given views of args and reports whether the answer is the model's
	run func(v [][]byte) (ok bool, got string)
}

func TestVerifC11SM2(t *testing.T) {
	r := hk.NewReporter("C11", "sm2-memory")
	defer r.Close()
	if err := ref.SelfTestSM2(); err != nil {
		r.Inconclusive("oracle self-test: " + err.Error())
		return
	}
	rng := hk.NewRNG(hk.Seed(), "c11sm2")
	pool := hk.NewPool()

	for iter := 0; iter < hk.N(40, 400); iter++ {
		d := zvRandScalar(rng)
		P := zvRefPub(d)
		px, py, priv := ref.B32(P.X), ref.B32(P.Y), ref.B32(d)
		id := rng.Bytes(rng.Pick([]int{0, 1, 16, 16, 33, 200}))
		msg := rng.Bytes(rng.Pick([]int{0, 1, 8, 31, 32, 33, 40, 64, 100, 300}))
		za, _ := ref.SM2ZA(id, px, py)
		e := ref.SM2E(za, msg)
		stream := rng.Bytes(32 * 6)
		model := ref.SM2Sign(d, e, stream)
		if model.R == nil {
			continue
		}
		mr, ms := ref.B32(model.R), ref.B32(model.S)
		eqSig := func(rr, ss []byte, err error) (bool, string) {
			return err == nil && bytes.Equal(rr, mr) && bytes.Equal(ss, ms), zvHexOrNil(rr) + "," + zvHexOrNil(ss) + "," + zvErrStr(err)
		}
		calls := []c11call{
			{"ZA", [][]byte{id, px, py}, func(v [][]byte) (bool, string) {
				got, err := ZA(v[0], v[1], v[2])
				return err == nil && bytes.Equal(got, za), zvHexOrNil(got)
			}},
			{"Sign", [][]byte{id, px, py, priv, msg}, func(v [][]byte) (bool, string) {
				return eqSig(Sign(v[0], v[1], v[2], zvNewScript(stream), v[3], v[4]))
			}},
			{"SignZa", [][]byte{priv, za, msg}, func(v [][]byte) (bool, string) {
				return eqSig(SignZa(zvNewScript(stream), v[0], v[1], v[2]))
			}},
			{"SignHashed", [][]byte{priv, e}, func(v [][]byte) (bool, string) {
				return eqSig(SignHashed(zvNewScript(stream), v[0], v[1]))
			}},
			{"Verify", [][]byte{id, px, py, msg, mr, ms}, func(v [][]byte) (bool, string) {
				ok, err := Verify(v[0], v[1], v[2], v[3], v[4], v[5])
				return ok && err == nil, fmt.Sprint(ok, err)
			}},
			{"VerifyZa", [][]byte{px, py, za, msg, mr, ms}, func(v [][]byte) (bool, string) {
				ok, err := VerifyZa(v[0], v[1], v[2], v[3], v[4], v[5])
				return ok && err == nil, fmt.Sprint(ok, err)
			}},
			{"VerifyHashed", [][]byte{px, py, e, mr, ms}, func(v [][]byte) (bool, string) {
				ok, err := VerifyHashed(v[0], v[1], v[2], v[3], v[4])
				return ok && err == nil, fmt.Sprint(ok, err)
			}},
			{"DerivePublic", [][]byte{priv}, func(v [][]byte) (bool, string) {
				x, y, err := DerivePublic(v[0])
				return err == nil && bytes.Equal(x, px) && bytes.Equal(y, py), zvHexOrNil(x)
			}},
			{"TestPrivateKey", [][]byte{priv}, func(v [][]byte) (bool, string) {
				c := TestPrivateKey(v[0])
				return c == 0, fmt.Sprint(c)
			}},
			{"CheckOnCurve", [][]byte{px, py}, func(v [][]byte) (bool, string) {
				ok := CheckOnCurve(v[0], v[1])
				return ok, fmt.Sprint(ok)
			}},
		}
		for _, c := range calls {
			// (a)/(b): guard pages, all arguments at once, then placement per call
			for _, place := range []int{hk.PlaceEnd, hk.PlaceStart} {
				gs := make([]*hk.GBuf, len(c.args))
				v := make([][]byte, len(c.args))
				for i, a := range c.args {
					gs[i] = pool.Get(len(a), place)
					copy(gs[i].B, a)
					v[i] = gs[i].OverCap()
				}
				var ok bool
				var got string
				p, pm, isFault, addr := hk.Try(func() { ok, got = c.run(v) })
				det := hk.D{"entry": c.name, "placement": []string{"end-abutting, capacity over the guard page", "start-abutting"}[place], "arg_lengths": zvLens(c.args), "got": got}
				switch {
				case p && isFault:
					det["fault_address"] = fmt.Sprintf("%#x", addr)
					for i, g := range gs {
						if in, off := g.InRegion(addr); in {
							det["fault_argument_index"], det["fault_offset_from_argument_start"] = i, off
						}
					}
					det["panic"] = pm
					r.Violation("access-outside-argument:"+c.name, det)
				case p:
					det["panic"] = pm
					r.Violation("panic-on-valid-arguments:"+c.name, det)
				case !ok:
					r.Violation("wrong-answer-on-guarded-arguments:"+c.name, det)
				}
				for _, g := range gs {
					pool.Put(g)
				}
				r.Eval(fmt.Sprintf("%s:place=%d,msglen%%64=%d,idlen=%d", c.name, place, len(msg)%64, len(id)))
			}
			// (a'): all arguments ADJACENT in one guarded mapping, in rotated order, the first one at the very start of the
			// mapping (or the last one at its very end): a look at the byte in front of an argument, or behind it, faults
			for rot := 0; rot < len(c.args); rot++ {
				n, total := len(c.args), 0
				for _, a := range c.args {
					total += len(a)
				}
				if total == 0 {
					continue
				}
				place := []int{hk.PlaceStart, hk.PlaceEnd}[(rot+iter)%2]
				g := pool.Get(total, place)
				v := make([][]byte, n)
				off := 0
				for i := 0; i < n; i++ {
					k := (i + rot) % n
					copy(g.B[off:], c.args[k])
					v[k] = g.B[off : off+len(c.args[k]) : off+len(c.args[k])]
					off += len(c.args[k])
				}
				var ok bool
				var got string
				p, pm, isFault, addr := hk.Try(func() { ok, got = c.run(v) })
				det := hk.D{"entry": c.name, "placement": "all arguments adjacent in one mapping, " + []string{"first at its start", "last at its end"}[(rot+iter)%2], "first_argument_index": rot, "arg_lengths": zvLens(c.args), "got": got}
				switch {
				case p && isFault:
					det["fault_address"] = fmt.Sprintf("%#x", addr)
					det["panic"] = pm
					r.Violation("access-outside-argument:"+c.name, det)
				case p:
					det["panic"] = pm
					r.Violation("panic-on-valid-arguments:"+c.name, det)
				case !ok:
					r.Violation("wrong-answer-on-guarded-arguments:"+c.name, det)
				}
				pool.Put(g)
				r.Eval(fmt.Sprintf("%s:adjacent-in-one-mapping,first=%d,place=%d", c.name, rot, place))
			}
			// (c): one record, rotated field order, adjacent (gap 0) or separated by canaries
			for rot := 0; rot < len(c.args); rot++ {
				n := len(c.args)
				order := make([]int, n)
				fields := make([][]byte, n)
				for i := range order {
					order[i] = (i + rot) % n
					fields[i] = c.args[order[i]]
				}
				gap := []int{0, 8, 1}[(rot+iter)%3]
				rec := hk.NewRecord(gap, 512, fields...)
				v := make([][]byte, n)
				for i := range order {
					v[order[i]] = rec.View(i, fields[i])
				}
				var ok bool
				var got string
				p, pm, _, _ := hk.Try(func() { ok, got = c.run(v) })
				intact, off, field := rec.Intact()
				det := hk.D{"entry": c.name, "record_field_order": order, "gap": gap, "arg_lengths": zvLens(c.args), "got": got}
				switch {
				case !intact:
					det["first_modified_record_offset"], det["lies_in_field"] = off, field
					r.Violation("write-outside-argument-inside-caller-record:"+c.name, det)
				case p:
					det["panic"] = pm
					r.Violation("panic-on-valid-arguments:"+c.name, det)
				case !ok:
					r.Violation("wrong-answer-on-record-arguments:"+c.name, det)
				}
				r.Eval(fmt.Sprintf("%s:record,gap=%d,first=%d", c.name, gap, order[0]))
			}
		}
	}
}

func zvLens(a [][]byte) []int {
	out := make([]int, len(a))
	for i := range a {
		out[i] = len(a[i])
	}
	return out
}
