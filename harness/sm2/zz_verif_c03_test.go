//go:build verif

package sm2

import (
	"bytes"
	"fmt"
	"math/big"
	"testing"

	"github.com/bilibili/smgo/sm2/internal"
	"github.com/bilibili/smgo/zzverif/hk"
	"github.com/bilibili/smgo/zzverif/ref"
)

// C03 — differential monitor: VerifyHashed (and the wrappers on derived
// inputs) against the GM/T 0003.2 verifier model on hostile byte strings.

type c03case struct {
	px, py, e, r, s []byte
	label           string
}

func c03run(rep *hk.Reporter, c *c03case) {
	want := ref.SM2Verify(c.px, c.py, c.e, c.r, c.s)
	var ok bool
	var err error
	p, msg, _, _ := hk.Try(func() { ok, err = VerifyHashed(c.px, c.py, c.e, c.r, c.s) })
	d := hk.D{"px": zvHexOrNil(c.px), "py": zvHexOrNil(c.py), "e": zvHexOrNil(c.e), "r": zvHexOrNil(c.r), "s": zvHexOrNil(c.s), "label": c.label, "model_accepts": want, "err": zvErrStr(err)}
	switch {
	case p:
		d["panic"] = msg
		rep.Violation("verify-panics:"+c.label, d)
	case ok != want && want:
		rep.Violation("valid-signature-rejected:"+c.label, d)
	case ok != want:
		rep.Violation("invalid-signature-accepted:"+c.label, d)
	case ok && err != nil:
		rep.Violation("accepts-with-error:"+c.label, d)
	}
	rep.Eval(fmt.Sprintf("%s:model=%v", c.label, want))
}

// tupleFor builds (e, r, s) satisfying the verification *equation* for public
// key P and the chosen s, t — without needing a private key: R = [s]G + [t]P,
// r = t - s, e = r - x_R (all mod n).
func zvTupleFor(P ref.Pt, s, t *big.Int) (e, r *big.Int, inf bool) {
	R := ref.BaseMulFast(ref.ModN(s)).Add(P.Mul(ref.ModN(t)))
	r = ref.ModN(new(big.Int).Sub(t, s))
	if R.Inf {
		return new(big.Int).Set(r), r, true // the implementation treats x(inf) as 0
	}
	e = ref.ModN(new(big.Int).Sub(r, R.X))
	return e, r, false
}

func TestVerifC03(t *testing.T) {
	rep := hk.NewReporter("C03", "sm2-verify-model")
	defer rep.Close()
	if err := ref.SelfTestSM2(); err != nil {
		rep.Inconclusive("oracle self-test: " + err.Error())
		return
	}
	rng := hk.NewRNG(hk.Seed(), "c03")
	var cases []*c03case
	add := func(label string, px, py, e, r, s []byte) {
		cases = append(cases, &c03case{px: px, py: py, e: e, r: r, s: s, label: label})
	}

	nKeys := hk.N(4, 24)
	type kp struct {
		d *big.Int
		P ref.Pt
	}
	var kps []kp
	kps = append(kps, kp{zvBi(1), ref.G()}, kp{zvBi(2), zvRefPub(zvBi(2))}, kp{new(big.Int).Set(zvNm1), zvRefPub(zvNm1)})
	for i := 0; i < nKeys; i++ {
		d := zvRandScalar(rng)
		kps = append(kps, kp{d, zvRefPub(d)})
	}

	// (a) valid tuples, including short t, r, s; and (c) all 1,280 single-bit flips
	nFlipTuples := hk.N(5, 120)
	for i := 0; i < hk.N(60, 2000); i++ {
		k := kps[rng.Intn(len(kps))]
		s := zvRandScalar(rng)
		tt := zvRandScalar(rng)
		switch i % 6 {
		case 1: // short t
			b := rng.Bytes(32 - 1 - rng.Intn(31))
			tt = new(big.Int).SetBytes(b)
			if tt.Sign() == 0 {
				tt = zvBi(1)
			}
		case 2: // short s
			s = new(big.Int).SetBytes(rng.Bytes(32 - 1 - rng.Intn(31)))
			if s.Sign() == 0 {
				s = zvBi(1)
			}
		case 3: // short r = t - s: pick r then t = r + s
			rr := new(big.Int).SetBytes(rng.Bytes(32 - 1 - rng.Intn(31)))
			if rr.Sign() == 0 {
				rr = zvBi(1)
			}
			tt = ref.ModN(new(big.Int).Add(rr, s))
		}
		e, r, inf := zvTupleFor(k.P, s, tt)
		if inf || r.Sign() == 0 || tt.Sign() == 0 {
			continue
		}
		px, py := ref.B32(k.P.X), ref.B32(k.P.Y)
		add(fmt.Sprintf("valid:lz(t)=%d", zvLzClass(tt)), px, py, ref.B32(e), ref.B32(r), ref.B32(s))
		if i < nFlipTuples {
			args := [][]byte{px, py, ref.B32(e), ref.B32(r), ref.B32(s)}
			names := []string{"px", "py", "e", "r", "s"}
			for a := 0; a < 5; a++ {
				for bit := 0; bit < 256; bit++ {
					m := make([][]byte, 5)
					for j := range args {
						m[j] = append([]byte{}, args[j]...)
					}
					m[a][bit/8] ^= 1 << uint(bit%8)
					add("bitflip:"+names[a], m[0], m[1], m[2], m[3], m[4])
				}
			}
		}
	}

	// (a'') MANY valid tuples with a tiny t = (r+s) mod n and a random s: the key's half of the double-scalar
	// schedule starts only in the last rows, where the base half's windows of s (any of 64 values each) are
	// already being consumed - hundreds of samples so that every window pattern of s meets an empty accumulator
	for i := 0; i < hk.N(900, 6000); i++ {
		k := kps[rng.Intn(len(kps))]
		sI := zvRandScalar(rng)
		tt := zvBi(int64(1 + rng.Intn(1<<uint([]int{4, 8, 13, 16, 18}[i%5]))))
		e, r, inf := zvTupleFor(k.P, sI, tt)
		if inf || r.Sign() == 0 {
			continue
		}
		add(fmt.Sprintf("valid:tiny-t<2^%d", []int{4, 8, 13, 16, 18}[i%5]), ref.B32(k.P.X), ref.B32(k.P.Y), ref.B32(e), ref.B32(r), ref.B32(sI))
	}
	// (a') ARITHMETIC mutations of valid tuples by the constants of the domain: each of e, r, s shifted by
	// +-(p-n), +-n, +-p, +-(2^256-n), +-(2^256-p), +-1 in 256-bit arithmetic and modulo n; r and s swapped; one value
	// copied into another. A verifier that compares the wrong representative, reduces by the wrong modulus
	// or accepts a second candidate accepts one of these (bit flips are far from all of them).
	{
		pmn := new(big.Int).Sub(ref.SM2P, zvNI)
		deltas := []*big.Int{pmn, zvNI, ref.SM2P, new(big.Int).Sub(zvB256, zvNI), new(big.Int).Sub(zvB256, ref.SM2P), zvBi(1), new(big.Int).Lsh(pmn, 1)}
		dnames := []string{"p-n", "n", "p", "2^256-n", "2^256-p", "1", "2(p-n)"}
		for i := 0; i < hk.N(12, 100); i++ {
			k := kps[rng.Intn(len(kps))]
			sI, tt := zvRandScalar(rng), zvRandScalar(rng)
			e, r, inf := zvTupleFor(k.P, sI, tt)
			if inf || r.Sign() == 0 {
				continue
			}
			px, py := ref.B32(k.P.X), ref.B32(k.P.Y)
			vals := []*big.Int{e, r, sI}
			vn := []string{"e", "r", "s"}
			for a := 0; a < 3; a++ {
				for di, dl := range deltas {
					for _, sign := range []int64{1, -1} {
						for _, modn := range []bool{false, true} {
							v := new(big.Int).Add(vals[a], new(big.Int).Mul(dl, zvBi(sign)))
							if modn {
								v = ref.ModN(v)
							} else {
								v.Mod(v, zvB256)
							}
							if v.Cmp(vals[a]) == 0 {
								continue
							}
							m := [][]byte{ref.B32(e), ref.B32(r), ref.B32(sI)}
							m[a] = ref.B32(v)
							add(fmt.Sprintf("shift:%s%+d*(%s)", vn[a], sign, dnames[di]), px, py, m[0], m[1], m[2])
						}
					}
				}
			}
			add("swap:r<->s", px, py, ref.B32(e), ref.B32(sI), ref.B32(r))
			add("copy:r=e", px, py, ref.B32(e), ref.B32(e), ref.B32(sI))
			add("copy:e=r", px, py, ref.B32(r), ref.B32(r), ref.B32(sI))
			add("copy:s=r", px, py, ref.B32(e), ref.B32(r), ref.B32(r))
			add("copy:key=(r,s)", ref.B32(r), ref.B32(sI), ref.B32(e), ref.B32(r), ref.B32(sI))
		}
	}

	// (b) solved near-misses: equation satisfied, exactly one side condition broken
	small := func() *big.Int { // < 2^224 so that v+n still fits 32 bytes
		return new(big.Int).SetBytes(rng.Bytes(27))
	}
	for i := 0; i < hk.N(12, 200); i++ {
		k := kps[rng.Intn(len(kps))]
		px, py := ref.B32(k.P.X), ref.B32(k.P.Y)
		// r = 0  (t = s)
		s := zvRandScalar(rng)
		e, r, _ := zvTupleFor(k.P, s, s)
		add("near:r=0", px, py, ref.B32(e), ref.B32(r), ref.B32(s))
		// s = 0  (t = r)
		tt := zvRandScalar(rng)
		e, r, _ = zvTupleFor(k.P, zvBi(0), tt)
		add("near:s=0", px, py, ref.B32(e), ref.B32(r), ref.B32(zvBi(0)))
		// r + s = n  (t = 0)
		s = zvRandScalar(rng)
		e, r, _ = zvTupleFor(k.P, s, zvBi(0))
		add("near:r+s=n", px, py, ref.B32(e), ref.B32(r), ref.B32(s))
		// r' = r + n
		rr := small()
		if rr.Sign() > 0 {
			s = zvRandScalar(rng)
			tt = ref.ModN(new(big.Int).Add(rr, s))
			e, r, inf := zvTupleFor(k.P, s, tt)
			if !inf && tt.Sign() != 0 {
				add("near:r+n", px, py, ref.B32(e), ref.B32(new(big.Int).Add(r, zvNI)), ref.B32(s))
				add("valid:small-r", px, py, ref.B32(e), ref.B32(r), ref.B32(s))
			}
		}
		// s' = s + n
		s = small()
		if s.Sign() > 0 {
			tt = zvRandScalar(rng)
			e, r, inf := zvTupleFor(k.P, s, tt)
			if !inf && r.Sign() != 0 {
				add("near:s+n", px, py, ref.B32(e), ref.B32(r), ref.B32(new(big.Int).Add(s, zvNI)))
				add("valid:small-s", px, py, ref.B32(e), ref.B32(r), ref.B32(s))
			}
		}
		// r = n, s = n exactly; r = n-1 / s = n-1 (valid range edge)
		s = zvRandScalar(rng)
		e, r, _ = zvTupleFor(k.P, s, s) // r=0 => r' = n
		add("near:r=n", px, py, ref.B32(e), ref.B32(zvNI), ref.B32(s))
		e, r, inf := zvTupleFor(k.P, zvNm1, ref.ModN(new(big.Int).Add(zvNm1, zvBi(5))))
		if !inf {
			add("valid:s=n-1", px, py, ref.B32(e), ref.B32(r), ref.B32(zvNm1))
		}
		// [s]G + [t]P = infinity: s = -t d  (needs d)
		tt = zvRandScalar(rng)
		s = ref.ModN(new(big.Int).Neg(new(big.Int).Mul(tt, k.d)))
		e, r, inf = zvTupleFor(k.P, s, tt)
		if inf && r.Sign() != 0 && s.Sign() != 0 {
			add("near:infinity", px, py, ref.B32(e), ref.B32(r), ref.B32(s))
			// ... and completed with the LIBRARY'S OWN arithmetic: if its double-scalar multiplication does not arrive at
			// infinity for this (s, t, P) - an exceptional case of its addition handled wrongly - the digest is solved for
			// the point it does arrive at, so that nothing but the finite-point rule stands against acceptance
			hk.Try(func() {
				pt, perr := internal.NewSM2Point().SetBytes(append(append([]byte{4}, px...), py...))
				if perr != nil {
					return
				}
				res, merr := internal.ScalarMixedMult_Unsafe(ref.B32(s), pt, ref.B32(tt))
				if merr != nil || res.IsInfinity() == 1 {
					return
				}
				e2 := ref.ModN(new(big.Int).Sub(r, res.GetAffineX_Unsafe()))
				add("near:infinity:digest-solved-for-what-the-library-computes", px, py, ref.B32(e2), ref.B32(r), ref.B32(s))
			})
			// and with e = r + n*? (other representatives of the same residue) when it fits
			if r.Cmp(new(big.Int).Sub(zvB256, zvNI)) < 0 {
				add("near:infinity-e+n", px, py, ref.B32(new(big.Int).Add(e, zvNI)), ref.B32(r), ref.B32(s))
			}
		}
		// e >= n (digest is any 256-bit string): valid tuple with e + n when it fits
		s = zvRandScalar(rng)
		tt = zvRandScalar(rng)
		e, r, inf = zvTupleFor(k.P, s, tt)
		if !inf && r.Sign() != 0 && e.Cmp(new(big.Int).Sub(zvB256, zvNI)) < 0 {
			add("valid:e+n", px, py, ref.B32(new(big.Int).Add(e, zvNI)), ref.B32(r), ref.B32(s))
		}
	}
	// (b2) tuples built from a CHOSEN digest e (any 256-bit string) and a CHOSEN point R = [s]G + [t]P:
	// r = (e + x_R) mod n, s random, t = r + s, P = [t^-1](R - [s]G). This reaches e >= n, e = 2^256-1
	// and x_R close to p (so that e + x_R >= 2n) or tiny, which a signer-side construction cannot.
	{
		var Rs []ref.Pt
		for dx := int64(1); len(Rs) < hk.N(4, 16) && dx < 400; dx++ {
			if R, ok := ref.LiftX(new(big.Int).Sub(ref.SM2P, zvBi(dx))); ok {
				Rs = append(Rs, R, R.Neg())
			}
		}
		// the two finite points with x = 0 (b is a square mod p): x1 = 0 is NOT the point at infinity
		if R, ok := ref.LiftX(zvBi(0)); ok {
			Rs = append(Rs, R, R.Neg())
		} else {
			rep.Inconclusive("c03: model finds no point with x = 0")
		}
		// x1 in [n, p): reduced mod n it wraps to a tiny value; and x1 just below n, around 2^255, 2^128, 2^64
		for _, base := range []*big.Int{zvNI, new(big.Int).Sub(zvNI, zvBi(40)), new(big.Int).Lsh(zvBi(1), 255), new(big.Int).Lsh(zvBi(1), 128), new(big.Int).Lsh(zvBi(1), 64), new(big.Int).Lsh(zvBi(1), 32)} {
			for dx := int64(0); dx < 40; dx++ {
				if R, ok := ref.LiftX(new(big.Int).Add(base, zvBi(dx))); ok {
					Rs = append(Rs, R)
					break
				}
			}
		}
		for x := int64(1); len(Rs) < hk.N(18, 48) && x < 400; x++ {
			if R, ok := ref.LiftX(zvBi(x)); ok {
				Rs = append(Rs, R)
			}
		}
		for i := 0; i < hk.N(4, 40); i++ {
			Rs = append(Rs, ref.BaseMulFast(zvRandScalar(rng)))
		}
		ones := ref.B32(new(big.Int).Sub(zvB256, zvBi(1)))
		es := [][]byte{ones, ref.B32(zvNI), ref.B32(new(big.Int).Add(zvNI, zvBi(1))), ref.B32(new(big.Int).Sub(zvNI, zvBi(1))), make([]byte, 32), append([]byte{0xff, 0xff, 0xff, 0xff}, rng.Bytes(28)...), append([]byte{0xff, 0xff, 0xff, 0xfe, 0xff, 0xff, 0xff, 0xff}, rng.Bytes(24)...), rng.Bytes(32)}
		for _, R := range Rs {
			for ei, e := range es {
				rr := ref.ModN(new(big.Int).Add(ref.Int(e), R.X))
				s := zvRandScalar(rng)
				tt := ref.ModN(new(big.Int).Add(rr, s))
				if rr.Sign() == 0 || tt.Sign() == 0 {
					continue
				}
				P := R.Add(ref.BaseMulFast(s).Neg()).Mul(ref.InvN(tt))
				if P.Inf {
					continue
				}
				twoN := new(big.Int).Lsh(zvNI, 1)
				label := "valid:chosen-e-and-R"
				if R.X.Sign() == 0 {
					label = "valid:x1=0"
				} else if R.X.Cmp(zvNI) >= 0 {
					label = "valid:x1>=n"
				}
				if new(big.Int).Add(ref.Int(e), R.X).Cmp(twoN) >= 0 {
					label = "valid:e+x1>=2n"
				} else if ref.Int(e).Cmp(zvNI) >= 0 {
					label = "valid:e>=n"
				}
				add(label, ref.B32(P.X), ref.B32(P.Y), e, ref.B32(rr), ref.B32(s))
				if ei%3 == 0 {
					add("bitflip:e-of-chosen", ref.B32(P.X), ref.B32(P.Y), zvFlip(e, rng.Intn(256)), ref.B32(rr), ref.B32(s))
				}
			}
		}
	}
	// (b3) valid signatures whose verification runs into a PARTIAL-sum collision of the double-scalar schedule:
	// the public key is +-T for an entry T = [t0]G of the comb table, s carries the window that selects T at
	// row i, and t = r + s = 2^i; R = [s]G + [t]P, e = r - x_R. The accumulator meets its own addend (or its
	// inverse) in the middle of the loop.
	for _, row := range []uint{0, 3, 13} {
		for j := uint(0); j < 3; j++ {
			for _, w := range []uint{1, 63} {
				for _, neg := range []bool{false, true} {
					t0 := new(big.Int)
					for b := uint(0); b < 6; b++ {
						if w>>b&1 == 1 {
							t0.SetBit(t0, int(4+j*14+b*42), 1)
						}
					}
					P := ref.BaseMulFast(t0)
					if neg {
						P = P.Neg()
					}
					// the accumulator is built k rows earlier by the key's half: P = [+-t0 * 2^-k]G, t = 2^(row+k)
					k := []uint{1, 2, 40}[(row+j+w)%3]
					a := ref.ModN(new(big.Int).Mul(t0, ref.InvN(new(big.Int).Lsh(zvBi(1), k))))
					P = ref.BaseMulFast(a)
					if neg {
						P = P.Neg()
					}
					sI := ref.ModN(new(big.Int).Lsh(t0, row))
					tt := new(big.Int).Lsh(zvBi(1), row+k)
					rr := ref.ModN(new(big.Int).Sub(tt, sI))
					R := ref.BaseMulFast(sI).Add(P.Mul(tt))
					if R.Inf || rr.Sign() == 0 || sI.Sign() == 0 {
						continue
					}
					e := ref.ModN(new(big.Int).Sub(rr, R.X))
					add("valid:partial-sum-collision", ref.B32(P.X), ref.B32(P.Y), ref.B32(e), ref.B32(rr), ref.B32(sI))
				}
			}
		}
	}
	// (b4) public keys with a coordinate from a rare class - x or y in [n, p) (canonical for the field, not below
	// the group order), tiny coordinates - under which valid signatures must be accepted: s, t chosen,
	// R = [s]G + [t]P, r = t - s, e = r - x_R
	{
		sps, scls, serr := ref.SpecialPoints()
		if serr != nil {
			rep.Inconclusive("special-point fixture: " + serr.Error())
			return
		}
		for i, P := range sps {
			for q := 0; q < 2; q++ {
				sI, tt := zvRandScalar(rng), zvRandScalar(rng)
				rr := ref.ModN(new(big.Int).Sub(tt, sI))
				R := ref.BaseMulFast(sI).Add(P.Mul(tt))
				if R.Inf || rr.Sign() == 0 {
					continue
				}
				e := ref.B32(ref.ModN(new(big.Int).Sub(rr, R.X)))
				add("valid:key-coordinate-class:"+scls[i], ref.B32(P.X), ref.B32(P.Y), e, ref.B32(rr), ref.B32(sI))
				if q == 0 {
					add("bitflip:e-under-special-key", ref.B32(P.X), ref.B32(P.Y), zvFlip(e, rng.Intn(256)), ref.B32(rr), ref.B32(sI))
				}
			}
		}
	}
	// (b5) public keys that are NOT on the curve but nearly satisfy its equation: the two sides differ in one limb
	// or one byte of the plain or of the internal (Montgomery) representation. If the library's own decoder
	// lets one through, the rest of the tuple is completed with the library's own arithmetic on that point
	// (r, s chosen, e = r - x1 of what the library computes), so that the only thing standing between the tuple
	// and acceptance is the curve test the standard requires.
	for _, np := range ref.NearCurvePoints(rng.Bytes, hk.N(1, 4)) {
		px, py := ref.B32(np.X), ref.B32(np.Y)
		sI, rr := zvRandScalar(rng), zvRandScalar(rng)
		tt := ref.ModN(new(big.Int).Add(rr, sI))
		e := ref.B32(zvRandScalar(rng))
		if tt.Sign() != 0 {
			hk.Try(func() {
				pt, err := internal.NewSM2Point().SetBytes(append(append([]byte{4}, px...), py...))
				if err != nil {
					return
				}
				res, err := internal.ScalarMixedMult_Unsafe(ref.B32(sI), pt, ref.B32(tt))
				if err != nil || res.IsInfinity() == 1 {
					return
				}
				e = ref.B32(ref.ModN(new(big.Int).Sub(rr, res.GetAffineX_Unsafe())))
			})
		}
		add("off-curve-key:"+np.Class, px, py, e, ref.B32(rr), ref.B32(sI))
	}
	// (b6) non-canonical keys whose distance from the bound is SPARSE (x + p with x + 1 = k*2^32, 2^j ...; y + p for the
	// tiny-y points): under the point they alias the rest of the tuple satisfies the equation
	if als, aerr := ref.SparseAliases(); aerr != nil {
		rep.Inconclusive("alias construction: " + aerr.Error())
	} else {
		for i, al := range als {
			if !hk.Thorough() && i%3 != int(hk.Seed()%3) && al.Class[:3] == "x+p" && al.Class != "x+p:x-tiny" {
				continue
			}
			sI, tt := zvRandScalar(rng), zvRandScalar(rng)
			e, rr, inf := zvTupleFor(al.P, sI, tt)
			if inf || rr.Sign() == 0 {
				continue
			}
			add("non-canonical-key:"+al.Class, al.X, al.Y, ref.B32(e), ref.B32(rr), ref.B32(sI))
		}
	}
	// (b7) valid tuples whose t = (r + s) mod n has ALIGNED ZERO WORDS or is a single bit (a recoding that steps over
	// zero words, or loses a carry at a word boundary, only shows on such multipliers)
	for i := 0; i < hk.N(48, 400); i++ {
		k := kps[rng.Intn(len(kps))]
		tt := zvRandScalar(rng)
		switch i % 6 {
		case 0:
			tt = new(big.Int).Lsh(zvBi(1), uint((i/6*5+int(hk.Seed()))%255))
		case 1:
			w := uint(i / 6 % 8)
			tt.AndNot(tt, new(big.Int).Lsh(zvBi(0xffffffff), 32*w))
		case 2:
			w := uint(i / 6 % 4)
			tt.AndNot(tt, new(big.Int).Lsh(new(big.Int).SetUint64(^uint64(0)), 64*w))
		case 3:
			tt.Rsh(tt, uint(32*(1+i/6%6)))
			tt.Lsh(tt, uint(32*(1+i/6%6)))
		case 4:
			tt = new(big.Int).Sub(new(big.Int).Lsh(zvBi(1), uint(40+(i/6*7)%200)), zvBi(1)) // a long run of ones
		default:
			tt.SetBytes(append(rng.Bytes(4), make([]byte, 4*(1+i/6%6))...))
		}
		tt = ref.ModN(tt)
		sI := zvRandScalar(rng)
		e, rr, inf := zvTupleFor(k.P, sI, tt)
		if inf || rr.Sign() == 0 || tt.Sign() == 0 {
			continue
		}
		add("valid:t-sparse-or-with-aligned-zero-words", ref.B32(k.P.X), ref.B32(k.P.Y), ref.B32(e), ref.B32(rr), ref.B32(sI))
	}
	// (b8) COMPENSATING lengths: the 64 bytes of a valid key (or of r || s) split at another place than the middle -
	// each argument has the wrong length, their sum is right
	for i := 0; i < hk.N(4, 20); i++ {
		k := kps[3+rng.Intn(len(kps)-3)]
		sI, tt := zvRandScalar(rng), zvRandScalar(rng)
		e, rr, inf := zvTupleFor(k.P, sI, tt)
		if inf || rr.Sign() == 0 {
			continue
		}
		xy := append(ref.B32(k.P.X), ref.B32(k.P.Y)...)
		rs := append(ref.B32(rr), ref.B32(sI)...)
		for _, cut := range []int{0, 1, 16, 31, 33, 48, 63, 64} {
			add("lengths-compensate:key", xy[:cut], xy[cut:], ref.B32(e), ref.B32(rr), ref.B32(sI))
			add("lengths-compensate:r-s", ref.B32(k.P.X), ref.B32(k.P.Y), ref.B32(e), rs[:cut], rs[cut:])
		}
	}
	// non-canonical key x0 + p for on-curve x0 anywhere in [0, 2^256 - p) (top word of the encoding FFFFFFFE or FFFFFFFF)
	{
		span := new(big.Int).Sub(zvB256, ref.SM2P)
		found := 0
		for tries := 0; found < hk.N(10, 60) && tries < 4000; tries++ {
			x0 := new(big.Int).SetBytes(rng.Bytes(29))
			switch tries % 5 {
			case 1:
				x0.Rsh(x0, uint(8*rng.Intn(20)))
			case 2:
				x0 = new(big.Int).Sub(span, new(big.Int).SetBytes(rng.Bytes(3))) // just below 2^256 - p
			case 3:
				x0 = new(big.Int).Add(new(big.Int).Lsh(zvBi(1), 96), new(big.Int).SetBytes(rng.Bytes(6)))
			}
			if x0.Sign() < 0 || x0.Cmp(span) >= 0 {
				continue
			}
			Q, ok := ref.LiftX(x0)
			if !ok {
				continue
			}
			found++
			s, tt := zvRandScalar(rng), zvRandScalar(rng)
			e, r, inf := zvTupleFor(Q, s, tt)
			if inf || r.Sign() == 0 {
				continue
			}
			add("valid:key-x-below-2^256-p", ref.B32(Q.X), ref.B32(Q.Y), ref.B32(e), ref.B32(r), ref.B32(s))
			add("near:key-x+p", ref.B32(new(big.Int).Add(Q.X, ref.SM2P)), ref.B32(Q.Y), ref.B32(e), ref.B32(r), ref.B32(s))
		}
		// (a point with y < 2^256 - p would need a cubic solved for x; not constructible cheaply: y + p is
		// covered for the small-x points above when their y happens to be small, i.e. practically never)
	}
	// the D7 witness shape: P = G, r = -2s, e = r
	{
		s := zvRandScalar(rng)
		r := ref.ModN(new(big.Int).Mul(s, zvBi(-2)))
		add("near:infinity-P=G", ref.B32(ref.SM2Gx), ref.B32(ref.SM2Gy), ref.B32(r), ref.B32(r), ref.B32(s))
	}
	// non-canonical key: on-curve point with x < 2^256 - p, presented as x + p
	lim := new(big.Int).Sub(zvB256, ref.SM2P)
	found := 0
	for x := int64(0); x < 200 && found < hk.N(3, 12); x++ {
		P, ok := ref.LiftX(zvBi(x))
		if !ok {
			continue
		}
		found++
		for _, Q := range []ref.Pt{P, P.Neg()} {
			s, tt := zvRandScalar(rng), zvRandScalar(rng)
			e, r, inf := zvTupleFor(Q, s, tt)
			if inf || r.Sign() == 0 {
				continue
			}
			add("valid:small-x-key", ref.B32(Q.X), ref.B32(Q.Y), ref.B32(e), ref.B32(r), ref.B32(s))
			add("near:key-x+p", ref.B32(new(big.Int).Add(Q.X, ref.SM2P)), ref.B32(Q.Y), ref.B32(e), ref.B32(r), ref.B32(s))
			if Q.Y.Cmp(lim) < 0 {
				add("near:key-y+p", ref.B32(Q.X), ref.B32(new(big.Int).Add(Q.Y, ref.SM2P)), ref.B32(e), ref.B32(r), ref.B32(s))
			}
		}
	}
	// small y: search y with y^2 - b a cube? skip; instead y + p cannot fit unless y < 2^224 (not constructible cheaply)

	// off-curve / degenerate keys with an otherwise well-formed signature
	for i := 0; i < hk.N(20, 300); i++ {
		k := kps[rng.Intn(len(kps))]
		s, tt := zvRandScalar(rng), zvRandScalar(rng)
		e, r, inf := zvTupleFor(k.P, s, tt)
		if inf || r.Sign() == 0 {
			continue
		}
		px, py := ref.B32(k.P.X), ref.B32(k.P.Y)
		z := make([]byte, 32)
		add("key:(0,0)", z, z, ref.B32(e), ref.B32(r), ref.B32(s))
		add("key:random", rng.Bytes(32), rng.Bytes(32), ref.B32(e), ref.B32(r), ref.B32(s))
		add("key:swapped", py, px, ref.B32(e), ref.B32(r), ref.B32(s))
		add("key:negated", px, ref.B32(k.P.Neg().Y), ref.B32(e), ref.B32(r), ref.B32(s))
		add("key:(x,0)", px, z, ref.B32(e), ref.B32(r), ref.B32(s))
		add("key:p", ref.B32(ref.SM2P), py, ref.B32(e), ref.B32(r), ref.B32(s))
		add("key:ff", ref.B32(new(big.Int).Sub(zvB256, zvBi(1))), ref.B32(new(big.Int).Sub(zvB256, zvBi(1))), ref.B32(e), ref.B32(r), ref.B32(s))
		// (d) every argument with a wrong length
		if i < hk.N(2, 8) {
			args := [][]byte{px, py, ref.B32(e), ref.B32(r), ref.B32(s)}
			for a := 0; a < 5; a++ {
				for l := 0; l <= 40; l++ {
					if l == 32 {
						continue
					}
					m := make([][]byte, 5)
					copy(m, args)
					if l < 32 {
						m[a] = args[a][32-l:]
					} else {
						m[a] = append(make([]byte, l-32), args[a]...)
					}
					add(fmt.Sprintf("length:arg%d", a), m[0], m[1], m[2], m[3], m[4])
				}
				m := make([][]byte, 5)
				copy(m, args)
				m[a] = nil
				add(fmt.Sprintf("length:arg%d-nil", a), m[0], m[1], m[2], m[3], m[4])
			}
		}
		// (e) garbage
		add("garbage", rng.Bytes(32), rng.Bytes(32), rng.Bytes(32), rng.Bytes(32), rng.Bytes(32))
		add("garbage-valid-key", px, py, rng.Bytes(32), rng.Bytes(32), rng.Bytes(32))
	}
	// CHOSEN (r, R) PAIRS for the final comparison. The digest is the attacker's to choose: for any r, s and any target
	// value R* the digest e = R* - x1 (mod n) makes the verifier compute exactly R = R*. So the last step "R == r" can be
	// given any pair: R* equal to r only in its low limbs (R* has fewer limbs than r), only in its high limbs, different
	// in one bit, r with fewer limbs than R* ... The model decides (it accepts only R* = r).
	{
		clear := func(v *big.Int, fromByte, toByte int) *big.Int { // zero big endian bytes [from, to)
			b := ref.B32(v)
			for i := fromByte; i < toByte; i++ {
				b[i] = 0
			}
			return ref.Int(b)
		}
		for i := 0; i < hk.N(6, 40); i++ {
			K := kps[i%len(kps)]
			px, py := ref.B32(K.P.X), ref.B32(K.P.Y)
			rv, sv := zvRandScalar(rng), zvRandScalar(rng)
			tv := ref.ModN(new(big.Int).Add(rv, sv))
			if tv.Sign() == 0 {
				continue
			}
			X := ref.BaseMulFast(sv).Add(K.P.Mul(tv))
			if X.Inf {
				continue
			}
			type tgt struct {
				name string
				v    *big.Int
			}
			tgts := []tgt{{"equal", rv}, {"zero", zvBi(0)}}
			for _, k := range []int{1, 4, 7, 8, 9, 16, 17, 24, 31} {
				tgts = append(tgts, tgt{fmt.Sprintf("R=r-with-top-%d-bytes-cleared", k), clear(rv, 0, k)})
				tgts = append(tgts, tgt{fmt.Sprintf("R=r-with-low-%d-bytes-cleared", k), clear(rv, 32-k, 32)})
			}
			for _, bit := range []int{0, 31, 32, 63, 64, 127, 128, 191, 192, 254} {
				tgts = append(tgts, tgt{fmt.Sprintf("R=r-with-bit-%d-flipped", bit), new(big.Int).Xor(rv, new(big.Int).Lsh(zvBi(1), uint(bit)))})
			}
			tgts = append(tgts, tgt{"R=r-limbs-reversed", ref.Int(append(append(append(append([]byte{}, ref.B32(rv)[24:]...), ref.B32(rv)[16:24]...), ref.B32(rv)[8:16]...), ref.B32(rv)[:8]...))})
			for _, tg := range tgts {
				if tg.v.Cmp(zvNI) >= 0 {
					continue
				}
				e := ref.ModN(new(big.Int).Sub(tg.v, X.X))
				add("chosen-R:"+tg.name, px, py, ref.B32(e), ref.B32(rv), ref.B32(sv))
			}
			// the other way round: r has fewer limbs than R*
			for _, k := range []int{8, 16, 24} {
				rs := clear(rv, 0, k)
				if rs.Sign() == 0 {
					continue
				}
				ts := ref.ModN(new(big.Int).Add(rs, sv))
				if ts.Sign() == 0 {
					continue
				}
				Xs := ref.BaseMulFast(sv).Add(K.P.Mul(ts))
				if Xs.Inf {
					continue
				}
				for _, tg := range []tgt{{"equal", rs}, {"R=short-r-plus-high-limbs", rv}} {
					e := ref.ModN(new(big.Int).Sub(tg.v, Xs.X))
					add(fmt.Sprintf("chosen-R:r-has-%d-leading-zero-bytes:%s", k, tg.name), px, py, ref.B32(e), ref.B32(rs), ref.B32(sv))
				}
			}
		}
	}
	// r and s from the LIMB GRID around n (each limb 0, n_i - 1, n_i, n_i + 1 or all ones). Values at or above n are made
	// as dangerous as they can be: the tuple is VALID for the value reduced mod n, so a range test that lets one of
	// them through (a limb-wise comparison that forgets a condition) accepts. Values below n are valid tuples and must pass.
	{
		grid := ref.LimbGrid(zvNI)
		for gi, g := range grid {
			if !hk.Thorough() && gi%2 != int(hk.Seed()%2) {
				continue
			}
			K := kps[gi%len(kps)]
			px, py := ref.B32(K.P.X), ref.B32(K.P.Y)
			red := ref.ModN(g)
			if red.Sign() == 0 {
				continue
			}
			where := "below-n"
			if g.Cmp(zvNI) >= 0 {
				where = "at-or-above-n"
			}
			// as s
			{
				tv := zvRandScalar(rng)
				e, rr, inf := zvTupleFor(K.P, red, tv)
				if !inf && rr.Sign() != 0 {
					add("limb-grid-around-n:s:"+where, px, py, ref.B32(e), ref.B32(rr), ref.B32(g))
				}
			}
			// as r: r = t - s, so s = t - r
			{
				tv := zvRandScalar(rng)
				sv := ref.ModN(new(big.Int).Sub(tv, red))
				if sv.Sign() != 0 {
					e, rr, inf := zvTupleFor(K.P, sv, tv)
					if !inf && rr.Cmp(red) == 0 {
						add("limb-grid-around-n:r:"+where, px, py, ref.B32(e), ref.B32(g), ref.B32(sv))
					}
				}
			}
		}
	}
	rep.Sample(hk.D{"label": cases[0].label, "px": hk.Hex(cases[0].px), "py": hk.Hex(cases[0].py), "e": hk.Hex(cases[0].e), "r": hk.Hex(cases[0].r), "s": hk.Hex(cases[0].s)})
	hk.Parallel(len(cases), func(i int) {
		if hk.InShard(i) {
			c03run(rep, cases[i])
		}
	})

	// the caller's BUFFERS are reused: one set of five 32-byte arrays is overwritten in place with case after case
	// (valid under A, then valid under B, then A's signature under B's key ...). Whatever the library remembered of
	// an earlier call by reference now describes other bytes.
	{
		var bx, by, be, br, bs [32]byte
		order := rng.Perm(len(cases))
		nrun := 0
		lastValid := -1
		for _, ci := range order {
			c := cases[ci]
			if len(c.px) != 32 || len(c.py) != 32 || len(c.e) != 32 || len(c.r) != 32 || len(c.s) != 32 {
				continue
			}
			if nrun >= hk.N(1500, 12000) {
				break
			}
			run := func(c *c03case, label string) {
				copy(bx[:], c.px)
				copy(by[:], c.py)
				copy(be[:], c.e)
				copy(br[:], c.r)
				copy(bs[:], c.s)
				c03run(rep, &c03case{px: bx[:], py: by[:], e: be[:], r: br[:], s: bs[:], label: "reused-buffers:" + label})
				nrun++
			}
			want := ref.SM2Verify(c.px, c.py, c.e, c.r, c.s)
			run(c, fmt.Sprintf("model=%v", want))
			if want {
				if lastValid >= 0 && nrun%3 == 0 {
					// the previous valid signature presented under THIS key, then this one again
					pv := cases[lastValid]
					run(&c03case{px: c.px, py: c.py, e: pv.e, r: pv.r, s: pv.s}, "earlier-signature-under-this-key")
					run(c, "valid-again")
				}
				lastValid = ci
			}
		}
	}

	// the five arguments are FIELDS OF ONE RECORD (a parsed message: key, digest and signature side by side in one
	// buffer, in every rotation of the field order), each slice with its natural capacity reaching to the end of the
	// record: an argument's spare capacity holds the next argument. The verdict must be the model's and the record
	// must come back unchanged.
	{
		nrec := 0
		for ci, c := range cases {
			if nrec >= hk.N(400, 4000) {
				break
			}
			if ci%3 != int(hk.Seed()%3) || len(c.px) != 32 || len(c.py) != 32 || len(c.e) != 32 || len(c.r) != 32 || len(c.s) != 32 {
				continue
			}
			fields := [][]byte{c.px, c.e, c.py, c.r, c.s}
			rot := nrec % 5
			rec := make([]byte, 0, 5*32+16)
			var off [5]int
			for i := 0; i < 5; i++ {
				k := (i + rot) % 5
				off[k] = len(rec)
				rec = append(rec, fields[k]...)
			}
			rec = append(rec, zvRandTail(nrec)...)
			snap := append([]byte{}, rec...)
			view := func(k int) []byte { return rec[off[k] : off[k]+32] } // capacity up to the end of the record
			want := ref.SM2Verify(c.px, c.py, c.e, c.r, c.s)
			var ok bool
			p, msg, _, _ := hk.Try(func() { ok, _ = VerifyHashed(view(0), view(2), view(1), view(3), view(4)) })
			if p || ok != want || !bytes.Equal(rec, snap) {
				rep.Violation("verify-wrong-or-record-changed:arguments-are-fields-of-one-record", hk.D{"field_order_rotation": rot, "label": c.label, "got": ok, "model": want, "panic": msg, "record_changed": !bytes.Equal(rec, snap), "px": hk.Hex(c.px), "py": hk.Hex(c.py), "e": hk.Hex(c.e), "r": hk.Hex(c.r), "s": hk.Hex(c.s)})
			}
			nrec++
		}
		rep.EvalN("arguments-are-fields-of-one-record", nrec)
	}

	// the same verifications from fresh goroutines at EVERY STACK DEPTH of a sweep (the stack moves at another point inside
	// the call each time): valid stays valid, invalid stays invalid
	{
		var sel []*c03case
		for _, c := range cases {
			if len(sel) < 24 && len(c.px) == 32 && len(c.s) == 32 && (len(sel)%2 == 0) == ref.SM2Verify(c.px, c.py, c.e, c.r, c.s) {
				sel = append(sel, c)
			}
		}
		if len(sel) > 0 {
			// the model's answers are computed BEFORE the sweep: the model is stack-hungry itself, and a stack that has
			// already grown does not move inside the call under observation
			wants := make([]bool, len(sel))
			for i, c := range sel {
				wants[i] = ref.SM2Verify(c.px, c.py, c.e, c.r, c.s)
			}
			hk.AtStackDepths(hk.N(900, 2500), 96<<10, 8, func(depth int) {
				c := sel[depth%len(sel)]
				want := wants[depth%len(sel)]
				var ok bool
				p, msg, _, _ := hk.Try(func() { ok, _ = VerifyHashed(c.px, c.py, c.e, c.r, c.s) })
				if p || ok != want {
					rep.Violation("verify-wrong-when-the-stack-grows-inside-the-call", hk.D{"stack_depth_frames": depth, "label": c.label, "got": ok, "model": want, "panic": msg, "px": hk.Hex(c.px), "py": hk.Hex(c.py), "e": hk.Hex(c.e), "r": hk.Hex(c.r), "s": hk.Hex(c.s)})
				}
			})
			rep.EvalN("stack-depth-sweep", hk.N(900, 2500))
		}
	}

	// sequential HISTORIES: one goroutine verifies a long sequence of signatures under a handful of
	// related keys (P, -P, [2]P, Q, -Q: same x with the other y, small multiples), valid and invalid,
	// in an order that revisits keys; every answer is compared with the model (state kept from one
	// call must not influence the next)
	for h := 0; h < hk.N(6, 40); h++ {
		lr := hk.NewRNG(hk.Seed(), zvCaseID("c03hist", h))
		base := kps[3+lr.Intn(len(kps)-3)]
		other := kps[3+lr.Intn(len(kps)-3)]
		keys := []ref.Pt{base.P, base.P.Neg(), base.P.Dbl(), other.P, other.P.Neg(), ref.G(), ref.G().Neg()}
		type sig struct{ e, r, s []byte }
		sigs := make([][]sig, len(keys))
		for ki, K := range keys {
			for j := 0; j < 3; j++ {
				sv, tv := zvRandScalar(lr), zvRandScalar(lr)
				if j == 2 {
					tv = zvBi(int64(1 + lr.Intn(8000))) // tiny t: (r+s) mod n small
				}
				e, rr, inf := zvTupleFor(K, sv, tv)
				if inf || rr.Sign() == 0 {
					continue
				}
				sigs[ki] = append(sigs[ki], sig{ref.B32(e), ref.B32(rr), ref.B32(sv)})
			}
		}
		var hist []string
		prev := -1
		for step := 0; step < hk.N(120, 400); step++ {
			ki := lr.Intn(len(keys))
			if prev >= 0 && lr.Intn(3) == 0 {
				ki = prev ^ 1 // the key with the same x and the other y (pairs are adjacent in the list)
				if ki >= len(keys) {
					ki = prev
				}
			}
			si := lr.Intn(len(keys)) // signature made for key si, presented under key ki
			if lr.Intn(2) == 0 {
				si = ki
			}
			if len(sigs[si]) == 0 {
				continue
			}
			sg := sigs[si][lr.Intn(len(sigs[si]))]
			px, py := ref.B32(keys[ki].X), ref.B32(keys[ki].Y)
			want := ref.SM2Verify(px, py, sg.e, sg.r, sg.s)
			var ok bool
			p, msg, _, _ := hk.Try(func() { ok, _ = VerifyHashed(px, py, sg.e, sg.r, sg.s) })
			hist = append(hist, fmt.Sprintf("key%d/sig%d=%v", ki, si, ok))
			if len(hist) > 12 {
				hist = hist[len(hist)-12:]
			}
			if p {
				rep.Violation("history:verify-panics", hk.D{"panic": msg, "recent": hist})
			} else if ok != want {
				cls := "history:invalid-signature-accepted-after-other-calls"
				if want {
					cls = "history:valid-signature-rejected-after-other-calls"
				}
				rep.Violation(cls, hk.D{"recent": hist, "px": hk.Hex(px), "py": hk.Hex(py), "e": hk.Hex(sg.e), "r": hk.Hex(sg.r), "s": hk.Hex(sg.s), "want": want})
			}
			prev = ki
		}
		rep.Eval("history:sequential-verifications")
	}
	// canaries: after all the hostile verifications above the rest of the API must still be exact
	for i := 0; i < hk.N(80, 400); i++ {
		d := zvRandScalar(rng)
		if i < 64 {
			d = new(big.Int).Lsh(zvBi(int64(1+i%63)), uint(4+6*(i%40))) // single comb digits at varied positions
			d = ref.ModN(d)
			if d.Sign() == 0 {
				continue
			}
		}
		x, y, err := DerivePublic(ref.B32(d))
		P := ref.BaseMulFast(d)
		if err != nil || hk.Hex(x) != hk.Hex(ref.B32(P.X)) || hk.Hex(y) != hk.Hex(ref.B32(P.Y)) {
			rep.Violation("canary:DerivePublic-wrong-after-verification-workload", hk.D{"d": hk.Hex(ref.B32(d)), "x": zvHexOrNil(x), "y": zvHexOrNil(y)})
		}
		rep.Eval("canary:derive-after-workload")
	}

	// wrappers on derived inputs: Verify / VerifyZa must give the model's answer for e = SM3(ZA||M)
	for i := 0; i < hk.N(40, 600); i++ {
		k := kps[rng.Intn(len(kps))]
		if !ref.ValidPriv(k.d) {
			continue
		}
		px, py := ref.B32(k.P.X), ref.B32(k.P.Y)
		id := rng.Bytes(rng.Intn(40))
		msg := rng.Bytes(rng.Intn(150))
		za, _ := ref.SM2ZA(id, px, py)
		e := ref.SM2E(za, msg)
		// a valid signature for this e: choose nonce, sign with the model
		sr := ref.SM2Sign(k.d, e, rng.Bytes(32*6))
		if sr.R == nil {
			continue
		}
		rb, sb := ref.B32(sr.R), ref.B32(sr.S)
		variants := []struct {
			label   string
			id, msg []byte
			r, s    []byte
		}{
			{"wrap:valid", id, msg, rb, sb},
			{"wrap:other-msg", id, append(append([]byte{}, msg...), 0), rb, sb},
			{"wrap:other-id", append(append([]byte{}, id...), 1), msg, rb, sb},
			{"wrap:flipped-r", id, msg, zvFlip(rb, rng.Intn(256)), sb},
		}
		for _, v := range variants {
			za2, _ := ref.SM2ZA(v.id, px, py)
			want := ref.SM2Verify(px, py, ref.SM2E(za2, v.msg), v.r, v.s)
			var ok1, ok2 bool
			var e1, e2 error
			p, msgp, _, _ := hk.Try(func() {
				ok1, e1 = Verify(v.id, px, py, v.msg, v.r, v.s)
				ok2, e2 = VerifyZa(px, py, za2, v.msg, v.r, v.s)
			})
			d := hk.D{"id": hk.Hex(v.id), "msg": hk.Hex(v.msg), "px": hk.Hex(px), "py": hk.Hex(py), "r": hk.Hex(v.r), "s": hk.Hex(v.s), "want": want, "verify": ok1, "verifyza": ok2, "e1": zvErrStr(e1), "e2": zvErrStr(e2)}
			if p {
				d["panic"] = msgp
				rep.Violation("wrapper-panics:"+v.label, d)
			} else if ok1 != want || ok2 != want {
				rep.Violation("wrapper-disagrees-with-model:"+v.label, d)
			}
			rep.Eval(v.label)
		}
	}
	rep.Note("cases", len(cases))
}

func zvFlip(b []byte, bit int) []byte {
	o := append([]byte{}, b...)
	o[bit/8] ^= 1 << uint(bit%8)
	return o
}

// zvRandTail: a few bytes behind the last field of a record
func zvRandTail(i int) []byte {
	t := make([]byte, 1+i%16)
	for j := range t {
		t[j] = byte(0x9e ^ i ^ j)
	}
	return t
}
