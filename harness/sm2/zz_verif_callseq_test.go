//go:build verif

package sm2

import (
	"bytes"
	"encoding/json"
	"fmt"
	"math/big"
	"os"
	"runtime"
	"runtime/debug"
	"testing"

	"github.com/bilibili/smgo/zzverif/hk"
	"github.com/bilibili/smgo/zzverif/ref"
)

// C08 — CALL-SEQUENCE monitor (tools/engine_callseq.py).
//
// The taint sanitizer follows DATA flow. What it cannot follow is a decision taken on the RESULT of a permitted
// verdict: utils.ConstantTimeCmp returns one of three constants chosen by its (permitted) verdict branches, so
// "if ConstantTimeCmp(lastKey, key) != 0 { invert } else { reuse }" carries no tainted data into the second
// branch. This monitor observes such decisions from the outside: under the tracer, with log-only breakpoints
// on every function of packages sm2, sm2/internal, sm2/internal/fiat and utils, an entry point runs with the
// public arguments fixed and the SECRET varied (random A, random B, leading zero bytes, 0xFF bytes, A again
// right after A, A again after B); within one verdict class the sequence of functions entered must be the same
// for every value and for every history - "the sequence of executed basic blocks ... [is] the same for every
// value of the secret", observed at function granularity.

var csSink uint64

//go:noinline
func csMark(id uint64) { csSink += id }

type csPlan struct {
	ID      uint64 `json:"id"`
	Group   string `json:"group"`
	Variant string `json:"variant"`
	Class   string `json:"class"`
	End     bool   `json:"end,omitempty"`
}

func TestVtraceCallSeq(t *testing.T) {
	planPath := os.Getenv("VERIF_VT_PLAN")
	if planPath == "" {
		t.Skip("only runs under tools/vtrace")
	}
	f, err := os.Create(planPath)
	if err != nil {
		t.Fatal(err)
	}
	defer f.Close()
	runtime.LockOSThread()
	debug.SetGCPercent(-1)
	rng := hk.NewRNG(hk.Seed(), "callseq")
	var id uint64
	// run executes fn between two markers; the class is known only afterwards (it is the observed verdict), so
	// the plan line is written after the call
	run := func(group, variant string, fn func() string) {
		id++
		my := id
		csMark(my)
		cls := "panic"
		func() {
			defer func() { recover() }()
			cls = fn()
		}()
		csMark(0)
		data, _ := json.Marshal(&csPlan{ID: my, Group: group, Variant: variant, Class: cls})
		f.Write(append(data, '\n'))
	}
	keyVariants := func() ([][]byte, []string) {
		a, b := ref.B32(zvRandScalar(rng)), ref.B32(zvRandScalar(rng))
		lz := ref.B32(new(big.Int).SetBytes(rng.Bytes(20)))
		one := ref.B32(zvBi(1))
		hi := ref.B32(new(big.Int).Sub(ref.SM2N, zvBi(2)))
		w := ref.B32(zvRandScalar(rng))
		for i := 8; i < 24; i++ {
			w[i] = 0
		}
		return [][]byte{a, b, lz, one, hi, w, a, a, b, a}, []string{"random-A", "random-B", "12-leading-zero-bytes", "one", "n-2", "zero-words-inside", "A-again", "A-a-third-time", "B-again", "A-after-B"}
	}
	errCls := func(err error) string {
		if err != nil {
			return "error"
		}
		return "ok"
	}

	rounds := hk.N(1, 3)
	for round := 0; round < rounds; round++ {
		// ---- SignHashed: public digest and nonce stream fixed, the private key varies
		{
			e := rng.Bytes(32)
			stream := append(ref.B32(zvRandScalar(rng)), rng.Bytes(64)...)
			keys, names := keyVariants()
			SignHashed(bytes.NewReader(stream), keys[1], e) // warm-up (stack, allocator, lazily built state)
			for v, k := range keys {
				k := k
				run(fmt.Sprintf("SignHashed/secret=key#%d", round), names[v], func() string {
					_, _, err := SignHashed(bytes.NewReader(stream), k, e)
					return errCls(err)
				})
			}
			// invalid keys among themselves
			for v, k := range [][]byte{make([]byte, 32), ref.B32(new(big.Int).Sub(ref.SM2N, zvBi(1))), ref.B32(ref.SM2N), bytes.Repeat([]byte{0xff}, 32)} {
				k := k
				run(fmt.Sprintf("SignHashed/secret=invalid-key#%d", round), []string{"zero", "n-1", "n", "all-ff"}[v], func() string {
					_, _, err := SignHashed(bytes.NewReader(stream), k, e)
					return errCls(err)
				})
			}
		}
		// ---- SignHashed: key and digest fixed, the nonce varies (first candidate acceptable)
		{
			e := rng.Bytes(32)
			d := ref.B32(zvRandScalar(rng))
			ks, names := keyVariants()
			SignHashed(bytes.NewReader(append(append([]byte{}, ks[1]...), rng.Bytes(64)...)), d, e)
			for v, k := range ks {
				stream := append(append([]byte{}, k...), rng.Bytes(64)...)
				run(fmt.Sprintf("SignHashed/secret=nonce#%d", round), names[v], func() string {
					_, _, err := SignHashed(bytes.NewReader(stream), d, e)
					return errCls(err)
				})
			}
			// one early rejection, then an acceptable candidate
			// (which rule rejects is a verdict of its own: candidates at or above n among themselves)
			over := new(big.Int).Add(ref.SM2N, new(big.Int).SetBytes(rng.Bytes(12)))
			for v, first := range [][]byte{ref.B32(ref.SM2N), bytes.Repeat([]byte{0xff}, 32), ref.B32(over), ref.B32(new(big.Int).Add(ref.SM2N, zvBi(1)))} {
				stream := append(append(append([]byte{}, first...), ks[v]...), rng.Bytes(64)...)
				run(fmt.Sprintf("SignHashed/secret=nonce,first-candidate-at-or-above-n#%d", round), []string{"n-first", "ff-first", "random-above-n-first", "n+1-first"}[v], func() string {
					_, _, err := SignHashed(bytes.NewReader(stream), d, e)
					return errCls(err)
				})
			}
		}
		// ---- GenerateKey: the stream is the secret
		{
			ks, names := keyVariants()
			GenerateKey(bytes.NewReader(append(append([]byte{}, ks[1]...), rng.Bytes(64)...)))
			for v, k := range ks {
				stream := append(append([]byte{}, k...), rng.Bytes(64)...)
				run(fmt.Sprintf("GenerateKey/secret=stream#%d", round), names[v], func() string {
					_, _, _, err := GenerateKey(bytes.NewReader(stream))
					return errCls(err)
				})
			}
		}
		// ---- DerivePublic, TestPrivateKey
		{
			ks, names := keyVariants()
			DerivePublic(ks[1])
			for v, k := range ks {
				k := k
				run(fmt.Sprintf("DerivePublic/secret=key#%d", round), names[v], func() string {
					_, _, err := DerivePublic(k)
					return errCls(err)
				})
			}
			for v, k := range ks {
				k := k
				run(fmt.Sprintf("TestPrivateKey/secret=key#%d", round), names[v], func() string { return fmt.Sprint(TestPrivateKey(k)) })
			}
			for _, l := range []int{1, 8, 31} {
				for v := 0; v < 4; v++ {
					k := rng.Bytes(l)
					switch v {
					case 1:
						for j := 0; j < (l+1)/2; j++ {
							k[j] = 0
						}
					case 2:
						for j := range k {
							k[j] = 0xff
						}
					case 3:
						k[l-1] = 1
						for j := 0; j < l-1; j++ {
							k[j] = 0
						}
					}
					run(fmt.Sprintf("TestPrivateKey/secret=key,len=%d#%d", l, round), []string{"random", "leading-zeros", "ff", "one"}[v], func() string { return fmt.Sprint(TestPrivateKey(k)) })
				}
			}
		}
	}
	id++
	data, _ := json.Marshal(&csPlan{ID: id, Group: "end", End: true})
	f.Write(append(data, '\n'))
	csMark(id)
}
