//go:build verif

package sm2

import (
	"bytes"
	"fmt"
	"io"
	"math/big"
	"strings"
	"testing"

	"github.com/bilibili/smgo/zzverif/hk"
	"github.com/bilibili/smgo/zzverif/ref"
)

// C02 — differential monitor against the GM/T 0003.2 signer model, with an
// event-recording randomness source as the second oracle input.

type c02case struct {
	d           *big.Int
	priv        []byte
	e           []byte
	stream      []byte
	chunk       int
	zero        int
	plan        string // what the stream was constructed to hit
	label       string
	eofWithLast bool // the stream ends behind the accepted candidate and the source reports io.EOF together with its last bytes
}

func c02run(r *hk.Reporter, c *c02case) {
	model := ref.SM2Sign(c.d, c.e, c.stream)
	if model.Short {
		r.Inconclusive("c02: constructed stream too short for plan " + c.plan)
		return
	}
	got := strings.Join(model.Rejected, ",")
	if len(model.Rejected) > 16 {
		got = fmt.Sprintf("%dx%s", len(model.Rejected), model.Rejected[0])
	}
	if c.plan != "random" && c.plan != got {
		r.Inconclusive(fmt.Sprintf("c02: stream constructed for [%s] but the model rejects [%s]", c.plan, got))
		return
	}
	rd := zvNewScript(c.stream)
	if c.eofWithLast {
		rd = zvNewScript(c.stream[:model.Consumed])
		rd.errWithFull = true
	}
	rd.chunk = c.chunk
	rd.zeroEvery = c.zero
	var rr, ss []byte
	var err error
	p, msg, _, _ := hk.Try(func() { rr, ss, err = SignHashed(rd, c.priv, c.e) })
	shown := c.stream[:model.Consumed]
	if len(shown) > 4096 {
		shown = shown[len(shown)-4096:] // the last candidates of a very long stream
	}
	detail := hk.D{"priv": hk.Hex(c.priv), "e": hk.Hex(c.e), "stream": hk.Hex(shown), "stream_bytes_consumed_by_model": model.Consumed, "chunk": c.chunk,
		"model_rejects": model.Rejected, "model_r": hk.Hex(ref.B32(model.R)), "model_s": hk.Hex(ref.B32(model.S)),
		"got_r": zvHexOrNil(rr), "got_s": zvHexOrNil(ss), "err": zvErrStr(err), "consumed": rd.off, "model_consumed": model.Consumed}
	cls := "rejects=[" + got + "]"
	if c.label != "" {
		cls = c.label + ":" + cls
		x1e := new(big.Int).Add(ref.Int(c.e), ref.BaseMulFast(ref.Int(c.stream[model.Consumed-32:model.Consumed])).X)
		r.Count(fmt.Sprintf("e_plus_x1_div_n_%d", new(big.Int).Div(x1e, zvNI).Int64()), 1)
	}
	switch {
	case p:
		detail["panic"] = msg
		r.Violation("sign-panics:"+cls, detail)
	case err != nil:
		r.Violation("sign-error-on-valid-input:"+cls, detail)
	case len(rr) != 32 || len(ss) != 32:
		r.Violation("signature-not-32-bytes:"+cls, detail)
	case !bytes.Equal(rr, ref.B32(model.R)) || !bytes.Equal(ss, ref.B32(model.S)):
		r.Violation("signature-differs-from-standard:"+cls, detail)
	case rd.off != model.Consumed:
		r.Violation("randomness-consumption-differs:"+cls, detail)
	case rd.crossesUnit():
		detail["reads"] = rd.events
		r.Violation("draw-not-in-32-byte-units:"+cls, detail)
	}
	r.Eval(fmt.Sprintf("%s,chunk=%d,lz(r)=%d,lz(s)=%d", cls, c.chunk, zvLzClass(model.R), zvLzClass(model.S)))
}

// rangeRejects are candidates k outside [1,n-1].
func zvRangeRejects(rng *hk.RNG) [][]byte {
	over := new(big.Int).Add(zvNI, new(big.Int).SetBytes(rng.Bytes(8)))
	return [][]byte{make([]byte, 32), ref.B32(zvNI), ref.B32(new(big.Int).Add(zvNI, zvBi(1))), ref.B32(new(big.Int).Sub(zvB256, zvBi(1))), ref.B32(over)}
}

func TestVerifC02(t *testing.T) {
	r := hk.NewReporter("C02", "sm2-sign-model")
	defer r.Close()
	if err := ref.SelfTestSM2(); err != nil {
		r.Inconclusive("oracle self-test: " + err.Error())
		return
	}
	rng := hk.NewRNG(hk.Seed(), "c02")
	zvHostilePrelude(hk.NewRNG(hk.Seed(), "prelude"))
	keys := zvSpecialKeys()
	for i := 0; i < hk.N(6, 30); i++ {
		keys = append(keys, zvRandScalar(rng))
	}
	// keys whose d+1 (the value the signer inverts) has a carry-critical internal representation
	for _, v := range zvMontgomeryPatternScalars(rng, 40)[:10] {
		if d := new(big.Int).Sub(v, zvBi(1)); ref.ValidPriv(d) {
			keys = append(keys, d)
		}
	}
	var cases []*c02case
	chunks := []int{0, 0, 1, 7, 31, 32, 33}

	// (a) random triples
	for i := 0; i < hk.N(1500, 40000); i++ {
		d := keys[rng.Intn(len(keys))]
		cases = append(cases, &c02case{d: d, priv: ref.B32(d), e: rng.Bytes(32), stream: rng.Bytes(32 * 8), chunk: chunks[rng.Intn(len(chunks))], plan: "random"})
	}
	// sources that report io.EOF TOGETHER with the last bytes of the accepted candidate (io.Reader: "it may return the
	// (non-nil) error from the same call"): all 32 bytes were delivered, the signature is the standard's
	for i := 0; i < hk.N(40, 400); i++ {
		d := keys[rng.Intn(len(keys))]
		stream := rng.Bytes(32 * 4)
		if i%3 == 1 {
			stream = append(ref.B32(zvNI), stream...)
		}
		cases = append(cases, &c02case{d: d, priv: ref.B32(d), e: rng.Bytes(32), stream: stream, chunk: chunks[i%len(chunks)], plan: "random", label: "eof-with-last-bytes", eofWithLast: true})
	}
	// digests that are not reduced: e = n, n+1, 2^256-1, FFFFFFFF||random, 0, 1
	for i := 0; i < hk.N(60, 600); i++ {
		d := keys[rng.Intn(len(keys))]
		var e []byte
		switch i % 6 {
		case 0:
			e = ref.B32(zvNI)
		case 1:
			e = ref.B32(new(big.Int).Add(zvNI, zvBi(1)))
		case 2:
			e = ref.B32(new(big.Int).Sub(zvB256, zvBi(1)))
		case 3:
			e = append([]byte{0xff, 0xff, 0xff, 0xff}, rng.Bytes(28)...)
		case 4:
			e = make([]byte, 32)
		default:
			e = ref.B32(zvBi(1))
		}
		cases = append(cases, &c02case{d: d, priv: ref.B32(d), e: e, stream: rng.Bytes(32 * 8), chunk: chunks[rng.Intn(len(chunks))], plan: "random"})
	}
	// nonce boundary values as first candidate: 1, 2, n-1, n-2
	for _, k := range []*big.Int{zvBi(1), zvBi(2), zvNm1, zvNm2} {
		for j := 0; j < 3; j++ {
			d := keys[rng.Intn(len(keys))]
			cases = append(cases, &c02case{d: d, priv: ref.B32(d), e: rng.Bytes(32), stream: append(ref.B32(k), rng.Bytes(32*6)...), plan: "random"})
		}
	}
	// nonces from the rare-x1 fixture (x1 within 2^225 of 2^256, or below 2^226) with digests at the
	// boundaries where e + x1 crosses 2n / n; preceded sometimes by a range reject
	rare, rerr := zvRareNonceCases(rng)
	if rerr != nil {
		r.Inconclusive("rare-nonce fixture: " + rerr.Error())
		return
	}
	for i, rc := range rare {
		for j := 0; j < 2; j++ {
			d := keys[(i*7+j*3)%len(keys)]
			var stream []byte
			if j == 1 {
				stream = append(stream, zvRangeRejects(rng)[i%5]...)
			}
			stream = append(append(stream, ref.B32(rc.k)...), ref.B32(zvRandScalar(rng))...)
			stream = append(stream, rng.Bytes(32*4)...)
			cases = append(cases, &c02case{d: d, priv: ref.B32(d), e: rc.e, stream: stream, chunk: chunks[rng.Intn(len(chunks))], plan: "random", label: rc.label})
		}
	}
	// digests SOLVED so that (r + k) mod n, s or r has a carry-critical INTERNAL (Montgomery) representation:
	// the signer's zero tests and final reductions work on that representation
	for i, tg := range zvMontgomeryPatternScalars(rng, hk.N(90, 400)) {
		kind := []string{"r+k", "s", "r"}[i%3]
		d := keys[(i*3)%len(keys)]
		k := zvRandScalar(rng)
		e, ok := zvSolveDigest(d, k, kind, tg)
		if !ok {
			continue
		}
		stream := append(append(ref.B32(k), ref.B32(zvRandScalar(rng))...), rng.Bytes(32*4)...)
		cases = append(cases, &c02case{d: d, priv: ref.B32(d), e: e, stream: stream, chunk: chunks[rng.Intn(len(chunks))], plan: "random", label: "montgomery-pattern-" + kind})
	}
	// VERY long runs of rejected candidates before the first acceptable one: the standard puts no bound on
	// the number of redraws (2^20+3 candidates = 32 MiB of stream; 2^22+1 in the thorough tier)
	for _, nrej := range []int{1<<20 + 3, hk.N(1<<16+1, 1<<22+1)} {
		d := keys[nrej%len(keys)]
		stream := bytes.Repeat([]byte{0xff}, 32*nrej)
		if nrej%2 == 1 {
			for i := 0; i < nrej; i += 3 {
				copy(stream[32*i:], make([]byte, 32)) // k = 0 mixed in
			}
		}
		stream = append(append(stream, ref.B32(zvRandScalar(rng))...), rng.Bytes(64)...)
		cases = append(cases, &c02case{d: d, priv: ref.B32(d), e: rng.Bytes(32), stream: stream, chunk: 0, plan: "random", label: "long-rejection-run"})
	}
	// SHORT ENCODINGS of the private key (leading zero bytes stripped, 1..31 bytes): the signer accepts them; the
	// nonce is still drawn in full 32-byte units and the pair is the standard's for the VALUE d
	for i := 0; i < hk.N(40, 300); i++ {
		l := 1 + i%31
		db := append([]byte{1 + byte(rng.Intn(255))}, rng.Bytes(l-1)...)
		d := new(big.Int).SetBytes(db)
		if !ref.ValidPriv(d) {
			continue
		}
		cases = append(cases, &c02case{d: d, priv: db, e: rng.Bytes(32), stream: rng.Bytes(32 * 6), chunk: chunks[rng.Intn(len(chunks))], plan: "random", label: fmt.Sprintf("short-key-encoding")})
	}
	// RELATIONS BETWEEN ARGUMENTS: the nonce candidate equals the private key, its negation, the digest, a
	// neighbour of the key ...; the digest equals the key. The standard has no rule about any of them.
	for i := 0; i < hk.N(12, 60); i++ {
		d := keys[(i*11+3)%len(keys)]
		e := rng.Bytes(32)
		eI := ref.ModN(ref.Int(e))
		rel := []*big.Int{new(big.Int).Set(d), ref.ModN(new(big.Int).Neg(d)), eI, ref.ModN(new(big.Int).Neg(eI)), new(big.Int).Add(d, zvBi(1)), new(big.Int).Sub(d, zvBi(1)),
			ref.ModN(new(big.Int).Lsh(d, 1)), ref.ModN(new(big.Int).Sub(zvNm1, d)), ref.ModN(new(big.Int).Add(d, eI)), ref.InvN(new(big.Int).Add(d, zvBi(1)))}
		names := []string{"k=d", "k=n-d", "k=e", "k=-e", "k=d+1", "k=d-1", "k=2d", "k=n-1-d", "k=d+e", "k=1/(1+d)"}
		for j, k := range rel {
			if k.Sign() <= 0 || k.Cmp(zvNI) >= 0 {
				continue
			}
			ee := e
			if (i+j)%4 == 0 {
				ee = ref.B32(d) // and the digest is the key itself
			}
			stream := append(append(ref.B32(k), ref.B32(zvRandScalar(rng))...), rng.Bytes(32*4)...)
			cases = append(cases, &c02case{d: d, priv: ref.B32(d), e: ee, stream: stream, chunk: chunks[rng.Intn(len(chunks))], plan: "random", label: "relation:" + names[j]})
		}
	}
	// (b) the rule matrix: 0..3 range rejects, then optionally one digest-dependent
	// rule (r=0 | r+k=n | s=0), then valid candidates
	nKeys := hk.N(5, 30)
	for ki := 0; ki < nKeys; ki++ {
		d := keys[(ki*5)%len(keys)]
		for nrej := 0; nrej <= 3; nrej++ {
			for _, rule := range []string{"", "r=0", "r+k=n", "s=0"} {
				for rep := 0; rep < 2; rep++ {
					rj := zvRangeRejects(rng)
					var stream []byte
					var plan []string
					for j := 0; j < nrej; j++ {
						stream = append(stream, rj[rng.Intn(len(rj))]...)
						plan = append(plan, "k-range")
					}
					e := rng.Bytes(32)
					if rule != "" {
						// the candidate that the digest rule rejects comes in several shapes: random, with leading zero BYTES
						// (its minimal encoding is shorter than 32 bytes), below 2^64, and n minus something small (so that n - k
						// - which is r in the r+k=n case - has leading zero bytes): a rule rewritten on encodings must still fire
						k := zvRandScalar(rng)
						switch (ki + nrej + rep) % 4 {
						case 1:
							k = new(big.Int).SetBytes(rng.Bytes(32 - 1 - rng.Intn(3)))
						case 2:
							k = new(big.Int).SetBytes(rng.Bytes(1 + rng.Intn(8)))
						case 3:
							k = new(big.Int).Sub(zvNI, new(big.Int).SetBytes(rng.Bytes(1+rng.Intn(30))))
						}
						if k.Sign() == 0 {
							k = zvBi(1)
						}
						x1 := ref.BaseMulFast(k).X
						var rT *big.Int
						switch rule {
						case "r=0":
							rT = zvBi(0)
						case "r+k=n":
							rT = new(big.Int).Sub(zvNI, k)
						case "s=0":
							rT = ref.ModN(new(big.Int).Mul(k, ref.InvN(d)))
						}
						e = ref.B32(ref.ModN(new(big.Int).Sub(rT, x1)))
						stream = append(stream, ref.B32(k)...)
						plan = append(plan, rule)
						// sometimes another range reject after the digest rule
						if rng.Intn(2) == 0 {
							stream = append(stream, rj[rng.Intn(len(rj))]...)
							plan = append(plan, "k-range")
						}
					}
					stream = append(stream, rng.Bytes(32*6)...)
					// make sure the first "valid" candidate is in range so that the plan is exact
					fix := len(plan) * 32
					copy(stream[fix:], ref.B32(zvRandScalar(rng)))
					cases = append(cases, &c02case{d: d, priv: ref.B32(d), e: e, stream: stream, chunk: chunks[rng.Intn(len(chunks))],
						zero: []int{0, 0, 3}[rng.Intn(3)], plan: strings.Join(plan, ",")})
				}
			}
		}
	}
	r.Sample(hk.D{"plan": cases[len(cases)-1].plan, "priv": hk.Hex(cases[len(cases)-1].priv), "e": hk.Hex(cases[len(cases)-1].e), "stream_prefix": hk.Hex(cases[len(cases)-1].stream[:96])})
	hk.Parallel(len(cases), func(i int) {
		if hk.InShard(i) {
			c02run(r, cases[i])
		}
	})

	// signing from fresh goroutines at EVERY STACK DEPTH of a sweep, with sources that use a lot of stack in their first
	// Read: nonce and key buffers must follow the stack wherever it moves
	{
		// (the model's answers are computed before the sweep: a stack the model has already grown does not move again)
		var sel []*c02case
		var selR, selS [][]byte
		for _, c := range cases {
			if len(sel) < 16 && len(c.priv) == 32 && len(c.stream) <= 4096 {
				if model := ref.SM2Sign(c.d, c.e, c.stream); model.R != nil {
					sel, selR, selS = append(sel, c), append(selR, ref.B32(model.R)), append(selS, ref.B32(model.S))
				}
			}
		}
		hk.AtStackDepths(hk.N(700, 2000), 96<<10, 8, func(depth int) {
			c, wr, ws := sel[depth%len(sel)], selR[depth%len(sel)], selS[depth%len(sel)]
			rr, ss, err := SignHashed(&zvStackHungryReader{inner: zvNewScript(c.stream), hungry: depth%3 == 0}, c.priv, c.e)
			if err != nil || !bytes.Equal(rr, wr) || !bytes.Equal(ss, ws) {
				r.Violation("signature-differs-from-standard:stack-grows-inside-the-call", hk.D{"stack_depth_frames": depth, "priv": hk.Hex(c.priv), "e": hk.Hex(c.e), "got_r": zvHexOrNil(rr), "model_r": hk.Hex(wr), "err": zvErrStr(err)})
			}
		})
		r.EvalN("stack-depth-sweep", hk.N(700, 2000))
		// a source that hands the buffer to a WORKER goroutine and delivers in pieces, with a garbage collection (stack
		// shrink of the parked caller) between the pieces; the caller comes from a deep call chain
		for i := 0; i < hk.N(10, 60); i++ {
			c, wr, ws := sel[i%len(sel)], selR[i%len(sel)], selS[i%len(sel)]
			var rr, ss []byte
			var err error
			h := zvNewHandoffReader(zvNewScript(c.stream), []int{16, 8, 31, 1}[i%4])
			zvAfterLargeStack([]int{150, 400, 1200, 60}[(i/4)%4], func() { rr, ss, err = SignHashed(h, c.priv, c.e) })
			h.Close()
			if err != nil || !bytes.Equal(rr, wr) || !bytes.Equal(ss, ws) {
				r.Violation("signature-differs-from-standard:source-fills-the-buffer-from-another-goroutine", hk.D{"priv": hk.Hex(c.priv), "e": hk.Hex(c.e), "got_r": zvHexOrNil(rr), "model_r": hk.Hex(wr), "err": zvErrStr(err), "piece": []int{16, 8, 31, 1}[i%4]})
			}
			r.Eval("source:worker-goroutine-fills-the-buffer")
		}
	}

	// first candidates from the LIMB GRID around n (every limb 0, n_i - 1, n_i, n_i + 1 or all ones): above n they must be
	// skipped, below they must be used - a limb-wise range test that forgets a condition is wrong on some of these only
	{
		grid := ref.LimbGrid(zvNI)
		var extra []*c02case
		for gi, kv := range grid {
			if !hk.Thorough() && gi%3 != int(hk.Seed()%3) {
				continue
			}
			d := keys[gi%len(keys)]
			stream := append(append(ref.B32(kv), ref.B32(zvRandScalar(rng))...), rng.Bytes(64)...)
			extra = append(extra, &c02case{d: d, priv: ref.B32(d), e: rng.Bytes(32), stream: stream, chunk: chunks[gi%len(chunks)], plan: "random", label: "first-candidate-from-limb-grid-around-n"})
		}
		hk.Parallel(len(extra), func(i int) { c02run(r, extra[i]) })
	}

	// PAIRS of rare classes inside one call: the first candidate is rejected LATE (r = 0, r + k = n, s = 0: r and
	// partly s have been computed and stored somewhere), and the accepted second candidate gives an r (or s) with
	// leading zero bytes - whatever the first round left behind must not show through. The second nonce is found by
	// search (one in 256 per leading zero byte).
	{
		var extra []*c02case
		for _, rule := range []string{"r=0", "r+k=n", "s=0"} {
			for _, want := range []string{"r", "s"} {
				for q := 0; q < hk.N(2, 8); q++ {
					d := keys[rng.Intn(len(keys))]
					k1 := zvRandScalar(rng)
					var e []byte
					var ok bool
					switch rule {
					case "r=0":
						e, ok = zvSolveDigest(d, k1, "r", zvBi(0))
					case "r+k=n":
						e, ok = zvSolveDigest(d, k1, "r+k", zvBi(0))
					default:
						e, ok = zvSolveDigest(d, k1, "s", zvBi(0))
					}
					if !ok {
						continue
					}
					for tries := 0; tries < 3000; tries++ {
						k2 := zvRandScalar(rng)
						stream := append(append(ref.B32(k1), ref.B32(k2)...), rng.Bytes(64)...)
						m := ref.SM2Sign(d, e, stream)
						if m.R == nil || m.Consumed != 64 {
							continue
						}
						v := m.R
						if want == "s" {
							v = m.S
						}
						if ref.B32(v)[0] != 0 {
							continue
						}
						extra = append(extra, &c02case{d: d, priv: ref.B32(d), e: e, stream: stream, chunk: chunks[rng.Intn(len(chunks))], plan: "random",
							label: "late-rejection(" + rule + ")-then-leading-zero-" + want})
						break
					}
				}
			}
		}
		if len(extra) == 0 {
			r.Inconclusive("c02: no (late rejection, short value) pair found")
		}
		hk.Parallel(len(extra), func(i int) { c02run(r, extra[i]) })
	}

	// the caller's BUFFERS are reused: key and digest live in two arrays that are overwritten in place call after
	// call (key A, key B, A again, short encodings ...); and the RESULTS belong to the caller: every (r, s) handed out
	// must still hold its value after all later calls
	{
		var pb, eb [32]byte
		type kept struct{ r, s, wr, ws []byte }
		var outs []kept
		order := rng.Perm(len(cases))
		n := 0
		for _, ci := range order {
			c := cases[ci]
			if len(c.priv) > 32 || len(c.e) != 32 || len(c.stream) > 4096 {
				continue
			}
			if n >= hk.N(600, 6000) {
				break
			}
			n++
			model := ref.SM2Sign(c.d, c.e, c.stream)
			if model.R == nil {
				continue
			}
			priv := pb[:len(c.priv)]
			copy(priv, c.priv)
			copy(eb[:], c.e)
			rd := zvNewScript(c.stream)
			rd.chunk = c.chunk
			var rr, ss []byte
			var err error
			p, msg, _, _ := hk.Try(func() { rr, ss, err = SignHashed(rd, priv, eb[:]) })
			if p || err != nil || !bytes.Equal(rr, ref.B32(model.R)) || !bytes.Equal(ss, ref.B32(model.S)) {
				r.Violation("signature-differs-from-standard:caller-reuses-key-and-digest-buffers", hk.D{"priv": hk.Hex(c.priv), "e": hk.Hex(c.e), "stream": hk.Hex(c.stream[:model.Consumed]),
					"got_r": zvHexOrNil(rr), "got_s": zvHexOrNil(ss), "model_r": hk.Hex(ref.B32(model.R)), "model_s": hk.Hex(ref.B32(model.S)), "err": zvErrStr(err), "panic": msg, "call_number": n})
			} else {
				outs = append(outs, kept{rr, ss, ref.B32(model.R), ref.B32(model.S)})
			}
			r.Eval("reused-buffers")
		}
		for i, o := range outs {
			if !bytes.Equal(o.r, o.wr) || !bytes.Equal(o.s, o.ws) {
				r.Violation("signature-handed-out-earlier-changed-by-later-calls", hk.D{"call_number": i, "r_now": hk.Hex(o.r), "r_returned": hk.Hex(o.wr), "s_now": hk.Hex(o.s), "s_returned": hk.Hex(o.ws)})
				break
			}
		}
		r.EvalN("results-kept-by-caller", len(outs))
	}

	// the source is the process-wide crypto/rand.Reader OBJECT (replaced by a scripted source for the call): same
	// standard values, same 32-byte units, same rejection rules as for any other source
	for i := 0; i < hk.N(24, 120); i++ {
		d := keys[(i*7)%len(keys)]
		e := rng.Bytes(32)
		stream := rng.Bytes(32 * 6)
		switch i % 4 {
		case 1:
			copy(stream, make([]byte, 32)) // k = 0 first
		case 2:
			copy(stream, ref.B32(zvNI)) // k = n first
		case 3:
			for j := 0; j < 9; j++ {
				stream[j] = 0 // a nonce with leading zero bytes
			}
		}
		model := ref.SM2Sign(d, e, stream)
		if model.R == nil {
			continue
		}
		rd := zvNewScript(stream)
		var rr, ss []byte
		var err error
		zvWithGlobalRand(rd, func(src io.Reader) { rr, ss, err = SignHashed(src, ref.B32(d), e) })
		if err != nil || !bytes.Equal(rr, ref.B32(model.R)) || !bytes.Equal(ss, ref.B32(model.S)) || rd.off != model.Consumed || rd.crossesUnit() {
			r.Violation("signature-differs-from-standard:source=global-crypto/rand.Reader", hk.D{"priv": hk.Hex(ref.B32(d)), "e": hk.Hex(e), "stream": hk.Hex(stream[:model.Consumed]), "got_r": zvHexOrNil(rr), "got_s": zvHexOrNil(ss),
				"err": zvErrStr(err), "consumed": rd.off, "model_consumed": model.Consumed, "reads": rd.events})
		}
		r.Eval("source=global-rand-reader,rejects=[" + strings.Join(model.Rejected, ",") + "]")
	}
	// 2^24 consecutive rejected candidates (k = 0) from a generated source, then an acceptable one
	{
		nrej := int64(1 << 24)
		d := keys[5%len(keys)]
		k := zvRandScalar(rng)
		e := rng.Bytes(32)
		zr := &zvZeroRunReader{zeros: 32 * nrej, tail: append(ref.B32(k), rng.Bytes(64)...)}
		r.Journal("SignHashed after %d rejected candidates (all zero)", nrej)
		rr, ss, err := SignHashed(zr, ref.B32(d), e)
		m := ref.SM2Sign(d, e, append(ref.B32(k), zr.tail...))
		if m.R == nil || len(m.Rejected) != 0 {
			r.Inconclusive("c02: very-long-run case: the candidate after the run is rejected by the model")
		} else if err != nil || !bytes.Equal(rr, ref.B32(m.R)) || !bytes.Equal(ss, ref.B32(m.S)) || zr.read != 32*nrej+32 {
			r.Violation("signature-wrong-after-very-long-rejection-run", hk.D{"rejected_candidates": nrej, "err": zvErrStr(err), "r": zvHexOrNil(rr), "s": zvHexOrNil(ss), "bytes_read": zr.read})
		}
		r.Eval("rejects=[2^24 x k=0]")
	}
	// (c) keys outside [1,n-2] must be refused with an error and no signature
	type badKey struct {
		name string
		priv []byte
	}
	bad := []badKey{
		{"zero-32", make([]byte, 32)},
		{"n-1", ref.B32(zvNm1)},
		{"n", ref.B32(zvNI)},
		{"n+1", ref.B32(new(big.Int).Add(zvNI, zvBi(1)))},
		{"2^256-1", ref.B32(new(big.Int).Sub(zvB256, zvBi(1)))},
		{"33-bytes-leading-zero", append([]byte{0}, ref.B32(zvBi(5))...)},
		{"33-bytes", rng.Bytes(33)},
		{"64-bytes", rng.Bytes(64)},
		{"empty", []byte{}},
		{"nil", nil},
		{"zero-1", []byte{0}},
		{"zero-31", make([]byte, 31)},
	}
	for _, b := range bad {
		for rep := 0; rep < 3; rep++ {
			rd := zvNewScript(rng.Bytes(32 * 8))
			var rr, ss []byte
			var err error
			e := rng.Bytes(32)
			p, msg, _, _ := hk.Try(func() { rr, ss, err = SignHashed(rd, b.priv, e) })
			d := hk.D{"priv": zvHexOrNil(b.priv), "e": hk.Hex(e), "r": zvHexOrNil(rr), "s": zvHexOrNil(ss), "err": zvErrStr(err)}
			if p {
				d["panic"] = msg
				r.Violation("invalid-key-panics:"+b.name, d)
			} else if err == nil || rr != nil || ss != nil {
				r.Violation("invalid-key-signs:"+b.name, d)
			}
			r.Eval("invalid-key:" + b.name)
		}
	}
	r.Note("cases", len(cases))
}
