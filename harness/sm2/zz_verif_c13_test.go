//go:build verif

package sm2

import (
	"bytes"
	"fmt"
	"math/big"
	"testing"

	"github.com/bilibili/smgo/zzverif/hk"
	"github.com/bilibili/smgo/zzverif/ref"
)

// C13 — ZA and the id/message-level wrappers against the model; OpenSSL
// interoperability fixtures.

func TestVerifC13(t *testing.T) {
	r := hk.NewReporter("C13", "sm2-za-wrappers")
	defer r.Close()
	if err := ref.SelfTestSM2(); err != nil {
		r.Inconclusive("oracle self-test: " + err.Error())
		return
	}
	if err := ref.SelfTestSM3(); err != nil {
		r.Inconclusive("oracle self-test: " + err.Error())
		return
	}
	rng := hk.NewRNG(hk.Seed(), "c13")
	zvHostilePrelude(hk.NewRNG(hk.Seed(), "prelude"))
	d0 := zvRandScalar(rng)
	P0 := zvRefPub(d0)
	px0, py0 := ref.B32(P0.X), ref.B32(P0.Y)

	// ---- ZA for every id length 0..8193 and beyond
	zvLens := []int{}
	for l := 0; l <= 8193; l++ {
		zvLens = append(zvLens, l)
	}
	zvLens = append(zvLens, 8194, 8200, 9000, 16383, 16384, 16385, 32768, 65535, 65536, 70000)
	idbuf := rng.Bytes(70000)
	hk.Parallel(len(zvLens), func(i int) {
		l := zvLens[i]
		id := idbuf[:l]
		px, py := px0, py0
		if l%97 == 0 {
			P := ref.BaseMulFast(zvRandScalarIdx(hk.Seed(), l))
			px, py = ref.B32(P.X), ref.B32(P.Y)
		}
		want, werr := ref.SM2ZA(id, px, py)
		var got []byte
		var err error
		p, msg, _, _ := hk.Try(func() { got, err = ZA(id, px, py) })
		cls := fmt.Sprintf("idlen%%64=%d", l%64)
		if l >= 8190 {
			cls = fmt.Sprintf("idlen=%d", l)
		}
		d := hk.D{"idlen": l, "px": hk.Hex(px), "py": hk.Hex(py), "got": zvHexOrNil(got), "err": zvErrStr(err)}
		switch {
		case p:
			d["panic"] = msg
			r.Violation("za-panics:"+cls, d)
		case werr != nil:
			if err == nil {
				r.Violation(fmt.Sprintf("za-accepts-too-long-id:len=%d", l), d)
			}
		case err != nil:
			r.Violation("za-refuses-legal-id:"+cls, d)
		case !bytes.Equal(got, want):
			d["want"] = hk.Hex(want)
			r.Violation("za-wrong:"+cls, d)
		}
		r.Eval("za:" + cls)
	})
	// ids RELATED to the well-known default id "1234567812345678" (a fast path or a cached state for it must match
	// the whole id, not a prefix, a length or a hash of a part): extensions, truncations, one byte changed, repeated,
	// embedded; and the same for whatever id was used in the call before (the previous id with a suffix / shortened)
	{
		def := []byte("1234567812345678")
		var rel [][]byte
		for k := 1; k <= 20; k++ {
			rel = append(rel, append(append([]byte{}, def...), rng.Bytes(k)...))
		}
		rel = append(rel, append(append([]byte{}, def...), def...), append(append([]byte{}, def...), 0), append([]byte{0}, def...), append(append([]byte{}, def[8:]...), def[:8]...))
		for k := 0; k < 16; k++ {
			rel = append(rel, def[:k])
			c := append([]byte{}, def...)
			c[k] ^= 1 << uint(k%8)
			rel = append(rel, c)
		}
		rel = append(rel, bytes.ToUpper(def), append(append(rng.Bytes(5), def...), rng.Bytes(3)...), def)
		prev := def
		for i, id := range rel {
			for _, cand := range [][]byte{id, append(append([]byte{}, prev...), byte(i)), prev[:len(prev)/2]} {
				want, _ := ref.SM2ZA(cand, px0, py0)
				var got []byte
				var err error
				p, msg, _, _ := hk.Try(func() { got, err = ZA(cand, px0, py0) })
				if p || err != nil || !bytes.Equal(got, want) {
					r.Violation("za-wrong:id-related-to-the-default-or-previous-id", hk.D{"id": hk.Hex(cand), "id_text": string(cand), "got": zvHexOrNil(got), "want": hk.Hex(want), "err": zvErrStr(err), "panic": msg})
				}
				prev = cand
				if len(prev) == 0 {
					prev = def
				}
			}
			r.Eval("za:id-related-to-default")
		}
		// and through the wrappers: a signature made under the default id must NOT verify under an extension of it
		msgR := rng.Bytes(40)
		rr, ss, serr := Sign(def, px0, py0, zvNewScript(idbuf[:256]), ref.B32(d0), msgR)
		if serr == nil {
			for _, other := range [][]byte{append(append([]byte{}, def...), 'x'), def[:15], append(append([]byte{}, def...), def...)} {
				if ok, _ := Verify(other, px0, py0, msgR, rr, ss); ok {
					r.Violation("verify-accepts-signature-under-another-id", hk.D{"signed_under": string(def), "verified_under": string(other)})
				}
			}
			if ok, _ := Verify(def, px0, py0, msgR, rr, ss); !ok {
				r.Violation("verify-rejects-own-signature:default-id", hk.D{})
			}
		}
	}
	// ids of 8192 bytes or more must be refused WHATEVER their content and length: lengths around every
	// multiple of 8192 (where a 16-bit ENTL wraps onto a legal value) with contents that start with the
	// default id, repeat it, are zero, or random
	{
		var tooLong []int
		for k := 1; k <= 9; k++ {
			for d := -1; d <= 40; d++ {
				if l := k*8192 + d; l >= 8192 {
					tooLong = append(tooLong, l)
				}
			}
		}
		tooLong = append(tooLong, 8192+55, 8192+64, 8192+100, 8192+255, 8192+256, 8192+1000, 8192+4096, 1<<17, 1<<17+16)
		def := []byte("1234567812345678")
		hk.Parallel(len(tooLong), func(i int) {
			l := tooLong[i]
			for variant := 0; variant < 4; variant++ {
				id := make([]byte, l)
				switch variant {
				case 0:
					copy(id, def)
				case 1:
					for j := range id {
						id[j] = def[j%16]
					}
				case 2:
					// zeros
				default:
					copy(id, idbuf[:zvMin(l, len(idbuf))])
				}
				var got []byte
				var err error
				p, msg, _, _ := hk.Try(func() { got, err = ZA(id, px0, py0) })
				if p {
					r.Violation("za-panics:too-long-id", hk.D{"idlen": l, "panic": msg})
				} else if err == nil {
					r.Violation(fmt.Sprintf("za-accepts-too-long-id:len%%8192=%d,content=%d", l%8192, variant), hk.D{"idlen": l, "content_variant": variant, "za": hk.Hex(got)})
				}
				// a too-long id must not be verifiable under ANY stand-in digest: signatures that are valid for the digests a
				// careless implementation could fall back to (no ZA at all, ZA of the empty id, ZA of the id cut to
				// 8191 bytes or to its length mod 8192) must all be rejected
				if variant == 0 && i%3 == 0 {
					zaEmpty, _ := ref.SM2ZA(nil, px0, py0)
					zaCut, _ := ref.SM2ZA(id[:8191], px0, py0)
					zaMod, _ := ref.SM2ZA(id[:l%8192], px0, py0)
					msg := []byte("message under a too-long id")
					for di, dg := range [][]byte{ref.SM3(msg), ref.SM2E(zaEmpty, msg), ref.SM2E(zaCut, msg), ref.SM2E(zaMod, msg), ref.SM2E(nil, msg), ref.SM2E(make([]byte, 32), msg)} {
						m := ref.SM2Sign(d0, dg, idbuf[300:300+96])
						if m.R == nil {
							continue
						}
						ok, _ := Verify(id, px0, py0, msg, ref.B32(m.R), ref.B32(m.S))
						if ok {
							r.Violation("verify-accepts-signature-under-too-long-id", hk.D{"idlen": l, "signature_is_valid_for": []string{"SM3(M)", "ZA(empty id)", "ZA(id[:8191])", "ZA(id[:len mod 8192])", "SM3(M) again", "ZA = 32 zero bytes"}[di]})
						}
					}
				}
				// and through the id-level entry points
				if variant < 2 && i%4 == 0 {
					_, _, serr := Sign(id, px0, py0, zvNewScript(idbuf[:256]), ref.B32(d0), []byte("m"))
					ok, _ := Verify(id, px0, py0, []byte("m"), ref.B32(zvBi(5)), ref.B32(zvBi(7)))
					if serr == nil || ok {
						r.Violation("sign-or-verify-accepts-too-long-id", hk.D{"idlen": l, "content_variant": variant})
					}
				}
			}
			r.Eval(fmt.Sprintf("za:too-long,len%%8192=%d", l%8192))
		})
	}
	// ids whose BIT length crosses an integer width: 8 * len = 2^32 at 2^29 bytes (and 2^33 at 2^30): a
	// length computed in 32 bits wraps to a small ENTL. One untouched zero mapping serves all lengths;
	// a correct library refuses before it reads a byte.
	if big := hk.ZeroMap(3<<29+8192+16, false); big != nil {
		for _, l := range []int{1 << 29, 1<<29 + 1, 1<<29 + 16, 1<<29 + 8191, 1<<29 + 8192, 1 << 30, 1<<30 + 16, 3<<29 + 5, 1<<28 + 16} {
			var got []byte
			var err error
			p, msg, _, _ := hk.Try(func() { got, err = ZA(big[:l], px0, py0) })
			if p {
				r.Violation("za-panics:too-long-id", hk.D{"idlen": l, "panic": msg})
			} else if err == nil {
				r.Violation(fmt.Sprintf("za-accepts-too-long-id:len=2^%d+%d", zvBitlenInt(l)-1, l-1<<uint(zvBitlenInt(l)-1)), hk.D{"idlen": l, "za": hk.Hex(got)})
			}
			if l == 1<<29+16 {
				_, _, serr := Sign(big[:l], px0, py0, zvNewScript(idbuf[:256]), ref.B32(d0), []byte("m"))
				ok, _ := Verify(big[:l], px0, py0, []byte("m"), ref.B32(zvBi(5)), ref.B32(zvBi(7)))
				if serr == nil || ok {
					r.Violation("sign-or-verify-accepts-too-long-id", hk.D{"idlen": l})
				}
			}
			r.Eval(fmt.Sprintf("za:too-long,len=2^%d+", zvBitlenInt(l)-1))
		}
		hk.Unmap(big)
	} else {
		r.Inconclusive("c13: cannot map 1.5 GiB of zero pages for the giant-id cases")
	}
	// a MESSAGE whose bit length crosses 32 bits (2^29 + 3 zero bytes from an untouched mapping). The
	// digest of ZA || M comes from the model's compression function block by block; the signature the library makes
	// over the message must be the standard's signature over that digest, and must verify through the message.
	{
		if big := hk.ZeroMap(1<<29+4096, false); big != nil {
			l := 1<<29 + 3
			za, _ := ref.SM2ZA([]byte("1234567812345678"), px0, py0)
			h := ref.SM3IV
			first := make([]byte, 64)
			copy(first, za)
			h = ref.SM3Compress(h, first)
			zero := make([]byte, 64)
			total := 32 + l
			nfull := total / 64
			for b := 1; b < nfull; b++ {
				h = ref.SM3Compress(h, zero)
			}
			e := ref.SM3Continue(h, uint64(nfull)*64, zero[:total%64])
			stream := rng.Bytes(32 * 6)
			model := ref.SM2Sign(d0, e, stream)
			var rr, ss []byte
			var err error
			p, msg, _, _ := hk.Try(func() { rr, ss, err = SignZa(zvNewScript(stream), ref.B32(d0), za, big[:l]) })
			d := hk.D{"message": "2^29+3 zero bytes", "za": hk.Hex(za), "model_e": hk.Hex(e), "r": zvHexOrNil(rr), "s": zvHexOrNil(ss), "err": zvErrStr(err), "panic": msg}
			if p || err != nil || model.R == nil || !bytes.Equal(rr, ref.B32(model.R)) || !bytes.Equal(ss, ref.B32(model.S)) {
				r.Violation("signza-differs-from-model-on-message-of-2^29-bytes", d)
			} else {
				ok, verr := VerifyZa(px0, py0, za, big[:l], rr, ss)
				ok2, _ := VerifyZa(px0, py0, za, big[:l-1], rr, ss)
				if !ok || verr != nil || ok2 {
					d["verify"], d["verify_err"], d["verify_of_shorter_message"] = ok, zvErrStr(verr), ok2
					r.Violation("verifyza-wrong-on-message-of-2^29-bytes", d)
				}
			}
			hk.Unmap(big)
			r.Eval("wrappers:message-of-2^29+3-bytes")
		} else {
			r.Inconclusive("c13: cannot map 512 MiB of zero pages for the giant-message case")
		}
	}
	r.Sample(hk.D{"kind": "ZA", "idlen": 8191, "px": hk.Hex(px0), "py": hk.Hex(py0)})

	// ---- wrappers: Sign == SignZa == SignHashed(SM3(ZA||M)) on the same stream;
	//      Verify == VerifyZa == VerifyHashed. Messages of every length 0..L.
	maxMsg := hk.N(200, 600)
	msgbuf := rng.Bytes(maxMsg + 1)
	idChoices := [][]byte{{}, []byte("1234567812345678"), rng.Bytes(1), rng.Bytes(23), rng.Bytes(55), rng.Bytes(100), rng.Bytes(8191)}
	hk.Parallel(maxMsg+1, func(l int) {
		lr := hk.NewRNG(hk.Seed(), zvCaseID("c13w", l))
		msg := msgbuf[:l]
		id := idChoices[l%len(idChoices)]
		d := d0
		px, py := px0, py0
		if l%5 == 0 {
			d = zvRandScalar(lr)
			P := ref.BaseMulFast(d)
			px, py = ref.B32(P.X), ref.B32(P.Y)
		}
		priv := ref.B32(d)
		za, _ := ref.SM2ZA(id, px, py)
		e := ref.SM2E(za, msg)
		stream := lr.Bytes(32 * 6)
		model := ref.SM2Sign(d, e, stream)
		if model.R == nil {
			return
		}
		// two thirds of the cases hand the per-user constants over as sub-slices of ONE caller record
		// (ZA || xA || yA || d, adjacent, spare capacity reaching into the next field): what the wrappers do
		// with ZA and M on the way to the digest must not touch the caller's memory
		var rec *hk.Record
		if l%3 != 0 {
			rec = hk.NewRecord([]int{0, 4}[l%2], 64, za, px, py, priv)
			za, px, py, priv = rec.View(0, za), rec.View(1, px), rec.View(2, py), rec.View(3, priv)
		}
		var r1, s1, r2, s2, r3, s3 []byte
		var e1, e2, e3 error
		p, pm, _, _ := hk.Try(func() {
			r1, s1, e1 = Sign(id, px, py, zvNewScript(stream), priv, msg)
			r2, s2, e2 = SignZa(zvNewScript(stream), priv, za, msg)
			r3, s3, e3 = SignHashed(zvNewScript(stream), priv, e)
		})
		det := hk.D{"id": hk.Hex(id), "msglen": l, "msg": hk.Hex(msg), "priv": hk.Hex(priv), "stream": hk.Hex(stream[:model.Consumed]),
			"sign": zvHexOrNil(r1) + "," + zvHexOrNil(s1), "signza": zvHexOrNil(r2) + "," + zvHexOrNil(s2), "signhashed": zvHexOrNil(r3) + "," + zvHexOrNil(s3),
			"model": hk.Hex(ref.B32(model.R)) + "," + hk.Hex(ref.B32(model.S)), "errs": zvErrStr(e1) + "|" + zvErrStr(e2) + "|" + zvErrStr(e3)}
		cls := fmt.Sprintf("(za||m)%%64=%d", (32+l)%64)
		if p {
			det["panic"] = pm
			r.Violation("sign-wrapper-panics", det)
			return
		}
		mr, ms := ref.B32(model.R), ref.B32(model.S)
		if e1 != nil || !bytes.Equal(r1, mr) || !bytes.Equal(s1, ms) {
			r.Violation("Sign-not-standard-for-(id,msg)", det)
		}
		if e2 != nil || !bytes.Equal(r2, mr) || !bytes.Equal(s2, ms) {
			r.Violation("SignZa-not-standard-for-(za,msg)", det)
		}
		if e3 != nil || !bytes.Equal(r3, mr) || !bytes.Equal(s3, ms) {
			r.Violation("SignHashed-not-standard", det)
		}
		// verification wrappers agree with the model on the valid and on a tampered message
		for _, tam := range []int{0, 1} {
			m2 := msg
			if tam == 1 {
				m2 = append(append([]byte{}, msg...), 0x80)
			}
			want := ref.SM2Verify(px, py, ref.SM2E(za, m2), mr, ms)
			var ok1, ok2 bool
			p, pm, _, _ := hk.Try(func() {
				ok1, _ = Verify(id, px, py, m2, mr, ms)
				ok2, _ = VerifyZa(px, py, za, m2, mr, ms)
			})
			if p {
				det["panic"] = pm
				r.Violation("verify-wrapper-panics", det)
			} else if ok1 != want || ok2 != want {
				det["tampered"] = tam
				det["verify"], det["verifyza"], det["want"] = ok1, ok2, want
				r.Violation("verify-wrapper-disagrees-with-model", det)
			}
		}
		if rec != nil {
			if ok, off, field := rec.Intact(); !ok {
				det["first_modified_record_offset"], det["lies_in_field(0=ZA,1=x,2=y,3=d)"] = off, field
				r.Violation("wrapper-modifies-caller-record(ZA||x||y||d)", det)
			}
		}
		r.Eval("wrap:" + cls + fmt.Sprintf(",idlen=%d,record=%v", len(id), rec != nil))
	})

	// ---- ARGUMENT SHAPES through the wrappers: whatever SignHashed / VerifyHashed do with an argument of an unusual
	//      shape, the id- and ZA-level entry points must do the same (they are defined as the hashed ones on SM3(ZA||M)):
	//      private keys in shorter encodings, r and s longer or shorter than 32 bytes, a nil message
	{
		id := []byte("1234567812345678")
		for q := 0; q < hk.N(12, 60); q++ {
			d := zvRandScalar(rng)
			if q%3 == 0 {
				d = new(big.Int).SetBytes(rng.Bytes(1 + rng.Intn(31))) // a value with leading zero bytes
			}
			if !ref.ValidPriv(d) {
				continue
			}
			P := zvRefPub(d)
			px, py := ref.B32(P.X), ref.B32(P.Y)
			za, _ := ref.SM2ZA(id, px, py)
			var msg []byte
			if q%4 != 0 {
				msg = rng.Bytes(rng.Intn(50))
			}
			e := ref.SM2E(za, msg)
			stream := rng.Bytes(32 * 6)
			full := ref.B32(d)
			encs := [][]byte{full, d.Bytes(), append([]byte{0}, d.Bytes()...)}
			for _, priv := range encs {
				if len(priv) > 32 || len(priv) == 0 {
					continue
				}
				rh, sh, eh := SignHashed(zvNewScript(stream), priv, e)
				rz, sz, ez := SignZa(zvNewScript(stream), priv, za, msg)
				ri, si, ei := Sign(id, px, py, zvNewScript(stream), priv, msg)
				if (eh == nil) != (ez == nil) || (eh == nil) != (ei == nil) || !bytes.Equal(rh, rz) || !bytes.Equal(sh, sz) || !bytes.Equal(rh, ri) || !bytes.Equal(sh, si) {
					r.Violation("sign-wrappers-differ-from-SignHashed:argument-shape", hk.D{"priv": hk.Hex(priv), "priv_len": len(priv), "msg_is_nil": msg == nil, "signhashed": zvHexOrNil(rh) + "," + zvErrStr(eh), "signza": zvHexOrNil(rz) + "," + zvErrStr(ez), "sign": zvHexOrNil(ri) + "," + zvErrStr(ei)})
				}
			}
			// ZA values of unusual shape handed to the ZA-level entry points (nil, empty, shorter, longer than a digest): they
			// are defined as the hashed entry points on SM3(za || M) whatever za is - nothing is derived in its place
			for zi, zaV := range [][]byte{nil, {}, za[:31], append(append([]byte{}, za...), 0x01), append(append([]byte{}, za...), za...), rng.Bytes(1)} {
				eV := ref.SM3(append(append([]byte{}, zaV...), msg...))
				rh, sh, eh := SignHashed(zvNewScript(stream), full, eV)
				rz, sz, ez := SignZa(zvNewScript(stream), full, zaV, msg)
				if (eh == nil) != (ez == nil) || !bytes.Equal(rh, rz) || !bytes.Equal(sh, sz) {
					r.Violation("signza-differs-from-SignHashed-on-SM3(za||M):za-of-unusual-shape", hk.D{"za": zvHexOrNil(zaV), "za_is_nil": zaV == nil, "za_shape_index": zi, "msg": zvHexOrNil(msg), "signhashed": zvHexOrNil(rh) + "," + zvErrStr(eh), "signza": zvHexOrNil(rz) + "," + zvErrStr(ez)})
				}
				if eh == nil {
					vh, _ := VerifyHashed(px, py, eV, rh, sh)
					vz, _ := VerifyZa(px, py, zaV, msg, rh, sh)
					if !vh || !vz {
						r.Violation("verifyza-differs-from-VerifyHashed-on-SM3(za||M):za-of-unusual-shape", hk.D{"za": zvHexOrNil(zaV), "za_is_nil": zaV == nil, "verifyhashed": vh, "verifyza": vz})
					}
				}
			}
			m := ref.SM2Sign(d, e, stream)
			if m.R == nil {
				continue
			}
			rB, sB := ref.B32(m.R), ref.B32(m.S)
			type rs struct{ r, s []byte }
			shapes := []rs{{rB, sB}, {append([]byte{0}, rB...), sB}, {rB, append([]byte{0}, sB...)}, {append(rng.Bytes(3), rB...), sB}, {rB, append(rng.Bytes(1), sB...)},
				{rB[1:], sB}, {rB, sB[1:]}, {append(append([]byte{}, rB...), 0), sB}, {nil, sB}, {rB, nil}, {m.R.Bytes(), m.S.Bytes()}}
			for _, sh := range shapes {
				vh, _ := VerifyHashed(px, py, e, sh.r, sh.s)
				vz, _ := VerifyZa(px, py, za, msg, sh.r, sh.s)
				vi, _ := Verify(id, px, py, msg, sh.r, sh.s)
				want := ref.SM2Verify(px, py, e, sh.r, sh.s)
				if vh != want || vz != want || vi != want {
					r.Violation("verify-wrappers-differ:argument-shape", hk.D{"r_len": len(sh.r), "s_len": len(sh.s), "msg_is_nil": msg == nil, "verifyhashed": vh, "verifyza": vz, "verify": vi, "model": want, "r": zvHexOrNil(sh.r), "s": zvHexOrNil(sh.s)})
				}
			}
			r.Eval("wrap:argument-shapes")
		}
	}

	// ---- PAIRS of rare dimensions: a large message (1 MiB and more, where an implementation may take another
	//      route: streaming, pre-checks, chunking) together with a signature value on the edge of its range
	//      (s = n-1, 1, 2, with leading zero bytes; r = n-1 for rejected ones). A valid signature with a
	//      chosen s over e = SM3(ZA || M) is obtained by solving the private key: d = (k - s) / (s + r).
	{
		bigMsg := rng.Bytes(1<<22 + 5)
		za := rng.Bytes(32)
		for _, ml := range []int{1 << 20, 1<<20 + 1, 1<<20 - 1, 1<<22 + 5, 70000} {
			msg := bigMsg[:ml]
			e := ref.SM2E(za, msg)
			for ti, target := range []*big.Int{new(big.Int).Set(zvNm1), zvBi(1), zvBi(2), new(big.Int).Lsh(zvBi(1), 200), new(big.Int).Set(zvNm2), zvRandScalar(rng)} {
				k := zvRandScalar(rng)
				x1 := ref.BaseMulFast(k).X
				rI := ref.ModN(new(big.Int).Add(ref.Int(e), x1))
				den := ref.ModN(new(big.Int).Add(target, rI))
				if rI.Sign() == 0 || den.Sign() == 0 {
					continue
				}
				d := ref.ModN(new(big.Int).Mul(new(big.Int).Sub(k, target), ref.InvN(den)))
				if !ref.ValidPriv(d) {
					continue
				}
				P := ref.BaseMulFast(d)
				px, py := ref.B32(P.X), ref.B32(P.Y)
				rB, sB := ref.B32(rI), ref.B32(target)
				if !ref.SM2Verify(px, py, e, rB, sB) {
					r.Inconclusive("c13: solved boundary signature is not valid by the model")
					continue
				}
				det := hk.D{"msglen": ml, "s": hk.Hex(sB), "r": hk.Hex(rB), "za": hk.Hex(za), "px": hk.Hex(px), "py": hk.Hex(py), "priv": hk.Hex(ref.B32(d))}
				okZa, _ := VerifyZa(px, py, za, msg, rB, sB)
				okH, _ := VerifyHashed(px, py, e, rB, sB)
				if !okZa || !okH {
					det["verifyza"], det["verifyhashed"] = okZa, okH
					r.Violation("VerifyZa-differs-from-VerifyHashed:large-message-with-boundary-signature", det)
				}
				r2, s2, err := SignZa(zvNewScript(append(ref.B32(k), rng.Bytes(64)...)), ref.B32(d), za, msg)
				if err != nil || !bytes.Equal(r2, rB) || !bytes.Equal(s2, sB) {
					det["signza"] = zvHexOrNil(r2) + "," + zvHexOrNil(s2)
					r.Violation("SignZa-not-standard:large-message-with-boundary-signature", det)
				}
				// rejected ones: r = n-1 / s = n-1 with an ordinary partner must be rejected by both, identically
				for _, bad := range [][2]*big.Int{{zvNm1, zvRandScalar(rng)}, {zvRandScalar(rng), zvNm1}, {zvNI, target}, {target, zvNI}} {
					bz, _ := VerifyZa(px, py, za, msg, ref.B32(bad[0]), ref.B32(bad[1]))
					bh := ref.SM2Verify(px, py, e, ref.B32(bad[0]), ref.B32(bad[1]))
					if bz != bh {
						det["bad_r"], det["bad_s"] = bad[0].Text(16), bad[1].Text(16)
						r.Violation("VerifyZa-differs-from-model:large-message-with-boundary-signature", det)
					}
				}
				r.Eval(fmt.Sprintf("pair:msglen=2^%d,s-class=%d", zvBitlenInt(ml)-1, ti))
			}
		}
	}

	// ---- totals on a STRIDE: len(ZA || M) an exact multiple of a power of two (2^9 .. 2^21, 1..3 strides, +-1), for
	//      the 32-byte ZA of the message-level calls and for other za lengths of the za-level ones. A chunked or
	//      streamed feed of ZA || M with a wrong tail (mask 0 when exactly one full chunk remains) drops or repeats
	//      a chunk only there. Judged as everywhere: the digest-level functions on the model's e = SM3(ZA || M),
	//      plus the truncated message, which must not verify.
	{
		maxJ := 19
		if hk.Thorough() {
			maxJ = 22
		}
		buf := rng.Bytes(3<<uint(maxJ) + 64)
		d := zvRandScalar(rng)
		P := ref.BaseMulFast(d)
		px, py := ref.B32(P.X), ref.B32(P.Y)
		id := []byte("1234567812345678")
		zaStd, _ := ref.SM2ZA(id, px, py)
		type strideCase struct{ zalen, ml int }
		var cases []strideCase
		for j := 9; j <= maxJ; j++ {
			for k := 1; k <= 3; k++ {
				for _, dl := range []int{-1, 0, 1} {
					if ml := k<<uint(j) - 32 + dl; ml > 0 {
						cases = append(cases, strideCase{32, ml})
					}
				}
				if zl := []int{0, 1, 31, 33, 64}[(j+k)%5]; k<<uint(j)-zl > 0 {
					cases = append(cases, strideCase{zl, k<<uint(j) - zl})
				}
			}
		}
		hk.Parallel(len(cases), func(i int) {
			c := cases[i]
			crng := hk.NewRNG(hk.Seed(), zvCaseID("c13stride", i))
			msg := buf[:c.ml]
			za := zaStd
			if c.zalen != 32 {
				za = crng.Bytes(c.zalen)
			}
			e := ref.SM2E(za, msg)
			k := zvRandScalar(crng)
			det := hk.D{"msglen": c.ml, "zalen": c.zalen, "za": hk.Hex(za), "px": hk.Hex(px), "py": hk.Hex(py), "priv": hk.Hex(ref.B32(d)), "k": hk.Hex(ref.B32(k)), "msg": "buf[:msglen] of rng(c13) stream"}
			var r1, s1 []byte
			var err error
			var okZa, okShort, okId bool
			pn, pm, _, _ := hk.Try(func() {
				r1, s1, err = SignZa(zvNewScript(append(ref.B32(k), crng.Bytes(64)...)), ref.B32(d), za, msg)
				if r1 != nil && s1 != nil {
					okZa, _ = VerifyZa(px, py, za, msg, r1, s1)
				}
			})
			if pn {
				det["panic"] = pm
				r.Violation("SignZa-panics:stride-aligned-total", det)
				return
			}
			if err != nil || r1 == nil || s1 == nil || !ref.SM2Verify(px, py, e, r1, s1) {
				det["signza"], det["err"] = zvHexOrNil(r1)+","+zvHexOrNil(s1), zvErrStr(err)
				r.Violation("SignZa-not-over-SM3(ZA||M):stride-aligned-total", det)
				return
			}
			if !okZa {
				r.Violation("VerifyZa-rejects-own-signature:stride-aligned-total", det)
			}
			if okH, _ := VerifyHashed(px, py, e, r1, s1); !okH {
				r.Violation("VerifyZa-differs-from-VerifyHashed:stride-aligned-total", det)
			}
			for _, cut := range []int{1, 64, 512, 32768} {
				if c.ml > cut {
					if okShort, _ = VerifyZa(px, py, za, msg[:c.ml-cut], r1, s1); okShort {
						det["cut"] = cut
						r.Violation("signature-verifies-for-truncated-message:stride-aligned-total", det)
					}
				}
			}
			if c.zalen == 32 {
				r2, s2, err2 := Sign(id, px, py, zvNewScript(append(ref.B32(k), crng.Bytes(64)...)), ref.B32(d), msg)
				if err2 != nil || !ref.SM2Verify(px, py, e, r2, s2) {
					det["sign"], det["err"] = zvHexOrNil(r2)+","+zvHexOrNil(s2), zvErrStr(err2)
					r.Violation("Sign-not-over-SM3(ZA||M):stride-aligned-total", det)
				} else if okId, _ = Verify(id, px, py, msg, r2, s2); !okId {
					r.Violation("Verify-rejects-own-signature:stride-aligned-total", det)
				}
			}
			r.Eval(fmt.Sprintf("stride:zalen=%d,total-bits=%d", c.zalen, zvBitlenInt(c.ml+c.zalen)))
		})
	}

	// ---- call histories on REUSED buffers: the same id / key / message buffers are overwritten in place
	//      between id-level calls (a server handling one request after another). Every call is compared
	//      with the model for the contents the buffers hold at that moment.
	for sess := 0; sess < hk.N(60, 600); sess++ {
		lr := hk.NewRNG(hk.Seed(), zvCaseID("c13h", sess))
		idBuf := make([]byte, 64)
		msgBuf := make([]byte, 128)
		pxBuf, pyBuf := make([]byte, 32), make([]byte, 32)
		idLen := lr.Pick([]int{0, 1, 16, 17, 32, 64})
		msgLen := lr.Pick([]int{0, 5, 32, 100})
		var keysD []*big.Int
		for k := 0; k < 2; k++ {
			keysD = append(keysD, zvRandScalar(lr))
		}
		var hist []string
		var prevR, prevS []byte
		for step := 0; step < 7; step++ {
			// mutate some of the buffers in place
			switch lr.Intn(4) {
			case 0:
				lr.Fill(idBuf[:idLen])
			case 1:
				lr.Fill(msgBuf[:msgLen])
			case 2:
				if lr.Intn(2) == 0 {
					idLen = lr.Pick([]int{0, 1, 16, 17, 32, 64})
				}
				lr.Fill(idBuf[:idLen])
			default:
				// keep everything
			}
			d := keysD[lr.Intn(len(keysD))]
			if step == 0 || lr.Intn(3) == 0 {
				P := zvRefPub(d)
				copy(pxBuf, ref.B32(P.X))
				copy(pyBuf, ref.B32(P.Y))
			} else {
				// which key is in the buffers now?
				for _, kd := range keysD {
					if bytes.Equal(ref.B32(zvRefPub(kd).X), pxBuf) {
						d = kd
					}
				}
			}
			id, msg := idBuf[:idLen], msgBuf[:msgLen]
			za, _ := ref.SM2ZA(id, pxBuf, pyBuf)
			e := ref.SM2E(za, msg)
			stream := lr.Bytes(32 * 4)
			model := ref.SM2Sign(d, e, stream)
			if model.R == nil {
				continue
			}
			det := hk.D{"session": sess, "step": step, "history": hist, "id": hk.Hex(id), "msg": hk.Hex(msg), "px": hk.Hex(pxBuf), "priv": hk.Hex(ref.B32(d))}
			switch op := lr.Intn(4); op {
			case 0:
				hist = append(hist, fmt.Sprintf("Sign(idlen=%d)", idLen))
				rr, ss, err := Sign(id, pxBuf, pyBuf, zvNewScript(stream), ref.B32(d), msg)
				if err != nil || !bytes.Equal(rr, ref.B32(model.R)) || !bytes.Equal(ss, ref.B32(model.S)) {
					det["got"] = zvHexOrNil(rr) + "," + zvHexOrNil(ss)
					r.Violation("history:Sign-not-standard-on-reused-buffers", det)
				}
				prevR, prevS = ref.B32(model.R), ref.B32(model.S)
			case 1:
				hist = append(hist, fmt.Sprintf("Verify(idlen=%d)", idLen))
				ok, _ := Verify(id, pxBuf, pyBuf, msg, ref.B32(model.R), ref.B32(model.S))
				if !ok {
					r.Violation("history:Verify-rejects-valid-on-reused-buffers", det)
				}
				prevR, prevS = ref.B32(model.R), ref.B32(model.S)
			case 2:
				// a signature made for the PREVIOUS contents must verify only if the model says so
				if prevR == nil {
					continue
				}
				hist = append(hist, fmt.Sprintf("Verify-previous-signature(idlen=%d)", idLen))
				want := ref.SM2Verify(pxBuf, pyBuf, e, prevR, prevS)
				ok, _ := Verify(id, pxBuf, pyBuf, msg, prevR, prevS)
				if ok != want {
					det["want"], det["got"] = want, ok
					r.Violation("history:Verify-disagrees-with-model-on-reused-buffers", det)
				}
			default:
				hist = append(hist, fmt.Sprintf("ZA(idlen=%d)", idLen))
				got, err := ZA(id, pxBuf, pyBuf)
				if err != nil || !bytes.Equal(got, za) {
					r.Violation("history:ZA-wrong-on-reused-buffers", det)
				}
			}
		}
		r.Eval(fmt.Sprintf("history:idlen=%d,msglen=%d", idLen, msgLen))
	}

	// ---- interoperability: OpenSSL-produced signatures must verify; ZA must match
	kats, err := ref.LoadSM2()
	if err != nil {
		r.Inconclusive("fixtures: " + err.Error())
		return
	}
	for i, k := range kats {
		px, py := hk.Unhex(k.Px), hk.Unhex(k.Py)
		id, msg := hk.Unhex(k.Id), hk.Unhex(k.Msg)
		var ok bool
		var verr error
		p, pm, _, _ := hk.Try(func() { ok, verr = Verify(id, px, py, msg, hk.Unhex(k.R), hk.Unhex(k.S)) })
		d := hk.D{"fixture": i, "id": k.Id, "msg": k.Msg, "px": k.Px, "py": k.Py, "r": k.R, "s": k.S, "err": zvErrStr(verr)}
		if p {
			d["panic"] = pm
			r.Violation("openssl-signature-panics", d)
		} else if !ok {
			r.Violation("openssl-signature-rejected", d)
		}
		// tampered message must be rejected
		ok2, _ := Verify(id, px, py, append(append([]byte{}, msg...), 1), hk.Unhex(k.R), hk.Unhex(k.S))
		if ok2 {
			r.Violation("openssl-signature-accepted-for-other-message", d)
		}
		r.Eval(fmt.Sprintf("interop:idlen=%d,msglen%%64=%d", len(id), len(msg)%64))
	}
}

func zvRandScalarIdx(seed uint64, i int) *big.Int {
	return zvRandScalar(hk.NewRNG(seed, zvCaseID("c13k", i)))
}

func zvBitlenInt(v int) int {
	n := 0
	for ; v > 0; v >>= 1 {
		n++
	}
	return n
}
