//go:build verif

package sm2

import (
	"bytes"
	"fmt"
	"testing"

	"github.com/bilibili/smgo/zzverif/hk"
	"github.com/bilibili/smgo/zzverif/ref"
)

// C10 (SM2 part) — no SM2 operation changes a byte of the slices passed as key,
// id, message, digest, signature or public key: the inputs live in PROT_READ
// pages (a write faults at the instruction) and every call is executed twice on
// the same buffers with the same answer.

func TestVerifC10SM2(t *testing.T) {
	r := hk.NewReporter("C10", "sm2-inputs-readonly")
	defer r.Close()
	if err := ref.SelfTestSM2(); err != nil {
		r.Inconclusive("oracle self-test: " + err.Error())
		return
	}
	rng := hk.NewRNG(hk.Seed(), "c10sm2")
	pool := hk.NewPool()
	protect := func(b []byte, place int) *hk.GBuf {
		g := pool.Get(len(b), place)
		g.Writable()
		copy(g.B, b)
		g.ReadOnly()
		return g
	}
	n := hk.N(60, 600)
	for i := 0; i < n; i++ {
		d := randScalar(rng)
		if i%7 == 0 {
			d = specialKeys()[rng.Intn(len(specialKeys()))]
		}
		P := refPub(d)
		place := []int{hk.PlaceMid, hk.PlaceEnd, hk.PlaceStart}[i%3]
		idV := rng.Bytes(rng.Pick([]int{0, 1, 16, 55, 100}))
		msgV := rng.Bytes(rng.Pick([]int{0, 1, 31, 32, 55, 64, 200}))
		eV := rng.Bytes(32)
		stream := rng.Bytes(32 * 6)
		priv, px, py := protect(ref.B32(d), place), protect(ref.B32(P.X), place), protect(ref.B32(P.Y), place)
		id, msg, e := protect(idV, place), protect(msgV, place), protect(eV, place)
		za0, _ := ref.SM2ZA(idV, px.B, py.B)
		za := protect(za0, place)
		m := ref.SM2Sign(d, eV, stream)
		mID := ref.SM2Sign(d, ref.SM2E(za0, msgV), stream)
		if m.R == nil || mID.R == nil {
			continue
		}
		rB, sB := protect(ref.B32(m.R), place), protect(ref.B32(m.S), place)
		rI, sI := protect(ref.B32(mID.R), place), protect(ref.B32(mID.S), place)
		all := map[string]*hk.GBuf{"priv": priv, "px": px, "py": py, "id": id, "msg": msg, "e": e, "za": za, "r": rB, "s": sB, "rI": rI, "sI": sI}
		orig := map[string][]byte{}
		for k, g := range all {
			orig[k] = append([]byte{}, g.B...)
		}
		type call struct {
			name string
			f    func() string
		}
		calls := []call{
			{"SignHashed", func() string {
				a, b, err := SignHashed(newScript(stream), priv.B, e.B)
				return fmt.Sprintf("%x,%x,%v", a, b, err)
			}},
			{"SignZa", func() string {
				a, b, err := SignZa(newScript(stream), priv.B, za.B, msg.B)
				return fmt.Sprintf("%x,%x,%v", a, b, err)
			}},
			{"Sign", func() string {
				a, b, err := Sign(id.B, px.B, py.B, newScript(stream), priv.B, msg.B)
				return fmt.Sprintf("%x,%x,%v", a, b, err)
			}},
			{"VerifyHashed", func() string { ok, err := VerifyHashed(px.B, py.B, e.B, rB.B, sB.B); return fmt.Sprintf("%v,%v", ok, err) }},
			{"VerifyZa", func() string { ok, err := VerifyZa(px.B, py.B, za.B, msg.B, rI.B, sI.B); return fmt.Sprintf("%v,%v", ok, err) }},
			{"Verify", func() string { ok, err := Verify(id.B, px.B, py.B, msg.B, rI.B, sI.B); return fmt.Sprintf("%v,%v", ok, err) }},
			{"Verify-forged", func() string { ok, _ := Verify(id.B, px.B, py.B, msg.B, sI.B, rI.B); return fmt.Sprintf("%v", ok) }},
			{"ZA", func() string { z, err := ZA(id.B, px.B, py.B); return fmt.Sprintf("%x,%v", z, err) }},
			{"DerivePublic", func() string { x, y, err := DerivePublic(priv.B); return fmt.Sprintf("%x,%x,%v", x, y, err) }},
			{"CheckOnCurve", func() string { return fmt.Sprint(CheckOnCurve(px.B, py.B)) }},
			{"TestPrivateKey", func() string { return fmt.Sprint(TestPrivateKey(priv.B)) }},
		}
		want := map[string]string{
			"SignHashed":   fmt.Sprintf("%x,%x,<nil>", ref.B32(m.R), ref.B32(m.S)),
			"SignZa":       fmt.Sprintf("%x,%x,<nil>", ref.B32(mID.R), ref.B32(mID.S)),
			"Sign":         fmt.Sprintf("%x,%x,<nil>", ref.B32(mID.R), ref.B32(mID.S)),
			"VerifyHashed": "true,<nil>", "VerifyZa": "true,<nil>", "Verify": "true,<nil>", "Verify-forged": "false",
			"ZA":           fmt.Sprintf("%x,<nil>", za0),
			"DerivePublic": fmt.Sprintf("%x,%x,<nil>", px.B, py.B),
			"CheckOnCurve": "true", "TestPrivateKey": "0",
		}
		for _, c := range calls {
			for rep := 0; rep < 2; rep++ {
				var got string
				p, pm, isFault, addr := hk.Try(func() { got = c.f() })
				switch {
				case p && isFault:
					where := "elsewhere"
					for k, g := range all {
						if in, _ := g.InRegion(addr); in {
							where = k
						}
					}
					r.Violation(fmt.Sprintf("sm2-writes-to-input:%s:%s", c.name, where), hk.D{"op": c.name, "panic": pm, "input": where})
				case p:
					r.Violation("sm2-panics-on-readonly-inputs:"+c.name, hk.D{"op": c.name, "panic": pm})
				case got != want[c.name]:
					r.Violation(fmt.Sprintf("sm2-answer-wrong-or-not-repeatable:%s:repeat%d", c.name, rep), hk.D{"op": c.name, "got": got, "want": want[c.name], "priv": hk.Hex(orig["priv"])})
				}
				r.Eval(fmt.Sprintf("sm2|%s|%s", c.name, []string{"mid", "end", "start"}[i%3]))
			}
			for k, g := range all {
				if !bytes.Equal(g.B, orig[k]) {
					r.Violation(fmt.Sprintf("sm2-modifies-input:%s:%s", c.name, k), hk.D{"op": c.name, "input": k})
				}
			}
		}
		for _, g := range all {
			pool.Put(g)
		}
	}
	r.Sample(hk.D{"ops": "SignHashed SignZa Sign VerifyHashed VerifyZa Verify ZA DerivePublic CheckOnCurve TestPrivateKey", "inputs": "every slice in PROT_READ pages, placed mid/end/start of its pages", "repeat": 2})
}
