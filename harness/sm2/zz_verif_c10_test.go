//go:build verif

package sm2

import (
	"bytes"
	"fmt"
	"testing"

	"github.com/bilibili/smgo/zzverif/hk"
	"github.com/bilibili/smgo/zzverif/ref"
)

// C10 (SM2 part) — no SM2 operation changes a byte of the slices passed as key,
// id, message, digest, signature or public key: the inputs live in PROT_READ
// pages (a write faults at the instruction) and every call is executed twice on
// the same buffers with the same answer.

func TestVerifC10SM2(t *testing.T) {
	r := hk.NewReporter("C10", "sm2-inputs-readonly")
	defer r.Close()
	if err := ref.SelfTestSM2(); err != nil {
		r.Inconclusive("oracle self-test: " + err.Error())
		return
	}
	rng := hk.NewRNG(hk.Seed(), "c10sm2")
	pool := hk.NewPool()
	protect := func(b []byte, place int) *hk.GBuf {
		g := pool.Get(len(b), place)
		g.Writable()
		copy(g.B, b)
		g.ReadOnly()
		return g
	}
	n := hk.N(60, 600)
	for i := 0; i < n; i++ {
		d := zvRandScalar(rng)
		if i%7 == 0 {
			d = zvSpecialKeys()[rng.Intn(len(zvSpecialKeys()))]
		}
		P := zvRefPub(d)
		place := []int{hk.PlaceMid, hk.PlaceEnd, hk.PlaceStart}[i%3]
		idV := rng.Bytes(rng.Pick([]int{0, 1, 16, 55, 100}))
		msgV := rng.Bytes(rng.Pick([]int{0, 1, 31, 32, 55, 64, 200}))
		eV := rng.Bytes(32)
		stream := rng.Bytes(32 * 6)
		priv, px, py := protect(ref.B32(d), place), protect(ref.B32(P.X), place), protect(ref.B32(P.Y), place)
		id, msg, e := protect(idV, place), protect(msgV, place), protect(eV, place)
		za0, _ := ref.SM2ZA(idV, px.B, py.B)
		za := protect(za0, place)
		m := ref.SM2Sign(d, eV, stream)
		mID := ref.SM2Sign(d, ref.SM2E(za0, msgV), stream)
		if m.R == nil || mID.R == nil {
			continue
		}
		rB, sB := protect(ref.B32(m.R), place), protect(ref.B32(m.S), place)
		rI, sI := protect(ref.B32(mID.R), place), protect(ref.B32(mID.S), place)
		all := map[string]*hk.GBuf{"priv": priv, "px": px, "py": py, "id": id, "msg": msg, "e": e, "za": za, "r": rB, "s": sB, "rI": rI, "sI": sI}
		orig := map[string][]byte{}
		for k, g := range all {
			orig[k] = append([]byte{}, g.B...)
		}
		type call struct {
			name string
			f    func() string
		}
		calls := []call{
			{"SignHashed", func() string {
				a, b, err := SignHashed(zvNewScript(stream), priv.B, e.B)
				return fmt.Sprintf("%x,%x,%v", a, b, err)
			}},
			{"SignZa", func() string {
				a, b, err := SignZa(zvNewScript(stream), priv.B, za.B, msg.B)
				return fmt.Sprintf("%x,%x,%v", a, b, err)
			}},
			{"Sign", func() string {
				a, b, err := Sign(id.B, px.B, py.B, zvNewScript(stream), priv.B, msg.B)
				return fmt.Sprintf("%x,%x,%v", a, b, err)
			}},
			{"VerifyHashed", func() string {
				ok, err := VerifyHashed(px.B, py.B, e.B, rB.B, sB.B)
				return fmt.Sprintf("%v,%v", ok, err)
			}},
			{"VerifyZa", func() string {
				ok, err := VerifyZa(px.B, py.B, za.B, msg.B, rI.B, sI.B)
				return fmt.Sprintf("%v,%v", ok, err)
			}},
			{"Verify", func() string {
				ok, err := Verify(id.B, px.B, py.B, msg.B, rI.B, sI.B)
				return fmt.Sprintf("%v,%v", ok, err)
			}},
			{"Verify-forged", func() string { ok, _ := Verify(id.B, px.B, py.B, msg.B, sI.B, rI.B); return fmt.Sprintf("%v", ok) }},
			{"ZA", func() string { z, err := ZA(id.B, px.B, py.B); return fmt.Sprintf("%x,%v", z, err) }},
			{"DerivePublic", func() string { x, y, err := DerivePublic(priv.B); return fmt.Sprintf("%x,%x,%v", x, y, err) }},
			{"CheckOnCurve", func() string { return fmt.Sprint(CheckOnCurve(px.B, py.B)) }},
			{"TestPrivateKey", func() string { return fmt.Sprint(TestPrivateKey(priv.B)) }},
		}
		want := map[string]string{
			"SignHashed":   fmt.Sprintf("%x,%x,<nil>", ref.B32(m.R), ref.B32(m.S)),
			"SignZa":       fmt.Sprintf("%x,%x,<nil>", ref.B32(mID.R), ref.B32(mID.S)),
			"Sign":         fmt.Sprintf("%x,%x,<nil>", ref.B32(mID.R), ref.B32(mID.S)),
			"VerifyHashed": "true,<nil>", "VerifyZa": "true,<nil>", "Verify": "true,<nil>", "Verify-forged": "false",
			"ZA":           fmt.Sprintf("%x,<nil>", za0),
			"DerivePublic": fmt.Sprintf("%x,%x,<nil>", px.B, py.B),
			"CheckOnCurve": "true", "TestPrivateKey": "0",
		}
		for _, c := range calls {
			for rep := 0; rep < 2; rep++ {
				var got string
				p, pm, isFault, addr := hk.Try(func() { got = c.f() })
				switch {
				case p && isFault:
					where := "elsewhere"
					for k, g := range all {
						if in, _ := g.InRegion(addr); in {
							where = k
						}
					}
					r.Violation(fmt.Sprintf("sm2-writes-to-input:%s:%s", c.name, where), hk.D{"op": c.name, "panic": pm, "input": where})
				case p:
					r.Violation("sm2-panics-on-readonly-inputs:"+c.name, hk.D{"op": c.name, "panic": pm})
				case got != want[c.name]:
					r.Violation(fmt.Sprintf("sm2-answer-wrong-or-not-repeatable:%s:repeat%d", c.name, rep), hk.D{"op": c.name, "got": got, "want": want[c.name], "priv": hk.Hex(orig["priv"])})
				}
				r.Eval(fmt.Sprintf("sm2|%s|%s", c.name, []string{"mid", "end", "start"}[i%3]))
			}
			for k, g := range all {
				if !bytes.Equal(g.B, orig[k]) {
					r.Violation(fmt.Sprintf("sm2-modifies-input:%s:%s", c.name, k), hk.D{"op": c.name, "input": k})
				}
			}
		}
		for _, g := range all {
			pool.Put(g)
		}
	}
	// inputs as SUB-SLICES of one larger record (each has spare capacity reaching into the next field):
	// nothing in the record may change, in any field order
	for i := 0; i < hk.N(120, 1200); i++ {
		lr := hk.NewRNG(hk.Seed(), zvCaseID("c10rec", i))
		d := zvRandScalar(lr)
		P := zvRefPub(d)
		idV, msgV := lr.Bytes(lr.Pick([]int{0, 16, 33})), lr.Bytes(lr.Pick([]int{0, 32, 70}))
		za0, _ := ref.SM2ZA(idV, ref.B32(P.X), ref.B32(P.Y))
		eV := ref.SM2E(za0, msgV)
		stream := lr.Bytes(32 * 4)
		m := ref.SM2Sign(d, eV, stream)
		if m.R == nil {
			continue
		}
		fields := map[string][]byte{"px": ref.B32(P.X), "py": ref.B32(P.Y), "r": ref.B32(m.R), "s": ref.B32(m.S), "e": eV, "za": za0, "id": idV, "msg": msgV, "priv": ref.B32(d)}
		names := []string{"px", "py", "r", "s", "e", "za", "id", "msg", "priv"}
		// random field order
		for j := len(names) - 1; j > 0; j-- {
			k := lr.Intn(j + 1)
			names[j], names[k] = names[k], names[j]
		}
		var record []byte
		off := map[string][2]int{}
		for _, nme := range names {
			off[nme] = [2]int{len(record), len(record) + len(fields[nme])}
			record = append(record, fields[nme]...)
		}
		record = append(record, lr.Bytes(40)...) // trailing live data
		snapshot := append([]byte{}, record...)
		get := func(nme string) []byte { o := off[nme]; return record[o[0]:o[1]] } // cap runs to the end of the record
		type call struct {
			name string
			f    func() string
			want string
		}
		calls := []call{
			{"VerifyHashed", func() string {
				ok, _ := VerifyHashed(get("px"), get("py"), get("e"), get("r"), get("s"))
				return fmt.Sprint(ok)
			}, "true"},
			{"Verify", func() string {
				ok, _ := Verify(get("id"), get("px"), get("py"), get("msg"), get("r"), get("s"))
				return fmt.Sprint(ok)
			}, "true"},
			{"VerifyZa", func() string {
				ok, _ := VerifyZa(get("px"), get("py"), get("za"), get("msg"), get("r"), get("s"))
				return fmt.Sprint(ok)
			}, "true"},
			{"SignHashed", func() string {
				a, b, _ := SignHashed(zvNewScript(stream), get("priv"), get("e"))
				return hk.Hex(a) + hk.Hex(b)
			}, hk.Hex(ref.B32(m.R)) + hk.Hex(ref.B32(m.S))},
			{"Sign", func() string {
				a, b, _ := Sign(get("id"), get("px"), get("py"), zvNewScript(stream), get("priv"), get("msg"))
				return hk.Hex(a) + hk.Hex(b)
			}, hk.Hex(ref.B32(m.R)) + hk.Hex(ref.B32(m.S))},
			{"ZA", func() string { z, _ := ZA(get("id"), get("px"), get("py")); return hk.Hex(z) }, hk.Hex(za0)},
			{"DerivePublic", func() string { x, y, _ := DerivePublic(get("priv")); return hk.Hex(x) + hk.Hex(y) }, hk.Hex(ref.B32(P.X)) + hk.Hex(ref.B32(P.Y))},
			{"CheckOnCurve", func() string { return fmt.Sprint(CheckOnCurve(get("px"), get("py"))) }, "true"},
			{"TestPrivateKey", func() string { return fmt.Sprint(TestPrivateKey(get("priv"))) }, "0"},
		}
		for _, c := range calls {
			for rep := 0; rep < 2; rep++ {
				var got string
				p, pm, _, _ := hk.Try(func() { got = c.f() })
				if p {
					r.Violation("sm2-panics-on-record-subslices:"+c.name, hk.D{"panic": pm, "order": names})
				} else if got != c.want {
					r.Violation(fmt.Sprintf("sm2-answer-wrong-or-not-repeatable-on-record-subslices:%s:repeat%d", c.name, rep), hk.D{"order": names, "got": got, "want": c.want})
				}
				if !bytes.Equal(record, snapshot) {
					first := 0
					for first < len(record) && record[first] == snapshot[first] {
						first++
					}
					hit := "trailing-data"
					for nme, o := range off {
						if first >= o[0] && first < o[1] {
							hit = nme
						}
					}
					r.Violation(fmt.Sprintf("sm2-writes-into-caller-record:%s", c.name), hk.D{"op": c.name, "order": names, "first_changed_offset": first, "field_hit": hit})
					copy(record, snapshot)
				}
			}
			r.Eval("sm2|record-subslices|" + c.name)
		}
	}
	r.Sample(hk.D{"ops": "SignHashed SignZa Sign VerifyHashed VerifyZa Verify ZA DerivePublic CheckOnCurve TestPrivateKey", "inputs": "every slice in PROT_READ pages, placed mid/end/start of its pages", "repeat": 2})
}
