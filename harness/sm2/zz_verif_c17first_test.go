//go:build verif

package sm2

import (
	"bytes"
	"fmt"
	"sync"
	"testing"

	"github.com/bilibili/smgo/zzverif/hk"
	"github.com/bilibili/smgo/zzverif/ref"
)

// C17 — FIRST USE under the race detector: whatever a process does on its first call of an entry point
// (lazy construction of tables, caches, one-time guards) may be done by many goroutines at the same
// moment. Each trial is a fresh process (hk.RunChildren) in which only the model runs before the
// barrier; then every goroutine makes one first call of a different entry point and a few more, all
// results compared with the model. Race reports of the children land in the same GORACE log prefix.
func TestVerifC17FirstUse(t *testing.T) {
	r := hk.NewReporter("C17", "sm2-first-use-concurrent")
	defer r.Close()
	trial := hk.ChildIndex()
	if trial < 0 {
		ran, failed := hk.RunChildren("TestVerifC17FirstUse", hk.N(5, 24))
		r.Count("fresh_process_trials", int64(ran))
		for _, f := range failed {
			r.Inconclusive("first-use child: " + f)
		}
		return
	}
	rng := hk.NewRNG(hk.Seed()+uint64(trial)*104729, "c17first")
	type job struct {
		d              []byte
		px, py         []byte
		e, stream      []byte
		wantR, wantS   []byte
		id, msg, za    []byte
		wantRI, wantSI []byte
		kgStream       []byte
		kg             ref.KeyGenResult
	}
	workers := 40
	jobs := make([]*job, workers)
	for i := range jobs {
		d := zvRandScalar(rng)
		P := ref.BaseMulFast(d)
		j := &job{d: ref.B32(d), px: ref.B32(P.X), py: ref.B32(P.Y), e: rng.Bytes(32), stream: rng.Bytes(32 * 6), id: []byte("1234567812345678"), msg: rng.Bytes(50)}
		m := ref.SM2Sign(d, j.e, j.stream)
		j.wantR, j.wantS = ref.B32(m.R), ref.B32(m.S)
		j.za, _ = ref.SM2ZA(j.id, j.px, j.py)
		m2 := ref.SM2Sign(d, ref.SM2E(j.za, j.msg), j.stream)
		j.wantRI, j.wantSI = ref.B32(m2.R), ref.B32(m2.S)
		j.kgStream = rng.Bytes(32 * 4)
		j.kg = ref.SM2KeyGen(j.kgStream)
		jobs[i] = j
	}
	start := make(chan struct{})
	var wg sync.WaitGroup
	for w := 0; w < workers; w++ {
		wg.Add(1)
		go func(w int) {
			defer wg.Done()
			j := jobs[w]
			<-start
			for step := 0; step < 3; step++ {
				kind := (w + trial + step*5) % 7
				bad := ""
				p, pm, _, _ := hk.Try(func() {
					switch kind {
					case 0:
						rr, ss, err := SignHashed(zvNewScript(j.stream), j.d, j.e)
						if err != nil || !bytes.Equal(rr, j.wantR) || !bytes.Equal(ss, j.wantS) {
							bad = "SignHashed differs from the model"
						}
					case 1:
						ok, err := VerifyHashed(j.px, j.py, j.e, j.wantR, j.wantS)
						if !ok || err != nil {
							bad = "VerifyHashed rejects a valid signature"
						}
					case 2:
						x, y, err := DerivePublic(j.d)
						if err != nil || !bytes.Equal(x, j.px) || !bytes.Equal(y, j.py) {
							bad = "DerivePublic differs from the model"
						}
					case 3:
						priv, x, y, err := GenerateKey(zvNewScript(j.kgStream))
						if err != nil || !bytes.Equal(priv, ref.B32(j.kg.D)) || !bytes.Equal(x, ref.B32(j.kg.Pub.X)) || !bytes.Equal(y, ref.B32(j.kg.Pub.Y)) {
							bad = "GenerateKey differs from the model"
						}
					case 4:
						rr, ss, err := Sign(j.id, j.px, j.py, zvNewScript(j.stream), j.d, j.msg)
						if err != nil || !bytes.Equal(rr, j.wantRI) || !bytes.Equal(ss, j.wantSI) {
							bad = "Sign differs from the model"
						}
					case 5:
						ok, err := Verify(j.id, j.px, j.py, j.msg, j.wantRI, j.wantSI)
						if !ok || err != nil {
							bad = "Verify rejects a valid signature"
						}
					default:
						bump := append([]byte{}, j.wantS...)
						bump[31] ^= 1
						ok, _ := VerifyHashed(j.px, j.py, j.e, j.wantR, bump)
						if ok {
							bad = "VerifyHashed accepts a forged signature"
						}
					}
				})
				if p {
					bad = "panic: " + pm
				}
				if bad != "" {
					r.Violation("first-use-concurrent-result-wrong", hk.D{"trial": trial, "goroutine": w, "step": step, "what": bad, "priv": hk.Hex(j.d), "e": hk.Hex(j.e)})
				}
				r.Eval(fmt.Sprintf("first-use:entry=%d,step=%d", kind, step))
			}
		}(w)
	}
	close(start)
	wg.Wait()
}
