//go:build verif

package sm2

import (
	"bytes"
	"fmt"
	"testing"

	"github.com/bilibili/smgo/zzverif/hk"
	"github.com/bilibili/smgo/zzverif/ref"
)

// C01 / C03 / C12 / C13 — FIRST USE in a fresh process, sequentially: whatever the package prepares lazily (encoded
// curve constants, tables) must be there whichever entry point a program happens to call first - a signer that only
// signs, a verifier that only verifies, a tool that only computes ZA. Each trial is a fresh process (hk.RunChildren) in
// which only the model runs before the first library call; the entry point called first rotates with the trial index,
// every other entry point follows, everything is compared with the model.
func TestVerifC01FirstUse(t *testing.T) {
	r := hk.NewReporter(zvFirstUseProp(), "sm2-first-use-sequential")
	defer r.Close()
	trial := hk.ChildIndex()
	kinds := []string{"Sign", "Verify", "ZA", "SignZa", "VerifyZa", "SignHashed", "VerifyHashed", "DerivePublic", "GenerateKey", "TestPrivateKey", "CheckOnCurve", "Verify-of-a-forgery"}
	if trial < 0 {
		ran, failed := hk.RunChildren("TestVerifC01FirstUse", len(kinds))
		r.Count("fresh_process_trials", int64(ran))
		for _, f := range failed {
			r.Inconclusive("first-use child: " + f)
		}
		return
	}
	rng := hk.NewRNG(hk.Seed()+uint64(trial)*49979687, "c01first")
	d := zvRandScalar(rng)
	P := ref.BaseMulFast(d)
	priv, px, py := ref.B32(d), ref.B32(P.X), ref.B32(P.Y)
	id, msg := []byte("1234567812345678"), rng.Bytes(33)
	za, _ := ref.SM2ZA(id, px, py)
	e := ref.SM2E(za, msg)
	stream := rng.Bytes(32 * 6)
	m := ref.SM2Sign(d, e, stream)
	if m.R == nil {
		return
	}
	wr, ws := ref.B32(m.R), ref.B32(m.S)
	kgStream := rng.Bytes(32 * 4)
	kg := ref.SM2KeyGen(kgStream)
	kind := kinds[trial%len(kinds)]
	step := func(what string) {
		bad := ""
		p, pm, _, _ := hk.Try(func() {
			switch what {
			case "Sign":
				rr, ss, err := Sign(id, px, py, zvNewScript(stream), priv, msg)
				if err != nil || !bytes.Equal(rr, wr) || !bytes.Equal(ss, ws) {
					bad = fmt.Sprintf("Sign differs from the model: r=%s s=%s err=%v", zvHexOrNil(rr), zvHexOrNil(ss), err)
				}
			case "Verify":
				if ok, err := Verify(id, px, py, msg, wr, ws); !ok || err != nil {
					bad = fmt.Sprintf("Verify rejects a valid signature: %v", err)
				}
			case "Verify-of-a-forgery":
				other := append([]byte{}, msg...)
				other[0] ^= 1
				if ok, _ := Verify(id, px, py, other, wr, ws); ok {
					bad = "Verify accepts the signature for another message"
				}
			case "ZA":
				if got, err := ZA(id, px, py); err != nil || !bytes.Equal(got, za) {
					bad = fmt.Sprintf("ZA differs from the model: %s err=%v", zvHexOrNil(got), err)
				}
			case "SignZa":
				rr, ss, err := SignZa(zvNewScript(stream), priv, za, msg)
				if err != nil || !bytes.Equal(rr, wr) || !bytes.Equal(ss, ws) {
					bad = "SignZa differs from the model"
				}
			case "VerifyZa":
				if ok, err := VerifyZa(px, py, za, msg, wr, ws); !ok || err != nil {
					bad = "VerifyZa rejects a valid signature"
				}
			case "SignHashed":
				rr, ss, err := SignHashed(zvNewScript(stream), priv, e)
				if err != nil || !bytes.Equal(rr, wr) || !bytes.Equal(ss, ws) {
					bad = "SignHashed differs from the model"
				}
			case "VerifyHashed":
				if ok, err := VerifyHashed(px, py, e, wr, ws); !ok || err != nil {
					bad = "VerifyHashed rejects a valid signature"
				}
			case "DerivePublic":
				x, y, err := DerivePublic(priv)
				if err != nil || !bytes.Equal(x, px) || !bytes.Equal(y, py) {
					bad = "DerivePublic differs from the model"
				}
			case "GenerateKey":
				k, x, y, err := GenerateKey(zvNewScript(kgStream))
				if err != nil || !bytes.Equal(k, ref.B32(kg.D)) || !bytes.Equal(x, ref.B32(kg.Pub.X)) || !bytes.Equal(y, ref.B32(kg.Pub.Y)) {
					bad = "GenerateKey differs from the model"
				}
			case "TestPrivateKey":
				if TestPrivateKey(priv) != 0 || TestPrivateKey(ref.B32(ref.SM2N)) == 0 || TestPrivateKey(make([]byte, 32)) == 0 {
					bad = "TestPrivateKey wrong"
				}
			case "CheckOnCurve":
				if !CheckOnCurve(px, py) || CheckOnCurve(py, px) {
					bad = "CheckOnCurve wrong"
				}
			}
		})
		if p {
			bad = "panic: " + pm
		}
		if bad != "" {
			r.Violation("entry-point-wrong-as-first-use-in-a-fresh-process:"+kind, hk.D{"trial": trial, "first_call": kind, "failing_call": what, "what": bad, "priv": hk.Hex(priv), "msg": hk.Hex(msg)})
		}
	}
	step(kind)
	for i := range kinds {
		step(kinds[(i+trial)%len(kinds)])
	}
	r.Eval("first-use:" + kind)
}

// the test is registered as a unit of several properties; the driver says which one this run reports for
func zvFirstUseProp() string {
	if p := hk.EnvProp(); p != "" {
		return p
	}
	return "C01"
}
