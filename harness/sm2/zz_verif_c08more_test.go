//go:build verif && valgrind

package sm2

import (
	"bufio"
	"bytes"
	"encoding/hex"
	"testing"

	"github.com/bilibili/smgo/utils"
)

// C08 / sm2, thorough tier — more PATHS of the signing and key-generation entry points under the
// taint sanitizer (memcheck generalises over values along a path, not over paths):
//   - the first in-range nonce is rejected LATE (r = 0, r + k = n, s = 0): digests solved offline for
//     the fixed pair d = vgKey(300), k = vgKey(301) (x1 = x([k]G); e = -x1, n - k - x1, k/d - x1 mod n);
//   - the randomness source delivers one byte per Read, sits behind bufio, or is an io.ByteReader;
//   - private key and nonce tainted at the same time; short key encodings; key generation whose first
//     candidate is n-1 (in range for a nonce, rejected for a key).

var vgLateDigests = map[string]string{
	"r=0":   "f47cbfe9f77a7cae585f7ac6806d9d4a253d14721259403feb8ed154f5f8aeda",
	"r+k=n": "809313b8bed479fb8b4f067ea8e1009c37328fbae47329c3d21346e78cf43949",
	"s=0":   "30f45b01b6df1bb39813cb01e2a0c995c3d9ae06ba8061eed156b29e4d6b9ae9",
}

// chunkTaintReader delivers at most chunk bytes per Read, tainted.
type zvChunkTaintReader struct {
	zvTaintedReader
	chunk int
}

func (c *zvChunkTaintReader) Read(p []byte) (int, error) {
	if len(p) > c.chunk {
		p = p[:c.chunk]
	}
	return c.zvTaintedReader.Read(p)
}

// byteTaintReader is also an io.ByteReader.
type zvByteTaintReader struct{ zvTaintedReader }

func (b *zvByteTaintReader) ReadByte() (byte, error) {
	var one [1]byte
	b.zvTaintedReader.Read(one[:])
	return one[0], nil
}

//go:noinline
func vgL2_SignHashed_k_tainted_late_rejection(priv, e []byte, rd *zvTaintedReader) {
	r, s, err := SignHashed(rd, priv, e)
	utils.VgUnpoison(r)
	utils.VgUnpoison(s)
	if err != nil {
		vgSink++
	}
	vgSink += len(r) + len(s)
}

//go:noinline
func vgL2_SignHashed_k_tainted_source_types(priv, e []byte, which int, stream []byte) {
	var r, s []byte
	var err error
	switch which {
	case 0:
		r, s, err = SignHashed(&zvChunkTaintReader{zvTaintedReader{data: stream, taint: true}, 1}, priv, e)
	case 1:
		r, s, err = SignHashed(&zvChunkTaintReader{zvTaintedReader{data: stream, taint: true}, 7}, priv, e)
	case 2:
		r, s, err = SignHashed(bufio.NewReaderSize(&zvTaintedReader{data: stream, taint: true}, 16), priv, e)
	default:
		r, s, err = SignHashed(&zvByteTaintReader{zvTaintedReader{data: stream, taint: true}}, priv, e)
	}
	utils.VgUnpoison(r)
	utils.VgUnpoison(s)
	if err != nil {
		vgSink++
	}
	vgSink += len(r) + len(s)
}

//go:noinline
func vgL2_SignHashed_d_and_k_tainted(priv, e, stream []byte) {
	utils.VgPoison(priv)
	r, s, err := SignHashed(&zvTaintedReader{data: stream, taint: true}, priv, e)
	utils.VgUnpoison(priv)
	utils.VgUnpoison(r)
	utils.VgUnpoison(s)
	if err != nil {
		vgSink++
	}
	vgSink += len(r) + len(s)
}

//go:noinline
func vgL2_DerivePublic_short_d_tainted(priv []byte) {
	utils.VgPoison(priv)
	x, y, err := DerivePublic(priv)
	utils.VgUnpoison(priv)
	utils.VgUnpoison(x)
	utils.VgUnpoison(y)
	if err != nil {
		vgSink++
	}
	vgSink += len(x)
}

//go:noinline
func vgL2_GenerateKey_sources_tainted(which int, stream []byte) {
	var priv, x, y []byte
	var err error
	switch which {
	case 0:
		priv, x, y, err = GenerateKey(&zvChunkTaintReader{zvTaintedReader{data: stream, taint: true}, 1})
	case 1:
		priv, x, y, err = GenerateKey(bufio.NewReaderSize(&zvTaintedReader{data: stream, taint: true}, 16))
	default:
		priv, x, y, err = GenerateKey(&zvByteTaintReader{zvTaintedReader{data: stream, taint: true}})
	}
	utils.VgUnpoison(priv)
	utils.VgUnpoison(x)
	utils.VgUnpoison(y)
	if err != nil {
		vgSink++
	}
	vgSink += len(x)
}

func TestVgC08SM2More(t *testing.T) {
	if !utils.VgRunning() {
		t.Skip("not under valgrind")
	}
	vgSink += utils.VgControls()
	d, k := vgKey(300), vgKey(301)
	taken := 0
	for _, rule := range []string{"r=0", "r+k=n", "s=0"} {
		e, _ := hex.DecodeString(vgLateDigests[rule])
		rd := &zvTaintedReader{data: append(append([]byte{}, k...), append(vgKey(302), vgKey(303)...)...), taint: true}
		vgL2_SignHashed_k_tainted_late_rejection(append([]byte{}, d...), e, rd)
		if rd.off >= 64 {
			taken++ // a second candidate was drawn: the first one was rejected late
		}
	}
	vgNote("scenario L2_SignHashed_k_tainted_late_rejection 3")
	vgNote("late_rejections_taken %d", taken)
	if taken != 3 {
		t.Fatalf("late rejection streams: only %d of 3 redrew", taken)
	}
	for which := 0; which < 4; which++ {
		vgL2_SignHashed_k_tainted_source_types(vgKey(310+which), vgBytes(320+which, 32), which, append(append(vgKey(330+which), vgKey(340+which)...), vgBytes(350, 64)...))
	}
	vgNote("scenario L2_SignHashed_k_tainted_source_types 4")
	vgL2_SignHashed_d_and_k_tainted(vgKey(360), vgBytes(361, 32), append(vgKey(362), vgKey(363)...))
	vgL2_SignHashed_d_and_k_tainted(vgKey(364)[3:], bytes.Repeat([]byte{0xff}, 32), append(append(bytes.Repeat([]byte{0xff}, 32), vgKey(365)...), vgKey(366)...))
	vgNote("scenario L2_SignHashed_d_and_k_tainted 2")
	for _, cut := range []int{1, 8, 31} {
		vgL2_DerivePublic_short_d_tainted(vgKey(370 + cut)[cut:])
	}
	vgNote("scenario L2_DerivePublic_short_d_tainted 3")
	for which := 0; which < 3; which++ {
		vgL2_GenerateKey_sources_tainted(which, append(append(append([]byte{}, nMinus1Bytes...), vgKey(380+which)...), vgBytes(390, 64)...))
	}
	vgNote("scenario L2_GenerateKey_sources_tainted 3")
}
