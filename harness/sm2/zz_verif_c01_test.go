//go:build verif

package sm2

import (
	"bytes"
	"fmt"
	"math/big"
	"strings"
	"testing"

	"github.com/bilibili/smgo/zzverif/hk"
	"github.com/bilibili/smgo/zzverif/ref"
)

// C01 — round-trip monitor: whatever a signing entry point returns must be
// accepted by the matching verification entry point under [d]G, and by the
// independent reference verifier; neither call may panic.

type c01case struct {
	entry  string // "hashed", "za", "id"
	d      *big.Int
	priv   []byte // encoding handed to the signer (may be shorter than 32 bytes)
	e      []byte // hashed
	za     []byte
	id     []byte
	msg    []byte
	stream []byte
	chunk  int
	label  string
}

func c01run(r *hk.Reporter, c *c01case) {
	pub := zvRefPub(c.d)
	px, py := ref.B32(pub.X), ref.B32(pub.Y)
	rd := zvNewScript(c.stream)
	rd.chunk = c.chunk
	var rr, ss []byte
	var err error
	detail := func() hk.D {
		return hk.D{"entry": c.entry, "priv": hk.Hex(c.priv), "e": zvHexOrNil(c.e), "za": zvHexOrNil(c.za), "id": zvHexOrNil(c.id), "msg": zvHexOrNil(c.msg),
			"stream": hk.Hex(c.stream[:zvMin(len(c.stream), rd.off+32)]), "chunk": c.chunk, "label": c.label, "r": zvHexOrNil(rr), "s": zvHexOrNil(ss)}
	}
	p, msg, _, _ := hk.Try(func() {
		switch c.entry {
		case "hashed":
			rr, ss, err = SignHashed(rd, c.priv, c.e)
		case "za":
			rr, ss, err = SignZa(rd, c.priv, c.za, c.msg)
		default:
			rr, ss, err = Sign(c.id, px, py, rd, c.priv, c.msg)
		}
	})
	if p {
		d := detail()
		d["panic"] = msg
		r.Violation("sign-panics:"+c.entry, d)
		return
	}
	if err != nil {
		if len(c.priv) < 32 {
			// a signer that refuses short encodings is within the statement
			r.Class("trivial:short-encoding-refused")
			return
		}
		d := detail()
		d["err"] = err.Error()
		r.Violation("sign-error-on-valid-input:"+c.entry, d)
		return
	}
	if len(rr) != 32 || len(ss) != 32 {
		r.Violation("signature-not-32-bytes:"+c.entry, detail())
		return
	}
	// the digest this signature is over, by the model
	var e []byte
	switch c.entry {
	case "hashed":
		e = c.e
	case "za":
		e = ref.SM2E(c.za, c.msg)
	default:
		za, _ := ref.SM2ZA(c.id, px, py)
		e = ref.SM2E(za, c.msg)
	}
	var ok bool
	p, msg, _, _ = hk.Try(func() {
		switch c.entry {
		case "hashed":
			ok, err = VerifyHashed(px, py, c.e, rr, ss)
		case "za":
			ok, err = VerifyZa(px, py, c.za, c.msg, rr, ss)
		default:
			ok, err = Verify(c.id, px, py, c.msg, rr, ss)
		}
	})
	rI, sI := ref.Int(rr), ref.Int(ss)
	t := ref.ModN(new(big.Int).Add(rI, sI))
	if p {
		d := detail()
		d["panic"] = msg
		d["t_leading_zero_bytes"] = zvLzClass(t)
		r.Violation("verify-panics:"+c.entry, d)
	} else if !ok || err != nil {
		d := detail()
		d["err"] = zvErrStr(err)
		r.Violation("own-signature-rejected:"+c.entry, d)
	}
	if !ref.SM2Verify(px, py, e, rr, ss) {
		r.Violation("signature-rejected-by-reference-verifier:"+c.entry, detail())
	}
	if strings.HasPrefix(c.label, "history:") {
		r.Eval(fmt.Sprintf("%s:related-key-history,keylen=%d", c.entry, len(c.priv)))
	} else if strings.HasPrefix(c.label, "rare-nonce-") {
		r.Eval(fmt.Sprintf("%s:%s,lz(r)=%d,consumed=%d", c.entry, c.label, zvLzClass(rI), rd.off))
	} else if strings.HasPrefix(c.label, "retry-after-") {
		r.Eval(fmt.Sprintf("%s:%s,consumed=%d", c.entry, c.label, rd.off))
	} else {
		r.Eval(fmt.Sprintf("%s:privlen=%d,lz(r)=%d,lz(s)=%d,lz(t)=%d", c.entry, len(c.priv), zvLzClass(rI), zvLzClass(sI), zvLzClass(t)))
	}
	r.Count(fmt.Sprintf("lz_r_%d", zvLzClass(rI)), 1)
	r.Count(fmt.Sprintf("lz_s_%d", zvLzClass(sI)), 1)
	r.Count(fmt.Sprintf("lz_t_%d", zvLzClass(t)), 1)
}

func zvMin(a, b int) int {
	if a < b {
		return a
	}
	return b
}

func TestVerifC01(t *testing.T) {
	r := hk.NewReporter("C01", "sm2-roundtrip")
	defer r.Close()
	if err := ref.SelfTestSM2(); err != nil {
		r.Inconclusive("oracle self-test: " + err.Error())
		return
	}
	seed := hk.Seed()
	rng := hk.NewRNG(seed, "c01")
	zvHostilePrelude(hk.NewRNG(hk.Seed(), "prelude"))

	keys := zvSpecialKeys()
	nRandKeys := hk.N(6, 40)
	for i := 0; i < nRandKeys; i++ {
		keys = append(keys, zvRandScalar(rng))
	}
	// keys whose d+1 (the value the signer inverts) has a carry-critical internal representation
	for _, v := range zvMontgomeryPatternScalars(rng, 40)[:10] {
		if d := new(big.Int).Sub(v, zvBi(1)); ref.ValidPriv(d) {
			keys = append(keys, d)
		}
	}
	// keys with short encodings
	for _, l := range []int{1, 2, 8, 16, 24, 31} {
		keys = append(keys, new(big.Int).SetBytes(append([]byte{1 + byte(rng.Intn(255))}, rng.Bytes(l-1)...)))
	}

	var cases []*c01case
	// (a) solved digests: r, s, t with every leading-zero-byte count and tiny values
	solvedKeys := keys[:hk.N(4, 14)]
	solvedKeys = append(solvedKeys, keys[len(keys)-2:]...)
	for ki, d := range solvedKeys {
		for _, kind := range []string{"r", "s", "t"} {
			var targets []*big.Int
			for z := 1; z <= 31; z++ {
				// value with exactly z leading zero bytes
				b := rng.Bytes(32 - z)
				b[0] |= 1
				targets = append(targets, new(big.Int).SetBytes(b))
			}
			targets = append(targets, zvBi(1), zvBi(2), zvBi(255), new(big.Int).Set(zvNm1))
			for _, tg := range targets {
				k := zvRandScalar(rng)
				e, ok := zvSolveDigest(d, k, kind, tg)
				if !ok {
					continue
				}
				priv := ref.B32(d)
				if ki%3 == 2 {
					priv = d.Bytes() // minimal (possibly short) encoding
				}
				cases = append(cases, &c01case{entry: "hashed", d: d, priv: priv, e: e, stream: append(ref.B32(k), rng.Bytes(64)...),
					chunk: []int{0, 1, 7}[len(cases)%3], label: fmt.Sprintf("solved-%s-%s", kind, tg.Text(16))})
			}
		}
	}
	// (a1) MANY signatures whose t = (r+s) mod n is tiny (digest solved), over random nonces: s, and with it the
	// windows the verifier's base half consumes while the key half is still empty, varies freely
	for i := 0; i < hk.N(400, 4000); i++ {
		d := keys[rng.Intn(len(keys))]
		k := zvRandScalar(rng)
		tg := zvBi(int64(1 + rng.Intn(1<<uint([]int{4, 8, 13, 16}[i%4]))))
		e, ok := zvSolveDigest(d, k, "t", tg)
		if !ok {
			continue
		}
		cases = append(cases, &c01case{entry: "hashed", d: d, priv: ref.B32(d), e: e, stream: append(ref.B32(k), rng.Bytes(64)...), chunk: 0, label: "solved-tiny-t"})
	}
	// (a2) nonce streams whose first in-range candidate is rejected LATE (r=0, r+k=n, s=0: needs a
	// digest solved from k1 and d) or early (k=0, k>=n), followed by an acceptable candidate: the
	// signature produced after the retry must still verify
	for ki, d := range solvedKeys {
		for _, rule := range []string{"r=0", "r+k=n", "s=0", "k=0", "k>=n"} {
			for rep := 0; rep < hk.N(2, 6); rep++ {
				k1 := zvRandScalar(rng)
				x1 := ref.BaseMulFast(k1).X
				e := rng.Bytes(32)
				first := ref.B32(k1)
				switch rule {
				case "r=0":
					e = ref.B32(ref.ModN(new(big.Int).Neg(x1)))
				case "r+k=n":
					e = ref.B32(ref.ModN(new(big.Int).Sub(new(big.Int).Sub(zvNI, k1), x1)))
				case "s=0":
					rT := ref.ModN(new(big.Int).Mul(k1, ref.InvN(d)))
					e = ref.B32(ref.ModN(new(big.Int).Sub(rT, x1)))
				case "k=0":
					first = make([]byte, 32)
				default:
					first = ref.B32(new(big.Int).Add(zvNI, zvBi(int64(rep))))
				}
				stream := append(append([]byte{}, first...), ref.B32(zvRandScalar(rng))...)
				stream = append(stream, rng.Bytes(64)...)
				cases = append(cases, &c01case{entry: "hashed", d: d, priv: ref.B32(d), e: e, stream: stream, chunk: []int{0, 1, 7}[(ki+rep)%3], label: "retry-after-" + rule})
			}
		}
	}
	// (a3) nonces from the rare-x1 fixture with digests at the boundaries where e + x1 crosses 2n / n:
	// signer and verifier both have to reduce e + x1 by the right multiple of n
	rare, rerr := zvRareNonceCases(rng)
	if rerr != nil {
		r.Inconclusive("rare-nonce fixture: " + rerr.Error())
		return
	}
	for i, rc := range rare {
		d := keys[(i*5)%len(keys)]
		stream := append(append(ref.B32(rc.k), ref.B32(zvRandScalar(rng))...), rng.Bytes(64)...)
		cases = append(cases, &c01case{entry: "hashed", d: d, priv: ref.B32(d), e: rc.e, stream: stream, chunk: []int{0, 1, 7}[i%3], label: rc.label})
	}
	// (b) random round trips through all three entry points
	nRand := hk.N(3000, 60000)
	for i := 0; i < nRand; i++ {
		d := keys[rng.Intn(len(keys))]
		priv := ref.B32(d)
		if rng.Intn(8) == 0 {
			priv = d.Bytes()
		}
		c := &c01case{d: d, priv: priv, stream: rng.Bytes(32 * 6), chunk: []int{0, 0, 1, 5, 31, 32, 33}[rng.Intn(7)], label: "random"}
		switch i % 3 {
		case 0:
			c.entry = "hashed"
			c.e = rng.Bytes(32)
			switch rng.Intn(10) {
			case 0:
				c.e = make([]byte, 32)
			case 1:
				c.e = ref.B32(new(big.Int).Sub(zvB256, zvBi(1)))
			}
		case 1:
			c.entry = "za"
			c.za = rng.Bytes(32)
			c.msg = rng.Bytes(rng.Intn(200))
		default:
			c.entry = "id"
			c.id = rng.Bytes(rng.Pick([]int{0, 1, 16, 16, 31, 32, 100}))
			c.msg = rng.Bytes(rng.Intn(200))
		}
		cases = append(cases, c)
	}
	r.Sample(hk.D{"entry": cases[0].entry, "priv": hk.Hex(cases[0].priv), "e": hk.Hex(cases[0].e), "label": cases[0].label})
	r.Sample(hk.D{"entry": cases[len(cases)-1].entry, "priv": hk.Hex(cases[len(cases)-1].priv), "label": "random"})
	hk.Parallel(len(cases), func(i int) {
		if hk.InShard(i) {
			c01run(r, cases[i])
		}
	})
	r.Note("cases", len(cases))

	// sequential HISTORIES with related keys: A, then a shorter encoding that is the TAIL of A (another
	// valid key), equal values in different encodings, keys sharing long prefixes; both orders; all three
	// entry points. Every signature must verify under the key it was made with.
	for h := 0; h < hk.N(30, 300); h++ {
		lr := hk.NewRNG(seed, zvCaseID("c01hist", h))
		a := ref.B32(zvRandScalar(lr))
		a[0] |= 1
		cut := 1 + lr.Intn(8)
		fam := [][]byte{a, a[cut:], a[1:], append([]byte{}, a...), append(make([]byte, cut), a[cut:]...)}
		b := append([]byte{}, a...)
		b[31] ^= 1
		fam = append(fam, b)
		order := []int{0, 1, 0, 2, 3, 4, 1, 5, 0, 1}
		if h%2 == 1 {
			order = []int{1, 0, 2, 0, 4, 3, 5, 1, 0}
		}
		for step, ki := range order {
			priv := fam[ki]
			d := new(big.Int).SetBytes(priv)
			if !ref.ValidPriv(d) {
				continue
			}
			c := &c01case{d: d, priv: priv, stream: lr.Bytes(32 * 4), label: fmt.Sprintf("history:step%d,keylen=%d", step, len(priv))}
			switch (h + step) % 3 {
			case 0:
				c.entry, c.e = "hashed", lr.Bytes(32)
			case 1:
				c.entry, c.za, c.msg = "za", lr.Bytes(32), lr.Bytes(20)
			default:
				c.entry, c.id, c.msg = "id", []byte("1234567812345678"), lr.Bytes(20)
			}
			c01run(r, c)
		}
	}
	// the caller REUSES its buffers (one array each for the private key, the public coordinates and the digest,
	// overwritten in place as the caller moves from key to key) and KEEPS the signatures it was given: each is
	// verified right away and again after everything else has run.
	{
		lr := hk.NewRNG(seed, "c01reuse")
		var pb, xb, yb, eb [32]byte
		type kept struct {
			ki      int
			e, r, s []byte
			r0, s0  []byte
		}
		var ds []*big.Int
		for i := 0; i < 4; i++ {
			ds = append(ds, zvRandScalar(lr))
		}
		var sigs []kept
		load := func(ki int, e []byte) {
			P := zvRefPub(ds[ki])
			copy(pb[:], ref.B32(ds[ki]))
			copy(xb[:], ref.B32(P.X))
			copy(yb[:], ref.B32(P.Y))
			copy(eb[:], e)
		}
		for step := 0; step < hk.N(160, 1600); step++ {
			ki := lr.Intn(len(ds))
			e := lr.Bytes(32)
			load(ki, e)
			rr, ss, err := SignHashed(lr, pb[:], eb[:])
			if err != nil {
				r.Violation("sign-error-on-valid-input:reused-buffers", hk.D{"priv": hk.Hex(pb[:]), "e": hk.Hex(e), "err": err.Error()})
				continue
			}
			ok, verr := VerifyHashed(xb[:], yb[:], eb[:], rr, ss)
			if !ok || verr != nil || !ref.SM2Verify(xb[:], yb[:], e, rr, ss) {
				r.Violation("own-signature-rejected:caller-reuses-its-buffers", hk.D{"priv": hk.Hex(pb[:]), "e": hk.Hex(e), "r": zvHexOrNil(rr), "s": zvHexOrNil(ss), "err": zvErrStr(verr), "step": step, "key_index": ki})
			}
			sigs = append(sigs, kept{ki, e, rr, ss, append([]byte{}, rr...), append([]byte{}, ss...)})
			// now and then: an EARLIER signature (other key, other digest) verified through the same buffers
			if step%3 == 2 {
				o := sigs[lr.Intn(len(sigs))]
				load(o.ki, o.e)
				ok, verr = VerifyHashed(xb[:], yb[:], eb[:], o.r, o.s)
				if !ok || verr != nil {
					r.Violation("own-signature-rejected:earlier-signature-verified-later-through-reused-buffers", hk.D{"e": hk.Hex(o.e), "r_now": zvHexOrNil(o.r), "r_returned": hk.Hex(o.r0), "s_now": zvHexOrNil(o.s), "s_returned": hk.Hex(o.s0), "err": zvErrStr(verr), "step": step, "key_index": o.ki})
				}
			}
			r.Eval("hashed:reused-buffers")
		}
		for i, o := range sigs {
			if !bytes.Equal(o.r, o.r0) || !bytes.Equal(o.s, o.s0) {
				r.Violation("signature-handed-out-earlier-changed-by-later-calls", hk.D{"call_number": i, "r_now": hk.Hex(o.r), "r_returned": hk.Hex(o.r0), "s_now": hk.Hex(o.s), "s_returned": hk.Hex(o.s0)})
				break
			}
		}
	}

}
