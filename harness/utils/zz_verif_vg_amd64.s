//go:build verif && valgrind

#include "textflag.h"
// func vgRequest(a0, a1, a2, a3, a4, a5 uintptr) (ret uintptr)
TEXT ·vgRequest(SB), NOSPLIT, $0-56
	LEAQ args+0(FP), AX
	XORL DX, DX
	ROLQ $3, DI; ROLQ $13, DI
	ROLQ $61, DI; ROLQ $51, DI
	XCHGQ BX, BX
	MOVQ DX, ret+48(FP)
	RET
