//go:build verif

package utils

import (
	"bytes"
	"fmt"
	"math/big"
	"testing"

	"github.com/bilibili/smgo/zzverif/hk"
)

// C20 — ConstantTimeCmp vs bytes.Compare; DecomposeNAF vs the definition of a
// width-w signed-window recoding.

func zvSign(x int) int {
	if x < 0 {
		return -1
	}
	if x > 0 {
		return 1
	}
	return 0
}

func TestVerifC20(t *testing.T) {
	r := hk.NewReporter("C20", "utils-helpers")
	defer r.Close()
	rng := hk.NewRNG(hk.Seed(), "c20")

	cmp := func(a, b []byte, l int, label string) {
		want := bytes.Compare(a[:l], b[:l])
		var got int
		p, msg, _, _ := hk.Try(func() { got = ConstantTimeCmp(a, b, l) })
		if p {
			r.Violation("cmp-panics:"+label, hk.D{"a": hk.Hex(a), "b": hk.Hex(b), "l": l, "panic": msg})
		} else if got != want {
			r.Violation("cmp-wrong:"+label, hk.D{"a": hk.Hex(a), "b": hk.Hex(b), "l": l, "got": got, "want": want})
		}
	}
	// all 65,536 one-byte pairs
	for a := 0; a < 256; a++ {
		for b := 0; b < 256; b++ {
			cmp([]byte{byte(a)}, []byte{byte(b)}, 1, "len1")
		}
	}
	r.EvalN("cmp:all-one-byte-pairs", 65536)
	// all pairs over a 3-symbol alphabet up to length 6
	alpha := []byte{0x00, 0x7f, 0xff}
	for l := 0; l <= hk.N(5, 6); l++ {
		total := 1
		for i := 0; i < l; i++ {
			total *= 3
		}
		mk := func(v int) []byte {
			b := make([]byte, l)
			for i := 0; i < l; i++ {
				b[i] = alpha[v%3]
				v /= 3
			}
			return b
		}
		for x := 0; x < total; x++ {
			for y := 0; y < total; y++ {
				a, b := mk(x), mk(y)
				if l == 0 {
					a, b = []byte{}, []byte{}
				}
				cmp(a, b, l, "alphabet3")
			}
		}
		r.EvalN(fmt.Sprintf("cmp:alphabet3,len=%d", l), total*total)
	}
	// long equal prefixes with a single differing byte at every position; extremes
	for l := 1; l <= 64; l++ {
		for pos := 0; pos < l; pos++ {
			a := rng.Bytes(l)
			b := append([]byte{}, a...)
			for _, delta := range []int{1, -1, 0x80, 0xff} {
				b[pos] = byte(int(a[pos]) + delta)
				// random bytes after the difference must not matter
				if pos+1 < l && delta == 1 {
					rng.Fill(b[pos+1:])
				}
				cmp(a, b, l, "single-diff")
				cmp(b, a, l, "single-diff")
			}
		}
		cmp(bytes.Repeat([]byte{0}, l), bytes.Repeat([]byte{0xff}, l), l, "extremes")
		cmp(bytes.Repeat([]byte{0xff}, l), bytes.Repeat([]byte{0}, l), l, "extremes")
		cmp(bytes.Repeat([]byte{0xff}, l), bytes.Repeat([]byte{0xff}, l), l, "extremes")
		// borrow chains: a = x..x 00, b = x..x 01 / a = 01 00..00, b = 00 ff..ff
		a := make([]byte, l)
		b := bytes.Repeat([]byte{0xff}, l)
		a[0], b[0] = 1, 0
		cmp(a, b, l, "borrow-chain")
		cmp(b, a, l, "borrow-chain")
		r.EvalN(fmt.Sprintf("cmp:structured,len=%d", l), l*8+5)
	}
	// ARGUMENT SHAPES: only the first l bytes count; the slices themselves may be longer, independently of
	// each other (a exact and b a longer buffer, or the reverse), and what follows the first l bytes may
	// be equal or different; spare capacity likewise. All 3 x 3 combinations of (exact, +1, +k) for every l.
	nShape := 0
	for l := 0; l <= 40; l++ {
		for _, ea := range []int{0, 1, 5 + l%7} {
			for _, eb := range []int{0, 1, 3 + l%11} {
				for rel := 0; rel < 4; rel++ {
					a := rng.Bytes(l + ea)
					b := rng.Bytes(l + eb)
					switch rel {
					case 0: // equal first l bytes, tails differ
						copy(b, a[:l])
					case 1: // equal first l bytes, b's tail larger / a's tail larger
						copy(b, a[:l])
						for i := l; i < len(a); i++ {
							a[i] = 0xff
						}
						for i := l; i < len(b); i++ {
							b[i] = 0
						}
					case 2: // differ in the last counted byte only
						copy(b, a[:l])
						if l > 0 {
							b[l-1] ^= 0x10
						}
					}
					// spare capacity beyond the length as well
					a2 := append(make([]byte, 0, len(a)+rel*3), a...)
					cmp(a2, b, l, fmt.Sprintf("shape:len(a)=l+%d,len(b)=l+%d", zvMin3(ea, 2), zvMin3(eb, 2)))
					nShape++
				}
			}
		}
	}
	r.EvalN("cmp:argument-shapes", nShape)
	// sparse differences: a and b agree everywhere except on a structured subset of byte positions
	// (one byte with all others equal; two bytes pulling in opposite directions; only the high or
	// only the low halves of 2/4/8/16-byte words aligned from either end; every k-th byte). An
	// implementation that accumulates differences in wider words and drops part of them is caught here.
	nSparse := 0
	for l := 1; l <= 64; l++ {
		base := rng.Bytes(l)
		// exactly one differing byte, everything else equal
		for pos := 0; pos < l; pos++ {
			for _, delta := range []int{1, 0x7f, 0x80, 0xff} {
				b := append([]byte{}, base...)
				b[pos] = byte(int(base[pos]) + delta)
				cmp(base, b, l, "one-byte-differs")
				cmp(b, base, l, "one-byte-differs")
				nSparse += 2
			}
		}
		// two differing bytes: the more significant one decides, the other pulls the opposite way
		for k := 0; k < 40 && l >= 2; k++ {
			i := rng.Intn(l - 1)
			j := i + 1 + rng.Intn(l-1-i)
			a := append([]byte{}, base...)
			b := append([]byte{}, base...)
			a[i], b[i] = 0x40, 0x41
			a[j], b[j] = 0xf0, 0x01
			cmp(a, b, l, "two-bytes-opposite")
			cmp(b, a, l, "two-bytes-opposite")
			nSparse += 2
		}
		// differences confined to one half of every w-byte word
		for _, w := range []int{2, 4, 8, 16} {
			for _, fromEnd := range []bool{false, true} {
				for _, high := range []bool{false, true} {
					for _, dir := range []int{1, -1} {
						a := append([]byte{}, base...)
						b := append([]byte{}, base...)
						touched := false
						for pos := 0; pos < l; pos++ {
							idx := pos
							if fromEnd {
								idx = l - 1 - pos
							}
							inWord := idx % w
							isHigh := inWord < w/2
							if fromEnd {
								isHigh = inWord >= w/2 // counting from the least significant end
							}
							if isHigh == high && rng.Intn(3) != 0 {
								a[pos] = byte(0x80 + dir*(1+rng.Intn(0x7f)))
								b[pos] = 0x80
								touched = true
							}
						}
						if touched {
							cmp(a, b, l, "half-word-differences")
							cmp(b, a, l, "half-word-differences")
							nSparse += 2
						}
					}
				}
			}
		}
		// every k-th byte differs
		for _, k := range []int{2, 3, 4, 5, 8} {
			for off := 0; off < k && off < l; off++ {
				a := append([]byte{}, base...)
				b := append([]byte{}, base...)
				for pos := off; pos < l; pos += k {
					a[pos] = byte(rng.Intn(256))
					b[pos] = byte(rng.Intn(256))
				}
				cmp(a, b, l, "every-kth-byte")
				nSparse++
			}
		}
	}
	r.EvalN("cmp:sparse-differences", nSparse)
	// l < len: only the first l bytes count
	for i := 0; i < hk.N(20000, 200000); i++ {
		la := 1 + rng.Intn(64)
		a, b := rng.Bytes(la), rng.Bytes(la)
		k := rng.Intn(la + 1)
		copy(b, a[:k])
		l := rng.Intn(la + 1)
		cmp(a, b, l, "prefix-l")
	}
	r.EvalN("cmp:random-l<len", hk.N(20000, 200000))
	// l beyond an integer width: 2^31+1 bytes (2^32+1 in the thorough tier). Both operands are windows of one
	// untouched zero mapping; a single byte is written to make them differ at the last / first counted byte.
	{
		ls := []int{1<<31 + 1}
		if hk.Thorough() {
			ls = append(ls, 1<<32+1, 1<<32+1<<31+3)
		}
		for _, l := range ls {
			z := hk.ZeroMap(l+4096+64, true)
			if z == nil {
				r.Inconclusive("c20: cannot map the giant operands")
				break
			}
			a, b := z[0:l], z[4096:4096+l]
			for _, pos := range []int{l - 1, 0} {
				if pos == 0 && !hk.Thorough() && l > 1<<31+1 {
					continue
				}
				z[4096+pos] = 1 // b[pos] = 1, a stays zero there (for pos < l-4096 the byte also belongs to a's tail region, beyond... see below)
				want := -1
				// a[pos+4096] aliases b[pos]; it lies inside a only if pos+4096 < l, and then at a LATER index than pos, so b > a is decided at pos
				var got int
				p, msg, _, _ := hk.Try(func() { got = ConstantTimeCmp(a, b, l) })
				if p {
					r.Violation("cmp-panics:giant-l", hk.D{"l": l, "differ_at": pos, "panic": msg})
				} else if got != want {
					r.Violation("cmp-wrong:giant-l", hk.D{"l": l, "differ_at": pos, "got": got, "want": want})
				}
				p, msg, _, _ = hk.Try(func() { got = ConstantTimeCmp(b, a, l) })
				if p || got != 1 {
					r.Violation("cmp-wrong:giant-l", hk.D{"l": l, "differ_at": pos, "swapped": true, "got": got, "want": 1, "panic": msg})
				}
				z[4096+pos] = 0
				r.Eval(fmt.Sprintf("cmp:giant-l=2^%d+,differ-at-%s", zvBitlen(l)-1, map[bool]string{true: "start", false: "end"}[pos == 0]))
			}
			hk.Unmap(z)
		}
	}
	// ---- the SAME two buffers compared again and again with new contents written into them in between (a loop that
	//      reads candidates into one array and compares each with a bound): every answer is for the current contents
	{
		lr := hk.NewRNG(hk.Seed(), "c20reuse")
		consts := [][]byte{bytes.Repeat([]byte{0xff}, 40), make([]byte, 40), lr.Bytes(40), lr.Bytes(40)}
		for _, l := range []int{32, 16, 33, 8, 40} {
			abuf, bbuf := make([]byte, l), make([]byte, l)
			for step := 0; step < hk.N(200, 2000); step++ {
				switch lr.Intn(4) {
				case 0:
					copy(bbuf, consts[lr.Intn(len(consts))])
				case 1:
					copy(abuf, consts[lr.Intn(len(consts))])
				case 2:
					bbuf[lr.Intn(l)] ^= byte(1 << uint(lr.Intn(8)))
				default:
					copy(abuf, bbuf)
					if lr.Intn(2) == 0 {
						abuf[lr.Intn(l)]++
					}
				}
				want := bytes.Compare(abuf, bbuf)
				// runs of calls with the arguments in the same places (the same array on the right again and again), then runs
				// the other way round, then both ways in turn
				phase := (step / 12) % 3
				if phase != 1 {
					if got := ConstantTimeCmp(abuf, bbuf, l); got != want {
						r.Violation("cmp-wrong:buffers-reused-with-new-contents", hk.D{"a": hk.Hex(abuf), "b": hk.Hex(bbuf), "l": l, "got": got, "want": want, "step": step})
						break
					}
				}
				if phase == 0 {
					continue
				}
				if got := ConstantTimeCmp(bbuf, abuf, l); got != -want {
					r.Violation("cmp-wrong:buffers-reused-with-new-contents", hk.D{"a": hk.Hex(bbuf), "b": hk.Hex(abuf), "l": l, "got": got, "want": -want, "step": step, "swapped": true})
					break
				}
			}
			r.EvalN(fmt.Sprintf("cmp:buffers-reused,l=%d", l), hk.N(200, 2000))
		}
	}
	r.Sample(hk.D{"kind": "ConstantTimeCmp", "a": "01" + "00", "b": "00ff", "l": 2})

	// ---- DecomposeNAF(out, s, 257, w)
	var inputs [][]byte
	one := big.NewInt(1)
	b32 := func(v *big.Int) []byte {
		b := v.Bytes()
		o := make([]byte, 32)
		copy(o[32-len(b):], b)
		return o
	}
	for k := 0; k < 256; k++ {
		inputs = append(inputs, b32(new(big.Int).Lsh(one, uint(k))))                                               // single bit
		inputs = append(inputs, b32(new(big.Int).Sub(new(big.Int).Lsh(one, uint(k+1)), one)))                      // 2^k-1
		inputs = append(inputs, b32(new(big.Int).Sub(new(big.Int).Lsh(one, 256), new(big.Int).Lsh(one, uint(k))))) // 2^256-2^k
	}
	for _, pat := range []byte{0x00, 0xff, 0xaa, 0x55, 0x33, 0xcc, 0x0f, 0xf0, 0x77, 0xee, 0x01, 0x80, 0x7f, 0xfe} {
		inputs = append(inputs, bytes.Repeat([]byte{pat}, 32))
		for cut := 1; cut < 32; cut += 5 {
			b := bytes.Repeat([]byte{pat}, 32)
			for i := 0; i < cut; i++ {
				b[i] = 0
			}
			inputs = append(inputs, b)
		}
	}
	nn, _ := new(big.Int).SetString("FFFFFFFEFFFFFFFFFFFFFFFFFFFFFFFF7203DF6B21C6052B53BBF40939D54123", 16)
	pp, _ := new(big.Int).SetString("FFFFFFFEFFFFFFFFFFFFFFFFFFFFFFFFFFFFFFFF00000000FFFFFFFFFFFFFFFF", 16)
	inputs = append(inputs, b32(nn), b32(pp), b32(new(big.Int).Sub(nn, one)))
	// carries across byte boundaries: runs of ones ending/starting at every bit offset
	for start := 0; start < 256; start += 3 {
		for ln := 1; ln <= 24; ln += 3 {
			v := new(big.Int).Sub(new(big.Int).Lsh(one, uint(ln)), one)
			v.Lsh(v, uint(start))
			v.Mod(v, new(big.Int).Lsh(one, 256))
			inputs = append(inputs, b32(v))
		}
	}
	nRand := hk.N(4000, 50000)
	for i := 0; i < nRand; i++ {
		b := rng.Bytes(32)
		if i%4 == 0 { // sparse / dense
			for j := range b {
				if i%8 == 0 {
					b[j] &= rng.Bytes(1)[0]
				} else {
					b[j] |= rng.Bytes(1)[0]
				}
			}
		}
		inputs = append(inputs, b)
	}
	r.Sample(hk.D{"kind": "DecomposeNAF", "s": hk.Hex(inputs[5]), "w": 4})
	// ---- the digit buffer is a LOCAL ARRAY of the caller (on its stack), and the call runs from fresh goroutines at every
	//      stack depth of a sweep: wherever the stack moves to during the call, the digits must arrive in the array.
	//      Expected digits: the same call with a heap buffer (judged against the definition below).
	{
		type nc struct {
			s    []byte
			w    int
			want []int
		}
		var ncs []nc
		for i := 0; i < 14; i++ {
			c := nc{s: inputs[(i*7+3)%len(inputs)], w: 1 + i%7, want: make([]int, 257)}
			if p, _, _, _ := hk.Try(func() { DecomposeNAF(c.want, c.s, 257, c.w) }); !p {
				ncs = append(ncs, c)
			}
		}
		// the recoding is a pure function: calls from many goroutines at once, each with its own buffers and its own
		// window width, give what they give alone (a lookup table rebuilt per width, a scratch array shared by all calls)
		if len(ncs) > 0 {
			nOps := hk.N(400000, 2000000)
			hk.Parallel(nOps, func(i int) {
				c := ncs[(i*5+i/7)%len(ncs)]
				out := make([]int, 257)
				p, msg, _, _ := hk.Try(func() { DecomposeNAF(out, c.s, 257, c.w) })
				bad := -1
				for k := range out {
					if out[k] != c.want[k] {
						bad = k
						break
					}
				}
				if p || bad >= 0 {
					r.Violation("naf-wrong-when-called-from-many-goroutines-with-different-widths", hk.D{"s": hk.Hex(c.s), "w": c.w, "first_wrong_digit": bad, "panic": msg})
				}
			})
			r.EvalN("naf:concurrent-calls-with-different-widths", nOps)
		}
		if len(ncs) > 0 {
			hk.AtStackDepths(hk.N(700, 3000), 96<<10, 8, func(depth int) {
				c := ncs[depth%len(ncs)]
				var out [257]int
				DecomposeNAF(out[:], c.s, 257, c.w)
				bad := -1
				for i := range out {
					if out[i] != c.want[i] {
						bad = i
						break
					}
				}
				if bad >= 0 {
					r.Violation("naf-digits-missing-when-the-buffer-is-on-a-stack-that-moves", hk.D{"stack_depth_frames": depth, "s": hk.Hex(c.s), "w": c.w, "first_wrong_digit": bad, "got": fmt.Sprint(append([]int(nil), out[:]...)[bad]), "want": c.want[bad]})
				}
			})
			r.EvalN("naf:stack-depth-sweep", hk.N(700, 3000))
		}
	}
	for w := 1; w <= 7; w++ {
		ww := w
		hk.Parallel(len(inputs), func(i int) {
			s := inputs[i]
			// the digit buffer may be longer than n: the extra slots are not part of the recoding
			extra := []int{0, 0, 1, 3, 43}[i%5]
			full := make([]int, 257+extra)
			out := full[:257]
			// every seventh input lies in READ-ONLY memory (a constant, a key in a protected page): the recoding reads its
			// input, it does not write to it - not even to put it back afterwards (another goroutine may be reading it)
			var ro *hk.GBuf
			if i%7 == ww%7 {
				ro = hk.NewGuarded(len(s), []int{hk.PlaceEnd, hk.PlaceStart}[i%2])
				copy(ro.B, s)
				ro.ReadOnly()
				s = ro.B
			}
			p, msg, isFault, _ := hk.Try(func() { DecomposeNAF(full, s, 257, ww) })
			if ro != nil {
				s = inputs[i]
				if p && isFault {
					r.Violation(fmt.Sprintf("naf-writes-to-its-input:w=%d", ww), hk.D{"s": hk.Hex(s), "w": ww, "panic": msg})
				}
				ro.Writable()
				ro.Free()
				if p {
					return
				}
			}
			for _, v := range full[257:] {
				if v != 0 && !p {
					r.Violation(fmt.Sprintf("naf-writes-beyond-n-digits:w=%d", ww), hk.D{"s": hk.Hex(s), "w": ww, "buffer_len": len(full)})
					break
				}
			}
			if p {
				r.Violation(fmt.Sprintf("naf-panics:w=%d", ww), hk.D{"s": hk.Hex(s), "w": ww, "panic": msg})
				return
			}
			sum := new(big.Int)
			bad := ""
			lastNZ := -1000
			for idx := 256; idx >= 0; idx-- {
				d := out[idx]
				sum.Lsh(sum, 1)
				sum.Add(sum, big.NewInt(int64(d)))
			}
			for idx := 0; idx <= 256; idx++ {
				d := out[idx]
				if d == 0 {
					continue
				}
				if d%2 == 0 {
					bad = "even-nonzero-digit"
				}
				if d >= 1<<uint(ww) || d <= -(1<<uint(ww)) {
					bad = "digit-out-of-range"
				}
				if idx-lastNZ <= ww {
					bad = "nonzero-digits-too-close"
				}
				lastNZ = idx
			}
			if sum.Cmp(new(big.Int).SetBytes(s)) != 0 {
				bad = "weighted-sum-differs"
			}
			if bad != "" {
				r.Violation(fmt.Sprintf("naf-%s:w=%d", bad, ww), hk.D{"s": hk.Hex(s), "w": ww, "digits": fmt.Sprint(out)})
			}
		})
		r.EvalN(fmt.Sprintf("naf:w=%d", w), len(inputs))
	}

	// the same integers in OTHER CONTAINERS: n = 8*len(s)+1 for scalars of 1..64 bytes - a 256-bit integer with
	// leading zero bytes (33..64 bytes, the DER-style 0x00 || x), shorter integers, and full-width longer ones.
	// A recoding that refuses a length (panic) is within the statement; one that silently returns digits
	// whose weighted sum is not the integer is not.
	nOther := 0
	for _, l := range []int{1, 2, 5, 16, 31, 33, 34, 40, 48, 63, 64} {
		for w := 1; w <= 7; w++ {
			for rep := 0; rep < hk.N(30, 300); rep++ {
				sb := make([]byte, l)
				switch {
				case l > 32 && rep%3 != 2:
					copy(sb[l-32:], inputs[rng.Intn(len(inputs))]) // a 256-bit integer behind leading zero bytes
				default:
					rng.Fill(sb)
					if rep%5 == 0 {
						sb[l-1] |= 1
						sb[0] |= 0x80
					}
				}
				n := 8*l + 1
				out := make([]int, n)
				p, _, _, _ := hk.Try(func() { DecomposeNAF(out, sb, n, w) })
				if p {
					r.Class("trivial:naf-length-refused")
					continue
				}
				sum := new(big.Int)
				bad := ""
				lastNZ := -1000
				for idx := n - 1; idx >= 0; idx-- {
					sum.Lsh(sum, 1)
					sum.Add(sum, big.NewInt(int64(out[idx])))
				}
				for idx := 0; idx < n; idx++ {
					d := out[idx]
					if d == 0 {
						continue
					}
					if d%2 == 0 {
						bad = "even-nonzero-digit"
					}
					if d >= 1<<uint(w) || d <= -(1<<uint(w)) {
						bad = "digit-out-of-range"
					}
					if idx-lastNZ <= w {
						bad = "nonzero-digits-too-close"
					}
					lastNZ = idx
				}
				if sum.Cmp(new(big.Int).SetBytes(sb)) != 0 {
					bad = "weighted-sum-differs"
				}
				if bad != "" {
					r.Violation(fmt.Sprintf("naf-%s:other-container:w=%d", bad, w), hk.D{"s": hk.Hex(sb), "n": n, "w": w})
				}
				nOther++
			}
		}
	}
	r.EvalN("naf:other-containers", nOther)
}

func zvMin3(a, b int) int {
	if a < b {
		return a
	}
	return b
}

func zvBitlen(v int) int {
	n := 0
	for ; v > 0; v >>= 1 {
		n++
	}
	return n
}
