//go:build verif

package utils

import (
	"fmt"
	"testing"

	"github.com/bilibili/smgo/zzverif/hk"
)

// C11 (utils) — ConstantTimeCmp(a, b, l) may touch a[:l] and b[:l] only: both operands end on the last
// accessible byte of their mapping (capacity reaching over the PROT_NONE page) or start on the first.
func TestVerifC11Utils(t *testing.T) {
	r := hk.NewReporter("C11", "utils-memory")
	defer r.Close()
	rng := hk.NewRNG(hk.Seed(), "c11utils")
	pool := hk.NewPool()
	for l := 0; l <= 130; l++ {
		for _, place := range []int{hk.PlaceEnd, hk.PlaceStart} {
			for _, extra := range []int{0, 1, 7} { // slices longer than l: only the first l bytes count
				if place == hk.PlaceEnd && extra != 0 {
					continue
				}
				ga, gb := pool.Get(l+extra, place), pool.Get(l+extra, place)
				rng.Fill(ga.B)
				copy(gb.B, ga.B)
				want := 0
				if l > 0 && rng.Intn(2) == 0 {
					i := rng.Intn(l)
					gb.B[i] ^= 1 << uint(rng.Intn(8))
					if ga.B[i] > gb.B[i] {
						want = 1
					} else {
						want = -1
					}
				}
				var got int
				p, pm, isFault, addr := hk.Try(func() { got = ConstantTimeCmp(ga.OverCap(), gb.OverCap(), l) })
				det := hk.D{"l": l, "slice_len": l + extra, "placement": place, "got": got, "want": want}
				switch {
				case p && isFault:
					det["fault_address"], det["panic"] = fmt.Sprintf("%#x", addr), pm
					r.Violation("constanttimecmp-access-outside-operands", det)
				case p:
					det["panic"] = pm
					r.Violation("constanttimecmp-panics", det)
				case got != want:
					r.Violation("constanttimecmp-wrong-on-guarded-operands", det)
				}
				pool.Put(ga)
				pool.Put(gb)
				r.Eval(fmt.Sprintf("cmp:l%%8=%d,place=%d,extra=%d", l%8, place, extra))
			}
		}
	}
}
