//go:build verif && valgrind

package utils

import "unsafe"

// Valgrind client requests (memcheck): mark memory undefined / defined. Used
// by the C08 taint monitor: a secret is marked *undefined*, after which
// memcheck reports every conditional jump and every address computation that
// depends on it. Built only with -tags verif,valgrind.

func vgRequest(a0, a1, a2, a3, a4, a5 uintptr) (ret uintptr)

// VgRunning reports whether the process runs under Valgrind.
func VgRunning() bool { return vgRequest(0x1001, 0, 0, 0, 0, 0) != 0 }

// VgPoison marks b undefined (VALGRIND_MAKE_MEM_UNDEFINED).
func VgPoison(b []byte) {
	if len(b) > 0 {
		vgRequest(0x4d430001, uintptr(unsafe.Pointer(&b[0])), uintptr(len(b)), 0, 0, 0)
	}
}

// VgUnpoison marks b defined (VALGRIND_MAKE_MEM_DEFINED).
func VgUnpoison(b []byte) {
	if len(b) > 0 {
		vgRequest(0x4d430002, uintptr(unsafe.Pointer(&b[0])), uintptr(len(b)), 0, 0, 0)
	}
}

func VgPoisonPtr(p unsafe.Pointer, n uintptr)   { vgRequest(0x4d430001, uintptr(p), n, 0, 0, 0) }
func VgUnpoisonPtr(p unsafe.Pointer, n uintptr) { vgRequest(0x4d430002, uintptr(p), n, 0, 0, 0) }

var vgTable [256]byte

func init() {
	for i := range vgTable {
		vgTable[i] = byte(i*7 + 1)
	}
}

// Positive controls: a secret-dependent branch and a secret-dependent table
// index. The monitor requires memcheck to report both in every process;
// otherwise the run is inconclusive.

//go:noinline
func VgGadgetBranch(b []byte) int {
	if b[0]&1 == 1 {
		return 1
	}
	return 2
}

//go:noinline
func VgGadgetIndex(b []byte) byte {
	return vgTable[b[0]]
}

// VgControls runs both gadgets on a poisoned byte.
//
//go:noinline
func VgControls() int {
	s := []byte{0x5a, 0x11}
	VgPoison(s)
	r := VgGadgetBranch(s) + int(VgGadgetIndex(s[1:]))
	VgUnpoisonPtr(unsafe.Pointer(&r), unsafe.Sizeof(r))
	VgUnpoison(s)
	return r
}
