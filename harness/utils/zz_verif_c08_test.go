//go:build verif && valgrind

package utils

import (
	"fmt"
	"os"
	"testing"
)

// C08 / utils — ConstantTimeCmp on tainted operands under memcheck.
// Each scenario runs inside a function whose name starts with vgS_ so that the
// offline monitor can attribute reports to scenarios from the stack.

var vgSink int

func vgNote(format string, a ...interface{}) {
	if p := os.Getenv("VERIF_VG_NOTES"); p != "" {
		f, err := os.OpenFile(p, os.O_CREATE|os.O_WRONLY|os.O_APPEND, 0o644)
		if err == nil {
			fmt.Fprintf(f, format+"\n", a...)
			f.Close()
		}
	}
}

//go:noinline
func vgS_ConstantTimeCmp_a_tainted(a, b []byte, l int) int {
	VgPoison(a)
	r := ConstantTimeCmp(a, b, l)
	VgUnpoison(a)
	return r
}

//go:noinline
func vgS_ConstantTimeCmp_both_tainted(a, b []byte, l int) int {
	VgPoison(a)
	VgPoison(b)
	r := ConstantTimeCmp(a, b, l)
	VgUnpoison(a)
	VgUnpoison(b)
	return r
}

func TestVgC08Utils(t *testing.T) {
	if !VgRunning() {
		t.Skip("not under valgrind")
	}
	vgSink += VgControls()
	n := 0
	for l := 0; l <= 64; l++ {
		for variant := 0; variant < 4; variant++ {
			a := make([]byte, l+1)
			b := make([]byte, l+1)
			for i := range a {
				a[i] = byte(37*i + l)
				b[i] = a[i]
			}
			switch variant {
			case 1: // differ in the first byte
				b[0] ^= 0x80
			case 2: // differ in the last compared byte
				if l > 0 {
					b[l-1] ^= 1
				}
			case 3:
				for i := range a {
					a[i], b[i] = 0, 0xff
				}
			}
			vgSink += vgS_ConstantTimeCmp_a_tainted(a, b, l)
			vgSink += vgS_ConstantTimeCmp_both_tainted(a, b, l)
			n += 2
		}
	}
	vgNote("scenario ConstantTimeCmp_a_tainted %d", n/2)
	vgNote("scenario ConstantTimeCmp_both_tainted %d", n/2)
}
