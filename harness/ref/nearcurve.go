package ref

import (
	"fmt"
	"math/big"
)

// NearPoint is a point that is NOT on the curve, chosen so that the two sides of the curve equation
// y^2 = x^3 + ax + b differ in one 64-bit limb (or one byte) only, in the plain or in the Montgomery
// (times 2^256 mod p) representation. A curve test that skips, truncates or mis-weights part of its
// comparison accepts some of them; nothing else reaches such a test, the defect of a random off-curve
// point being uniformly spread.
type NearPoint struct {
	X, Y  *big.Int
	Class string
}

// NearCurvePoints builds perClass points of every class from the byte source next (deterministic in it).
func NearCurvePoints(next func(n int) []byte, perClass int) []NearPoint {
	R := new(big.Int).Lsh(big1, 256)
	Rinv := new(big.Int).ModInverse(R, SM2P)
	rhsOf := func(x *big.Int) *big.Int {
		r := new(big.Int).Mul(x, x)
		r.Mul(r, x)
		r.Add(r, new(big.Int).Mul(SM2A, x))
		r.Add(r, SM2B)
		return r.Mod(r, SM2P)
	}
	var out []NearPoint
	// unit = 64 (limbs) or 8 (bytes); mont = compare in the Montgomery representation
	gen := func(unit uint, idx int, mont bool) {
		for made, tries := 0, 0; made < perClass && tries < 400; tries++ {
			x := new(big.Int).SetBytes(next(32))
			x.Mod(x, SM2P)
			m := rhsOf(x)
			if mont {
				m.Mul(m, R).Mod(m, SM2P)
			}
			// replace one unit of m by another value
			mask := new(big.Int).Lsh(new(big.Int).Sub(new(big.Int).Lsh(big1, unit), big1), unit*uint(idx))
			repl := new(big.Int).Lsh(new(big.Int).SetBytes(next(int(unit/8))), unit*uint(idx))
			m2 := new(big.Int).AndNot(m, mask)
			m2.Or(m2, repl)
			if m2.Cmp(m) == 0 || m2.Cmp(SM2P) >= 0 {
				continue
			}
			v := m2
			if mont {
				v = new(big.Int).Mul(m2, Rinv)
				v.Mod(v, SM2P)
			}
			y := SqrtP(v)
			if y == nil || OnCurve(x, y) {
				continue
			}
			rep := "plain"
			if mont {
				rep = "montgomery"
			}
			kind := "limb"
			if unit == 8 {
				kind = "byte"
			}
			out = append(out, NearPoint{x, y, fmt.Sprintf("curve-equation-defect-in-%s-%s-%d-only", rep, kind, idx)})
			made++
		}
	}
	for _, mont := range []bool{true, false} {
		for limb := 0; limb < 4; limb++ {
			gen(64, limb, mont)
		}
		for _, b := range []int{0, 1, 7, 8, 15, 16, 24, 30, 31} {
			gen(8, b, mont)
		}
	}
	return out
}
