package ref

import (
	"fmt"
	"math/big"
)

// NearPoint is a point that is NOT on the curve, chosen so that the two sides of the curve equation
// y^2 = x^3 + ax + b differ in one 64-bit limb (or one byte) only, in the plain or in the Montgomery
// (times 2^256 mod p) representation. A curve test that skips, truncates or mis-weights part of its
// comparison accepts some of them; nothing else reaches such a test, the defect of a random off-curve
// point being uniformly spread.
type NearPoint struct {
	X, Y  *big.Int
	Class string
}

// NearCurvePoints builds perClass points of every class from the byte source next (deterministic in it).
func NearCurvePoints(next func(n int) []byte, perClass int) []NearPoint {
	R := new(big.Int).Lsh(big1, 256)
	Rinv := new(big.Int).ModInverse(R, SM2P)
	rhsOf := func(x *big.Int) *big.Int {
		r := new(big.Int).Mul(x, x)
		r.Mul(r, x)
		r.Add(r, new(big.Int).Mul(SM2A, x))
		r.Add(r, SM2B)
		return r.Mod(r, SM2P)
	}
	var out []NearPoint
	// unit = 64 (limbs) or 8 (bytes); mont = compare in the Montgomery representation
	gen := func(unit uint, idx int, mont bool) {
		for made, tries := 0, 0; made < perClass && tries < 400; tries++ {
			x := new(big.Int).SetBytes(next(32))
			x.Mod(x, SM2P)
			m := rhsOf(x)
			if mont {
				m.Mul(m, R).Mod(m, SM2P)
			}
			// replace one unit of m by another value
			mask := new(big.Int).Lsh(new(big.Int).Sub(new(big.Int).Lsh(big1, unit), big1), unit*uint(idx))
			repl := new(big.Int).Lsh(new(big.Int).SetBytes(next(int(unit/8))), unit*uint(idx))
			m2 := new(big.Int).AndNot(m, mask)
			m2.Or(m2, repl)
			if m2.Cmp(m) == 0 || m2.Cmp(SM2P) >= 0 {
				continue
			}
			v := m2
			if mont {
				v = new(big.Int).Mul(m2, Rinv)
				v.Mod(v, SM2P)
			}
			y := SqrtP(v)
			if y == nil || OnCurve(x, y) {
				continue
			}
			rep := "plain"
			if mont {
				rep = "montgomery"
			}
			kind := "limb"
			if unit == 8 {
				kind = "byte"
			}
			out = append(out, NearPoint{x, y, fmt.Sprintf("curve-equation-defect-in-%s-%s-%d-only", rep, kind, idx)})
			made++
		}
	}
	// the SAME XOR difference in two limbs (an accumulator that adds or XORs the limb differences instead of OR-ing
	// them sees them cancel: 2^63 + 2^63 = 0 mod 2^64, d ^ d = 0)
	gen2 := func(i, j int, mont bool, d uint64) {
		for made, tries := 0, 0; made < perClass && tries < 400; tries++ {
			x := new(big.Int).SetBytes(next(32))
			x.Mod(x, SM2P)
			m := rhsOf(x)
			if mont {
				m.Mul(m, R).Mod(m, SM2P)
			}
			dd := d
			if dd == 0 {
				dd = new(big.Int).SetBytes(next(8)).Uint64() | 1
			}
			mask := new(big.Int).Lsh(new(big.Int).SetUint64(dd), uint(64*i))
			mask.Or(mask, new(big.Int).Lsh(new(big.Int).SetUint64(dd), uint(64*j)))
			m2 := new(big.Int).Xor(m, mask)
			if m2.Cmp(SM2P) >= 0 {
				continue
			}
			v := m2
			if mont {
				v = new(big.Int).Mul(m2, Rinv)
				v.Mod(v, SM2P)
			}
			y := SqrtP(v)
			if y == nil || OnCurve(x, y) {
				continue
			}
			rep := "plain"
			if mont {
				rep = "montgomery"
			}
			kind := "random-difference"
			if d == 1<<63 {
				kind = "bit-63"
			}
			out = append(out, NearPoint{x, y, fmt.Sprintf("curve-equation-defect-%s-equal-in-%s-limbs-%d-and-%d", kind, rep, i, j)})
			made++
		}
	}
	for _, mont := range []bool{true, false} {
		for _, pr := range [][2]int{{0, 1}, {0, 3}, {1, 2}, {2, 3}} {
			gen2(pr[0], pr[1], mont, 1<<63)
			gen2(pr[0], pr[1], mont, 0)
		}
	}
	for _, mont := range []bool{true, false} {
		for limb := 0; limb < 4; limb++ {
			gen(64, limb, mont)
		}
		for _, b := range []int{0, 1, 7, 8, 15, 16, 24, 30, 31} {
			gen(8, b, mont)
		}
	}
	return out
}

// Alias is a NON-canonical encoding of a curve point: a coordinate written as value + p (it still fits 32 bytes).
// Decoders must refuse it. The classes are chosen so that the distance from the bound has a sparse pattern (a range
// check done word-wise with a narrowed accumulator sees "equal"): x0 + p with x0 + 1 = k*2^32, 2^j, sums of 2^(64i+32);
// and y + p for the tiny-y points of the fixture.
type Alias struct {
	X, Y  []byte // 32-byte encodings as handed to the library
	P     Pt     // the point the alias would stand for
	Class string
}

func SparseAliases() ([]Alias, error) {
	var out []Alias
	var deltas []*big.Int
	var names []string
	add := func(d *big.Int, n string) { deltas, names = append(deltas, d), append(names, n) }
	for k := int64(1); k <= 24; k++ {
		add(new(big.Int).Lsh(big.NewInt(k), 32), "k*2^32")
		add(new(big.Int).Lsh(big.NewInt(k), 16), "k*2^16")
		add(new(big.Int).Lsh(big.NewInt(k), 48), "k*2^48")
	}
	for j := uint(1); j < 223; j += 3 {
		add(new(big.Int).Lsh(big1, j), "2^j")
	}
	s := new(big.Int)
	for i := uint(0); i < 3; i++ {
		s = new(big.Int).Add(s, new(big.Int).Lsh(big1, 64*i+32))
		add(new(big.Int).Set(s), "sum-of-2^(64i+32)")
		add(new(big.Int).Lsh(big1, 64*i+63), "2^(64i+63)")
	}
	lim := new(big.Int).Sub(new(big.Int).Lsh(big1, 256), SM2P)
	for i, d := range deltas {
		x0 := new(big.Int).Sub(d, big1)
		if x0.Cmp(lim) >= 0 {
			continue
		}
		if p, ok := LiftX(x0); ok {
			out = append(out, Alias{B32(new(big.Int).Add(x0, SM2P)), B32(p.Y), p, "x+p:x+1=" + names[i]})
		}
	}
	pts, cls, err := SpecialPoints()
	if err != nil {
		return nil, err
	}
	for i, p := range pts {
		if cls[i] == "y-tiny" && p.Y.Cmp(lim) < 0 {
			out = append(out, Alias{B32(p.X), B32(new(big.Int).Add(p.Y, SM2P)), p, "y+p:y-tiny"})
		}
		if cls[i] == "x-tiny" && p.X.Cmp(lim) < 0 {
			out = append(out, Alias{B32(new(big.Int).Add(p.X, SM2P)), B32(p.Y), p, "x+p:x-tiny"})
		}
	}
	return out, nil
}

// LimbGrid returns the 256-bit values whose four 64-bit limbs are each drawn from {0, m_i - 1, m_i, m_i + 1, 2^64 - 1}
// (m_i the corresponding limb of m): 625 values on both sides of m. A range test done limb by limb ("first differing
// limb decides") that forgets a condition is wrong for some of them and for no "nice" value such as m, m + 1, 2^256 - 1.
func LimbGrid(m *big.Int) []*big.Int {
	var limbs [4]uint64
	t := new(big.Int).Set(m)
	mask := new(big.Int).SetUint64(^uint64(0))
	for i := 0; i < 4; i++ {
		limbs[i] = new(big.Int).And(t, mask).Uint64()
		t.Rsh(t, 64)
	}
	var out []*big.Int
	var rec func(i int, acc *big.Int)
	rec = func(i int, acc *big.Int) {
		if i < 0 {
			out = append(out, new(big.Int).Set(acc))
			return
		}
		for _, v := range []uint64{0, limbs[i] - 1, limbs[i], limbs[i] + 1, ^uint64(0)} {
			a := new(big.Int).Lsh(acc, 64)
			a.Or(a, new(big.Int).SetUint64(v))
			rec(i-1, a)
		}
	}
	rec(3, new(big.Int))
	return out
}
