//go:build verif

package ref

import (
	"bytes"
	"crypto/cipher"
	"encoding/hex"
	"encoding/json"
	"fmt"
	"io/ioutil"
	"math/big"
	"os"
	"path/filepath"
)

// Fixtures are known answers produced by OpenSSL 3.5 / Python hashlib (see
// tools/fixturegen). They validate the *models*; a failing self-test makes a
// run inconclusive, never a violation.

func FixtureDir() string {
	d := os.Getenv("VERIF_FIXTURES")
	if d == "" {
		d = "/verif/fixtures"
	}
	return d
}

func unhex(s string) []byte {
	b, err := hex.DecodeString(s)
	if err != nil {
		panic(err)
	}
	return b
}

type SM3KAT struct{ Msg, Digest string }
type SM4KAT struct{ Key, Pt, Ct string }
type GCMKAT struct{ Key, Nonce, Aad, Pt, Ct, Tag string }
type SM2KAT struct{ Priv, Px, Py, Id, Msg, R, S string }

func load(name string, v interface{}) error {
	data, err := ioutil.ReadFile(filepath.Join(FixtureDir(), name))
	if err != nil {
		return err
	}
	return json.Unmarshal(data, v)
}

func LoadSM3() ([]SM3KAT, error) { var v []SM3KAT; return v, load("sm3_openssl.json", &v) }
func LoadSM4() ([]SM4KAT, error) { var v []SM4KAT; return v, load("sm4_ecb_openssl.json", &v) }
func LoadGCM() ([]GCMKAT, error) { var v []GCMKAT; return v, load("sm4_gcm_openssl.json", &v) }
func LoadSM2() ([]SM2KAT, error) { var v []SM2KAT; return v, load("sm2_openssl.json", &v) }

// SelfTestSM3 replays the SM3 fixtures and the GB/T 32905 examples.
func SelfTestSM3() error {
	if hex.EncodeToString(SM3([]byte("abc"))) != "66c7f0f462eeedd9d1f2d46bdc10e4e24167c4875cf2f7a2297da02b8f4ba8e0" {
		return fmt.Errorf("ref.SM3 fails GB/T 32905 example 1")
	}
	m := bytes.Repeat([]byte("abcd"), 16)
	if hex.EncodeToString(SM3(m)) != "debe9ff92275b8a138604889c18e5a4d6fdb70e5387e5765293dcba39c0c5732" {
		return fmt.Errorf("ref.SM3 fails GB/T 32905 example 2")
	}
	ks, err := LoadSM3()
	if err != nil {
		return err
	}
	for i, k := range ks {
		if hex.EncodeToString(SM3(unhex(k.Msg))) != k.Digest {
			return fmt.Errorf("ref.SM3 fails fixture %d", i)
		}
	}
	return nil
}

// SelfTestSM4 replays the SM4 fixtures and the GB/T 32907 example.
func SelfTestSM4(long bool) error {
	key := unhex("0123456789abcdeffedcba9876543210")
	if hex.EncodeToString(SM4Encrypt(key, key)) != "681edf34d206965e86b3e94f536e4246" {
		return fmt.Errorf("ref.SM4 fails GB/T 32907 example 1")
	}
	if long {
		b := append([]byte{}, key...)
		blk := NewSM4Block(key)
		for i := 0; i < 1000000; i++ {
			blk.Encrypt(b, b)
		}
		if hex.EncodeToString(b) != "595298c7c6fd271f0402f804c33d3f66" {
			return fmt.Errorf("ref.SM4 fails GB/T 32907 example 2 (1,000,000 iterations)")
		}
	}
	ks, err := LoadSM4()
	if err != nil {
		return err
	}
	for i, k := range ks {
		ct := SM4Encrypt(unhex(k.Key), unhex(k.Pt))
		if hex.EncodeToString(ct) != k.Ct {
			return fmt.Errorf("ref.SM4 encrypt fails fixture %d", i)
		}
		if hex.EncodeToString(SM4Decrypt(unhex(k.Key), ct)) != k.Pt {
			return fmt.Errorf("ref.SM4 decrypt fails fixture %d", i)
		}
	}
	return nil
}

// SelfTestGCM replays the SM4-GCM fixtures (OpenSSL EVP, nonce 1..128 bytes,
// tags 12..16) and RFC 8998, and cross-checks the bitwise model against the
// standard library's generic GCM over the reference block cipher.
func SelfTestGCM() error {
	// RFC 8998 appendix A.2
	key := unhex("0123456789abcdeffedcba9876543210")
	nonce := unhex("00001234567800000000abcd")
	aad := unhex("feedfacedeadbeeffeedfacedeadbeefabaddad2")
	pt := unhex("aaaaaaaaaaaaaaaabbbbbbbbbbbbbbbbccccccccccccccccddddddddddddddddeeeeeeeeeeeeeeeeffffffffffffffffeeeeeeeeeeeeeeeeaaaaaaaaaaaaaaaa")
	want := "17f399f08c67d5ee19d0dc9969c4bb7d5fd46fd3756489069157b282bb200735d82710ca5c22f0ccfa7cbf93d496ac15a56834cbcf98c397b4024a2691233b8d" + "83de3541e4c2b58177e065a9bf7b62ec"
	if hex.EncodeToString(NewGCM(key).Seal(nonce, pt, aad, 16)) != want {
		return fmt.Errorf("ref.GCM fails RFC 8998 A.2")
	}
	ks, err := LoadGCM()
	if err != nil {
		return err
	}
	for i, k := range ks {
		g := NewGCM(unhex(k.Key))
		tagSize := len(k.Tag) / 2
		out := g.Seal(unhex(k.Nonce), unhex(k.Pt), unhex(k.Aad), tagSize)
		if hex.EncodeToString(out) != k.Ct+k.Tag {
			return fmt.Errorf("ref.GCM seal fails fixture %d", i)
		}
		p, ok := g.Open(unhex(k.Nonce), out, unhex(k.Aad), tagSize)
		if !ok || hex.EncodeToString(p) != k.Pt {
			return fmt.Errorf("ref.GCM open fails fixture %d", i)
		}
		// second opinion: std-lib generic GCM over the reference block
		var a cipher.AEAD
		if tagSize == 16 {
			a, err = cipher.NewGCMWithNonceSize(NewSM4Block(unhex(k.Key)), len(k.Nonce)/2)
		} else if len(k.Nonce)/2 == 12 {
			a, err = cipher.NewGCMWithTagSize(NewSM4Block(unhex(k.Key)), tagSize)
		} else {
			continue
		}
		if err != nil {
			return err
		}
		if !bytes.Equal(a.Seal(nil, unhex(k.Nonce), unhex(k.Pt), unhex(k.Aad)), out) {
			return fmt.Errorf("std-lib generic GCM over ref.SM4 disagrees with ref.GCM on fixture %d", i)
		}
	}
	return nil
}

// SelfTestSM2 checks the curve model and replays the OpenSSL signatures.
func SelfTestSM2() error {
	if !OnCurve(SM2Gx, SM2Gy) {
		return fmt.Errorf("ref.SM2: G not on curve")
	}
	if !BaseMul(SM2N).Inf {
		return fmt.Errorf("ref.SM2: [n]G != infinity")
	}
	for _, h := range []string{"1", "2", "3", "ff", "FFFFFFFEFFFFFFFFFFFFFFFFFFFFFFFF7203DF6B21C6052B53BBF40939D54122", "8000000000000000000000000000000000000000000000000000000000000000", "deadbeef00000000000000000000000000000000000000000000000012345679"} {
		k := hexInt(h)
		if !BaseMul(k).Eq(BaseMulFast(k)) {
			return fmt.Errorf("ref.SM2: BaseMulFast disagrees with BaseMul on %s", h)
		}
	}
	// GM/T 0003.5 key pair example
	d := hexInt("3945208F7B2144B13F36E38AC6D39F95889393692860B51A42FB81EF4DF7C5B8")
	pub := BaseMul(d)
	if hex.EncodeToString(B32(pub.X)) != "09f9df311e5421a150dd7d161e4bc5c672179fad1833fc076bb08ff356f35020" ||
		hex.EncodeToString(B32(pub.Y)) != "ccea490ce26775a52dc6ea718cc1aa600aed05fbf35e084a6632f6072da9ad13" {
		return fmt.Errorf("ref.SM2 fails GM/T 0003.5 key example")
	}
	// GM/T 0003.5 signature example: ID "1234567812345678", M "message digest"
	za, _ := SM2ZA([]byte("1234567812345678"), B32(pub.X), B32(pub.Y))
	if hex.EncodeToString(za) != "b2e14c5c79c6df5b85f4fe7ed8db7a262b9da7e07ccb0ea9f4747b8ccda8a4f3" {
		return fmt.Errorf("ref.SM2 ZA fails GM/T 0003.5 example: %x", za)
	}
	e := SM2E(za, []byte("message digest"))
	if hex.EncodeToString(e) != "f0b43e94ba45accaace692ed534382eb17e6ab5a19ce7b31f4486fdfc0d28640" {
		return fmt.Errorf("ref.SM2 e fails GM/T 0003.5 example")
	}
	k := unhex("59276e27d506861a16680f3ad9c02dccef3cc1fa3cdbe4ce6d54b80deac1bc21")
	sr := SM2Sign(d, e, k)
	if sr.R == nil || hex.EncodeToString(B32(sr.R)) != "f5a03b0648d2c4630eeac513e1bb81a15944da3827d5b74143ac7eaceee720b3" ||
		hex.EncodeToString(B32(sr.S)) != "b1b6aa29df212fd8763182bc0d421ca1bb9038fd1f7f42d4840b69c485bbc1aa" {
		return fmt.Errorf("ref.SM2 sign fails GM/T 0003.5 example")
	}
	if !SM2Verify(B32(pub.X), B32(pub.Y), e, B32(sr.R), B32(sr.S)) {
		return fmt.Errorf("ref.SM2 verify fails GM/T 0003.5 example")
	}
	ks, err := LoadSM2()
	if err != nil {
		return err
	}
	for i, kat := range ks {
		px, py := unhex(kat.Px), unhex(kat.Py)
		za, err := SM2ZA(unhex(kat.Id), px, py)
		if err != nil {
			return err
		}
		e := SM2E(za, unhex(kat.Msg))
		if !SM2Verify(px, py, e, unhex(kat.R), unhex(kat.S)) {
			return fmt.Errorf("ref.SM2 rejects OpenSSL signature %d", i)
		}
		if i < 24 {
			p := BaseMul(Int(unhex(kat.Priv)))
			if !bytes.Equal(B32(p.X), px) || !bytes.Equal(B32(p.Y), py) {
				return fmt.Errorf("ref.SM2 public key mismatch on fixture %d", i)
			}
		}
	}
	return nil
}

// RareNonce is a nonce k whose affine x([k]G) lies in a class that exploration cannot reach (about
// 2^-31 of all nonces): Class "hi" means x >= 2^256 - 2^225 (so that e + x can reach 2n for digests
// close to 2^256), "lo" means x < 2^226. They were found once by a batched search
// (tools/fixturegen/rare_nonce_search_test.go.txt). LoadRareNonces re-derives x with the reference
// model (plain BaseMul, not the windowed one) and drops nothing silently: a mismatch is an error.
type RareNonce struct {
	K, X, Class string
}

func LoadRareNonces() ([]RareNonce, error) {
	var v []RareNonce
	if err := load("sm2_rare_nonces.json", &v); err != nil {
		return nil, err
	}
	hiBound := new(big.Int).Sub(new(big.Int).Lsh(big.NewInt(1), 256), new(big.Int).Lsh(big.NewInt(1), 225))
	loBound := new(big.Int).Lsh(big.NewInt(1), 226)
	for i, rn := range v {
		k := hexInt(rn.K)
		p := BaseMul(k)
		if p.Inf || hex.EncodeToString(B32(p.X)) != rn.X {
			return nil, fmt.Errorf("rare nonce fixture %d: x([k]G) by the model is not the recorded x", i)
		}
		switch rn.Class {
		case "hi":
			if p.X.Cmp(hiBound) < 0 {
				return nil, fmt.Errorf("rare nonce fixture %d is not in class hi", i)
			}
		case "lo":
			if p.X.Cmp(loBound) >= 0 {
				return nil, fmt.Errorf("rare nonce fixture %d is not in class lo", i)
			}
		default:
			return nil, fmt.Errorf("rare nonce fixture %d: unknown class", i)
		}
	}
	return v, nil
}

// SpecialPoint is a curve point with a coordinate from a class that random points never show (2^-32
// and rarer): a coordinate in [n, p) - canonical as a field element, not below the group order -, a
// tiny coordinate, x = 0. Points with a chosen y come from fixtures/sm2_special_points.json (a cubic had
// to be solved, tools/fixturegen/mk_special_points.py); points with a chosen x are lifted here. Every
// point is checked against the curve equation by the model.
type SpecialPoint struct {
	X, Y, Class string
}

func SpecialPoints() ([]Pt, []string, error) {
	var v []SpecialPoint
	if err := load("sm2_special_points.json", &v); err != nil {
		return nil, nil, err
	}
	var pts []Pt
	var cls []string
	for i, sp := range v {
		x, y := hexInt(sp.X), hexInt(sp.Y)
		if !OnCurve(x, y) {
			return nil, nil, fmt.Errorf("special point fixture %d is not on the curve", i)
		}
		pts, cls = append(pts, Pt{X: x, Y: y}), append(cls, sp.Class)
	}
	lift := func(x0 *big.Int, dir int64, c string, count int) {
		x := new(big.Int).Set(x0)
		for got := 0; got < count; x.Add(x, big.NewInt(dir)) {
			if x.Sign() < 0 || x.Cmp(SM2P) >= 0 {
				return
			}
			if p, ok := LiftX(x); ok {
				pts, cls = append(pts, p, p.Neg()), append(cls, c, c)
				got++
			}
		}
	}
	lift(SM2N, 1, "x>=n", 2)
	lift(new(big.Int).Sub(SM2P, big.NewInt(1)), -1, "x>=n", 2)
	lift(new(big.Int).Sub(SM2N, big.NewInt(1)), -1, "x<n-edge", 1)
	lift(big.NewInt(0), 1, "x-tiny", 3)
	return pts, cls, nil
}
