//go:build verif

package ref

import "crypto/subtle"

// GCM — NIST SP 800-38D over the reference SM4, with a bitwise GF(2^128)
// multiplier (Algorithm 1 of the standard). Arbitrary nonce length >= 1 and
// tag length; the 32-bit counter wraps as inc32 specifies.

// FE is a field element: Hi holds the first 8 bytes of the block (big endian).
type FE struct{ Hi, Lo uint64 }

func FEFromBytes(b []byte) FE {
	var f FE
	for i := 0; i < 8; i++ {
		f.Hi = f.Hi<<8 | uint64(b[i])
		f.Lo = f.Lo<<8 | uint64(b[8+i])
	}
	return f
}

func (f FE) Bytes() []byte {
	b := make([]byte, 16)
	for i := 0; i < 8; i++ {
		b[i] = byte(f.Hi >> (56 - 8*uint(i)))
		b[8+i] = byte(f.Lo >> (56 - 8*uint(i)))
	}
	return b
}

func (f FE) Xor(g FE) FE { return FE{f.Hi ^ g.Hi, f.Lo ^ g.Lo} }

// Mul is X·Y in GF(2^128) with GCM's bit order.
func (x FE) Mul(y FE) FE {
	var z FE
	v := y
	for i := 0; i < 128; i++ {
		var bit uint64
		if i < 64 {
			bit = (x.Hi >> (63 - uint(i))) & 1
		} else {
			bit = (x.Lo >> (127 - uint(i))) & 1
		}
		if bit == 1 {
			z.Hi ^= v.Hi
			z.Lo ^= v.Lo
		}
		lsb := v.Lo & 1
		v.Lo = v.Lo>>1 | v.Hi<<63
		v.Hi >>= 1
		if lsb == 1 {
			v.Hi ^= 0xE1 << 56
		}
	}
	return z
}

// FEOne is the multiplicative identity (bit 0 set = MSB of the first byte).
var FEOne = FE{1 << 63, 0}

// Inv returns x^-1 (x^(2^128-2)); Inv(0)=0.
func (x FE) Inv() FE {
	// square-and-multiply over exponent 2^128-2 = 111...10b
	r := FEOne
	b := x
	// exponent bits from LSB: bit0 = 0, bits1..127 = 1
	b = b.Mul(b) // x^2
	for i := 1; i < 128; i++ {
		r = r.Mul(b)
		b = b.Mul(b)
	}
	return r
}

func (x FE) Pow(n int) FE {
	r := FEOne
	for i := 0; i < n; i++ {
		r = r.Mul(x)
	}
	return r
}

type GCM struct {
	blk *SM4Block
	H   FE
}

func NewGCM(key []byte) *GCM {
	g := &GCM{blk: NewSM4Block(key)}
	var z, h [16]byte
	g.blk.Encrypt(h[:], z[:])
	g.H = FEFromBytes(h[:])
	return g
}

// ghash absorbs data (zero padded to a block multiple) into y.
func (g *GCM) ghash(y FE, data []byte) FE {
	for len(data) > 0 {
		var blk [16]byte
		n := copy(blk[:], data)
		data = data[n:]
		y = y.Xor(FEFromBytes(blk[:])).Mul(g.H)
	}
	return y
}

func lenBlock(a, c uint64) FE { return FE{a * 8, c * 8} }

// J0 is the pre-counter block for a nonce of any non-zero length.
func (g *GCM) J0(nonce []byte) [16]byte {
	var j [16]byte
	if len(nonce) == 12 {
		copy(j[:], nonce)
		j[15] = 1
		return j
	}
	y := g.ghash(FE{}, nonce)
	y = y.Xor(lenBlock(0, uint64(len(nonce)))).Mul(g.H)
	copy(j[:], y.Bytes())
	return j
}

func inc32(c *[16]byte) {
	v := uint32(c[12])<<24 | uint32(c[13])<<16 | uint32(c[14])<<8 | uint32(c[15])
	v++
	c[12], c[13], c[14], c[15] = byte(v>>24), byte(v>>16), byte(v>>8), byte(v)
}

func (g *GCM) ctr(j0 [16]byte, in []byte) []byte {
	out := make([]byte, len(in))
	c := j0
	var ks [16]byte
	for off := 0; off < len(in); off += 16 {
		inc32(&c)
		g.blk.Encrypt(ks[:], c[:])
		for i := 0; i < 16 && off+i < len(in); i++ {
			out[off+i] = in[off+i] ^ ks[i]
		}
	}
	return out
}

// CTR applies the counter-mode keystream that starts at inc32(j0) (exported for monitors that need
// "what a decrypt-before-verify implementation would have written").
func (g *GCM) CTR(j0 [16]byte, in []byte) []byte { return g.ctr(j0, in) }

func (g *GCM) tag(j0 [16]byte, aad, ct []byte, tagSize int) []byte {
	y := g.ghash(FE{}, aad)
	y = g.ghash(y, ct)
	y = y.Xor(lenBlock(uint64(len(aad)), uint64(len(ct)))).Mul(g.H)
	var ek [16]byte
	g.blk.Encrypt(ek[:], j0[:])
	t := y.Bytes()
	for i := range t {
		t[i] ^= ek[i]
	}
	return t[:tagSize]
}

// Seal returns ciphertext || tag.
func (g *GCM) Seal(nonce, pt, aad []byte, tagSize int) []byte {
	j0 := g.J0(nonce)
	ct := g.ctr(j0, pt)
	return append(ct, g.tag(j0, aad, ct, tagSize)...)
}

// Open returns the plaintext and true iff the message is authentic.
func (g *GCM) Open(nonce, ctTag, aad []byte, tagSize int) ([]byte, bool) {
	if len(ctTag) < tagSize {
		return nil, false
	}
	ct, tg := ctTag[:len(ctTag)-tagSize], ctTag[len(ctTag)-tagSize:]
	j0 := g.J0(nonce)
	exp := g.tag(j0, aad, ct, tagSize)
	if subtle.ConstantTimeCompare(exp, tg) != 1 {
		return nil, false
	}
	return g.ctr(j0, ct), true
}

// SolveNonce returns a nonce of length n (n >= 16, n != 12) whose pre-counter
// block is exactly j0: all blocks but the first are taken from fill, the first
// block is solved through GF(2^128):
//
//	J0 = N1·H^(m+1) ⊕ GHASH(0 ‖ N2..Nm ‖ len)   ⇒   N1 = (J0 ⊕ rest)·H^-(m+1)
func (g *GCM) SolveNonce(n int, j0 [16]byte, fill []byte) []byte {
	if n < 16 {
		panic("ref: SolveNonce needs n >= 16")
	}
	nonce := make([]byte, n)
	copy(nonce[16:], fill)
	m := (n + 15) / 16
	rest := g.ghash(FE{}, nonce) // first block is zero
	rest = rest.Xor(lenBlock(0, uint64(n))).Mul(g.H)
	hinv := g.H.Inv()
	n1 := FEFromBytes(j0[:]).Xor(rest).Mul(hinv.Pow(m + 1))
	copy(nonce[:16], n1.Bytes())
	return nonce
}

// SealZeroPrefixedAAD is Seal for additional data consisting of `zeros` zero bytes (a multiple of
// 16) followed by tail, without touching the zero bytes: absorbing zero blocks into an all-zero
// GHASH state leaves it zero, so only the length block knows about them.
func (g *GCM) SealZeroPrefixedAAD(nonce, pt []byte, zeros int, tail []byte, tagSize int) []byte {
	if zeros%16 != 0 {
		panic("ref: zero prefix must be a multiple of 16")
	}
	j0 := g.J0(nonce)
	ct := g.ctr(j0, pt)
	y := g.ghash(FE{}, tail)
	y = g.ghash(y, ct)
	y = y.Xor(lenBlock(uint64(zeros)+uint64(len(tail)), uint64(len(ct)))).Mul(g.H)
	var ek [16]byte
	g.blk.Encrypt(ek[:], j0[:])
	t := y.Bytes()
	for i := range t {
		t[i] ^= ek[i]
	}
	return append(ct, t[:tagSize]...)
}

// J0ZeroPrefixed is the pre-counter block for the nonce 0^zeros || tail (zeros a multiple of 16, total
// length != 12) without touching the zero bytes: zero blocks leave the zero GHASH state at zero, only
// the length block knows about them.
func (g *GCM) J0ZeroPrefixed(zeros uint64, tail []byte) [16]byte {
	if zeros%16 != 0 || zeros+uint64(len(tail)) == 12 {
		panic("ref: J0ZeroPrefixed")
	}
	y := g.ghash(FE{}, tail)
	y = y.Xor(lenBlock(0, zeros+uint64(len(tail)))).Mul(g.H)
	var j [16]byte
	copy(j[:], y.Bytes())
	return j
}

// SealJ0 is Seal with the pre-counter block given.
func (g *GCM) SealJ0(j0 [16]byte, pt, aad []byte, tagSize int) []byte {
	ct := g.ctr(j0, pt)
	return append(ct, g.tag(j0, aad, ct, tagSize)...)
}
