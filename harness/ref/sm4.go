//go:build verif

package ref

import "math/bits"

// SM4 — GB/T 32907-2016. The S-box is *computed* from its algebraic
// definition S(x) = A·(A·x ⊕ c)^-1 ⊕ c over GF(2^8) modulo
// x^8+x^7+x^6+x^5+x^4+x^2+1 (0x1F5), c = 0xD3, A the circulant matrix whose
// row for output bit i (LSB first) is 0xA7 rotated left by i. Nothing is copied
// from the implementation under test.

func gf8mul(a, b uint16) uint16 {
	var r uint16
	for i := 0; i < 8; i++ {
		if b&1 != 0 {
			r ^= a
		}
		b >>= 1
		a <<= 1
		if a&0x100 != 0 {
			a ^= 0x1F5
		}
	}
	return r
}

func gf8inv(a uint16) uint16 {
	if a == 0 {
		return 0
	}
	for b := uint16(1); b < 256; b++ {
		if gf8mul(a, b) == 1 {
			return b
		}
	}
	panic("no inverse")
}

func rotl8(x byte, n uint) byte {
	n &= 7
	return x<<n | x>>(8-n)
}

func sm4Affine(x byte) byte {
	var y byte
	for i := uint(0); i < 8; i++ {
		if bits.OnesCount8(rotl8(0xA7, i)&x)&1 == 1 {
			y |= 1 << i
		}
	}
	return y
}

// SM4Sbox is the algebraically derived S-box.
var SM4Sbox [256]byte

// SM4FK are the system parameters of the standard (part of its text).
var SM4FK = [4]uint32{0xA3B1BAC6, 0x56AA3350, 0x677D9197, 0xB27022DC}

// SM4CK are the fixed parameters ck_{i,j} = (4i+j)*7 mod 256.
var SM4CK [32]uint32

func init() {
	for x := 0; x < 256; x++ {
		SM4Sbox[x] = sm4Affine(byte(gf8inv(uint16(sm4Affine(byte(x))^0xD3)))) ^ 0xD3
	}
	for i := 0; i < 32; i++ {
		var w uint32
		for j := 0; j < 4; j++ {
			w = w<<8 | uint32((4*i+j)*7%256)
		}
		SM4CK[i] = w
	}
}

func sm4Tau(a uint32) uint32 {
	return uint32(SM4Sbox[a>>24])<<24 | uint32(SM4Sbox[(a>>16)&0xff])<<16 | uint32(SM4Sbox[(a>>8)&0xff])<<8 | uint32(SM4Sbox[a&0xff])
}

// SM4L is the linear transform of the round function.
func SM4L(b uint32) uint32 {
	return b ^ rotl32(b, 2) ^ rotl32(b, 10) ^ rotl32(b, 18) ^ rotl32(b, 24)
}

func sm4LPrime(b uint32) uint32 { return b ^ rotl32(b, 13) ^ rotl32(b, 23) }

// SM4TPrimeInv inverts T' (used to recover constants from key schedules).
func SM4TPrime(a uint32) uint32 { return sm4LPrime(sm4Tau(a)) }

func be32(b []byte) uint32 {
	return uint32(b[0])<<24 | uint32(b[1])<<16 | uint32(b[2])<<8 | uint32(b[3])
}

func put32(b []byte, v uint32) {
	b[0] = byte(v >> 24)
	b[1] = byte(v >> 16)
	b[2] = byte(v >> 8)
	b[3] = byte(v)
}

// SM4RoundKeys returns rk_0..rk_31 for a 16-byte key.
func SM4RoundKeys(key []byte) [32]uint32 {
	if len(key) != 16 {
		panic("ref: SM4 key must be 16 bytes")
	}
	var k [36]uint32
	for i := 0; i < 4; i++ {
		k[i] = be32(key[4*i:]) ^ SM4FK[i]
	}
	var rk [32]uint32
	for i := 0; i < 32; i++ {
		k[i+4] = k[i] ^ SM4TPrime(k[i+1]^k[i+2]^k[i+3]^SM4CK[i])
		rk[i] = k[i+4]
	}
	return rk
}

func sm4Crypt(rk *[32]uint32, in []byte, dec bool) []byte {
	var x [36]uint32
	for i := 0; i < 4; i++ {
		x[i] = be32(in[4*i:])
	}
	for i := 0; i < 32; i++ {
		k := rk[i]
		if dec {
			k = rk[31-i]
		}
		x[i+4] = x[i] ^ SM4L(sm4Tau(x[i+1]^x[i+2]^x[i+3]^k))
	}
	out := make([]byte, 16)
	put32(out[0:], x[35])
	put32(out[4:], x[34])
	put32(out[8:], x[33])
	put32(out[12:], x[32])
	return out
}

// SM4Encrypt encrypts one 16-byte block.
func SM4Encrypt(key, block []byte) []byte {
	rk := SM4RoundKeys(key)
	return sm4Crypt(&rk, block[:16], false)
}

// SM4Decrypt decrypts one 16-byte block.
func SM4Decrypt(key, block []byte) []byte {
	rk := SM4RoundKeys(key)
	return sm4Crypt(&rk, block[:16], true)
}

// SM4Block is a cipher.Block over the reference cipher (so that the standard
// library's generic modes can run over it).
type SM4Block struct{ rk [32]uint32 }

func NewSM4Block(key []byte) *SM4Block { return &SM4Block{rk: SM4RoundKeys(key)} }

func (b *SM4Block) BlockSize() int { return 16 }
func (b *SM4Block) Encrypt(dst, src []byte) {
	copy(dst[:16], sm4Crypt(&b.rk, src[:16], false))
}
func (b *SM4Block) Decrypt(dst, src []byte) {
	copy(dst[:16], sm4Crypt(&b.rk, src[:16], true))
}

// SM4KeyWithRoundKeys returns the 16-byte key whose key schedule contains the four consecutive words w at positions
// j..j+3 of the sequence K_0..K_35 (K_{i+4} = rk_i): the schedule recurrence is run backwards from there. With it a
// key is SOLVED so that a chosen round key has a chosen value (rk_j = 0, 0xffffffff ...), a 2^-32 event per word.
func SM4KeyWithRoundKeys(j int, w [4]uint32) []byte {
	var k [36]uint32
	copy(k[j:j+4], w[:])
	for i := j + 4; i < 36; i++ {
		k[i] = k[i-4] ^ SM4TPrime(k[i-3]^k[i-2]^k[i-1]^SM4CK[i-4])
	}
	for i := j - 1; i >= 0; i-- {
		k[i] = k[i+4] ^ SM4TPrime(k[i+1]^k[i+2]^k[i+3]^SM4CK[i])
	}
	key := make([]byte, 16)
	for i := 0; i < 4; i++ {
		put32(key[4*i:], k[i]^SM4FK[i])
	}
	return key
}
