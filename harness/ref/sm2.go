//go:build verif

package ref

import (
	"errors"
	"math/big"
)

// SM2 — GM/T 0003-2012 (curve parameters of GM/T 0003.5), affine
// short-Weierstrass arithmetic on math/big with explicit infinity.

func hexInt(s string) *big.Int {
	v, ok := new(big.Int).SetString(s, 16)
	if !ok {
		panic("bad hex")
	}
	return v
}

var (
	SM2P  = hexInt("FFFFFFFEFFFFFFFFFFFFFFFFFFFFFFFFFFFFFFFF00000000FFFFFFFFFFFFFFFF")
	SM2A  = hexInt("FFFFFFFEFFFFFFFFFFFFFFFFFFFFFFFFFFFFFFFF00000000FFFFFFFFFFFFFFFC")
	SM2B  = hexInt("28E9FA9E9D9F5E344D5A9E4BCF6509A7F39789F515AB8F92DDBCBD414D940E93")
	SM2N  = hexInt("FFFFFFFEFFFFFFFFFFFFFFFFFFFFFFFF7203DF6B21C6052B53BBF40939D54123")
	SM2Gx = hexInt("32C4AE2C1F1981195F9904466A39C9948FE30BBFF2660BE1715A4589334C74C7")
	SM2Gy = hexInt("BC3736A2F4F6779C59BDCEE36B692153D0A9877CC62A474002DF32E52139F0A0")
	big0  = big.NewInt(0)
	big1  = big.NewInt(1)
	big2  = big.NewInt(2)
	big3  = big.NewInt(3)
)

// Pt is an affine point or infinity.
type Pt struct {
	X, Y *big.Int
	Inf  bool
}

func G() Pt   { return Pt{X: new(big.Int).Set(SM2Gx), Y: new(big.Int).Set(SM2Gy)} }
func Inf() Pt { return Pt{Inf: true} }

func modP(x *big.Int) *big.Int {
	x.Mod(x, SM2P)
	return x
}

// OnCurve reports y^2 = x^3 + a x + b (mod p) for 0 <= x,y < p.
func OnCurve(x, y *big.Int) bool {
	if x.Sign() < 0 || y.Sign() < 0 || x.Cmp(SM2P) >= 0 || y.Cmp(SM2P) >= 0 {
		return false
	}
	l := new(big.Int).Mul(y, y)
	modP(l)
	r := new(big.Int).Mul(x, x)
	r.Mul(r, x)
	ax := new(big.Int).Mul(SM2A, x)
	r.Add(r, ax)
	r.Add(r, SM2B)
	modP(r)
	return l.Cmp(r) == 0
}

func (p Pt) Eq(q Pt) bool {
	if p.Inf || q.Inf {
		return p.Inf == q.Inf
	}
	return p.X.Cmp(q.X) == 0 && p.Y.Cmp(q.Y) == 0
}

func (p Pt) Neg() Pt {
	if p.Inf {
		return p
	}
	y := new(big.Int).Sub(SM2P, p.Y)
	modP(y)
	return Pt{X: new(big.Int).Set(p.X), Y: y}
}

func (p Pt) Dbl() Pt {
	if p.Inf || p.Y.Sign() == 0 {
		return Inf()
	}
	// lambda = (3x^2 + a) / (2y)
	num := new(big.Int).Mul(p.X, p.X)
	num.Mul(num, big3)
	num.Add(num, SM2A)
	den := new(big.Int).Mul(p.Y, big2)
	den.ModInverse(modP(den), SM2P)
	l := modP(num.Mul(num, den))
	x3 := new(big.Int).Mul(l, l)
	x3.Sub(x3, p.X)
	x3.Sub(x3, p.X)
	modP(x3)
	y3 := new(big.Int).Sub(p.X, x3)
	y3.Mul(y3, l)
	y3.Sub(y3, p.Y)
	modP(y3)
	return Pt{X: x3, Y: y3}
}

func (p Pt) Add(q Pt) Pt {
	if p.Inf {
		return q
	}
	if q.Inf {
		return p
	}
	if p.X.Cmp(q.X) == 0 {
		if p.Y.Cmp(q.Y) == 0 {
			return p.Dbl()
		}
		return Inf()
	}
	num := new(big.Int).Sub(q.Y, p.Y)
	den := new(big.Int).Sub(q.X, p.X)
	den.ModInverse(modP(den), SM2P)
	l := modP(num.Mul(num, den))
	x3 := new(big.Int).Mul(l, l)
	x3.Sub(x3, p.X)
	x3.Sub(x3, q.X)
	modP(x3)
	y3 := new(big.Int).Sub(p.X, x3)
	y3.Mul(y3, l)
	y3.Sub(y3, p.Y)
	modP(y3)
	return Pt{X: x3, Y: y3}
}

// Mul is double-and-add, k >= 0 of any size.
func (p Pt) Mul(k *big.Int) Pt {
	r := Inf()
	for i := k.BitLen() - 1; i >= 0; i-- {
		r = r.Dbl()
		if k.Bit(i) == 1 {
			r = r.Add(p)
		}
	}
	return r
}

func BaseMul(k *big.Int) Pt { return G().Mul(k) }

// B32 is the 32-byte big-endian encoding (value must be < 2^256).
func B32(x *big.Int) []byte {
	b := x.Bytes()
	if len(b) > 32 {
		panic("ref: B32 overflow")
	}
	out := make([]byte, 32)
	copy(out[32-len(b):], b)
	return out
}

func Int(b []byte) *big.Int { return new(big.Int).SetBytes(b) }

// SM2ZA is SM3(ENTL || id || a || b || Gx || Gy || xA || yA); ids of 8192
// bytes or more do not fit the 16-bit ENTL and are refused.
func SM2ZA(id, px, py []byte) ([]byte, error) {
	if len(id) >= 8192 {
		return nil, errors.New("ref: id too long")
	}
	entl := len(id) * 8
	m := []byte{byte(entl >> 8), byte(entl)}
	m = append(m, id...)
	m = append(m, B32(SM2A)...)
	m = append(m, B32(SM2B)...)
	m = append(m, B32(SM2Gx)...)
	m = append(m, B32(SM2Gy)...)
	m = append(m, px...)
	m = append(m, py...)
	return SM3(m), nil
}

// SM2E is SM3(ZA || M).
func SM2E(za, msg []byte) []byte {
	m := append(append([]byte{}, za...), msg...)
	return SM3(m)
}

// ValidPriv: d in [1, n-2].
func ValidPriv(d *big.Int) bool {
	return d.Sign() > 0 && d.Cmp(new(big.Int).Sub(SM2N, big2)) <= 0
}

// SignResult describes what the standard's signer does on a nonce stream.
type SignResult struct {
	R, S     *big.Int
	Consumed int      // bytes of the stream consumed (32 per candidate)
	Rejected []string // reason for each rejected candidate, in order
	Short    bool     // stream ended before an acceptable candidate
}

// SM2Sign follows GM/T 0003.2 §6.1 with k drawn in 32-byte big-endian units
// from stream: a candidate is skipped iff k∉[1,n-1], r=0, r+k=n or s=0.
func SM2Sign(d *big.Int, e []byte, stream []byte) SignResult {
	var res SignResult
	eI := Int(e)
	dInv := new(big.Int).Add(d, big1)
	dInv.ModInverse(dInv, SM2N)
	for off := 0; ; off += 32 {
		if off+32 > len(stream) {
			res.Short = true
			res.Consumed = off
			return res
		}
		k := Int(stream[off : off+32])
		res.Consumed = off + 32
		if k.Sign() == 0 || k.Cmp(SM2N) >= 0 {
			res.Rejected = append(res.Rejected, "k-range")
			continue
		}
		x1 := BaseMulFast(k).X
		r := new(big.Int).Add(eI, x1)
		r.Mod(r, SM2N)
		if r.Sign() == 0 {
			res.Rejected = append(res.Rejected, "r=0")
			continue
		}
		if new(big.Int).Add(r, k).Cmp(SM2N) == 0 {
			res.Rejected = append(res.Rejected, "r+k=n")
			continue
		}
		s := new(big.Int).Mul(r, d)
		s.Sub(k, s)
		s.Mul(s, dInv)
		s.Mod(s, SM2N)
		if s.Sign() == 0 {
			res.Rejected = append(res.Rejected, "s=0")
			continue
		}
		res.R, res.S = r, s
		return res
	}
}

// SM2Verify follows GM/T 0003.2 §7.1 on raw byte strings: every argument must
// be exactly 32 bytes, the key a canonical on-curve point, r,s in [1,n-1],
// t=(r+s) mod n != 0, [s]G+[t]P finite and (e+x1) mod n = r.
func SM2Verify(px, py, e, r, s []byte) bool {
	if len(px) != 32 || len(py) != 32 || len(e) != 32 || len(r) != 32 || len(s) != 32 {
		return false
	}
	x, y := Int(px), Int(py)
	if !OnCurve(x, y) {
		return false
	}
	rI, sI := Int(r), Int(s)
	if rI.Sign() == 0 || sI.Sign() == 0 || rI.Cmp(SM2N) >= 0 || sI.Cmp(SM2N) >= 0 {
		return false
	}
	t := new(big.Int).Add(rI, sI)
	t.Mod(t, SM2N)
	if t.Sign() == 0 {
		return false
	}
	pt := BaseMulFast(sI).Add(Pt{X: x, Y: y}.Mul(t))
	if pt.Inf {
		return false
	}
	R := new(big.Int).Add(Int(e), pt.X)
	R.Mod(R, SM2N)
	return R.Cmp(rI) == 0
}

// KeyGenResult describes key generation on a stream.
type KeyGenResult struct {
	D        *big.Int
	Pub      Pt
	Consumed int
	Rejected int
	Short    bool
}

// SM2KeyGen draws 32-byte candidates until one lies in [1,n-2].
func SM2KeyGen(stream []byte) KeyGenResult {
	var res KeyGenResult
	for off := 0; ; off += 32 {
		if off+32 > len(stream) {
			res.Short = true
			res.Consumed = off
			return res
		}
		d := Int(stream[off : off+32])
		res.Consumed = off + 32
		if !ValidPriv(d) {
			res.Rejected++
			continue
		}
		res.D = d
		res.Pub = BaseMulFast(d)
		return res
	}
}

// ---------------------------------------------------------------------------
// helpers shared by the monitors

var sm2BaseTable []Pt

func init() {
	sm2BaseTable = make([]Pt, 256)
	p := G()
	for i := 0; i < 256; i++ {
		sm2BaseTable[i] = p
		p = p.Dbl()
	}
}

// BaseMulFast is [k]G as a sum of precomputed 2^i·G (k < 2^256); it is
// validated against the plain double-and-add BaseMul in the self-test.
func BaseMulFast(k *big.Int) Pt {
	if k.BitLen() > 256 || k.Sign() < 0 {
		return BaseMul(k)
	}
	r := Inf()
	for i := 0; i < k.BitLen(); i++ {
		if k.Bit(i) == 1 {
			r = r.Add(sm2BaseTable[i])
		}
	}
	return r
}

// ModN reduces into [0,n).
func ModN(x *big.Int) *big.Int { return new(big.Int).Mod(x, SM2N) }

// InvN is the inverse mod n.
func InvN(x *big.Int) *big.Int { return new(big.Int).ModInverse(ModN(x), SM2N) }

// SqrtP returns a square root mod p (p ≡ 3 mod 4) or nil.
func SqrtP(v *big.Int) *big.Int {
	e := new(big.Int).Add(SM2P, big1)
	e.Rsh(e, 2)
	r := new(big.Int).Exp(v, e, SM2P)
	c := new(big.Int).Mul(r, r)
	c.Mod(c, SM2P)
	if c.Cmp(new(big.Int).Mod(v, SM2P)) != 0 {
		return nil
	}
	return r
}

// LiftX returns a curve point with the given x, or ok=false.
func LiftX(x *big.Int) (Pt, bool) {
	r := new(big.Int).Mul(x, x)
	r.Mul(r, x)
	r.Add(r, new(big.Int).Mul(SM2A, x))
	r.Add(r, SM2B)
	r.Mod(r, SM2P)
	y := SqrtP(r)
	if y == nil {
		return Pt{}, false
	}
	return Pt{X: new(big.Int).Set(x), Y: y}, true
}
