//go:build verif

// Package ref holds the reference models used as oracles. They are written
// from the standards, share no code with bilibili/SMGo, and favour obvious
// correctness over speed.
package ref

// SM3 — GB/T 32905-2016, one-shot, padding by construction, full 132-word
// message expansion.

func rotl32(x uint32, n uint) uint32 {
	n &= 31
	if n == 0 {
		return x
	}
	return x<<n | x>>(32-n)
}

func sm3P0(x uint32) uint32 { return x ^ rotl32(x, 9) ^ rotl32(x, 17) }
func sm3P1(x uint32) uint32 { return x ^ rotl32(x, 15) ^ rotl32(x, 23) }

// SM3T returns the round constant T_j of the standard.
func SM3T(j int) uint32 {
	if j < 16 {
		return 0x79cc4519
	}
	return 0x7a879d8a
}

var SM3IV = [8]uint32{0x7380166f, 0x4914b2b9, 0x172442d7, 0xda8a0600, 0xa96f30bc, 0x163138aa, 0xe38dee4d, 0xb0fb0e4e}

func sm3Compress(v *[8]uint32, blk []byte) {
	var w [68]uint32
	var w1 [64]uint32
	for i := 0; i < 16; i++ {
		w[i] = uint32(blk[4*i])<<24 | uint32(blk[4*i+1])<<16 | uint32(blk[4*i+2])<<8 | uint32(blk[4*i+3])
	}
	for j := 16; j < 68; j++ {
		w[j] = sm3P1(w[j-16]^w[j-9]^rotl32(w[j-3], 15)) ^ rotl32(w[j-13], 7) ^ w[j-6]
	}
	for j := 0; j < 64; j++ {
		w1[j] = w[j] ^ w[j+4]
	}
	a, b, c, d, e, f, g, h := v[0], v[1], v[2], v[3], v[4], v[5], v[6], v[7]
	for j := 0; j < 64; j++ {
		ss1 := rotl32(rotl32(a, 12)+e+rotl32(SM3T(j), uint(j%32)), 7)
		ss2 := ss1 ^ rotl32(a, 12)
		var ff, gg uint32
		if j < 16 {
			ff = a ^ b ^ c
			gg = e ^ f ^ g
		} else {
			ff = (a & b) | (a & c) | (b & c)
			gg = (e & f) | (^e & g)
		}
		tt1 := ff + d + ss2 + w1[j]
		tt2 := gg + h + ss1 + w[j]
		d = c
		c = rotl32(b, 9)
		b = a
		a = tt1
		h = g
		g = rotl32(f, 19)
		f = e
		e = sm3P0(tt2)
	}
	v[0] ^= a
	v[1] ^= b
	v[2] ^= c
	v[3] ^= d
	v[4] ^= e
	v[5] ^= f
	v[6] ^= g
	v[7] ^= h
}

// SM3 returns the SM3 digest of msg.
func SM3(msg []byte) []byte {
	l := uint64(len(msg)) * 8
	m := make([]byte, 0, len(msg)+72)
	m = append(m, msg...)
	m = append(m, 0x80)
	for len(m)%64 != 56 {
		m = append(m, 0)
	}
	for i := 7; i >= 0; i-- {
		m = append(m, byte(l>>(8*uint(i))))
	}
	v := SM3IV
	for off := 0; off < len(m); off += 64 {
		sm3Compress(&v, m[off:off+64])
	}
	out := make([]byte, 32)
	for i := 0; i < 8; i++ {
		out[4*i] = byte(v[i] >> 24)
		out[4*i+1] = byte(v[i] >> 16)
		out[4*i+2] = byte(v[i] >> 8)
		out[4*i+3] = byte(v[i])
	}
	return out
}

// SM3Continue finishes a hash whose first `processed` bytes (a multiple of 64) have already been
// compressed into the chaining value h, with `rest` still to be hashed. SM3(msg) ==
// SM3Continue(SM3IV, 0, msg). Used by monitors that start from an arbitrary (injected) chaining value.
func SM3Continue(h [8]uint32, processed uint64, rest []byte) []byte {
	l := (processed + uint64(len(rest))) * 8
	m := make([]byte, 0, len(rest)+72)
	m = append(m, rest...)
	m = append(m, 0x80)
	for len(m)%64 != 56 {
		m = append(m, 0)
	}
	for i := 7; i >= 0; i-- {
		m = append(m, byte(l>>(8*uint(i))))
	}
	v := h
	for off := 0; off < len(m); off += 64 {
		sm3Compress(&v, m[off:off+64])
	}
	out := make([]byte, 32)
	for i := 0; i < 8; i++ {
		out[4*i] = byte(v[i] >> 24)
		out[4*i+1] = byte(v[i] >> 16)
		out[4*i+2] = byte(v[i] >> 8)
		out[4*i+3] = byte(v[i])
	}
	return out
}

// SM3Compress applies the compression function to one 64-byte block.
func SM3Compress(h [8]uint32, block []byte) [8]uint32 {
	v := h
	sm3Compress(&v, block[:64])
	return v
}
