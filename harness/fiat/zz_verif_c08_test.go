//go:build verif && valgrind

package fiat

import (
	"crypto/subtle"
	"fmt"
	"os"
	"testing"
	"unsafe"

	"github.com/bilibili/smgo/utils"
)

// C08 / fiat — field and scalar-field primitives on tainted operands.

var vgSink uint64

func vgNote(format string, a ...interface{}) {
	if p := os.Getenv("VERIF_VG_NOTES"); p != "" {
		f, err := os.OpenFile(p, os.O_CREATE|os.O_WRONLY|os.O_APPEND, 0o644)
		if err == nil {
			fmt.Fprintf(f, format+"\n", a...)
			f.Close()
		}
	}
}

func zvPoisonE(e *SM2Element)   { utils.VgPoisonPtr(unsafe.Pointer(&e.x), 32) }
func zvUnpoisonE(e *SM2Element) { utils.VgUnpoisonPtr(unsafe.Pointer(&e.x), 32) }
func zvPoisonS(e *SM2ScalarElement) {
	utils.VgPoisonPtr(unsafe.Pointer(&e.x), 32)
}
func zvUnpoisonS(e *SM2ScalarElement) { utils.VgUnpoisonPtr(unsafe.Pointer(&e.x), 32) }

func vgBytes(seed int, n int) []byte {
	b := make([]byte, n)
	x := uint32(seed*2654435761 + 12345)
	for i := range b {
		x = x*1664525 + 1013904223
		b[i] = byte(x >> 24)
	}
	return b
}

// canonical 32-byte value below both moduli (top byte cleared of the top bit pattern)
func vgCanon(seed int) []byte {
	b := vgBytes(seed, 32)
	b[0] &= 0x7f
	return b
}

//go:noinline
func vgS_Field_SetBytes(v []byte) *SM2Element {
	utils.VgPoison(v)
	e, _ := new(SM2Element).SetBytes(v)
	utils.VgUnpoison(v)
	if e != nil {
		zvUnpoisonE(e)
	}
	return e
}

//go:noinline
func vgS_Scalar_SetBytes(v []byte) *SM2ScalarElement {
	utils.VgPoison(v)
	e, _ := new(SM2ScalarElement).SetBytes(v)
	utils.VgUnpoison(v)
	if e != nil {
		zvUnpoisonS(e)
	}
	return e
}

//go:noinline
func vgS_Field_Arith(a, b *SM2Element) {
	zvPoisonE(a)
	zvPoisonE(b)
	r := new(SM2Element)
	r.Add(a, b)
	r.Sub(r, b)
	r.Mul(r, a)
	r.Square(r)
	r.Opp(r)
	r.Select(a, r, 1)
	r.Select(a, r, 0)
	out := r.Bytes()
	utils.VgUnpoison(out)
	zvUnpoisonE(r)
	zvUnpoisonE(a)
	zvUnpoisonE(b)
	vgSink += uint64(out[0])
}

//go:noinline
func vgS_Field_Select_tainted_cond(a, b *SM2Element, cond int) {
	cb := []byte{byte(cond)}
	utils.VgPoison(cb)
	r := new(SM2Element).Select(a, b, int(cb[0]))
	zvUnpoisonE(r)
	utils.VgUnpoison(cb)
	vgSink += r.x[0]
}

//go:noinline
func vgS_Field_Invert(a *SM2Element) {
	zvPoisonE(a)
	r := new(SM2Element).Invert(a)
	zvUnpoisonE(r)
	zvUnpoisonE(a)
	vgSink += r.x[0]
}

//go:noinline
func vgS_Field_IsZero_Equal(a, b *SM2Element) {
	zvPoisonE(a)
	z := a.IsZero()
	q := a.Equal(b)
	utils.VgUnpoisonPtr(unsafe.Pointer(&z), unsafe.Sizeof(z))
	utils.VgUnpoisonPtr(unsafe.Pointer(&q), unsafe.Sizeof(q))
	zvUnpoisonE(a)
	vgSink += uint64(z + q)
}

//go:noinline
func vgS_Scalar_Arith(a, b *SM2ScalarElement) {
	zvPoisonS(a)
	zvPoisonS(b)
	r := new(SM2ScalarElement)
	r.Add(a, b)
	r.Sub(r, b)
	r.Mul(r, a)
	r.Square(r)
	r.Select(a, r, 1)
	out := r.Bytes()
	utils.VgUnpoison(out)
	zvUnpoisonS(r)
	zvUnpoisonS(a)
	zvUnpoisonS(b)
	vgSink += uint64(out[0])
}

//go:noinline
func vgS_Scalar_Invert(a *SM2ScalarElement) {
	zvPoisonS(a)
	r := new(SM2ScalarElement).Invert(a)
	zvUnpoisonS(r)
	zvUnpoisonS(a)
	vgSink += r.x[0]
}

//go:noinline
func vgS_MultiSelect(tbl *[]*[4]uint64, width int, bits byte, fb *SM2Element) {
	bb := []byte{bits}
	utils.VgPoison(bb)
	// the callers derive the fallback condition from the secret window value
	cond := 1 - subtle.ConstantTimeByteEq(bb[0], 0)
	out := new(SM2Element)
	out.MultiSelect(tbl, width, bb[0], fb, cond)
	zvUnpoisonE(out)
	utils.VgUnpoison(bb)
	vgSink += out.x[0]
}

func TestVgC08Fiat(t *testing.T) {
	if !utils.VgRunning() {
		t.Skip("not under valgrind")
	}
	vgSink += uint64(utils.VgControls())
	// SetBytes: canonical values incl. ones sharing a long prefix with the modulus - 1
	pm1 := new(SM2Element).Sub(new(SM2Element), new(SM2Element).One()).Bytes()
	nm1 := new(SM2ScalarElement).Sub(new(SM2ScalarElement), new(SM2ScalarElement).One()).Bytes()
	n := 0
	for i := 0; i < 12; i++ {
		v := vgCanon(i)
		if i%3 == 1 {
			copy(v, pm1[:4+i])
			v[31] = 0
		}
		vgS_Field_SetBytes(v)
		w := vgCanon(100 + i)
		if i%3 == 1 {
			copy(w, nm1[:4+i])
			w[20] = 0
		}
		vgS_Scalar_SetBytes(w)
		n++
	}
	// non-canonical (rejected) encodings: the verdict is allowed to depend on the value
	vgS_Field_SetBytes(append([]byte{}, 0xff, 0xff, 0xff, 0xff, 0xff, 0xff, 0xff, 0xff, 0xff, 0xff, 0xff, 0xff, 0xff, 0xff, 0xff, 0xff, 0xff, 0xff, 0xff, 0xff, 0xff, 0xff, 0xff, 0xff, 0xff, 0xff, 0xff, 0xff, 0xff, 0xff, 0xff, 0xff))
	vgS_Scalar_SetBytes(append([]byte{}, 0xff, 0xff, 0xff, 0xff, 0xff, 0xff, 0xff, 0xff, 0xff, 0xff, 0xff, 0xff, 0xff, 0xff, 0xff, 0xff, 0xff, 0xff, 0xff, 0xff, 0xff, 0xff, 0xff, 0xff, 0xff, 0xff, 0xff, 0xff, 0xff, 0xff, 0xff, 0xff))
	vgNote("scenario Field_SetBytes %d", n+1)
	vgNote("scenario Scalar_SetBytes %d", n+1)
	for i := 0; i < 6; i++ {
		a, _ := new(SM2Element).SetBytes(vgCanon(200 + i))
		b, _ := new(SM2Element).SetBytes(vgCanon(300 + i))
		if i == 0 {
			a = new(SM2Element) // zero
		}
		vgS_Field_Arith(a, b)
		vgS_Field_Select_tainted_cond(a, b, i&1)
		vgS_Field_IsZero_Equal(a, b)
		sa, _ := new(SM2ScalarElement).SetBytes(vgCanon(400 + i))
		sb, _ := new(SM2ScalarElement).SetBytes(vgCanon(500 + i))
		vgS_Scalar_Arith(sa, sb)
	}
	vgNote("scenario Field_Arith 6")
	vgNote("scenario Field_Select_tainted_cond 6")
	vgNote("scenario Field_IsZero_Equal 6")
	vgNote("scenario Scalar_Arith 6")
	for i := 0; i < 3; i++ {
		a, _ := new(SM2Element).SetBytes(vgCanon(600 + i))
		if i == 2 {
			a = new(SM2Element)
		}
		vgS_Field_Invert(a)
		sa, _ := new(SM2ScalarElement).SetBytes(vgCanon(700 + i))
		if i == 2 {
			sa = new(SM2ScalarElement)
		}
		vgS_Scalar_Invert(sa)
	}
	vgNote("scenario Field_Invert 3")
	vgNote("scenario Scalar_Invert 3")
	for _, width := range []int{15, 31, 63, 127} {
		tbl := make([]*[4]uint64, width)
		for i := range tbl {
			tbl[i] = &[4]uint64{uint64(i), uint64(i * 3), 7, 9}
		}
		fb := new(SM2Element).One()
		for bits := 0; bits <= width; bits++ {
			vgS_MultiSelect(&tbl, width, byte(bits), fb)
		}
		vgNote("scenario MultiSelect %d", width+1)
	}
}
