//go:build verif

package fiat

import (
	"bytes"
	"fmt"
	"math/big"
	"sort"
	"sync/atomic"
	"testing"

	"github.com/bilibili/smgo/zzverif/hk"
)

// C16 — field arithmetic mod p and mod n against math/big, with operands
// built from carry-critical limb patterns.

var (
	c16P, _ = new(big.Int).SetString("FFFFFFFEFFFFFFFFFFFFFFFFFFFFFFFFFFFFFFFF00000000FFFFFFFFFFFFFFFF", 16)
	c16N, _ = new(big.Int).SetString("FFFFFFFEFFFFFFFFFFFFFFFFFFFFFFFF7203DF6B21C6052B53BBF40939D54123", 16)
	c16One  = big.NewInt(1)
	c16B256 = new(big.Int).Lsh(big.NewInt(1), 256)
)

// elem abstracts over SM2Element / SM2ScalarElement so that one monitor body
// serves both fields.
type zvElem interface {
	bytes() []byte
}

type zvFieldOps struct {
	name     string
	mod      *big.Int
	set      func(b []byte) (interface{}, error)
	zero     func() interface{}
	one      func() interface{}
	add      func(a, b interface{}) interface{}
	sub      func(a, b interface{}) interface{}
	mul      func(a, b interface{}) interface{}
	square   func(a interface{}) interface{}
	opp      func(a interface{}) interface{} // nil if not provided by the type
	invert   func(a interface{}) interface{}
	sel      func(a, b interface{}, cond int) interface{}
	bytes    func(a interface{}) []byte
	toBig    func(a interface{}) *big.Int
	raw      func(a interface{}) [4]uint64
	setRaw   func(l [4]uint64) interface{} // element whose INTERNAL (Montgomery) limbs are l
	isZero   func(a interface{}) int
	equal    func(a, b interface{}) int
	aliasMul func(a interface{}) interface{} // e.Mul(e,e) on a copy
	aliasAdd func(a interface{}) interface{}
	aliasSub func(a, b interface{}) interface{}                       // b' := copy(b); b'.Sub(a, b')
	aliasUn  func(op string, a interface{}) interface{}               // e := copy(a); e.Opp(e) / e.Square(e)
	aliasSel func(a, b interface{}, cond int, first bool) interface{} // receiver is (a copy of) the first / second operand
}

func zvFieldP() *zvFieldOps {
	E := func(x interface{}) *SM2Element { return x.(*SM2Element) }
	return &zvFieldOps{
		name: "p", mod: c16P,
		set: func(b []byte) (interface{}, error) {
			snap := append([]byte{}, b...)
			e, err := c16recvP().SetBytes(b)
			if !bytes.Equal(b, snap) {
				c16noteInputChanged(snap, b)
			}
			if err != nil {
				return nil, err
			}
			return e, nil
		},
		zero:   func() interface{} { return new(SM2Element) },
		one:    func() interface{} { return c16recvP().One() },
		add:    func(a, b interface{}) interface{} { return c16recvP().Add(E(a), E(b)) },
		sub:    func(a, b interface{}) interface{} { return c16recvP().Sub(E(a), E(b)) },
		mul:    func(a, b interface{}) interface{} { return c16recvP().Mul(E(a), E(b)) },
		square: func(a interface{}) interface{} { return c16recvP().Square(E(a)) },
		opp:    func(a interface{}) interface{} { return c16recvP().Opp(E(a)) },
		invert: func(a interface{}) interface{} { return c16recvP().Invert(E(a)) },
		sel:    func(a, b interface{}, c int) interface{} { return c16recvP().Select(E(a), E(b), c) },
		bytes:  func(a interface{}) []byte { return E(a).Bytes() },
		toBig:  func(a interface{}) *big.Int { return E(a).ToBigInt() },
		raw:    func(a interface{}) [4]uint64 { return [4]uint64(E(a).x) },
		setRaw: func(l [4]uint64) interface{} { return &SM2Element{x: sm2MontgomeryDomainFieldElement(l)} },
		isZero: func(a interface{}) int { return E(a).IsZero() },
		equal:  func(a, b interface{}) int { return E(a).Equal(E(b)) },
		aliasMul: func(a interface{}) interface{} {
			e := c16recvP().Set(E(a))
			return e.Mul(e, e)
		},
		aliasAdd: func(a interface{}) interface{} {
			e := c16recvP().Set(E(a))
			return e.Add(e, e)
		},
		aliasSub: func(a, b interface{}) interface{} {
			e := c16recvP().Set(E(b))
			return e.Sub(E(a), e)
		},
		aliasUn: func(op string, a interface{}) interface{} {
			e := c16recvP().Set(E(a))
			if op == "opp" {
				return e.Opp(e)
			}
			return e.Square(e)
		},
		aliasSel: func(a, b interface{}, c int, first bool) interface{} {
			if first {
				e := c16recvP().Set(E(a))
				return e.Select(e, E(b), c)
			}
			e := c16recvP().Set(E(b))
			return e.Select(E(a), e, c)
		},
	}
}

func zvFieldN() *zvFieldOps {
	E := func(x interface{}) *SM2ScalarElement { return x.(*SM2ScalarElement) }
	return &zvFieldOps{
		name: "n", mod: c16N,
		set: func(b []byte) (interface{}, error) {
			snap := append([]byte{}, b...)
			e, err := c16recvN().SetBytes(b)
			if !bytes.Equal(b, snap) {
				c16noteInputChanged(snap, b)
			}
			if err != nil {
				return nil, err
			}
			return e, nil
		},
		zero:   func() interface{} { return new(SM2ScalarElement) },
		one:    func() interface{} { return c16recvN().One() },
		add:    func(a, b interface{}) interface{} { return c16recvN().Add(E(a), E(b)) },
		sub:    func(a, b interface{}) interface{} { return c16recvN().Sub(E(a), E(b)) },
		mul:    func(a, b interface{}) interface{} { return c16recvN().Mul(E(a), E(b)) },
		square: func(a interface{}) interface{} { return c16recvN().Square(E(a)) },
		// the scalar type has no Opp method; the statement names negation for both fields, so the generated
		// routine is judged directly
		opp: func(a interface{}) interface{} {
			r := c16recvN()
			sm2ScalarOpp(&r.x, &E(a).x)
			return r
		},
		invert: func(a interface{}) interface{} { return c16recvN().Invert(E(a)) },
		sel:    func(a, b interface{}, c int) interface{} { return c16recvN().Select(E(a), E(b), c) },
		bytes:  func(a interface{}) []byte { return E(a).Bytes() },
		toBig:  func(a interface{}) *big.Int { return E(a).ToBigInt() },
		raw:    func(a interface{}) [4]uint64 { return [4]uint64(E(a).x) },
		setRaw: func(l [4]uint64) interface{} { return &SM2ScalarElement{x: sm2ScalarMontgomeryDomainFieldElement(l)} },
		isZero: func(a interface{}) int { return E(a).IsZero() },
		equal:  func(a, b interface{}) int { return E(a).Equal(E(b)) },
		aliasMul: func(a interface{}) interface{} {
			e := c16recvN().Set(E(a))
			return e.Mul(e, e)
		},
		aliasAdd: func(a interface{}) interface{} {
			e := c16recvN().Set(E(a))
			return e.Add(e, e)
		},
		aliasSub: func(a, b interface{}) interface{} {
			e := c16recvN().Set(E(b))
			return e.Sub(E(a), e)
		},
		aliasUn: func(op string, a interface{}) interface{} {
			e := c16recvN().Set(E(a))
			if op == "opp" {
				sm2ScalarOpp(&e.x, &e.x)
				return e
			}
			return e.Square(e)
		},
		aliasSel: func(a, b interface{}, c int, first bool) interface{} {
			if first {
				e := c16recvN().Set(E(a))
				return e.Select(e, E(b), c)
			}
			e := c16recvN().Set(E(b))
			return e.Select(E(a), e, c)
		},
	}
}

// Receivers hold GARBAGE before an operation writes them: the result may not depend on what the receiver held
// (an early return that forgets to write it, an accumulation into it).
var c16recvCtr uint64

func c16garbage() [4]uint64 {
	c := atomic.AddUint64(&c16recvCtr, 0x9e3779b97f4a7c15)
	return [4]uint64{c ^ 0xdeadbeefcafef00d, c * 3, ^c, c>>1 | 1}
}

func c16recvP() *SM2Element { return &SM2Element{x: sm2MontgomeryDomainFieldElement(c16garbage())} }

func c16recvN() *SM2ScalarElement {
	return &SM2ScalarElement{x: sm2ScalarMontgomeryDomainFieldElement(c16garbage())}
}

func c16b32(v *big.Int) []byte {
	b := v.Bytes()
	o := make([]byte, 32)
	copy(o[32-len(b):], b)
	return o
}

func zvLimbsOf(v *big.Int) []uint64 {
	b := c16b32(v)
	out := make([]uint64, 4)
	for i := 0; i < 4; i++ {
		var w uint64
		for j := 0; j < 8; j++ {
			w = w<<8 | uint64(b[8*(3-i)+j])
		}
		out[i] = w
	}
	return out
}

func zvFromLimbs(l [4]uint64) *big.Int {
	v := new(big.Int)
	for i := 3; i >= 0; i-- {
		v.Lsh(v, 64)
		v.Or(v, new(big.Int).SetUint64(l[i]))
	}
	return v
}

// every decoding of this check goes through fieldOps.set, which compares the caller's bytes before and after
var (
	c16inputChanged       int64
	c16inputChangedBefore atomic.Value
	c16inputChangedAfter  atomic.Value
)

func c16noteInputChanged(before, after []byte) {
	if atomic.AddInt64(&c16inputChanged, 1) == 1 {
		c16inputChangedBefore.Store(hk.Hex(before))
		c16inputChangedAfter.Store(hk.Hex(after))
	}
}

func TestVerifC16(t *testing.T) {
	r := hk.NewReporter("C16", "fiat-fields")
	defer r.Close()
	rng := hk.NewRNG(hk.Seed(), "c16")
	defer func() {
		if n := atomic.LoadInt64(&c16inputChanged); n > 0 {
			r.Violation("setbytes-changes-the-bytes-it-decodes", hk.D{"calls_affected": n, "input_before": c16inputChangedBefore.Load(), "input_after": c16inputChangedAfter.Load()})
		}
	}()
	// the encoding lies in READ-ONLY memory (a constant, a file mapped into memory): decoding it must not write to it,
	// not even temporarily
	{
		pool := hk.NewPool()
		for i := 0; i < hk.N(120, 1200); i++ {
			g := pool.Get(32, []int{hk.PlaceEnd, hk.PlaceStart, hk.PlaceMid}[i%3])
			g.Writable()
			v := new(big.Int).SetBytes(rng.Bytes(32))
			f := []*zvFieldOps{zvFieldP(), zvFieldN()}[i%2]
			if i%5 == 4 {
				v.Sub(f.mod, big.NewInt(int64(1+i%3)))
			}
			v.Mod(v, f.mod)
			v.FillBytes(g.B)
			g.ReadOnly()
			var e interface{}
			var err error
			p, pm, isFault, _ := hk.Try(func() { e, err = f.set(g.B) })
			if p || err != nil || f.toBig(e).Cmp(v) != 0 {
				r.Violation("setbytes-fails-on-an-encoding-in-read-only-memory:"+f.name, hk.D{"value": v.Text(16), "panic": pm, "write_fault": isFault, "err": fmt.Sprint(err)})
			}
			g.Writable()
			pool.Put(g)
			r.Eval("setbytes:read-only-input:" + f.name)
		}
	}

	for _, f := range []*zvFieldOps{zvFieldP(), zvFieldN()} {
		f := f
		m := f.mod
		// carry-critical limb alphabet
		lset := map[uint64]bool{0: true, 1: true, 2: true, 1<<32 - 1: true, 1 << 32: true, 1<<32 + 1: true, 1 << 63: true, 1<<63 - 1: true, 1<<64 - 1: true, 1<<64 - 2: true, 0xFFFFFFFF00000000: true, 0xFFFFFFFE00000000: true}
		for _, v := range []*big.Int{m, new(big.Int).Sub(m, c16One), new(big.Int).Mod(c16B256, m), new(big.Int).Rsh(m, 1)} {
			for _, l := range zvLimbsOf(v) {
				lset[l] = true
			}
		}
		var alpha []uint64
		for l := range lset {
			alpha = append(alpha, l)
		}
		// deterministic order
		for i := range alpha {
			for j := i + 1; j < len(alpha); j++ {
				if alpha[j] < alpha[i] {
					alpha[i], alpha[j] = alpha[j], alpha[i]
				}
			}
		}
		var vals []*big.Int
		stride := 1
		if !hk.Thorough() {
			stride = 5 // quick tier: every 5th combination (offset by seed), all in thorough
		}
		cnt := int(hk.Seed() % uint64(stride))
		for _, a := range alpha {
			for _, b := range alpha {
				for _, c := range alpha {
					for _, d := range alpha {
						cnt++
						if cnt%stride != 0 {
							continue
						}
						v := zvFromLimbs([4]uint64{a, b, c, d})
						vals = append(vals, v.Mod(v, m))
					}
				}
			}
		}
		for _, v := range []*big.Int{big.NewInt(0), big.NewInt(1), big.NewInt(2), new(big.Int).Sub(m, c16One), new(big.Int).Sub(m, big.NewInt(2)), new(big.Int).Rsh(m, 1), new(big.Int).Add(new(big.Int).Rsh(m, 1), c16One), new(big.Int).Mod(c16B256, m)} {
			vals = append(vals, v)
		}
		for i := 0; i < hk.N(3000, 30000); i++ {
			v := new(big.Int).SetBytes(rng.Bytes(32))
			vals = append(vals, v.Mod(v, m))
		}
		r.Note("operands_"+f.name, len(vals))
		r.Note("limb_alphabet_"+f.name, len(alpha))
		if f.name == "p" {
			r.Sample(hk.D{"field": "p", "operand": hk.Hex(c16b32(vals[len(alpha)*3+1])), "op": "mul/square/add/sub/opp/select/bytes"})
		}

		chk := func(op string, got interface{}, want *big.Int, operands ...*big.Int) {
			// the internal (Montgomery) representation must itself be canonical: limbs < modulus
			if zvFromLimbs(f.raw(got)).Cmp(m) >= 0 {
				d := hk.D{"field": f.name, "op": op, "limbs": fmt.Sprintf("%x", f.raw(got))}
				for i, o := range operands {
					d[fmt.Sprintf("arg%d", i)] = hk.Hex(c16b32(o))
				}
				r.Violation(fmt.Sprintf("field-%s-%s-result-not-canonical", f.name, op), d)
			}
			gb := f.bytes(got)
			if !bytes.Equal(gb, c16b32(want)) {
				d := hk.D{"field": f.name, "op": op, "got": hk.Hex(gb), "want": hk.Hex(c16b32(want))}
				for i, o := range operands {
					d[fmt.Sprintf("arg%d", i)] = hk.Hex(c16b32(o))
				}
				r.Violation(fmt.Sprintf("field-%s-%s-wrong", f.name, op), d)
			}
		}
		mod := func(v *big.Int) *big.Int { return v.Mod(v, m) }

		hk.Parallel(len(vals), func(i int) {
			lr := hk.NewRNG(hk.Seed(), fmt.Sprintf("c16/%s/%d", f.name, i))
			a := vals[i]
			ea, err := f.set(c16b32(a))
			if err != nil {
				r.Violation(fmt.Sprintf("field-%s-setbytes-rejects-canonical", f.name), hk.D{"v": hk.Hex(c16b32(a))})
				return
			}
			// round trip, canonical output
			chk("bytes-roundtrip", ea, a, a)
			if f.toBig(ea).Cmp(a) != 0 {
				r.Violation(fmt.Sprintf("field-%s-tobigint-wrong", f.name), hk.D{"v": hk.Hex(c16b32(a))})
			}
			chk("square", f.square(ea), mod(new(big.Int).Mul(a, a)), a)
			chk("mul-alias", f.aliasMul(ea), mod(new(big.Int).Mul(a, a)), a)
			chk("add-alias", f.aliasAdd(ea), mod(new(big.Int).Add(a, a)), a)
			if f.opp != nil {
				chk("opp", f.opp(ea), mod(new(big.Int).Neg(a)), a)
			}
			wantZero := 0
			if a.Sign() == 0 {
				wantZero = 1
			}
			if f.isZero(ea) != wantZero {
				r.Violation(fmt.Sprintf("field-%s-iszero-wrong", f.name), hk.D{"v": hk.Hex(c16b32(a))})
			}
			nops := 7
			// binary ops against a few partners
			for k := 0; k < 4; k++ {
				var b *big.Int
				switch k {
				case 0:
					b = vals[lr.Intn(len(vals))]
				case 1:
					b = mod(new(big.Int).Neg(a)) // a + b = 0 / a - b = 2a
				case 2:
					b = mod(new(big.Int).Sub(m, new(big.Int).Add(a, c16One))) // a + b = m - 1
				default:
					b = mod(new(big.Int).SetBytes(lr.Bytes(32)))
				}
				eb, err := f.set(c16b32(b))
				if err != nil {
					r.Violation(fmt.Sprintf("field-%s-setbytes-rejects-canonical", f.name), hk.D{"v": hk.Hex(c16b32(b))})
					continue
				}
				chk("add", f.add(ea, eb), mod(new(big.Int).Add(a, b)), a, b)
				chk("sub", f.sub(ea, eb), mod(new(big.Int).Sub(a, b)), a, b)
				chk("sub-alias", f.aliasSub(ea, eb), mod(new(big.Int).Sub(a, b)), a, b)
				// the other in-place forms the point arithmetic uses (Negate in place negates y in place, Select in place
				// selects into an operand, the doubling formulas square in place)
				if f.opp != nil {
					chk("opp-alias", f.aliasUn("opp", ea), mod(new(big.Int).Neg(a)), a, a)
				}
				chk("square-alias", f.aliasUn("square", ea), mod(new(big.Int).Mul(a, a)), a, a)
				chk("select-alias-first", f.aliasSel(ea, eb, 1, true), a, a, b)
				chk("select-alias-first-0", f.aliasSel(ea, eb, 0, true), b, a, b)
				chk("select-alias-second", f.aliasSel(ea, eb, 0, false), b, a, b)
				chk("select-alias-second-1", f.aliasSel(ea, eb, 1, false), a, a, b)
				chk("mul", f.mul(ea, eb), mod(new(big.Int).Mul(a, b)), a, b)
				chk("select1", f.sel(ea, eb, 1), a, a, b)
				chk("select0", f.sel(ea, eb, 0), b, a, b)
				weq := 0
				if a.Cmp(b) == 0 {
					weq = 1
				}
				if f.equal(ea, eb) != weq {
					r.Violation(fmt.Sprintf("field-%s-equal-wrong", f.name), hk.D{"a": hk.Hex(c16b32(a)), "b": hk.Hex(c16b32(b))})
				}
				nops += 7
			}
			// inversion on a subset (255 squarings each)
			if i%hk.N(8, 2) == 0 || i < 64 {
				inv := f.invert(ea)
				if a.Sign() == 0 {
					chk("invert-zero", inv, big.NewInt(0), a)
				} else {
					chk("invert", inv, new(big.Int).ModInverse(a, m), a)
					chk("invert-times-x", f.mul(inv, ea), big.NewInt(1), a)
				}
				nops += 2
			}
			ls := zvLimbsOf(a)
			cl := "random"
			if lset[ls[3]] && lset[ls[0]] {
				cl = fmt.Sprintf("top=%016x,low=%016x", ls[3], ls[0])
			}
			r.EvalN(fmt.Sprintf("field-%s:%s", f.name, cl), nops)
		})

		// operands SOLVED so that the result's internal (Montgomery) representation lands on the edges
		// of the final conditional subtraction: limbs 0, 1, 2, m-1, m-2, 2^256-m-1 … (value = t * 2^-256 mod m)
		{
			rinv := new(big.Int).ModInverse(c16B256, m)
			var edges []*big.Int
			for _, t := range []*big.Int{big.NewInt(0), big.NewInt(1), big.NewInt(2), new(big.Int).Sub(m, c16One), new(big.Int).Sub(m, big.NewInt(2)),
				new(big.Int).Sub(c16B256, m), new(big.Int).Sub(new(big.Int).Sub(c16B256, m), c16One), new(big.Int).Lsh(c16One, 255), new(big.Int).Sub(new(big.Int).Lsh(c16One, 192), c16One),
				new(big.Int).Lsh(c16One, 64), new(big.Int).Sub(new(big.Int).Lsh(c16One, 64), c16One), new(big.Int).Lsh(c16One, 128)} {
				tt := new(big.Int).Mod(t, m)
				edges = append(edges, mod(new(big.Int).Mul(tt, rinv))) // value whose Montgomery form is t
				edges = append(edges, tt)                              // and the plain value t itself
			}
			nEdge := 0
			for _, v := range edges {
				for rep := 0; rep < hk.N(20, 200); rep++ {
					a := mod(new(big.Int).SetBytes(rng.Bytes(32)))
					if a.Sign() == 0 {
						continue
					}
					ea, _ := f.set(c16b32(a))
					// a * b = v
					b := mod(new(big.Int).Mul(v, new(big.Int).ModInverse(a, m)))
					eb, _ := f.set(c16b32(b))
					chk("mul-edge", f.mul(ea, eb), v, a, b)
					// a + c = v, a - d = v
					c := mod(new(big.Int).Sub(v, a))
					ec, _ := f.set(c16b32(c))
					chk("add-edge", f.add(ea, ec), v, a, c)
					dd := mod(new(big.Int).Sub(a, v))
					ed, _ := f.set(c16b32(dd))
					chk("sub-edge", f.sub(ea, ed), v, a, dd)
					// s^2 = v when v is a square: use v' = s^2 for s = a instead
					chk("square-edge", f.square(ea), mod(new(big.Int).Mul(a, a)), a)
					if f.opp != nil {
						ev, _ := f.set(c16b32(mod(new(big.Int).Neg(v))))
						chk("opp-edge", f.opp(ev), v, mod(new(big.Int).Neg(v)))
					}
					nEdge += 5
				}
			}
			// decodings whose Montgomery form r = x*2^256 mod m is below 2^256-m: the value before the final
			// conditional subtraction of the conversion can then lie in [m, 2^256)
			span := new(big.Int).Sub(c16B256, m)
			for q := 0; q < hk.N(3000, 30000); q++ {
				rr := new(big.Int).SetBytes(rng.Bytes(28))
				switch q % 4 {
				case 1:
					rr.Rsh(rr, uint(rng.Intn(200)))
				case 2:
					rr = new(big.Int).Sub(span, new(big.Int).SetBytes(rng.Bytes(2)))
				}
				if rr.Sign() < 0 || rr.Cmp(span) >= 0 {
					continue
				}
				x := mod(new(big.Int).Mul(rr, rinv))
				ex, err := f.set(c16b32(x))
				if err != nil {
					r.Violation(fmt.Sprintf("field-%s-setbytes-rejects-canonical", f.name), hk.D{"v": hk.Hex(c16b32(x))})
					continue
				}
				chk("setbytes-small-montgomery-form", ex, x, x)
				y := mod(new(big.Int).SetBytes(rng.Bytes(32)))
				ey, _ := f.set(c16b32(y))
				chk("sub-from-small-montgomery-form", f.sub(ey, ex), mod(new(big.Int).Sub(y, x)), y, x)
				chk("sub-zero-minus-small-montgomery-form", f.sub(f.zero(), ex), mod(new(big.Int).Neg(x)), x)
				nEdge += 3
			}
			// negation / subtraction / addition of zero and of the extremes, raw canonicity included
			zero, _ := f.set(c16b32(big.NewInt(0)))
			top, _ := f.set(c16b32(new(big.Int).Sub(m, c16One)))
			if f.opp != nil {
				chk("opp-zero", f.opp(zero), big.NewInt(0))
			}
			chk("sub-zero-zero", f.sub(zero, zero), big.NewInt(0))
			chk("add-top-one", f.add(top, f.one()), big.NewInt(0))
			chk("sub-zero-one", f.sub(zero, f.one()), new(big.Int).Sub(m, c16One))
			chk("mul-top-top", f.mul(top, top), big.NewInt(1))
			chk("mul-zero-top", f.mul(zero, top), big.NewInt(0))
			chk("square-zero", f.square(zero), big.NewInt(0))
			r.EvalN(fmt.Sprintf("field-%s:edge-results", f.name), nEdge+8)
		}

		// operands given by their INTERNAL limbs: every field element is a legal internal state (the
		// Montgomery form of some residue), but the forms of "nice" residues look random, so carry chains
		// inside the word-by-word reduction that need extreme limbs in the operands themselves are only
		// reached when the limbs are chosen directly. All 4-limb words over the alphabet that are below the
		// modulus; results are compared limb for limb with (A*B*2^-256) mod m, (A+-B) mod m computed on integers.
		{
			rinv := new(big.Int).ModInverse(c16B256, m)
			var raws [][4]uint64
			cnt := int(hk.Seed() % uint64(stride))
			for _, a := range alpha {
				for _, b := range alpha {
					for _, c := range alpha {
						for _, d := range alpha {
							cnt++
							if cnt%stride != 0 {
								continue
							}
							l := [4]uint64{a, b, c, d}
							if zvFromLimbs(l).Cmp(m) < 0 {
								raws = append(raws, l)
							}
						}
					}
				}
			}
			// the simplest internal states always take part: a single limb that is 1, 2 or all ones (the internal form of
			// 2^-256, 2^-192 ... - NOT of the residues 1, 2^64 ...: a shortcut keyed on "the limbs look like one" is wrong there)
			for pos := 0; pos < 4; pos++ {
				for _, lv := range []uint64{1, 2, 1<<64 - 1} {
					var l [4]uint64
					l[pos] = lv
					if zvFromLimbs(l).Cmp(m) < 0 {
						raws = append(raws, l)
					}
				}
			}
			r2 := new(big.Int).Mod(new(big.Int).Mul(c16B256, c16B256), m)
			limbs4 := func(v *big.Int) [4]uint64 {
				ls := zvLimbsOf(v)
				return [4]uint64{ls[0], ls[1], ls[2], ls[3]}
			}
			chkRaw := func(op string, got interface{}, want *big.Int, A, B [4]uint64) {
				if f.raw(got) != limbs4(want) {
					r.Violation(fmt.Sprintf("field-%s-%s-wrong-on-internal-limbs", f.name, op), hk.D{"field": f.name, "op": op, "internal_limbs_a": fmt.Sprintf("%016x", A), "internal_limbs_b": fmt.Sprintf("%016x", B),
						"got_limbs": fmt.Sprintf("%016x", f.raw(got)), "want_limbs": fmt.Sprintf("%016x", limbs4(want))})
				}
			}
			hk.Parallel(len(raws), func(i int) {
				lr := hk.NewRNG(hk.Seed(), fmt.Sprintf("c16raw/%s/%d", f.name, i))
				A := raws[i]
				ai := zvFromLimbs(A)
				ea := f.setRaw(A)
				chkRaw("square", f.square(ea), mod(new(big.Int).Mul(new(big.Int).Mul(ai, ai), rinv)), A, A)
				chkRaw("mul-alias", f.aliasMul(ea), mod(new(big.Int).Mul(new(big.Int).Mul(ai, ai), rinv)), A, A)
				if !bytes.Equal(f.bytes(ea), c16b32(mod(new(big.Int).Mul(ai, rinv)))) {
					r.Violation(fmt.Sprintf("field-%s-bytes-wrong-on-internal-limbs", f.name), hk.D{"internal_limbs": fmt.Sprintf("%016x", A)})
				}
				wz := 0
				if ai.Sign() == 0 {
					wz = 1
				}
				if f.isZero(ea) != wz {
					r.Violation(fmt.Sprintf("field-%s-iszero-wrong-on-internal-limbs", f.name), hk.D{"internal_limbs": fmt.Sprintf("%016x", A)})
				}
				if f.opp != nil {
					chkRaw("opp", f.opp(ea), mod(new(big.Int).Neg(ai)), A, A)
				}
				// inversion: the value is A*2^-256, its inverse A^-1*2^256, whose internal form is A^-1*2^512 (for 0: 0)
				if i%4 == 0 || i >= len(raws)-12 {
					wantInv := new(big.Int)
					if ai.Sign() != 0 {
						wantInv = mod(new(big.Int).Mul(new(big.Int).ModInverse(ai, m), r2))
					}
					chkRaw("invert", f.invert(ea), wantInv, A, A)
				}
				n := 5
				for k := 0; k < 4; k++ {
					var B [4]uint64
					switch k {
					case 0, 1:
						B = raws[lr.Intn(len(raws))]
					case 2:
						B = limbs4(mod(new(big.Int).Sub(new(big.Int).Sub(m, c16One), ai))) // A + B = m - 1
					default:
						B = limbs4(mod(new(big.Int).SetBytes(lr.Bytes(32))))
					}
					bi := zvFromLimbs(B)
					eb := f.setRaw(B)
					chkRaw("mul", f.mul(ea, eb), mod(new(big.Int).Mul(new(big.Int).Mul(ai, bi), rinv)), A, B)
					chkRaw("mul-swapped", f.mul(eb, ea), mod(new(big.Int).Mul(new(big.Int).Mul(ai, bi), rinv)), B, A)
					chkRaw("add", f.add(ea, eb), mod(new(big.Int).Add(ai, bi)), A, B)
					chkRaw("sub", f.sub(ea, eb), mod(new(big.Int).Sub(ai, bi)), A, B)
					chkRaw("sub-swapped", f.sub(eb, ea), mod(new(big.Int).Sub(bi, ai)), B, A)
					weq := 0
					if A == B {
						weq = 1
					}
					if f.equal(ea, eb) != weq {
						r.Violation(fmt.Sprintf("field-%s-equal-wrong-on-internal-limbs", f.name), hk.D{"a": fmt.Sprintf("%016x", A), "b": fmt.Sprintf("%016x", B)})
					}
					n += 6
				}
				r.EvalN(fmt.Sprintf("field-%s:internal-limbs,top=%016x", f.name, A[3]), n)
			})
			r.Note("internal_limb_operands_"+f.name, len(raws))
		}

		// internal limbs TIED with the limbs of derived constants: a hand-written shortcut (doubling, halving,
		// comparison against (m+1)/2, ...) decides on constants that appear nowhere in the word-by-word code;
		// its edge is an operand whose top 1..3 limbs EQUAL those of the constant, the next limb just above /
		// below / equal. Every unary and same-object operation is judged on them (x.Add(x,x), x.Mul(x,x), ...).
		{
			consts := map[string]*big.Int{"m": m, "(m+1)/2": new(big.Int).Rsh(new(big.Int).Add(m, c16One), 1), "(m-1)/2": new(big.Int).Rsh(m, 1), "2^256-m": new(big.Int).Sub(c16B256, m),
				"2^256 mod m": new(big.Int).Mod(c16B256, m), "2^512 mod m": new(big.Int).Mod(new(big.Int).Mul(c16B256, c16B256), m), "(m+1)/4": new(big.Int).Rsh(new(big.Int).Add(m, c16One), 2), "2^255": new(big.Int).Lsh(c16One, 255)}
			limbs4 := func(v *big.Int) [4]uint64 {
				ls := zvLimbsOf(v)
				return [4]uint64{ls[0], ls[1], ls[2], ls[3]}
			}
			nTies := 0
			var cnames []string
			for name := range consts {
				cnames = append(cnames, name)
			}
			sort.Strings(cnames)
			for _, name := range cnames {
				cv := consts[name]
				cl := limbs4(cv)
				for tie := 1; tie <= 4; tie++ { // top `tie` limbs equal to the constant's
					for variant := 0; variant < 12; variant++ {
						var l [4]uint64
						for i := 0; i < 4; i++ {
							if i >= 4-tie {
								l[i] = cl[i]
							} else {
								switch (variant + i) % 6 {
								case 0:
									l[i] = cl[i] + 1
								case 1:
									l[i] = cl[i] - 1
								case 2:
									l[i] = 0
								case 3:
									l[i] = ^uint64(0)
								case 4:
									l[i] = cl[i]
								default:
									l[i] = rng.Uint64()
								}
							}
						}
						if zvFromLimbs(l).Cmp(m) >= 0 {
							continue
						}
						ai := zvFromLimbs(l)
						rinv := new(big.Int).ModInverse(c16B256, m)
						chkT := func(op string, got interface{}, want *big.Int) {
							if f.raw(got) != limbs4(want) {
								r.Violation(fmt.Sprintf("field-%s-%s-wrong-on-limbs-tied-with-a-constant", f.name, op), hk.D{"field": f.name, "op": op, "constant": name, "tied_top_limbs": tie,
									"internal_limbs": fmt.Sprintf("%016x", l), "got_limbs": fmt.Sprintf("%016x", f.raw(got)), "want_limbs": fmt.Sprintf("%016x", limbs4(want))})
							}
						}
						ea := f.setRaw(l)
						chkT("add-same-object", f.aliasAdd(ea), mod(new(big.Int).Add(ai, ai)))
						chkT("add-equal-values", f.add(ea, f.setRaw(l)), mod(new(big.Int).Add(ai, ai)))
						chkT("add-same-pointer-fresh-receiver", f.add(ea, ea), mod(new(big.Int).Add(ai, ai)))
						chkT("sub-same-pointer", f.sub(ea, ea), big.NewInt(0))
						chkT("mul-same-object", f.aliasMul(ea), mod(new(big.Int).Mul(new(big.Int).Mul(ai, ai), rinv)))
						chkT("mul-same-pointer-fresh-receiver", f.mul(ea, ea), mod(new(big.Int).Mul(new(big.Int).Mul(ai, ai), rinv)))
						chkT("square", f.square(ea), mod(new(big.Int).Mul(new(big.Int).Mul(ai, ai), rinv)))
						if f.opp != nil {
							chkT("opp", f.opp(ea), mod(new(big.Int).Neg(ai)))
						}
						chkT("sub-from-zero", f.sub(f.zero(), ea), mod(new(big.Int).Neg(ai)))
						if !bytes.Equal(f.bytes(ea), c16b32(mod(new(big.Int).Mul(ai, rinv)))) {
							r.Violation(fmt.Sprintf("field-%s-bytes-wrong-on-limbs-tied-with-a-constant", f.name), hk.D{"constant": name, "internal_limbs": fmt.Sprintf("%016x", l)})
						}
						nTies++
					}
				}
			}
			r.EvalN(fmt.Sprintf("field-%s:limbs-tied-with-derived-constants", f.name), nTies*10)
		}

		// operands SOLVED for the accumulator BEFORE the final conditional subtraction of a Montgomery
		// multiplication / squaring: T = (A*B + q*m) / 2^256 lies in [0, 2m) and the result is T or T - m.
		// Borrow chains of that subtraction depend on the limbs of T, which no choice of "nice" operands
		// controls. For every patterned T in [m, 2m) (limbs over the alphabet, with and without the 257th
		// bit) the monitor sets r = T - m, picks A at random and solves B = r * 2^256 / A (and X = sqrt(r *
		// 2^256) for squaring); an integer model of the reduction tells whether the realised accumulator is
		// the patterned T (about half of the time) - those are counted. The verdict is on the limbs of the result.
		{
			R := c16B256
			rinv := new(big.Int).ModInverse(R, m)
			mneg := new(big.Int).ModInverse(m, R) // m^-1 mod 2^256
			mneg.Sub(R, mneg)                     // -m^-1 mod 2^256
			accOf := func(a, b *big.Int) *big.Int {
				ab := new(big.Int).Mul(a, b)
				q := new(big.Int).Mul(new(big.Int).Mod(ab, R), mneg)
				q.Mod(q, R)
				t := new(big.Int).Add(ab, q.Mul(q, m))
				return t.Rsh(t, 256)
			}
			limbs4 := func(v *big.Int) [4]uint64 {
				ls := zvLimbsOf(v)
				return [4]uint64{ls[0], ls[1], ls[2], ls[3]}
			}
			twoM := new(big.Int).Lsh(m, 1)
			sqrtExp := new(big.Int).Rsh(new(big.Int).Add(m, c16One), 2) // m = 3 mod 4 for both primes
			var targets []*big.Int
			cnt := int(hk.Seed() % uint64(stride))
			for _, a := range alpha {
				for _, b := range alpha {
					for _, c := range alpha {
						for _, d := range alpha {
							for carry := 0; carry < 2; carry++ {
								T := zvFromLimbs([4]uint64{a, b, c, d})
								if carry == 1 {
									T.Add(T, R)
								}
								if T.Cmp(m) < 0 || T.Cmp(twoM) >= 0 {
									continue
								}
								cnt++
								if cnt%stride != 0 {
									continue
								}
								targets = append(targets, T)
							}
						}
					}
				}
			}
			var realisedMul, realisedSq int64
			hk.Parallel(len(targets), func(i int) {
				lr := hk.NewRNG(hk.Seed(), fmt.Sprintf("c16acc/%s/%d", f.name, i))
				T := targets[i]
				res := new(big.Int).Sub(T, m)
				rR := mod(new(big.Int).Mul(res, R))
				for rep := 0; rep < 2; rep++ {
					A := mod(new(big.Int).SetBytes(lr.Bytes(32)))
					if A.Sign() == 0 {
						continue
					}
					B := mod(new(big.Int).Mul(rR, new(big.Int).ModInverse(A, m)))
					got := f.mul(f.setRaw(limbs4(A)), f.setRaw(limbs4(B)))
					hit := accOf(A, B).Cmp(T) == 0
					if hit {
						atomic.AddInt64(&realisedMul, 1)
					}
					if f.raw(got) != limbs4(res) {
						r.Violation(fmt.Sprintf("field-%s-mul-wrong-for-solved-accumulator", f.name), hk.D{"field": f.name, "internal_limbs_a": fmt.Sprintf("%016x", limbs4(A)), "internal_limbs_b": fmt.Sprintf("%016x", limbs4(B)),
							"accumulator_before_final_subtraction": accOf(A, B).Text(16), "got_limbs": fmt.Sprintf("%016x", f.raw(got)), "want_limbs": fmt.Sprintf("%016x", limbs4(res))})
					}
				}
				n := 2
				s0 := new(big.Int).Exp(rR, sqrtExp, m)
				if mod(new(big.Int).Mul(s0, s0)).Cmp(rR) == 0 {
					for _, X := range []*big.Int{s0, mod(new(big.Int).Neg(s0))} {
						got := f.square(f.setRaw(limbs4(X)))
						if accOf(X, X).Cmp(T) == 0 {
							atomic.AddInt64(&realisedSq, 1)
						}
						if f.raw(got) != limbs4(res) {
							r.Violation(fmt.Sprintf("field-%s-square-wrong-for-solved-accumulator", f.name), hk.D{"field": f.name, "internal_limbs_x": fmt.Sprintf("%016x", limbs4(X)),
								"accumulator_before_final_subtraction": accOf(X, X).Text(16), "got_limbs": fmt.Sprintf("%016x", f.raw(got)), "want_limbs": fmt.Sprintf("%016x", limbs4(res))})
						}
						got2 := f.aliasMul(f.setRaw(limbs4(X)))
						if f.raw(got2) != limbs4(res) {
							r.Violation(fmt.Sprintf("field-%s-mul-alias-wrong-for-solved-accumulator", f.name), hk.D{"field": f.name, "internal_limbs_x": fmt.Sprintf("%016x", limbs4(X))})
						}
						n += 2
					}
				}
				tl := limbs4(new(big.Int).Mod(T, R))
				r.EvalN(fmt.Sprintf("field-%s:solved-accumulator,bit256=%d,limb2=%016x", f.name, T.Bit(256), tl[2]), n)
			})
			_ = rinv
			r.Count("patterned_accumulators_realised_mul_"+f.name, realisedMul)
			r.Count("patterned_accumulators_realised_square_"+f.name, realisedSq)
			r.Note("patterned_accumulator_targets_"+f.name, len(targets))
			if realisedMul == 0 || realisedSq == 0 {
				r.Inconclusive("c16: no patterned pre-subtraction accumulator was realised")
			}
		}

		// one / zero
		chk("one", f.one(), big.NewInt(1))
		chk("zero-value", f.zero(), big.NewInt(0))

		// decoding must reject every value in [m, 2^256) — sampled at the edges and randomly
		var nonCanon []*big.Int
		for dlt := int64(0); dlt < 300; dlt++ {
			nonCanon = append(nonCanon, new(big.Int).Add(m, big.NewInt(dlt)))
			nonCanon = append(nonCanon, new(big.Int).Sub(c16B256, big.NewInt(dlt+1)))
		}
		mb := c16b32(new(big.Int).Sub(m, c16One))
		for i := 0; i < 32; i++ { // values that exceed m-1 first at byte i
			if mb[i] == 0xff {
				continue
			}
			b := append([]byte{}, mb...)
			b[i]++
			for j := i + 1; j < 32; j++ {
				b[j] = 0
			}
			nonCanon = append(nonCanon, new(big.Int).SetBytes(b))
			for j := i + 1; j < 32; j++ {
				b[j] = byte(zvLrand(rng))
			}
			nonCanon = append(nonCanon, new(big.Int).SetBytes(b))
		}
		span := new(big.Int).Sub(c16B256, m)
		for i := 0; i < hk.N(2000, 20000); i++ {
			v := new(big.Int).SetBytes(rng.Bytes(32))
			v.Mod(v, span)
			nonCanon = append(nonCanon, v.Add(v, m))
		}
		for _, v := range nonCanon {
			b := c16b32(v)
			e, err := f.set(b)
			if err == nil {
				r.Violation(fmt.Sprintf("field-%s-setbytes-accepts-noncanonical", f.name), hk.D{"v": hk.Hex(b), "decoded": hk.Hex(f.bytes(e))})
			}
		}
		r.EvalN(fmt.Sprintf("field-%s:setbytes-noncanonical", f.name), len(nonCanon))
		// values just below the modulus must be accepted
		for dlt := int64(1); dlt < 300; dlt++ {
			v := new(big.Int).Sub(m, big.NewInt(dlt))
			if _, err := f.set(c16b32(v)); err != nil {
				r.Violation(fmt.Sprintf("field-%s-setbytes-rejects-canonical", f.name), hk.D{"v": hk.Hex(c16b32(v))})
			}
		}
		r.EvalN(fmt.Sprintf("field-%s:setbytes-canonical-edge", f.name), 299)
		// wrong lengths
		for l := 0; l <= 40; l++ {
			if l == 32 {
				continue
			}
			if _, err := f.set(make([]byte, l)); err == nil {
				r.Violation(fmt.Sprintf("field-%s-setbytes-accepts-wrong-length", f.name), hk.D{"len": l})
			}
		}
		r.EvalN(fmt.Sprintf("field-%s:setbytes-length", f.name), 40)
	}

	// SetBytes must leave the receiver unchanged on error
	{
		e, _ := new(SM2Element).SetBytes(c16b32(big.NewInt(77)))
		e.SetBytes(c16b32(c16P))
		if !bytes.Equal(e.Bytes(), c16b32(big.NewInt(77))) {
			r.Violation("field-p-setbytes-error-clobbers-receiver", hk.D{})
		}
		s, _ := new(SM2ScalarElement).SetBytes(c16b32(big.NewInt(77)))
		s.SetBytes(c16b32(c16N))
		if !bytes.Equal(s.Bytes(), c16b32(big.NewInt(77))) {
			r.Violation("field-n-setbytes-error-clobbers-receiver", hk.D{})
		}
		r.Eval("setbytes-error-keeps-receiver")
	}

	// long-lived element objects (zz_verif_c16walk_test.go)
	c16walks(r, rng)

	// MultiSelect: masked selection over a table returns entry bits-1, or the fallback for bits=0
	var widths []int
	for w := 1; w <= 130; w++ {
		widths = append(widths, w) // every width, odd and even: the loop stride / tail of the implementation is not the caller's concern
	}
	widths = append(widths, 200, 254, 255)
	for _, width := range widths {
		tbl := make([]*[4]uint64, width)
		for i := range tbl {
			tbl[i] = &[4]uint64{rng.Uint64(), rng.Uint64(), rng.Uint64(), rng.Uint64()}
		}
		fb := new(SM2Element).SetRaw([4]uint64{rng.Uint64(), rng.Uint64(), rng.Uint64(), rng.Uint64()})
		for bits := 0; bits <= width; bits++ {
			for _, cond := range []int{0, 1} {
				out := new(SM2Element).SetRaw([4]uint64{9, 9, 9, 9})
				out.MultiSelect(&tbl, width, byte(bits), fb, cond)
				var want [4]uint64
				if bits > 0 {
					want = *tbl[bits-1]
				}
				// contract used by the callers: fallbackCond = 1 iff bits != 0; then the fallback is masked out
				if cond == 0 {
					for k := 0; k < 4; k++ {
						want[k] |= fb.GetRaw()[k]
					}
				}
				if (bits == 0) == (cond == 0) { // the combinations the library uses
					if *out.GetRaw() != want {
						r.Violation("multiselect-wrong", hk.D{"width": width, "bits": bits, "cond": cond})
					}
					// the way the point routines call it: the receiver IS the fallback (q.x.MultiSelect(tbl, w, bits, q.x, mask))
					self := new(SM2Element).SetRaw(*fb.GetRaw())
					self.MultiSelect(&tbl, width, byte(bits), self, cond)
					if *self.GetRaw() != want {
						r.Violation("multiselect-wrong:receiver-is-the-fallback", hk.D{"width": width, "bits": bits, "cond": cond})
					}
					r.Eval(fmt.Sprintf("multiselect:width%%4=%d,last=%v", width%4, bits == width))
				}
			}
		}
	}
}

func zvLrand(r *hk.RNG) int { return r.Intn(256) }
