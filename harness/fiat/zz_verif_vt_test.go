//go:build verif

package fiat

import (
	"os"
	"runtime"
	"runtime/debug"
	"testing"
	"unsafe"
)

// Workload for the C16 op-trace monitor: one field inversion and one scalar-field
// inversion are executed while tools/vtrace logs every call of sm2Mul, sm2Square,
// sm2ScalarMul and sm2ScalarSquare (log-only breakpoints; Go register ABI: AX =
// out, BX = arg1, CX = arg2). The offline monitor replays the calls on exponents
// (x -> 1, square doubles, multiply adds) and requires the result to carry
// exactly p-2, respectively n-2.

var vtOpSink uintptr

//go:noinline
func vtOpBegin(kind uint64, x, z unsafe.Pointer) { vtOpSink += uintptr(kind) + uintptr(x) + uintptr(z) }

//go:noinline
func vtOpEnd(kind uint64) { vtOpSink += uintptr(kind) }

//go:noinline
func vtGrowStack(n int) int {
	var pad [4096]byte
	pad[n%4096] = byte(n)
	if n <= 0 {
		return int(pad[0])
	}
	return vtGrowStack(n-1) + int(pad[n%4096])
}

func TestVtraceInvert(t *testing.T) {
	if os.Getenv("VERIF_VT_OPTRACE") == "" {
		t.Skip("only runs under tools/vtrace")
	}
	runtime.LockOSThread()
	debug.SetGCPercent(-1)
	vtOpSink += uintptr(vtGrowStack(64)) // no stack growth (function re-entry) while tracing
	var x, z sm2MontgomeryDomainFieldElement
	e, _ := new(SM2Element).SetBytes([]byte{0, 0, 0, 0, 0, 0, 0, 0, 0, 0, 0, 0, 0, 0, 0, 0, 0, 0, 0, 0, 0, 0, 0, 0, 0, 0, 0, 0, 0, 0, 0x12, 0x34})
	x = e.x
	for rep := 0; rep < 2; rep++ {
		vtOpBegin(uint64(1+2*rep), unsafe.Pointer(&x), unsafe.Pointer(&z)) // kind 1 (warm-up), 3 (judged)
		sm2FermatInvert_FiatAC(&z, &x)
		vtOpEnd(uint64(1 + 2*rep))
	}
	var sx, sz sm2ScalarMontgomeryDomainFieldElement
	s, _ := new(SM2ScalarElement).SetBytes([]byte{0, 0, 0, 0, 0, 0, 0, 0, 0, 0, 0, 0, 0, 0, 0, 0, 0, 0, 0, 0, 0, 0, 0, 0, 0, 0, 0, 0, 0, 0, 0x56, 0x78})
	sx = s.x
	for rep := 0; rep < 2; rep++ {
		vtOpBegin(uint64(2+2*rep), unsafe.Pointer(&sx), unsafe.Pointer(&sz)) // kind 2 (warm-up), 4 (judged)
		sm2ScalarFermatInvert_FiatAC(&sz, &sx)
		vtOpEnd(uint64(2 + 2*rep))
	}
	// the public wrappers must use exactly these routines
	vtOpBegin(5, unsafe.Pointer(&e.x), nil)
	r := new(SM2Element).Invert(e)
	vtOpEnd(5)
	vtOpBegin(6, unsafe.Pointer(&s.x), nil)
	rs := new(SM2ScalarElement).Invert(s)
	vtOpEnd(6)
	vtOpSink += uintptr(r.x[0]) + uintptr(rs.x[0]) + uintptr(z[0]) + uintptr(sz[0])
}
