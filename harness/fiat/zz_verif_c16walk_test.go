//go:build verif

package fiat

import (
	"bytes"
	"fmt"
	"math/big"

	"github.com/bilibili/smgo/zzverif/hk"
)

// C16 - long-lived ELEMENT objects. The per-operation checks use a fresh receiver for every call; here a small pool
// of objects lives through random sequences of every method with the objects themselves as receivers (aliasing
// their operands in every pattern), shadowed by integers. After every step EVERY object is read through Bytes(),
// ToBigInt(), IsZero() and Equal(): whatever an object remembers from an earlier value (a cached encoding, a flag)
// must have followed the update.
type c16walkOps struct {
	name string
	mod  *big.Int
	n    int
	// op codes: 0 add, 1 sub, 2 mul, 3 square, 4 invert, 5 select, 6 set, 7 setbytes, 8 one
	apply   func(op, a, b, c, cond int, enc []byte)
	bytesOf func(i int) []byte
	big     func(i int) *big.Int
	isZero  func(i int) int
	equal   func(i, j int) int
}

func c16walk(r *hk.Reporter, rng *hk.RNG, w *c16walkOps, walks, steps int, init func(i int, v *big.Int)) {
	names := []string{"Add", "Sub", "Mul", "Square", "Invert", "Select", "Set", "SetBytes", "One"}
	for wk := 0; wk < walks; wk++ {
		shadow := make([]*big.Int, w.n)
		for i := range shadow {
			shadow[i] = new(big.Int).Mod(new(big.Int).SetBytes(rng.Bytes(32)), w.mod)
			if rng.Intn(5) == 0 {
				shadow[i] = big.NewInt(int64(rng.Intn(3)))
			}
			init(i, shadow[i])
		}
		var hist []string
		for st := 0; st < steps; st++ {
			op, a, b, c, cond := rng.Intn(9), rng.Intn(w.n), rng.Intn(w.n), rng.Intn(w.n), rng.Intn(2)
			var enc []byte
			var nv *big.Int
			switch op {
			case 0:
				nv = new(big.Int).Add(shadow[b], shadow[c])
			case 1:
				nv = new(big.Int).Sub(shadow[b], shadow[c])
			case 2:
				nv = new(big.Int).Mul(shadow[b], shadow[c])
			case 3:
				nv = new(big.Int).Mul(shadow[b], shadow[b])
			case 4:
				if b == a {
					// z.Invert(z) is outside what the library does and what the statement quantifies over (DESIGN section 7)
					op, nv = 6, new(big.Int).Set(shadow[b])
				} else if shadow[b].Sign() == 0 {
					nv = big.NewInt(0)
				} else {
					nv = new(big.Int).ModInverse(shadow[b], w.mod)
				}
			case 5:
				if cond == 1 {
					nv = new(big.Int).Set(shadow[b])
				} else {
					nv = new(big.Int).Set(shadow[c])
				}
			case 6:
				nv = new(big.Int).Set(shadow[b])
			case 7:
				nv = new(big.Int).Set(shadow[b])
				enc = c16b32(nv)
			default:
				nv = big.NewInt(1)
			}
			nv.Mod(nv, w.mod)
			hist = append(hist, fmt.Sprintf("o%d.%s(o%d,o%d,%d)", a, names[op], b, c, cond))
			p, msg, _, _ := hk.Try(func() { w.apply(op, a, b, c, cond, enc) })
			shadow[a] = nv
			if p {
				r.Violation(fmt.Sprintf("field-%s-object-history-panics", w.name), hk.D{"history": hist, "panic": msg})
				break
			}
			bad := false
			for i := 0; i < w.n && !bad; i++ {
				want := c16b32(shadow[i])
				z := 0
				if shadow[i].Sign() == 0 {
					z = 1
				}
				switch {
				case !bytes.Equal(w.bytesOf(i), want):
					r.Violation(fmt.Sprintf("field-%s-object-history:Bytes-does-not-follow-the-update", w.name), hk.D{"history": hist, "object": i, "got": hk.Hex(w.bytesOf(i)), "want": hk.Hex(want)})
					bad = true
				case w.big(i).Cmp(shadow[i]) != 0:
					r.Violation(fmt.Sprintf("field-%s-object-history:ToBigInt-does-not-follow-the-update", w.name), hk.D{"history": hist, "object": i})
					bad = true
				case w.isZero(i) != z:
					r.Violation(fmt.Sprintf("field-%s-object-history:IsZero-does-not-follow-the-update", w.name), hk.D{"history": hist, "object": i})
					bad = true
				}
				j := (i + 1) % w.n
				eq := 0
				if shadow[i].Cmp(shadow[j]) == 0 {
					eq = 1
				}
				if !bad && w.equal(i, j) != eq {
					r.Violation(fmt.Sprintf("field-%s-object-history:Equal-does-not-follow-the-update", w.name), hk.D{"history": hist, "objects": []int{i, j}})
					bad = true
				}
			}
			if bad {
				break
			}
		}
		r.Eval(fmt.Sprintf("field-%s:object-history", w.name))
	}
}

func c16walks(r *hk.Reporter, rng *hk.RNG) {
	const n = 4
	{
		objs := make([]*SM2Element, n)
		w := &c16walkOps{name: "p", mod: c16P, n: n,
			apply: func(op, a, b, c, cond int, enc []byte) {
				switch op {
				case 0:
					objs[a].Add(objs[b], objs[c])
				case 1:
					objs[a].Sub(objs[b], objs[c])
				case 2:
					objs[a].Mul(objs[b], objs[c])
				case 3:
					objs[a].Square(objs[b])
				case 4:
					objs[a].Invert(objs[b])
				case 5:
					objs[a].Select(objs[b], objs[c], cond)
				case 6:
					objs[a].Set(objs[b])
				case 7:
					if _, err := objs[a].SetBytes(enc); err != nil {
						panic("SetBytes rejects a canonical value")
					}
				default:
					objs[a].One()
				}
			},
			bytesOf: func(i int) []byte { return objs[i].Bytes() },
			big:     func(i int) *big.Int { return objs[i].ToBigInt() },
			isZero:  func(i int) int { return objs[i].IsZero() },
			equal:   func(i, j int) int { return objs[i].Equal(objs[j]) },
		}
		c16walk(r, rng, w, hk.N(60, 600), 40, func(i int, v *big.Int) {
			objs[i] = new(SM2Element)
			objs[i].SetBytes(c16b32(v))
		})
	}
	{
		objs := make([]*SM2ScalarElement, n)
		w := &c16walkOps{name: "n", mod: c16N, n: n,
			apply: func(op, a, b, c, cond int, enc []byte) {
				switch op {
				case 0:
					objs[a].Add(objs[b], objs[c])
				case 1:
					objs[a].Sub(objs[b], objs[c])
				case 2:
					objs[a].Mul(objs[b], objs[c])
				case 3:
					objs[a].Square(objs[b])
				case 4:
					objs[a].Invert(objs[b])
				case 5:
					objs[a].Select(objs[b], objs[c], cond)
				case 6:
					objs[a].Set(objs[b])
				case 7:
					if _, err := objs[a].SetBytes(enc); err != nil {
						panic("SetBytes rejects a canonical value")
					}
				default:
					objs[a].One()
				}
			},
			bytesOf: func(i int) []byte { return objs[i].Bytes() },
			big:     func(i int) *big.Int { return objs[i].ToBigInt() },
			isZero:  func(i int) int { return objs[i].IsZero() },
			equal:   func(i, j int) int { return objs[i].Equal(objs[j]) },
		}
		c16walk(r, rng, w, hk.N(60, 600), 40, func(i int, v *big.Int) {
			objs[i] = new(SM2ScalarElement)
			objs[i].SetBytes(c16b32(v))
		})
	}
}
