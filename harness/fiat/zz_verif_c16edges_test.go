//go:build verif

package fiat

import (
	"encoding/json"
	"fmt"
	"io/ioutil"
	"math/big"
	"os"
	"path/filepath"
	"strconv"
	"testing"

	"github.com/bilibili/smgo/zzverif/hk"
)

// C16 — CARRY-EVENT vectors. The word-by-word routines are straight-line code; their rare paths are carry
// events inside bits.Add64 / bits.Sub64 (a carry produced only by the carry-in, an operand equal to
// 2^64-1 or 0 when a carry / borrow arrives, a borrow between equal words ...), many with probability
// 2^-32 .. 2^-64 for random and for "nice" operands. fixtures/fiat_edge_vectors.json holds, for every
// (function, adder site, event class) that could be reached, one operand tuple that raises it - found by
// interpreting the Go source over Python integers and by solving single limbs with Z3
// (tools/fixturegen/fiat_edges.py; the report part of the file lists what was not reached and how
// often Z3 proved it unreachable for a concretisation). The monitor replays each vector through the
// real routine (via the element methods) and compares limb for limb with integer arithmetic.

type zvEdgeVec struct {
	Fn    string     `json:"fn"`
	Site  string     `json:"site"`
	Event string     `json:"event"`
	Args  [][]string `json:"args"`
}

type zvEdgeFile struct {
	Vectors []zvEdgeVec `json:"vectors"`
	Report  map[string]struct {
		EventClasses int             `json:"event_classes"`
		Reached      int             `json:"reached"`
		NotReached   [][]interface{} `json:"not_reached"`
	} `json:"report"`
}

func TestVerifC16Edges(t *testing.T) {
	r := hk.NewReporter("C16", "fiat-carry-events")
	defer r.Close()
	dir := os.Getenv("VERIF_FIXTURES")
	if dir == "" {
		dir = "/verif/fixtures"
	}
	data, err := ioutil.ReadFile(filepath.Join(dir, "fiat_edge_vectors.json"))
	if err != nil {
		r.Inconclusive("carry-event fixture: " + err.Error())
		return
	}
	var ef zvEdgeFile
	if err := json.Unmarshal(data, &ef); err != nil {
		r.Inconclusive("carry-event fixture: " + err.Error())
		return
	}
	R := new(big.Int).Lsh(big.NewInt(1), 256)
	fields := map[bool]*zvFieldOps{false: zvFieldP(), true: zvFieldN()}
	limbs4 := func(v *big.Int) [4]uint64 {
		ls := zvLimbsOf(v)
		return [4]uint64{ls[0], ls[1], ls[2], ls[3]}
	}
	perFn := map[string]int{}
	for _, v := range ef.Vectors {
		scalar := len(v.Fn) > 9 && v.Fn[:9] == "sm2Scalar"
		f := fields[scalar]
		m := f.mod
		rinv := new(big.Int).ModInverse(R, m)
		op := v.Fn[3:]
		if scalar {
			op = v.Fn[9:]
		}
		var args [][4]uint64
		okArgs := true
		for _, a := range v.Args {
			var l [4]uint64
			for i := 0; i < 4 && i < len(a); i++ {
				x, err := strconv.ParseUint(a[i], 16, 64)
				if err != nil {
					okArgs = false
				}
				l[i] = x
			}
			if zvFromLimbs(l).Cmp(m) >= 0 {
				okArgs = false
			}
			args = append(args, l)
		}
		if !okArgs || len(args) == 0 {
			r.Inconclusive("carry-event fixture: malformed vector for " + v.Fn)
			continue
		}
		A := zvFromLimbs(args[0])
		var B *big.Int
		if len(args) > 1 {
			B = zvFromLimbs(args[1])
		}
		mod := func(x *big.Int) *big.Int { return x.Mod(x, m) }
		var got [4]uint64
		var want *big.Int
		p, msg, _, _ := hk.Try(func() {
			switch op {
			case "Mul":
				got = f.raw(f.mul(f.setRaw(args[0]), f.setRaw(args[1])))
				want = mod(new(big.Int).Mul(new(big.Int).Mul(A, B), rinv))
			case "Square":
				got = f.raw(f.square(f.setRaw(args[0])))
				want = mod(new(big.Int).Mul(new(big.Int).Mul(A, A), rinv))
			case "Add":
				got = f.raw(f.add(f.setRaw(args[0]), f.setRaw(args[1])))
				want = mod(new(big.Int).Add(A, B))
			case "Sub":
				got = f.raw(f.sub(f.setRaw(args[0]), f.setRaw(args[1])))
				want = mod(new(big.Int).Sub(A, B))
			case "Opp":
				if f.opp == nil {
					// the scalar type has no Opp method: 0 - a goes through the same routine family
					got = f.raw(f.sub(f.zero(), f.setRaw(args[0])))
				} else {
					got = f.raw(f.opp(f.setRaw(args[0])))
				}
				want = mod(new(big.Int).Neg(A))
			case "FromMontgomery":
				// internal limbs -> canonical bytes
				b := f.bytes(f.setRaw(args[0]))
				got = limbs4(new(big.Int).SetBytes(b))
				want = mod(new(big.Int).Mul(A, rinv))
			case "ToMontgomery":
				// canonical integer -> internal limbs
				e, err := f.set(c16b32(A))
				if err != nil {
					panic("SetBytes rejects a canonical value")
				}
				got = f.raw(e)
				want = mod(new(big.Int).Mul(A, R))
			default:
				panic("unknown routine " + op)
			}
		})
		d := hk.D{"routine": v.Fn, "adder_site": v.Site, "carry_event": v.Event, "operand_limbs": v.Args}
		if p {
			d["panic"] = msg
			r.Violation("field-routine-panics-on-carry-event-vector:"+v.Fn, d)
		} else if got != limbs4(want) {
			d["got_limbs"], d["want_limbs"] = fmt.Sprintf("%016x", got), fmt.Sprintf("%016x", limbs4(want))
			r.Violation("field-routine-wrong-on-carry-event-vector:"+v.Fn, d)
		}
		perFn[v.Fn]++
		r.Eval(fmt.Sprintf("carry-event:%s:%s", v.Fn, v.Event))
	}
	for fn, rep := range ef.Report {
		r.Note("carry_events_"+fn, map[string]int{"event_classes": rep.EventClasses, "reached_by_a_vector": rep.Reached, "replayed": perFn[fn]})
	}
	if len(ef.Vectors) < 100 {
		r.Inconclusive("carry-event fixture holds too few vectors")
	}
}
