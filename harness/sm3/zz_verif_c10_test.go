//go:build verif

package sm3

import (
	"bytes"
	"fmt"
	"testing"

	"github.com/bilibili/smgo/zzverif/hk"
	"github.com/bilibili/smgo/zzverif/ref"
)

// C10 (SM3 part) — Sum follows the append rule for every (len, cap) of its
// argument; Write does not modify its input (write-protected pages).
func TestVerifC10SM3(t *testing.T) {
	r := hk.NewReporter("C10", "sm3-buffers")
	defer r.Close()
	if err := ref.SelfTestSM3(); err != nil {
		r.Inconclusive("oracle self-test: " + err.Error())
		return
	}
	rng := hk.NewRNG(hk.Seed(), "c10sm3")
	pool := hk.NewPool()
	for i := 0; i < hk.N(400, 4000); i++ {
		n := rng.Pick([]int{0, 1, 55, 56, 63, 64, 65, 119, 120, 200, 1000})
		data := rng.Bytes(n)
		g := pool.Get(n, []int{hk.PlaceMid, hk.PlaceEnd, hk.PlaceStart}[i%3])
		g.Writable()
		copy(g.B, data)
		g.ReadOnly()
		h := New()
		p, pm, isFault, _ := hk.Try(func() { h.Write(g.B[:n/2]); h.Write(g.B[n/2:]) })
		if p {
			r.Violation("sm3-write-faults-on-readonly-input", hk.D{"len": n, "panic": pm, "fault": isFault})
			pool.Put(g)
			continue
		}
		if !bytes.Equal(g.B, data) {
			r.Violation("sm3-write-modifies-input", hk.D{"len": n})
		}
		one := SumSM3(g.B)
		digest := ref.SM3(data)
		if !bytes.Equal(one[:], digest) {
			r.Violation("sm3-sumsm3-wrong-on-readonly-input", hk.D{"len": n})
		}
		// the message is the FRONT of a larger buffer (spare capacity behind it holds the caller's other data): neither
		// the one-shot function nor Write may touch what lies behind the message
		{
			room := []int{1, 9, 64, 73, 200}[i%5]
			bb := make([]byte, n+room)
			copy(bb, data)
			for j := n; j < len(bb); j++ {
				bb[j] = byte(0xC3 ^ j)
			}
			snap := append([]byte{}, bb...)
			d1 := SumSM3(bb[:n])
			h2 := New()
			h2.Write(bb[:n/3])
			h2.Write(bb[n/3 : n])
			d2 := h2.Sum(nil)
			if !bytes.Equal(bb, snap) {
				r.Violation("sm3-writes-into-the-spare-capacity-behind-its-message", hk.D{"len": n, "capacity": len(bb), "before": zvClipHex(snap[n:]), "after": zvClipHex(bb[n:])})
			}
			if !bytes.Equal(d1[:], digest) || !bytes.Equal(d2, digest) {
				r.Violation("sm3-digest-wrong-for-message-with-spare-capacity", hk.D{"len": n, "capacity": len(bb)})
			}
			r.Eval(fmt.Sprintf("sm3|message-with-spare-capacity|room=%d", room))
		}
		for _, shape := range [][2]int{{0, 0}, {0, 32}, {0, 100}, {1, 1}, {5, 36}, {5, 37}, {5, 38}, {31, 31}, {33, 200}} {
			backing := make([]byte, shape[1]+40)
			for j := range backing {
				backing[j] = byte(0xB0 ^ j)
			}
			snapshot := append([]byte{}, backing...)
			in := backing[:shape[0]:shape[1]]
			var dst []byte
			if shape[1] == 0 && i%2 == 0 {
				in = nil
			}
			for rep := 0; rep < 2; rep++ {
				dst = h.Sum(in)
				want := append(append([]byte{}, snapshot[:len(in)]...), digest...)
				if !bytes.Equal(dst, want) {
					r.Violation(fmt.Sprintf("sm3-sum-result-not-arg+digest:len=%d,cap=%d", shape[0], shape[1]), hk.D{"msglen": n, "got": hk.Hex(dst), "repeat": rep})
				}
			}
			if !bytes.Equal(backing[cap(in):], snapshot[cap(in):]) {
				r.Violation("sm3-sum-writes-beyond-capacity", hk.D{"len": shape[0], "cap": shape[1]})
			}
			// the APPEND rule, as the built-in append keeps it: with room for 32 more bytes the digest is written into the
			// argument's own storage (h.Sum(buf[:0]) fills buf); without room the argument's storage is left alone
			if in != nil && cap(in)-len(in) >= Size {
				if &dst[0] != &backing[0] || !bytes.Equal(backing[len(in):len(in)+Size], digest) {
					r.Violation("sm3-sum-does-not-append-into-the-spare-capacity-of-its-argument", hk.D{"len": shape[0], "cap": shape[1], "storage_after": hk.Hex(backing[:len(in)+Size]), "digest": hk.Hex(digest)})
				}
			} else if !bytes.Equal(backing[:cap(in)], snapshot[:cap(in)]) {
				r.Violation("sm3-sum-writes-into-an-argument-without-room", hk.D{"len": shape[0], "cap": shape[1]})
			}
			r.Eval(fmt.Sprintf("sm3|sum|len=%d,cap=%d", shape[0], shape[1]))
		}
		pool.Put(g)
	}
	r.Sample(hk.D{"op": "Sum(in)", "shapes": "nil, len0/cap32, len5/cap36..38 (one short / exact / one spare), len=cap, large spare", "write_input": "PROT_READ pages"})
}

func zvClipHex(b []byte) string {
	if len(b) > 96 {
		b = b[:96]
	}
	return hk.Hex(b)
}
