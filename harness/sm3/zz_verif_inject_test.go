//go:build verif

package sm3

import (
	"reflect"
	"unsafe"
)

// injectSM3 builds a hash object in a chosen internal state (chaining value h, `buffered` bytes waiting in
// the block buffer, `total` bytes absorbed so far). It goes through reflection so that the monitors keep
// compiling when a field changes its integer type; ok=false (the layout is not the expected one:
// fields h [8]uint32, x [64]byte, nx <integer>, len <integer>) makes the state-injection cases
// not applicable, never a verdict.
func zvInjectSM3(h [8]uint32, buffered []byte, total uint64) (obj *SM3, ok bool) {
	defer func() {
		if recover() != nil {
			obj, ok = nil, false
		}
	}()
	obj = new(SM3)
	v := reflect.ValueOf(obj).Elem()
	field := func(name string) reflect.Value {
		f := v.FieldByName(name)
		if !f.IsValid() {
			panic("missing field")
		}
		return reflect.NewAt(f.Type(), unsafe.Pointer(f.UnsafeAddr())).Elem()
	}
	setInt := func(f reflect.Value, val uint64) {
		switch f.Kind() {
		case reflect.Int, reflect.Int8, reflect.Int16, reflect.Int32, reflect.Int64:
			f.SetInt(int64(val))
		case reflect.Uint, reflect.Uint8, reflect.Uint16, reflect.Uint32, reflect.Uint64, reflect.Uintptr:
			f.SetUint(val)
		default:
			panic("not an integer")
		}
	}
	fh := field("h")
	if fh.Type() != reflect.TypeOf(h) {
		panic("h")
	}
	fh.Set(reflect.ValueOf(h))
	fx := field("x")
	if fx.Kind() != reflect.Array || fx.Len() != 64 || fx.Type().Elem().Kind() != reflect.Uint8 {
		panic("x")
	}
	for i, c := range buffered {
		fx.Index(i).SetUint(uint64(c))
	}
	setInt(field("nx"), uint64(len(buffered)))
	setInt(field("len"), total)
	return obj, true
}
