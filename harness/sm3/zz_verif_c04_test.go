//go:build verif

package sm3

import (
	"bytes"
	"fmt"
	"hash"
	"io"
	"testing"

	"github.com/bilibili/smgo/zzverif/hk"
	"github.com/bilibili/smgo/zzverif/ref"
)

// C04 — history monitor: every Write/Sum/Reset history on a hash value is
// replayed against a shadow state (the concatenation since the last Reset) and
// the one-shot reference digest.

type c04mon struct {
	r      *hk.Reporter
	h      hash.Hash
	shadow []byte
	hist   []string
	// results belong to the caller: every slice a Sum returned, with a private copy of what it held
	kept [][2][]byte
}

// checkKept: no later operation on the hash may change a result handed out earlier.
func (m *c04mon) checkKept() {
	for i, k := range m.kept {
		if !bytes.Equal(k[0], k[1]) {
			m.fail("earlier-sum-result-changed-by-later-operation", hk.D{"which_sum": i, "now": hk.Hex(k[0]), "returned": hk.Hex(k[1])})
			m.kept = nil
			return
		}
	}
}

func (m *c04mon) fail(kind string, d hk.D) {
	d["history"] = m.hist
	m.r.Violation(kind, d)
}

func (m *c04mon) write(b []byte) {
	m.hist = append(m.hist, fmt.Sprintf("W%d", len(b)))
	n, err := m.h.Write(b)
	m.shadow = append(m.shadow, b...)
	if err != nil {
		m.fail("write-returns-error", hk.D{"err": err.Error(), "len": len(b)})
	}
	if n != len(b) {
		m.fail("write-returns-wrong-count", hk.D{"n": n, "len": len(b)})
	}
}

func (m *c04mon) sum(prefix []byte, spare int) {
	m.hist = append(m.hist, fmt.Sprintf("S%d+%d", len(prefix), spare))
	in := make([]byte, len(prefix), len(prefix)+spare)
	copy(in, prefix)
	if len(prefix) == 0 && spare == 0 && len(m.hist)%2 == 0 {
		in = nil // the usual call
	}
	out := m.h.Sum(in)
	m.checkKept()
	if len(m.kept) < 8 {
		m.kept = append(m.kept, [2][]byte{out, append([]byte{}, out...)})
	}
	want := append(append([]byte{}, prefix...), ref.SM3(m.shadow)...)
	if !bytes.Equal(out, want) {
		m.fail("sum-wrong", hk.D{"msglen": len(m.shadow), "msg": hk.Hex(zvTrunc(m.shadow)), "got": hk.Hex(out), "want": hk.Hex(want), "prefix": len(prefix), "spare": spare})
	}
	if !bytes.Equal(in, prefix) {
		m.fail("sum-modified-argument", hk.D{"prefix": len(prefix)})
	}
}

func (m *c04mon) reset() {
	m.hist = append(m.hist, "R")
	m.h.Reset()
	m.checkKept()
	m.shadow = m.shadow[:0]
}

func zvTrunc(b []byte) []byte {
	if len(b) > 256 {
		return b[:256]
	}
	return b
}

func TestVerifC04(t *testing.T) {
	r := hk.NewReporter("C04", "sm3-history")
	defer r.Close()
	if err := ref.SelfTestSM3(); err != nil {
		r.Inconclusive("oracle self-test: " + err.Error())
		return
	}
	rng := hk.NewRNG(hk.Seed(), "c04")

	// ONE Write of a little more than 2^30 bytes (an untouched zero mapping; a file mapped into memory is hashed like
	// this): the per-call length crosses 30 bits. Oracle: the same bytes written in 2^26-byte pieces must give the same
	// digest - two histories of one message. Runs beside the rest of the check and is joined at its end.
	giantDone := make(chan struct{})
	go func() {
		defer close(giantDone)
		n := 1<<30 + 64 + 5
		z := hk.ZeroMap(n+4096, false)
		if z == nil {
			return
		}
		defer hk.Unmap(z)
		var want, got []byte
		var wn int
		var werr error
		var pm string
		var p bool
		pieces := make(chan struct{})
		go func() {
			defer close(pieces)
			h := New()
			for off := 0; off < n; off += 1 << 26 {
				end := off + 1<<26
				if end > n {
					end = n
				}
				h.Write(z[off:end])
			}
			want = h.Sum(nil)
		}()
		p, pm, _, _ = hk.Try(func() {
			one := New()
			wn, werr = one.Write(z[:n])
			got = one.Sum(nil)
		})
		<-pieces
		if p || wn != n || werr != nil || !bytes.Equal(got, want) {
			r.Violation("single-write-of-2^30-bytes-differs-from-writes-in-pieces", hk.D{"len": n, "write_returned": wn, "single_write": hk.Hex(got), "in_pieces": hk.Hex(want), "panic": pm})
		}
		r.Eval("giant-single-write:2^30+69")
	}()
	defer func() { <-giantDone }()

	if New().Size() != 32 || New().BlockSize() != 64 {
		r.Violation("size-or-blocksize", hk.D{"size": New().Size(), "block": New().BlockSize()})
	}

	// (1) exhaustive: every length 0..maxLen x every split into two Writes,
	// Sum after the prefix, twice at the end, then the hash keeps going.
	maxLen := hk.N(200, 400)
	msg := rng.Bytes(maxLen + 64)
	for l := 0; l <= maxLen; l++ {
		for sp := 0; sp <= l; sp++ {
			m := &c04mon{r: r, h: New()}
			m.write(msg[:sp])
			m.sum(nil, 0)
			m.write(msg[sp:l])
			m.sum(nil, 0)
			m.sum(nil, 0)
			if (l+sp)%17 == 0 {
				m.write(msg[l : l+1+(sp%63)])
				m.sum([]byte{1, 2, 3}, 40)
			}
			r.Eval(fmt.Sprintf("split:len%%64=%d,split%%64=%d", l%64, sp%64))
		}
		// one-shot
		got := SumSM3(msg[:l])
		if !bytes.Equal(got[:], ref.SM3(msg[:l])) {
			r.Violation("sumsm3-wrong", hk.D{"len": l, "msg": hk.Hex(msg[:l]), "got": hk.Hex(got[:])})
		}
		r.Eval(fmt.Sprintf("oneshot:len%%64=%d", l%64))
	}
	r.Sample(hk.D{"kind": "split", "history": []string{"W55", "S0+0", "W9", "S0+0", "S0+0"}})

	// (2) random histories: 1..12 chunks with emphasised boundary residues,
	// interleaved Sum (with/without spare capacity), Reset, zero-length writes.
	bound := []int{0, 1, 54, 55, 56, 57, 63, 64, 65, 119, 120, 121, 127, 128, 129, 183, 184, 191, 192}
	nHist := hk.N(6000, 60000)
	for i := 0; i < nHist; i++ {
		m := &c04mon{r: r, h: New()}
		nops := 1 + rng.Intn(12)
		pat := ""
		for j := 0; j < nops; j++ {
			switch k := rng.Intn(10); {
			case k < 6:
				var n int
				switch rng.Intn(4) {
				case 0:
					n = rng.Pick(bound)
				case 1:
					// complete the buffered block to a chosen residue
					target := rng.Pick(bound) % 64
					n = (target - len(m.shadow)%64 + 64) % 64
					if rng.Intn(3) == 0 {
						n += 64 * rng.Intn(4)
					}
				case 2:
					n = rng.Intn(300)
				default:
					n = rng.Intn(hk.N(3000, 20000))
				}
				m.write(rng.Bytes(n))
				pat += "W"
			case k < 8:
				pl := rng.Pick([]int{0, 0, 1, 31, 32, 33})
				m.sum(rng.Bytes(pl), rng.Pick([]int{0, 0, 1, 31, 32, 33, 64}))
				pat += "S"
			case k == 8:
				m.reset()
				pat += "R"
			default:
				m.write(nil)
				pat += "Z"
			}
		}
		m.sum(nil, 0)
		m.sum(nil, 0)
		m.checkKept()
		r.Eval(fmt.Sprintf("hist:final%%64=%d,ops=%s", len(m.shadow)%64, zvCompress(pat)))
		if i == 0 {
			r.Sample(hk.D{"kind": "random-history", "history": m.hist})
		}
	}

	// (2a) INDEPENDENT hash values in many goroutines at once (each goroutine owns its values; nothing is shared by the
	// caller): histories and one-shot digests must come out as when run alone
	{
		nG := hk.N(4000, 40000)
		hk.Parallel(nG, func(i int) {
			lr := hk.NewRNG(hk.Seed(), fmt.Sprintf("c04par/%d", i))
			msg := lr.Bytes(lr.Pick([]int{0, 1, 55, 56, 63, 64, 65, 119, 120, 200, 1000}) + lr.Intn(3))
			want := ref.SM3(msg)
			h := New()
			cut := 0
			if len(msg) > 0 {
				cut = lr.Intn(len(msg) + 1)
			}
			h.Write(msg[:cut])
			mid := h.Sum(nil)
			h.Write(msg[cut:])
			got := h.Sum(nil)
			oneA := SumSM3(msg)
			one := oneA[:]
			if !bytes.Equal(got, want) || !bytes.Equal(one, want) || !bytes.Equal(mid, ref.SM3(msg[:cut])) {
				r.Violation("digest-wrong-when-independent-hashes-run-concurrently", hk.D{"msglen": len(msg), "split": cut, "streaming": hk.Hex(got), "one_shot": hk.Hex(one), "want": hk.Hex(want)})
			}
		})
		r.EvalN("hist:independent-values-concurrently", nG)
	}

	// (2a') the same calls from fresh goroutines at EVERY STACK DEPTH of a sweep: the stack is moved at another point
	// inside Write / Sum / SumSM3 each time (an address of the hash's buffer kept as a number across a call goes stale)
	{
		msgs := [][]byte{rng.Bytes(3), rng.Bytes(55), rng.Bytes(56), rng.Bytes(63), rng.Bytes(64), rng.Bytes(119), rng.Bytes(200), rng.Bytes(1000)}
		wants := make([][]byte, len(msgs))
		for i := range msgs {
			wants[i] = ref.SM3(msgs[i])
		}
		n := 0
		hk.AtStackDepths(hk.N(700, 3000), 96<<10, 8, func(depth int) {
			m, w := msgs[depth%len(msgs)], wants[depth%len(msgs)]
			h := New()
			h.Write(m[:len(m)/3])
			h.Write(m[len(m)/3:])
			got := h.Sum(nil)
			one := SumSM3(m)
			if !bytes.Equal(got, w) || !bytes.Equal(one[:], w) {
				r.Violation("digest-wrong-when-the-stack-grows-inside-the-call", hk.D{"stack_depth_frames": depth, "msglen": len(m), "streaming": hk.Hex(got), "one_shot": hk.Hex(one[:]), "want": hk.Hex(w)})
			}
		})
		n = hk.N(700, 3000)
		r.EvalN("hist:stack-depth-sweep", n)
	}

	// (2b) INJECTED mid-message states: every chaining value is reachable in principle, but special ones
	// (a word equal to 0, all words 0, all ones, equal to the IV) only with probability 2^-32 or less
	// per block. The monitor sets the hash object's internal state directly (in-package access) to
	// such a value, as if 64*k bytes had been absorbed, and continues the history from there; the
	// model continues from the same chaining value.
	{
		var states [][8]uint32
		for w := 0; w < 8; w++ {
			for _, v := range []uint32{0, 0xffffffff, ref.SM3IV[w]} {
				var h [8]uint32
				for i := range h {
					h[i] = uint32(rng.Uint64())
				}
				h[w] = v
				states = append(states, h)
			}
		}
		states = append(states, [8]uint32{}, [8]uint32{0xffffffff, 0xffffffff, 0xffffffff, 0xffffffff, 0xffffffff, 0xffffffff, 0xffffffff, 0xffffffff}, ref.SM3IV)
		for i := 0; i < hk.N(20, 200); i++ {
			var h [8]uint32
			for j := range h {
				h[j] = uint32(rng.Uint64())
			}
			states = append(states, h)
		}
		for si, h := range states {
			for _, blocks := range []uint64{1, 3} {
				for rep := 0; rep < 4; rep++ {
					var rest []byte
					if rep >= 2 {
						// and with bytes already buffered (mid-block state)
						rest = rng.Bytes(rng.Pick([]int{1, 55, 56, 63}))
					}
					obj, okInj := zvInjectSM3(h, rest, 64*blocks+uint64(len(rest)))
					if !okInj {
						r.Class("trivial:state-injection-not-applicable-on-this-layout")
						continue
					}
					var hist []string
					bad := false
					nops := 1 + rng.Intn(5)
					for op := 0; op < nops && !bad; op++ {
						switch rng.Intn(3) {
						case 0, 1:
							chunk := rng.Bytes(rng.Pick([]int{0, 1, 55, 56, 63, 64, 65, 100, 128, 200}))
							n, err := obj.Write(chunk)
							rest = append(rest, chunk...)
							hist = append(hist, fmt.Sprintf("W%d", len(chunk)))
							if err != nil || n != len(chunk) {
								bad = true
							}
						default:
							got := obj.Sum(nil)
							hist = append(hist, "S")
							if !bytes.Equal(got, ref.SM3Continue(h, 64*blocks, rest)) {
								bad = true
							}
						}
					}
					if !bad && !bytes.Equal(obj.Sum(nil), ref.SM3Continue(h, 64*blocks, rest)) {
						bad = true
					}
					if bad {
						r.Violation("sum-wrong-from-injected-chaining-value", hk.D{"chaining_value": fmt.Sprintf("%08x", h), "absorbed_blocks": blocks, "history": hist, "rest": hk.Hex(zvTrunc(rest))})
					}
					cls := "random"
					if si < 27 {
						cls = fmt.Sprintf("special%d", si)
					}
					r.Eval("injected-state:" + cls)
				}
			}
		}
	}

	// (2c) INJECTED byte counts: a message of 2^32 bytes and more cannot be hashed in a quick run, and one
	// of 2^61 - 64 bytes (the largest the standard's 64-bit bit-length field allows) never. The monitor
	// sets the object's byte counter as if that many bytes had been absorbed (chaining value random:
	// every value is reachable) and continues with real Writes across the interesting boundaries;
	// the model encodes the bit length from the same count.
	{
		var counts []uint64
		for _, sh := range []uint{29, 31, 32, 33, 35, 40, 48, 56, 60} {
			base := uint64(1) << sh
			counts = append(counts, base-64, base, base+64, base+64*uint64(1+rng.Intn(1000)))
		}
		counts = append(counts, 1<<61-128, 1<<61-192, 3<<32, 0xfffffffe<<6, 0xffffffff<<6, (1<<32-1)<<3&^63)
		for i := 0; i < hk.N(10, 100); i++ {
			counts = append(counts, (rng.Uint64()>>(3+uint(rng.Intn(40))))&^63)
		}
		for _, cnt := range counts {
			for rep := 0; rep < 3; rep++ {
				var h [8]uint32
				for j := range h {
					h[j] = uint32(rng.Uint64())
				}
				obj, okInj := zvInjectSM3(h, nil, cnt)
				if !okInj {
					r.Class("trivial:state-injection-not-applicable-on-this-layout")
					continue
				}
				var rest []byte
				var hist []string
				bad := false
				// stay below 2^61 bytes in total
				room := uint64(1<<61) - cnt
				for op := 0; op < 1+rep*2 && !bad; op++ {
					n := rng.Pick([]int{0, 1, 55, 56, 63, 64, 65, 128, 200})
					if uint64(len(rest)+n) >= room {
						n = 0
					}
					chunk := rng.Bytes(n)
					wn, err := obj.Write(chunk)
					rest = append(rest, chunk...)
					hist = append(hist, fmt.Sprintf("W%d", n))
					if err != nil || wn != n {
						bad = true
					}
					if rng.Intn(2) == 0 {
						hist = append(hist, "S")
						if !bytes.Equal(obj.Sum(nil), ref.SM3Continue(h, cnt, rest)) {
							bad = true
						}
					}
				}
				if !bad && !bytes.Equal(obj.Sum(nil), ref.SM3Continue(h, cnt, rest)) {
					bad = true
				}
				if bad {
					r.Violation("sum-wrong-from-injected-byte-count", hk.D{"chaining_value": fmt.Sprintf("%08x", h), "absorbed_bytes": cnt, "history": hist, "rest": hk.Hex(zvTrunc(rest))})
				}
				bl := 0
				for v := cnt; v > 0; v >>= 1 {
					bl++
				}
				r.Eval(fmt.Sprintf("injected-count:bitlen=%d", bl))
			}
		}
	}

	// (2d) blocks whose CONTENT has a vanishing aggregate: the sixteen message words sum to 0 mod 2^32, XOR to 0,
	// all words equal, byte sums / byte XOR zero - in data blocks and in the final PADDED block (the message is
	// solved so that message bytes, the 0x80 marker and the length field together cancel). A shortcut keyed
	// on such an aggregate ("all-zero block") is hit by them and by nothing random.
	{
		be := func(b []byte) uint32 { return uint32(b[0])<<24 | uint32(b[1])<<16 | uint32(b[2])<<8 | uint32(b[3]) }
		put := func(b []byte, v uint32) { b[0], b[1], b[2], b[3] = byte(v>>24), byte(v>>16), byte(v>>8), byte(v) }
		nAgg := 0
		judge := func(kind string, msg []byte) {
			for _, split := range []int{0, len(msg) / 2, len(msg)} {
				h := New()
				h.Write(msg[:split])
				h.Write(msg[split:])
				got := h.Sum(nil)
				one := SumSM3(msg)
				if want := ref.SM3(msg); !bytes.Equal(got, want) || !bytes.Equal(one[:], want) {
					r.Violation("digest-wrong-on-block-with-vanishing-aggregate:"+kind, hk.D{"msg": hk.Hex(zvTrunc(msg)), "msglen": len(msg), "split": split, "got": hk.Hex(got), "want": hk.Hex(want)})
					return
				}
			}
			nAgg++
		}
		for rep := 0; rep < hk.N(40, 400); rep++ {
			pre := rng.Bytes(64 * rng.Intn(3))
			// (i) a full data block with a vanishing aggregate, at every word position as the solved word
			for _, kind := range []string{"word-sum=0", "word-xor=0", "all-words-equal", "byte-sum=0", "byte-xor=0", "half-sums-cancel"} {
				blk := rng.Bytes(64)
				free := rng.Intn(16)
				switch kind {
				case "word-sum=0", "word-xor=0":
					var acc uint32
					for i := 0; i < 16; i++ {
						if i == free {
							continue
						}
						if kind == "word-sum=0" {
							acc += be(blk[4*i:])
						} else {
							acc ^= be(blk[4*i:])
						}
					}
					if kind == "word-sum=0" {
						put(blk[4*free:], -acc)
					} else {
						put(blk[4*free:], acc)
					}
				case "all-words-equal":
					for i := 1; i < 16; i++ {
						copy(blk[4*i:], blk[:4])
					}
				case "byte-sum=0", "byte-xor=0":
					var acc byte
					for i := 0; i < 63; i++ {
						if kind == "byte-sum=0" {
							acc += blk[i]
						} else {
							acc ^= blk[i]
						}
					}
					if kind == "byte-sum=0" {
						blk[63] = -acc
					} else {
						blk[63] = acc
					}
				default:
					for i := 0; i < 8; i++ {
						put(blk[4*(8+i):], -be(blk[4*i:]))
					}
				}
				judge(kind+":data-block", append(append(append([]byte{}, pre...), blk...), rng.Bytes(rng.Intn(70))...))
			}
			// (ii) the final padded block cancels: l message bytes (4 <= l <= 55) + 0x80 + zeros + 64-bit bit length
			for _, l := range []int{4, 5, 7, 8, 31, 32, 52, 55} {
				tail := rng.Bytes(l)
				total := uint64(len(pre)+l) * 8
				var blk [64]byte
				copy(blk[:], tail)
				blk[l] = 0x80
				for i := 0; i < 8; i++ {
					blk[56+i] = byte(total >> (8 * uint(7-i)))
				}
				for _, kind := range []string{"word-sum=0", "word-xor=0"} {
					var acc uint32
					for i := 1; i < 16; i++ {
						if kind == "word-sum=0" {
							acc += be(blk[4*i:])
						} else {
							acc ^= be(blk[4*i:])
						}
					}
					if kind == "word-sum=0" {
						put(blk[:4], -acc)
					} else {
						put(blk[:4], acc)
					}
					judge(kind+":padded-final-block", append(append([]byte{}, pre...), blk[:l]...))
				}
			}
		}
		r.EvalN("content:vanishing-aggregate", nAgg)
	}

	// (3) through io.Copy / io.Writer plumbing, the way callers use hash.Hash.
	for i := 0; i < hk.N(300, 3000); i++ {
		n := rng.Intn(5000)
		data := rng.Bytes(n)
		h := New()
		cnt, err := io.Copy(h, &zvChunkReader{data: data, rng: rng})
		if err != nil || cnt != int64(n) {
			r.Violation("io.Copy-through-hash-fails", hk.D{"n": n, "copied": cnt, "err": fmt.Sprint(err)})
		}
		if !bytes.Equal(h.Sum(nil), ref.SM3(data)) {
			r.Violation("io.Copy-digest-wrong", hk.D{"n": n})
		}
		r.Eval(fmt.Sprintf("iocopy:len%%64=%d", n%64))
	}

	// (3b) thorough tier: ONE Write / one SumSM3 call of 2^32 bytes and more (an untouched zero mapping). The
	// per-call byte count crosses 32 bits although every counter in the object may be wide enough. Oracle:
	// the same bytes written in 1 GiB pieces (whose correctness the injected-count histories above judge)
	// must give the same digest - two histories of one message.
	if hk.Thorough() {
		if z := hk.ZeroMap(1<<32+4096, false); z != nil {
			for _, n := range []int{1<<32 + 3, 1 << 32} {
				if n != 1<<32 {
					ref1 := New()
					for off := 0; off < n; off += 1 << 30 {
						end := off + 1<<30
						if end > n {
							end = n
						}
						ref1.Write(z[off:end])
					}
					want := ref1.Sum(nil)
					one := New()
					wn, err := one.Write(z[:n])
					got := one.Sum(nil)
					shot := SumSM3(z[:n])
					if wn != n || err != nil || !bytes.Equal(got, want) || !bytes.Equal(shot[:], want) {
						r.Violation("single-giant-write-differs-from-chunked-writes", hk.D{"len": n, "write_returned": wn, "single_write": hk.Hex(got), "sumsm3": hk.Hex(shot[:]), "chunked_1GiB": hk.Hex(want)})
					}
					r.Eval("giant-single-write:2^32+3")
					continue
				}
				// 3 buffered bytes, then one write that ends 2^32 bytes later
				two := New()
				two.Write(z[:3])
				two.Write(z[:n])
				three := New()
				three.Write(z[:3])
				for off := 0; off < n; off += 1 << 30 {
					end := off + 1<<30
					if end > n {
						end = n
					}
					three.Write(z[off:end])
				}
				if !bytes.Equal(two.Sum(nil), three.Sum(nil)) {
					r.Violation("giant-write-after-buffered-bytes-differs-from-chunked-writes", hk.D{"len": n})
				}
				r.Eval("giant-single-write:3+2^32")
			}
			hk.Unmap(z)
		} else {
			r.Inconclusive("c04: cannot map 4 GiB of zero pages")
		}
	}

	// (4) long messages: the bit-length encoding; the thorough tier crosses the 2^32-bit boundary
	// (512 MiB + 5 bytes)
	longs := []int{1 << 16, 1<<16 + 1, 1 << 20, 1<<21 + 3}
	if hk.Thorough() {
		longs = append(longs, 1<<29+5)
	}
	for _, n := range longs {
		data := rng.Bytes(n)
		h := New()
		h.Write(data[:n/3])
		h.Write(data[n/3:])
		if !bytes.Equal(h.Sum(nil), ref.SM3(data)) {
			r.Violation("long-message-wrong", hk.D{"n": n})
		}
		r.Eval(fmt.Sprintf("long:%d", n))
	}
}

// compress turns an op pattern into its shape (runs collapsed).
func zvCompress(p string) string {
	out := []byte{}
	for i := 0; i < len(p); i++ {
		if i == 0 || p[i] != p[i-1] {
			out = append(out, p[i])
		}
	}
	if len(out) > 6 {
		out = out[:6]
	}
	return string(out)
}

type zvChunkReader struct {
	data []byte
	rng  *hk.RNG
}

func (c *zvChunkReader) Read(p []byte) (int, error) {
	if len(c.data) == 0 {
		return 0, io.EOF
	}
	n := 1 + c.rng.Intn(200)
	if n > len(p) {
		n = len(p)
	}
	if n > len(c.data) {
		n = len(c.data)
	}
	copy(p, c.data[:n])
	c.data = c.data[n:]
	return n, nil
}
