//go:build verif

package sm3

import (
	"bytes"
	"fmt"
	"runtime"
	"sync"
	"sync/atomic"
	"testing"

	"github.com/bilibili/smgo/zzverif/hk"
	"github.com/bilibili/smgo/zzverif/ref"
)

// C04 — FIRST USE in a fresh process. Whatever the package builds lazily (round constants, an initial state that New
// prepares) exists only once per process, and the first SM3 operation of a program need not be New(): it may be the
// one-shot function, a zero-value SM3 after Reset, or several goroutines hashing at the same moment. Each trial is a
// fresh process (hk.RunChildren) in which only the model runs before the first library call; the kind of first call
// rotates with the trial index. Every digest is compared with the model.
func TestVerifC04FirstUse(t *testing.T) {
	r := hk.NewReporter("C04", "sm3-first-use")
	defer r.Close()
	trial := hk.ChildIndex()
	if trial < 0 {
		ran, failed := hk.RunChildren("TestVerifC04FirstUse", hk.N(120, 400))
		r.Count("fresh_process_trials", int64(ran))
		for _, f := range failed {
			r.Inconclusive("first-use child: " + f)
		}
		return
	}
	rng := hk.NewRNG(hk.Seed()+uint64(trial)*15485863, "c04first")
	msgs := make([][]byte, 24)
	wants := make([][]byte, len(msgs))
	for i := range msgs {
		msgs[i] = rng.Bytes([]int{0, 1, 3, 55, 56, 63, 64, 65, 119, 120, 200, 1000}[i%12])
		wants[i] = ref.SM3(msgs[i])
	}
	kinds := []string{"SumSM3", "zero-value+Reset", "New", "concurrent-mixed", "concurrent-SumSM3", "concurrent-mixed", "zero-value+Reset-then-SumSM3"}
	kind := kinds[trial%len(kinds)]
	if trial >= 2*len(kinds) {
		kind = []string{"concurrent-SumSM3", "concurrent-mixed"}[trial%2] // the sequential kinds are deterministic: twice is enough
	}
	check := func(what string, got, want []byte, i int) {
		if !bytes.Equal(got, want) {
			r.Violation("digest-wrong-on-first-use-in-a-fresh-process:"+kind, hk.D{"trial": trial, "operation": what, "message": hk.Hex(msgs[i]), "got": hk.Hex(got), "want": hk.Hex(want)})
		}
	}
	one := func(i int, how int) {
		p, pm, _, _ := hk.Try(func() {
			switch how % 3 {
			case 0:
				d := SumSM3(msgs[i])
				check("SumSM3", d[:], wants[i], i)
			case 1:
				var h SM3
				h.Reset()
				h.Write(msgs[i][:len(msgs[i])/2])
				h.Write(msgs[i][len(msgs[i])/2:])
				check("zero value, Reset, Write, Write, Sum", h.Sum(nil), wants[i], i)
			default:
				h := New()
				h.Write(msgs[i])
				check("New, Write, Sum", h.Sum(nil), wants[i], i)
			}
		})
		if p {
			r.Violation("panic-on-first-use-in-a-fresh-process:"+kind, hk.D{"trial": trial, "panic": pm})
		}
	}
	switch kind {
	case "SumSM3":
		one(0, 0)
	case "zero-value+Reset":
		one(1, 1)
	case "New":
		one(2, 2)
	case "zero-value+Reset-then-SumSM3":
		one(3, 1)
		one(4, 0)
	default:
		// a spinning barrier: all goroutines leave it within a few hundred nanoseconds of each other
		nw := 16
		var ready, goFlag int32
		var wg sync.WaitGroup
		for w := 0; w < nw; w++ {
			wg.Add(1)
			go func(w int) {
				defer wg.Done()
				runtime.LockOSThread()
				atomic.AddInt32(&ready, 1)
				for atomic.LoadInt32(&goFlag) == 0 {
				}
				how := 0
				if kind == "concurrent-mixed" {
					how = w + trial
				}
				one(w%len(msgs), how)
			}(w)
		}
		for atomic.LoadInt32(&ready) < int32(nw) {
			runtime.Gosched()
		}
		atomic.StoreInt32(&goFlag, 1)
		wg.Wait()
	}
	// afterwards everything, in every way
	for i := range msgs {
		one(i, i)
		one(i, i+1)
	}
	r.Eval(fmt.Sprintf("first-use:%s", kind))
}
