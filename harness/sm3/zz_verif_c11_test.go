//go:build verif

package sm3

import (
	"bytes"
	"fmt"
	"testing"

	"github.com/bilibili/smgo/zzverif/hk"
	"github.com/bilibili/smgo/zzverif/ref"
)

// C11 (SM3) — the data handed to Write / SumSM3 ends on the last accessible byte of a mapping (capacity
// reaching over the PROT_NONE page behind it) or starts on the first one; every length 0..300 and
// some long ones, also split over two Writes. An over-read of even one byte faults.
func TestVerifC11SM3(t *testing.T) {
	r := hk.NewReporter("C11", "sm3-memory")
	defer r.Close()
	rng := hk.NewRNG(hk.Seed(), "c11sm3")
	pool := hk.NewPool()
	var lensL []int
	for l := 0; l <= 300; l++ {
		lensL = append(lensL, l)
	}
	lensL = append(lensL, 511, 512, 513, 4095, 4096, 4097, 10000)
	for _, l := range lensL {
		for _, place := range []int{hk.PlaceEnd, hk.PlaceStart} {
			g := pool.Get(l, place)
			rng.Fill(g.B)
			want := ref.SM3(g.B)
			data := g.OverCap()
			var got1 [32]byte
			var got2 []byte
			split := 0
			if l > 0 {
				split = rng.Intn(l + 1)
			}
			p, pm, isFault, addr := hk.Try(func() {
				got1 = SumSM3(data)
				h := New()
				h.Write(data[:split])
				h.Write(data[split:])
				got2 = h.Sum(nil)
			})
			det := hk.D{"len": l, "split": split, "placement": place}
			switch {
			case p && isFault:
				_, off := g.InRegion(addr)
				det["fault_offset_from_data_start"], det["panic"] = off, pm
				r.Violation("sm3-access-outside-data", det)
			case p:
				det["panic"] = pm
				r.Violation("sm3-panics", det)
			case !bytes.Equal(got1[:], want) || !bytes.Equal(got2, want):
				r.Violation("sm3-wrong-digest-on-guarded-data", det)
			}
			pool.Put(g)
			r.Eval(fmt.Sprintf("sm3:len%%64=%d,place=%d", l%64, place))
		}
	}
}
