//go:build verif

package sm3

import (
	"fmt"
	"testing"

	"github.com/bilibili/smgo/zzverif/hk"
	"github.com/bilibili/smgo/zzverif/ref"
)

// C18 (SM3 part) — round constants and IV against their derivation.
func TestVerifC18SM3(t *testing.T) {
	r := hk.NewReporter("C18", "sm3-constants")
	defer r.Close()
	for j := 0; j < 64; j++ {
		tj := ref.SM3T(j)
		n := uint(j % 32)
		want := tj
		if n != 0 {
			want = tj<<n | tj>>(32-n)
		}
		if tt[j] != want {
			r.Violation("sm3-Tj-entry-wrong", hk.D{"j": j, "got": fmt.Sprintf("%08x", tt[j]), "want": fmt.Sprintf("%08x", want)})
		}
	}
	r.EvalN("table:sm3-tt", 64)
	for i, v := range []uint32{iv0, iv1, iv2, iv3, iv4, iv5, iv6, iv7} {
		if v != ref.SM3IV[i] {
			r.Violation("sm3-iv-wrong", hk.D{"i": i})
		}
	}
	if t0 != ref.SM3T(0) || t1 != ref.SM3T(16) {
		r.Violation("sm3-T-constant-wrong", hk.D{})
	}
	if BlockSize != 64 || Size != 32 || maxTail != 56 {
		r.Violation("sm3-size-constant-wrong", hk.D{})
	}
	r.EvalN("table:sm3-iv-and-sizes", 13)
	r.Sample(hk.D{"table": "tt", "j": 33, "derivation": "T_33 <<< (33 mod 32)", "value": fmt.Sprintf("%08x", tt[33])})
}
