// vtrace: ptrace single-step tracer. Logs GPRs at every instruction executed between hitting a
// breakpoint (function entry) and the return of that function.
#define _GNU_SOURCE
#include <stdio.h>
#include <stdlib.h>
#include <string.h>
#include <errno.h>
#include <signal.h>
#include <unistd.h>
#include <stdint.h>
#include <sys/ptrace.h>
#include <sys/wait.h>
#include <sys/user.h>
#include <sys/personality.h>

#define MAXBP 64
static uint64_t bp_addr[MAXBP]; static long bp_orig[MAXBP]; static int nbp;
static pid_t mainpid;

static void poke_bp(pid_t p, int i, int on) {
  long w = ptrace(PTRACE_PEEKTEXT, p, (void*)bp_addr[i], 0);
  if (on) { bp_orig[i] = w; w = (w & ~0xffL) | 0xcc; } else { w = (w & ~0xffL) | (bp_orig[i] & 0xff); }
  if (ptrace(PTRACE_POKETEXT, p, (void*)bp_addr[i], (void*)w) < 0) { perror("poke"); exit(2); }
}
struct rec { uint64_t tag, rip, rsp, rax, rbx, rcx, rdx, rsi, rdi, rbp, r8, r9, r10, r11, r12, r13, r14, r15; };
static FILE *out;
static void emit(uint64_t tag, struct user_regs_struct *r) {
  struct rec x = { tag, r->rip, r->rsp, r->rax, r->rbx, r->rcx, r->rdx, r->rsi, r->rdi, r->rbp, r->r8, r->r9, r->r10, r->r11, r->r12, r->r13, r->r14, r->r15 };
  fwrite(&x, sizeof x, 1, out);
}
int main(int argc, char **argv) {
  int ai = 1; const char *outp = NULL; long maxsteps = 50000000;
  while (ai < argc && argv[ai][0] == '-') {
    if (!strcmp(argv[ai], "-o")) outp = argv[++ai];
    else if (!strcmp(argv[ai], "-b")) { char *s = strdup(argv[++ai]); for (char *t = strtok(s, ","); t; t = strtok(NULL, ",")) bp_addr[nbp++] = strtoull(t, 0, 16); }
    else if (!strcmp(argv[ai], "-n")) maxsteps = atol(argv[++ai]);
    else if (!strcmp(argv[ai], "--")) { ai++; break; }
    ai++;
  }
  out = fopen(outp, "wb"); if (!out) { perror("out"); return 2; }
  setvbuf(out, NULL, _IOFBF, 1 << 20);
  pid_t c = fork();
  if (c == 0) { personality(ADDR_NO_RANDOMIZE); ptrace(PTRACE_TRACEME, 0, 0, 0); execv(argv[ai], argv + ai); perror("execv"); _exit(127); }
  mainpid = c; int st;
  waitpid(c, &st, 0); // exec stop
  ptrace(PTRACE_SETOPTIONS, c, 0, PTRACE_O_TRACECLONE | PTRACE_O_EXITKILL);
  for (int i = 0; i < nbp; i++) poke_bp(c, i, 1);
  ptrace(PTRACE_CONT, c, 0, 0);
  long steps = 0, invocations = 0;
  for (;;) {
    pid_t t = waitpid(-1, &st, __WALL);
    if (t < 0) { if (errno == ECHILD) break; perror("waitpid"); break; }
    if (WIFEXITED(st) || WIFSIGNALED(st)) { if (t == mainpid) { fprintf(stderr, "vtrace: child exit status %d steps %ld invocations %ld\n", WIFEXITED(st) ? WEXITSTATUS(st) : 128 + WTERMSIG(st), steps, invocations); fclose(out); return WIFEXITED(st) ? WEXITSTATUS(st) : 1; } continue; }
    if (!WIFSTOPPED(st)) continue;
    int sig = WSTOPSIG(st);
    if (sig == SIGTRAP && (st >> 16) == PTRACE_EVENT_CLONE) { ptrace(PTRACE_CONT, t, 0, 0); continue; }
    if (sig == SIGSTOP) { ptrace(PTRACE_CONT, t, 0, 0); continue; } // new thread initial stop
    if (sig == SIGTRAP) {
      struct user_regs_struct r; ptrace(PTRACE_GETREGS, t, 0, &r);
      int hit = -1; for (int i = 0; i < nbp; i++) if (r.rip - 1 == bp_addr[i]) hit = i;
      if (hit < 0) { ptrace(PTRACE_CONT, t, 0, 0); continue; }
      // function entry: remove bp, rewind, single-step to return
      poke_bp(t, hit, 0); r.rip -= 1; ptrace(PTRACE_SETREGS, t, 0, &r);
      uint64_t entry_rsp = r.rsp; invocations++; uint64_t retaddr = (uint64_t)ptrace(PTRACE_PEEKDATA, t, (void*)entry_rsp, 0);
      emit(1, &r); // tag 1 = entry
      int pend = 0;
      for (;;) {
        if (ptrace(PTRACE_SINGLESTEP, t, 0, (void*)(long)pend) < 0) { perror("step"); exit(2); }
        pend = 0;
        pid_t w = waitpid(t, &st, __WALL);
        if (w < 0 || !WIFSTOPPED(st)) { fprintf(stderr, "vtrace: thread vanished while stepping\n"); exit(2); }
        int s2 = WSTOPSIG(st);
        if (s2 != SIGTRAP) { pend = s2; continue; }
        ptrace(PTRACE_GETREGS, t, 0, &r);
        steps++;
        if (r.rip == retaddr) { emit(2, &r); break; } // returned
        emit(0, &r);
        if (steps > maxsteps) { fprintf(stderr, "vtrace: step limit\n"); kill(mainpid, SIGKILL); exit(3); }
      }
      poke_bp(t, hit, 1);
      ptrace(PTRACE_CONT, t, 0, 0);
      continue;
    }
    ptrace(PTRACE_CONT, t, 0, (void*)(long)sig); // deliver other signals
  }
  fclose(out); return 0;
}
