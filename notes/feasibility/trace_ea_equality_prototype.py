import struct,re,sys,collections
R=struct.Struct('<18Q')
names=['tag','rip','rsp','rax','rbx','rcx','rdx','rsi','rdi','rbp','r8','r9','r10','r11','r12','r13','r14','r15']
idx={n:i for i,n in enumerate(names)}
def canon(reg):
    reg=reg.lstrip('%')
    m={'eax':'rax','ebx':'rbx','ecx':'rcx','edx':'rdx','esi':'rsi','edi':'rdi','ebp':'rbp','esp':'rsp'}
    if reg in m: return m[reg]
    if re.match(r'r\d+d$',reg): return reg[:-1]
    return reg
# parse disassembly
ins={}
for l in open('dis.txt'):
    m=re.match(r'\s*([0-9a-f]+):\s+(\S+)\s*(.*)$',l)
    if not m: continue
    pc=int(m.group(1),16); mn=m.group(2); ops=m.group(3).split('#')[0].strip()
    mems=[]
    if mn!='lea' and not mn.startswith('nop'):
        for mm in re.finditer(r'(-?0x[0-9a-f]+|-?\d+)?\((%\w+)?(?:,(%\w+),(\d))?\)',ops):
            disp=int(mm.group(1),0) if mm.group(1) else 0
            mems.append((disp,canon(mm.group(2)) if mm.group(2) else None,canon(mm.group(3)) if mm.group(3) else None,int(mm.group(4)) if mm.group(4) else 1))
    ins[pc]=(mn,ops,mems)
data=open('so.bin','rb').read()
traces=[];cur=None
for off in range(0,len(data),R.size):
    r=R.unpack_from(data,off)
    if r[0]==1: cur=[]; traces.append(cur)
    if r[0]==2: continue
    cur.append(r)
def ea_trace(t):
    out=[]
    nextpc=None
    for r in t:
        pc=r[1]
        mn,ops,mems=ins[pc]
        eas=[]
        for disp,base,index,scale in mems:
            if base=='rip':
                # rip-relative: next instruction address; approximate w/ objdump comment? skip: constant anyway
                eas.append(('rip',disp)); continue
            a=disp
            if base: a+=r[idx[base]]
            if index: a+=r[idx[index]]*scale
            eas.append(a & (2**64-1))
        out.append((pc,tuple(eas)))
    return out
T=[ea_trace(t) for t in traces]
print("invocations",len(T),[len(t) for t in T])
# group: order per iter: seal, open-valid, seal, open-forged
seal=[T[i] for i in range(len(T)) if i%4 in (0,2)]
openv=[T[i] for i in range(len(T)) if i%4==1]
openf=[T[i] for i in range(len(T)) if i%4==3]
def alleq(g): return all(x==g[0] for x in g)
print("seal traces equal (pc+EA):",alleq(seal),len(seal))
print("open valid equal:",alleq(openv),len(openv)," open forged equal:",alleq(openf),len(openf))
# where do valid and forged diverge
a,b=openv[0],openf[0]
for i,(x,y) in enumerate(zip(a,b)):
    if x!=y: print("valid/forged diverge at step",i,hex(x[0]),hex(y[0]),ins[a[i-1][0]][:2]); break
nmem=sum(1 for pc,e in seal[0] if e)
print("mem-accessing steps in seal:",nmem,"of",len(seal[0]))
# memory writes into ciphertext region? find stores with dest mem: AT&T last operand is dest
