#include <openssl/evp.h>
#include <stdio.h>
#include <string.h>
int main(){
  EVP_CIPHER *c = EVP_CIPHER_fetch(NULL, "SM4-GCM", NULL);
  if(!c){ printf("no SM4-GCM\n"); return 1; }
  unsigned char key[16]={0x01,0x23,0x45,0x67,0x89,0xAB,0xCD,0xEF,0xFE,0xDC,0xBA,0x98,0x76,0x54,0x32,0x10};
  unsigned char iv[12]={0x00,0x00,0x12,0x34,0x56,0x78,0x00,0x00,0x00,0x00,0xAB,0xCD};
  unsigned char aad[20]={0xFE,0xED,0xFA,0xCE,0xDE,0xAD,0xBE,0xEF,0xFE,0xED,0xFA,0xCE,0xDE,0xAD,0xBE,0xEF,0xAB,0xAD,0xDA,0xD2};
  unsigned char pt[64]; memset(pt,0xAA,8);memset(pt+8,0xBB,8);memset(pt+16,0xCC,8);memset(pt+24,0xDD,8);memset(pt+32,0xEE,8);memset(pt+40,0xFF,8);memset(pt+48,0xEE,8);memset(pt+56,0xAA,8);
  unsigned char ct[80], tag[16]; int l,l2;
  EVP_CIPHER_CTX *x=EVP_CIPHER_CTX_new();
  EVP_EncryptInit_ex(x,c,NULL,NULL,NULL);
  EVP_CIPHER_CTX_ctrl(x,EVP_CTRL_AEAD_SET_IVLEN,12,NULL);
  EVP_EncryptInit_ex(x,NULL,NULL,key,iv);
  EVP_EncryptUpdate(x,NULL,&l,aad,20);
  EVP_EncryptUpdate(x,ct,&l,pt,64);
  EVP_EncryptFinal_ex(x,ct+l,&l2);
  EVP_CIPHER_CTX_ctrl(x,EVP_CTRL_AEAD_GET_TAG,16,tag);
  for(int i=0;i<64;i++)printf("%02X",ct[i]); printf("\n"); for(int i=0;i<16;i++)printf("%02X",tag[i]); printf("\n");
  // long IV
  unsigned char iv2[200]; for(int i=0;i<200;i++) iv2[i]=i;
  EVP_EncryptInit_ex(x,c,NULL,NULL,NULL);
  int rc=EVP_CIPHER_CTX_ctrl(x,EVP_CTRL_AEAD_SET_IVLEN,200,NULL);
  EVP_EncryptInit_ex(x,NULL,NULL,key,iv2);
  EVP_EncryptUpdate(x,ct,&l,pt,33);
  EVP_EncryptFinal_ex(x,ct+l,&l2);
  EVP_CIPHER_CTX_ctrl(x,EVP_CTRL_AEAD_GET_TAG,16,tag);
  printf("ivlen200 rc=%d ", rc); for(int i=0;i<16;i++)printf("%02X",tag[i]); printf("\n");
  return 0; }
