import sys,collections
import xml.etree.ElementTree as ET
root=ET.parse(sys.argv[1]).getroot()
c=collections.Counter(); total=0
for err in root.findall('error'):
    kind=err.findtext('kind')
    aux=[a.text for a in err.findall('auxwhat')]
    if not any('client request' in (a or '') for a in aux): continue
    total+=1
    frames=err.find('stack').findall('frame')
    def fn(f): return (f.findtext('fn') or '?').replace('github.com/bilibili/smgo/',''), f.findtext('file'), f.findtext('line')
    top=fn(frames[0])
    sm=[fn(f) for f in frames if 'bilibili/smgo' in (f.findtext('fn') or '')]
    c[(kind, top[0]+':'+str(top[2]), sm[0][0]+':'+str(sm[0][2]) if sm else '-')]+=1
print("client-origin errors",total)
for k,v in sorted(c.items(), key=lambda x:(x[0][2],x[0][1])): print(" ",v,k)
