module goranges

go 1.17
