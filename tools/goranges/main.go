// goranges prints, for every function in the given Go files, its line range
// and the line ranges of all `for`/`range` statements inside it, as JSON. The
// C08 monitor uses it to decide whether a report site lies lexically inside a
// loop of its function (computed from the current source, not hard-coded).
package main

import (
	"encoding/json"
	"go/ast"
	"go/parser"
	"go/printer"
	"go/token"
	"os"
	"strings"
)

type fn struct {
	Name  string   `json:"name"`
	Recv  string   `json:"recv"`
	File  string   `json:"file"`
	Start int      `json:"start"`
	End   int      `json:"end"`
	Loops [][2]int `json:"loops"`
	// FirstIf is the line range of the condition of the first statement of the body when that
	// statement is an `if` (used for "is it infinity" tests at the top of a function).
	FirstIf [2]int `json:"first_if"`
	// DecisionIfs are the condition line ranges of `if` statements whose body ends in
	// return / continue / break: accept-reject decisions.
	DecisionIfs [][2]int `json:"decision_ifs"`
	// ReturnCalls: plain function calls that appear inside `return` statements (callee, line of the statement);
	// OtherCalls: plain function calls anywhere else. A helper that is only ever called from return statements
	// computes the returned verdict of its caller ("return cmpVerdict(borrow, nonZero)").
	ReturnCalls []call   `json:"return_calls"`
	OtherCalls  []string `json:"other_calls"`
	// Results: the result types as written ("[]byte", "*big.Int", "*SM2Point" ...): a method of a point that returns
	// bytes or an integer converts OUT of the point domain (encoding, affine coordinate).
	Results []string `json:"results"`
}

type call struct {
	Callee string `json:"callee"`
	Line   int    `json:"line"`
	InLoop bool   `json:"in_loop"`
}

// alwaysExits reports whether a statement list unconditionally leaves the enclosing function or
// loop iteration: it ends in return / continue / break / goto / panic(...), or in an if-else whose
// branches all do.
func alwaysExits(list []ast.Stmt) bool {
	if len(list) == 0 {
		return false
	}
	switch s := list[len(list)-1].(type) {
	case *ast.ReturnStmt, *ast.BranchStmt:
		return true
	case *ast.BlockStmt:
		return alwaysExits(s.List)
	case *ast.ExprStmt:
		if c, ok := s.X.(*ast.CallExpr); ok {
			if id, ok := c.Fun.(*ast.Ident); ok && id.Name == "panic" {
				return true
			}
		}
	case *ast.SwitchStmt:
		hasDefault := false
		for _, c := range s.Body.List {
			cc := c.(*ast.CaseClause)
			if cc.List == nil {
				hasDefault = true
			}
			if !alwaysExits(cc.Body) {
				return false
			}
		}
		return hasDefault
	case *ast.IfStmt:
		if s.Else == nil || !alwaysExits(s.Body.List) {
			return false
		}
		switch e := s.Else.(type) {
		case *ast.BlockStmt:
			return alwaysExits(e.List)
		case *ast.IfStmt:
			return alwaysExits([]ast.Stmt{e})
		}
	}
	return false
}

func main() {
	var out []fn
	fset := token.NewFileSet()
	for _, path := range os.Args[1:] {
		f, err := parser.ParseFile(fset, path, nil, 0)
		if err != nil {
			continue
		}
		for _, d := range f.Decls {
			fd, ok := d.(*ast.FuncDecl)
			if !ok || fd.Body == nil {
				continue
			}
			x := fn{Name: fd.Name.Name, File: path, Start: fset.Position(fd.Pos()).Line, End: fset.Position(fd.End()).Line}
			if fd.Recv != nil && len(fd.Recv.List) > 0 {
				switch t := fd.Recv.List[0].Type.(type) {
				case *ast.StarExpr:
					if id, ok := t.X.(*ast.Ident); ok {
						x.Recv = id.Name
					}
				case *ast.Ident:
					x.Recv = t.Name
				}
			}
			if fd.Type.Results != nil {
				for _, fld := range fd.Type.Results.List {
					var sb strings.Builder
					printer.Fprint(&sb, fset, fld.Type)
					n := len(fld.Names)
					if n == 0 {
						n = 1
					}
					for k := 0; k < n; k++ {
						x.Results = append(x.Results, sb.String())
					}
				}
			}
			if len(fd.Body.List) > 0 {
				if is, ok := fd.Body.List[0].(*ast.IfStmt); ok {
					x.FirstIf = [2]int{fset.Position(is.Cond.Pos()).Line, fset.Position(is.Cond.End()).Line}
				}
			}
			ast.Inspect(fd.Body, func(n ast.Node) bool {
				switch s := n.(type) {
				case *ast.ForStmt:
					x.Loops = append(x.Loops, [2]int{fset.Position(s.Pos()).Line, fset.Position(s.End()).Line})
				case *ast.RangeStmt:
					x.Loops = append(x.Loops, [2]int{fset.Position(s.Pos()).Line, fset.Position(s.End()).Line})
				case *ast.IfStmt:
					if alwaysExits(s.Body.List) {
						x.DecisionIfs = append(x.DecisionIfs, [2]int{fset.Position(s.Cond.Pos()).Line, fset.Position(s.Cond.End()).Line})
					}
				case *ast.SwitchStmt:
					// a clause whose body always leaves is the same decision as `if cond { leave }`
					for _, c := range s.Body.List {
						cc := c.(*ast.CaseClause)
						if !alwaysExits(cc.Body) {
							continue
						}
						for _, e := range cc.List {
							x.DecisionIfs = append(x.DecisionIfs, [2]int{fset.Position(e.Pos()).Line, fset.Position(e.End()).Line})
						}
						if s.Tag != nil {
							x.DecisionIfs = append(x.DecisionIfs, [2]int{fset.Position(s.Tag.Pos()).Line, fset.Position(s.Tag.End()).Line})
						}
					}
				}
				return true
			})
			// calls inside return statements / elsewhere (plain identifiers only: helpers of the same package)
			inRet := map[*ast.CallExpr]bool{}
			var loops []ast.Node
			ast.Inspect(fd.Body, func(n ast.Node) bool {
				switch n.(type) {
				case *ast.ForStmt, *ast.RangeStmt:
					loops = append(loops, n)
				}
				return true
			})
			insideLoop := func(n ast.Node) bool {
				for _, l := range loops {
					if n.Pos() >= l.Pos() && n.End() <= l.End() {
						return true
					}
				}
				return false
			}
			ast.Inspect(fd.Body, func(n ast.Node) bool {
				if rs, ok := n.(*ast.ReturnStmt); ok {
					for _, res := range rs.Results {
						ast.Inspect(res, func(m ast.Node) bool {
							if ce, ok := m.(*ast.CallExpr); ok {
								if id, ok := ce.Fun.(*ast.Ident); ok {
									inRet[ce] = true
									x.ReturnCalls = append(x.ReturnCalls, call{Callee: id.Name, Line: fset.Position(rs.Pos()).Line, InLoop: insideLoop(rs)})
								}
							}
							return true
						})
					}
				}
				return true
			})
			ast.Inspect(fd.Body, func(n ast.Node) bool {
				if ce, ok := n.(*ast.CallExpr); ok && !inRet[ce] {
					if id, ok := ce.Fun.(*ast.Ident); ok {
						x.OtherCalls = append(x.OtherCalls, id.Name)
					}
				}
				return true
			})
			out = append(out, x)
		}
	}
	json.NewEncoder(os.Stdout).Encode(out)
}
