#!/usr/bin/env python3
"""vcheck — driver for the runtime-monitoring checks of bilibili/SMGo.

usage: vcheck.py <property-id> [--tier quick|thorough] [--keep]

Builds /repo's *current working tree* with the in-package monitors injected
through `go test -overlay` (tag `verif`), runs the monitor processes, merges what
they observed into /verif/evidence/<id>.json and decides:

  exit 0  property held on everything explored (KNOWN-FINDING lines possible)
  exit 1  + "VIOLATION property=<id> replay=<path>" per distinct violation class
  exit 2  + "INCONCLUSIVE ..." infrastructure failure / monitor observed too little
"""
import buildtags
import json, os, re, shutil, subprocess, sys, time, hashlib

VERIF = os.path.dirname(os.path.dirname(os.path.abspath(__file__)))
REPO = os.environ.get("VERIF_REPO", "/repo")
# VERIF_OUTDIR redirects evidence/, replays/ and scratch (used when running the checks against seeded
# changes, so that the committed evidence of the unchanged tree is not overwritten)
OUTDIR = os.environ.get("VERIF_OUTDIR", VERIF)
WORK = os.path.join(OUTDIR, ".work")
MOD = "github.com/bilibili/smgo"

sys.path.insert(0, os.path.join(VERIF, "tools"))

# harness directory -> package directory inside the repository
HARNESS_DIRS = {
    "hk": "zzverif/hk",
    "ref": "zzverif/ref",
    "sm2": "sm2",
    "sm2internal": "sm2/internal",
    "fiat": "sm2/internal/fiat",
    "sm3": "sm3",
    "sm4": "sm4",
    "utils": "utils",
}


def go_env(extra=None):
    env = dict(os.environ)
    env.update({"GOFLAGS": "-mod=mod", "GOPROXY": "off", "GOSUMDB": "off", "GOTOOLCHAIN": "local",
                "VERIF_FIXTURES": os.path.join(VERIF, "fixtures"), "VERIF_ROOT": VERIF})
    if extra:
        env.update(extra)
    return env


def build_overlay(workdir, extra_tags=()):
    """Map every harness file into the repository tree (adds files only)."""
    rep = {}
    for hdir, pdir in HARNESS_DIRS.items():
        src = os.path.join(VERIF, "harness", hdir)
        if not os.path.isdir(src):
            continue
        for fn in sorted(os.listdir(src)):
            if not (fn.endswith(".go") or fn.endswith(".s")):
                continue
            dst = os.path.join(REPO, pdir, fn)
            if os.path.exists(dst):
                raise SystemExit("overlay would replace repository file %s" % dst)
            rep[dst] = os.path.join(src, fn)
    path = os.path.join(workdir, "overlay.json")
    with open(path, "w") as f:
        json.dump({"Replace": rep}, f)
    return path


def slug(s):
    s2 = re.sub(r"[^A-Za-z0-9_.-]+", "_", s)[:80]
    return s2 + "-" + hashlib.sha1(s.encode()).hexdigest()[:8]


class Outcome:
    def __init__(self, prop):
        self.prop = prop
        self.evaluations = 0
        self.classes = {}
        self.samples = []
        self.violations = {}   # class -> {count, detail}
        self.inconclusive = []
        self.counters = {}
        self.notes = {}
        self.units = []

    def merge_report(self, rep):
        self.evaluations += rep.get("evaluations", 0)
        for k, v in rep.get("classes", {}).items():
            self.classes[k] = self.classes.get(k, 0) + v
        for s in rep.get("samples", []):
            if len(self.samples) < 8:
                self.samples.append(s)
        for v in rep.get("violations", []):
            cur = self.violations.setdefault(v["class"], {"count": 0, "detail": v.get("detail"), "check": rep.get("check")})
            cur["count"] += v.get("count", 1)
        for m in rep.get("inconclusive", []):
            self.inconclusive.append("%s: %s" % (rep.get("check"), m))
        for k, v in rep.get("counters", {}).items():
            self.counters[k] = max(self.counters.get(k, 0), v) if k.startswith("max_") else self.counters.get(k, 0) + v
        for k, v in rep.get("notes", {}).items():
            self.notes[rep.get("check", "") + "." + k if k in self.notes else k] = v

    def violation(self, cls, detail, check="driver"):
        cur = self.violations.setdefault(cls, {"count": 0, "detail": detail, "check": check})
        cur["count"] += 1


def load_known():
    """KNOWN_FINDINGS.txt: 'known: property=<id> class=<regex> <what fails>' and
    'fixed: property=<id> <commit> <what failed>' (fixed entries suppress nothing)."""
    known = []
    p = os.path.join(VERIF, "KNOWN_FINDINGS.txt")
    if not os.path.exists(p):
        return known
    for line in open(p):
        line = line.strip()
        m = re.match(r"known:\s+property=(\S+)\s+class=(\S+)\s+(.*)$", line)
        if m:
            known.append({"property": m.group(1), "class": m.group(2), "what": m.group(3)})
    return known


def run_go_test(out, unit, tier, seed, workdir, overlay):
    """Run one monitor process: go test on one package with one -run pattern."""
    name = unit["name"]
    res_path = os.path.join(workdir, name + ".result.jsonl")
    jr_path = os.path.join(workdir, name + ".journal")
    log_path = os.path.join(workdir, name + ".log")
    for p in (res_path, jr_path, log_path):
        if os.path.exists(p):
            os.remove(p)
    env = go_env({"VERIF_OUT": res_path, "VERIF_JOURNAL": jr_path, "VERIF_TIER": tier, "VERIF_SEED": str(seed)})
    env.update(unit.get("env", {}))
    gobin = unit.get("go", "go")
    tags = "verif" + ("," + unit["tags"] if unit.get("tags") else "")
    cmd = [gobin, "test", "-vet=off", "-tags", tags, "-overlay", overlay, "-count=1",
           "-run", unit["run"], "-timeout", unit.get("timeout", "30m")]
    if unit.get("race"):
        cmd.append("-race")
        env["GORACE"] = "halt_on_error=0 log_path=%s" % os.path.join(workdir, name + ".race")
        for fn in os.listdir(workdir):
            if fn.startswith(name + ".race"):
                os.remove(os.path.join(workdir, fn))
    cmd += unit.get("goflags", [])
    cmd.append(unit["pkg"])
    watchdog = unit.get("watchdog", 3600)
    t0 = time.time()
    with open(log_path, "w") as lf:
        try:
            rc = subprocess.call(["timeout", "-s", "QUIT", str(watchdog)] + cmd, cwd=REPO, env=env, stdout=lf, stderr=subprocess.STDOUT)
        except Exception as e:  # pragma: no cover
            out.inconclusive.append("%s: cannot start go test: %s" % (name, e))
            return
    wall = time.time() - t0
    log = open(log_path, errors="replace").read()
    out.units.append({"unit": name, "rc": rc, "wall_s": round(wall, 1)})
    nrep = 0
    if os.path.exists(res_path):
        for line in open(res_path):
            line = line.strip()
            if line:
                out.merge_report(json.loads(line))
                nrep += 1
    if unit.get("race"):
        nraces = 0
        for fn in sorted(os.listdir(workdir)):
            if fn.startswith(name + ".race"):
                txt = open(os.path.join(workdir, fn), errors="replace").read()
                for blk in txt.split("WARNING: DATA RACE")[1:]:
                    nraces += 1
                    frames = re.findall(r"^\s+(\S+)\(\)\n\s+(\S+?):(\d+)", blk, re.M)
                    repo_frames = [f for f in frames if MOD in f[0]]
                    key = "race:" + "|".join(sorted(set(f[0] for f in repo_frames[:4]))) if repo_frames else "race:unknown"
                    out.violation(key, {"report": blk[:3000]}, name)
        out.counters["race_reports"] = out.counters.get("race_reports", 0) + nraces
    if rc == 124 or rc == 131 and "SIGQUIT" in log and wall >= watchdog - 1:
        out.inconclusive.append("%s: watchdog (%ds) fired" % (name, watchdog))
        return
    if "[build failed]" in log or "[setup failed]" in log:
        if unit["pkg"].rstrip("/").endswith("sm4") and unit.get("_chain", 0) + 1 < len(buildtags.TAG_CHAIN):
            # an assembly routine the monitors call directly, or the package variable they flip, is not there in the expected
            # form on this tree: rebuild with the next set of stubbed adapters (tools/buildtags.py); everything that goes
            # through the public API still runs
            idx = unit.get("_chain", 0) + 1
            extra = buildtags.TAG_CHAIN[idx].split(",")[1:]
            base = [t for t in unit.get("tags", "").split(",") if t and not t.startswith("verifno")]
            u2 = dict(unit, tags=",".join(base + extra), _chain=idx)
            out.units.pop()
            out.notes["degraded_builds"] = [d for d in out.notes.get("degraded_builds", []) if not d.startswith(name + ":")]
            out.notes.setdefault("degraded_builds", []).append("%s: rebuilt with tags %s (%s)" % (name, u2["tags"], buildtags.what(u2["tags"])))
            return run_go_test(out, u2, tier, seed, workdir, overlay)
        out.inconclusive.append("%s: build failed, see %s" % (name, log_path))
        return
    # a panic that ended the monitor process: the innermost frame that belongs to the repository decides whose it is.
    # Library code (not a zz_verif_* file) panicking on an input the monitor fed it is a violation of the
    # property under test (none of them allows a crash on the inputs they quantify over); a panic whose
    # innermost repository frame is the monitor's own file is a defect of the monitor: inconclusive.
    mp = re.search(r"^(?:panic|fatal error): [^\n]*\n(?:.*\n)*?goroutine \d+ \[running\]:\n((?:.*\n)+?)(?:\n|FAIL|exit status)", log, re.M)
    if rc != 0 and mp:
        frames = re.findall(r"^(\S[^\n]*)\n\t(\S+\.go):(\d+)", mp.group(1), re.M)
        repo_frames = [f for f in frames if f[0].startswith(MOD) or "/smgo/" in f[1]]
        if repo_frames and not os.path.basename(repo_frames[0][1]).startswith("zz_verif"):
            fn = re.sub(r"\(.*$", "", repo_frames[0][0]).replace(MOD, "")
            kind = re.search(r"^(?:panic|fatal error): ([^\n]*)", log, re.M).group(1)
            last = ""
            if os.path.exists(jr_path):
                lines = open(jr_path, errors="replace").read().strip().split("\n")
                last = lines[-1] if lines else ""
            out.violation("library-panics:%s:%s" % (name, fn), {"panic": kind[:300], "innermost_library_frame": "%s %s:%s" % repo_frames[0], "called_from": ["%s %s:%s" % f for f in repo_frames[1:4]],
                                                                 "last_journalled_case": last, "log_tail": log[-2500:]}, name)
            return
    if rc != 0 and nrep < unit.get("reports", 1):
        # the monitor process died before writing its report: the journal names the case
        last = ""
        if os.path.exists(jr_path):
            lines = open(jr_path, errors="replace").read().strip().split("\n")
            last = lines[-1] if lines else ""
        m = re.search(r"(fatal error: [^\n]*|panic: [^\n]*|unexpected signal[^\n]*|SIGSEGV[^\n]*)", log)
        kind = m.group(1) if m else "exit %d" % rc
        out.violation("crash:%s:%s" % (name, re.sub(r"0x[0-9a-f]+", "0x?", kind)[:100]),
                      {"last_journalled_case": last, "log_tail": log[-3000:]}, name)
    elif rc != 0 and not out.violations and not out.inconclusive:
        out.inconclusive.append("%s: go test exit %d without a recorded violation, see %s" % (name, rc, log_path))


def finish(out, cfg, tier, seed, t0):
    prop = out.prop
    known = [k for k in load_known() if k["property"] == prop]
    real = {}
    for cls, v in out.violations.items():
        hit = None
        for k in known:
            if re.fullmatch(k["class"], cls):
                hit = k
                break
        if hit:
            print("KNOWN-FINDING: property=%s %s [class=%s observed x%d]" % (prop, hit["what"], cls, v["count"]))
        else:
            real[cls] = v
    os.makedirs(os.path.join(OUTDIR, "replays"), exist_ok=True)
    os.makedirs(os.path.join(OUTDIR, "evidence"), exist_ok=True)
    nontrivial = [c for c in out.classes if not c.startswith("trivial")]
    cov = {
        "evaluations": int(out.evaluations),
        "distinct_nontrivial": len(nontrivial),
        "rule": cfg["rule"],
        "samples": out.samples if out.samples else [],
        "classes_observed": {k: out.classes[k] for k in sorted(out.classes)[:400]},
        "observations": out.counters,
        "notes": out.notes,
        "units": out.units,
        "inconclusive": out.inconclusive,
        "known_findings_matched": sorted(set(out.violations) - set(real)),
    }
    if cfg.get("exhaustive"):
        cov["exhaustive"] = True
    ev = {
        "property_id": prop, "tier": tier, "seed": int(seed), "level": cfg["level"],
        "coverage": cov, "assumptions": cfg.get("assumptions", []),
        "wall_s": round(time.time() - t0, 2), "violations": len(real),
    }
    with open(os.path.join(OUTDIR, "evidence", prop + ".json"), "w") as f:
        json.dump(ev, f, indent=1, sort_keys=True, default=str)
    for cls, v in real.items():
        rp = os.path.join(OUTDIR, "replays", "%s-%s.json" % (prop, slug(cls)))
        with open(rp, "w") as f:
            json.dump({"property": prop, "class": cls, "check": v.get("check"), "tier": tier, "seed": int(seed),
                       "count": v["count"], "detail": v["detail"],
                       "rerun": "VERIF_SEED=%s python3 tools/vcheck.py %s --tier %s" % (seed, prop, tier)}, f, indent=1, default=str)
        print("VIOLATION property=%s replay=%s" % (prop, rp))
    if real:
        print("summary: %s tier=%s seed=%s evaluations=%d classes=%d violations=%d" % (prop, tier, seed, out.evaluations, len(out.classes), len(real)))
        return 1
    if out.inconclusive:
        for m in out.inconclusive:
            print("INCONCLUSIVE property=%s %s" % (prop, m))
        return 2
    if out.evaluations == 0 or len(nontrivial) < 2:
        print("INCONCLUSIVE property=%s monitor observed too little (evaluations=%d classes=%d)" % (prop, out.evaluations, len(nontrivial)))
        return 2
    print("OK property=%s tier=%s seed=%s evaluations=%d distinct_classes=%d wall=%.1fs" % (prop, tier, seed, out.evaluations, len(nontrivial), time.time() - t0))
    return 0


def main():
    import checks  # tools/checks.py: per-property configuration
    args = sys.argv[1:]
    if not args:
        print(__doc__)
        return 2
    prop = args[0]
    tier = os.environ.get("VERIF_TIER", "quick")
    if "--tier" in args:
        tier = args[args.index("--tier") + 1]
    if tier not in ("quick", "thorough"):
        tier = "quick"
    try:
        seed = int(os.environ.get("VERIF_SEED", "1"))
    except ValueError:
        seed = 1
    cfg = checks.CHECKS.get(prop)
    if cfg is None:
        print("unknown property", prop)
        return 2
    t0 = time.time()
    workdir = os.path.join(WORK, prop)
    shutil.rmtree(workdir, ignore_errors=True)
    os.makedirs(workdir)
    overlay = build_overlay(workdir)
    rdir = os.path.join(OUTDIR, "replays")
    if os.path.isdir(rdir):
        for fn in os.listdir(rdir):
            if fn.startswith(prop + "-"):
                os.remove(os.path.join(rdir, fn))
    out = Outcome(prop)
    units = cfg["units"](tier) if callable(cfg["units"]) else cfg["units"]
    procs = []
    # run units; units flagged parallel are started together
    import concurrent.futures
    par = cfg.get("parallel", 4)
    def run(u):
        o = Outcome(prop)
        if u.get("engine"):
            mod = __import__(u["engine"])
            mod.run(o, u, tier, seed, workdir, overlay)
        else:
            run_go_test(o, u, tier, seed, workdir, overlay)
        return o
    with concurrent.futures.ThreadPoolExecutor(max_workers=par) as ex:
        for o in ex.map(run, units):
            out.evaluations += o.evaluations
            for k, v in o.classes.items():
                out.classes[k] = out.classes.get(k, 0) + v
            for s in o.samples:
                if len(out.samples) < 8:
                    out.samples.append(s)
            for k, v in o.violations.items():
                cur = out.violations.setdefault(k, {"count": 0, "detail": v["detail"], "check": v.get("check")})
                cur["count"] += v["count"]
            out.inconclusive += o.inconclusive
            for k, v in o.counters.items():
                out.counters[k] = max(out.counters.get(k, 0), v) if k.startswith("max_") else out.counters.get(k, 0) + v
            out.notes.update(o.notes)
            out.units += o.units
    rc = finish(out, cfg, tier, seed, t0)
    if "--keep" not in args and rc == 0:
        shutil.rmtree(workdir, ignore_errors=True)
    return rc


if __name__ == "__main__":
    sys.exit(main())
