"""Build the sm4 test binary with the monitors injected, falling back to stubbed adapters when the tree under test no
longer has (or declares differently) an assembly routine that the monitors call DIRECTLY: first only the small helpers
(copyAsm, needExpand: tag verifnohelpers), then also sealAsm/openAsm (tag verifnoasm). Everything that goes through the
public API runs in every case; what was stubbed is recorded in the evidence notes."""
import subprocess

TAG_CHAIN = ["verif", "verif,verifnohelpers", "verif,verifnoswitch", "verif,verifnohelpers,verifnoswitch", "verif,verifnoasm,verifnohelpers", "verif,verifnoasm,verifnohelpers,verifnoswitch"]


def what(tags):
    w = []
    if "verifnoasm" in tags:
        w.append("direct calls of sealAsm/openAsm/copyAsm/needExpand unavailable on this tree")
    elif "verifnohelpers" in tags:
        w.append("direct calls of copyAsm/needExpand unavailable on this tree")
    if "verifnoswitch" in tags:
        w.append("the package variable that selects the accelerated path is not there in the expected form: the portable path is not forced")
    return "; ".join(w)



def build_sm4(binp, overlay, repo, env, out, who, extra=()):
    p = None
    for tags in TAG_CHAIN:
        p = subprocess.run(["go", "test", "-c", "-vet=off", "-tags", tags, "-overlay", overlay, "-o", binp] + list(extra) + ["./sm4/"], cwd=repo, env=env, capture_output=True, text=True)
        if p.returncode == 0:
            if tags != "verif":
                out.notes.setdefault("degraded_builds", []).append("%s: test binary built with tags %s (%s)" % (who, tags, what(tags)))
            return p
    return p
