#!/usr/bin/env python3
"""Confirm a seeded change independently and run the checks against it.

usage: seedverify.py <seed-dir> <id> <prop> [<extra prop> ...] [--race] [--needs "..."] [--thorough P,Q] [--tags t] [--demo-retries n]

1. fresh scratch worktree of /repo HEAD under /tmp; apply patch.diff;
2. the existing suite must pass with the patch; the demonstration must FAIL with the patch and
   PASS without it;
3. run the registered quick checks of the listed properties against the patched /repo (seedrun.py);
4. store patch.diff, the demonstration and meta.json under /verif/seeded/<id>/; remove the worktree.
"""
import json, os, re, shutil, subprocess, sys, time
VERIF = os.path.dirname(os.path.dirname(os.path.abspath(__file__)))
args = sys.argv[1:]
race = "--race" in args
if race: args.remove("--race")
needs = ""
if "--needs" in args:
    i = args.index("--needs"); needs = args[i + 1]; del args[i:i + 2]
thorough = []
if "--thorough" in args:
    i = args.index("--thorough"); thorough = args[i + 1].split(","); del args[i:i + 2]
tags = ""
if "--tags" in args:
    i = args.index("--tags"); tags = "-tags " + args[i + 1] + " "; del args[i:i + 2]
retries = 1
if "--demo-retries" in args:
    i = args.index("--demo-retries"); retries = int(args[i + 1]); del args[i:i + 2]
demo_name = "demo_test.go"
if "--demo" in args:
    i = args.index("--demo"); demo_name = args[i + 1]; del args[i:i + 2]
seed, sid, props = os.path.abspath(args[0]), args[1], args[2:]
env = dict(os.environ, GOFLAGS="-mod=mod", GOPROXY="off", GOSUMDB="off", GOTOOLCHAIN="local")
wt = "/tmp/wt/verify-" + sid
subprocess.call(["git", "-C", "/repo", "worktree", "remove", "--force", wt], stderr=subprocess.DEVNULL)
subprocess.check_call(["git", "-C", "/repo", "worktree", "add", "-q", "--detach", wt, "HEAD"])
ran = []
def sh(cmd, **kw):
    r = subprocess.run(cmd, shell=True, cwd=wt, env=env, capture_output=True, text=True, **kw)
    ran.append({"cmd": cmd, "rc": r.returncode})
    return r
ok = True
try:
    patch = os.path.join(seed, "patch.diff")
    demo = os.path.join(seed, demo_name)
    src = open(demo).read()
    pkg = re.search(r"^package (\w+)", src, re.M).group(1)
    pkgdir = {"sm2": "sm2", "sm2_test": "sm2", "internal": "sm2/internal", "internal_test": "sm2/internal", "fiat_test": "sm2/internal/fiat", "fiat": "sm2/internal/fiat", "sm3": "sm3", "sm3_test": "sm3", "sm4": "sm4", "sm4_test": "sm4", "utils": "utils", "utils_test": "utils"}[pkg]
    tests = re.findall(r"^func (Test\w+)\(", src, re.M)
    runpat = "^(" + "|".join(tests) + ")$"
    dst = os.path.join(wt, pkgdir, "zz_demo_test.go")
    flags = ("-race " if race else "") + tags
    # without the patch
    shutil.copy(demo, dst)
    r0 = sh("go test -vet=off -count=1 %s-run '%s' ./%s/" % (flags, runpat, pkgdir))
    os.remove(dst)
    # with the patch
    r = sh("git apply %s" % patch)
    if r.returncode != 0:
        print("patch does not apply:", r.stderr); ok = False
    rb = sh("go build ./...")
    rs = sh("go test -vet=off -count=1 ./...")
    shutil.copy(demo, dst)
    for attempt in range(retries):
        r1 = sh("go test -vet=off -count=1 %s-run '%s' ./%s/" % (flags, runpat, pkgdir))
        if r1.returncode != 0:
            break
    os.remove(dst)
    print("demo without patch: rc=%d (want 0) | build with patch rc=%d | existing suite with patch rc=%d (want 0) | demo with patch rc=%d (want !=0)" % (r0.returncode, rb.returncode, rs.returncode, r1.returncode))
    if r0.returncode != 0: print(r0.stdout[-1500:]); ok = False
    if rs.returncode != 0 or rb.returncode != 0: print((rb.stdout + rb.stderr + rs.stdout)[-1500:]); ok = False
    if r1.returncode == 0: print("demo does not fail with the patch"); ok = False
finally:
    subprocess.call(["git", "-C", "/repo", "worktree", "remove", "--force", wt])
if not ok:
    sys.exit("seed NOT confirmed")
out = subprocess.run([sys.executable, os.path.join(VERIF, "tools", "seedrun.py"), patch] + props, capture_output=True, text=True).stdout
print(out)
caught = {p: (("%s: CAUGHT" % p) in out) for p in props}
tcaught = {}
if thorough:
    out2 = subprocess.run([sys.executable, os.path.join(VERIF, "tools", "seedrun.py"), patch] + thorough + ["--tier", "thorough"], capture_output=True, text=True).stdout
    print(out2)
    out += "\n[thorough tier]\n" + out2
    tcaught = {p: (("%s: CAUGHT" % p) in out2) for p in thorough}
sd = os.path.join(VERIF, "seeded", sid)
os.makedirs(sd, exist_ok=True)
shutil.copy(patch, os.path.join(sd, "patch.diff"))
shutil.copy(demo, os.path.join(sd, demo_name))
if os.path.exists(os.path.join(seed, "NOTES.md")):
    shutil.copy(os.path.join(seed, "NOTES.md"), os.path.join(sd, "NOTES.md"))
meta = {"id": sid, "breaks_property": props[0], "needs_to_manifest": needs, "author": "independent sub-agent given only the property text",
        "confirmed": {"existing_suite_passes_with_patch": True, "demo_fails_with_patch": True, "demo_passes_without_patch": True, "commands": ran},
        "checks_run": {p: ("caught" if c else ("caught (thorough tier only)" if tcaught.get(p) else "missed")) for p, c in caught.items()}, "check_output": out.strip().splitlines(), "date": time.strftime("%Y-%m-%d")}
json.dump(meta, open(os.path.join(sd, "meta.json"), "w"), indent=1)
print("stored", sd, meta["checks_run"])
