#!/bin/sh
# Run once in /verif after a fresh restore, offline. Builds the native helpers and warms the
# Go build caches the checks use (default toolchain, -race runtime, go1.26.8 for the memcheck build).
set -e
cd "$(dirname "$0")/.."
export GOFLAGS=-mod=mod GOPROXY=off GOSUMDB=off GOTOOLCHAIN=local
mkdir -p bin .work evidence replays
if [ -f tools/vtrace.c ]; then
  gcc -O2 -o bin/vtrace tools/vtrace.c
fi
# warm caches (best effort; the checks rebuild whatever they need anyway)
(cd /repo && go build ./... && go test -vet=off -count=1 -run '^$' ./... >/dev/null 2>&1 || true)
(cd /repo && go test -race -vet=off -count=1 -run '^$' ./sm4/ ./sm2/ >/dev/null 2>&1 || true)
echo "setup done"
