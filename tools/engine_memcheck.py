"""C08 engine: Valgrind/memcheck used as a taint sanitizer over the real SM2 code.

The harness (harness/*/zz_verif_c08_test.go, tags verif,valgrind) marks a secret
*undefined* right before a call. memcheck then reports every conditional jump
("Conditional jump or move depends on uninitialised value(s)") and every address
computation ("Use of uninitialised value of size N") that depends on it, for the
path executed and for all values of the secret at once. Only reports whose
origin is our client request count (Valgrind's confusion about goroutine stacks
has origin "stack allocation").

Built with go1.26.8 (runtime annotates its allocator for Valgrind when built with
-tags valgrind), GOEXPERIMENT=nodwarf5 and -ldflags=-compressdwarf=false because
Valgrind 3.19 reads neither DWARF5 nor compressed DWARF. XML output keeps the
top-4-frame error de-duplication (text mode drops to 2 frames after 100 errors).
"""
import json, os, re, subprocess, time, concurrent.futures
import xml.etree.ElementTree as ET

REPO = os.environ.get("VERIF_REPO", "/repo")
MOD = "github.com/bilibili/smgo/"

PACKAGES = {
    "utils": "./utils/",
    "fiat": "./sm2/internal/fiat/",
    "internal": "./sm2/internal/",
    "sm2": "./sm2/",
}

# (package, test function, tier) — one Valgrind process each
RUNS = [
    ("utils", "TestVgC08Utils", "quick"),
    ("fiat", "TestVgC08Fiat", "quick"),
    ("internal", "TestVgC08InternalBase", "quick"),
    ("internal", "TestVgC08InternalSchemes", "quick"),
    ("internal", "TestVgC08InternalVar", "quick"),
    ("internal", "TestVgC08InternalPoint", "quick"),
    ("sm2", "TestVgC08SM2Level1", "quick"),
    ("sm2", "TestVgC08SM2SignD", "quick"),
    ("sm2", "TestVgC08SM2SignK", "quick"),
    ("sm2", "TestVgC08SM2Wrappers", "quick"),
    ("internal", "TestVgC08InternalBaseMore", "thorough"),
    ("internal", "TestVgC08InternalVarMore", "thorough"),
    ("sm2", "TestVgC08SM2More", "thorough"),
]

EUCLID = re.compile(r"math/big\.\(\*Int\)\.(ModInverse|GCD|lehmerGCD|ModSqrt|Exp|exp|modSqrt\w*)|math/big\.(lehmer\w*|euclid\w*|Jacobi)|math/big\.nat\.(expNN\w*|modInverse|divLarge|divBasic)|math/big\.\(\*Int\)\.(Div|Quo|Rem|QuoRem|DivMod)$")
STD_ZONES = ("crypto/subtle.", "math/bits.", "math/big.")


def go_env(dwarf4=True):
    env = dict(os.environ)
    env.update({"GOFLAGS": "-mod=mod", "GOPROXY": "off", "GOSUMDB": "off", "GOTOOLCHAIN": "local"})
    if dwarf4:
        env["GOEXPERIMENT"] = "nodwarf5"  # go1.26.8 only
    return env


def is_verdict_bearing(f):
    base = os.path.basename(f["file"])
    return (f["name"] == "ConstantTimeCmp" and base == "utils.go") or (f["name"] == "TestPrivateKey" and base == "sm2.go") or \
           (f["name"] == "SetBytes" and f.get("recv") in ("SM2Element", "SM2ScalarElement"))


def mark_verdict_helpers(funcs):
    """A function g of the same package is a verdict helper when EVERY call of g in the sources sits in a `return`
    statement of a verdict-bearing function (or of another verdict helper), outside every loop and behind the last
    loop of that function: then g computes nothing but the final verdict its caller returns."""
    bydir = {}
    for f in funcs:
        bydir.setdefault(os.path.dirname(f["file"]), []).append(f)
    for d, fs in bydir.items():
        names = {}
        for f in fs:
            if not f.get("recv"):
                names.setdefault(f["name"], f)
        changed = True
        while changed:
            changed = False
            for name, g in names.items():
                if g.get("verdict_helper") or is_verdict_bearing(g):
                    continue
                sites, ok = 0, True
                for f in fs:
                    if name in (f.get("other_calls") or []):
                        ok = False
                        break
                    for c in (f.get("return_calls") or []):
                        if c["callee"] != name:
                            continue
                        sites += 1
                        last_loop_end = max([b for _, b in (f.get("loops") or [])] or [0])
                        if not (is_verdict_bearing(f) or f.get("verdict_helper")) or c["in_loop"] or c["line"] < last_loop_end:
                            ok = False
                if ok and sites > 0:
                    g["verdict_helper"] = True
                    changed = True


def source_ranges(verif):
    files = []
    for d in ("utils", "sm2", "sm2/internal", "sm2/internal/fiat"):
        p = os.path.join(REPO, d)
        for fn in sorted(os.listdir(p)):
            if fn.endswith(".go") and not fn.endswith("_test.go"):
                files.append(os.path.join(p, fn))
    out = subprocess.run(["go", "run", ".", *files], cwd=os.path.join(verif, "tools", "goranges"), env=go_env(False), capture_output=True, text=True)
    if out.returncode != 0:
        raise RuntimeError("goranges failed: " + out.stderr[-500:])
    table = {}
    funcs = json.loads(out.stdout)
    mark_verdict_helpers(funcs)
    for f in funcs:
        table.setdefault(os.path.basename(f["file"]), []).append(f)
    return table


def find_func(ranges, file, line):
    for f in ranges.get(os.path.basename(file or ""), []):
        if f["start"] <= line <= f["end"]:
            return f
    return None


def in_loop(f, line):
    return any(a <= line <= b for a, b in (f.get("loops") or []))


def short(fn):
    return (fn or "?").replace(MOD, "")


def parse_xml(path):
    """Return list of errors: {kind, origin_client, frames:[(fn,file,line)]}"""
    txt = open(path, errors="replace").read()
    if "</valgrindoutput>" not in txt:
        txt += "</valgrindoutput>"
    root = ET.fromstring(txt)
    errs = []
    for e in root.findall("error"):
        kind = e.findtext("kind") or ""
        aux = [a.text or "" for a in e.findall("auxwhat")]
        client = any("client request" in a for a in aux)
        st = e.find("stack")
        frames = []
        if st is not None:
            for fr in st.findall("frame"):
                ln = fr.findtext("line")
                frames.append((fr.findtext("fn") or "?", fr.findtext("file") or "", int(ln) if ln and ln.isdigit() else 0))
        errs.append({"kind": kind, "client": client, "frames": frames, "aux": aux})
    return errs


def classify(err, ranges):
    """Return (scenario, verdict, info). verdict in: control, allowed, violation, glue, noise, harness"""
    frames = err["frames"]
    kind = "branch" if "Cond" in err["kind"] else ("address" if "Value" in err["kind"] else err["kind"])
    scen = None
    for fn, _, _ in frames:
        m = re.search(r"\.(vgS_\w+|vgL2_\w+)$", fn)
        if m:
            scen = m.group(1)
            break
    names = [f[0] for f in frames]
    if any(re.search(r"utils\.VgGadget(Branch|Index)$", n) for n in names):
        g = "branch" if any(n.endswith("VgGadgetBranch") for n in names) else "index"
        return "control", "control", {"gadget": g, "kind": kind}
    if scen is None:
        return None, "noise", {"kind": kind, "top": short(names[0]) if names else "?"}
    # innermost frame that belongs to the library or the std zones
    site = None
    for fn, file, line in frames:
        base = os.path.basename(file)
        if base.startswith("zz_verif"):
            if site is None:
                site = ("harness", fn, file, line)
            break
        if fn.startswith(MOD) or fn.startswith(STD_ZONES):
            site = ("lib", fn, file, line)
            break
    if site is None:
        return scen, "noise", {"kind": kind, "top": short(names[0]) if names else "?"}
    if site[0] == "harness":
        return scen, "harness", {"kind": kind, "fn": short(site[1]), "line": site[3]}
    _, fn, file, line = site
    sfn = short(fn)
    info = {"kind": kind, "fn": sfn, "file": os.path.basename(file), "line": line, "stack": [short(n) for n in names[:8]]}
    f = find_func(ranges, file, line) if fn.startswith(MOD) else None
    loop = bool(f and in_loop(f, line))
    info["in_loop"] = loop
    is_cmp = sfn == "utils.ConstantTimeCmp"
    is_setbytes = sfn in ("sm2/internal/fiat.(*SM2Element).SetBytes", "sm2/internal/fiat.(*SM2ScalarElement).SetBytes")
    # the code at the reported line may belong to a helper that only ever computes the returned verdict of a
    # verdict-bearing function ("return cmpVerdict(borrow, nonZero)", inlined or not): same rules, applied to the helper
    is_helper = bool(f and f.get("verdict_helper"))
    # Verdict sites (both levels): the statement allows "only the final accept/reject verdicts" to depend on the secret.
    decision = bool(f and any(a <= line <= b for a, b in (f.get("decision_ifs") or [])))
    decision_raw = decision  # before the "final verdict" adjustment below
    # ... and a FINAL verdict: it may not precede a loop of the same function (a verdict taken before the loop that
    # processes the operands is an early exit: "fast path when the first bytes differ")
    if decision and f and (f.get("loops") or []):
        last_loop_end = max(b for _, b in f["loops"])
        if line < last_loop_end and not in_loop(f, line):
            decision = False
            info["verdict_before_loop"] = True
    info["decision_if"] = decision
    if (is_cmp or is_setbytes or sfn == "sm2.TestPrivateKey" or is_helper) and not loop and decision and kind == "branch":
        # the condition of an `if` whose body always returns: an accept/reject verdict, outside every loop
        return scen, "allowed", dict(info, why="verdict: condition of an if that always returns, outside every loop")
    # (c) the "is it the point at infinity" verdict that OPENS a conversion out of the point domain: a method of SM2Point
    # that returns bytes or an integer (not a point: Add/Double/Select stay branch-free), first statement an if that leaves
    conversion = bool(f and f.get("recv") == "SM2Point" and f.get("results") and all(t in ("[]byte", "*big.Int") for t in f["results"]))
    if (sfn in ("sm2/internal.(*SM2Point).bytes", "sm2/internal.(*SM2Point).GetAffineX") or conversion) and kind == "branch" and f and f["first_if"][0] > 0 and f["first_if"][0] <= line <= f["first_if"][1] and decision_raw:
        return scen, "allowed", dict(info, why="is-infinity verdict at the top of the conversion")
    snames = [short(n) for n in names]
    if fn.startswith("math/big.") and any(n.endswith(").ToBigInt") for n in snames) and any(n.endswith("(*SM2Point).GetAffineX") for n in snames) \
            and any(("SetBytes" in n or "norm" in n or "setBytes" in n) for n in snames[:4]):
        return scen, "allowed", dict(info, why="big.Int normalisation while boxing the result of GetAffineX")
    # (b) accept/reject decisions on a CANDIDATE in the entry points of package sm2: the condition of an if whose body
    # leaves, either directly in the candidate loop of an exported entry point (one loop deep) or outside every loop of
    # a helper. A decision inside a loop that walks over the BYTES of a candidate (a health test, a scan) is taken once
    # per byte, not once per candidate: it is not a verdict.
    depth = sum(1 for a, b in ((f or {}).get("loops") or []) if a <= line <= b) if f else 0
    exported = bool(f and f["name"][:1].isupper() and not f.get("recv"))
    info["loop_depth"] = depth
    if scen.startswith("vgL2_") and sfn.startswith("sm2.") and kind == "branch" and decision and (depth == 0 or (exported and depth <= 1)):
        return scen, "allowed", dict(info, why="accept/reject decision (if ... { continue | return | break }) in the entry point")
    if scen.startswith("vgL2_"):
        # name the deny rule the report falls under (diagnostic only: every non-verdict report is a violation)
        rule = "secret data steers a function reachable from the entry point"
        if any(EUCLID.search(n) for n in names):
            rule = "V1: secret reaches a Euclidean / division-based math/big routine"
        elif sfn.startswith("sm2/internal") or sfn.startswith("utils.DecomposeNAF") or fn.startswith("crypto/subtle.") or fn.startswith("math/bits."):
            rule = "V2: report inside curve/field/table arithmetic"
        elif (is_cmp or is_setbytes) and loop:
            rule = "V3: secret-dependent exit or address inside a comparison loop"
        elif fn.startswith("math/big."):
            rule = "V4: secret boxed into math/big (variable-time by construction)"
        return scen, "violation", dict(info, rule=rule)
    return scen, "violation", info


def run(out, unit, tier, seed, workdir, overlay):
    verif = os.path.dirname(os.path.dirname(os.path.abspath(__file__)))
    t0 = time.time()
    try:
        ranges = source_ranges(verif)
    except Exception as e:
        out.inconclusive.append("memcheck: " + str(e))
        return
    # 1. build the four test binaries with go1.26.8
    def build(name):
        binp = os.path.join(workdir, "vg_%s.test" % name)
        cmd = ["go1.26.8", "test", "-c", "-vet=off", "-tags", "verif,valgrind", "-ldflags=-compressdwarf=false", "-overlay", overlay, "-o", binp, PACKAGES[name]]
        p = subprocess.run(cmd, cwd=REPO, env=go_env(), capture_output=True, text=True)
        return name, binp, p.returncode, (p.stdout + p.stderr)[-2000:]
    bins = {}
    with concurrent.futures.ThreadPoolExecutor(max_workers=4) as ex:
        for name, binp, rc, log in ex.map(build, PACKAGES):
            if rc != 0 or not os.path.exists(binp):
                out.inconclusive.append("memcheck: build of %s failed: %s" % (name, log[-600:]))
            else:
                bins[name] = binp
    if len(bins) != len(PACKAGES):
        return
    runs = [r for r in RUNS if r[2] == "quick" or tier == "thorough"]
    # 2. run under valgrind
    def vg(r):
        pkg, test, _ = r
        xmlp = os.path.join(workdir, "vg_%s.xml" % test)
        notes = os.path.join(workdir, "vg_%s.notes" % test)
        logp = os.path.join(workdir, "vg_%s.log" % test)
        for p in (xmlp, notes):
            if os.path.exists(p):
                os.remove(p)
        env = dict(os.environ, GOMAXPROCS="1", GOGC="off", VERIF_VG_NOTES=notes, VERIF_SEED=str(seed), VERIF_TIER=tier)
        cmd = ["timeout", "-s", "KILL", "1500", "valgrind", "--error-limit=no", "--num-callers=40", "--track-origins=yes", "--xml=yes", "--xml-file=" + xmlp,
               bins[pkg], "-test.run", "^%s$" % test, "-test.timeout", "20m"]
        t = time.time()
        with open(logp, "w") as lf:
            rc = subprocess.call(cmd, cwd=workdir, env=env, stdout=lf, stderr=subprocess.STDOUT)
        return r, rc, xmlp, notes, logp, time.time() - t
    results = []
    with concurrent.futures.ThreadPoolExecutor(max_workers=min(12, len(runs))) as ex:
        results = list(ex.map(vg, runs))
    # 3. offline monitor over the reports
    zone_counts = {}
    allowed_sites = {}
    glue = {}
    noise = 0
    for r, rc, xmlp, notes, logp, wall in results:
        pkg, test, _ = r
        out.units.append({"unit": "memcheck:" + test, "rc": rc, "wall_s": round(wall, 1)})
        log = open(logp, errors="replace").read() if os.path.exists(logp) else ""
        if rc != 0 or "PASS" not in log:
            out.inconclusive.append("memcheck: %s exited %s under valgrind (see %s)" % (test, rc, logp))
            continue
        try:
            errs = parse_xml(xmlp)
        except Exception as e:
            out.inconclusive.append("memcheck: cannot parse %s: %s" % (xmlp, e))
            continue
        controls = set()
        for e in errs:
            if not e["client"]:
                noise += 1
                continue
            scen, verdict, info = classify(e, ranges)
            if verdict == "control":
                controls.add(info["gadget"])
            elif verdict == "allowed":
                k = "%s@%s" % (scen, info["fn"])
                allowed_sites[k] = allowed_sites.get(k, 0) + 1
            elif verdict == "glue":
                k = "%s@%s" % (scen, info["fn"])
                glue[k] = glue.get(k, 0) + 1
            elif verdict == "noise":
                noise += 1
            elif verdict == "harness":
                out.inconclusive.append("memcheck: harness code of %s branches on tainted data at %s:%s" % (scen, info["fn"], info["line"]))
            else:
                level = "L1" if scen.startswith("vgS_") else "L2"
                cls = "secret-dependent-%s:%s:%s:%s" % (info["kind"], level, scen.split("_", 1)[1], info["fn"])
                if info.get("in_loop"):
                    cls += ":in-loop"
                out.violation(cls, info, "memcheck:" + test)
                zone_counts[cls] = zone_counts.get(cls, 0) + 1
        if controls != {"branch", "index"}:
            out.inconclusive.append("memcheck: positive controls not reported in %s (saw %s)" % (test, sorted(controls)))
        # scenario counts written by the harness
        if os.path.exists(notes):
            for line in open(notes):
                m = re.match(r"scenario (\S+) (\d+)", line)
                if m:
                    n = int(m.group(2))
                    out.evaluations += n
                    out.classes["tainted:" + m.group(1)] = out.classes.get("tainted:" + m.group(1), 0) + n
        out.counters["positive_controls_reported"] = out.counters.get("positive_controls_reported", 0) + len(controls)
    out.counters["valgrind_processes"] = len(results)
    out.counters["taint_reports_at_verdict_sites"] = sum(allowed_sites.values())
    out.counters["non_client_origin_reports_ignored"] = noise
    out.notes["verdict_sites_observed"] = allowed_sites
    out.samples.append({"scenario": "vgS_ScalarBaseMult", "taint": "32-byte scalar marked undefined by client request 0x4d430001", "oracle": "no memcheck report with a library frame except verdict sites"})
    out.samples.append({"scenario": "vgL2_SignHashed_d_tainted", "taint": "private key only", "rule": "every client-origin report is a violation unless it is a verdict site or an accept/reject decision-if of the entry point; x1 is declassified through the verif hook"})
