"""Engine: op-trace monitor for the two inversion addition chains (C16).

tools/vtrace logs every call of fiat.sm2Mul / sm2Square / sm2ScalarMul / sm2ScalarSquare (log-only
breakpoints) while one inversion runs; this monitor replays the recorded (op, out, arg1, arg2)
pointer sequence on *exponents*: x -> 1, square doubles, multiply adds. The value written last must
carry exactly p-2 (n-2). Because the chain is straight-line code (C08: control flow does not depend
on the input) one trace characterises all inputs."""
import json, os, re, struct, subprocess, time

REPO = os.environ.get("VERIF_REPO", "/repo")
P = 0xFFFFFFFEFFFFFFFFFFFFFFFFFFFFFFFFFFFFFFFF00000000FFFFFFFFFFFFFFFF
N = 0xFFFFFFFEFFFFFFFFFFFFFFFFFFFFFFFF7203DF6B21C6052B53BBF40939D54123


def go_env():
    env = dict(os.environ)
    env.update({"GOFLAGS": "-mod=mod", "GOPROXY": "off", "GOSUMDB": "off", "GOTOOLCHAIN": "local"})
    return env


def run(out, unit, tier, seed, workdir, overlay):
    verif = os.path.dirname(os.path.dirname(os.path.abspath(__file__)))
    vt = os.path.join(verif, "bin", "vtrace")
    src = os.path.join(verif, "tools", "vtrace.c")
    os.makedirs(os.path.dirname(vt), exist_ok=True)
    try:
        if not os.path.exists(vt) or os.path.getmtime(vt) < os.path.getmtime(src):
            subprocess.check_call(["gcc", "-O2", "-o", vt, src])
    except Exception as e:
        out.inconclusive.append("optrace: cannot build vtrace: %s" % e)
        return
    binp = os.path.join(workdir, "vt_fiat.test")
    p = subprocess.run(["go", "test", "-c", "-vet=off", "-tags", "verif", "-overlay", overlay, "-o", binp, "./sm2/internal/fiat/"], cwd=REPO, env=go_env(), capture_output=True, text=True)
    if p.returncode != 0:
        out.inconclusive.append("optrace: build failed: " + (p.stdout + p.stderr)[-600:])
        return
    nm = subprocess.run(["go", "tool", "nm", "-n", binp], env=go_env(), capture_output=True, text=True).stdout
    want = {"fiat.sm2Mul": "mul-p", "fiat.sm2Square": "sq-p", "fiat.sm2ScalarMul": "mul-n", "fiat.sm2ScalarSquare": "sq-n", "fiat.vtOpBegin": "begin", "fiat.vtOpEnd": "end"}
    bps, kinds = [], []
    def after_prologue(addr):
        """Address of the first instruction after the stack-bound check of a Go function. The
        morestack path (also used for cooperative preemption) jumps back to the function entry,
        so a breakpoint on the entry itself can be hit twice for one call."""
        d = subprocess.run(["objdump", "-d", "--no-show-raw-insn", "--start-address=%#x" % addr, "--stop-address=%#x" % (addr + 48), binp], capture_output=True, text=True).stdout
        ins = re.findall(r"^\s*([0-9a-f]+):\s+(\S+)", d, re.M)
        for i, (a, mn) in enumerate(ins[:6]):
            if mn in ("jbe", "jb", "jls") and i + 1 < len(ins):
                return int(ins[i + 1][0], 16)
        return addr
    for line in nm.splitlines():
        f = line.split()
        if len(f) < 3:
            continue
        for suffix, kind in want.items():
            if f[2].endswith("/" + suffix):
                a = int(f[0], 16)
                if kind not in ("begin", "end"):
                    a = after_prologue(a)
                bps.append("%x:m" % a)
                kinds.append(kind)
    if sorted(kinds) != sorted(want.values()):
        out.inconclusive.append("optrace: symbols missing in test binary: have %s" % sorted(kinds))
        return
    trace = os.path.join(workdir, "vt_optrace.bin")
    log = os.path.join(workdir, "vt_optrace.log")
    env = dict(os.environ, VERIF_VT_OPTRACE="1", GODEBUG="asyncpreemptoff=1", GOMAXPROCS="1")
    with open(log, "w") as lf:
        rc = subprocess.call(["timeout", "-s", "KILL", "600", vt, "-o", trace, "-b", ",".join(bps), "--", binp, "-test.run", "^TestVtraceInvert$"], cwd=workdir, env=env, stdout=lf, stderr=subprocess.STDOUT)
    if rc != 0:
        out.inconclusive.append("optrace: traced workload failed rc=%s, see %s" % (rc, log))
        return
    data = open(trace, "rb").read()
    recs = [struct.unpack_from("<19Q", data, o) for o in range(0, len(data) - 151, 152)]
    cur = None
    results = {}
    ops_seen = 0
    for r in recs:
        if r[0] & 0xff != 3:
            continue
        kind = kinds[r[0] >> 8]
        ax, bx, cx = r[3], r[4], r[5]
        if kind == "begin":
            cur = {"kind": ax, "x": bx, "z": cx, "exp": {bx: 1}, "ops": [], "last_out": None, "bad": None}
            continue
        if kind == "end":
            if cur is not None:
                results[cur["kind"]] = cur
            cur = None
            continue
        if cur is None:
            continue
        ops_seen += 1
        field = "p" if kind.endswith("-p") else "n"
        exp = cur["exp"]
        if kind.startswith("mul"):
            if bx not in exp or cx not in exp:
                cur["bad"] = cur["bad"] or "op %d: multiply reads an undefined temporary" % len(cur["ops"])
                exp[ax] = None
            else:
                exp[ax] = None if exp[bx] is None or exp[cx] is None else exp[bx] + exp[cx]
        else:
            if bx not in exp:
                cur["bad"] = cur["bad"] or "op %d: square reads an undefined temporary" % len(cur["ops"])
                exp[ax] = None
            else:
                exp[ax] = None if exp[bx] is None else 2 * exp[bx]
        cur["ops"].append((kind, field))
        cur["last_out"] = ax
    expect = {3: ("p", P - 2, "sm2FermatInvert_FiatAC"), 4: ("n", N - 2, "sm2ScalarFermatInvert_FiatAC"), 5: ("p", P - 2, "(*SM2Element).Invert"), 6: ("n", N - 2, "(*SM2ScalarElement).Invert")}
    for kind, (field, want_exp, name) in expect.items():
        t = results.get(kind)
        if t is None or not t["ops"]:
            out.inconclusive.append("optrace: no field operations recorded for %s" % name)
            continue
        out.evaluations += 1
        out.classes["optrace:%s" % name] = out.classes.get("optrace:%s" % name, 0) + 1
        zptr = t["z"] if t["z"] else t["last_out"]
        got = t["exp"].get(zptr)
        nsq = sum(1 for o in t["ops"] if o[0].startswith("sq"))
        nmul = sum(1 for o in t["ops"] if o[0].startswith("mul"))
        out.counters["optrace_ops_%s" % name] = len(t["ops"])
        detail = {"routine": name, "squares": nsq, "multiplies": nmul, "exponent_of_result": hex(got) if got is not None else None, "expected": hex(want_exp)}
        wrong_field = [o for o in t["ops"] if o[1] != field]
        if t["bad"]:
            detail["problem"] = t["bad"]
            out.violation("inversion-chain-uses-undefined-temporary:" + name, detail, "optrace")
        elif wrong_field:
            out.violation("inversion-chain-mixes-fields:" + name, detail, "optrace")
        elif got != want_exp:
            out.violation("inversion-exponent-wrong:" + name, detail, "optrace")
        out.samples.append(detail)
    out.counters["optrace_breakpoint_hits"] = ops_seen
    try:
        os.remove(trace)
    except OSError:
        pass
