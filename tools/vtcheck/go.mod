module vtcheck

go 1.17
