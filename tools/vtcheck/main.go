// vtcheck — offline monitors over single-step traces recorded by tools/vtrace.
//
// Inputs: the binary trace, the plan written by the traced workload (what every
// invocation was), and an objdump disassembly of the traced routines.
//
// Monitors:
//  1. trace equality: within one (routine, length configuration, verdict class) every
//     invocation must execute the same sequence of (pc, effective addresses of all memory
//     operands) — only buffer contents differ between invocations.
//  2. trace taint: a dynamic taint interpreter over the same trace. Sources are the bytes of
//     the secret buffers; a tainted register in an address computation or tainted flags
//     consumed by Jcc/SETcc/CMOVcc is a violation, except at the declared verdict sites
//     (at most once per invocation).
//  3. access audit (C11): every effective address must lie inside a buffer handed to the
//     routine, its argument frame, or read-only data of the binary.
//  4. coverage: which static instructions of each routine were executed.
package main

import (
	"bufio"
	"encoding/binary"
	"encoding/json"
	"flag"
	"fmt"
	"io"
	"os"
	"regexp"
	"sort"
	"strconv"
	"strings"
)

// ---------------------------------------------------------------------------- disassembly

type Operand struct {
	Kind   int // 0 imm, 1 reg, 2 mem, 3 target
	Reg    int // register id for Kind 1
	Width  int // register width in bytes for Kind 1
	Disp   int64
	Base   int // register id or -1; -2 = rip
	Index  int
	Scale  int64
	Mask   int  // k register id + 1, 0 = none
	Zero   bool // {z}
	Bcast  int  // {1toN}
	Target uint64
}

type Insn struct {
	PC   uint64
	Next uint64
	Mn   string
	Text string
	Ops  []Operand
	Func string
}

// register ids: 0..15 gpr (rax rbx rcx rdx rsi rdi rbp rsp r8..r15), 100..131 vector, 200..207 mask
var gprNames = map[string][2]int{}

func init() {
	base := []string{"ax", "bx", "cx", "dx", "si", "di", "bp", "sp"}
	for i, b := range base {
		gprNames["r"+b] = [2]int{i, 8}
		gprNames["e"+b] = [2]int{i, 4}
		gprNames[b] = [2]int{i, 2}
	}
	for i, b := range []string{"al", "bl", "cl", "dl", "sil", "dil", "bpl", "spl"} {
		gprNames[b] = [2]int{i, 1}
	}
	for i, b := range []string{"ah", "bh", "ch", "dh"} {
		gprNames[b] = [2]int{i, 1}
	}
	for n := 8; n <= 15; n++ {
		s := fmt.Sprintf("r%d", n)
		gprNames[s] = [2]int{n, 8}
		gprNames[s+"d"] = [2]int{n, 4}
		gprNames[s+"w"] = [2]int{n, 2}
		gprNames[s+"b"] = [2]int{n, 1}
	}
}

func parseReg(s string) (id, width int, ok bool) {
	s = strings.TrimPrefix(s, "%")
	if v, ok := gprNames[s]; ok {
		return v[0], v[1], true
	}
	if s == "rip" {
		return -2, 8, true
	}
	for _, p := range []struct {
		pre string
		w   int
	}{{"zmm", 64}, {"ymm", 32}, {"xmm", 16}} {
		if strings.HasPrefix(s, p.pre) {
			n, err := strconv.Atoi(s[len(p.pre):])
			if err == nil {
				return 100 + n, p.w, true
			}
		}
	}
	if len(s) == 2 && s[0] == 'k' && s[1] >= '0' && s[1] <= '7' {
		return 200 + int(s[1]-'0'), 8, true
	}
	return 0, 0, false
}

func splitOps(s string) []string {
	var out []string
	depth := 0
	cur := ""
	for _, c := range s {
		switch c {
		case '(', '{':
			depth++
		case ')', '}':
			depth--
		}
		if c == ',' && depth == 0 {
			out = append(out, strings.TrimSpace(cur))
			cur = ""
			continue
		}
		cur += string(c)
	}
	if strings.TrimSpace(cur) != "" {
		out = append(out, strings.TrimSpace(cur))
	}
	return out
}

var memRe = regexp.MustCompile(`^(-?0x[0-9a-f]+|-?\d+)?\((%\w+)?(?:,(%\w+),(\d))?\)$`)
var decoRe = regexp.MustCompile(`\{[^}]*\}`)

func parseOperand(s string) (Operand, error) {
	op := Operand{Base: -1, Index: -1, Scale: 1}
	for _, d := range decoRe.FindAllString(s, -1) {
		in := d[1 : len(d)-1]
		switch {
		case in == "z":
			op.Zero = true
		case strings.HasPrefix(in, "%k"):
			id, _, _ := parseReg(in)
			op.Mask = id - 200 + 1
		case strings.HasPrefix(in, "1to"):
			n, _ := strconv.Atoi(in[3:])
			op.Bcast = n
		}
	}
	s = strings.TrimSpace(decoRe.ReplaceAllString(s, ""))
	switch {
	case strings.HasPrefix(s, "$"):
		op.Kind = 0
		return op, nil
	case strings.HasPrefix(s, "%"):
		id, w, ok := parseReg(s)
		if !ok {
			return op, fmt.Errorf("unknown register %q", s)
		}
		op.Kind, op.Reg, op.Width = 1, id, w
		return op, nil
	case strings.HasPrefix(s, "*"):
		return op, fmt.Errorf("indirect operand %q", s)
	}
	if m := memRe.FindStringSubmatch(s); m != nil {
		op.Kind = 2
		if m[1] != "" {
			v, err := strconv.ParseInt(m[1], 0, 64)
			if err != nil {
				u, err2 := strconv.ParseUint(strings.TrimPrefix(m[1], "0x"), 16, 64)
				if err2 != nil {
					return op, err
				}
				v = int64(u)
			}
			op.Disp = v
		}
		if m[2] != "" {
			id, _, ok := parseReg(m[2])
			if !ok {
				return op, fmt.Errorf("unknown base %q", m[2])
			}
			op.Base = id
		}
		if m[3] != "" {
			id, _, ok := parseReg(m[3])
			if !ok {
				return op, fmt.Errorf("unknown index %q", m[3])
			}
			op.Index = id
			op.Scale, _ = strconv.ParseInt(m[4], 10, 64)
		}
		return op, nil
	}
	// jump target "5af123 <sym+0x1>" or absolute address
	f := strings.Fields(s)
	if len(f) > 0 {
		if v, err := strconv.ParseUint(f[0], 16, 64); err == nil {
			op.Kind, op.Target = 3, v
			return op, nil
		}
	}
	return op, fmt.Errorf("cannot parse operand %q", s)
}

var lineRe = regexp.MustCompile(`^\s*([0-9a-f]+):\s+(.*)$`)
var funcRe = regexp.MustCompile(`^[0-9a-f]+ <(.+)>:$`)

type Disasm struct {
	Insns  map[uint64]*Insn
	Funcs  map[string][2]uint64 // name -> [start, end)
	Errors []string
}

func loadDisasm(path string) (*Disasm, error) {
	f, err := os.Open(path)
	if err != nil {
		return nil, err
	}
	defer f.Close()
	d := &Disasm{Insns: map[uint64]*Insn{}, Funcs: map[string][2]uint64{}}
	sc := bufio.NewScanner(f)
	sc.Buffer(make([]byte, 1<<20), 1<<20)
	cur := ""
	var prev *Insn
	for sc.Scan() {
		line := sc.Text()
		if m := funcRe.FindStringSubmatch(strings.TrimSpace(line)); m != nil {
			cur = m[1]
			continue
		}
		m := lineRe.FindStringSubmatch(line)
		if m == nil {
			continue
		}
		pc, _ := strconv.ParseUint(m[1], 16, 64)
		text := m[2]
		if i := strings.Index(text, "#"); i >= 0 {
			text = text[:i]
		}
		text = strings.TrimSpace(text)
		if text == "" {
			continue
		}
		fields := strings.SplitN(text, " ", 2)
		mn := fields[0]
		// prefixes printed as separate words
		for (mn == "rep" || mn == "repz" || mn == "repnz" || mn == "lock" || mn == "data16" || mn == "notrack" || mn == "bnd") && len(fields) > 1 {
			fields = strings.SplitN(strings.TrimSpace(fields[1]), " ", 2)
			mn = fields[0]
		}
		in := &Insn{PC: pc, Mn: mn, Text: text, Func: cur}
		if len(fields) > 1 {
			for _, o := range splitOps(strings.TrimSpace(fields[1])) {
				op, err := parseOperand(o)
				if err != nil {
					d.Errors = append(d.Errors, fmt.Sprintf("%x: %s: %v", pc, text, err))
					continue
				}
				in.Ops = append(in.Ops, op)
			}
		}
		if prev != nil {
			prev.Next = pc
		}
		prev = in
		d.Insns[pc] = in
		r := d.Funcs[cur]
		if r[0] == 0 || pc < r[0] {
			r[0] = pc
		}
		if pc+1 > r[1] {
			r[1] = pc + 1
		}
		d.Funcs[cur] = r
	}
	return d, sc.Err()
}

// ---------------------------------------------------------------------------- plan and trace

type Buf struct {
	Addr uint64 `json:"addr"`
	Len  int    `json:"len"`
}

type Plan struct {
	ID      uint64         `json:"id"`
	Routine string         `json:"routine"`
	Config  string         `json:"config"`
	Class   string         `json:"class"`
	Content string         `json:"content"`
	Bufs    map[string]Buf `json:"bufs"`
	Secret  []string       `json:"secret"`
	Ret     *int           `json:"ret"`
	// steps mode
	Group   string      `json:"group"`
	Variant string      `json:"variant"`
	Ranges  [][2]uint64 `json:"secret_ranges"`
	End     bool        `json:"end"`
}

type Rec struct {
	Tag  uint64
	Regs [18]uint64 // rip rsp rax rbx rcx rdx rsi rdi rbp r8..r15 eflags
}

// index into Regs for gpr id (rax rbx rcx rdx rsi rdi rbp rsp r8..)
var gprSlot = [16]int{2, 3, 4, 5, 6, 7, 8, 1, 9, 10, 11, 12, 13, 14, 15, 16}

func (r *Rec) gpr(id int) uint64 { return r.Regs[gprSlot[id]] }
func (r *Rec) rip() uint64       { return r.Regs[0] }
func (r *Rec) rsp() uint64       { return r.Regs[1] }

// ---------------------------------------------------------------------------- instruction semantics

var condJumps = map[string]bool{}
var flagReaders = map[string]bool{}
var movLike = map[string]bool{}
var flagWriters = map[string]bool{}
var noEffect = map[string]bool{"jmp": true, "ret": true, "nop": true, "nopw": true, "nopl": true, "int3": true, "xchg": true, "vzeroupper": true, "cs": true, "data16": true}

func init() {
	for _, cc := range []string{"a", "ae", "b", "be", "c", "e", "g", "ge", "l", "le", "na", "nae", "nb", "nbe", "nc", "ne", "ng", "nge", "nl", "nle", "no", "np", "ns", "nz", "o", "p", "pe", "po", "s", "z"} {
		condJumps["j"+cc] = true
		flagReaders["j"+cc] = true
		flagReaders["set"+cc] = true
		flagReaders["cmov"+cc] = true
	}
	for _, s := range []string{"adc", "sbb", "adcq", "sbbq", "adcl", "sbbl", "rcl", "rcr", "jrcxz", "loop"} {
		flagReaders[s] = true
	}
	for _, s := range []string{"mov", "movq", "movl", "movw", "movb", "movabs", "movzbl", "movzwl", "movzbq", "movzwq", "movzbw", "movslq", "movsbl", "movsbq", "movswl", "movswq", "movd", "vmovd", "vmovq",
		"vmovdqu32", "vmovdqu64", "vmovdqu8", "vmovdqu16", "vmovdqa64", "vmovdqa32", "vmovdqa", "vmovdqu", "vmovapd", "vmovaps", "vmovupd", "vmovups", "movdqu", "movdqa", "movups", "movaps",
		"kmovw", "kmovq", "kmovd", "kmovb", "vpbroadcastd", "vpbroadcastq", "vpbroadcastb", "vpbroadcastw", "vbroadcasti32x2", "vbroadcasti32x4", "vbroadcasti64x2", "vbroadcasti64x4", "vbroadcasti128", "vbroadcastss", "vbroadcastsd"} {
		movLike[s] = true
	}
	for _, s := range []string{"add", "sub", "and", "or", "xor", "cmp", "test", "shl", "shr", "sar", "sal", "rol", "ror", "inc", "dec", "neg", "imul", "mul", "adc", "sbb", "bt", "bsf", "bsr", "popcnt", "lzcnt", "tzcnt", "andn", "shld", "shrd"} {
		for _, suf := range []string{"", "q", "l", "w", "b"} {
			flagWriters[s+suf] = true
		}
	}
}

// accessSize returns the number of bytes the memory operand at index mi accesses.
// known=false means the size rule is a lower bound (masked vector access) or unknown.
func accessSize(in *Insn, mi int) (size int, exact bool) {
	op := in.Ops[mi]
	mn := in.Mn
	regW := 0
	for i, o := range in.Ops {
		if i != mi && o.Kind == 1 && o.Reg < 200 {
			if o.Width > regW {
				regW = o.Width
			}
		}
	}
	switch {
	case op.Bcast > 0:
		// embedded broadcast: element size = vector width / N
		if regW > 0 {
			return regW / op.Bcast, true
		}
		return 4, false
	case mn == "vpbroadcastd" || mn == "vbroadcastss" || mn == "movd" || mn == "vmovd":
		return 4, true
	case mn == "vpbroadcastq" || mn == "vbroadcasti32x2" || mn == "vbroadcastsd" || mn == "vmovq":
		return 8, true
	case mn == "vbroadcasti32x4" || mn == "vbroadcasti64x2" || mn == "vbroadcasti128":
		return 16, true
	case mn == "vbroadcasti64x4":
		return 32, true
	case mn == "vpbroadcastb":
		return 1, true
	case mn == "vpbroadcastw":
		return 2, true
	case mn == "movzbl" || mn == "movzbq" || mn == "movzbw" || mn == "movsbl" || mn == "movsbq":
		return 1, true
	case mn == "movzwl" || mn == "movzwq" || mn == "movswl" || mn == "movswq":
		return 2, true
	case mn == "movslq":
		return 4, true
	case mn == "movq" && regW >= 16:
		return 8, true
	}
	for _, o := range in.Ops {
		if o.Mask > 0 {
			// masked vector access: its extent is governed by the mask register (not in the trace);
			// lower bound = one 32-bit element
			return 4, false
		}
	}
	if regW > 0 {
		return regW, true
	}
	// no register operand: size from the mnemonic suffix
	switch mn[len(mn)-1] {
	case 'q':
		return 8, true
	case 'l':
		return 4, true
	case 'w':
		return 2, true
	case 'b':
		return 1, true
	}
	return 1, false
}

func maskedInsn(in *Insn) bool {
	for _, o := range in.Ops {
		if o.Mask > 0 {
			return true
		}
	}
	return false
}

// ---------------------------------------------------------------------------- report

type Violation struct {
	Class  string                 `json:"class"`
	Count  int                    `json:"count"`
	Detail map[string]interface{} `json:"detail"`
}

type Report struct {
	Prop         string                 `json:"property"`
	Check        string                 `json:"check"`
	Evaluations  int64                  `json:"evaluations"`
	Classes      map[string]int64       `json:"classes"`
	Samples      []interface{}          `json:"samples"`
	Violations   []*Violation           `json:"violations"`
	Notes        map[string]interface{} `json:"notes"`
	Counters     map[string]int64       `json:"counters"`
	Inconclusive []string               `json:"inconclusive"`
	vmap         map[string]*Violation
}

func (r *Report) violation(class string, detail map[string]interface{}) {
	v, ok := r.vmap[class]
	if !ok {
		v = &Violation{Class: class, Detail: detail}
		r.vmap[class] = v
		r.Violations = append(r.Violations, v)
	}
	v.Count++
}

// ---------------------------------------------------------------------------- per-trace monitors

type step struct {
	pc  uint64
	eas [3]uint64
	n   int
}

type traceResult struct {
	plan  *Plan
	steps []step
	ret   uint64
}

type taintState struct {
	gpr   [16]bool
	vec   [32]bool
	k     [8]bool
	flags bool
	mem   map[uint64]bool
}

func (t *taintState) regTaint(id int) bool {
	switch {
	case id >= 0 && id < 16:
		return t.gpr[id]
	case id >= 100 && id < 132:
		return t.vec[id-100]
	case id >= 200 && id < 208:
		return t.k[id-200]
	}
	return false
}

func (t *taintState) setReg(id int, v bool) {
	switch {
	case id >= 0 && id < 16:
		t.gpr[id] = v
	case id >= 100 && id < 132:
		t.vec[id-100] = v
	case id >= 200 && id < 208:
		t.k[id-200] = v
	}
}

func (t *taintState) memTaint(addr uint64, n int) bool {
	for i := 0; i < n; i++ {
		if t.mem[addr+uint64(i)] {
			return true
		}
	}
	return false
}

func (t *taintState) setMem(addr uint64, n int, v bool) {
	for i := 0; i < n; i++ {
		if v {
			t.mem[addr+uint64(i)] = true
		} else {
			delete(t.mem, addr+uint64(i))
		}
	}
}

type Checker struct {
	dis      *Disasm
	rep      *Report
	prop     string
	plans    map[uint64]*Plan
	ref      map[string]*traceResult // first trace per equality class
	refCount map[string]int
	covered  map[string]map[uint64]bool
	verdict  map[string]bool // routine -> has an allowed verdict site
	roRanges [][2]uint64
	mnemMem  map[string]bool
	unmodel  map[string]int
	steps    int64
	traces   int64
	taintOps int64
	// stepsMode: Go code of a package followed by library stepping (only instructions inside the package are in the
	// trace; calls out of it are gaps): conditional JUMPS on tainted flags and tainted address registers are
	// violations, SETcc/CMOVcc/ADC propagate, CALL clobbers every register
	stepsMode bool
}

func (c *Checker) ea(in *Insn, op *Operand, r *Rec) uint64 {
	if op.Base == -2 {
		return in.Next + uint64(op.Disp)
	}
	a := uint64(op.Disp)
	if op.Base >= 0 {
		a += r.gpr(op.Base)
	}
	if op.Index >= 0 {
		a += r.gpr(op.Index) * uint64(op.Scale)
	}
	return a
}

func short(fn string) string {
	if i := strings.LastIndex(fn, "/"); i >= 0 {
		fn = fn[i+1:]
	}
	return strings.TrimSuffix(fn, ".abi0")
}

// process one complete invocation
func (c *Checker) finish(p *Plan, recs []Rec, retRec *Rec) {
	c.traces++
	key := p.Routine + "|" + p.Config + "|" + p.Class
	cls := p.Routine + "|" + configClass(p.Routine, p.Config) + "|" + p.Class
	c.rep.Evaluations++
	c.rep.Classes[cls]++
	fr, ok := c.dis.Funcs[routineSym(c.dis, p.Routine)]
	if !ok {
		c.rep.Inconclusive = append(c.rep.Inconclusive, "no disassembly for routine "+p.Routine)
		return
	}
	cov := c.covered[p.Routine]
	if cov == nil {
		cov = map[uint64]bool{}
		c.covered[p.Routine] = cov
	}
	// taint sources
	ts := &taintState{mem: map[uint64]bool{}}
	for _, name := range p.Secret {
		b := p.Bufs[name]
		ts.setMem(b.Addr, b.Len, true)
	}
	entryRsp := recs[0].rsp()
	verdictUsed := 0
	res := &traceResult{plan: p}
	refT := c.ref[key]
	diverged := false
	for si := range recs {
		r := &recs[si]
		pc := r.rip()
		c.steps++
		if pc < fr[0] || pc >= fr[1] {
			c.rep.Inconclusive = append(c.rep.Inconclusive, fmt.Sprintf("%s: execution left the routine at step %d (pc %#x): signal or call", key, si, pc))
			return
		}
		in := c.dis.Insns[pc]
		if in == nil {
			c.rep.Inconclusive = append(c.rep.Inconclusive, fmt.Sprintf("%s: pc %#x not in disassembly", key, pc))
			return
		}
		cov[pc] = true
		st := step{pc: pc}
		isLea := in.Mn == "lea" || strings.HasPrefix(in.Mn, "nop")
		// ---- effective addresses, address taint, audit
		for oi := range in.Ops {
			op := &in.Ops[oi]
			if op.Kind != 2 || isLea {
				continue
			}
			a := c.ea(in, op, r)
			if st.n < 3 {
				st.eas[st.n] = a
				st.n++
			}
			c.mnemMem[in.Mn] = true
			size, exact := accessSize(in, oi)
			if c.prop == "C09" {
				if (op.Base >= 0 && ts.gpr[op.Base]) || (op.Index >= 0 && ts.gpr[op.Index]) {
					c.rep.violation("taint:secret-dependent-address:"+p.Routine, map[string]interface{}{"routine": p.Routine, "config": p.Config, "content": p.Content, "step": si, "pc": fmt.Sprintf("%#x", pc), "insn": in.Text, "offset_in_routine": pc - fr[0]})
				}
			}
			if c.prop == "C11" {
				if !c.allowed(p, a, size, entryRsp) {
					c.rep.violation("audit:access-outside-arguments:"+p.Routine, map[string]interface{}{"routine": p.Routine, "config": p.Config, "content": p.Content, "step": si, "pc": fmt.Sprintf("%#x", pc), "insn": in.Text,
						"address": fmt.Sprintf("%#x", a), "size": size, "size_exact": exact, "nearest": c.nearest(p, a), "offset_in_routine": pc - fr[0]})
				}
				c.rep.Counters["accesses_audited"]++
			}
		}
		res.steps = append(res.steps, st)
		// ---- equality against the reference trace of the class
		if c.prop == "C09" && refT != nil && !diverged {
			if si >= len(refT.steps) || refT.steps[si] != st {
				diverged = true
				d := map[string]interface{}{"routine": p.Routine, "config": p.Config, "class": p.Class, "content": p.Content, "reference_content": refT.plan.Content, "step": si, "pc": fmt.Sprintf("%#x", pc), "insn": in.Text, "offset_in_routine": pc - fr[0]}
				kind := "control-flow"
				if si < len(refT.steps) {
					o := refT.steps[si]
					d["reference_pc"] = fmt.Sprintf("%#x", o.pc)
					if o.pc == pc {
						kind = "memory-address"
						d["addresses"] = fmt.Sprintf("%#x vs %#x", st.eas[:st.n], o.eas[:o.n])
					} else if si > 0 {
						prev := c.dis.Insns[recs[si-1].rip()]
						if prev != nil {
							d["diverging_branch"] = prev.Text
						}
					}
				}
				c.rep.violation(fmt.Sprintf("trace-differs:%s:%s:%s", kind, p.Routine, p.Class), d)
			}
		}
		// ---- taint propagation
		if c.prop == "C09" {
			c.taintStep(ts, in, r, p, si, fr, &verdictUsed)
		}
	}
	if c.prop == "C09" {
		if refT != nil && !diverged && len(refT.steps) != len(res.steps) {
			c.rep.violation(fmt.Sprintf("trace-differs:length:%s:%s", p.Routine, p.Class), map[string]interface{}{"routine": p.Routine, "config": p.Config, "content": p.Content, "steps": len(res.steps), "reference_steps": len(refT.steps)})
		}
		if refT == nil {
			c.ref[key] = res
		}
		c.refCount[key]++
		if verdictUsed > 1 {
			c.rep.violation("taint:verdict-site-executed-more-than-once:"+p.Routine, map[string]interface{}{"routine": p.Routine, "config": p.Config, "times": verdictUsed})
		}
		c.rep.Counters["verdict_site_hits"] += int64(verdictUsed)
	}
	if p.Ret != nil && retRec != nil {
		// return value of openAsm is written to the stack frame, not a register: nothing to compare here
	}
}

func configClass(routine, cfg string) string {
	// coarse class for the evidence: keep the configuration (they are already a bounded list)
	return cfg
}

func routineSym(d *Disasm, routine string) string {
	for name := range d.Funcs {
		if strings.HasSuffix(name, "."+routine+".abi0") {
			return name
		}
	}
	for name := range d.Funcs {
		if strings.HasSuffix(name, "."+routine) {
			return name
		}
	}
	return routine
}

func (c *Checker) allowed(p *Plan, a uint64, size int, entryRsp uint64) bool {
	end := a + uint64(size)
	for _, b := range p.Bufs {
		if a >= b.Addr && end <= b.Addr+uint64(b.Len) {
			return true
		}
	}
	// argument frame: return address + up to 128 bytes of arguments/results above the entry stack pointer
	if a >= entryRsp && end <= entryRsp+8+128 {
		return true
	}
	for _, r := range c.roRanges {
		if a >= r[0] && end <= r[1] {
			return true
		}
	}
	return false
}

func (c *Checker) nearest(p *Plan, a uint64) string {
	best := ""
	var bd int64 = 1 << 62
	for name, b := range p.Bufs {
		var d int64
		switch {
		case a < b.Addr:
			d = int64(b.Addr - a)
		case a >= b.Addr+uint64(b.Len):
			d = int64(a - (b.Addr + uint64(b.Len)) + 1)
		default:
			d = 0
		}
		if d < bd {
			bd = d
			best = fmt.Sprintf("%s[%d bytes]%+d", name, b.Len, int64(a)-int64(b.Addr))
		}
	}
	return best
}

func (c *Checker) taintStep(ts *taintState, in *Insn, r *Rec, p *Plan, si int, fr [2]uint64, verdictUsed *int) {
	mn := in.Mn
	c.taintOps++
	if noEffect[mn] || strings.HasPrefix(mn, "nop") {
		return
	}
	if c.stepsMode && strings.HasPrefix(mn, "call") {
		// the callee is not in the trace: whatever it returns is untracked, every register is clobbered
		for i := 0; i < 16; i++ {
			ts.gpr[i] = false
		}
		for i := range ts.vec {
			ts.vec[i] = false
		}
		ts.flags = false
		return
	}
	opTaint := func(op *Operand, oi int) bool {
		switch op.Kind {
		case 1:
			return ts.regTaint(op.Reg)
		case 2:
			size, _ := accessSize(in, oi)
			if size < 16 && !strings.HasPrefix(in.Mn, "vpbroadcast") && !strings.HasPrefix(in.Mn, "vbroadcast") && maskedInsn(in) {
				size = 64 // conservative for sources
				for _, o := range in.Ops {
					if o.Kind == 1 && o.Reg >= 100 && o.Reg < 200 {
						size = o.Width
					}
				}
			}
			return ts.memTaint(c.ea(in, op, r), size)
		}
		return false
	}
	flagIn := false
	if c.stepsMode && flagReaders[mn] {
		if ts.flags && condJumps[mn] {
			c.rep.violation("taint:secret-dependent-branch-in-go-code:"+p.Routine, map[string]interface{}{"operation": p.Config, "content": p.Content, "step": si, "pc": fmt.Sprintf("%#x", in.PC), "insn": in.Text, "function": short(in.Func), "offset_in_function": in.PC - fr[0]})
		}
		if condJumps[mn] {
			return
		}
		flagIn = ts.flags
	} else if flagReaders[mn] {
		if ts.flags {
			allowedSite := false
			if p.Routine == "openAsm" && condJumps[mn] {
				// the one permitted data-dependent decision: the tag-match verdict of Open
				allowedSite = true
				*verdictUsed++
			}
			if !allowedSite || *verdictUsed > 1 {
				c.rep.violation("taint:secret-dependent-branch:"+p.Routine, map[string]interface{}{"routine": p.Routine, "config": p.Config, "content": p.Content, "step": si, "pc": fmt.Sprintf("%#x", in.PC), "insn": in.Text, "offset_in_routine": in.PC - fr[0]})
			}
		}
		if condJumps[mn] {
			return
		}
	}
	nops := len(in.Ops)
	if nops == 0 {
		return
	}
	if mn == "lea" {
		src, dst := &in.Ops[0], &in.Ops[nops-1]
		t := (src.Base >= 0 && ts.gpr[src.Base]) || (src.Index >= 0 && ts.gpr[src.Index])
		ts.setReg(dst.Reg, t)
		return
	}
	if mn == "cmp" || mn == "test" || strings.HasPrefix(mn, "cmp") && len(mn) == 4 || strings.HasPrefix(mn, "test") && len(mn) == 5 {
		t := false
		for oi := range in.Ops {
			t = t || opTaint(&in.Ops[oi], oi)
		}
		ts.flags = t
		return
	}
	if c.stepsMode {
		switch {
		case strings.HasPrefix(mn, "call"):
			// the callee is not in the trace: whatever it returns is untracked, every register is clobbered
			for i := 0; i < 16; i++ {
				ts.gpr[i] = false
			}
			for i := range ts.vec {
				ts.vec[i] = false
			}
			ts.flags = false
			return
		case strings.HasPrefix(mn, "push"):
			if nops >= 1 {
				ts.setMem(r.rsp()-8, 8, opTaint(&in.Ops[0], 0))
			}
			return
		case strings.HasPrefix(mn, "pop"):
			if nops >= 1 && in.Ops[0].Kind == 1 {
				ts.setReg(in.Ops[0].Reg, ts.memTaint(r.rsp(), 8))
			}
			return
		case strings.Contains(in.Text, "%es:(%rdi)") && strings.HasPrefix(mn, "stos"):
			ts.setMem(r.gpr(5), 8, ts.gpr[0]) // one element per step: [rdi] <- rax
			return
		case strings.Contains(in.Text, "%es:(%rdi)") && strings.HasPrefix(mn, "movs"):
			ts.setMem(r.gpr(5), 8, ts.memTaint(r.gpr(4), 8)) // [rdi] <- [rsi]
			return
		}
	}
	if mn == "push" || mn == "pop" || mn == "call" || strings.HasPrefix(mn, "rep") {
		c.unmodel[mn]++
		return
	}
	dst := &in.Ops[nops-1]
	var t bool
	switch {
	case nops == 1:
		// inc/dec/neg/not/shl1...
		t = opTaint(dst, 0)
	case movLike[mn]:
		t = false
		for oi := 0; oi < nops-1; oi++ {
			t = t || opTaint(&in.Ops[oi], oi)
		}
		partial := dst.Kind == 1 && dst.Reg < 16 && dst.Width <= 2
		merge := dst.Mask > 0 && !dst.Zero
		if partial || merge {
			t = t || opTaint(dst, nops-1)
		}
		if dst.Mask > 0 {
			t = t || ts.k[dst.Mask-1]
		}
	case nops == 2:
		// legacy two-operand ALU / SSE: dst = dst op src
		src := &in.Ops[0]
		if src.Kind == 1 && dst.Kind == 1 && src.Reg == dst.Reg && (strings.HasPrefix(mn, "xor") || strings.HasPrefix(mn, "sub") || strings.HasPrefix(mn, "pxor")) {
			t = false // zeroing idiom
		} else {
			t = opTaint(src, 0) || opTaint(dst, 1)
		}
	default:
		// AVX three/four operand form: dst = f(sources)
		var regs []int
		t = false
		for oi := 0; oi < nops-1; oi++ {
			o := &in.Ops[oi]
			t = t || opTaint(o, oi)
			if o.Kind == 1 {
				regs = append(regs, o.Reg)
			}
		}
		if len(regs) == 2 && regs[0] == regs[1] && (strings.HasPrefix(mn, "vpxor") || strings.HasPrefix(mn, "vxorp") || strings.HasPrefix(mn, "vpsub")) {
			t = false // zeroing idiom
		}
		if dst.Mask > 0 {
			t = t || ts.k[dst.Mask-1]
			if !dst.Zero {
				t = t || opTaint(dst, nops-1)
			}
		}
	}
	if flagIn {
		t = true // SETcc / CMOVcc / ADC ... on tainted flags: the result is secret-dependent (a value, not a path)
	}
	if flagWriters[mn] {
		ts.flags = t
	}
	switch dst.Kind {
	case 1:
		ts.setReg(dst.Reg, t)
	case 2:
		size, _ := accessSize(in, nops-1)
		if maskedInsn(in) {
			for _, o := range in.Ops {
				if o.Kind == 1 && o.Reg >= 100 && o.Reg < 200 && o.Width > size {
					size = o.Width
				}
			}
			// masked store: only taint (never clear) the full width
			if t {
				ts.setMem(c.ea(in, dst, r), size, true)
			}
			return
		}
		ts.setMem(c.ea(in, dst, r), size, t)
	}
}

// ---------------------------------------------------------------------------- main

func main() {
	tracePath := flag.String("trace", "", "binary trace from vtrace")
	planPath := flag.String("plan", "", "plan file written by the workload")
	disPath := flag.String("dis", "", "objdump -d --no-show-raw-insn output")
	prop := flag.String("prop", "C09", "C09 (equality + taint) or C11 (access audit)")
	roSpec := flag.String("ro", "", "read-only ranges lo-hi,lo-hi (hex) of the binary")
	outPath := flag.String("out", "", "report (JSON line, appended)")
	check := flag.String("check", "vtrace", "check name in the report")
	covPath := flag.String("cov", "", "write per-routine coverage (offsets of executed / all static instructions) as JSON")
	mode := flag.String("mode", "routines", "routines (invocations of assembly routines) or steps (library stepping of whole public operations)")
	flag.Parse()
	if *mode == "steps" {
		runSteps(*tracePath, *planPath, *disPath, *prop, *check, *outPath)
		return
	}
	rep := &Report{Prop: *prop, Check: *check, Classes: map[string]int64{}, Notes: map[string]interface{}{}, Counters: map[string]int64{}, vmap: map[string]*Violation{}}
	fail := func(msg string) {
		rep.Inconclusive = append(rep.Inconclusive, msg)
		write(rep, *outPath)
		os.Exit(0)
	}
	dis, err := loadDisasm(*disPath)
	if err != nil {
		fail("cannot read disassembly: " + err.Error())
	}
	c := &Checker{dis: dis, rep: rep, prop: *prop, plans: map[uint64]*Plan{}, ref: map[string]*traceResult{}, refCount: map[string]int{}, covered: map[string]map[uint64]bool{}, mnemMem: map[string]bool{}, unmodel: map[string]int{}}
	for _, s := range strings.Split(*roSpec, ",") {
		if s == "" {
			continue
		}
		ab := strings.Split(s, "-")
		lo, _ := strconv.ParseUint(ab[0], 16, 64)
		hi, _ := strconv.ParseUint(ab[1], 16, 64)
		c.roRanges = append(c.roRanges, [2]uint64{lo, hi})
	}
	pf, err := os.Open(*planPath)
	if err != nil {
		fail("cannot read plan: " + err.Error())
	}
	sc := bufio.NewScanner(pf)
	sc.Buffer(make([]byte, 1<<20), 1<<20)
	sawEnd := false
	nPlanned := 0
	for sc.Scan() {
		var p Plan
		if err := json.Unmarshal(sc.Bytes(), &p); err != nil {
			continue
		}
		if p.Routine == "end" {
			sawEnd = true
			continue
		}
		if p.Class == "unexpected-verdict" {
			rep.Inconclusive = append(rep.Inconclusive, fmt.Sprintf("workload: openAsm returned an unexpected verdict for %s %s (functional defect, see C07)", p.Config, p.Content))
			continue
		}
		pp := p
		c.plans[p.ID] = &pp
		nPlanned++
	}
	pf.Close()
	if !sawEnd {
		fail("workload did not finish (no end marker in plan)")
	}
	tf, err := os.Open(*tracePath)
	if err != nil {
		fail("cannot read trace: " + err.Error())
	}
	br := bufio.NewReaderSize(tf, 1<<22)
	var cur *Plan
	var recs []Rec
	inTrace := false
	buf := make([]byte, 19*8)
	traced := 0
	for {
		if _, err := io.ReadFull(br, buf); err != nil {
			break
		}
		var r Rec
		r.Tag = binary.LittleEndian.Uint64(buf)
		for i := 0; i < 18; i++ {
			r.Regs[i] = binary.LittleEndian.Uint64(buf[8*(i+1):])
		}
		switch r.Tag & 0xff {
		case 3: // marker: AX = plan id
			cur = c.plans[r.Regs[2]]
		case 1:
			recs = recs[:0]
			recs = append(recs, r)
			inTrace = true
		case 0:
			if inTrace {
				recs = append(recs, r)
			}
		case 2:
			if inTrace && cur != nil {
				c.finish(cur, recs, &r)
				traced++
				cur = nil
			}
			inTrace = false
		}
	}
	tf.Close()
	if traced < nPlanned {
		rep.Inconclusive = append(rep.Inconclusive, fmt.Sprintf("only %d of %d planned invocations were traced", traced, nPlanned))
	}
	// classes with a single trace cannot be compared
	single := 0
	for k, n := range c.refCount {
		if n < 2 {
			single++
			_ = k
		}
	}
	rep.Counters["instructions_traced"] = c.steps
	rep.Counters["invocations_traced"] = c.traces
	rep.Counters["equality_classes"] = int64(len(c.refCount))
	rep.Counters["equality_classes_with_single_trace"] = int64(single)
	// coverage of static instructions (merged across shards by the driver)
	covOut := map[string]map[string][]uint64{}
	for routine, cov := range c.covered {
		sym := routineSym(dis, routine)
		var all, hit []uint64
		for pc, in := range dis.Insns {
			if in.Func == sym && in.Mn != "int3" && !strings.HasPrefix(in.Mn, "nop") {
				all = append(all, pc-dis.Funcs[sym][0])
				if cov[pc] {
					hit = append(hit, pc-dis.Funcs[sym][0])
				}
			}
		}
		sort.Slice(all, func(i, j int) bool { return all[i] < all[j] })
		sort.Slice(hit, func(i, j int) bool { return hit[i] < hit[j] })
		covOut[routine] = map[string][]uint64{"all": all, "hit": hit}
	}
	if *covPath != "" {
		data, _ := json.Marshal(covOut)
		os.WriteFile(*covPath, data, 0o644)
	}
	var mm []string
	for m := range c.mnemMem {
		mm = append(mm, m)
	}
	sort.Strings(mm)
	rep.Notes["mnemonics_with_memory_operands"] = mm
	if len(c.unmodel) > 0 {
		rep.Notes["unmodelled_instructions"] = c.unmodel
		rep.Inconclusive = append(rep.Inconclusive, fmt.Sprintf("taint interpreter met unmodelled instructions: %v", c.unmodel))
	}
	if len(dis.Errors) > 0 {
		rep.Notes["disassembly_parse_errors"] = dis.Errors[:min(len(dis.Errors), 10)]
	}
	if len(rep.Samples) == 0 {
		for _, t := range c.ref {
			rep.Samples = append(rep.Samples, map[string]interface{}{"routine": t.plan.Routine, "config": t.plan.Config, "class": t.plan.Class, "steps": len(t.steps), "first_pcs": firstPCs(t, 4)})
			if len(rep.Samples) >= 3 {
				break
			}
		}
	}
	write(rep, *outPath)
}

func firstPCs(t *traceResult, n int) []string {
	var out []string
	for i := 0; i < n && i < len(t.steps); i++ {
		out = append(out, fmt.Sprintf("%#x", t.steps[i].pc))
	}
	return out
}

func min(a, b int) int {
	if a < b {
		return a
	}
	return b
}

func write(rep *Report, path string) {
	if rep.Violations == nil {
		rep.Violations = []*Violation{}
	}
	if rep.Samples == nil {
		rep.Samples = []interface{}{}
	}
	if rep.Inconclusive == nil {
		rep.Inconclusive = []string{}
	}
	data, _ := json.Marshal(rep)
	if path == "" {
		fmt.Println(string(data))
		return
	}
	f, err := os.OpenFile(path, os.O_CREATE|os.O_WRONLY|os.O_APPEND, 0o644)
	if err != nil {
		fmt.Fprintln(os.Stderr, err)
		os.Exit(2)
	}
	f.Write(append(data, '\n'))
	f.Close()
}


// ---------------------------------------------------------------------------- steps mode

// runSteps: taint interpretation of library-stepping traces. Between two markers the trace holds the instructions
// executed inside the package (kind 0); the plan names, per marker id, the byte ranges that hold key, round keys,
// nonce, additional data, message and ciphertext. A conditional jump on flags derived from those bytes, or a memory
// operand whose address registers derive from them, is reported - for ALL values of the bytes at once, which the
// sequence comparison of the same traces only samples.
func runSteps(tracePath, planPath, disPath, prop, check, outPath string) {
	rep := &Report{Prop: prop, Check: check, Classes: map[string]int64{}, Notes: map[string]interface{}{}, Counters: map[string]int64{}, vmap: map[string]*Violation{}}
	fail := func(msg string) {
		rep.Inconclusive = append(rep.Inconclusive, msg)
		write(rep, outPath)
		os.Exit(0)
	}
	dis, err := loadDisasm(disPath)
	if err != nil {
		fail("cannot read disassembly: " + err.Error())
	}
	c := &Checker{dis: dis, rep: rep, prop: prop, plans: map[uint64]*Plan{}, mnemMem: map[string]bool{}, unmodel: map[string]int{}, stepsMode: true}
	pf, err := os.Open(planPath)
	if err != nil {
		fail("cannot read plan: " + err.Error())
	}
	sc := bufio.NewScanner(pf)
	sc.Buffer(make([]byte, 1<<20), 1<<20)
	for sc.Scan() {
		var p Plan
		if json.Unmarshal(sc.Bytes(), &p) == nil && !p.End {
			pp := p
			c.plans[p.ID] = &pp
		}
	}
	pf.Close()
	tf, err := os.Open(tracePath)
	if err != nil {
		fail("cannot read trace: " + err.Error())
	}
	br := bufio.NewReaderSize(tf, 1<<22)
	var cur *Plan
	var recs []Rec
	var ops, withSources, undecoded int64
	process := func() {
		if cur == nil || len(recs) == 0 {
			return
		}
		ops++
		if len(cur.Ranges) > 0 {
			withSources++
		}
		ts := &taintState{mem: map[uint64]bool{}}
		for _, rg := range cur.Ranges {
			ts.setMem(rg[0], int(rg[1]), true)
		}
		p := &Plan{Routine: strings.SplitN(strings.SplitN(cur.Group, "/", 2)[0], "#", 2)[0], Config: cur.Group, Content: cur.Variant}
		verdictUsed := 0
		for si := range recs {
			r := &recs[si]
			in := dis.Insns[r.rip()]
			if in == nil {
				// entry of an assembly routine (logged, not stepped): it clobbers registers like any call
				for i := 0; i < 16; i++ {
					ts.gpr[i] = false
				}
				ts.flags = false
				undecoded++
				continue
			}
			c.steps++
			fr := dis.Funcs[in.Func]
			if in.Mn != "lea" && !strings.HasPrefix(in.Mn, "nop") {
				for oi := range in.Ops {
					op := &in.Ops[oi]
					if op.Kind == 2 && ((op.Base >= 0 && op.Base != 7 && ts.gpr[op.Base]) || (op.Index >= 0 && ts.gpr[op.Index])) {
						rep.violation("taint:secret-dependent-address-in-go-code:"+p.Routine, map[string]interface{}{"operation": p.Config, "content": p.Content, "step": si, "pc": fmt.Sprintf("%#x", in.PC), "insn": in.Text, "function": short(in.Func), "offset_in_function": in.PC - fr[0]})
					}
				}
			}
			c.taintStep(ts, in, r, p, si, fr, &verdictUsed)
		}
	}
	buf := make([]byte, 19*8)
	for {
		if _, err := io.ReadFull(br, buf); err != nil {
			break
		}
		var r Rec
		r.Tag = binary.LittleEndian.Uint64(buf)
		for i := 0; i < 18; i++ {
			r.Regs[i] = binary.LittleEndian.Uint64(buf[8*(i+1):])
		}
		switch r.Tag & 0xff {
		case 3:
			process()
			cur = c.plans[r.Regs[2]]
			recs = recs[:0]
		case 0, 1:
			if cur != nil {
				recs = append(recs, r)
			}
		}
	}
	process()
	tf.Close()
	rep.Evaluations = ops
	rep.Counters["go_glue_taint_operations"] = ops
	rep.Counters["go_glue_taint_operations_with_declared_secrets"] = withSources
	rep.Counters["go_glue_taint_instructions_interpreted"] = c.steps
	rep.Counters["go_glue_taint_assembly_entries_skipped"] = undecoded
	if len(c.unmodel) > 0 {
		rep.Notes["go_glue_unmodelled_instructions"] = c.unmodel
	}
	if len(dis.Errors) > 0 {
		rep.Notes["go_glue_disassembly_parse_errors"] = dis.Errors[:min(len(dis.Errors), 10)]
	}
	if withSources == 0 {
		rep.Inconclusive = append(rep.Inconclusive, "steps taint: no operation declared its secret byte ranges")
	}
	write(rep, outPath)
}
