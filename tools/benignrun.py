#!/usr/bin/env python3
"""Run ALL registered quick checks against a behaviour-preserving change and report every alarm.

usage: benignrun.py <patch.diff> [--props C01,C02,...]

Applies the patch to /repo (never committed), runs the checks with evidence redirected to a temporary
directory, always restores /repo. Any VIOLATION on such a change is a false alarm of the machinery; an
INCONCLUSIVE (build of a white-box monitor failed, ...) is reported separately.
"""
import os, subprocess, sys, tempfile, shutil, re
VERIF = os.path.dirname(os.path.dirname(os.path.abspath(__file__)))
args = sys.argv[1:]
props = ["C%02d" % i for i in range(1, 21)]
if "--props" in args:
    i = args.index("--props"); props = args[i + 1].split(","); del args[i:i + 2]
patch = os.path.abspath(args[0])
subprocess.check_call(["git", "-C", "/repo", "apply", patch])
alarms, incon = [], []
try:
    outdir = tempfile.mkdtemp(prefix="benign-")
    env = dict(os.environ, VERIF_OUTDIR=outdir, VERIF_TIER="quick")
    for p in props:
        r = subprocess.run([sys.executable, os.path.join(VERIF, "tools", "vcheck.py"), p, "--tier", "quick"], env=env, capture_output=True, text=True)
        lines = [l for l in r.stdout.splitlines() if l.startswith(("VIOLATION", "INCONCLUSIVE", "OK", "KNOWN"))]
        status = "ok" if r.returncode == 0 else ("ALARM" if r.returncode == 1 else "inconclusive")
        print("%s: %s" % (p, status))
        for l in lines:
            if l.startswith("VIOLATION"):
                alarms.append(l)
                rp = re.search(r"replay=(\S+)", l)
                print("   ", l)
                if rp and os.path.exists(rp.group(1)):
                    print("      ", open(rp.group(1)).read()[:600].replace("\n", " "))
            elif l.startswith("INCONCLUSIVE"):
                incon.append(l)
                print("   ", l[:300])
    shutil.rmtree(outdir, ignore_errors=True)
finally:
    subprocess.call(["git", "-C", "/repo", "checkout", "--", "."])
    subprocess.call(["git", "-C", "/repo", "clean", "-fdq"])
print("SUMMARY alarms=%d inconclusive=%d" % (len(alarms), len(incon)))
