// vtrace — ptrace tracer for the runtime monitors of /verif (C09, C11 audit, C16 op trace).
//
//   vtrace -o out.bin [-n maxsteps] -b <hexaddr>:<mode>[,<hexaddr>:<mode>...] -- prog args...
//
// mode 's': when the breakpoint (a function entry) is hit, single-step until the function
//           returns (detected by rip == the return address read at entry; comparing rsp is
//           wrong for Go: morestack / g0 switches) and log every instruction.
// mode 'm': marker / log-only breakpoint: log the registers at entry and continue.
//
// Record (little endian, 19 x uint64): tag, rip, rsp, rax, rbx, rcx, rdx, rsi, rdi, rbp,
// r8..r15, eflags.  tag = kind | bpindex << 8 with kind 0 = step, 1 = entry, 2 = returned,
// 3 = marker, 4 = synchronous fault inside the routine (signal number << 16). The registers of a step record are those *before* the instruction at rip executes.
#define _GNU_SOURCE
#include <errno.h>
#include <signal.h>
#include <stdint.h>
#include <stdio.h>
#include <stdlib.h>
#include <string.h>
#include <sys/personality.h>
#include <sys/ptrace.h>
#include <sys/user.h>
#include <sys/wait.h>
#include <unistd.h>

#define MAXBP 256
static uint64_t bp_addr[MAXBP];
static long bp_orig[MAXBP];
static char bp_mode[MAXBP];
static int nbp;
static pid_t mainpid;
static FILE *out;

static void poke_bp(pid_t p, int i, int on) {
  errno = 0;
  long w = ptrace(PTRACE_PEEKTEXT, p, (void *)bp_addr[i], 0);
  if (errno) { perror("vtrace: peek"); exit(2); }
  if (on) { bp_orig[i] = w; w = (w & ~0xffL) | 0xcc; }
  else { w = (w & ~0xffL) | (bp_orig[i] & 0xff); }
  if (ptrace(PTRACE_POKETEXT, p, (void *)bp_addr[i], (void *)w) < 0) { perror("vtrace: poke"); exit(2); }
}

static void emit(uint64_t tag, struct user_regs_struct *r) {
  uint64_t x[19] = {tag, r->rip, r->rsp, r->rax, r->rbx, r->rcx, r->rdx, r->rsi, r->rdi, r->rbp,
                    r->r8, r->r9, r->r10, r->r11, r->r12, r->r13, r->r14, r->r15, r->eflags};
  fwrite(x, sizeof x, 1, out);
}

// Asynchronous signals that arrive while we single-step are postponed: delivering one in the
// middle of a step would land the step inside the signal handler, and the handler's return would
// re-execute (and re-hit) the instruction under the breakpoint. They are re-raised with tgkill once
// the traced region is left. Synchronous faults cannot be postponed (the instruction would fault
// again); they are delivered at once and the invocation is abandoned.
#include <sys/syscall.h>
static int postponed[64];
static int npostponed;
static long nsignals_postponed;

static int is_sync_fault(int sig) { return sig == SIGSEGV || sig == SIGBUS || sig == SIGILL || sig == SIGFPE; }

// single-step thread t once; returns 0 on a completed step, or the synchronous signal number
static int step_once(pid_t t) {
  for (;;) {
    if (ptrace(PTRACE_SINGLESTEP, t, 0, 0) < 0) { perror("vtrace: step"); exit(2); }
    int st;
    pid_t w = waitpid(t, &st, __WALL);
    if (w < 0 || !WIFSTOPPED(st)) { fprintf(stderr, "vtrace: thread vanished while stepping\n"); exit(2); }
    int s2 = WSTOPSIG(st);
    if (s2 == SIGTRAP) return 0;
    if (is_sync_fault(s2)) return s2;
    if (npostponed < 64) postponed[npostponed++] = s2;
    nsignals_postponed++;
  }
}

static void release_postponed(pid_t t) {
  for (int i = 0; i < npostponed; i++) syscall(SYS_tgkill, mainpid, t, postponed[i]);
  npostponed = 0;
}

int main(int argc, char **argv) {
  int ai = 1;
  const char *outp = NULL;
  long maxsteps = 200000000;
  while (ai < argc && argv[ai][0] == '-') {
    if (!strcmp(argv[ai], "-o")) outp = argv[++ai];
    else if (!strcmp(argv[ai], "-n")) maxsteps = atol(argv[++ai]);
    else if (!strcmp(argv[ai], "-b")) {
      char *s = strdup(argv[++ai]);
      for (char *t = strtok(s, ","); t; t = strtok(NULL, ",")) {
        char *c = strchr(t, ':');
        bp_mode[nbp] = c ? c[1] : 's';
        if (c) *c = 0;
        bp_addr[nbp++] = strtoull(t, 0, 16);
        if (nbp >= MAXBP) { fprintf(stderr, "vtrace: too many breakpoints\n"); return 2; }
      }
    } else if (!strcmp(argv[ai], "--")) { ai++; break; }
    ai++;
  }
  if (!outp || ai >= argc) { fprintf(stderr, "usage: vtrace -o out -b addr:mode,... -- prog args\n"); return 2; }
  out = fopen(outp, "wb");
  if (!out) { perror("vtrace: out"); return 2; }
  setvbuf(out, NULL, _IOFBF, 1 << 22);
  pid_t c = fork();
  if (c == 0) {
    personality(ADDR_NO_RANDOMIZE);
    ptrace(PTRACE_TRACEME, 0, 0, 0);
    execv(argv[ai], argv + ai);
    perror("vtrace: execv");
    _exit(127);
  }
  mainpid = c;
  int st;
  waitpid(c, &st, 0); // exec stop
  ptrace(PTRACE_SETOPTIONS, c, 0, PTRACE_O_TRACECLONE | PTRACE_O_EXITKILL);
  for (int i = 0; i < nbp; i++) poke_bp(c, i, 1);
  ptrace(PTRACE_CONT, c, 0, 0);
  long steps = 0, invocations = 0, markers = 0;
  for (;;) {
    pid_t t = waitpid(-1, &st, __WALL);
    if (t < 0) { if (errno == ECHILD) break; perror("vtrace: waitpid"); break; }
    if (WIFEXITED(st) || WIFSIGNALED(st)) {
      if (t == mainpid) {
        int code = WIFEXITED(st) ? WEXITSTATUS(st) : 128 + WTERMSIG(st);
        fprintf(stderr, "vtrace: child exit status %d steps %ld invocations %ld markers %ld postponed-signals %ld\n", code, steps, invocations, markers, nsignals_postponed);
        fclose(out);
        return code;
      }
      continue;
    }
    if (!WIFSTOPPED(st)) continue;
    int sig = WSTOPSIG(st);
    if (sig == SIGTRAP && (st >> 16) == PTRACE_EVENT_CLONE) { ptrace(PTRACE_CONT, t, 0, 0); continue; }
    if (sig == SIGSTOP) { ptrace(PTRACE_CONT, t, 0, 0); continue; } // new thread's initial stop
    if (sig == SIGTRAP) {
      struct user_regs_struct r;
      ptrace(PTRACE_GETREGS, t, 0, &r);
      int hit = -1;
      for (int i = 0; i < nbp; i++) if (r.rip - 1 == bp_addr[i]) hit = i;
      if (hit < 0) { ptrace(PTRACE_CONT, t, 0, 0); continue; }
      poke_bp(t, hit, 0);
      r.rip -= 1;
      ptrace(PTRACE_SETREGS, t, 0, &r);
      if (bp_mode[hit] == 'm') {
        markers++;
        emit(3 | ((uint64_t)hit << 8), &r);
        int f = step_once(t); // step over the restored instruction
        poke_bp(t, hit, 1);
        release_postponed(t);
        ptrace(PTRACE_CONT, t, 0, (void *)(long)f);
        continue;
      }
      invocations++;
      errno = 0;
      uint64_t retaddr = (uint64_t)ptrace(PTRACE_PEEKDATA, t, (void *)r.rsp, 0);
      emit(1 | ((uint64_t)hit << 8), &r);
      int fault = 0;
      for (;;) {
        fault = step_once(t);
        ptrace(PTRACE_GETREGS, t, 0, &r);
        if (fault) { emit(4 | ((uint64_t)hit << 8) | ((uint64_t)fault << 16), &r); break; } // tag 4: synchronous fault inside the routine
        steps++;
        if (r.rip == retaddr) { emit(2 | ((uint64_t)hit << 8), &r); break; }
        emit(0 | ((uint64_t)hit << 8), &r);
        if (steps > maxsteps) { fprintf(stderr, "vtrace: step limit\n"); kill(mainpid, SIGKILL); fclose(out); return 3; }
      }
      poke_bp(t, hit, 1);
      release_postponed(t);
      ptrace(PTRACE_CONT, t, 0, (void *)(long)fault);
      continue;
    }
    ptrace(PTRACE_CONT, t, 0, (void *)(long)sig); // pass other signals through
  }
  fclose(out);
  return 0;
}
