// vtrace — ptrace tracer for the runtime monitors of /verif (C09, C11 audit, C16 op trace).
//
//   vtrace -o out.bin [-n maxsteps] -b <hexaddr>:<mode>[,<hexaddr>:<mode>...] -- prog args...
//
// mode 's': when the breakpoint (a function entry) is hit, single-step until the function
//           returns (detected by rip == the return address read at entry; comparing rsp is
//           wrong for Go: morestack / g0 switches) and log every instruction.
// mode 'm': marker / log-only breakpoint: log the registers at entry and continue.
// mode 'G' + 'L' (with -r ranges): "library stepping". While the thread is inside the function under the
//           'G' (gate) breakpoint, every instruction it executes inside the address ranges of kind 'g' is
//           single-stepped and logged; code outside the ranges (runtime, standard library, harness) runs at
//           full speed: on a call out of the ranges a temporary breakpoint at the return address resumes the
//           stepping, and 'L' breakpoints on the entries of the functions in the ranges catch calls INTO them
//           from outside. Ranges of kind 'a' (assembly routines traced elsewhere) only have their entry logged. Ranges
//           of kind 's' (standard-library packages that compute on data) have no entry breakpoints: they are stepped
//           when called from stepped code, never on their own.
//           -r file: lines "<lo hex> <hi hex> <g|a>".
//
// Record (little endian, 19 x uint64): tag, rip, rsp, rax, rbx, rcx, rdx, rsi, rdi, rbp,
// r8..r15, eflags.  tag = kind | bpindex << 8 with kind 0 = step, 1 = entry, 2 = returned,
// 3 = marker, 4 = synchronous fault inside the routine (signal number << 16). The registers of a step record are those *before* the instruction at rip executes.
#define _GNU_SOURCE
#include <errno.h>
#include <signal.h>
#include <stdint.h>
#include <stdio.h>
#include <stdlib.h>
#include <string.h>
#include <sys/personality.h>
#include <sys/ptrace.h>
#include <sys/user.h>
#include <sys/wait.h>
#include <unistd.h>

#define MAXBP 2048
static uint64_t bp_addr[MAXBP];
static long bp_orig[MAXBP];
static char bp_mode[MAXBP];
static int nbp;
static pid_t mainpid;
static FILE *out;

static void poke_bp(pid_t p, int i, int on) {
  errno = 0;
  long w = ptrace(PTRACE_PEEKTEXT, p, (void *)bp_addr[i], 0);
  if (errno) { perror("vtrace: peek"); exit(2); }
  if (on) { bp_orig[i] = w; w = (w & ~0xffL) | 0xcc; }
  else { w = (w & ~0xffL) | (bp_orig[i] & 0xff); }
  if (ptrace(PTRACE_POKETEXT, p, (void *)bp_addr[i], (void *)w) < 0) { perror("vtrace: poke"); exit(2); }
}

static void emit(uint64_t tag, struct user_regs_struct *r) {
  uint64_t x[19] = {tag, r->rip, r->rsp, r->rax, r->rbx, r->rcx, r->rdx, r->rsi, r->rdi, r->rbp,
                    r->r8, r->r9, r->r10, r->r11, r->r12, r->r13, r->r14, r->r15, r->eflags};
  fwrite(x, sizeof x, 1, out);
}

// Asynchronous signals that arrive while we single-step are postponed: delivering one in the
// middle of a step would land the step inside the signal handler, and the handler's return would
// re-execute (and re-hit) the instruction under the breakpoint. They are re-raised with tgkill once
// the traced region is left. Synchronous faults cannot be postponed (the instruction would fault
// again); they are delivered at once and the invocation is abandoned.
#include <sys/syscall.h>
static int postponed[64];
static int npostponed;
static long nsignals_postponed;

static int is_sync_fault(int sig) { return sig == SIGSEGV || sig == SIGBUS || sig == SIGILL || sig == SIGFPE; }

// single-step thread t once; returns 0 on a completed step, or the synchronous signal number
static int step_once(pid_t t) {
  for (;;) {
    if (ptrace(PTRACE_SINGLESTEP, t, 0, 0) < 0) { perror("vtrace: step"); exit(2); }
    int st;
    pid_t w = waitpid(t, &st, __WALL);
    if (w < 0 || !WIFSTOPPED(st)) { fprintf(stderr, "vtrace: thread vanished while stepping\n"); exit(2); }
    int s2 = WSTOPSIG(st);
    if (s2 == SIGTRAP) return 0;
    if (is_sync_fault(s2)) return s2;
    if (npostponed < 64) postponed[npostponed++] = s2;
    nsignals_postponed++;
  }
}

static void release_postponed(pid_t t) {
  for (int i = 0; i < npostponed; i++) syscall(SYS_tgkill, mainpid, t, postponed[i]);
  npostponed = 0;
}


// ---- library stepping (modes G / L)
#define MAXRANGE 65536
static uint64_t rg_lo[MAXRANGE], rg_hi[MAXRANGE];
static char rg_kind[MAXRANGE];
static int nrg;
static int range_of(uint64_t pc) {
  int lo = 0, hi = nrg - 1;
  while (lo <= hi) {
    int mid = (lo + hi) / 2;
    if (pc < rg_lo[mid]) hi = mid - 1;
    else if (pc >= rg_hi[mid]) lo = mid + 1;
    else return mid;
  }
  return -1;
}
#define MAXTMP 64
static uint64_t tmp_addr[MAXTMP];
static long tmp_orig[MAXTMP];
static char tmp_kind[MAXTMP]; // 'R' resume stepping, 'E' end of the gate
static int ntmp;
static int armed;
static pid_t armed_tid;
static uint64_t frames[256];
static int nframes;
static long lib_steps, lib_lost;

static int find_perm(uint64_t a) { for (int i = 0; i < nbp; i++) if (bp_addr[i] == a) return i; return -1; }
static int find_tmp(uint64_t a) { for (int i = 0; i < ntmp; i++) if (tmp_addr[i] == a) return i; return -1; }
static uint64_t peek(pid_t t, uint64_t a) { errno = 0; return (uint64_t)ptrace(PTRACE_PEEKDATA, t, (void *)a, 0); }
static void set_tmp(pid_t t, uint64_t a, char kind) {
  if (find_tmp(a) >= 0 || ntmp >= MAXTMP) return;
  if (find_perm(a) >= 0) return; // a permanent breakpoint already stops there
  errno = 0;
  long w = ptrace(PTRACE_PEEKTEXT, t, (void *)a, 0);
  if (errno) return;
  tmp_addr[ntmp] = a; tmp_orig[ntmp] = w; tmp_kind[ntmp] = kind; ntmp++;
  ptrace(PTRACE_POKETEXT, t, (void *)a, (void *)((w & ~0xffL) | 0xcc));
}
static void clear_tmp(pid_t t, int i) {
  errno = 0;
  long w = ptrace(PTRACE_PEEKTEXT, t, (void *)tmp_addr[i], 0);
  if (!errno) ptrace(PTRACE_POKETEXT, t, (void *)tmp_addr[i], (void *)((w & ~0xffL) | (tmp_orig[i] & 0xff)));
  tmp_addr[i] = tmp_addr[ntmp - 1]; tmp_orig[i] = tmp_orig[ntmp - 1]; tmp_kind[i] = tmp_kind[ntmp - 1]; ntmp--;
}
// execute exactly the instruction at rip (lifting a planted breakpoint byte for the duration)
static int step_insn(pid_t t, uint64_t rip) {
  int pi = find_perm(rip), ti = find_tmp(rip);
  if (pi >= 0) poke_bp(t, pi, 0);
  long w = 0;
  if (ti >= 0) { w = ptrace(PTRACE_PEEKTEXT, t, (void *)rip, 0); ptrace(PTRACE_POKETEXT, t, (void *)rip, (void *)((w & ~0xffL) | (tmp_orig[ti] & 0xff))); }
  int f = step_once(t);
  if (ti >= 0) { w = ptrace(PTRACE_PEEKTEXT, t, (void *)rip, 0); ptrace(PTRACE_POKETEXT, t, (void *)rip, (void *)((w & ~0xffL) | 0xcc)); }
  if (pi >= 0) poke_bp(t, pi, 1);
  return f;
}
// thread t stands at an instruction inside the ranges that has not been executed yet: step and log until it leaves
// them; returns the signal to deliver with PTRACE_CONT (0 normally)
static int lib_step(pid_t t, int tagidx, long *steps, long maxsteps) {
  struct user_regs_struct r;
  for (;;) {
    ptrace(PTRACE_GETREGS, t, 0, &r);
    // returned to the caller that entered the ranges from outside (checked first: that caller may itself lie in a
    // range of kind 's', which is stepped only when reached from stepped code)
    if (nframes > 0 && r.rip == frames[nframes - 1]) { nframes--; return 0; }
    int ri = range_of(r.rip);
    if (ri >= 0) {
      emit(0 | ((uint64_t)tagidx << 8), &r);
      (*steps)++; lib_steps++;
      if (rg_kind[ri] == 'a' && r.rip == rg_lo[ri]) {
        // entry of an assembly routine: logged, then it runs at full speed; stepping resumes at its return address
        uint64_t ret = peek(t, r.rsp);
        int rr = range_of(ret);
        if (rr >= 0 && (rg_kind[rr] == 'g' || rg_kind[rr] == 's')) set_tmp(t, ret, 'R');
        else if (nframes > 0 && frames[nframes - 1] == ret) nframes--;
        int f = step_insn(t, r.rip);
        return f;
      }
      if (*steps > maxsteps) return -1;
      int f = step_insn(t, r.rip);
      if (f) { ptrace(PTRACE_GETREGS, t, 0, &r); emit(4 | ((uint64_t)tagidx << 8) | ((uint64_t)f << 16), &r); return f; }
      continue;
    }
    // left the ranges
    if (nframes > 0 && r.rip == frames[nframes - 1]) { nframes--; return 0; } // returned to the outside caller
    uint64_t ret = peek(t, r.rsp);
    int rr = range_of(ret);
    if (rr >= 0 && (rg_kind[rr] == 'g' || rg_kind[rr] == 's')) set_tmp(t, ret, 'R'); // a call out of the ranges: resume at its return
    else lib_lost++;
    return 0;
  }
}

int main(int argc, char **argv) {
  int ai = 1;
  const char *outp = NULL;
  long maxsteps = 200000000;
  while (ai < argc && argv[ai][0] == '-') {
    if (!strcmp(argv[ai], "-o")) outp = argv[++ai];
    else if (!strcmp(argv[ai], "-n")) maxsteps = atol(argv[++ai]);
    else if (!strcmp(argv[ai], "-r")) {
      FILE *rf = fopen(argv[++ai], "r");
      if (!rf) { perror("vtrace: ranges"); return 2; }
      unsigned long long lo, hi; char k;
      while (nrg < MAXRANGE && fscanf(rf, "%llx %llx %c", &lo, &hi, &k) == 3) { rg_lo[nrg] = lo; rg_hi[nrg] = hi; rg_kind[nrg] = k; nrg++; }
      fclose(rf);
    }
    else if (!strcmp(argv[ai], "-b")) {
      char *s = strdup(argv[++ai]);
      for (char *t = strtok(s, ","); t; t = strtok(NULL, ",")) {
        char *c = strchr(t, ':');
        bp_mode[nbp] = c ? c[1] : 's';
        if (c) *c = 0;
        bp_addr[nbp++] = strtoull(t, 0, 16);
        if (nbp >= MAXBP) { fprintf(stderr, "vtrace: too many breakpoints\n"); return 2; }
      }
    } else if (!strcmp(argv[ai], "--")) { ai++; break; }
    ai++;
  }
  if (!outp || ai >= argc) { fprintf(stderr, "usage: vtrace -o out -b addr:mode,... -- prog args\n"); return 2; }
  out = fopen(outp, "wb");
  if (!out) { perror("vtrace: out"); return 2; }
  setvbuf(out, NULL, _IOFBF, 1 << 22);
  pid_t c = fork();
  if (c == 0) {
    personality(ADDR_NO_RANDOMIZE);
    ptrace(PTRACE_TRACEME, 0, 0, 0);
    execv(argv[ai], argv + ai);
    perror("vtrace: execv");
    _exit(127);
  }
  mainpid = c;
  int st;
  waitpid(c, &st, 0); // exec stop
  ptrace(PTRACE_SETOPTIONS, c, 0, PTRACE_O_TRACECLONE | PTRACE_O_EXITKILL);
  for (int i = 0; i < nbp; i++) poke_bp(c, i, 1);
  ptrace(PTRACE_CONT, c, 0, 0);
  long steps = 0, invocations = 0, markers = 0;
  for (;;) {
    pid_t t = waitpid(-1, &st, __WALL);
    if (t < 0) { if (errno == ECHILD) break; perror("vtrace: waitpid"); break; }
    if (WIFEXITED(st) || WIFSIGNALED(st)) {
      if (t == mainpid) {
        int code = WIFEXITED(st) ? WEXITSTATUS(st) : 128 + WTERMSIG(st);
        fprintf(stderr, "vtrace: child exit status %d steps %ld invocations %ld markers %ld postponed-signals %ld lib-steps %ld lib-lost %ld\n", code, steps, invocations, markers, nsignals_postponed, lib_steps, lib_lost);
        fclose(out);
        return code;
      }
      continue;
    }
    if (!WIFSTOPPED(st)) continue;
    int sig = WSTOPSIG(st);
    if (sig == SIGTRAP && (st >> 16) == PTRACE_EVENT_CLONE) { ptrace(PTRACE_CONT, t, 0, 0); continue; }
    if (sig == SIGSTOP) { ptrace(PTRACE_CONT, t, 0, 0); continue; } // new thread's initial stop
    if (sig == SIGTRAP) {
      struct user_regs_struct r;
      ptrace(PTRACE_GETREGS, t, 0, &r);
      int hit = -1;
      for (int i = 0; i < nbp; i++) if (r.rip - 1 == bp_addr[i]) hit = i;
      int th = hit < 0 ? find_tmp(r.rip - 1) : -1;
      if (th >= 0) {
        // temporary breakpoint of the library stepping
        r.rip -= 1;
        ptrace(PTRACE_SETREGS, t, 0, &r);
        if (!armed || t != armed_tid) { int f = step_insn(t, r.rip); ptrace(PTRACE_CONT, t, 0, (void *)(long)f); continue; }
        char kind = tmp_kind[th];
        clear_tmp(t, th);
        if (kind == 'E') {
          armed = 0; nframes = 0;
          while (ntmp > 0) clear_tmp(t, 0);
          release_postponed(t);
          ptrace(PTRACE_CONT, t, 0, 0);
          continue;
        }
        int f = lib_step(t, 0, &steps, maxsteps);
        if (f < 0) { fprintf(stderr, "vtrace: step limit\n"); kill(mainpid, SIGKILL); fclose(out); return 3; }
        release_postponed(t);
        ptrace(PTRACE_CONT, t, 0, (void *)(long)f);
        continue;
      }
      if (hit < 0) { ptrace(PTRACE_CONT, t, 0, 0); continue; }
      if (bp_mode[hit] == 'G' || bp_mode[hit] == 'L') {
        r.rip -= 1;
        ptrace(PTRACE_SETREGS, t, 0, &r);
        if (bp_mode[hit] == 'G') {
          armed = 1; armed_tid = t; nframes = 0;
          set_tmp(t, peek(t, r.rsp), 'E');
          invocations++;
          int f = step_insn(t, r.rip);
          ptrace(PTRACE_CONT, t, 0, (void *)(long)f);
          continue;
        }
        if (!armed || t != armed_tid) { int f = step_insn(t, r.rip); ptrace(PTRACE_CONT, t, 0, (void *)(long)f); continue; }
        if (nframes < 256) frames[nframes++] = peek(t, r.rsp);
        int f = lib_step(t, hit, &steps, maxsteps);
        if (f < 0) { fprintf(stderr, "vtrace: step limit\n"); kill(mainpid, SIGKILL); fclose(out); return 3; }
        release_postponed(t);
        ptrace(PTRACE_CONT, t, 0, (void *)(long)f);
        continue;
      }
      poke_bp(t, hit, 0);
      r.rip -= 1;
      ptrace(PTRACE_SETREGS, t, 0, &r);
      if (bp_mode[hit] == 'm') {
        markers++;
        emit(3 | ((uint64_t)hit << 8), &r);
        int f = step_once(t); // step over the restored instruction
        poke_bp(t, hit, 1);
        release_postponed(t);
        ptrace(PTRACE_CONT, t, 0, (void *)(long)f);
        continue;
      }
      invocations++;
      errno = 0;
      uint64_t retaddr = (uint64_t)ptrace(PTRACE_PEEKDATA, t, (void *)r.rsp, 0);
      emit(1 | ((uint64_t)hit << 8), &r);
      int fault = 0;
      for (;;) {
        fault = step_once(t);
        ptrace(PTRACE_GETREGS, t, 0, &r);
        if (fault) { emit(4 | ((uint64_t)hit << 8) | ((uint64_t)fault << 16), &r); break; } // tag 4: synchronous fault inside the routine
        steps++;
        if (r.rip == retaddr) { emit(2 | ((uint64_t)hit << 8), &r); break; }
        emit(0 | ((uint64_t)hit << 8), &r);
        if (steps > maxsteps) { fprintf(stderr, "vtrace: step limit\n"); kill(mainpid, SIGKILL); fclose(out); return 3; }
      }
      poke_bp(t, hit, 1);
      release_postponed(t);
      ptrace(PTRACE_CONT, t, 0, (void *)(long)fault);
      continue;
    }
    ptrace(PTRACE_CONT, t, 0, (void *)(long)sig); // pass other signals through
  }
  fclose(out);
  return 0;
}
