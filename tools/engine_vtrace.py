"""Engine: single-step tracing (tools/vtrace, ptrace) of the real assembly routines of package sm4,
checked offline by tools/vtcheck (trace equality, trace taint, access audit, coverage).

unit keys: prop ("C09" | "C11"), shards (int)
"""
import json, os, re, subprocess, time, concurrent.futures
import buildtags

REPO = os.environ.get("VERIF_REPO", "/repo")
ROUTINES = r"sm4\.(sealAsm|openAsm|expandKeyAsm|cryptoBlockAsm(X[0-9]+)?|gHashBlocks|copyAsm|needExpand)\.abi0$"


def go_env():
    env = dict(os.environ)
    env.update({"GOFLAGS": "-mod=mod", "GOPROXY": "off", "GOSUMDB": "off", "GOTOOLCHAIN": "local"})
    return env


def ensure_tools(verif, workdir):
    vt = os.path.join(verif, "bin", "vtrace")
    os.makedirs(os.path.dirname(vt), exist_ok=True)
    src = os.path.join(verif, "tools", "vtrace.c")
    if not os.path.exists(vt) or os.path.getmtime(vt) < os.path.getmtime(src):
        subprocess.check_call(["gcc", "-O2", "-o", vt, src])
    vc = os.path.join(workdir, "vtcheck")
    subprocess.check_call(["go", "build", "-o", vc, "."], cwd=os.path.join(verif, "tools", "vtcheck"), env=go_env())
    return vt, vc


def run(out, unit, tier, seed, workdir, overlay):
    verif = os.path.dirname(os.path.dirname(os.path.abspath(__file__)))
    prop = unit.get("prop", "C09")
    t0 = time.time()
    try:
        vt, vc = ensure_tools(verif, workdir)
    except Exception as e:
        out.inconclusive.append("vtrace: cannot build tools: %s" % e)
        return
    binp = os.path.join(workdir, "vt_sm4.test")
    p = buildtags.build_sm4(binp, overlay, REPO, go_env(), out, "engine_vtrace")
    if p.returncode != 0 or not os.path.exists(binp):
        out.inconclusive.append("vtrace: build failed: " + (p.stdout + p.stderr)[-800:])
        return
    nm = subprocess.run(["go", "tool", "nm", "-n", "-size", binp], env=go_env(), capture_output=True, text=True).stdout
    bps, lo, hi = [], None, 0
    mark = None
    found = set()
    for line in nm.splitlines():
        f = line.split()
        if len(f) < 4:
            continue
        addr, size, name = int(f[0], 16), int(f[1]), f[3]
        if re.search(ROUTINES, name):
            found.add(re.search(ROUTINES, name).group(1))
            bps.append("%x:s" % addr)
            lo = addr if lo is None else min(lo, addr)
            hi = max(hi, addr + size)
        elif name.endswith("/sm4.vtMark"):
            mark = addr
    # the routines every tree must have; helpers (copyAsm, needExpand, gHashBlocks ...) may be merged away or replaced by Go
    # code by a refactoring - what is not there is not traced, and the evidence says so
    essential = {"sealAsm", "openAsm", "expandKeyAsm", "cryptoBlockAsm"}
    if mark is None or not essential <= found:
        out.inconclusive.append("vtrace: symbols not found in the test binary (routines=%s, marker=%s)" % (sorted(found), mark))
        return
    out.notes["vtrace_routines_in_binary"] = sorted(found)
    bps.append("%x:m" % mark)
    dis = os.path.join(workdir, "vt_sm4.dis")
    with open(dis, "w") as f:
        subprocess.check_call(["objdump", "-d", "--no-show-raw-insn", "--start-address=%#x" % lo, "--stop-address=%#x" % hi, binp], stdout=f)
    if "(bad)" in open(dis).read():
        out.inconclusive.append("vtrace: objdump could not decode some instructions")
        return
    ro = []
    for line in subprocess.run(["readelf", "-lW", binp], capture_output=True, text=True).stdout.splitlines():
        f = line.split()
        if len(f) >= 7 and f[0] == "LOAD":
            flags = "".join(f[6:-1])
            if "W" not in flags:
                va, sz = int(f[2], 16), int(f[5], 16)
                ro.append("%x-%x" % (va, va + sz))
    shards = unit.get("shards", 16)

    def shard(i):
        plan = os.path.join(workdir, "vt_plan_%d.jsonl" % i)
        trace = os.path.join(workdir, "vt_trace_%d.bin" % i)
        rep = os.path.join(workdir, "vt_report_%d.jsonl" % i)
        cov = os.path.join(workdir, "vt_cov_%d.json" % i)
        log = os.path.join(workdir, "vt_run_%d.log" % i)
        for q in (plan, trace, rep, cov):
            if os.path.exists(q):
                os.remove(q)
        env = dict(os.environ, VERIF_SHARD="%d/%d" % (i, shards), VERIF_VT_PLAN=plan, GODEBUG="asyncpreemptoff=1", GOMAXPROCS="1",
                   VERIF_TIER=tier, VERIF_SEED=str(seed), VERIF_FIXTURES=os.path.join(verif, "fixtures"))
        if unit.get("routines"):
            env["VERIF_VT_ROUTINES"] = unit["routines"]
        with open(log, "w") as lf:
            rc = subprocess.call(["timeout", "-s", "KILL", str(unit.get("watchdog", 3000)), vt, "-o", trace, "-b", ",".join(bps), "--", binp, "-test.run", "^TestVtraceWorkload$", "-test.timeout", "60m"],
                                 cwd=workdir, env=env, stdout=lf, stderr=subprocess.STDOUT)
        if rc != 0:
            return i, rc, None, None, log
        rc2 = subprocess.call([vc, "-trace", trace, "-plan", plan, "-dis", dis, "-prop", prop, "-ro", ",".join(ro), "-out", rep, "-cov", cov, "-check", "vtrace-shard%d" % i])
        try:
            os.remove(trace)
        except OSError:
            pass
        return i, rc2, rep, cov, log

    covall = {}
    with concurrent.futures.ThreadPoolExecutor(max_workers=min(16, shards)) as ex:
        for i, rc, rep, cov, log in ex.map(shard, range(shards)):
            out.units.append({"unit": "vtrace-shard%d" % i, "rc": rc})
            if rc != 0 or rep is None or not os.path.exists(rep):
                out.inconclusive.append("vtrace: shard %d failed (rc=%s), see %s" % (i, rc, log))
                continue
            for line in open(rep):
                r = json.loads(line)
                r["check"] = "vtrace"
                notes = r.pop("notes", {})
                out.merge_report(r)
                for k in ("mnemonics_with_memory_operands", "unmodelled_instructions", "disassembly_parse_errors"):
                    if k in notes:
                        cur = out.notes.get(k)
                        if isinstance(notes[k], list):
                            out.notes[k] = sorted(set((cur or []) + notes[k]))
                        else:
                            out.notes[k] = notes[k]
            if cov and os.path.exists(cov):
                for routine, c in json.load(open(cov)).items():
                    e = covall.setdefault(routine, {"all": set(), "hit": set()})
                    e["all"].update(c["all"] or [])
                    e["hit"].update(c["hit"] or [])
    cov_note = {}
    tot = hit = 0
    for routine, e in sorted(covall.items()):
        missing = sorted(e["all"] - e["hit"])
        cov_note[routine] = {"static_instructions": len(e["all"]), "executed": len(e["hit"]), "not_executed_offsets": ["+%#x" % m for m in missing[:40]], "not_executed": len(missing)}
        tot += len(e["all"])
        hit += len(e["hit"])
    out.notes["static_instruction_coverage"] = cov_note
    if prop == "C09" and not unit.get("routines"):
        for need in ("sealAsm", "openAsm"):
            if not any(need in r and c["executed"] > 0 for r, c in cov_note.items()):
                out.inconclusive.append("vtrace: %s was not traced (its Go declaration is not the one the workload calls directly, or the workload did not reach it)" % need)
    out.counters["static_pcs_total_all_routines"] = tot
    out.counters["static_pcs_executed_all_routines"] = hit
    out.counters.pop("static_pcs_covered", None)
    out.counters.pop("static_pcs_total", None)
