"""Engine (C18): read the static DATA blocks of the amd64 assembly from the running test binary.
Builds the sm4 test binary unstripped (go test -c), takes the addresses of the assembly's static data
symbols from its symbol table and lets the monitor inside the process read its own memory there."""
import json, os, subprocess
import buildtags

REPO = os.environ.get("VERIF_REPO", "/repo")
NAMES = {"Shuffle", "Shuffle1", "Shuffle2", "AND_MASK", "LOWER_MASK", "GCM_POLY", "FK", "CK", "Counter_Add1", "Counter_Add2", "Counter_Add3"}


def run(out, unit, tier, seed, workdir, overlay):
    env = dict(os.environ, GOFLAGS="-mod=mod", GOPROXY="off", GOSUMDB="off", GOTOOLCHAIN="local")
    binp = os.path.join(workdir, "asmdata_sm4.test")
    p = buildtags.build_sm4(binp, overlay, REPO, env, out, "engine_asmdata")
    if p.returncode != 0:
        out.inconclusive.append("asmdata: build failed: " + (p.stdout + p.stderr)[-600:])
        return
    nm = subprocess.run(["go", "tool", "nm", "-size", "-n", binp], env=env, capture_output=True, text=True).stdout
    ents = []
    for line in nm.splitlines():
        f = line.split()
        if len(f) == 4 and f[3] in NAMES and f[2] in ("r", "R", "d", "D"):
            ents.append("%s@%s:%s" % (f[3], f[0], f[1]))
    res = os.path.join(workdir, "asmdata.result.jsonl")
    if os.path.exists(res):
        os.remove(res)
    env2 = dict(env, VERIF_ASMDATA=";".join(ents), VERIF_OUT=res, VERIF_TIER=tier, VERIF_SEED=str(seed), VERIF_FIXTURES=os.path.join(os.path.dirname(os.path.dirname(os.path.abspath(__file__))), "fixtures"))
    log = os.path.join(workdir, "asmdata.log")
    with open(log, "w") as lf:
        rc = subprocess.call(["timeout", "-s", "QUIT", "600", binp, "-test.run", "^TestVerifC18AsmData$"], cwd=workdir, env=env2, stdout=lf, stderr=subprocess.STDOUT)
    out.units.append({"unit": "asmdata", "rc": rc})
    if os.path.exists(res):
        for line in open(res):
            out.merge_report(json.loads(line))
    elif rc != 0:
        out.inconclusive.append("asmdata: monitor process failed rc=%s, see %s" % (rc, log))
    else:
        out.inconclusive.append("asmdata: monitor wrote no report")
