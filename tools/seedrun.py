#!/usr/bin/env python3
"""Run registered checks against a seeded change: apply /verif/seeded/<id>/patch.diff (or a given
patch) to /repo, run the quick commands of the listed properties with evidence redirected to a
scratch directory, and ALWAYS restore /repo afterwards (git checkout + removal of added files).

usage: seedrun.py <patch.diff> <prop> [<prop> ...] [--tier quick|thorough]
"""
import os, subprocess, sys, tempfile, shutil, time
VERIF = os.path.dirname(os.path.dirname(os.path.abspath(__file__)))
args = sys.argv[1:]
tier = "quick"
if "--tier" in args:
    i = args.index("--tier"); tier = args[i + 1]; del args[i:i + 2]
patch, props = os.path.abspath(args[0]), args[1:]
if subprocess.run(["git", "-C", "/repo", "status", "--porcelain"], capture_output=True, text=True).stdout.strip():
    sys.exit("refusing: /repo working tree is not clean")
outdir = tempfile.mkdtemp(prefix="seedrun-", dir="/tmp")
res = {}
try:
    subprocess.check_call(["git", "-C", "/repo", "apply", patch])
    for p in props:
        env = dict(os.environ, VERIF_OUTDIR=outdir, VERIF_TIER=tier)
        t0 = time.time()
        r = subprocess.run([sys.executable, os.path.join(VERIF, "tools", "vcheck.py"), p, "--tier", tier], env=env, capture_output=True, text=True, cwd=VERIF)
        lines = [l for l in r.stdout.splitlines() if l.startswith(("VIOLATION", "INCONCLUSIVE", "OK", "KNOWN"))]
        res[p] = (r.returncode, lines, time.time() - t0)
finally:
    subprocess.call(["git", "-C", "/repo", "checkout", "--", "."])
    subprocess.call(["git", "-C", "/repo", "clean", "-fdq"])
for p, (rc, lines, dt) in res.items():
    verdict = {0: "MISSED (exit 0)", 1: "CAUGHT", 2: "INCONCLUSIVE"}.get(rc, "rc=%d" % rc)
    print("%s: %s in %.0fs" % (p, verdict, dt))
    for l in lines[:6]:
        print("    " + l.replace(outdir, "<out>")[:220])
    if len(lines) > 6:
        print("    ... %d more lines" % (len(lines) - 6))
shutil.rmtree(outdir, ignore_errors=True)
st = subprocess.run(["git", "-C", "/repo", "status", "--porcelain"], capture_output=True, text=True).stdout.strip()
print("repo restored:", "clean" if not st else "DIRTY: " + st)
