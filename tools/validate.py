#!/usr/bin/env python3
"""Validate MANIFEST.json and evidence/*.json against the schemas (run with python3-vt, which has jsonschema)."""
import json, glob, sys, os
import jsonschema
V = os.path.dirname(os.path.dirname(os.path.abspath(__file__)))
ok = True
m = json.load(open(os.path.join(V, "MANIFEST.json")))
jsonschema.validate(m, json.load(open("/root/.vp/MANIFEST.schema.json")))
print("MANIFEST ok:", len(m["checks"]), "checks")
es = json.load(open("/root/.vp/EVIDENCE.schema.json"))
for f in sorted(glob.glob(os.path.join(V, "evidence", "*.json"))):
    try:
        jsonschema.validate(json.load(open(f)), es)
        print("ok", os.path.basename(f))
    except Exception as e:
        ok = False
        print("INVALID", f, str(e)[:300])
ids = {json.loads(l)["id"] for l in open(os.path.join(V, "properties.jsonl"))}
claimed = {c["property_id"] for c in m["checks"]}
na = {c["property_id"] for c in m.get("not_applicable", [])}
if claimed | na != ids or claimed & na:
    ok = False
    print("property coverage mismatch", ids - claimed - na, claimed & na)
sys.exit(0 if ok else 1)
