#!/usr/bin/env python3
"""Generate /verif/MANIFEST.json from tools/checks.py (single source of truth)."""
import json, os, sys
sys.path.insert(0, os.path.dirname(os.path.abspath(__file__)))
import checks

VERIF = os.path.dirname(os.path.dirname(os.path.abspath(__file__)))
props = [json.loads(l) for l in open(os.path.join(VERIF, "properties.jsonl"))]
ids = [p["id"] for p in props]

man = {
    "version": 1,
    "setup_cmd": "sh tools/setup.sh",
    "hooks": {
        "guard": "verif",
        "enable": "go test -tags verif -overlay <generated json>: every monitor is an extra file (//go:build verif) mapped into the package directories of /repo at build time; the overlay only adds files, /repo's working tree is compiled as it is. One hook lives in /repo: sm2/verif_on.go (tag verif) + sm2/verif_off.go (no-op) + one call in SignHashed, which tells the C08 taint monitor where x1 of [k]G becomes public; the memcheck build additionally uses -tags valgrind (go1.26.8 runtime annotations + client-request stub injected by the overlay).",
        "baseline_off_cmd": "cd /repo && GOFLAGS=-mod=mod go test -json -vet=off -count=1 -timeout 25m ./...",
        "source_commits": checks.HOOK_COMMITS,
        "add_only": True,
    },
    "engines": checks.ENGINES,
    "checks": [],
    "notes": checks.NOTES,
    "not_applicable": [],
}
for pid in ids:
    cfg = checks.CHECKS.get(pid)
    if cfg is None or cfg.get("disabled"):
        man["not_applicable"].append({"property_id": pid, "reason": checks.NOT_CLAIMED.get(pid, "not claimed")})
        continue
    man["checks"].append({
        "property_id": pid,
        "quick_cmd": "python3 tools/vcheck.py %s --tier quick" % pid,
        "thorough_cmd": "python3 tools/vcheck.py %s --tier thorough" % pid,
        "evidence_file": "/verif/evidence/%s.json" % pid,
        "replay_cmd_template": "python3 tools/replay.py {path}",
        "engine": cfg.get("engine_name", "in-package reference-model monitor"),
        "level_claimed": {"category": cfg["level"], "text": cfg.get("level_text", cfg["rule"]), "design_ref": "DESIGN.md §3 " + pid},
        "level_note": "; ".join(cfg.get("assumptions", [])),
        "technique": cfg.get("technique", "runtime monitoring: differential reference-model monitor over generated executions"),
    })
with open(os.path.join(VERIF, "MANIFEST.json"), "w") as f:
    json.dump(man, f, indent=1)
    f.write("\n")
try:
    import jsonschema
    jsonschema.validate(man, json.load(open("/root/.vp/MANIFEST.schema.json")))
    print("MANIFEST.json valid:", len(man["checks"]), "checks,", len(man["not_applicable"]), "not applicable")
except ImportError:
    print("jsonschema not available; wrote MANIFEST.json unchecked")
