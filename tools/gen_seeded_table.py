#!/usr/bin/env python3
"""Regenerate DESIGN.md section 8 (seeded changes) from seeded/*/meta.json and seeded/FIRST_MISSES.json."""
import json, glob, os, re
V = os.path.dirname(os.path.dirname(os.path.abspath(__file__)))
miss = json.load(open(os.path.join(V, "seeded", "FIRST_MISSES.json")))
rows = []
stats = {}
for d in sorted(glob.glob(os.path.join(V, "seeded", "C*"))):
    m = json.load(open(os.path.join(d, "meta.json")))
    sid = os.path.basename(d)
    notes = open(os.path.join(d, "NOTES.md")).read() if os.path.exists(os.path.join(d, "NOTES.md")) else ""
    mm = re.search(r"\*{0,2}Change\*{0,2}[^\n]*", notes)
    what = re.sub(r"\s+", " ", (mm.group(0) if mm else m.get("needs_to_manifest", "")))[:230].replace("|", "/")
    caught = [p for p, v in m["checks_run"].items() if v == "caught"] + [p + " (thorough tier only)" for p, v in m["checks_run"].items() if v.startswith("caught (thorough")]
    prim = m["checks_run"].get(m["breaks_property"], "missed")
    kind = "primary-quick" if prim == "caught" else ("primary-thorough" if prim.startswith("caught") else ("other-check" if caught else "none"))
    stats[kind] = stats.get(kind, 0) + 1
    rows.append((sid, m["breaks_property"], what, ", ".join(caught) if caught else "**none**", miss.get(sid, "")))
nmiss = sum(1 for r in rows if r[4])
out = ["## 8. Seeded changes (independent sub-agents, property text only) and which checks catch them", "",
       "Rounds of sub-agents were each given *only* the text of one property and a scratch worktree (nothing from `/verif`) and asked for a change that breaks the property, compiles, passes the 66 tests and needs something specific to manifest (later rounds were also told which ideas had been used already, so that they differ). Each change was confirmed independently (`tools/seedverify.py`: existing suite passes with the patch, demonstration fails with it and passes without it) and is kept under `seeded/<id>/` (`patch.diff`, demonstration, `NOTES.md`, `meta.json`). `tools/seedrun.py <patch> <props…>` applies a patch to `/repo`, runs the quick checks with evidence redirected, and always restores `/repo`.", "",
       "Of the %d stored changes, %d are caught by the quick check of the property they were written against, %d only by its thorough tier (the trigger needs gigabytes of data), %d by the quick check of another property (the one that owns the broken layer, e.g. C16 for a field-arithmetic carry reached through a C14 entry point), and %d by none (see the last column). %d were **missed at first**; each miss led to a strengthening of the monitor (never to a loosening), listed in the last column. `meta.json` records the result of the final run." % (len(rows), stats.get("primary-quick", 0), stats.get("primary-thorough", 0), stats.get("other-check", 0), stats.get("none", 0), nmiss), "",
       "| seed | property | change (from the author's notes) | caught by | missed at first → what was added |", "|---|---|---|---|---|"]
for r in rows:
    out.append("| %s | %s | %s | %s | %s |" % r)
out += ["", "Hand-made mutants from §6 used while building the heavy engines (not stored): early-exit tag compare and a branch on a loaded round key in `gcm_amd64.s` (C09: taint + trace equality fire), early exit in `ConstantTimeCmp`, `MultiSelect` by direct index, scalar `Invert` through `big.Int.ModInverse`, skipping the addition for a zero window in the comb multiplication (C08: all fire), and the pre-fix state of each of D1–D18 (the checks that found them).", ""]
p = os.path.join(V, "DESIGN.md")
s = open(p).read()
i = s.find("## 8. Seeded changes")
if i >= 0:
    s = s[:i]
s = s.rstrip() + "\n\n" + "\n".join(out)
open(p, "w").write(s)
print("section 8:", len(rows), "seeds,", nmiss, "first misses")
