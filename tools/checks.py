"""Per-property configuration for vcheck.py: which monitor processes to run,
what the evidence says about how cases are generated, and the level claimed."""

ARM64_NOTE = "arm64-only files are never executed in this amd64 sandbox; the claim covers amd64 assembly and portable Go"


def gt(name, pkg, run, **kw):
    u = {"name": name, "pkg": pkg, "run": "^" + run + "$"}
    u.update(kw)
    return u


CHECKS = {
    "C04": {
        "level": "exploration",
        "rule": "history monitor over Write/Sum/Reset sequences vs an independent one-shot SM3 model: every (length 0..L, split point) pair exhaustively, random 1..12-op histories with boundary-residue chunking, io.Copy plumbing; a class is (final length mod 64, split offset mod 64 | op shape); trivial classes: none",
        "assumptions": ["reference SM3 validated against GB/T 32905 examples and 409 OpenSSL digests at start of every run"],
        "units": [gt("sm3", "./sm3/", "TestVerifC04")],
    },
    "C01": {
        "level": "exploration",
        "rule": "round-trip monitor: each case = (entry point, key encoding, digest | id,msg, nonce stream, reader chunking); digests are SOLVED so that r, s and t=(r+s) mod n take every leading-zero-byte count 1..31 and tiny values, plus random cases through Sign/SignZa/SignHashed; a class is (entry, key length, leading-zero bytes of r, s, t); trivial: short key encodings the signer refuses",
        "assumptions": ["reference SM2 (math/big affine) validated against GM/T 0003.5 vectors and 300 OpenSSL signatures at start of every run"],
        "units": [gt("sm2", "./sm2/", "TestVerifC01")],
    },
    "C02": {
        "level": "exploration",
        "rule": "differential monitor vs the GM/T 0003.2 signer model with an event-recording randomness source: random (d,e,stream) plus a rule matrix of streams constructed so that the first candidates hit k-range (0, n, n+1, 2^256-1), r=0, r+k=n, s=0 in sequence; invalid keys must be refused; a class is (rejection sequence, chunking, leading-zero bytes of r and s)",
        "assumptions": ["reference SM2 validated against GM/T 0003.5 vectors and 300 OpenSSL signatures at start of every run"],
        "units": [gt("sm2", "./sm2/", "TestVerifC02")],
    },
    "C03": {
        "level": "exploration",
        "rule": "differential monitor vs the GM/T 0003.2 verifier model on hostile byte strings: valid tuples built without a private key (e solved from chosen s,t), solved near-misses breaking exactly one side condition (r=0, s=0, r+n, s+n, r+s=n, infinity, key x+p), all 1,280 single-bit flips of N tuples, every wrong argument length 0..40, off-curve keys, garbage; wrappers Verify/VerifyZa on derived inputs; a class is (construction label, model verdict)",
        "assumptions": ["reference SM2 validated against GM/T 0003.5 vectors and 300 OpenSSL signatures at start of every run"],
        "units": [gt("sm2", "./sm2/", "TestVerifC03")],
    },
    "C12": {
        "level": "exploration",
        "rule": "differential monitor vs the key model: GenerateKey on streams with every ordered sequence of <=2 (sampled 3) out-of-range candidates {0,n-1,n,n+1,2^256-1} and recorded reads; TestPrivateKey on boundary values +-3, one-byte neighbours of n-1 and random strings; DerivePublic and CheckOnCurve on valid, boundary, non-canonical (x+p) and malformed inputs; a class is (operation, plan or boundary name)",
        "assumptions": ["reference SM2 validated against GM/T 0003.5 vectors and 300 OpenSSL signatures at start of every run"],
        "units": [gt("sm2", "./sm2/", "TestVerifC12")],
    },
    "C13": {
        "level": "exploration",
        "rule": "ZA vs SM3(ENTL||id||a||b||G||P) for EVERY id length 0..8193 plus 10 larger ones; Sign/SignZa/SignHashed and Verify/VerifyZa/VerifyHashed equivalence under one recorded stream for every message length 0..L; 300 OpenSSL-produced signatures must verify; a class is (id length mod 64 | exact near 8192, (ZA||M) length mod 64)",
        "assumptions": ["reference SM2/SM3 validated against standard vectors and OpenSSL fixtures at start of every run"],
        "units": [gt("sm2", "./sm2/", "TestVerifC13")],
    },
    "C19": {
        "level": "fault_enumeration",
        "rule": "scripted faulty io.Reader: every byte position of the first failure (0..32*(rejected+1)+1) x streams starting with 0..3 rejected candidates x {io.EOF, io.ErrUnexpectedEOF, custom error} x {error with / after the last data} x chunking {full,1,7,31} x (0,nil) reads, for GenerateKey, SignHashed, SignZa, Sign; oracle = model run on the bytes available before the failure; a class is (entry, rejected count, failing candidate+offset, error kind, chunking)",
        "assumptions": ["quick tier skips half of the interior (position x kind x chunk) cross-product; thorough enumerates it completely"],
        "units": [gt("sm2", "./sm2/", "TestVerifC19")],
    },
    "C20": {
        "level": "exploration",
        "rule": "ConstantTimeCmp vs bytes.Compare: ALL 65,536 one-byte pairs, all pairs over {00,7f,ff} up to length 5 (6 thorough), single differing byte at every position for lengths 1..64, borrow chains, extremes, l<len; DecomposeNAF for w=1..7 vs the recoding definition (digits zero/odd, |d|<2^w, >=w zeros after a non-zero, weighted sum) on single bits, 2^k-1, 2^256-2^k, byte patterns, runs at every bit offset, n, p and random 256-bit inputs; a class is (helper, construction, length or w)",
        "assumptions": ["oracles are bytes.Compare and math/big from the Go standard library"],
        "units": [gt("utils", "./utils/", "TestVerifC20")],
    },
    "C16": {
        "level": "exploration",
        "rule": "differential monitor vs math/big for both fields: operands from all 4-limb combinations of a carry-critical limb alphabet (0,1,2,2^32+-1,2^63,2^64-1, limbs of m, m-1, 2^256 mod m, m>>1; every 5th combination in quick, all in thorough) plus random; ops add/sub/opp/mul/square/select/bytes/ToBigInt/IsZero/Equal incl. aliased receivers, partners chosen to hit a+b=0 and a+b=m-1; Invert vs ModInverse and x*inv=1, Invert(0)=0; SetBytes rejects [m,2^256) at the edges, at every first-exceeding byte, randomly, and wrong lengths; MultiSelect on widths 1..127; a class is (field, top and low limb pattern | random | decoding class)",
        "assumptions": ["oracle is math/big; the exact inversion exponent (p-2, n-2) is established separately by the op-trace monitor when the tracer engine is available, algebraically here"],
        "units": [gt("fiat", "./sm2/internal/fiat/", "TestVerifC16")],
    },
    "C14": {
        "level": "exploration",
        "rule": "differential monitor vs the integer multiple by the affine math/big model: base comb schemes 6-3-14 (live), 5-3-17, 4-2-32, 7-3-12 with EVERY window value at EVERY window position (all for the live scheme; a quarter of the others in quick, all in thorough), remainder values, two-window combinations, specials (0,1,n-1,n,n+1,2^255,2^256-1), random; ScalarMult with one-hot nibbles at all 64 positions, scalar lengths 0..40, points G,-G,2G..16G,random in random projective scaling; ScalarMixedMult_Unsafe on NAF-critical patterns and P=[j]G chosen so that [g]G+[s]P hits P+P, P+(-P), infinity; a class is (routine, scheme, window position | construction)",
        "assumptions": ["reference SM2 validated against GM/T 0003.5 vectors and OpenSSL fixtures; results are read through raw limbs x 2^-256 mod p, not through the library's own conversion"],
        "units": [gt("internal", "./sm2/internal/", "TestVerifC14")],
    },
    "C15": {
        "level": "exploration",
        "rule": "Add/Double/Negate/Select over all ordered pairs of a pool (inf, +-G, +-2..5G, (n+-1)/2 G, x=0 point, random) x random projective rescaling (lambda in {1,p-1,2,random}) x aliasing (fresh, q=p1, q=p2, p1=p2, q=p1=p2), result compared in affine form with the model and checked on the projective curve equation; Bytes/Bytes_Unsafe/GetAffineX/GetAffineX_Unsafe agreement and decode(encode)=id; hostile decodings (every length 0..70, every prefix byte, compressed, bit flips, x+p, y+p, random) must fail and leave the receiver unchanged; a class is (op, relation of operands, aliasing | encoding class)",
        "assumptions": ["reference SM2 validated at start of every run"],
        "units": [gt("internal", "./sm2/internal/", "TestVerifC15")],
    },
}
