"""Per-property configuration for vcheck.py: which monitor processes to run,
what the evidence says about how cases are generated, and the level claimed."""

ARM64_NOTE = "arm64-only files are never executed in this amd64 sandbox; the claim covers amd64 assembly and portable Go"


def gt(name, pkg, run, **kw):
    u = {"name": name, "pkg": pkg, "run": "^" + run + "$"}
    u.update(kw)
    return u


CHECKS = {
    "C04": {
        "level": "exploration",
        "rule": "history monitor over Write/Sum/Reset sequences vs an independent one-shot SM3 model: every (length 0..L, split point) pair exhaustively, random 1..12-op histories with boundary-residue chunking, io.Copy plumbing; a class is (final length mod 64, split offset mod 64 | op shape); trivial classes: none",
        "assumptions": ["reference SM3 validated against GB/T 32905 examples and 409 OpenSSL digests at start of every run"],
        "units": [gt("sm3", "./sm3/", "TestVerifC04")],
    },
}
