"""Per-property configuration for vcheck.py: which monitor processes to run,
what the evidence says about how cases are generated, and the level claimed."""

ARM64_NOTE = "arm64-only files are never executed in this amd64 sandbox; the claim covers amd64 assembly and portable Go"


def gt(name, pkg, run, **kw):
    u = {"name": name, "pkg": pkg, "run": "^" + run + "$"}
    u.update(kw)
    return u


ENGINES = [
    {"name": "in-package reference-model monitors", "path": "harness/", "serves_properties": ["C01", "C02", "C03", "C04", "C05", "C06", "C07", "C10", "C12", "C13", "C14", "C15", "C16", "C18", "C19", "C20"],
     "kind_free_text": "Go test files injected with go test -overlay (tag verif) that drive the real code on generated/solved/enumerated cases beside independent reference models (harness/ref) and report observed classes, counters and violations"},
    {"name": "guard-page / write-protected-page monitor", "path": "harness/hk/guard.go", "serves_properties": ["C10", "C11", "C17"],
     "kind_free_text": "mmap + mprotect(PROT_NONE / PROT_READ) around every argument, debug.SetPanicOnFault turns an out-of-range access or a write to an input into an observable fault with its address"},
    {"name": "memcheck taint sanitizer", "path": "tools/engine_memcheck.py", "serves_properties": ["C08"],
     "kind_free_text": "Valgrind 3.19 memcheck over go1.26.8 -tags valgrind test binaries; secrets marked undefined through client requests, reports (XML) with client-request origin judged offline against verdict-site rules computed from the current source (tools/goranges)"},
    {"name": "vtrace + vtcheck", "path": "tools/vtrace.c, tools/vtcheck/", "serves_properties": ["C09", "C11", "C16"],
     "kind_free_text": "own ptrace tracer (breakpoint at a symbol, single-step to the return address, log pc + GPRs; log-only breakpoints) and offline monitors over the traces: (pc, effective address) equality, dynamic taint interpreter, access audit, static-instruction coverage, exponent replay of the inversion addition chains"},
    {"name": "Go race detector", "path": "tools/vcheck.py", "serves_properties": ["C17"],
     "kind_free_text": "go test -race on the injected concurrent workloads, GORACE halt_on_error=0 log_path=..., reports counted and deduplicated by repository frames"},
]

HOOK_COMMITS = ["4af10ce", "bc1d70b"]

NOTES = ("All checks rebuild /repo's current working tree (go test -overlay adds the monitors; nothing in /repo is replaced). "
         "Exit 0 = held on everything explored, 1 = VIOLATION line(s) with replay files under /verif/replays, 2 = INCONCLUSIVE (infrastructure). "
         "arm64-only code cannot be executed in this amd64 sandbox; all claims are for amd64 assembly and portable Go. "
         "Genuine defects found on the pinned tree were repaired by 'fix:' commits in /repo and are listed in KNOWN_FINDINGS.txt.")

NOT_CLAIMED = {
}

CHECKS = {
    "C04": {
        "level": "exploration",
        "rule": "history monitor over Write/Sum/Reset sequences vs an independent one-shot SM3 model: every (length 0..L, split point) pair exhaustively, random 1..12-op histories with boundary-residue chunking, io.Copy plumbing; a class is (final length mod 64, split offset mod 64 | op shape); trivial classes: none; injected mid-message chaining values (each word 0 / all ones / equal to the IV word, all zero, random) set through in-package access to the hash state and continued by histories, model continuing from the same state; messages up to 2 MiB (512 MiB+5 in thorough: bit length beyond 32 bits); injected BYTE COUNTS (2^29 ... 2^61-128, around every power of two) with histories continued across them, the model encoding the length from the same count",
        "assumptions": ["reference SM3 validated against GB/T 32905 examples and 409 OpenSSL digests at start of every run"],
        "units": [gt("sm3", "./sm3/", "TestVerifC04")],
    },
    "C01": {
        "level": "exploration",
        "rule": "round-trip monitor: each case = (entry point, key encoding, digest | id,msg, nonce stream, reader chunking); digests are SOLVED so that r, s and t=(r+s) mod n take every leading-zero-byte count 1..31 and tiny values, plus random cases through Sign/SignZa/SignHashed; a class is (entry, key length, leading-zero bytes of r, s, t); trivial: short key encodings the signer refuses; nonce streams whose first in-range candidate is rejected late (r=0, r+k=n, s=0 via a solved digest) or early; nonces from a 2^-31 class of x([k]G) (fixture found by search); sequential histories with related keys (A, tail of A as a shorter key, equal values in other encodings); a hostile prelude (crafted verifications, short keys) runs first in the same process; keys whose d+1 has carry-critical internal limbs",
        "assumptions": ["reference SM2 (math/big affine) validated against GM/T 0003.5 vectors and 300 OpenSSL signatures at start of every run"],
        "units": [gt("sm2", "./sm2/", "TestVerifC01")],
    },
    "C02": {
        "level": "exploration",
        "rule": "differential monitor vs the GM/T 0003.2 signer model with an event-recording randomness source: random (d,e,stream) plus a rule matrix of streams constructed so that the first candidates hit k-range (0, n, n+1, 2^256-1), r=0, r+k=n, s=0 in sequence; invalid keys must be refused; a class is (rejection sequence, chunking, leading-zero bytes of r and s); unreduced digests (e=n, n+1, 2^256-1, FFFFFFFF||random); nonces from a 2^-31 class of x([k]G) (top 31 bits ones or zeros; fixture found by search) combined with extreme digests so that e+x1 >= 2n; hostile prelude first; nonces from the rare-x1 fixture with digests on both sides of e + x1 = n and 2n; digests and keys SOLVED so that r+k, s, r and d+1 have carry-critical internal (Montgomery) limbs",
        "assumptions": ["reference SM2 validated against GM/T 0003.5 vectors and 300 OpenSSL signatures at start of every run"],
        "units": [gt("sm2", "./sm2/", "TestVerifC02")],
    },
    "C03": {
        "level": "exploration",
        "rule": "differential monitor vs the GM/T 0003.2 verifier model on hostile byte strings: valid tuples built without a private key (e solved from chosen s,t), solved near-misses breaking exactly one side condition (r=0, s=0, r+n, s+n, r+s=n, infinity, key x+p), all 1,280 single-bit flips of N tuples, every wrong argument length 0..40, off-curve keys, garbage; wrappers Verify/VerifyZa on derived inputs; a class is (construction label, model verdict); tuples built from a CHOSEN digest and a CHOSEN point R (P = t^-1(R-[s]G)): e>=n, e=2^256-1, x_R within a few of p so that e+x1>=2n; non-canonical keys x0+p for on-curve x0 anywhere in [0,2^256-p); sequential verification histories over related keys (P,-P,[2]P,Q,-Q,G,-G) with valid and invalid signatures incl. tiny (r+s) mod n; canary key derivations after the workload; chosen R with x1 = 0 (finite point) and x1 in [n, p)",
        "assumptions": ["reference SM2 validated against GM/T 0003.5 vectors and 300 OpenSSL signatures at start of every run"],
        "units": [gt("sm2", "./sm2/", "TestVerifC03")],
    },
    "C12": {
        "level": "exploration",
        "rule": "differential monitor vs the key model: GenerateKey on streams with every ordered sequence of <=2 (sampled 3) out-of-range candidates {0,n-1,n,n+1,2^256-1} and recorded reads; TestPrivateKey on boundary values +-3, one-byte neighbours of n-1 and random strings; DerivePublic and CheckOnCurve on valid, boundary, non-canonical (x+p) and malformed inputs; a class is (operation, plan or boundary name); non-canonical coordinates x0+p for on-curve x0 anywhere in [0,2^256-p); hostile prelude (crafted verifications etc.) first in the same process",
        "assumptions": ["reference SM2 validated against GM/T 0003.5 vectors and 300 OpenSSL signatures at start of every run"],
        "units": [gt("sm2", "./sm2/", "TestVerifC12")],
    },
    "C13": {
        "level": "exploration",
        "rule": "ZA vs SM3(ENTL||id||a||b||G||P) for EVERY id length 0..8193 plus 10 larger ones; Sign/SignZa/SignHashed and Verify/VerifyZa/VerifyHashed equivalence under one recorded stream for every message length 0..L; 300 OpenSSL-produced signatures must verify; a class is (id length mod 64 | exact near 8192, (ZA||M) length mod 64); ids of 8192+ bytes at every length around k*8192 (k=1..9) with default-id / repeated / zero / random contents, also through Sign/Verify; call histories on REUSED id/key/message buffers overwritten in place between calls; hostile prelude first; per-user constants ZA, x, y, d handed over as sub-slices of one caller record (adjacent / separated), record snapshot-compared",
        "assumptions": ["reference SM2/SM3 validated against standard vectors and OpenSSL fixtures at start of every run"],
        "units": [gt("sm2", "./sm2/", "TestVerifC13")],
    },
    "C19": {
        "level": "fault_enumeration",
        "rule": "scripted faulty io.Reader: every byte position of the first failure (0..32*(rejected+1)+1) x streams starting with 0..3 rejected candidates x {io.EOF, io.ErrUnexpectedEOF, custom error} x {error with / after the last data} x chunking {full,1,7,31} x (0,nil) reads, for GenerateKey, SignHashed, SignZa, Sign; oracle = model run on the bytes available before the failure; a class is (entry, rejected count, failing candidate+offset, error kind, chunking); a first candidate rejected late (r=0, r+k=n, s=0 via a solved digest) followed by a failure at every offset of the redraw; the same failure positions through other source TYPES (io.ByteReader, bufio default/16-byte, LimitReader, MultiReader) and as TRANSIENT failures (reported once, data continues)",
        "assumptions": ["quick tier skips half of the interior (position x kind x chunk) cross-product; thorough enumerates it completely"],
        "units": [gt("sm2", "./sm2/", "TestVerifC19")],
    },
    "C20": {
        "level": "exploration",
        "rule": "ConstantTimeCmp vs bytes.Compare: ALL 65,536 one-byte pairs, all pairs over {00,7f,ff} up to length 5 (6 thorough), single differing byte at every position for lengths 1..64 (with and without a randomised tail), sparse differences (two bytes pulling opposite ways, only the high/low halves of 2/4/8/16-byte words aligned from either end, every k-th byte), borrow chains, extremes, l<len; DecomposeNAF for w=1..7 vs the recoding definition (digits zero/odd, |d|<2^w, >=w zeros after a non-zero, weighted sum) on single bits, 2^k-1, 2^256-2^k, byte patterns, runs at every bit offset, n, p and random 256-bit inputs; a class is (helper, construction, length or w); digit buffers longer than n (extra slots stay zero, carry at index n-1); all combinations of operand lengths (exactly l, l+1, l+k, independently for a and b) with equal/different tails and spare capacity",
        "assumptions": ["oracles are bytes.Compare and math/big from the Go standard library"],
        "units": [gt("utils", "./utils/", "TestVerifC20")],
    },
    "C16": {
        "level": "exploration",
        "rule": "differential monitor vs math/big for both fields: operands from all 4-limb combinations of a carry-critical limb alphabet (0,1,2,2^32+-1,2^63,2^64-1, limbs of m, m-1, 2^256 mod m, m>>1; every 5th combination in quick, all in thorough) plus random; ops add/sub/opp/mul/square/select/bytes/ToBigInt/IsZero/Equal incl. aliased receivers, partners chosen to hit a+b=0 and a+b=m-1; Invert vs ModInverse and x*inv=1, Invert(0)=0; SetBytes rejects [m,2^256) at the edges, at every first-exceeding byte, randomly, and wrong lengths; MultiSelect on widths 1..127; a class is (field, top and low limb pattern | random | decoding class); the internal (Montgomery) limbs of EVERY result must be below the modulus; operands solved so that results land on representation edges (0,1,2,m-1,m-2,2^256-m..., 2^64, 2^128, 2^192-1, 2^255); decodings whose Montgomery form is below 2^256-m; operands given by their INTERNAL (Montgomery) limbs over the limb alphabet, results compared limb for limb; operands SOLVED so that the accumulator before the final conditional subtraction of every multiplication/squaring takes each patterned value in [m, 2m) (realised ones counted); MultiSelect over every width 1..130, 200, 254, 255",
        "assumptions": ["oracle is math/big", "the exact inversion exponents (p-2, n-2) are established by the op-trace monitor: every sm2Mul/sm2Square (sm2ScalarMul/Square) call of one inversion is recorded by breakpoints and replayed on exponents; because the chain is straight-line code one trace characterises all inputs"],
        "units": [gt("fiat", "./sm2/internal/fiat/", "TestVerifC16"), {"name": "optrace", "engine": "engine_optrace"}],
    },
    "C14": {
        "level": "exploration",
        "rule": "differential monitor vs the integer multiple by the affine math/big model: base comb schemes 6-3-14 (live), 5-3-17, 4-2-32, 7-3-12 with EVERY window value at EVERY window position (all for the live scheme; a quarter of the others in quick, all in thorough), remainder values, two-window combinations, specials (0,1,n-1,n,n+1,2^255,2^256-1), random; ScalarMult with one-hot nibbles at all 64 positions, scalar lengths 0..40, points G,-G,2G..16G,random in random projective scaling; ScalarMixedMult_Unsafe on NAF-critical patterns and P=[j]G chosen so that [g]G+[s]P hits P+P, P+(-P), infinity; a class is (routine, scheme, window position | construction); long-lived point objects multiplied, updated in place by every mutator (Set, SetBytes, Negate, Add, Double, Select, MultiSelectXYZ) and multiplied again; package-level state checked after the workload",
        "assumptions": ["reference SM2 validated against GM/T 0003.5 vectors and OpenSSL fixtures; results are read through raw limbs x 2^-256 mod p, not through the library's own conversion"],
        "units": [gt("internal", "./sm2/internal/", "TestVerifC14")],
    },
    "C15": {
        "level": "exploration",
        "rule": "Add/Double/Negate/Select over all ordered pairs of a pool (inf, +-G, +-2..5G, (n+-1)/2 G, x=0 point, random) x random projective rescaling (lambda in {1,p-1,2,random}) x aliasing (fresh, q=p1, q=p2, p1=p2, q=p1=p2), result compared in affine form with the model and checked on the projective curve equation; Bytes/Bytes_Unsafe/GetAffineX/GetAffineX_Unsafe agreement and decode(encode)=id; hostile decodings (every length 0..70, every prefix byte, compressed, bit flips, x+p, y+p, random) must fail and leave the receiver unchanged; a class is (op, relation of operands, aliasing | encoding class); projective scalings with limb patterns; decoded points used as receivers; a stateful random walk over a pool of long-lived point objects (all mutators, ScalarMult, ScalarMixedMult, conversions) with a shadow model, all objects compared after every step; package-level state (generator, b, 1, [1]G) checked after the workload; receivers that are VALUE COPIES of an operand (c := *p; slice elements) sharing its coordinate elements",
        "assumptions": ["reference SM2 validated at start of every run"],
        "units": [gt("internal", "./sm2/internal/", "TestVerifC15")],
    },
    "C05": {
        "level": "exploration",
        "rule": "differential monitor vs a reference SM4 whose S-box is computed algebraically: per key (0^128, 1^128, standard example, all 128 single-bit keys, byte repeats, random) the portable and assembly key schedules (enc and dec arrays), portable x1/x2, vector kernels x1/x2/x4/x8/x16 with distinct blocks in every lane, a probe rotated through all 16 lanes, decrypt(encrypt), in-place, S-box covering set (all 256 values in each byte position of round 1); public Encrypt/Decrypt with the accelerated path enabled and disabled, key slice overwritten after construction, key lengths 0..40; a class is (path, key class); many goroutines constructing ciphers for different keys at the same time; object LIFETIME histories: AEADs derived from a Block are used, dropped, collected and finalized (GC + finalizer barrier) while the Block is judged before and after",
        "assumptions": ["reference SM4 validated against GB/T 32907 example (plus 1,000,000-fold iteration in thorough) and 2,000 OpenSSL KATs at start of every run", ARM64_NOTE],
        "units": [gt("sm4", "./sm4/", "TestVerifC05")],
    },
    "C06": {
        "level": "exploration",
        "rule": "Seal(nil,...) vs SP 800-38D GCM over the reference SM4 (bitwise GF(2^128)), on the fused-assembly path and on the std-lib generic path over the portable cipher: every plaintext length and every aad length 0..1100 (a seed-rotated third plus all class lengths in quick; all in thorough), nonce lengths 1..300 at tag 16, tags 12..16 at nonce 12, length-class cross product, counter wrap via nonces SOLVED through GF(2^128) so that the counter wraps j=0..80 (300 thorough) blocks into the message, 700 OpenSSL KATs; a class is (path, kernel combination n256/b128/b64/b32/b16/tail, GHASH class of aad, nonce class, tag size); long-lived AEAD objects serving random sequences of messages; one AEAD shared by all workers sealing concurrently; lengths of 2 MiB; additional data of 2^29+ bytes judged by an O(1) oracle (leading zero blocks leave GHASH at zero); lengths congruent to the special ones modulo 2^8 / 2^16 (2^24 thorough) for nonce, aad and plaintext; object lifetime histories (sibling AEADs / the Block collected and finalized, survivors re-judged)",
        "assumptions": ["reference GCM validated against RFC 8998, 700 OpenSSL SM4-GCM KATs and the std-lib generic GCM at start of every run; nonces longer than 128 bytes have only the model and the std-lib generic mode as oracles (OpenSSL limit)", ARM64_NOTE],
        "units": [gt("sm4", "./sm4/", "TestVerifC06")],
    },
    "C07": {
        "level": "exploration",
        "rule": "Open(nil,...) vs the reference GCM verdict on both paths: every message of the C06 length-class list is opened authentically and under ~10 forgeries (bit flips in ciphertext/tag/nonce/aad, truncation, extension); a set of messages gets the FULL mutation treatment: every single-bit flip of ciphertext, tag, nonce and aad, every truncation, 1..32-byte extensions at both ends, swapped nonce/aad, every length shorter than the tag; a class is (path, mutation kind, message length class); the dst backing array is inspected after a rejected Open (buffer-reuse and in-place idioms: no recognisable decryption may be left); the same buffers re-opened at the end; length-wrap forgeries with 2^29 zero bytes of additional data; nonce/aad/plaintext lengths congruent to the special ones modulo 2^8 / 2^16 (2^24 thorough)",
        "assumptions": ["reference GCM validated at start of every run", ARM64_NOTE],
        "units": [gt("sm4", "./sm4/", "TestVerifC07")],
    },
    "C10": {
        "level": "exploration",
        "rule": "buffer-contract monitor on both paths: Seal/Open with 10 dst shapes (nil, empty non-nil, len=cap prefixes 1/16/17, exact capacity, larger capacity, one byte short) plus the in-place idioms Seal(pt[:0]) / Open(ct[:0]) over all message length classes; result must equal dst||reference output; key, nonce, aad, message and ciphertext live in PROT_READ pages (a write faults at the instruction) and are snapshot-compared; every call is executed twice on the same buffers; SM2: Sign/SignZa/SignHashed/Verify*/ZA/DerivePublic/CheckOnCurve/TestPrivateKey with every input slice in PROT_READ pages (mid/end/start placement), each twice, answers compared with the model; SM3: Sum(in) for 9 (len,cap) shapes and Write from read-only pages; a class is (path, op, dst shape, kernel combination | sm2 op, placement | sm3 shape); every dst prefix length 0..200 with and without room; SM2 inputs carved as sub-slices out of one record (random field order, spare capacity reaching into the next field), the whole record snapshot-compared after every call; cross-argument aliasing allowed by crypto/cipher: additional data (and the nonce) are the bytes dst already holds (Seal(record[:hdr], nonce, record[hdr:], record[:hdr]) and the way back)",
        "assumptions": ["reference GCM/SM3/SM2 validated at start of every run", ARM64_NOTE],
        "units": [gt("sm4", "./sm4/", "TestVerifC10SM4"), gt("sm2", "./sm2/", "TestVerifC10SM2"), gt("sm3", "./sm3/", "TestVerifC10SM3")],
    },
    "C11": {
        "level": "exploration",
        "rule": "guard-page monitor: every pointer argument in its own mapping with PROT_NONE pages on both sides, end-abutting and start-abutting; Block Encrypt/Decrypt for dst/src lengths 0..32 (and short-len/large-cap heap slices), Seal/Open/forged/short-ciphertext for every plaintext length 0..1100 (0..300 plus a seed-rotated fifth and all class lengths in quick), aad 0..300, nonce 1..300, tags 12..16, dst nil or exact-capacity guarded; assembly routines x1..x16, expandKeyAsm, gHashBlocks (1..40 blocks), sealAsm/openAsm called directly with exact-size buffers and round keys laid out as the cipher object (enc then dec, nothing after); a hardware fault = out-of-range access, an ordinary panic on too-short arguments = detected misuse; a class is (path, op, residues mod 16, tag, placement, dst kind); sm2 / sm3 / utils units: every byte-string argument of every exported SM2 function, of SM3 Write/SumSM3 and of ConstantTimeCmp ends on the last accessible byte with a CAPACITY reaching over the PROT_NONE page (an append or over-read faults), or starts on the first one, or lies inside a caller record with canaries (rotated field order, gaps 0/1/8) that is snapshot-compared; answers compared with the model",
        "assumptions": ["a positive control (deliberate 1-byte over-read) must fault in every run", "faults are converted by debug.SetPanicOnFault; red zones are one page wide; non-adjacent accesses are covered by the second monitor: the single-step traces of all assembly routines are audited offline, every effective address (with its access size) must lie inside a buffer handed to the routine, its argument frame or read-only data of the binary (masked vector accesses are audited with the size of one element, the guard pages judge their true extent)", ARM64_NOTE],
        "units": [gt("sm4", "./sm4/", "TestVerifC11"), gt("sm2", "./sm2/", "TestVerifC11SM2"), gt("sm3", "./sm3/", "TestVerifC11SM3"), gt("utils", "./utils/", "TestVerifC11Utils"), {"name": "vtrace-audit", "engine": "engine_vtrace", "prop": "C11", "shards": 16}],
    },
    "C18": {
        "level": "exploration",
        "exhaustive": True,
        "rule": "exhaustive walk of live package state: all 4 SM2 comb schemes incl. remainder tables (every point = Montgomery form of the stated multiple of G, computed by the reference model, limbs canonical), curve constants; SM4 sbox (algebraic derivation), s0..s3 = L(sbox<<24/16/8/0), ck, fk; SM3 Tj<<<(j mod 32), IV; amd64 assembly constants observed through execution: GFNI affine macro on all 256 bytes (and every lane), FK<>/CK<> recovered from expandKeyAsm outputs by inverting T', GHASH multiplier (GCM_POLY, bit-reversal masks, lane shuffles) on all 128x128 basis pairs in the 1-way regime and in the 4-way regime (all 8 block positions in thorough, one rotating position in quick); a class is (table, entry index mod 64 | constant family); the SM2 tables are walked at start AND again after hostile use of every routine that reads them (they are live package state); FIRST USE in fresh processes (16 trials quick, 80 thorough): only the model runs before a barrier, then 48 goroutines make the process's first base multiplications through all schemes, results vs model, each goroutine walks the live tables after its own first call and once more at the end; table entries are re-resolved from the live package variables on every walk",
        "assumptions": ["reference models validated at start of every run", "arm64 data blocks (asm_arm64.s, gcm_arm64.s) cannot be executed in this sandbox and are not claimed", "the static DATA blocks of the amd64 assembly (Shuffle, Shuffle1, Shuffle2, AND_MASK, LOWER_MASK, GCM_POLY, FK, CK, Counter_Add1..3) are additionally read from the running test binary's own memory at the addresses of its symbol table and compared with their derivations (reaches entries no realistic input length exercises); SHUFFLE_X_LANES / MERGE_H01 / MERGE_H23 are implementation-internal permutations without an external derivation and are judged only through execution (gHashBlocks, C06)"],
        "units": [gt("internal", "./sm2/internal/", "TestVerifC18SM2"), gt("sm4", "./sm4/", "TestVerifC18SM4"), gt("sm3", "./sm3/", "TestVerifC18SM3"), gt("internal-first-use", "./sm2/internal/", "TestVerifC18FirstUse"), {"name": "asmdata", "engine": "engine_asmdata"}],
    },
    "C17": {
        "level": "exploration",
        "rule": "stress under the Go race detector: 16..64 goroutines x mixed Encrypt/Decrypt/Seal/Open/forged-Open on ONE Block and ONE AEAD with key, nonce, aad, message and ciphertext buffers shared and write-protected (PROT_READ, so assembly writes fault), both paths, GOMAXPROCS 16/4/2, Gosched between ops; 16..48 goroutines x SignHashed/VerifyHashed/DerivePublic/GenerateKey/Sign+Verify/crafted invalid verifications ((r+s) mod n tiny, one-hot s)/sm3 sharing 4 key sets; truncated tags and non-standard nonce sizes rotate per round; ciphers are constructed concurrently for other keys; every concurrent result compared with the serially precomputed model result (objects are immutable, so this is the linearizability condition); round keys snapshot before/after; race reports deduplicated by repository frames; overlap measured with an atomic in-flight counter (no overlap = inconclusive); a class is (path, workers, GOMAXPROCS); object lifetimes under concurrency (sibling AEADs collected and finalized while goroutines use the Block and a surviving AEAD); FIRST USE in fresh processes: 40 goroutines make the process's first calls of all SM2 entry points at once under the race detector (5 trials quick, 24 thorough)",
        "assumptions": ["the race detector sees Go-side accesses only; assembly writes are observed through page protection of the shared inputs, not of the cipher object itself (compared by snapshot)", "porcupine is not used: there is no mutable shared object whose history needs a linearizability search", ARM64_NOTE],
        "units": [gt("sm4-race", "./sm4/", "TestVerifC17SM4", race=True), gt("sm2-race", "./sm2/", "TestVerifC17SM2", race=True), gt("sm2-race-first-use", "./sm2/", "TestVerifC17FirstUse", race=True)],
    },
    "C08": {
        "level": "exploration",
        "engine_name": "memcheck taint sanitizer",
        "technique": "runtime monitoring: Valgrind/memcheck as a dynamic taint sanitizer (secrets marked undefined by client requests) over the real SM2 code, reports judged offline against verdict-site and deny rules",
        "rule": "each case = one primitive or entry point executed under memcheck with its secret marked undefined: Level 1 (strict, primitives in isolation: ConstantTimeCmp l=0..64, both SetBytes, field/scalar arithmetic, both Fermat inversions, MultiSelect widths 15..127 all window values, all four comb schemes, ScalarMult lengths 1..40, point add/double/select, safe Bytes/GetAffineX, TestPrivateKey) allows reports only at verdict sites lexically outside every loop (ranges computed from the current source with go/parser); Level 2 (SignHashed, GenerateKey, DerivePublic, one taint source per run) applies deny rules V1 Euclid/division, V2 report inside curve/field/table arithmetic, V3 exit inside a comparison loop; two planted gadgets must be reported in every process; a class is a tainted scenario; thorough tier adds paths: first nonce rejected LATE (r=0, r+k=n, s=0; digests solved offline, redraw confirmed), randomness through 1-byte/7-byte reads, bufio and io.ByteReader sources, private key and nonce tainted together, short key encodings in DerivePublic, key generation whose first candidate is n-1",
        "assumptions": ["memcheck tracks the data flow along the executed path for all secret values at once; paths not executed are not covered", "memcheck build uses go1.26.8/amd64 with -tags valgrind (the default toolchain binary is not the one observed)", "instruction-level timing (variable-latency multiply/divide) is invisible", "reports in glue code outside the operations the statement enumerates (math/big finishing of s, the *_Unsafe affine conversions, rejection-loop verdicts) are counted in the evidence but are not violations (DESIGN.md C08)"],
        "units": [{"name": "memcheck", "engine": "engine_memcheck"}],
    },
    "C09": {
        "level": "exploration",
        "engine_name": "ptrace single-step tracer + offline trace monitors",
        "technique": "runtime monitoring: single-step instruction/address traces of the real amd64 assembly routines (ptrace), checked offline by a trace-equality monitor and a dynamic taint interpreter",
        "rule": "each case = one invocation of an assembly routine (expandKeyAsm, cryptoBlockAsm x1..x16 with enc and dec schedules, gHashBlocks, copyAsm, needExpand, sealAsm, openAsm) single-stepped with all buffers at fixed addresses; per length configuration >=4 content assignments (random A/B, all-zero, all-0xFF, single-bit key neighbours) must give identical (pc, effective address) sequences; openAsm is compared within its verdict class (4 authentic, 5 forged incl. first/last/middle tag bit, ciphertext bit, all-zero); a taint interpreter over the same trace (sources: round keys, key, nonce, aad, plaintext/ciphertext, H, tag) flags tainted address registers and tainted flags at Jcc/SETcc/CMOVcc except one verdict jump per openAsm call; configurations drive every loop label taken and not taken (quick ~60 GCM configurations; thorough every plaintext length 0..1100, aad 0..300, nonce 1..300, tags 12..16); a class is (routine, length configuration, verdict class)",
        "assumptions": ["covers the instructions executed by the traced configurations (static coverage per routine is reported; unexecuted instructions are listed)", "objdump decodes every instruction of the routines (checked: no '(bad)')", "microarchitectural effects (variable latency, port contention) are invisible", "arm64 routines (asm_arm64.s, gcm_arm64.s) cannot be executed in this sandbox and are not covered"],
        "units": lambda tier: [{"name": "vtrace", "engine": "engine_vtrace", "prop": "C09", "shards": 16}, {"name": "public-paths", "engine": "engine_paths"}],
    },
}
