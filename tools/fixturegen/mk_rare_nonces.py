#!/usr/bin/env python3
"""Turns nonces found by the one-off search (rare_nonce_search_test.go.txt, lines `FOUND <bool> k=<hex> x=<hex>`
or bare hex k) into fixtures/sm2_rare_nonces.json. x([k]G) is recomputed here with plain affine
arithmetic (independent of the library and of the Go reference model); k and n-k are both recorded
(x([n-k]G) = x([k]G))."""
import json, re, sys
p = 0xFFFFFFFEFFFFFFFFFFFFFFFFFFFFFFFFFFFFFFFF00000000FFFFFFFFFFFFFFFF
a = p - 3
b = 0x28E9FA9E9D9F5E344D5A9E4BCF6509A7F39789F515AB8F92DDBCBD414D940E93
n = 0xFFFFFFFEFFFFFFFFFFFFFFFFFFFFFFFF7203DF6B21C6052B53BBF40939D54123
G = (0x32C4AE2C1F1981195F9904466A39C9948FE30BBFF2660BE1715A4589334C74C7,
     0xBC3736A2F4F6779C59BDCEE36B692153D0A9877CC62A474002DF32E52139F0A0)
def add(P, Q):
    if P is None: return Q
    if Q is None: return P
    if P[0] == Q[0]:
        if (P[1] + Q[1]) % p == 0: return None
        l = (3 * P[0] * P[0] + a) * pow(2 * P[1], -1, p) % p
    else:
        l = (Q[1] - P[1]) * pow(Q[0] - P[0], -1, p) % p
    x = (l * l - P[0] - Q[0]) % p
    return (x, (l * (P[0] - x) - P[1]) % p)
def mul(k, P):
    R = None
    while k:
        if k & 1: R = add(R, P)
        P = add(P, P); k >>= 1
    return R
ks = []
for line in sys.stdin:
    m = re.search(r'k=([0-9a-fA-F]{64})', line)
    if m: ks.append(int(m.group(1), 16))
    elif re.fullmatch(r'\s*[0-9a-fA-F]{64}\s*', line): ks.append(int(line.strip(), 16))
out, seen = [], set()
for k in ks:
    for kk in (k, n - k):
        if kk in seen: continue
        seen.add(kk)
        x = mul(kk, G)[0]
        cls = 'hi' if x >= 2**256 - 2**225 else 'lo' if x < 2**226 else None
        if cls is None:
            print('not rare: %064x' % kk, file=sys.stderr); continue
        out.append({'K': '%064x' % kk, 'X': '%064x' % x, 'Class': cls})
json.dump(out, open(sys.argv[1], 'w'), indent=1)
print(len(out), 'entries')
