// Fixture generator (run once, output committed): SM4-ECB and SM4-GCM known answers from OpenSSL 3.5.
// build: gcc -O2 -I/root/miniconda/include gen_sm4.c -L/root/miniconda/lib -lcrypto -Wl,-rpath,/root/miniconda/lib -o gen_sm4
#include <openssl/evp.h>
#include <stdio.h>
#include <string.h>
#include <stdint.h>
#include <stdlib.h>
static uint64_t st=0x1234567;
static uint64_t rnd(){ st+=0x9e3779b97f4a7c15ULL; uint64_t z=st; z=(z^(z>>30))*0xbf58476d1ce4e5b9ULL; z=(z^(z>>27))*0x94d049bb133111ebULL; return z^(z>>31);}
static void fill(unsigned char*b,int n){ for(int i=0;i<n;i++) b[i]=rnd()&0xff; }
static void hex(const unsigned char*b,int n){ for(int i=0;i<n;i++) printf("%02x",b[i]); }
int main(int argc,char**argv){
  if(argc<2) return 2;
  if(!strcmp(argv[1],"ecb")){
    EVP_CIPHER *c=EVP_CIPHER_fetch(NULL,"SM4-ECB",NULL); if(!c) return 1;
    printf("[\n");
    for(int i=0;i<2000;i++){
      unsigned char k[16],p[16],o[32]; int l,l2; fill(k,16); fill(p,16);
      if(i==0){memset(k,0,16);memset(p,0,16);} if(i==1){memset(k,0xff,16);memset(p,0xff,16);}
      EVP_CIPHER_CTX*x=EVP_CIPHER_CTX_new(); EVP_EncryptInit_ex(x,c,NULL,k,NULL); EVP_CIPHER_CTX_set_padding(x,0);
      EVP_EncryptUpdate(x,o,&l,p,16); EVP_EncryptFinal_ex(x,o+l,&l2); EVP_CIPHER_CTX_free(x);
      printf(" {\"key\":\""); hex(k,16); printf("\",\"pt\":\""); hex(p,16); printf("\",\"ct\":\""); hex(o,16); printf("\"}%s\n", i==1999?"":",");
    }
    printf("]\n");
  } else {
    EVP_CIPHER *c=EVP_CIPHER_fetch(NULL,"SM4-GCM",NULL); if(!c) return 1;
    static const int lens[]={0,1,15,16,17,31,32,33,47,48,63,64,65,79,127,128,129,191,255,256,257,300,383,384,511,512,513,600,767,1023,1024,1100};
    int nl=sizeof(lens)/sizeof(lens[0]);
    printf("[\n"); int first=1;
    for(int i=0;i<700;i++){
      int ivl, tagl, pl, al;
      if(i<128){ ivl=i+1; tagl=16; } else if(i<200){ ivl=12; tagl=12+(i%5);} else { ivl= (rnd()%3==0)?12:(1+rnd()%128); tagl= ivl==12? 12+rnd()%5 : 16; }
      pl= (i<nl*2)? lens[i%nl] : (rnd()%4==0? lens[rnd()%nl] : rnd()%1101);
      al= (rnd()%3==0)? lens[rnd()%nl] : rnd()%300;
      unsigned char k[16], iv[128], *p=malloc(pl+16), *a=malloc(al+16), *o=malloc(pl+32), tag[16]; int l=0,l2=0;
      fill(k,16); fill(iv,ivl); fill(p,pl); fill(a,al);
      EVP_CIPHER_CTX*x=EVP_CIPHER_CTX_new();
      EVP_EncryptInit_ex(x,c,NULL,NULL,NULL);
      if(EVP_CIPHER_CTX_ctrl(x,EVP_CTRL_AEAD_SET_IVLEN,ivl,NULL)!=1){ fprintf(stderr,"ivlen %d refused\n",ivl); return 1;}
      EVP_EncryptInit_ex(x,NULL,NULL,k,iv);
      if(al) EVP_EncryptUpdate(x,NULL,&l,a,al);
      l=0; if(pl) EVP_EncryptUpdate(x,o,&l,p,pl);
      EVP_EncryptFinal_ex(x,o+l,&l2);
      EVP_CIPHER_CTX_ctrl(x,EVP_CTRL_AEAD_GET_TAG,tagl,tag); EVP_CIPHER_CTX_free(x);
      if(!first) printf(",\n"); first=0;
      printf(" {\"key\":\""); hex(k,16); printf("\",\"nonce\":\""); hex(iv,ivl); printf("\",\"aad\":\""); hex(a,al);
      printf("\",\"pt\":\""); hex(p,pl); printf("\",\"ct\":\""); hex(o,pl); printf("\",\"tag\":\""); hex(tag,tagl); printf("\"}");
      free(p);free(a);free(o);
    }
    printf("\n]\n");
  }
  return 0;
}
