#!/usr/bin/env python3
"""One-off: curve points with a chosen Y coordinate (fixtures/sm2_special_points.json). Points with a chosen
x are found at run time by lifting x; a chosen y needs a root of the cubic x^3 - 3x + (b - y^2) mod p, found
here with polynomial arithmetic (gcd with x^p - x, then equal-degree splitting). Classes: y in [n, p) (the
coordinate is canonical but not below the group order), tiny y, y = p-1-k."""
import json, random, sys
p = 0xFFFFFFFEFFFFFFFFFFFFFFFFFFFFFFFFFFFFFFFF00000000FFFFFFFFFFFFFFFF
b = 0x28E9FA9E9D9F5E344D5A9E4BCF6509A7F39789F515AB8F92DDBCBD414D940E93
n = 0xFFFFFFFEFFFFFFFFFFFFFFFFFFFFFFFF7203DF6B21C6052B53BBF40939D54123

def pmul(a, c, f):  # polynomials as coefficient lists (low first), reduce mod monic cubic f
    r = [0] * (len(a) + len(c) - 1)
    for i, x in enumerate(a):
        if x:
            for j, y in enumerate(c):
                r[i + j] = (r[i + j] + x * y) % p
    return pmod(r, f)
def pmod(r, f):
    r = r[:]
    while len(r) >= len(f):
        k = r[-1]
        if k:
            off = len(r) - len(f)
            for i, y in enumerate(f):
                r[off + i] = (r[off + i] - k * y) % p
        r.pop()
    while r and r[-1] == 0: r.pop()
    return r
def ppow(base, e, f):
    res = [1]
    while e:
        if e & 1: res = pmul(res, base, f)
        base = pmul(base, base, f)
        e >>= 1
    return res
def pgcd(a, c):
    while c:
        inv = pow(c[-1], -1, p)
        c = [x * inv % p for x in c]
        a, c = c, pmod(a, c)
    inv = pow(a[-1], -1, p)
    return [x * inv % p for x in a]
def roots(f):  # f monic
    if len(f) == 2: return [(-f[0]) % p]
    if len(f) < 2: return []
    xp = ppow([0, 1], p, f)
    d = xp[:] + [0] * (2 - len(xp))
    d[1] = (d[1] - 1) % p
    while d and d[-1] == 0: d.pop()
    g = pgcd(f, d) if d else f
    out = []
    def split(g):
        if len(g) == 2:
            out.append((-g[0]) % p); return
        if len(g) < 2: return
        while True:
            a = random.randrange(p)
            h = ppow([a, 1], (p - 1) // 2, g)
            h = h[:] + [0] * (1 - len(h))
            h[0] = (h[0] - 1) % p
            while h and h[-1] == 0: h.pop()
            if not h: continue
            d2 = pgcd(g, h)
            if 1 < len(d2) < len(g):
                split(d2)
                # g / d2
                q, r = [], g[:]
                while len(r) >= len(d2):
                    k = r[-1]; off = len(r) - len(d2); q.insert(0, k)
                    for i, y in enumerate(d2): r[off + i] = (r[off + i] - k * y) % p
                    r.pop()
                split(q)
                return
    split(g)
    return out
random.seed(7)
res = []
def want(y0, cls, count, step=1):
    y = y0; got = 0
    while got < count:
        rs = roots([(b - y * y) % p, (-3) % p, 0, 1])
        for x in rs[:1]:
            assert (x * x * x - 3 * x + b - y * y) % p == 0
            res.append({"X": "%064x" % x, "Y": "%064x" % y, "Class": cls}); got += 1
        y += step
want(n, "y>=n", 3)
want(p - 1, "y>=n", 2, -1)
want(n - 1, "y<n-edge", 1, -1)
want(1, "y-tiny", 3)
want(1 << 32, "y-tiny", 1)
json.dump(res, open(sys.argv[1], "w"), indent=1)
print(len(res), "points")
