#!/usr/bin/env python3-vt
"""One-off generator of fixtures/fiat_edge_vectors.json (not part of any check; the checks only replay
the vectors through the real library and compare with integer arithmetic).

The Fiat-Crypto word-by-word code in sm2/internal/fiat/fiat_sm2_64*.go is straight-line code over
bits.Add64 / bits.Sub64 / bits.Mul64. Its rare paths are not branches but CARRY EVENTS: a carry that
comes only from the carry-in, an operand equal to 2^64-1 or 0 when a carry/borrow arrives, a borrow
between equal words. Many of them have probability 2^-32 .. 2^-64 for random and for "nice" operands.
This script interprets the Go source with Python integers (to see which events a vector raises) and
with Z3 bit-vectors (to SOLVE for an operand raising a chosen event at a chosen site, one or two limbs
symbolic, the rest concrete), and writes one witness vector per (function, site, event) it can reach.

usage: fiat_edges.py <repo> <out.json> [func-regex] [--jobs N]
"""
import json, os, re, random, sys, time, multiprocessing

M64 = (1 << 64) - 1
SOLVER_MS = int(os.environ.get("FIAT_SOLVER_MS", "15000"))
P = 0xFFFFFFFEFFFFFFFFFFFFFFFFFFFFFFFFFFFFFFFF00000000FFFFFFFFFFFFFFFF
N = 0xFFFFFFFEFFFFFFFFFFFFFFFFFFFFFFFF7203DF6B21C6052B53BBF40939D54123

FUNCS = {  # name -> (file, arity, modulus)
    "sm2Mul": ("fiat_sm2_64.go", 2, P), "sm2Square": ("fiat_sm2_64.go", 1, P), "sm2Add": ("fiat_sm2_64.go", 2, P),
    "sm2Sub": ("fiat_sm2_64.go", 2, P), "sm2Opp": ("fiat_sm2_64.go", 1, P), "sm2FromMontgomery": ("fiat_sm2_64.go", 1, P),
    "sm2ToMontgomery": ("fiat_sm2_64.go", 1, P),
    "sm2ScalarMul": ("fiat_sm2_64_scalar.go", 2, N), "sm2ScalarSquare": ("fiat_sm2_64_scalar.go", 1, N),
    "sm2ScalarAdd": ("fiat_sm2_64_scalar.go", 2, N), "sm2ScalarSub": ("fiat_sm2_64_scalar.go", 2, N),
    "sm2ScalarOpp": ("fiat_sm2_64_scalar.go", 1, N), "sm2ScalarFromMontgomery": ("fiat_sm2_64_scalar.go", 1, N),
    "sm2ScalarToMontgomery": ("fiat_sm2_64_scalar.go", 1, N),
}


def load_func(repo, name):
    path = os.path.join(repo, "sm2/internal/fiat", FUNCS[name][0])
    src = open(path).read()
    m = re.search(r"^func %s\(.*?\n(.*?)^}" % re.escape(name), src, re.S | re.M)
    if not m:
        raise SystemExit("function %s not found" % name)
    stmts = []
    for line in m.group(1).split("\n"):
        line = line.strip()
        if not line or line.startswith("//") or line.startswith("var "):
            continue
        stmts.append(line)
    return stmts


def tr(expr):
    """Go expression -> Python expression over the environment E."""
    e = expr
    prev = None
    while prev != e:
        prev = e
        e = re.sub(r"uint64\(sm2(?:Scalar)?Uint1\((x\d+)\)\)", r"\1", e)
        e = re.sub(r"sm2(?:Scalar)?Uint1\((x\d+)\)", r"\1", e)
        e = re.sub(r"uint64\((0x[0-9a-fA-F]+)\)", r"\1", e)
    e = re.sub(r"\b(x\d+)\b", r"E['\1']", e)
    e = re.sub(r"\barg(\d)\[(\d)\]", r"E['arg\1_\2']", e)
    e = re.sub(r"\b(0x[0-9a-fA-F]+)\b", r"V(\1)", e)
    return e


def split_args(s):
    out, depth, cur = [], 0, ""
    for ch in s:
        if ch == "(":
            depth += 1
        elif ch == ")":
            depth -= 1
        if ch == "," and depth == 0:
            out.append(cur.strip())
            cur = ""
        else:
            cur += ch
    out.append(cur.strip())
    return out


class Prog:
    def __init__(self, repo, name):
        self.name = name
        self.ops = []  # (kind, outs, args-as-python-exprs)
        self.cuts = []  # variables multiplied by modulus constants: the quotient digits of the reduction rounds
        for st in load_func(repo, name):
            m = re.match(r"^(\w+), (\w+) = bits\.(Mul64|Add64|Sub64)\((.*)\)$", st)
            if m:
                self.ops.append((m.group(3), (m.group(1), m.group(2)), [compile(tr(a), "<e>", "eval") for a in split_args(m.group(4))]))
                if m.group(3) == "Mul64":
                    a0, a1 = split_args(m.group(4))
                    if re.fullmatch(r"x\d+", a0) and re.fullmatch(r"0x[0-9a-fA-F]+", a1) and a0 not in self.cuts:
                        self.cuts.append(a0)
                continue
            m = re.match(r"^sm2(?:Scalar)?CmovznzU64\(&(\w+), (.*)\)$", st)
            if m:
                self.ops.append(("Cmov", (m.group(1),), [compile(tr(a), "<e>", "eval") for a in split_args(m.group(2))]))
                continue
            m = re.match(r"^(x\d+) :?= (.*)$", st)
            if m and "," not in m.group(1):
                self.ops.append(("Let", (m.group(1),), [compile(tr(m.group(2)), "<e>", "eval")]))
                continue
            m = re.match(r"^out1\[(\d)\] = (.*)$", st)
            if m:
                self.ops.append(("Out", (int(m.group(1)),), [compile(tr(m.group(2)), "<e>", "eval")]))
                continue
            m = re.match(r"^(x\d+), (x\d+) = (x\d+), (x\d+)$", st)
            if m:
                self.ops.append(("Let", (m.group(1),), [compile(tr(m.group(3)), "<e>", "eval")]))
                self.ops.append(("Let", (m.group(2),), [compile(tr(m.group(4)), "<e>", "eval")]))
                continue
            raise SystemExit("%s: cannot parse statement: %s" % (name, st))


# ---- value domain: Python int, or z3 BitVec(64) when symbolic
import z3


class V:
    __slots__ = ("v",)

    def __init__(self, v):
        self.v = v

    def sym(self):
        return not isinstance(self.v, int)

    def __add__(self, o):
        if isinstance(self.v, int) and isinstance(o.v, int):
            return V((self.v + o.v) & M64)
        return V(z(self) + z(o))

    def __and__(self, o):
        if isinstance(self.v, int) and isinstance(o.v, int):
            return V(self.v & o.v)
        return V(z(self) & z(o))


def z(x):
    return z3.BitVecVal(x.v, 64) if isinstance(x.v, int) else x.v


def run(prog, args, want=None, env_out=None):
    """Interpret prog. args: list of 4-limb lists of V. Returns (out limbs, events) where events maps
    (site, event) -> True (concrete) or a z3 Bool (symbolic). If want=(site, event) stop at that site."""
    E = {}
    for ai, a in enumerate(args):
        for li, l in enumerate(a):
            E["arg%d_%d" % (ai + 1, li)] = l
    out = [None] * 4
    events = {}
    if env_out is not None:
        env_out["E"] = E
    env = {"E": E, "V": V}
    for kind, outs, exprs in prog.ops:
        vals = [eval(c, env) for c in exprs]
        if kind == "Let":
            E[outs[0]] = vals[0]
        elif kind == "Out":
            out[outs[0]] = vals[0]
        elif kind == "Cmov":
            c, a, b = vals
            if not c.sym():
                E[outs[0]] = a if c.v == 0 else b
            else:
                E[outs[0]] = V(z3.If(z(c) == 0, z(a), z(b)))
        elif kind == "Mul64":
            a, b = vals
            if not a.sym() and not b.sym():
                p = a.v * b.v
                hi, lo = V(p >> 64), V(p & M64)
            else:
                p = z3.ZeroExt(64, z(a)) * z3.ZeroExt(64, z(b))
                hi, lo = V(z3.Extract(127, 64, p)), V(z3.Extract(63, 0, p))
            if outs[0] != "_":
                E[outs[0]] = hi
            if outs[1] != "_":
                E[outs[1]] = lo
        else:  # Add64 / Sub64: (result, carry)
            a, b, c = vals
            site = outs[0] if outs[0] != "_" else outs[1]
            conc = not (a.sym() or b.sym() or c.sym())
            if kind == "Add64":
                if conc:
                    s = a.v + b.v + c.v
                    res, co = V(s & M64), V(s >> 64)
                    ev = {"E1": a.v + b.v > M64, "E2": a.v + b.v == M64 and c.v == 1, "E3": a.v == M64 and c.v == 1, "E4": b.v == M64 and c.v == 1,
                          "E5": s & M64 == 0 and s >> 64 == 1}
                else:
                    s = z3.ZeroExt(1, z(a)) + z3.ZeroExt(1, z(b)) + z3.ZeroExt(1, z(c))
                    res, co = V(z3.Extract(63, 0, s)), V(z3.ZeroExt(63, z3.Extract(64, 64, s)))
                    ab = z3.ZeroExt(1, z(a)) + z3.ZeroExt(1, z(b))
                    ev = {"E1": z3.Extract(64, 64, ab) == 1, "E2": z3.And(ab == M64, z(c) == 1), "E3": z3.And(z(a) == M64, z(c) == 1), "E4": z3.And(z(b) == M64, z(c) == 1),
                          "E5": z3.And(z3.Extract(63, 0, s) == 0, z3.Extract(64, 64, s) == 1)}
            else:
                if conc:
                    d = a.v - b.v - c.v
                    res, co = V(d & M64), V(1 if d < 0 else 0)
                    ev = {"S1": a.v < b.v, "S2": a.v == b.v and c.v == 1, "S3": a.v == 0 and c.v == 1, "S4": b.v == M64 and c.v == 1, "S5": b.v == 0 and c.v == 1 and a.v != 0,
                          "S6": a.v > b.v and c.v == 1 and a.v - b.v == 1}
                else:
                    d = z3.ZeroExt(1, z(a)) - z3.ZeroExt(1, z(b)) - z3.ZeroExt(1, z(c))
                    res, co = V(z3.Extract(63, 0, d)), V(z3.ZeroExt(63, z3.Extract(64, 64, d)))
                    ev = {"S1": z3.ULT(z(a), z(b)), "S2": z3.And(z(a) == z(b), z(c) == 1), "S3": z3.And(z(a) == 0, z(c) == 1), "S4": z3.And(z(b) == M64, z(c) == 1),
                          "S5": z3.And(z(b) == 0, z(c) == 1, z(a) != 0), "S6": z3.And(z(a) - z(b) == 1, z(c) == 1)}
            for k, v in ev.items():
                if conc:
                    if v:
                        events[(site, k)] = True
                else:
                    events[(site, k)] = v
            if outs[0] != "_":
                E[outs[0]] = res
            if outs[1] != "_":
                E[outs[1]] = co
            if want is not None and want[0] == site:
                return out, events
    return out, events


ALPHA = [0, 1, 2, 1 << 32, (1 << 32) - 1, (1 << 32) + 1, 1 << 63, (1 << 63) - 1, M64, M64 - 1, 0xFFFFFFFF00000000, 0xFFFFFFFE00000000, 0xFFFFFFFEFFFFFFFF,
         0x7203DF6B21C6052B, 0x53BBF40939D54123, 0x7203DF6B21C6052A, 0x53BBF40939D54122]


def limbs(v):
    return [(v >> (64 * i)) & M64 for i in range(4)]


def rand_operand(rng, mod):
    while True:
        k = rng.random()
        if k < 0.45:
            ls = [rng.choice(ALPHA) for _ in range(4)]
        elif k < 0.6:
            ls = [rng.choice(ALPHA) if rng.random() < 0.5 else rng.getrandbits(64) for _ in range(4)]
        elif k < 0.7:
            v = (mod - rng.getrandbits(rng.choice([8, 40, 70, 130]))) % mod
            ls = limbs(v)
        else:
            ls = [rng.getrandbits(64) for _ in range(4)]
        v = sum(l << (64 * i) for i, l in enumerate(ls))
        if v < mod:
            return ls


def all_sites(prog):
    sites = []
    for kind, outs, _ in prog.ops:
        if kind in ("Add64", "Sub64"):
            site = outs[0] if outs[0] != "_" else outs[1]
            for k in (("E1", "E2", "E3", "E4", "E5") if kind == "Add64" else ("S1", "S2", "S3", "S4", "S5", "S6")):
                sites.append((site, k))
    return sites


def gauss(b1, b2):
    def n2(v):
        return v[0] * v[0] + v[1] * v[1]
    while True:
        if n2(b2) < n2(b1):
            b1, b2 = b2, b1
        mu = b1[0] * b2[0] + b1[1] * b2[1]
        q = (2 * mu + n2(b1)) // (2 * n2(b1))
        if q == 0:
            return b1, b2
        b2 = (b2[0] - q * b1[0], b2[1] - q * b1[1])


def special(c0, c1, T):
    """all m in [0, 2^64) with hi64(m*c0) + lo64(m*c1) == T (mod 2^64): (m * (c0 + 2^64 c1)) mod 2^128 lies in
    [T*2^64, (T+1)*2^64) - a closest-vector problem in the lattice spanned by (1, C), (0, 2^128)."""
    C = (c0 + (c1 << 64)) % (1 << 128)
    if C == 0:
        return []
    b1, b2 = gauss((1, C), (0, 1 << 128))
    cx, cy = 1 << 63, (T << 64) + (1 << 63)
    det = b1[0] * b2[1] - b1[1] * b2[0]
    u = (cx * b2[1] - cy * b2[0]) // det
    v = (b1[0] * cy - b1[1] * cx) // det
    res = set()
    for i in range(u - 8, u + 10):
        for j in range(v - 8, v + 10):
            x, y = i * b1[0] + j * b2[0], i * b1[1] + j * b2[1]
            if 0 <= x < (1 << 64) and (T << 64) <= y < ((T + 1) << 64):
                res.add(x)
    return sorted(res)


TARGETS = [M64, M64 - 1, 0, 1]


def digits_phase(job):
    """Quotient digits and operand limbs with a SATURATED partial sum: hi(m*c_j) + lo(m*c_j+1) in {2^64-1, 2^64-2, 0, 1}
    for adjacent modulus limbs (m = quotient digit of a reduction round) and for adjacent limbs of a concrete
    partner operand (m = a limb of the other operand). The digit is then realised through an input limb on
    which it depends affinely (two concrete probes give the affine map)."""
    repo, name, seed = job
    rng = random.Random(seed)
    prog = Prog(repo, name)
    _, arity, mod = FUNCS[name]
    ml = limbs(mod)
    cands = set()
    for j in range(3):
        for T in TARGETS:
            cands.update(special(ml[j], ml[j + 1], T))
    cands.update([M64, 0, 1, 1 << 63])
    found = {}

    def concrete(args):
        envo = {}
        _, ev = run(prog, [[V(l) for l in a] for a in args], env_out=envo)
        return ev, envo["E"]

    def keep(args, ev):
        for k in ev:
            if k not in found:
                found[k] = [list(a) for a in args]

    # (1) realise each special digit in each reduction round
    for cut in prog.cuts:
        for M in sorted(cands):
            for attempt in range(6):
                args = [rand_operand(rng, mod) for _ in range(arity)]
                if arity == 2 and attempt % 2 == 0:
                    args[1] = [rng.choice([1, 3, M64, rng.getrandbits(64) | 1])] + [rng.choice(ALPHA) for _ in range(3)]
                    if sum(l << (64 * i) for i, l in enumerate(args[1])) >= mod:
                        continue
                done = False
                for ai in range(arity):
                    for li in (3, 2, 1, 0):
                        probe = []
                        for val in (0, 1, 2):
                            a2 = [list(a) for a in args]
                            a2[ai][li] = val
                            _, E = concrete(a2)
                            x = E.get(cut)
                            probe.append(None if x is None else x.v)
                        if None in probe:
                            continue
                        alpha, beta = (probe[1] - probe[0]) & M64, probe[0]
                        if (probe[2] - probe[1]) & M64 != alpha or alpha % 2 == 0:
                            continue
                        val = ((M - beta) * pow(alpha, -1, 1 << 64)) & M64
                        a2 = [list(a) for a in args]
                        a2[ai][li] = val
                        if sum(l << (64 * i) for i, l in enumerate(a2[ai])) >= mod:
                            continue
                        ev, E = concrete(a2)
                        if E[cut].v == M:
                            keep(a2, ev)
                            done = True
                            break
                    if done:
                        break
    # (2) operand limbs that saturate the partial-product chain against a concrete partner
    if arity == 2 or name.endswith("Square"):
        for attempt in range(60):
            args = [rand_operand(rng, mod) for _ in range(arity)]
            partner = args[1] if arity == 2 else args[0]
            for j in range(3):
                for T in TARGETS:
                    for m in special(partner[j], partner[j + 1], T)[:2]:
                        for li in range(4):
                            a2 = [list(a) for a in args]
                            a2[0][li] = m
                            if sum(l << (64 * i) for i, l in enumerate(a2[0])) >= mod:
                                continue
                            ev, _ = concrete(a2)
                            keep(a2, ev)
                            if arity == 2:
                                a3 = [a2[1], a2[0]]
                                ev, _ = concrete(a3)
                                keep(a3, ev)
    return name, found


def expr_size(e, cap=20000):
    seen, stack, n = set(), [e], 0
    while stack and n < cap:
        x = stack.pop()
        if x.get_id() in seen:
            continue
        seen.add(x.get_id())
        n += 1
        stack.extend(x.children())
    return n


def explore(job):
    repo, name, seed = job
    rng = random.Random(seed)
    prog = Prog(repo, name)
    _, arity, mod = FUNCS[name]
    found = {}
    small = [[1, 0, 0, 0], [0, 1, 0, 0], [0, 0, 1, 0], [0, 0, 0, 1], [2, 0, 0, 0], [M64, 0, 0, 0], [0, 0, 0, 0]]
    for it in range(40000):
        args = [rand_operand(rng, mod) for _ in range(arity)]
        if arity == 2 and rng.random() < 0.1:
            args[1] = list(args[0])
        if arity == 2 and rng.random() < 0.15:
            args[rng.randrange(2)] = list(rng.choice(small))
        _, ev = run(prog, [[V(l) for l in a] for a in args])
        for k in ev:
            if k not in found:
                found[k] = args
    return name, {k: v for k, v in found.items()}


def solve_chunk(job):
    repo, name, seed, targets, budget = job
    rng = random.Random(seed)
    prog = Prog(repo, name)
    _, arity, mod = FUNCS[name]
    found, votes = {}, {}
    t0 = time.time()
    partners = [None, [1, 0, 0, 0], [0, 1, 0, 0], [1, 1, 0, 0], None, [0, 0, 1, 0], [M64, M64, 0, 0], None]
    for t in targets:
        t = tuple(t)
        if time.time() - t0 > budget:
            break
        if t in found:
            continue
        for attempt in range(8):
            args = [rand_operand(rng, mod) for _ in range(arity)]
            if arity == 2 and partners[attempt] is not None:
                args[rng.randrange(2)] = list(partners[attempt])
            best = None
            for ai in range(arity):
                for li in range(4):
                    sargs = [[V(l) for l in a] for a in args]
                    sargs[ai][li] = V(z3.BitVec("a%d_%d" % (ai, li), 64))
                    _, ev = run(prog, sargs, want=t)
                    cond = ev.get(t)
                    if cond is None or cond is True:
                        continue
                    sz = expr_size(cond)
                    if best is None or sz < best[0]:
                        best = (sz, ai, li, cond, sargs)
            if best is None:
                continue
            sz, ai, li, cond, sargs = best
            s = z3.SolverFor("QF_BV")
            s.set("timeout", SOLVER_MS)
            s.add(cond)
            for row in sargs:
                s.add(z3.ULT(z3.Concat(*[z(row[i]) for i in (3, 2, 1, 0)]), z3.BitVecVal(mod, 256)))
            r = s.check()
            if r == z3.sat:
                args[ai][li] = s.model().eval(z(sargs[ai][li]), model_completion=True).as_long()
                _, ev2 = run(prog, [[V(l) for l in a] for a in args])
                if t in ev2:
                    for k in ev2:
                        if k not in found:
                            found[k] = [list(a) for a in args]
                    break
            elif r == z3.unsat:
                votes[t] = votes.get(t, 0) + 1
    return name, found, votes, [tuple(t) for t in targets]


def main():
    repo, outp = sys.argv[1], sys.argv[2]
    pat = sys.argv[3] if len(sys.argv) > 3 and not sys.argv[3].startswith("--") else "."
    budget = 1500
    if "--budget" in sys.argv:
        budget = int(sys.argv[sys.argv.index("--budget") + 1])
    names = [n for n in FUNCS if re.search(pat, n)]
    found = {n: {} for n in names}
    votes = {n: {} for n in names}
    if "--targets-from" in sys.argv:
        # second pass: only the (site, event) pairs an earlier run left undecided, with a longer solver budget
        prev = json.load(open(sys.argv[sys.argv.index("--targets-from") + 1]))
        jobs = []
        for n in names:
            tg = [(s_, e_) for s_, e_, v_ in prev["report"].get(n, {}).get("not_reached", []) if v_ < 6]
            random.Random(2).shuffle(tg)
            for i in range(0, len(tg), 4):
                jobs.append((repo, n, 4242 + i, tg[i:i + 4], budget))
        print("second-pass solve jobs:", len(jobs), flush=True)
        allv = []
        with multiprocessing.Pool(16) as pool:
            for name, f, v, tg in pool.imap_unordered(solve_chunk, jobs):
                for k, a in f.items():
                    found[name].setdefault(k, a)
                print(name, "now", len(found[name]), flush=True)
        for n in names:
            for k, a in sorted(found[n].items()):
                allv.append({"fn": n, "site": k[0], "event": k[1], "args": [["%016x" % l for l in row] for row in a]})
        json.dump({"vectors": allv, "report": {}}, open(outp, "w"), indent=0)
        return
    with multiprocessing.Pool(16) as pool:
        for name, f in pool.imap_unordered(explore, [(repo, n, 12345 + i) for i, n in enumerate(names)]):
            found[name].update(f)
            print(name, "exploration reached", len(f), flush=True)
        for name, f in pool.imap_unordered(digits_phase, [(repo, n, 777 + i) for i, n in enumerate(names)]):
            before = len(found[name])
            for k, a in f.items():
                found[name].setdefault(k, a)
            print(name, "special digits: +%d" % (len(found[name]) - before), flush=True)
        jobs = []
        for n in names:
            tg = [t for t in all_sites(Prog(repo, n)) if t not in found[n]]
            random.Random(1).shuffle(tg)
            for i in range(0, len(tg), 8):
                jobs.append((repo, n, 999 + i, tg[i:i + 8], budget))
        print("solve jobs:", len(jobs), flush=True)
        done = 0
        for name, f, v, tg in pool.imap_unordered(solve_chunk, jobs):
            for k, a in f.items():
                found[name].setdefault(k, a)
            for k, c in v.items():
                votes[name][k] = votes[name].get(k, 0) + c
            done += 1
            if done % 10 == 0:
                print("chunks done", done, "/", len(jobs), {n: len(found[n]) for n in names}, flush=True)
    allv, report = [], {}
    for n in names:
        targets = all_sites(Prog(repo, n))
        for k, a in sorted(found[n].items()):
            allv.append({"fn": n, "site": k[0], "event": k[1], "args": [["%016x" % l for l in row] for row in a]})
        report[n] = {"event_classes": len(targets), "reached": len(found[n]), "not_reached": [list(t) + [votes[n].get(t, 0)] for t in targets if t not in found[n]]}
        print(n, "classes", len(targets), "reached", len(found[n]), flush=True)
    allv.sort(key=lambda v: (v["fn"], int(v["site"][1:]), v["event"]))
    json.dump({"vectors": allv, "report": report}, open(outp, "w"), indent=0)


if __name__ == "__main__":
    main()
