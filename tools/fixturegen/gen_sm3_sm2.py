#!/usr/bin/env python3
# Fixture generator (run once; output committed). SM3 digests from Python hashlib (OpenSSL-backed)
# and SM2 signatures from the OpenSSL 3.5 CLI. Not used at check time.
import hashlib, json, subprocess, os, random, tempfile, re, sys
OSSL='/root/miniconda/bin/openssl'
out=sys.argv[1]
rnd=random.Random(20260926)
# ---- SM3
sm3=[]
for n in list(range(0,400))+[447,448,449,511,512,513,1000,4096,65537]:
    m=bytes(rnd.getrandbits(8) for _ in range(n))
    sm3.append({"msg":m.hex(),"digest":hashlib.new('sm3',m).hexdigest()})
json.dump(sm3,open(os.path.join(out,'sm3_openssl.json'),'w'),indent=0)
# ---- SM2
def run(*a,**k): return subprocess.run(a,check=True,capture_output=True,**k).stdout
def der_int_pair(der):
    assert der[0]==0x30
    i=2 if der[1]<0x80 else 2+(der[1]&0x7f)
    vals=[]
    for _ in range(2):
        assert der[i]==2; l=der[i+1]; v=int.from_bytes(der[i+2:i+2+l],'big'); vals.append(v); i+=2+l
    return vals
sigs=[]
td=tempfile.mkdtemp()
keys=[]
for ki in range(12):
    kp=os.path.join(td,'k%d.pem'%ki)
    run(OSSL,'genpkey','-algorithm','SM2','-out',kp)
    txt=run(OSSL,'pkey','-in',kp,'-text','-noout').decode()
    priv=re.search(r'priv:\s*((?:[0-9a-f]{2}:?\s*)+)',txt).group(1); priv=re.sub(r'[^0-9a-f]','',priv)
    pub=re.search(r'pub:\s*((?:[0-9a-f]{2}:?\s*)+)',txt).group(1); pub=re.sub(r'[^0-9a-f]','',pub)
    assert pub.startswith('04') and len(pub)==130
    keys.append((kp,priv.rjust(64,'0')[-64:],pub[2:66],pub[66:]))
for i in range(300):
    kp,priv,px,py=keys[i%len(keys)]
    if i%7==0: idb=b'1234567812345678'
    elif i%11==0: idb=b''
    else: idb=bytes(rnd.getrandbits(8) for _ in range(rnd.choice([1,2,15,16,17,31,32,55,56,63,64,100,255,256,1000])))
    msg=bytes(rnd.getrandbits(8) for _ in range(rnd.choice([0,1,22,23,24,31,32,54,55,56,63,64,65,100,119,120,300])))
    mp=os.path.join(td,'m.bin'); open(mp,'wb').write(msg)
    args=[OSSL,'pkeyutl','-sign','-rawin','-digest','sm3','-inkey',kp,'-in',mp]
    if len(idb)>0: args+=['-pkeyopt','hexdistid:'+idb.hex()]
    else:
        args+=['-pkeyopt','distid:']
    try:
        der=run(*args)
    except subprocess.CalledProcessError as e:
        if len(idb)==0: continue
        raise
    r,s=der_int_pair(der)
    sigs.append({"priv":priv,"px":px,"py":py,"id":idb.hex(),"msg":msg.hex(),"r":"%064x"%r,"s":"%064x"%s})
json.dump(sigs,open(os.path.join(out,'sm2_openssl.json'),'w'),indent=0)
print(len(sm3),len(sigs))
