"""Engine (C18): the library's own PUBLISHED DERIVATION of the SM2 tables is executed and must reproduce the
stored data. `go run -tags tablegen sm2/internal/make_table.go` (the generator the README points to) writes
sm2/internal/sm2_tables.go relative to its working directory, so it runs in a scratch copy of the current
tree under a temporary directory (removed afterwards); every numeric literal of the generated file is
compared, in order, with the literals of the tree's sm2_tables.go. The stored tables themselves are judged
against the independent model by the in-package walk; this unit judges the derivation path
(export layer behind the tablegen tag included).
"""
import os, re, shutil, subprocess, tempfile, time

REPO = os.environ.get("VERIF_REPO", "/repo")


def go_env():
    env = dict(os.environ)
    env.update({"GOFLAGS": "-mod=mod", "GOPROXY": "off", "GOSUMDB": "off", "GOTOOLCHAIN": "local"})
    return env


def literals(path):
    src = open(path, errors="replace").read()
    src = re.sub(r"//[^\n]*", "", src)
    out = []
    for m in re.finditer(r"\[4\]uint64\{([^}]*)\}", src):
        out += [t.strip() for t in m.group(1).split(",") if t.strip()]
    return out


def run(out, unit, tier, seed, workdir, overlay):
    t0 = time.time()
    gen = os.path.join(REPO, "sm2", "internal", "make_table.go")
    stored = os.path.join(REPO, "sm2", "internal", "sm2_tables.go")
    if not os.path.exists(gen) or not os.path.exists(stored):
        out.inconclusive.append("tablegen: generator or table file not found in the tree")
        return
    scratch = tempfile.mkdtemp(prefix="smgo-tablegen-")
    try:
        tree = os.path.join(scratch, "tree")
        shutil.copytree(REPO, tree, ignore=shutil.ignore_patterns(".git"))
        p = subprocess.run(["go", "run", "-tags", "tablegen", "sm2/internal/make_table.go"], cwd=tree, env=go_env(), capture_output=True, text=True, timeout=900)
        out.units.append({"unit": "tablegen", "rc": p.returncode, "wall_s": round(time.time() - t0, 1)})
        if p.returncode != 0:
            out.inconclusive.append("tablegen: the generator does not run on this tree: " + (p.stdout + p.stderr)[-600:])
            return
        new = literals(os.path.join(tree, "sm2", "internal", "sm2_tables.go"))
        old = literals(stored)
    except Exception as e:
        out.inconclusive.append("tablegen: %s" % e)
        return
    finally:
        shutil.rmtree(scratch, ignore_errors=True)
    out.evaluations += len(old)
    out.classes["tablegen:literals-compared"] = len(old)
    out.counters["tablegen_literals_generated"] = len(new)
    if len(old) < 2000:
        out.inconclusive.append("tablegen: only %d limb literals found in the stored table file (format changed?)" % len(old))
        return
    if len(new) != len(old):
        out.violation("generator-output-differs-from-stored-tables:count", {"stored_literals": len(old), "generated_literals": len(new)}, check="tablegen")
        return
    bad = [i for i in range(len(old)) if int(old[i], 0) != int(new[i], 0)]
    if bad:
        i = bad[0]
        out.violation("generator-output-differs-from-stored-tables", {"differing_literals": len(bad), "first_index": i, "point_index": i // 8, "coordinate": "x" if (i // 4) % 2 == 0 else "y",
                                                                        "stored": old[i], "generated": new[i], "meaning": "the published derivation (make_table.go + the tablegen export layer) no longer produces the data the library ships"}, check="tablegen")
    if len(out.samples) < 8:
        out.samples.append({"monitor": "tablegen", "literals": len(old), "first": old[:4]})
