#!/usr/bin/env python3
"""Regression of the CURRENT checks against every stored change (seeded/<id>, seeded_simple/<id>).

Each change is applied in its own scratch worktree under /tmp (never in /repo), the checks named in its
meta.json are run against that worktree (VERIF_REPO, evidence redirected), the worktree is removed, and
meta.json is updated with the result of this run. A change that was caught before and is not caught now
is printed as REGRESSION (exit 1).

usage: regress.py [--set seeded|seeded_simple|both] [--only id,id] [--workers n] [--thorough]
  --thorough   also re-run the thorough tier for changes recorded as 'caught (thorough tier only)'
"""
import concurrent.futures, glob, json, os, shutil, subprocess, sys, time
VERIF = os.path.dirname(os.path.dirname(os.path.abspath(__file__)))
ENV = dict(os.environ, GOFLAGS="-mod=mod", GOPROXY="off", GOSUMDB="off", GOTOOLCHAIN="local")


def opt(name, default=None):
    if name in sys.argv:
        return sys.argv[sys.argv.index(name) + 1]
    return default


def run_check(wt, prop, tier, outdir):
    env = dict(ENV, VERIF_REPO=wt, VERIF_OUTDIR=outdir, VERIF_TIER=tier)
    r = subprocess.run([sys.executable, os.path.join(VERIF, "tools", "vcheck.py"), prop, "--tier", tier], env=env, capture_output=True, text=True, cwd=VERIF)
    lines = [l.replace(outdir, "<out>")[:220] for l in r.stdout.splitlines() if l.startswith(("VIOLATION", "INCONCLUSIVE", "OK", "KNOWN"))]
    return {0: "missed", 1: "caught", 2: "inconclusive"}.get(r.returncode, "rc=%d" % r.returncode), lines


def one(d):
    sid = os.path.basename(d)
    mp = os.path.join(d, "meta.json")
    meta = json.load(open(mp))
    key = "checks_run" if "checks_run" in meta else "checks"
    prev = dict(meta.get(key) or {})
    if not prev:
        return sid, prev, {}, "not usable"
    wt = "/tmp/wt/rg-%s" % sid
    outdir = "/tmp/rg-out-%s" % sid
    subprocess.call(["git", "-C", "/repo", "worktree", "remove", "--force", wt], stderr=subprocess.DEVNULL)
    shutil.rmtree(outdir, ignore_errors=True)
    subprocess.check_call(["git", "-C", "/repo", "worktree", "add", "-q", "--detach", wt, "HEAD"])
    now, out = {}, []
    try:
        if subprocess.call(["git", "-C", wt, "apply", os.path.join(d, "patch.diff")]) != 0:
            return sid, prev, {}, "patch does not apply"
        for prop, old in prev.items():
            res, lines = run_check(wt, prop, "quick", outdir)
            if res != "caught" and old.startswith("caught (thorough"):
                if "--thorough" in sys.argv:
                    res2, lines2 = run_check(wt, prop, "thorough", outdir)
                    res = old if res2 == "caught" else "missed (thorough tier too: %s)" % res2
                    lines += lines2
                else:
                    res = old
            now[prop] = res
            out += ["%s: %s" % (prop, res)] + ["    " + l for l in lines[:4]]
    finally:
        subprocess.call(["git", "-C", "/repo", "worktree", "remove", "--force", wt])
        shutil.rmtree(outdir, ignore_errors=True)
    meta[key] = now
    meta["check_output"] = out
    meta["date"] = time.strftime("%Y-%m-%d")
    if "first_violation" in meta:
        meta["first_violation"] = next((l.strip() for l in out if "VIOLATION" in l), "")
    json.dump(meta, open(mp, "w"), indent=1)
    return sid, prev, now, ""


def main():
    which = opt("--set", "both")
    only = set(opt("--only", "").split(",")) - {""}
    dirs = []
    if which in ("seeded", "both"):
        dirs += sorted(glob.glob(os.path.join(VERIF, "seeded", "C???")))
    if which in ("seeded_simple", "both"):
        dirs += sorted(glob.glob(os.path.join(VERIF, "seeded_simple", "[ASTUWXZ]??_*")))
    dirs = [d for d in dirs if not only or os.path.basename(d) in only]
    print("changes:", len(dirs), flush=True)
    reg, caught, none = [], 0, []
    with concurrent.futures.ThreadPoolExecutor(max_workers=int(opt("--workers", "3"))) as ex:
        for sid, prev, now, err in ex.map(one, dirs):
            if err:
                print(sid, "SKIPPED:", err, flush=True)
                continue
            was = any(v.startswith("caught") for v in prev.values())
            is_ = any(v.startswith("caught") for v in now.values())
            caught += is_
            if not is_:
                none.append(sid)
            flag = ""
            if was and not is_:
                flag = "  REGRESSION"
                reg.append(sid)
            changed = {p: (prev[p], now[p]) for p in now if prev.get(p) != now[p]}
            print(sid, now, ("changed: %s" % changed) if changed else "", flag, flush=True)
    rp = os.path.join(VERIF, "seeded_simple", "RESULTS.json")
    if os.path.exists(rp):
        results = json.load(open(rp))
        for k in list(results):
            mp = os.path.join(VERIF, "seeded_simple", k, "meta.json")
            if os.path.exists(mp):
                results[k] = json.load(open(mp))
        json.dump(results, open(rp, "w"), indent=1)
    print("SUMMARY changes=%d caught=%d not-caught=%s regressions=%s" % (len(dirs), caught, none, reg))
    sys.exit(1 if reg else 0)


if __name__ == "__main__":
    main()
