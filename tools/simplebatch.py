#!/usr/bin/env python3
"""Confirm and run a batch of small mutants (several per property) written by sub-agents.

usage: simplebatch.py <dir-with-Sxx-subdirs> [--only S01,S02] [--defer]

For every <dir>/Sxx/patch<k>.diff (+ demo<k>_test.go):
  1. in a scratch worktree: the patch applies, the library builds, the existing suite passes with it; the
     demonstration (if there is one) fails with the patch and passes without it  (parallel);
  2. the quick check of the property Cxx is run against the patched /repo (tools/seedrun.py; sequential,
     /repo is always restored);
  3. patch, demonstration and result are stored under /verif/seeded_simple/<Sxx>_<k>/.
Prints a table and writes /verif/seeded_simple/RESULTS.json.
"""
import concurrent.futures, glob, json, os, re, shutil, subprocess, sys, time
VERIF = os.path.dirname(os.path.dirname(os.path.abspath(__file__)))
ENV = dict(os.environ, GOFLAGS="-mod=mod", GOPROXY="off", GOSUMDB="off", GOTOOLCHAIN="local")
PKGDIR = {"sm2": "sm2", "sm2_test": "sm2", "internal": "sm2/internal", "internal_test": "sm2/internal", "fiat_test": "sm2/internal/fiat", "fiat": "sm2/internal/fiat",
          "sm3": "sm3", "sm3_test": "sm3", "sm4": "sm4", "sm4_test": "sm4", "utils": "utils", "utils_test": "utils"}
EXTRA = {"C01": ["C02"], "C02": ["C01"], "C05": [], "C08": [], "C09": [], "C12": [], "C13": [], "C14": ["C16"], "C15": ["C16", "C14"], "C17": []}


def sh(cmd, cwd):
    return subprocess.run(cmd, shell=True, cwd=cwd, env=ENV, capture_output=True, text=True)


def confirm(item):
    sid, k, patch, demo = item
    wt = "/tmp/wt/sb-%s-%s" % (sid, k)
    subprocess.call(["git", "-C", "/repo", "worktree", "remove", "--force", wt], stderr=subprocess.DEVNULL)
    subprocess.check_call(["git", "-C", "/repo", "worktree", "add", "-q", "--detach", wt, "HEAD"])
    res = {"applies": False, "builds": False, "suite_passes": False, "demo": "none"}
    try:
        race = sid[1:] == "17"
        dst = runpat = pkgdir = None
        if demo and os.path.exists(demo):
            src = open(demo).read()
            m = re.search(r"^package (\w+)", src, re.M)
            pkgdir = PKGDIR.get(m.group(1)) if m else None
            tests = re.findall(r"^func (Test\w+)\(", src, re.M)
            if pkgdir and tests:
                runpat = "^(" + "|".join(tests) + ")$"
                dst = os.path.join(wt, pkgdir, "zz_demo_test.go")
        flags = "-race " if race else ""
        r0 = None
        if dst:
            shutil.copy(demo, dst)
            r0 = sh("go test -vet=off -count=1 %s-run '%s' ./%s/" % (flags, runpat, pkgdir), wt)
            os.remove(dst)
        if sh("git apply %s" % patch, wt).returncode != 0:
            return item, res
        res["applies"] = True
        res["builds"] = sh("go build ./...", wt).returncode == 0
        if not res["builds"]:
            return item, res
        res["suite_passes"] = sh("go test -vet=off -count=1 ./...", wt).returncode == 0
        if dst:
            shutil.copy(demo, dst)
            r1 = None
            for attempt in range(3 if race else 1):
                r1 = sh("go test -vet=off -count=1 %s-run '%s' ./%s/" % (flags, runpat, pkgdir), wt)
                if r1.returncode != 0:
                    break
            os.remove(dst)
            res["demo"] = "confirmed" if (r0.returncode == 0 and r1.returncode != 0) else "not-confirmed(clean rc=%d, patched rc=%d)" % (r0.returncode, r1.returncode)
    finally:
        subprocess.call(["git", "-C", "/repo", "worktree", "remove", "--force", wt])
    return item, res


def main():
    base = os.path.abspath(sys.argv[1])
    only = None
    if "--only" in sys.argv:
        only = set(sys.argv[sys.argv.index("--only") + 1].split(","))
    items = []
    for d in sorted(glob.glob(os.path.join(base, "[ASTUWXZ]??"))):
        sid = os.path.basename(d)
        if only and sid not in only:
            continue
        for patch in sorted(glob.glob(os.path.join(d, "patch*.diff"))):
            k = re.search(r"patch(\w+)\.diff", patch).group(1)
            demo = os.path.join(d, "demo%s_test.go" % k)
            items.append((sid, k, patch, demo if os.path.exists(demo) else None))
    print("mutants:", len(items))
    confirmed = []
    with concurrent.futures.ThreadPoolExecutor(max_workers=5) as ex:
        for item, res in ex.map(confirm, items):
            print("confirm", item[0], item[1], res, flush=True)
            confirmed.append((item, res))
    outdir = os.path.join(VERIF, "seeded_simple")
    os.makedirs(outdir, exist_ok=True)
    rp = os.path.join(outdir, "RESULTS.json")
    results = json.load(open(rp)) if os.path.exists(rp) else {}
    for (sid, k, patch, demo), res in confirmed:
        prop = "C" + sid[1:]
        key = "%s_%s" % (sid, k)
        entry = {"property": prop, "confirmation": res}
        ok = res["applies"] and res["builds"] and res["suite_passes"] and res["demo"] in ("confirmed", "none")
        if ok and "--defer" in sys.argv:
            # checks are run afterwards, in parallel scratch worktrees: tools/regress.py --set seeded_simple --only ...
            entry["checks"] = {p: "pending" for p in [prop] + EXTRA.get(prop, [])}
            entry["first_violation"] = ""
        elif ok:
            props = [prop] + EXTRA.get(prop, [])
            out = subprocess.run([sys.executable, os.path.join(VERIF, "tools", "seedrun.py"), patch] + props, capture_output=True, text=True).stdout
            entry["checks"] = {p: ("caught" if ("%s: CAUGHT" % p) in out else ("inconclusive" if ("%s: INCONCLUSIVE" % p) in out else "missed")) for p in props}
            entry["first_violation"] = next((l.strip() for l in out.splitlines() if "VIOLATION" in l), "")
        else:
            entry["checks"] = {}
        sd = os.path.join(outdir, key)
        os.makedirs(sd, exist_ok=True)
        shutil.copy(patch, os.path.join(sd, "patch.diff"))
        if demo:
            shutil.copy(demo, os.path.join(sd, "demo_test.go"))
        notes = os.path.join(os.path.dirname(patch), "NOTES.md")
        if os.path.exists(notes):
            shutil.copy(notes, os.path.join(sd, "NOTES_of_the_batch.md"))
        json.dump(entry, open(os.path.join(sd, "meta.json"), "w"), indent=1)
        results[key] = entry
        print(key, "usable" if ok else "NOT-USABLE", entry["checks"], flush=True)
        json.dump(results, open(rp, "w"), indent=1)
    usable = {k: v for k, v in results.items() if v["checks"]}
    caught = sum(1 for v in usable.values() if "caught" in v["checks"].values())
    print("SUMMARY usable=%d caught=%d missed=%s" % (len(usable), caught, [k for k, v in usable.items() if "caught" not in v["checks"].values()]))


if __name__ == "__main__":
    main()
