#!/bin/sh
# sweep.sh <tier> <seed...> : run every registered check at the given tier for each seed, with evidence
# redirected to a scratch directory; prints only lines that are not OK. Used for silence sweeps.
tier=$1; shift
cd "$(dirname "$0")/.."
out=$(mktemp -d /tmp/sweep.XXXXXX)
for s in "$@"; do
  for c in C01 C02 C03 C04 C05 C06 C07 C08 C09 C10 C11 C12 C13 C14 C15 C16 C17 C18 C19 C20; do
    start=$(date +%s)
    r=$(VERIF_SEED=$s VERIF_OUTDIR=$out python3 tools/vcheck.py $c --tier $tier 2>&1 | cut -c1-300)
    end=$(date +%s)
    echo "$r" | grep -v "^OK" 
    echo "$r" | grep "^OK" | sed "s/$/ [total $((end-start))s]/"
  done
  echo "== seed $s tier $tier done"
done
rm -rf "$out"
