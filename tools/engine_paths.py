"""Engine (C09): path monitor for the PUBLIC sm4 API under tools/vtrace.

Log-only breakpoints sit on every table-driven routine of the portable implementation and of the standard
library's generic GCM; the workload (harness/sm4/zz_verif_paths_test.go, TestVtracePublicPaths) hits the
marker vtMark(id) before each public operation. A forbidden routine executed between two markers means
a public operation was served, on a CPU where the accelerated path is selected, by code whose addresses
depend on key and data (secret-indexed table lookups).
"""
import json, os, re, struct, subprocess, time
import buildtags

REPO = os.environ.get("VERIF_REPO", "/repo")
FORBIDDEN = [
    r"/sm4\.(cryptoBlock|cryptoBlockX2|expandKey|transTPrime|tau|ss|ssX2|encryptX2|decryptX2|newCipherGeneric)$",
    r"/sm4\.\(\*sm4Cipher\)\.(Encrypt|Decrypt)$",
    r"^crypto/cipher\.\(\*gcm\)\.(mul|update|updateBlocks|deriveCounter|auth|counterCrypt|Seal|Open)$",
    r"^crypto/cipher\.newGCMFallback$",
    r"^crypto/internal/fips140/aes/gcm\.",
]


def verif_dir():
    return os.path.dirname(os.path.dirname(os.path.abspath(__file__)))


def go_env():
    env = dict(os.environ)
    env.update({"GOFLAGS": "-mod=mod", "GOPROXY": "off", "GOSUMDB": "off", "GOTOOLCHAIN": "local"})
    return env


def run(out, unit, tier, seed, workdir, overlay):
    verif = os.path.dirname(os.path.dirname(os.path.abspath(__file__)))
    t0 = time.time()
    vt = os.path.join(verif, "bin", "vtrace")
    src = os.path.join(verif, "tools", "vtrace.c")
    try:
        os.makedirs(os.path.dirname(vt), exist_ok=True)
        if not os.path.exists(vt) or os.path.getmtime(vt) < os.path.getmtime(src):
            subprocess.check_call(["gcc", "-O2", "-o", vt, src])
    except Exception as e:
        out.inconclusive.append("paths: cannot build vtrace: %s" % e)
        return
    binp = os.path.join(workdir, "paths_sm4.test")
    p = buildtags.build_sm4(binp, overlay, REPO, go_env(), out, "engine_paths")
    if p.returncode != 0 or not os.path.exists(binp):
        out.inconclusive.append("paths: build failed: " + (p.stdout + p.stderr)[-800:])
        return
    nm = subprocess.run(["go", "tool", "nm", "-n", "-size", "-type", binp], env=go_env(), capture_output=True, text=True).stdout
    bps, names, mark = [], [], None
    for line in nm.splitlines():
        f = line.split()
        if len(f) < 4 or f[2] not in ("T", "t"):
            continue
        addr, name = int(f[0], 16), f[3]
        if name.endswith("/sm4.vtMark"):
            mark = addr
        elif any(re.search(rx, name) for rx in FORBIDDEN):
            bps.append(addr)
            names.append(name)
    if mark is None:
        out.inconclusive.append("paths: marker symbol not found")
        return
    out.notes["path_monitor_breakpoints"] = sorted(n.replace("github.com/bilibili/smgo/", "") for n in names)
    if not any("/sm4.cryptoBlock" in n for n in names):
        out.inconclusive.append("paths: the portable block routine has no symbol in the test binary (inlined or renamed): the path monitor cannot observe it")
        return
    plan = os.path.join(workdir, "paths_plan.jsonl")
    trace = os.path.join(workdir, "paths_trace.bin")
    log = os.path.join(workdir, "paths_run.log")
    for q in (plan, trace):
        if os.path.exists(q):
            os.remove(q)
    arg = ",".join(["%x:m" % a for a in bps] + ["%x:m" % mark])
    env = dict(os.environ, VERIF_VT_PLAN=plan, GODEBUG="asyncpreemptoff=1", GOMAXPROCS="1", VERIF_TIER=tier, VERIF_SEED=str(seed))
    with open(log, "w") as lf:
        rc = subprocess.call(["timeout", "-s", "KILL", "1200", vt, "-o", trace, "-b", arg, "--", binp, "-test.run", "^TestVtracePublicPaths$", "-test.timeout", "20m"],
                             cwd=workdir, env=env, stdout=lf, stderr=subprocess.STDOUT)
    out.units.append({"unit": "public-paths", "rc": rc, "wall_s": round(time.time() - t0, 1)})
    if rc != 0 or not os.path.exists(plan):
        out.inconclusive.append("paths: traced workload failed (rc=%s), see %s" % (rc, log))
        return
    plans = {}
    ended = False
    for line in open(plan):
        pl = json.loads(line)
        plans[pl["id"]] = pl
        ended = ended or pl.get("end", False)
    if 0 in plans:
        out.classes["trivial:accelerated-path-not-available"] = 1
        return
    if not ended:
        out.inconclusive.append("paths: workload did not finish")
        return
    data = open(trace, "rb").read()
    os.remove(trace)
    selection = next((pl["shape"] for pl in plans.values() if pl.get("op") == "selection"), "the library selects the accelerated path on this CPU")
    cur = None
    ops = hits = 0
    seen_end = False
    for off in range(0, len(data) - 151, 152):
        rec = struct.unpack_from("<19Q", data, off)
        tag, hit, rip, rax = rec[0] & 0xff, (rec[0] >> 8) & 0xffff, rec[1], rec[3]
        if tag != 3:
            continue
        if rip == mark:
            cur = plans.get(rax)
            if cur is None:
                continue
            if cur.get("end"):
                seen_end = True
                break
            ops += 1
            out.evaluations += 1
            cls = "public-path:%s" % cur["op"]
            out.classes[cls] = out.classes.get(cls, 0) + 1
        elif cur is not None:
            hits += 1
            nme = names[hit] if hit < len(names) else "?"
            short = nme.replace("github.com/bilibili/smgo/", "")
            out.violation("public-operation-served-by-table-driven-code:%s:%s" % (cur["op"].split(".")[-1], short.split("/")[-1]),
                          {"operation": cur["op"], "shape": cur["shape"], "routine_executed": short,
                           "meaning": "on a CPU where the accelerated path is selected this public operation ran a routine that indexes tables with key/data bytes",
                           "selection": selection})
    if not seen_end:
        out.inconclusive.append("paths: end marker not seen in the trace")
    out.counters["public_operations_traced"] = ops
    out.counters["forbidden_routine_hits"] = hits
    if len(out.samples) < 8:
        out.samples.append({"monitor": "public-path", "operations": ops, "breakpoints": len(bps), "example": plans.get(3)})
    run_steps(out, tier, seed, workdir, vt, binp, nm, mark)


def lib_ranges(binp, nm):
    """[(lo, hi, name)] of the functions of package sm4 that come from the repository's own source files."""
    sizes = {}
    for line in nm.splitlines():
        f = line.split()
        if len(f) >= 4 and f[2] in ("T", "t"):
            try:
                sizes[f[3]] = (int(f[0], 16), int(f[1]))
            except ValueError:
                pass
    od = subprocess.run(["go", "tool", "objdump", "-s", r"bilibili/smgo/sm4\.", binp], env=go_env(), capture_output=True, text=True).stdout
    rngs, harness = [], 0
    for m in re.finditer(r"^TEXT (\S+)\(SB\) ?(\S*)$", od, re.M):
        name, file = m.group(1), m.group(2)
        if name not in sizes:
            continue
        base = os.path.basename(file)
        if base.startswith("zz_verif") or base.endswith("_test.go") or not file:
            harness += 1
            continue
        lo, sz = sizes[name]
        rngs.append((lo, lo + sz, name.replace("github.com/bilibili/smgo/", ""), "a" if file.endswith(".s") else "g"))
    rngs.sort()
    # addresses of the calls to runtime.morestack* (stack growth AND cooperative preemption enter through them)
    more = set()
    for m in re.finditer(r"^\s+\S+\s+0x([0-9a-f]+)\s+[0-9a-f]+\s+CALL runtime\.morestack", od, re.M):
        more.add(int(m.group(1), 16))
    return rngs, harness, more



STDLIB_STEPPED = re.compile(r"^(hash/|crypto/|encoding/|bytes\.|strings\.|math/bits\.|math/big\.|sort\.|slices\.|strconv\.|unicode|container/|bufio\.|github\.com/klauspost/)")


def stdlib_ranges(nm):
    """functions of standard-library (and dependency) packages that compute on data: stepped when reached from the
    package's own code (kind 's'), so that a table lookup or a data-dependent branch inside a callee is seen too"""
    out = []
    for line in nm.splitlines():
        f = line.split()
        if len(f) >= 4 and f[2] in ("T", "t") and STDLIB_STEPPED.match(f[3]):
            try:
                lo, sz = int(f[0], 16), int(f[1])
            except ValueError:
                continue
            if sz > 0:
                out.append((lo, lo + sz, f[3], "s"))
    return out


REGIDX = {"rax": 3, "rbx": 4, "rcx": 5, "rdx": 6, "rsi": 7, "rdi": 8, "rbp": 9, "rsp": 2, "r8": 10, "r9": 11, "r10": 12, "r11": 13, "r12": 14, "r13": 15, "r14": 16, "r15": 17}
MEMOP = re.compile(r"(%[a-z]s:)?(-?0x[0-9a-f]+|-?[0-9]+)?\((%[a-z0-9]+)?(?:,(%[a-z0-9]+)(?:,([1248]))?)?\)")


def mem_operands(binp, rngs, dis_path=None, more=None):
    """pc -> [(disp, base_index, index_index, scale)] for the register-addressed memory operands of the Go functions
    in rngs (binutils objdump, AT&T syntax); lea / nop forms and segment-relative operands are not accesses."""
    ops = {}
    for lo, hi, _n, kind in rngs:
        if kind not in ("g", "s"):
            continue
        od = subprocess.run(["objdump", "-d", "--no-show-raw-insn", "--start-address=0x%x" % lo, "--stop-address=0x%x" % hi, binp], capture_output=True, text=True).stdout
        if dis_path:
            with open(dis_path, "a") as fh:
                fh.write(od)
        if more is not None:
            for mm in re.finditer(r"^\s*([0-9a-f]+):\s+call\s+[0-9a-f]+ <runtime\.morestack", od, re.M):
                more.add(int(mm.group(1), 16))
        for line in od.splitlines():
            m = re.match(r"^\s*([0-9a-f]+):\s+(\S+)\s*(.*)$", line)
            if not m:
                continue
            pc, mnem, rest = int(m.group(1), 16), m.group(2), m.group(3).split("#")[0]
            if mnem.startswith("lea") or mnem.startswith("nop") or mnem.startswith("prefetch"):
                continue
            lst = []
            for mm in MEMOP.finditer(rest):
                seg, disp, base, index, scale = mm.groups()
                if seg or (base and base[1:] == "rip"):
                    continue
                b = REGIDX.get(base[1:]) if base else None
                x = REGIDX.get(index[1:]) if index else None
                if (base and b is None) or (index and x is None):
                    continue
                if b is None and x is None:
                    continue
                lst.append((int(disp, 0) if disp else 0, b, x, int(scale) if scale else 1))
            if lst:
                ops[pc] = lst
    return ops


def run_steps(out, tier, seed, workdir, vt, binp, nm, mark):
    """Second tracer run: whole public operations single-stepped; program counters inside the package's own
    functions must be the same sequence for every assignment of contents of one shape."""
    import bisect, hashlib
    t0 = time.time()
    step = None
    for line in nm.splitlines():
        f = line.split()
        if len(f) >= 4 and f[2] in ("T", "t") and f[3].endswith("/sm4.vtStepRun"):
            step = int(f[0], 16)
    if step is None:
        out.inconclusive.append("paths/steps: vtStepRun has no symbol")
        return
    rngs, nharness, more = lib_ranges(binp, nm)
    if len(rngs) < 10:
        out.inconclusive.append("paths/steps: only %d library functions of package sm4 found in the binary" % len(rngs))
        return
    nlib = len(rngs)
    lib_rngs = list(rngs)
    # standard-library code is stepped too when the package's code calls it (no entry breakpoints there)
    taken = set(r[0] for r in rngs)
    rngs = sorted(rngs + [r for r in stdlib_ranges(nm) if r[0] not in taken])
    los = [r[0] for r in rngs]
    dis_path = os.path.join(workdir, "steps_go.dis")
    if os.path.exists(dis_path):
        os.remove(dis_path)
    st_lo = st_hi = None
    for line in nm.splitlines():
        f = line.split()
        if len(f) >= 4 and f[3] == "runtime.text":
            st_lo = int(f[0], 16)
        elif len(f) >= 4 and f[3] == "runtime.end":
            st_hi = int(f[0], 16)
    plan = os.path.join(workdir, "steps_plan.jsonl")
    trace = os.path.join(workdir, "steps_trace.bin")
    log = os.path.join(workdir, "steps_run.log")
    for q in (plan, trace):
        if os.path.exists(q):
            os.remove(q)
    env = dict(os.environ, VERIF_VT_PLAN=plan, GODEBUG="asyncpreemptoff=1", GOMAXPROCS="1", VERIF_TIER=tier, VERIF_SEED=str(seed))
    rfile = os.path.join(workdir, "steps_ranges.txt")
    with open(rfile, "w") as fh:
        for lo, hi, _n, kind in rngs:
            fh.write("%x %x %s\n" % (lo, hi, kind))
    bparg = ",".join(["%x:G" % step, "%x:m" % mark] + ["%x:L" % r[0] for r in lib_rngs])
    with open(log, "w") as lf:
        rc = subprocess.call(["timeout", "-s", "KILL", "1200", vt, "-o", trace, "-r", rfile, "-b", bparg, "--", binp, "-test.run", "^TestVtracePublicSteps$", "-test.timeout", "20m"],
                             cwd=workdir, env=env, stdout=lf, stderr=subprocess.STDOUT)
    out.units.append({"unit": "public-steps", "rc": rc, "wall_s": round(time.time() - t0, 1)})
    if rc != 0 or not os.path.exists(plan):
        out.inconclusive.append("paths/steps: traced workload failed (rc=%s), see %s" % (rc, log))
        return
    plans, ended = {}, False
    for line in open(plan):
        pl = json.loads(line)
        plans[pl["id"]] = pl
        ended = ended or pl.get("end", False)
    if 0 in plans:
        out.classes["trivial:accelerated-path-not-available"] = 1
        return
    if not ended:
        out.inconclusive.append("paths/steps: workload did not finish")
        return
    # pass 1: which functions did the trace enter? only those are disassembled (memory operands, taint, morestack sites)
    hitfn = set()
    with open(trace, "rb") as fh:
        while True:
            chunk = fh.read(152 * 65536)
            if not chunk:
                break
            for off in range(0, len(chunk) - 151, 152):
                tag, rip = struct.unpack_from("<2Q", chunk, off)
                if tag & 0xff in (0, 1):
                    i = bisect.bisect_right(los, rip) - 1
                    if i >= 0 and rip < rngs[i][1]:
                        hitfn.add(i)
    more = set(more)
    memops = mem_operands(binp, [rngs[i] for i in sorted(hitfn)], dis_path, more)
    out.counters["public_steps_standard_library_functions_stepped"] = sum(1 for i in hitfn if rngs[i][3] == "s")
    # pass 2: marker(id) -> entry -> steps -> returned
    seqs = {}      # id -> list of pcs inside the library
    stat = {}      # id -> list of (pc, effective address) of register-addressed accesses to the binary's static data
    nstat = 0
    cur = None
    total = kept = 0
    with open(trace, "rb") as fh:
        while True:
            chunk = fh.read(152 * 65536)
            if not chunk:
                break
            for off in range(0, len(chunk) - 151, 152):
                tag, rip, _rsp, rax = struct.unpack_from("<4Q", chunk, off)
                kind = tag & 0xff
                if kind == 3:
                    cur = rax if rip == mark else None
                    if cur in plans and not plans[cur].get("end"):
                        seqs[cur] = []
                        stat[cur] = []
                elif kind in (0, 1) and cur in seqs:
                    total += 1
                    i = bisect.bisect_right(los, rip) - 1
                    if i >= 0 and rip < rngs[i][1]:
                        seqs[cur].append(rip)
                        kept += 1
                        mo = memops.get(rip)
                        if mo and st_lo is not None and st_hi is not None:
                            rec = struct.unpack_from("<19Q", chunk, off)
                            for disp, b, x, sc in mo:
                                ea = (disp + (rec[b] if b is not None else 0) + (rec[x] if x is not None else 0) * sc) & 0xffffffffffffffff
                                if st_lo <= ea < st_hi:
                                    stat[cur].append((rip, ea))
                                    nstat += 1
                elif kind == 4 and cur in seqs:
                    seqs[cur].append(-1)
    # ---- taint interpretation of the same trace (all values of the declared secret bytes at once)
    try:
        vc = os.path.join(workdir, "vtcheck_steps")
        subprocess.check_call(["go", "build", "-o", vc, "."], cwd=os.path.join(verif_dir(), "tools", "vtcheck"), env=go_env())
        rep = os.path.join(workdir, "steps_taint_report.jsonl")
        if os.path.exists(rep):
            os.remove(rep)
        rc2 = subprocess.call([vc, "-mode", "steps", "-trace", trace, "-plan", plan, "-dis", dis_path, "-prop", "C09", "-out", rep, "-check", "public-steps-taint"])
        if rc2 != 0 or not os.path.exists(rep):
            out.inconclusive.append("paths/steps: taint interpreter failed (rc=%s)" % rc2)
        else:
            for line in open(rep):
                r = json.loads(line)
                r["evaluations"] = 0  # the operations are counted once, by the sequence comparison
                out.merge_report(r)
    except Exception as e:
        out.inconclusive.append("paths/steps: taint interpreter could not run: %s" % e)
    os.remove(trace)
    # The runtime re-runs a function's prologue when its stack check sends it to runtime.morestack (stack growth,
    # and - far more often under a tracer - a cooperative preemption request). That detour depends on the scheduler,
    # not on the operands: [entry .. check] [spill, CALL morestack, reload, JMP entry] [entry .. check] is reduced
    # to its last run before sequences are compared.
    detours = 0
    for pid, sq in seqs.items():
        k = 0
        while k < len(sq):
            if sq[k] in more:
                i = bisect.bisect_right(los, sq[k]) - 1
                entry = rngs[i][0]
                a = next((x for x in range(k - 1, -1, -1) if sq[x] == entry), None)
                b = next((x for x in range(k + 1, len(sq)) if sq[x] == entry), None)
                if a is not None and b is not None:
                    del sq[a:b]
                    detours += 1
                    k = a
                    continue
            k += 1
    out.counters["public_steps_preemption_detours_removed"] = detours
    def fn_of(pc):
        i = bisect.bisect_right(los, pc) - 1
        return "%s+0x%x" % (rngs[i][2], pc - rngs[i][0]) if i >= 0 and pc < rngs[i][1] else hex(pc)
    groups = {}
    for pid, pl in plans.items():
        if pl.get("end") or pid not in seqs:
            continue
        groups.setdefault((pl["group"], pl.get("class", "")), []).append(pid)
    compared = 0
    empty = 0
    for (g, cls), ids in sorted(groups.items()):
        ids.sort()
        base = seqs[ids[0]]
        if not base:
            empty += 1
        out.evaluations += len(ids)
        op = g.split("/")[0].split("#")[0]
        c = "public-steps:%s%s" % (op, (":" + cls) if cls else "")
        out.classes[c] = out.classes.get(c, 0) + len(ids)
        for pid in ids[1:]:
            compared += 1
            s = seqs[pid]
            if s != base:
                k = next((i for i in range(min(len(s), len(base))) if s[i] != base[i]), min(len(s), len(base)))
                out.violation("public-operation-instruction-sequence-depends-on-contents:%s" % op,
                              {"shape": g, "verdict_class": cls, "contents_a": plans[ids[0]]["variant"], "contents_b": plans[pid]["variant"],
                               "instructions_in_package_a": len(base), "instructions_in_package_b": len(s), "first_difference_at": k,
                               "a_executes": fn_of(base[k]) if k < len(base) else "(ended)", "b_executes": fn_of(s[k]) if k < len(s) else "(ended)",
                               "before": [fn_of(x) for x in base[max(0, k - 3):k]],
                               "meaning": "same operation, same lengths and capacities, different key/nonce/message bytes (or the same bytes a second time): the instructions executed inside package sm4 differ"})
    # static data reached through a register (a table): the address sequence must not depend on contents either
    for (g, cls), ids in sorted(groups.items()):
        base = stat.get(ids[0], [])
        op = g.split("/")[0].split("#")[0]
        for pid in ids[1:]:
            sq = stat.get(pid, [])
            if sq != base and seqs[pid] == seqs[ids[0]]:
                k = next((i for i in range(min(len(sq), len(base))) if sq[i] != base[i]), min(len(sq), len(base)))
                out.violation("public-operation-static-data-address-depends-on-contents:%s" % op,
                              {"shape": g, "verdict_class": cls, "contents_a": plans[ids[0]]["variant"], "contents_b": plans[pid]["variant"],
                               "instruction": fn_of(base[k][0]) if k < len(base) else "(none)",
                               "address_a": hex(base[k][1]) if k < len(base) else None, "address_b": hex(sq[k][1]) if k < len(sq) else None,
                               "meaning": "the same instructions ran, but a load or store inside the binary's static data (a table) used an address that differs between content assignments: a lookup indexed by key, data or hash-key bytes"})
    out.counters["public_steps_static_data_accesses_compared"] = nstat
    if empty:
        out.inconclusive.append("paths/steps: %d shapes executed no instruction inside package sm4 (the operation is not served by the package?)" % empty)
    out.counters["public_steps_traced_instructions"] = total
    out.counters["public_steps_instructions_in_package"] = kept
    out.counters["public_steps_sequences_compared"] = compared
    out.counters["public_steps_shapes"] = len(groups)
    out.notes["public_steps_library_functions"] = "%d Go functions stepped, %d assembly routines logged at entry; %d standard-library functions would be stepped if called from them" % (sum(1 for r in rngs if r[3] == "g"), sum(1 for r in rngs if r[3] == "a"), sum(1 for r in rngs if r[3] == "s"))
    out.notes["public_steps_standard_library_functions_entered"] = sorted(rngs[i][2] for i in hitfn if rngs[i][3] == "s")[:40]
    try:
        m = re.search(r"lib-steps (\d+) lib-lost (\d+)", open(log).read())
        if m:
            out.counters["public_steps_exits_without_resume_point"] = int(m.group(2))
    except Exception:
        pass
    if len(out.samples) < 10:
        g0 = sorted(groups)[0] if groups else None
        out.samples.append({"monitor": "public-steps", "shapes": len(groups), "sequences_compared": compared, "instructions_single_stepped": total,
                            "instructions_inside_package_sm4": kept, "example_shape": g0 and g0[0], "example_length": g0 and len(seqs[groups[g0][0]])})
