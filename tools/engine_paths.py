"""Engine (C09): path monitor for the PUBLIC sm4 API under tools/vtrace.

Log-only breakpoints sit on every table-driven routine of the portable implementation and of the standard
library's generic GCM; the workload (harness/sm4/zz_verif_paths_test.go, TestVtracePublicPaths) hits the
marker vtMark(id) before each public operation. A forbidden routine executed between two markers means
a public operation was served, on a CPU where the accelerated path is selected, by code whose addresses
depend on key and data (secret-indexed table lookups).
"""
import json, os, re, struct, subprocess, time

REPO = os.environ.get("VERIF_REPO", "/repo")
FORBIDDEN = [
    r"/sm4\.(cryptoBlock|cryptoBlockX2|expandKey|transTPrime|tau|ss|ssX2|encryptX2|decryptX2|newCipherGeneric)$",
    r"/sm4\.\(\*sm4Cipher\)\.(Encrypt|Decrypt)$",
    r"^crypto/cipher\.\(\*gcm\)\.(mul|update|updateBlocks|deriveCounter|auth|counterCrypt|Seal|Open)$",
    r"^crypto/cipher\.newGCMFallback$",
    r"^crypto/internal/fips140/aes/gcm\.",
]


def go_env():
    env = dict(os.environ)
    env.update({"GOFLAGS": "-mod=mod", "GOPROXY": "off", "GOSUMDB": "off", "GOTOOLCHAIN": "local"})
    return env


def run(out, unit, tier, seed, workdir, overlay):
    verif = os.path.dirname(os.path.dirname(os.path.abspath(__file__)))
    t0 = time.time()
    vt = os.path.join(verif, "bin", "vtrace")
    src = os.path.join(verif, "tools", "vtrace.c")
    try:
        os.makedirs(os.path.dirname(vt), exist_ok=True)
        if not os.path.exists(vt) or os.path.getmtime(vt) < os.path.getmtime(src):
            subprocess.check_call(["gcc", "-O2", "-o", vt, src])
    except Exception as e:
        out.inconclusive.append("paths: cannot build vtrace: %s" % e)
        return
    binp = os.path.join(workdir, "paths_sm4.test")
    p = subprocess.run(["go", "test", "-c", "-vet=off", "-tags", "verif", "-overlay", overlay, "-o", binp, "./sm4/"], cwd=REPO, env=go_env(), capture_output=True, text=True)
    if p.returncode != 0:
        # declarations of sealAsm/openAsm/copyAsm/needExpand differ from the ones called directly: stub the adapters out
        p2 = subprocess.run(["go", "test", "-c", "-vet=off", "-tags", "verif,verifnoasm", "-overlay", overlay, "-o", binp, "./sm4/"], cwd=REPO, env=go_env(), capture_output=True, text=True)
        if p2.returncode == 0:
            out.notes.setdefault("degraded_builds", []).append("engine_paths: test binary built with tag verifnoasm (direct calls of sealAsm/openAsm/copyAsm/needExpand unavailable on this tree)")
            p = p2
    if p.returncode != 0 or not os.path.exists(binp):
        out.inconclusive.append("paths: build failed: " + (p.stdout + p.stderr)[-800:])
        return
    nm = subprocess.run(["go", "tool", "nm", "-n", "-size", "-type", binp], env=go_env(), capture_output=True, text=True).stdout
    bps, names, mark = [], [], None
    for line in nm.splitlines():
        f = line.split()
        if len(f) < 4 or f[2] not in ("T", "t"):
            continue
        addr, name = int(f[0], 16), f[3]
        if name.endswith("/sm4.vtMark"):
            mark = addr
        elif any(re.search(rx, name) for rx in FORBIDDEN):
            bps.append(addr)
            names.append(name)
    if mark is None:
        out.inconclusive.append("paths: marker symbol not found")
        return
    out.notes["path_monitor_breakpoints"] = sorted(n.replace("github.com/bilibili/smgo/", "") for n in names)
    if not any("/sm4.cryptoBlock" in n for n in names):
        out.inconclusive.append("paths: the portable block routine has no symbol in the test binary (inlined or renamed): the path monitor cannot observe it")
        return
    plan = os.path.join(workdir, "paths_plan.jsonl")
    trace = os.path.join(workdir, "paths_trace.bin")
    log = os.path.join(workdir, "paths_run.log")
    for q in (plan, trace):
        if os.path.exists(q):
            os.remove(q)
    arg = ",".join(["%x:m" % a for a in bps] + ["%x:m" % mark])
    env = dict(os.environ, VERIF_VT_PLAN=plan, GODEBUG="asyncpreemptoff=1", GOMAXPROCS="1", VERIF_TIER=tier, VERIF_SEED=str(seed))
    with open(log, "w") as lf:
        rc = subprocess.call(["timeout", "-s", "KILL", "1200", vt, "-o", trace, "-b", arg, "--", binp, "-test.run", "^TestVtracePublicPaths$", "-test.timeout", "20m"],
                             cwd=workdir, env=env, stdout=lf, stderr=subprocess.STDOUT)
    out.units.append({"unit": "public-paths", "rc": rc, "wall_s": round(time.time() - t0, 1)})
    if rc != 0 or not os.path.exists(plan):
        out.inconclusive.append("paths: traced workload failed (rc=%s), see %s" % (rc, log))
        return
    plans = {}
    ended = False
    for line in open(plan):
        pl = json.loads(line)
        plans[pl["id"]] = pl
        ended = ended or pl.get("end", False)
    if 0 in plans:
        out.classes["trivial:accelerated-path-not-available"] = 1
        return
    if not ended:
        out.inconclusive.append("paths: workload did not finish")
        return
    data = open(trace, "rb").read()
    os.remove(trace)
    cur = None
    ops = hits = 0
    seen_end = False
    for off in range(0, len(data) - 151, 152):
        rec = struct.unpack_from("<19Q", data, off)
        tag, hit, rip, rax = rec[0] & 0xff, (rec[0] >> 8) & 0xffff, rec[1], rec[3]
        if tag != 3:
            continue
        if rip == mark:
            cur = plans.get(rax)
            if cur is None:
                continue
            if cur.get("end"):
                seen_end = True
                break
            ops += 1
            out.evaluations += 1
            cls = "public-path:%s" % cur["op"]
            out.classes[cls] = out.classes.get(cls, 0) + 1
        elif cur is not None:
            hits += 1
            nme = names[hit] if hit < len(names) else "?"
            short = nme.replace("github.com/bilibili/smgo/", "")
            out.violation("public-operation-served-by-table-driven-code:%s:%s" % (cur["op"].split(".")[-1], short.split("/")[-1]),
                          {"operation": cur["op"], "shape": cur["shape"], "routine_executed": short,
                           "meaning": "on a CPU where the accelerated path is selected this public operation ran a routine that indexes tables with key/data bytes"})
    if not seen_end:
        out.inconclusive.append("paths: end marker not seen in the trace")
    out.counters["public_operations_traced"] = ops
    out.counters["forbidden_routine_hits"] = hits
    if len(out.samples) < 8:
        out.samples.append({"monitor": "public-path", "operations": ops, "breakpoints": len(bps), "example": plans.get(3)})
