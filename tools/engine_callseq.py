"""Engine (C08): call-sequence monitor for the SM2 entry points under tools/vtrace.

Log-only breakpoints sit on every function of packages sm2, sm2/internal, sm2/internal/fiat and utils that comes
from the repository's own source files. The workload (harness/sm2/zz_verif_callseq_test.go) runs an entry point
between two markers with the public arguments fixed and the secret varied; the plan file names group, variant
and observed verdict class of every run. Within one (group, class) the sequence of functions entered must be
identical: a decision taken on the result of a permitted verdict (which carries no tainted data, so the taint
sanitizer cannot see it) shows as a different sequence - an inversion that is skipped when the key equals the
previous one, a table that is built only up to the largest digit of the scalar.
"""
import json, os, re, struct, subprocess, time

REPO = os.environ.get("VERIF_REPO", "/repo")


def go_env():
    env = dict(os.environ)
    env.update({"GOFLAGS": "-mod=mod", "GOPROXY": "off", "GOSUMDB": "off", "GOTOOLCHAIN": "local"})
    return env


def library_functions(binp, nm):
    sizes = {}
    for line in nm.splitlines():
        f = line.split()
        if len(f) >= 4 and f[2] in ("T", "t"):
            try:
                sizes[f[3]] = (int(f[0], 16), int(f[1]))
            except ValueError:
                pass
    od = subprocess.run(["go", "tool", "objdump", "-s", r"bilibili/smgo/(sm2|utils)", binp], env=go_env(), capture_output=True, text=True).stdout
    fns = []
    for m in re.finditer(r"^TEXT (\S+)\(SB\) ?(\S*)$", od, re.M):
        name, file = m.group(1), m.group(2)
        base = os.path.basename(file)
        if name not in sizes or not file or base.startswith("zz_verif") or base.endswith("_test.go") or base.startswith("verif_o"):
            continue
        lo, sz = sizes[name]
        fns.append((lo, lo + sz, name.replace("github.com/bilibili/smgo/", "")))
    fns.sort()
    return fns


def after_prologues(binp, fns):
    """entry -> address of the first instruction behind the stack-bound check (the morestack path, also used for
    cooperative preemption, jumps back to the entry: a breakpoint there would be hit twice for one call)"""
    res = {}
    if not fns:
        return res
    lo, hi = fns[0][0], fns[-1][1]
    d = subprocess.run(["objdump", "-d", "--no-show-raw-insn", "--start-address=%#x" % lo, "--stop-address=%#x" % hi, binp], capture_output=True, text=True).stdout
    ins = [(int(a, 16), mn) for a, mn in re.findall(r"^\s*([0-9a-f]+):\s+(\S+)", d, re.M)]
    idx = {a: i for i, (a, _) in enumerate(ins)}
    for flo, fhi, _n in fns:
        i = idx.get(flo)
        res[flo] = flo
        if i is None:
            continue
        for j in range(i, min(i + 6, len(ins) - 1)):
            if ins[j][0] >= fhi:
                break
            if ins[j][1] in ("jbe", "jb", "jls"):
                res[flo] = ins[j + 1][0]
                break
    return res


def run(out, unit, tier, seed, workdir, overlay):
    verif = os.path.dirname(os.path.dirname(os.path.abspath(__file__)))
    t0 = time.time()
    vt = os.path.join(verif, "bin", "vtrace")
    src = os.path.join(verif, "tools", "vtrace.c")
    try:
        os.makedirs(os.path.dirname(vt), exist_ok=True)
        if not os.path.exists(vt) or os.path.getmtime(vt) < os.path.getmtime(src):
            subprocess.check_call(["gcc", "-O2", "-o", vt, src])
    except Exception as e:
        out.inconclusive.append("callseq: cannot build vtrace: %s" % e)
        return
    binp = os.path.join(workdir, "callseq_sm2.test")
    p = subprocess.run(["go", "test", "-c", "-vet=off", "-tags", "verif", "-overlay", overlay, "-o", binp, "./sm2/"], cwd=REPO, env=go_env(), capture_output=True, text=True)
    if p.returncode != 0 or not os.path.exists(binp):
        out.inconclusive.append("callseq: build failed: " + (p.stdout + p.stderr)[-800:])
        return
    nm = subprocess.run(["go", "tool", "nm", "-n", "-size", "-type", binp], env=go_env(), capture_output=True, text=True).stdout
    mark = None
    for line in nm.splitlines():
        f = line.split()
        if len(f) >= 4 and f[3].endswith("/sm2.csMark"):
            mark = int(f[0], 16)
    fns = library_functions(binp, nm)
    if mark is None or len(fns) < 40:
        out.inconclusive.append("callseq: marker or library functions not found in the test binary (functions=%d)" % len(fns))
        return
    ap = after_prologues(binp, fns)
    bps = ["%x:m" % ap[lo] for lo, _hi, _n in fns] + ["%x:m" % mark]
    if len(bps) > 2000:
        out.inconclusive.append("callseq: too many functions for the tracer (%d)" % len(bps))
        return
    names = [n for _lo, _hi, n in fns]
    plan = os.path.join(workdir, "callseq_plan.jsonl")
    trace = os.path.join(workdir, "callseq_trace.bin")
    log = os.path.join(workdir, "callseq_run.log")
    for q in (plan, trace):
        if os.path.exists(q):
            os.remove(q)
    env = dict(os.environ, VERIF_VT_PLAN=plan, GODEBUG="asyncpreemptoff=1", GOMAXPROCS="1", VERIF_TIER=tier, VERIF_SEED=str(seed))
    with open(log, "w") as lf:
        rc = subprocess.call(["timeout", "-s", "KILL", "1500", vt, "-o", trace, "-b", ",".join(bps), "--", binp, "-test.run", "^TestVtraceCallSeq$", "-test.timeout", "25m"],
                             cwd=workdir, env=env, stdout=lf, stderr=subprocess.STDOUT)
    out.units.append({"unit": "call-sequences", "rc": rc, "wall_s": round(time.time() - t0, 1)})
    if rc != 0 or not os.path.exists(plan):
        out.inconclusive.append("callseq: traced workload failed (rc=%s), see %s" % (rc, log))
        return
    plans, ended = {}, False
    for line in open(plan):
        pl = json.loads(line)
        plans[pl["id"]] = pl
        ended = ended or pl.get("end", False)
    if not ended:
        out.inconclusive.append("callseq: workload did not finish")
        return
    seqs, cur, hits = {}, None, 0
    nmark = len(fns)
    with open(trace, "rb") as fh:
        while True:
            chunk = fh.read(152 * 65536)
            if not chunk:
                break
            for off in range(0, len(chunk) - 151, 152):
                tag, _rip, _rsp, rax = struct.unpack_from("<4Q", chunk, off)
                if tag & 0xff != 3:
                    continue
                hit = (tag >> 8) & 0xffff
                if hit == nmark:
                    cur = rax if rax != 0 else None
                    if cur is not None:
                        seqs[cur] = []
                elif cur is not None:
                    seqs[cur].append(hit)
                    hits += 1
    os.remove(trace)
    groups = {}
    for pid, pl in plans.items():
        if pl.get("end") or pid not in seqs:
            continue
        groups.setdefault((pl["group"], pl["class"]), []).append(pid)
    compared = 0
    for (g, cls), ids in sorted(groups.items()):
        ids.sort()
        op = g.split("/")[0]
        c = "call-sequence:%s:%s" % (g.split("#")[0], cls)
        out.classes[c] = out.classes.get(c, 0) + len(ids)
        out.evaluations += len(ids)
        if cls == "panic":
            out.violation("entry-point-panics-for-some-secret:%s" % op, {"shape": g, "variants": [plans[i]["variant"] for i in ids]})
            continue
        base = seqs[ids[0]]
        if not base:
            out.inconclusive.append("callseq: %s entered no library function" % g)
            continue
        for pid in ids[1:]:
            compared += 1
            s = seqs[pid]
            if s != base:
                k = next((i for i in range(min(len(s), len(base))) if s[i] != base[i]), min(len(s), len(base)))
                out.violation("functions-called-depend-on-the-secret:%s" % op,
                              {"shape": g, "verdict_class": cls, "secret_a": plans[ids[0]]["variant"], "secret_b": plans[pid]["variant"],
                               "functions_entered_a": len(base), "functions_entered_b": len(s), "first_difference_at_call": k,
                               "a_enters": names[base[k]] if k < len(base) else "(returned)", "b_enters": names[s[k]] if k < len(s) else "(returned)",
                               "calls_before": [names[x] for x in base[max(0, k - 4):k]],
                               "meaning": "same entry point, same public arguments, same verdict; only the secret (or the order in which secrets were used) differs, and the sequence of library functions entered differs: a decision hangs on the secret that the data-flow sanitizer cannot see (it was taken on the result of a permitted verdict, on a cache hit, on a length derived from the value ...)"})
    # a secret whose verdict class differs from all others of its group is alone in its class: report how many comparisons were possible
    out.counters["callseq_function_entries_logged"] = hits
    out.counters["callseq_sequences_compared"] = compared
    out.counters["callseq_groups"] = len(groups)
    out.notes["callseq_library_functions_with_breakpoints"] = len(fns)
    if compared < 10:
        out.inconclusive.append("callseq: only %d sequence comparisons were possible" % compared)
    if len(out.samples) < 12:
        g0 = sorted(groups)[0] if groups else None
        out.samples.append({"monitor": "call-sequence", "groups": len(groups), "sequences_compared": compared, "function_entries_logged": hits,
                            "example_group": g0 and g0[0], "example_length": g0 and len(seqs[groups[g0][0]])})
