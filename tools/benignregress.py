#!/usr/bin/env python3
"""Run ALL registered quick checks against every stored behaviour-preserving change (benign/<id>/patch.diff), each in
its own scratch worktree under /tmp (never in /repo), several at a time. Any VIOLATION is a false alarm of the
machinery; INCONCLUSIVE runs are listed separately. Writes benign/RESULTS.json.

usage: benignregress.py [--only id,id] [--workers n] [--props C01,C02]
"""
import concurrent.futures, glob, json, os, re, shutil, subprocess, sys
VERIF = os.path.dirname(os.path.dirname(os.path.abspath(__file__)))
ENV = dict(os.environ, GOFLAGS="-mod=mod", GOPROXY="off", GOSUMDB="off", GOTOOLCHAIN="local")


def opt(name, default=None):
    return sys.argv[sys.argv.index(name) + 1] if name in sys.argv else default


PROPS = (opt("--props") or ",".join("C%02d" % i for i in range(1, 21))).split(",")


def one(d):
    bid = os.path.basename(d)
    wt, outdir = "/tmp/wt/bg-%s" % bid, "/tmp/bg-out-%s" % bid
    subprocess.call(["git", "-C", "/repo", "worktree", "remove", "--force", wt], stderr=subprocess.DEVNULL)
    shutil.rmtree(outdir, ignore_errors=True)
    subprocess.check_call(["git", "-C", "/repo", "worktree", "add", "-q", "--detach", wt, "HEAD"])
    res = {}
    try:
        if subprocess.call(["git", "-C", wt, "apply", os.path.join(d, "patch.diff")]) != 0:
            return bid, {"error": "patch does not apply"}
        for p in PROPS:
            env = dict(ENV, VERIF_REPO=wt, VERIF_OUTDIR=outdir, VERIF_TIER="quick")
            r = subprocess.run([sys.executable, os.path.join(VERIF, "tools", "vcheck.py"), p, "--tier", "quick"], env=env, capture_output=True, text=True, cwd=VERIF)
            status = {0: "ok", 1: "ALARM", 2: "inconclusive"}.get(r.returncode, "rc=%d" % r.returncode)
            res[p] = status
            if status != "ok":
                lines = [l.replace(outdir, "<out>")[:400] for l in r.stdout.splitlines() if l.startswith(("VIOLATION", "INCONCLUSIVE"))]
                res[p + ":lines"] = lines[:6]
                for l in lines[:2]:
                    m = re.search(r"replay=(\S+)", l)
                    if m:
                        rp = m.group(1).replace("<out>", outdir)
                        if os.path.exists(rp):
                            res[p + ":replay"] = open(rp).read()[:1500]
    finally:
        subprocess.call(["git", "-C", "/repo", "worktree", "remove", "--force", wt])
        shutil.rmtree(outdir, ignore_errors=True)
    return bid, res


def main():
    only = set((opt("--only") or "").split(",")) - {""}
    dirs = [d for d in sorted(glob.glob(os.path.join(VERIF, "benign", "[A-Z][0-9][0-9]"))) if not only or os.path.basename(d) in only]
    print("changes:", len(dirs), "checks each:", len(PROPS), flush=True)
    rp = os.path.join(VERIF, "benign", "RESULTS.json")
    allres = json.load(open(rp)) if os.path.exists(rp) else {}
    alarms = incon = 0
    with concurrent.futures.ThreadPoolExecutor(max_workers=int(opt("--workers", "3"))) as ex:
        for bid, res in ex.map(one, dirs):
            allres[bid] = res
            bad = {k: v for k, v in res.items() if ":" not in k and v != "ok"}
            alarms += sum(1 for v in bad.values() if v == "ALARM")
            incon += sum(1 for v in bad.values() if v == "inconclusive")
            print(bid, "all ok" if not bad else bad, flush=True)
            for k, v in res.items():
                if k.endswith(":lines"):
                    for l in v:
                        print("    ", l[:300], flush=True)
            json.dump(allres, open(rp, "w"), indent=1)
    print("SUMMARY changes=%d alarms=%d inconclusive=%d" % (len(dirs), alarms, incon))


if __name__ == "__main__":
    main()
