#!/usr/bin/env python3
"""Replay a violation: print the recorded witness and re-run the owning check with the recorded seed/tier."""
import json, os, subprocess, sys
p = sys.argv[1]
d = json.load(open(p))
print(json.dumps({k: d[k] for k in d if k != "detail"}, indent=1))
print("witness:", json.dumps(d.get("detail"), indent=1)[:4000])
env = dict(os.environ, VERIF_SEED=str(d.get("seed", 1)))
here = os.path.dirname(os.path.abspath(__file__))
sys.exit(subprocess.call([sys.executable, os.path.join(here, "vcheck.py"), d["property"], "--tier", d.get("tier", "quick")], env=env, cwd=os.path.dirname(here)))
